(* C10_Audit.v — statements added by the clause audit (docs/audit/C10.md):
     - the digest pin as a comparison of two strings ([classify])
     - the empty listing and the listing error, whatever ListSignatures answers at the end
     - the case analysis of a reached listing is exhaustive
     - the property's wording of success names the FIRST verifying signature
     - the literal iff of the property text without the Verifier contract is false
     - the callback never fetches more than N signatures, whatever the repository
       does with the callback (no assumption on ListSignatures)
   Proofs only use C10_Proofs. *)
From NV Require Import Base C10_Model C10_Proofs.
Local Open Scope list_scope.

(* ---------- the digest pin ---------- *)

Lemma classify_digest dg resolved :
  classify (PDigest dg) resolved = if String.eqb dg resolved then RDigSame else RDigDiff.
Proof. reflexivity. Qed.

Lemma classify_diff dg resolved : dg <> resolved -> classify (PDigest dg) resolved = RDigDiff.
Proof. intros H. cbn. destruct (String.eqb_spec dg resolved); [contradiction | reflexivity]. Qed.

Lemma classify_same dg : classify (PDigest dg) dg = RDigSame.
Proof. cbn. rewrite String.eqb_refl. reflexivity. Qed.

(* a digest reference whose string differs from the string of the resolved digest:
   the mismatch error right after Resolve *)
Lemma pin_refuses i dg resolved :
  i_ref i = classify (PDigest dg) resolved -> dg <> resolved ->
  past_skip i -> i_rerr i = false ->
  model i = err_obs RDigestMismatch (pre_of i ++ [ER]).
Proof.
  intros Hc Hne Hp He. apply err_digest_mismatch; [exact Hp | | exact He].
  rewrite Hc. apply classify_diff. exact Hne.
Qed.

(* ... and for EVERY input with such a reference: no success except by skip, nothing
   listed, fetched or verified *)
Lemma pin_mismatch_all i dg resolved :
  i_ref i = classify (PDigest dg) resolved -> dg <> resolved ->
  (o_res (model i) = ROk -> i_skip i = SkipYes) /\
  ~ In EL (o_log (model i)) /\ fetches (o_log (model i)) = [] /\ verifies (o_log (model i)) = [].
Proof.
  intros Hc Hne. rewrite (classify_diff dg resolved Hne) in Hc.
  destruct (model_not_reaching i) as [Hr | [(E & _ & _ & _ & Hs) | (r & log & E & Hn & Hl)]].
  - destruct Hr as (_ & _ & _ & _ & [H | H] & _); congruence.
  - rewrite E. cbn. split; [intros _; exact Hs|]. split; [|split; reflexivity].
    intros [H | []]. discriminate.
  - rewrite E. cbn [err_obs o_res o_log]. split; [intros H; congruence|].
    destruct Hl as [-> | [-> | [-> | ->]]]; cbn; (split; [|split; reflexivity]); intuition discriminate.
Qed.

(* a success on a digest reference: the verifier skipped, or the two strings are equal *)
Lemma pin_success i dg resolved :
  i_ref i = classify (PDigest dg) resolved -> o_res (model i) = ROk ->
  i_skip i = SkipYes \/ dg = resolved.
Proof.
  intros Hc Hok. destruct (String.eqb_spec dg resolved) as [E | Hne]; [right; exact E|].
  left. exact (proj1 (pin_mismatch_all i dg resolved Hc Hne) Hok).
Qed.

(* ---------- the empty listing, the listing error ---------- *)

Lemma err_empty_listing_any i :
  reaches_listing i -> listing i = [] ->
  model i = err_obs (if i_lerr i then RListErr else RNoSignature) (head_of i).
Proof.
  intros Hr Hl. destruct (i_lerr i) eqn:E.
  - apply err_list_error; assumption.
  - apply err_empty_listing; assumption.
Qed.

(* fewer than N signatures, all failing, and ListSignatures itself fails at the end *)
Lemma err_list_error_after i :
  reaches_listing i -> (Z.of_nat (List.length (listing i)) < i_max i)%Z ->
  (forall j, j < List.length (listing i) -> nth_error (listing i) j = Some Bd) -> i_lerr i = true ->
  model i = err_obs RListErr (head_of i ++ pairs 0 (List.length (listing i))).
Proof.
  intros Hr Hlt Hb He. rewrite (model_head i Hr).
  unfold listing_obs. fold (listing i).
  apply find_stop_none with (p := 0) in Hb. rewrite Hb, He.
  assert (E : (i_max i <=? Z.of_nat (List.length (listing i)))%Z = false) by (apply Z.leb_gt; exact Hlt).
  rewrite E. reflexivity.
Qed.

(* ---------- the case analysis of a reached listing is exhaustive ---------- *)

Lemma cases_exhaustive (l : list sigk) (max : Z) :
  (exists k, first_good l max k) \/
  (exists k x, first_stop l k x /\ (x = U \/ x = NO) /\ (Z.of_nat k < max)%Z) \/
  (forall j, (Z.of_nat j < max)%Z -> nth_error l j = Some Bd) \/
  ((Z.of_nat (List.length l) < max)%Z /\ forall j, j < List.length l -> nth_error l j = Some Bd).
Proof.
  destruct (find_stop l 0) as [[k x]|] eqn:Ef.
  - apply find_stop0_some in Ef. pose proof Ef as (Hn & Hx & Hb).
    destruct (Z.ltb_spec (Z.of_nat k) max) as [Hk | Hk].
    + destruct x.
      * left. exists k. split; [exact Hk|]. split; assumption.
      * congruence.
      * right; left. exists k, U. auto.
      * right; left. exists k, NO. auto.
    + right; right; left. intros j Hj. apply Hb. lia.
  - rewrite find_stop_none in Ef.
    destruct (Z.ltb_spec (Z.of_nat (List.length l)) max) as [Hn | Hn].
    + right; right; right. split; assumption.
    + right; right; left. intros j Hj. apply Ef. lia.
Qed.

(* ---------- the wording of the property names the first verifying signature ---------- *)

Lemma first_good_wins i k :
  reaches_listing i -> ~ In NO (listing i) ->
  (Z.of_nat k < i_max i)%Z -> nth_error (listing i) k = Some G ->
  (forall j, j < k -> nth_error (listing i) j <> Some U) ->
  exists k0, k0 <= k /\ nth_error (listing i) k0 = Some G /\
    (forall j, j < k0 -> nth_error (listing i) j = Some Bd) /\
    model i = mk_obs ROk DResolved (OSig k0) (head_of i ++ pairs 0 (S k0)) true.
Proof.
  intros Hr Hno Hk Hn Hu. rewrite (model_head i Hr).
  destruct (find_stop (listing i) 0) as [[k0 x]|] eqn:Ef.
  - apply find_stop0_some in Ef. destruct Ef as (Hn0 & Hx & Hb).
    assert (Hle : k0 <= k).
    { destruct (Nat.le_gt_cases k0 k) as [H|H]; [exact H|]. rewrite (Hb k H) in Hn. discriminate. }
    assert (Hg : x = G).
    { destruct (Nat.eq_dec k0 k) as [->|Hne]; [congruence|].
      destruct x; try reflexivity; try congruence.
      - exfalso. apply (Hu k0); [lia | exact Hn0].
      - exfalso. apply Hno. eapply nth_error_In. exact Hn0. }
    subst x. exists k0. split; [exact Hle|]. split; [exact Hn0|]. split; [exact Hb|].
    apply listing_obs_good. split; [lia|]. split; assumption.
  - exfalso. rewrite find_stop_none in Ef.
    assert (Hlt : k < List.length (listing i)) by (apply nth_error_Some; congruence).
    rewrite (Ef k Hlt) in Hn. discriminate.
Qed.

(* ---------- without the Verifier contract the literal iff is false ---------- *)

(* listing [NO; G], limit 2: signature 1 verifies, signature 0 could be fetched, yet
   Verify returns the verifier's error for signature 0 *)
Definition witness_no_contract : input :=
  mk_input false false 2 NoSkipper RTag false [[NO]; [G]] false.

Lemma iff_without_contract_refuted :
  exists i, reaches_listing i /\
    (exists k, (Z.of_nat k < i_max i)%Z /\ nth_error (listing i) k = Some G /\
               forall j, j < k -> nth_error (listing i) j <> Some U) /\
    model i = err_obs (RNilOutcome 0) [ER; EL; EF 0; EV 0].
Proof.
  exists witness_no_contract. split; [|split].
  - unfold reaches_listing, witness_no_contract. cbn. repeat split; auto; lia.
  - exists 1. cbn. split; [lia|]. split; [reflexivity|].
    intros j Hj. destruct j as [|j]; [cbn; discriminate | lia].
  - reflexivity.
Qed.

(* ---------- the callback alone bounds the fetches ---------- *)

(* [drive] (C10_Model): the closure handed to ListSignatures, invoked on ANY sequence of
   pages, its results ignored *)

(* counter = number of fetches so far; verifications never outnumber fetches *)
Definition counted (s : st) : Prop :=
  List.length (fetches (s_log s)) = s_n s /\ List.length (verifies (s_log s)) <= s_n s.

Lemma fetches_snoc_F lg k : fetches (lg ++ [EF k]) = fetches lg ++ [k].
Proof. rewrite fetches_app. reflexivity. Qed.
Lemma fetches_snoc_V lg k : fetches (lg ++ [EV k]) = fetches lg.
Proof. rewrite fetches_app. cbn. apply app_nil_r. Qed.
Lemma verifies_snoc_F lg k : verifies (lg ++ [EF k]) = verifies lg.
Proof. rewrite verifies_app. cbn. apply app_nil_r. Qed.
Lemma verifies_snoc_V lg k : verifies (lg ++ [EV k]) = verifies lg ++ [k].
Proof. rewrite verifies_app. reflexivity. Qed.

Lemma page_loop_counted max : forall page pos s,
  counted s ->
  counted (fst (page_loop max pos s page)) /\
  s_n s <= s_n (fst (page_loop max pos s page)) /\
  (Z.of_nat (s_n (fst (page_loop max pos s page))) <= Z.max (Z.of_nat (s_n s)) max)%Z.
Proof.
  induction page as [|x r IH]; intros pos s Hc; cbn [page_loop].
  - cbn. split; [exact Hc|]. split; lia.
  - destruct (max <=? Z.of_nat (s_n s))%Z eqn:E.
    + cbn. split; [exact Hc|]. split; lia.
    + apply Z.leb_gt in E. destruct Hc as (Hf & Hv).
      destruct x; cbn [fst s_n s_failed s_ok s_log].
      * (* G *) split; [|split; lia]. split; cbn [s_n s_log].
        -- rewrite fetches_snoc_V, fetches_snoc_F, app_length. cbn. lia.
        -- rewrite verifies_snoc_V, verifies_snoc_F, app_length. cbn. lia.
      * (* Bd *)
        match goal with |- context [page_loop max (S pos) ?t r] => set (s2 := t) end.
        assert (Hc2 : counted s2).
        { split; cbn [s2 s_n s_log].
          - rewrite fetches_snoc_V, fetches_snoc_F, app_length. cbn. lia.
          - rewrite verifies_snoc_V, verifies_snoc_F, app_length. cbn. lia. }
        destruct (IH (S pos) s2 Hc2) as (H1 & H2 & H3). cbn [s2 s_n] in H2, H3.
        split; [exact H1|]. split; lia.
      * (* U *) split; [|split; lia]. split; cbn [s_n s_log].
        -- rewrite fetches_snoc_F, app_length. cbn. lia.
        -- rewrite verifies_snoc_F. lia.
      * (* NO *) split; [|split; lia]. split; cbn [s_n s_log].
        -- rewrite fetches_snoc_V, fetches_snoc_F, app_length. cbn. lia.
        -- rewrite verifies_snoc_V, verifies_snoc_F, app_length. cbn. lia.
Qed.

Lemma drive_counted max : forall calls s,
  counted s ->
  counted (drive max s calls) /\
  (Z.of_nat (s_n (drive max s calls)) <= Z.max (Z.of_nat (s_n s)) max)%Z.
Proof.
  induction calls as [|[pos page] r IH]; intros s Hc; cbn [drive].
  - split; [exact Hc | lia].
  - destruct (page_loop_counted max page pos s Hc) as (H1 & H2 & H3).
    destruct (IH _ H1) as (H4 & H5). split; [exact H4 | lia].
Qed.

(* the start state of the closure in notation.Verify: counter 0, a log without fetches *)
Lemma callback_never_exceeds max calls head :
  fetches head = [] -> verifies head = [] ->
  let s := drive max (mk_st 0 [] None head) calls in
  (Z.of_nat (List.length (fetches (s_log s))) <= Z.max 0 max)%Z /\
  List.length (verifies (s_log s)) <= List.length (fetches (s_log s)).
Proof.
  intros Hf Hv s.
  assert (Hc : counted (mk_st 0 [] None head)).
  { split; cbn [s_log s_n]; [rewrite Hf | rewrite Hv]; reflexivity. }
  destruct (drive_counted max calls _ Hc) as ((H1 & H2) & H3). fold s in H1, H2, H3.
  cbn [s_n] in H3. rewrite H1. split; [lia | exact H2].
Qed.

(* pages_loop (the conforming repository) is one such sequence, cut at the first error *)
Lemma pages_loop_is_drive max : forall pages pos s,
  exists calls, fst (pages_loop max pos s pages) = drive max s calls.
Proof.
  induction pages as [|p ps IH]; intros pos s; cbn [pages_loop].
  - exists []. reflexivity.
  - destruct (page_loop max pos s p) as [s' c] eqn:E. destruct c as [|e].
    + destruct (IH (pos + List.length p) s') as (calls & Hc).
      exists ((pos, p) :: calls). cbn [drive]. rewrite E. exact Hc.
    + exists [(pos, p)]. cbn [drive]. rewrite E. reflexivity.
Qed.

(* ---------- the rogue-repository cases: [dmodel] meets [dspec_ok] ---------- *)

Lemma count_fetches_eq log : count_fetches log = List.length (fetches log).
Proof.
  unfold count_fetches, fetches. induction log as [|e r IH]; [reflexivity|].
  destruct e; cbn; rewrite <- ?IH; reflexivity.
Qed.

(* the "previous call" state of [verify_follows_fetch] after a log *)
Fixpoint last_fetch (prev : option nat) (log : list ev) : option nat :=
  match log with
  | [] => prev
  | EF k :: r => last_fetch (Some k) r
  | _ :: r => last_fetch None r
  end.

Lemma last_fetch_app : forall a p b, last_fetch p (a ++ b) = last_fetch (last_fetch p a) b.
Proof. induction a as [|e a IH]; intros p b; [reflexivity|]. destruct e; cbn; apply IH. Qed.

Lemma vff_app : forall a p b,
  verify_follows_fetch p (a ++ b) = verify_follows_fetch p a && verify_follows_fetch (last_fetch p a) b.
Proof.
  induction a as [|e a IH]; intros p b; [reflexivity|].
  destruct e; cbn [app verify_follows_fetch last_fetch]; rewrite ?IH; try reflexivity.
  rewrite andb_assoc. reflexivity.
Qed.

Lemma vff_fetch lg k : verify_follows_fetch None lg = true ->
  verify_follows_fetch None (lg ++ [EF k]) = true.
Proof. intros H. rewrite vff_app, H. reflexivity. Qed.

Lemma vff_fetch_verify lg k : verify_follows_fetch None lg = true ->
  verify_follows_fetch None ((lg ++ [EF k]) ++ [EV k]) = true.
Proof.
  intros H. rewrite vff_app, (vff_fetch lg k H), last_fetch_app. cbn. rewrite Nat.eqb_refl. reflexivity.
Qed.

Lemma page_loop_vff max : forall page pos s,
  verify_follows_fetch None (s_log s) = true ->
  verify_follows_fetch None (s_log (fst (page_loop max pos s page))) = true.
Proof.
  induction page as [|x r IH]; intros pos s H; cbn [page_loop]; [exact H|].
  destruct (max <=? Z.of_nat (s_n s))%Z; [exact H|].
  destruct x; cbn [fst s_n s_failed s_ok s_log].
  - apply vff_fetch_verify. exact H.
  - apply IH. cbn [s_log]. apply vff_fetch_verify. exact H.
  - apply vff_fetch. exact H.
  - apply vff_fetch_verify. exact H.
Qed.

Lemma drive_vff max : forall calls s,
  verify_follows_fetch None (s_log s) = true ->
  verify_follows_fetch None (s_log (drive max s calls)) = true.
Proof.
  induction calls as [|[pos page] r IH]; intros s H; cbn [drive]; [exact H|].
  apply IH. apply page_loop_vff. exact H.
Qed.

Lemma dmodel_spec_ok d : dspec_ok d (dmodel d) = true.
Proof.
  unfold dspec_ok, dmodel. set (head := (if d_plain d then [] else [ES]) ++ [ER; EL]).
  assert (Hf : fetches head = []) by (unfold head; destruct (d_plain d); reflexivity).
  assert (Hv : verifies head = []) by (unfold head; destruct (d_plain d); reflexivity).
  destruct (callback_never_exceeds (d_max d) (d_calls d) head Hf Hv) as (H1 & _).
  rewrite count_fetches_eq. apply andb_true_intro. split.
  - apply Z.leb_le. exact H1.
  - apply drive_vff. cbn [s_log]. unfold head. destruct (d_plain d); reflexivity.
Qed.

(* on a conforming delivery (consecutive pages, cut at the first error) [dmodel] is the log of [model] *)
Lemma dmodel_conforming i :
  reaches_listing i -> i_ref i = RTag ->
  exists calls,
    o_log (model i) = dmodel (mk_dinput (i_max i) (match i_skip i with NoSkipper => true | _ => false end) calls).
Proof.
  intros (Hv & Hr & Hmax & Hs & _ & Hre) Href.
  set (plain := match i_skip i with NoSkipper => true | _ => false end).
  set (head := (if plain then [] else [ES]) ++ [ER; EL]).
  destruct (pages_loop_is_drive (i_max i) (i_pages i) 0 (mk_st 0 [] None head)) as (calls & Hc).
  exists calls. unfold dmodel. cbn [d_max d_plain d_calls]. fold head. rewrite <- Hc.
  unfold model. rewrite Hv, Hr.
  assert (E : (i_max i <=? 0)%Z = false) by (apply Z.leb_gt; exact Hmax). rewrite E.
  assert (HA : forall log, o_log (after_listing i log)
               = s_log (fst (pages_loop (i_max i) 0 (mk_st 0 [] None (log ++ [EL])) (i_pages i)))).
  { intros log. unfold after_listing.
    destruct (pages_loop (i_max i) 0 (mk_st 0 [] None (log ++ [EL])) (i_pages i)) as [s c].
    cbn [fst]. destruct c as [|e]; [destruct (i_lerr i) | destruct e]; try reflexivity;
      (destruct (Nat.eqb (s_n s) 0); [reflexivity|]; destruct (s_ok s); reflexivity). }
  unfold head, plain. destruct Hs as [Hs | Hs]; rewrite Hs; unfold after_skip; rewrite Href, Hre; apply HA.
Qed.
