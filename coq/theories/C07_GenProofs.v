(* C07_GenProofs.v — the GoLite translations of the Go function bodies listed in
   harness/cmd/vh-gen/targets_c07.go (theories/C07_Gen.v, regenerated from /repo by
   `vh-gen` on every run, docs/GOLITE.md) against the hand-written C07 model
   (C07_Model.v, C07_Multi.v).

   Every theorem quantifies over ALL inputs of the generated function. A Go map is
   ANY association list (any order, shadowed bindings allowed); where the model
   iterates a map it is applied to [map_entries m] (what a Go `range` visits), and
   the corollaries under [nodup_keys] remove it. Oracles (mime.ParseMediaType, the
   plugin's commands, the untranslated generateSignature / generateSignatureEnvelope,
   the caller's descriptor generator, time.Now) are universally quantified functions;
   hypotheses named [*_answers] say "the oracle answered what the model's input says
   it answers". Errors are compared by presence (and, where the model distinguishes,
   by their format string).
   The statements are repeated in props/C07_Generated.v ([exact] + Print Assumptions). *)
From Coq Require Import List Bool String Ascii NArith ZArith Lia.
From NV Require Import Base Generated GoLib C07_Model C07_Proofs C07_Multi C07_Gen.
Import ListNotations.
Local Open Scope string_scope.
Local Open Scope list_scope.

(* ---------- small tools ---------- *)

Lemma eqb_sym_false a b : String.eqb a b = false -> String.eqb b a = false.
Proof. rewrite String.eqb_sym. auto. Qed.

(* case analysis on every comparison of the string [s] with a closed string: in the equal
   case [s] is replaced by the literal and the goal is decided by computation *)
Ltac split_str s :=
  repeat match goal with
  | |- context [String.eqb s ?c] =>
      let E := fresh "E" in
      destruct (String.eqb s c) eqn:E;
      [apply String.eqb_eq in E; subst s; vm_compute; reflexivity
      |try rewrite (eqb_sym_false _ _ E)]
  | |- context [String.eqb ?c s] =>
      let E := fresh "E" in
      destruct (String.eqb c s) eqn:E;
      [apply String.eqb_eq in E; subst s; vm_compute; reflexivity
      |try rewrite (eqb_sym_false _ _ E)]
  end.

(* case analysis on every comparison of the integer [x] with a closed integer *)
Ltac split_z x :=
  repeat match goal with
  | |- context [Z.eqb x ?c] =>
      destruct (Z.eqb_spec x c); [subst x; try (vm_compute; reflexivity)|]
  end.

Lemma to_N_neq z p : z <> Zpos p -> (Z.to_N z =? Npos p)%N = false.
Proof.
  intros H. apply N.eqb_neq. intros E. apply H.
  destruct z; cbn in E; try discriminate. inversion E. reflexivity.
Qed.

Ltac use_to_N_neq :=
  repeat match goal with
  | H : ?z <> Zpos ?p |- context [(Z.to_N ?z =? N.pos ?p)%N] => rewrite (to_N_neq z p H)
  end.

(* ================================================================================
   1. Key specs, signature algorithms, hashes: the tables that bind the blob digest
      to the signing key (clauses 1, 9)
   ================================================================================ *)

(* signature.KeySpec{Type, Size} of notation-core-go <-> the model's keyspec.
   KeyTypeRSA = 1, KeyTypeEC = 2, anything else is the model's K0 (zero value /
   unknown); a negative size is read as 0 (no key spec has that size either). *)
Definition ktype_of (z : Z) : ktype := if (z =? 1)%Z then KRSA else if (z =? 2)%Z then KEC else K0.
Definition ks_abs (k : algorithm_KeySpec) : keyspec :=
  mk_ks (ktype_of (KeySpec_Type k)) (Z.to_N (KeySpec_Size k)).
Definition ktype_code (t : ktype) : Z := match t with KRSA => 1 | KEC => 2 | K0 => 0 end.
Definition ks_gen (k : keyspec) : algorithm_KeySpec := mk_KeySpec (ktype_code (ks_type k)) (Z.of_N (ks_size k)).

Lemma ks_abs_gen k : ks_abs (ks_gen k) = k.
Proof. destruct k as [[| |] n]; unfold ks_abs, ks_gen; cbn; rewrite N2Z.id; reflexivity. Qed.

(* signature.Algorithm: AlgorithmPS256 = 1 .. AlgorithmES512 = 6; 0 = none *)
Definition alg_code (a : alg) : Z :=
  match a with A0 => 0 | PS256 => 1 | PS384 => 2 | PS512 => 3 | ES256 => 4 | ES384 => 5 | ES512 => 6 end.
Definition alg_of_code (z : Z) : alg :=
  if (z =? 1)%Z then PS256 else if (z =? 2)%Z then PS384 else if (z =? 3)%Z then PS512
  else if (z =? 4)%Z then ES256 else if (z =? 5)%Z then ES384 else if (z =? 6)%Z then ES512 else A0.
Lemma alg_of_code_code a : alg_of_code (alg_code a) = a.
Proof. destruct a; reflexivity. Qed.

(* crypto.Hash: SHA256 = 5, SHA384 = 6, SHA512 = 7; 0 = none *)
Definition hash_code (h : chash) : Z := match h with H0 => 0 | H256 => 5 | H384 => 6 | H512 => 7 end.
Definition hash_of_code (z : Z) : chash :=
  if (z =? 5)%Z then H256 else if (z =? 6)%Z then H384 else if (z =? 7)%Z then H512 else H0.
Lemma hash_of_code_code h : hash_of_code (hash_code h) = h.
Proof. destruct h; reflexivity. Qed.

Definition ks_zero : algorithm_KeySpec := mk_KeySpec 0 0.
Definition err_unknown_keyspec : err := Err "errors" "unknown key spec" [].
Definition err_invalid_keyspec : err := Err "fmt" "invalid KeySpec %q" [].
Definition err_unknown_hash : err := Err "fmt" "unknown hashing algo %v" [].
Definition desc_zero : v1_Descriptor := mk_Descriptor "" "" 0 [] [] [] PNil "".

Ltac ks_cases t z :=
  cbn [KeySpec_Type KeySpec_Size ks_type ks_size];
  split_z t; split_z z;
  unfold ktype_of; cbn -[Z.to_N N.eqb]; use_to_N_neq;
  repeat match goal with
  | H : ?t <> ?c |- context [Z.eqb ?t ?c] => rewrite (proj2 (Z.eqb_neq t c) H)
  end; try reflexivity.

(* KeySpec.SignatureAlgorithm (notation-core-go) = the model's sig_alg, on EVERY (type, size) *)
Theorem gen_SignatureAlgorithm_equiv ks :
  gen_algorithm_KeySpec_SignatureAlgorithm ks = alg_code (sig_alg (ks_abs ks)).
Proof.
  destruct ks as [t z]. unfold gen_algorithm_KeySpec_SignatureAlgorithm, sig_alg, ks_abs.
  ks_cases t z.
Qed.

(* Algorithm.Hash = the model's alg_hash, on EVERY integer *)
Theorem gen_Algorithm_Hash_equiv z :
  gen_algorithm_Algorithm_Hash z = hash_code (alg_hash (alg_of_code z)).
Proof.
  unfold gen_algorithm_Algorithm_Hash, alg_of_code. split_z z.
  repeat match goal with
  | H : ?t <> ?c |- context [Z.eqb ?t ?c] => rewrite (proj2 (Z.eqb_neq t c) H)
  end. reflexivity.
Qed.

(* var signer.algorithms (crypto.Hash -> digest.Algorithm) = the model's table, on EVERY key *)
Theorem gen_signer_algorithms_equiv z :
  map_get Z.eqb z C07_Gen.signer_algorithms = C07_Model.signer_algorithms (hash_of_code z).
Proof.
  unfold C07_Gen.signer_algorithms, hash_of_code. cbn [map_get]. split_z z.
  repeat match goal with
  | H : ?t <> ?c |- context [Z.eqb ?t ?c] => rewrite (proj2 (Z.eqb_neq t c) H)
  end. reflexivity.
Qed.

(* signer.getDescriptor: the digest algorithm handed to the blob descriptor generator is
   the model's [signer_algorithms (alg_hash (sig_alg ks))] — the `getDescriptor` step of
   [signer_sign_blob] (Local and Plug) — and the generator's answer is returned as it is *)
Theorem gen_getDescriptor_equiv ks genDesc :
  gen_signer_getDescriptor ks genDesc
  = match C07_Model.signer_algorithms (alg_hash (sig_alg (ks_abs ks))) with
    | Some an => genDesc an
    | None => (desc_zero, Some err_unknown_hash)
    end.
Proof.
  unfold gen_signer_getDescriptor, map_get_ok.
  rewrite gen_SignatureAlgorithm_equiv, gen_Algorithm_Hash_equiv, gen_signer_algorithms_equiv.
  rewrite alg_of_code_code, hash_of_code_code.
  destruct (C07_Model.signer_algorithms _); reflexivity.
Qed.

(* proto.DecodeKeySpec / EncodeKeySpec / HashAlgorithmFromKeySpec = the model's three codecs *)
Theorem gen_DecodeKeySpec_equiv s :
  gen_proto_DecodeKeySpec s
  = match decode_keyspec s with
    | Some k => (ks_gen k, None)
    | None => (ks_zero, Some err_unknown_keyspec)
    end.
Proof. unfold gen_proto_DecodeKeySpec, decode_keyspec. split_str s. reflexivity. Qed.

Theorem gen_EncodeKeySpec_equiv ks :
  gen_proto_EncodeKeySpec ks
  = match encode_keyspec (ks_abs ks) with
    | Some s => (s, None)
    | None => ("", Some err_invalid_keyspec)
    end.
Proof.
  destruct ks as [t z]. unfold gen_proto_EncodeKeySpec, encode_keyspec, ks_abs.
  ks_cases t z.
Qed.

Theorem gen_HashAlgorithmFromKeySpec_equiv ks :
  gen_proto_HashAlgorithmFromKeySpec ks
  = match hash_from_keyspec (ks_abs ks) with
    | Some s => (s, None)
    | None => ("", Some err_invalid_keyspec)
    end.
Proof.
  destruct ks as [t z]. unfold gen_proto_HashAlgorithmFromKeySpec, hash_from_keyspec, ks_abs.
  ks_cases t z.
Qed.

(* The property's own table (C07_Model.spec_table, written from the specification,
   independently of the model's codecs) transported onto the translated functions:
   for each of the six supported key specs the code's functions produce exactly the row. *)
Theorem gen_tables_meet_spec_table k kn a hn an :
  spec_row k spec_table = Some (kn, a, hn, an) ->
  gen_algorithm_KeySpec_SignatureAlgorithm (ks_gen k) = alg_code a /\
  gen_proto_EncodeKeySpec (ks_gen k) = (kn, None) /\
  gen_proto_HashAlgorithmFromKeySpec (ks_gen k) = (hn, None) /\
  gen_proto_DecodeKeySpec kn = (ks_gen k, None) /\
  (forall genDesc, gen_signer_getDescriptor (ks_gen k) genDesc = genDesc an).
Proof.
  intros H.
  rewrite gen_SignatureAlgorithm_equiv, gen_EncodeKeySpec_equiv, gen_HashAlgorithmFromKeySpec_equiv,
          gen_DecodeKeySpec_equiv.
  assert (G : forall genDesc, gen_signer_getDescriptor (ks_gen k) genDesc
              = match C07_Model.signer_algorithms (alg_hash (sig_alg k)) with
                | Some an => genDesc an | None => (desc_zero, Some err_unknown_hash) end).
  { intros g. rewrite gen_getDescriptor_equiv, ks_abs_gen. reflexivity. }
  rewrite ks_abs_gen.
  destruct k as [t n]. unfold spec_table, spec_row, keyspec_eqb in H. cbn [ks_type ks_size] in H.
  destruct t; cbn [ktype_eqb andb] in H;
  repeat match type of H with
  | context [(n =? ?c)%N] =>
      destruct (N.eqb_spec n c);
      [subst n; inversion H; subst; repeat split; try reflexivity; intros g; rewrite G; reflexivity|]
  end; discriminate.
Qed.

(* only the six key specs get a digest algorithm at all *)
Theorem gen_getDescriptor_supported ks genDesc :
  spec_row (ks_abs ks) spec_table = None ->
  gen_signer_getDescriptor ks genDesc = (desc_zero, Some err_unknown_hash).
Proof.
  intros H. rewrite gen_getDescriptor_equiv.
  destruct (ks_abs ks) as [t n]. unfold spec_table, spec_row, keyspec_eqb in H. cbn [ks_type ks_size] in H.
  unfold sig_alg. cbn [ks_type ks_size].
  destruct t; cbn [ktype_eqb andb] in H; [| |reflexivity];
  repeat match type of H with
  | context [(n =? ?c)%N] => destruct (N.eqb_spec n c); [discriminate|]
  end;
  repeat match goal with
  | Hn : n <> ?c |- context [(n =? ?c)%N] => rewrite (proj2 (N.eqb_neq n c) Hn)
  end; reflexivity.
Qed.

(* ================================================================================
   2. The payload: what is signed (clause 8), what an envelope plugin may hand back
   ================================================================================ *)

(* ocispec.Descriptor -> the model's descr. The embedded data is the byte string; the
   platform is "" for nil and a token otherwise (the model only asks whether it is there). *)
Definition data_str (l : list Z) : string :=
  string_of_list_ascii (List.map (fun z => ascii_of_N (Z.to_N z)) l).
Definition descr_of (d : v1_Descriptor) : descr :=
  mk_descr (Descriptor_MediaType d) (Descriptor_Digest d) (Descriptor_Size d) (Descriptor_URLs d)
           (Descriptor_Annotations d) (data_str (Descriptor_Data d))
           (if ptr_is_nil (Descriptor_Platform d) then "" else "platform") (Descriptor_ArtifactType d).

(* envelope.SanitizeTargetArtifact = the model's sanitize *)
Theorem gen_SanitizeTargetArtifact_equiv d :
  descr_of (gen_envelope_SanitizeTargetArtifact d) = sanitize (descr_of d).
Proof. reflexivity. Qed.

(* ... on the Go value itself: the four fields, and nothing else *)
Theorem gen_SanitizeTargetArtifact_spec d :
  gen_envelope_SanitizeTargetArtifact d
  = mk_Descriptor (Descriptor_MediaType d) (Descriptor_Digest d) (Descriptor_Size d) []
                  (Descriptor_Annotations d) [] PNil "".
Proof. reflexivity. Qed.

(* the keys json.Marshal emits for the sanitized descriptor are the property's expected keys
   (model: present_keys; omitempty drops urls, data, platform, artifactType) *)
Theorem gen_Sanitize_keys d :
  present_keys (descr_of (gen_envelope_SanitizeTargetArtifact d))
  = (match Descriptor_Annotations d with [] => [] | _ => ["annotations"] end) ++ ["digest"; "mediaType"; "size"].
Proof. unfold present_keys. cbn. destruct (Descriptor_Annotations d); reflexivity. Qed.

Definition err_ctype : err := Err "fmt" "payload content type %q not supported" [].

(* envelope.ValidatePayloadContentType: nil exactly for the Notary payload type — the test
   [e_ctype e =? mt_payload] of generic_sign and plugin_envelope. None = the Go code
   dereferences a nil *signature.Payload *)
Theorem gen_ValidatePayloadContentType_equiv p :
  gen_envelope_ValidatePayloadContentType p
  = match ptr_val p with
    | Some v => Some (if String.eqb (Payload_ContentType v) mt_payload then None else Some err_ctype)
    | None => None
    end.
Proof.
  unfold gen_envelope_ValidatePayloadContentType, mt_payload.
  destruct (ptr_val p) as [v|]; [|reflexivity].
  destruct (String.eqb (Payload_ContentType v) _); reflexivity.
Qed.

(* content.Equal (oras) = the model's content_equal *)
Theorem gen_Equal_equiv a b : gen_content_Equal a b = content_equal (descr_of a) (descr_of b).
Proof. unfold gen_content_Equal, content_equal. cbn. rewrite andb_assoc. reflexivity. Qed.

Lemma subset_loop nd : forall l,
  gen_signer_isDescriptorSubset_loop1 nd l = submap l (Descriptor_Annotations nd).
Proof.
  induction l as [|[k v] l IH]; [reflexivity|].
  cbn [gen_signer_isDescriptorSubset_loop1 submap forallb fst snd]. unfold map_get_ok.
  rewrite map_get_lookup.
  destruct (lookup k (Descriptor_Annotations nd)) as [v2|]; cbn [negb orb andb]; [|reflexivity].
  rewrite (String.eqb_sym v v2).
  destruct (String.eqb v2 v); cbn [negb andb]; [exact IH|reflexivity].
Qed.

(* isDescriptorSubset: same content, and every original annotation `range` visits is still
   bound to the same value (additional annotations allowed) *)
Theorem gen_isDescriptorSubset_equiv a b :
  gen_signer_isDescriptorSubset a b
  = content_equal (descr_of a) (descr_of b)
    && submap (map_entries String.eqb (d_anns (descr_of a))) (d_anns (descr_of b)).
Proof.
  unfold gen_signer_isDescriptorSubset. rewrite gen_Equal_equiv, subset_loop.
  destruct (content_equal _ _); reflexivity.
Qed.

(* isPayloadDescriptorValid = the check of the model's plugin_envelope
   [content_equal desc signed && submap (d_anns desc) (d_anns signed)] *)
Theorem gen_isPayloadDescriptorValid_equiv a b :
  gen_signer_isPayloadDescriptorValid a b
  = content_equal (descr_of a) (descr_of b)
    && submap (map_entries String.eqb (d_anns (descr_of a))) (d_anns (descr_of b)).
Proof.
  unfold gen_signer_isPayloadDescriptorValid. rewrite gen_isDescriptorSubset_equiv, gen_Equal_equiv.
  destruct (content_equal _ _); reflexivity.
Qed.

Lemma existsb_key_has k (m : amap) :
  existsb (fun kv => String.eqb k (fst kv)) m = has_key k m.
Proof.
  unfold has_key. induction m as [|[k' v'] m IH]; [reflexivity|]. cbn [existsb lookup fst].
  destruct (String.eqb k k'); [reflexivity|exact IH].
Qed.

Lemma nodup_keys_unique (m : amap) : nodup_keys m = map_unique String.eqb m.
Proof.
  induction m as [|[k v] m IH]; [reflexivity|].
  cbn [nodup_keys map_unique]. rewrite IH, existsb_key_has. reflexivity.
Qed.

Lemma entries_nodup (m : amap) : nodup_keys m = true -> map_entries String.eqb m = m.
Proof. rewrite nodup_keys_unique. apply map_entries_unique. Qed.

(* a Go map has unique keys: the model's check verbatim *)
Theorem gen_isPayloadDescriptorValid_unique a b :
  nodup_keys (Descriptor_Annotations a) = true ->
  gen_signer_isPayloadDescriptorValid a b
  = content_equal (descr_of a) (descr_of b) && submap (d_anns (descr_of a)) (d_anns (descr_of b)).
Proof.
  intros H. rewrite gen_isPayloadDescriptorValid_equiv. cbn [descr_of d_anns]. rewrite (entries_nodup _ H).
  reflexivity.
Qed.

Lemma submap_refl (m : amap) : submap (map_entries String.eqb m) m = true.
Proof.
  unfold submap. apply forallb_forall. intros [k v] Hin. cbn [fst snd].
  apply (map_entries_in String.eqb string_eqb_spec') in Hin. rewrite map_get_lookup in Hin.
  rewrite Hin. apply String.eqb_refl.
Qed.

(* what the signer builds itself passes the check it applies to an envelope plugin's answer *)
Theorem gen_Sanitize_valid a :
  gen_signer_isPayloadDescriptorValid a (gen_envelope_SanitizeTargetArtifact a) = true.
Proof.
  rewrite gen_isPayloadDescriptorValid_equiv. unfold content_equal. cbn.
  rewrite Z.eqb_refl, !String.eqb_refl. cbn [andb]. apply submap_refl.
Qed.

(* ================================================================================
   3. The argument checks of SignOCI / SignBlob / VerifyBlob (clauses 2, 4, 6)
   ================================================================================ *)

(* validateSigMediaType: nil exactly for the two envelope formats *)
Theorem gen_validateSigMediaType_equiv fmt :
  is_none (gen_notation_go_validateSigMediaType fmt) = (String.eqb fmt mt_jws || String.eqb fmt mt_cose).
Proof.
  unfold gen_notation_go_validateSigMediaType, mt_jws, mt_cose.
  destruct (String.eqb fmt _ || String.eqb fmt _); reflexivity.
Qed.

Local Arguments SignerSignOptions_SignatureMediaType {_}.
Local Arguments SignerSignOptions_ExpiryDuration {_}.
Local Arguments SignerSignOptions_PluginConfig {_}.

(* validateSignArguments = the model's validate_sign_args, for a non-nil signer: the expiry
   duration is a non-negative whole number of seconds, the format one of the two *)
Theorem gen_validateSignArguments_equiv (C : Type) signer (opts : notation_go_SignerSignOptions C) :
  is_none (gen_notation_go_validateSignArguments C signer opts)
  = negb (any_is_nil signer)
    && validate_sign_args (SignerSignOptions_SignatureMediaType opts) (SignerSignOptions_ExpiryDuration opts).
Proof.
  unfold gen_notation_go_validateSignArguments, validate_sign_args, second.
  pose proof (gen_validateSigMediaType_equiv (SignerSignOptions_SignatureMediaType opts)) as M.
  destruct (any_is_nil signer); [reflexivity|]. cbn [negb andb].
  destruct (SignerSignOptions_ExpiryDuration opts <? 0)%Z; [reflexivity|]. cbn [negb andb].
  destruct (Z.rem (SignerSignOptions_ExpiryDuration opts) 1000000000 =? 0)%Z; [|reflexivity]. cbn [negb andb].
  destruct (String.eqb (SignerSignOptions_SignatureMediaType opts) ""); [reflexivity|]. cbn [negb andb].
  rewrite <- M. cbv zeta.
  destruct (gen_notation_go_validateSigMediaType _); reflexivity.
Qed.

(* mime.ParseMediaType is an oracle: the model's bit mt_ok is "it returned no error" *)
Definition mt_ok_of (parse : string -> string * list (string * string) * option err) (mt : string) : bool :=
  is_none (snd (parse mt)).

(* validateContentMediaType: nil iff the media type is empty or parses *)
Theorem gen_validateContentMediaType_equiv parse mt :
  is_none (gen_notation_go_validateContentMediaType parse mt) = (String.eqb mt "" || mt_ok_of parse mt).
Proof.
  unfold gen_notation_go_validateContentMediaType, mt_ok_of. cbv zeta.
  destruct (String.eqb mt ""); [reflexivity|]. cbn [negb orb].
  destruct (parse mt) as [[a b] e]. cbn [snd]. destruct e; reflexivity.
Qed.

Section ArgsModel.
  Variable bytes : Type.
  Variable enc : descr -> bytes.
  Variable dec : bytes -> option descr.
  Variable top_keys tgt_keys : bytes -> list string.
  Variable recode : bytes -> bytes.
  Variable parse : string -> string * list (string * string) * option err.
  Variable C : Type.

  Let msign := sign bytes enc dec top_keys tgt_keys recode.

  (* the model's input describes this call of SignOCI / SignBlob *)
  Definition sign_call (i : input) (opts : notation_go_SignerSignOptions C) : Prop :=
    i_format i = SignerSignOptions_SignatureMediaType opts /\
    i_dur i = SignerSignOptions_ExpiryDuration opts /\
    match i_target i with TOCI _ => True | TBlob _ mt ok => ok = mt_ok_of parse mt end.

  (* the code's own checks at the head of SignBlob (after validateSignArguments):
     `ContentMediaType == ""` and validateContentMediaType *)
  Definition blob_media_ok (i : input) : bool :=
    match i_target i with
    | TOCI _ => true
    | TBlob _ mt _ => negb (String.eqb mt "") && is_none (gen_notation_go_validateContentMediaType parse mt)
    end.

  (* where the model makes the same decision: the head of [sign]. Rejected by the code's
     checks <-> class 1, nothing signed; accepted <-> the model goes on to the signer. *)
  Theorem gen_sign_args_rejected i signer opts :
    sign_call i opts -> any_is_nil signer = false ->
    is_none (gen_notation_go_validateSignArguments C signer opts) && blob_media_ok i = false ->
    msign i = sfail bytes 1 None.
  Proof.
    intros (Hf & Hd & Ht) Hs. rewrite gen_validateSignArguments_equiv, Hs, <- Hf, <- Hd. cbn [negb andb].
    unfold msign, sign, blob_media_ok.
    destruct (validate_sign_args (i_format i) (i_dur i)); [|reflexivity]. cbn [negb andb].
    destruct (i_target i) as [d|b mt ok]; [discriminate|].
    rewrite gen_validateContentMediaType_equiv, Ht.
    destruct (String.eqb mt ""); cbn [negb orb andb]; [reflexivity|].
    intros ->. reflexivity.
  Qed.

  Theorem gen_sign_args_accepted i signer opts :
    sign_call i opts -> any_is_nil signer = false ->
    is_none (gen_notation_go_validateSignArguments C signer opts) && blob_media_ok i = true ->
    msign i = match i_target i with
              | TOCI d => match add_meta d (i_meta i) with
                          | None => sfail bytes 2 None
                          | Some desc => signer_sign bytes enc dec top_keys tgt_keys recode i desc
                          end
              | TBlob b mt _ => signer_sign_blob bytes enc dec top_keys tgt_keys recode i b mt
              end.
  Proof.
    intros (Hf & Hd & Ht) Hs. rewrite gen_validateSignArguments_equiv, Hs, <- Hf, <- Hd. cbn [negb andb].
    unfold msign, sign, blob_media_ok.
    destruct (validate_sign_args (i_format i) (i_dur i)); [|discriminate]. cbn [negb andb].
    destruct (i_target i) as [d|b mt ok]; [reflexivity|].
    rewrite gen_validateContentMediaType_equiv, Ht.
    destruct (String.eqb mt ""); cbn [negb orb andb]; [discriminate|].
    intros ->. reflexivity.
  Qed.

  (* notation.VerifyBlob: validateContentMediaType, then validateSigMediaType — the two
     class-4 refusals at the head of the model's verify_blob *)
  Theorem gen_verify_blob_args ret i (e : envelope bytes) b mt :
    is_none (gen_notation_go_validateContentMediaType parse mt)
      && is_none (gen_notation_go_validateSigMediaType (e_format bytes e)) = false ->
    verify_blob bytes dec ret i e b mt (mt_ok_of parse mt) = vfail 4 None.
  Proof.
    rewrite gen_validateContentMediaType_equiv, gen_validateSigMediaType_equiv. unfold verify_blob.
    destruct (String.eqb mt ""); cbn [negb orb andb].
    - intros ->. reflexivity.
    - destruct (mt_ok_of parse mt); cbn [negb andb]; [|reflexivity]. intros ->. reflexivity.
  Qed.
End ArgsModel.

(* ================================================================================
   4. Verification: required user metadata (clauses 3, 12), expiry (clause 4)
   ================================================================================ *)

Definition payload_descr (p : envelope_Payload) : descr := descr_of (Payload_TargetArtifact p).

(* verifyUserMetadata: nil iff every required pair `range` visits is a binding of the signed
   annotations — the model's submap. Proved by induction on the list `range` visits, without
   naming the arguments of the lambda-lifted loop. *)
Theorem gen_verifyUserMetadata_equiv p vm :
  is_none (gen_verifier_verifyUserMetadata p vm)
  = submap (map_entries String.eqb vm) (d_anns (payload_descr p)).
Proof.
  unfold gen_verifier_verifyUserMetadata, payload_descr. cbn [descr_of d_anns]. cbv zeta.
  induction (map_entries String.eqb vm) as [|[k v] l IH]; [reflexivity|].
  cbn [gen_verifier_verifyUserMetadata_loop1 submap forallb fst snd]. unfold map_get_ok.
  rewrite map_get_lookup.
  destruct (lookup k (Descriptor_Annotations (Payload_TargetArtifact p))) as [got|];
    cbn [negb orb andb]; [|reflexivity].
  destruct (String.eqb got v); cbn [negb andb]; [exact IH|reflexivity].
Qed.

(* in the words of Go maps *)
Theorem gen_verifyUserMetadata_nil_iff p vm :
  gen_verifier_verifyUserMetadata p vm = None <->
  forall k v, map_get String.eqb k vm = Some v ->
              map_get String.eqb k (Descriptor_Annotations (Payload_TargetArtifact p)) = Some v.
Proof.
  pose proof (gen_verifyUserMetadata_equiv p vm) as E.
  assert (S : submap (map_entries String.eqb vm) (d_anns (payload_descr p)) = true <->
              forall k v, map_get String.eqb k vm = Some v ->
                          map_get String.eqb k (Descriptor_Annotations (Payload_TargetArtifact p)) = Some v).
  { unfold submap, payload_descr. cbn [descr_of d_anns]. rewrite forallb_forall. split.
    - intros H k v Hg. rewrite <- (map_get_entries String.eqb string_eqb_spec') in Hg.
      assert (Hin : In (k, v) (map_entries String.eqb vm)).
      { clear -Hg. revert Hg. induction (map_entries String.eqb vm) as [|[k' v'] l IH]; cbn; [discriminate|].
        destruct (String.eqb k k') eqn:Ek.
        - intros X. inversion X. apply String.eqb_eq in Ek. subst. left. reflexivity.
        - intros X. right. apply IH. exact X. }
      specialize (H _ Hin). cbn [fst snd] in H. rewrite map_get_lookup.
      destruct (lookup k _) as [w|]; [|discriminate]. apply String.eqb_eq in H. subst. reflexivity.
    - intros H [k v] Hin. cbn [fst snd].
      apply (map_entries_in String.eqb string_eqb_spec') in Hin. apply H in Hin.
      rewrite map_get_lookup in Hin. rewrite Hin. apply String.eqb_refl. }
  rewrite <- S, <- E. destruct (gen_verifier_verifyUserMetadata p vm); cbn; split; congruence.
Qed.

(* where the model makes the same decision: [final_code], the block
   `if len(opts.UserMetadata) > 0 { if err := verifyUserMetadata(..); err != nil { outcome.Error = err } }`
   of verifier.Verify / VerifyBlob (an empty map makes the loop of verifyUserMetadata empty) *)
Theorem gen_verifyUserMetadata_final_code p vm mismatch :
  final_code mismatch (map_entries String.eqb vm) (payload_descr p)
  = if is_none (gen_verifier_verifyUserMetadata p vm) then (if mismatch then 2%N else 0%N) else 3%N.
Proof.
  rewrite gen_verifyUserMetadata_equiv. unfold final_code.
  destruct (map_entries String.eqb vm) as [|e l]; [reflexivity|].
  destruct (submap (e :: l) _); reflexivity.
Qed.

Theorem gen_verifyUserMetadata_final_code_unique p vm mismatch :
  nodup_keys vm = true ->
  final_code mismatch vm (payload_descr p)
  = if is_none (gen_verifier_verifyUserMetadata p vm) then (if mismatch then 2%N else 0%N) else 3%N.
Proof. intros H. rewrite <- gen_verifyUserMetadata_final_code, (entries_nodup _ H). reflexivity. Qed.

(* verifyExpiry. A time.Time is its Unix time in nanoseconds (GoLib), the zero Time = "no
   expiry"; the model's envelope carries the expiry in whole seconds (core truncates). *)
Local Arguments SignerInfo_SignedAttributes {_}.
Local Arguments EnvelopeContent_SignerInfo {_}.
Local Arguments VerificationOutcome_EnvelopeContent {_}.
Local Arguments VerificationOutcome_VerificationLevel {_}.

Definition expiry_err : err := Err "fmt" "digital signature has expired on %q" [].

Definition expiry_abs (t : Z) : option Z := if time_is_zero t then None else Some (t / second)%Z.

Theorem gen_verifyExpiry_equiv (C : Type) (now : Z) :
  forall (outcome : ptr (notation_go_VerificationOutcome C)) o env lvl (e : envelope descr),
    ptr_val outcome = Some o ->
    ptr_val (VerificationOutcome_EnvelopeContent o) = Some env ->
    ptr_val (VerificationOutcome_VerificationLevel o) = Some lvl ->
    let t := SignedAttributes_Expiry (SignerInfo_SignedAttributes (EnvelopeContent_SignerInfo env)) in
    (t / second * second)%Z = t ->                (* whole seconds: what core writes and reads *)
    e_expiry descr e = expiry_abs t ->
    gen_verifier_verifyExpiry C now outcome
    = Some (PNew (mk_ValidationResult "expiry"
                    (map_get_or String.eqb "" "expiry" (VerificationLevel_Enforcement lvl))
                    (if expired now e then Some expiry_err else None))).
Proof.
  intros outcome o env lvl e Ho He Hl t Ht Hx. unfold gen_verifier_verifyExpiry. rewrite Ho, He, Hl.
  cbv zeta. fold t. unfold expired. rewrite Hx. unfold expiry_abs, time_before.
  destruct (time_is_zero t); cbn [negb andb]; [reflexivity|].
  rewrite Ht. destruct (now <? t)%Z; reflexivity.
Qed.

(* the function panics exactly when one of the three pointers is nil *)
Theorem gen_verifyExpiry_none (C : Type) (now : Z) :
  forall (outcome : ptr (notation_go_VerificationOutcome C)),
    gen_verifier_verifyExpiry C now outcome = None <->
    match ptr_val outcome with
    | None => True
    | Some o => ptr_val (VerificationOutcome_EnvelopeContent o) = None
                \/ ptr_val (VerificationOutcome_VerificationLevel o) = None
    end.
Proof.
  intros outcome. unfold gen_verifier_verifyExpiry.
  destruct (ptr_val outcome) as [o|]; [|tauto].
  destruct (ptr_val (VerificationOutcome_EnvelopeContent o)) as [env|]; [|tauto].
  cbv zeta.
  destruct (ptr_val (VerificationOutcome_VerificationLevel o)) as [lvl|].
  - destruct (_ && _); split; try discriminate; intros [H|H]; discriminate.
  - destruct (_ && _); tauto.
Qed.

(* the expiry GenericSigner.Sign asks for and core truncates — signing time plus the requested
   duration, a whole number of seconds (validateSignArguments) — read back by verifyExpiry:
   the signature counts as expired from exactly [s_time + d/1s] seconds on (clause 10 seen
   from the verifier) *)
Theorem gen_verifyExpiry_roundtrip (C : Type) (vnow : Z) :
  forall (outcome : ptr (notation_go_VerificationOutcome C)) o env lvl snow dur,
    ptr_val outcome = Some o ->
    ptr_val (VerificationOutcome_EnvelopeContent o) = Some env ->
    ptr_val (VerificationOutcome_VerificationLevel o) = Some lvl ->
    (0 < dur)%Z -> (0 <= snow)%Z -> Z.rem dur second = 0%Z ->
    SignedAttributes_Expiry (SignerInfo_SignedAttributes (EnvelopeContent_SignerInfo env))
      = ((snow / second + dur / second) * second)%Z ->
    exists action,
    gen_verifier_verifyExpiry C vnow outcome
    = Some (PNew (mk_ValidationResult "expiry" action
                    (if (vnow <? (snow / second + dur / second) * second)%Z then None else Some expiry_err))).
Proof.
  intros outcome o env lvl snow dur Ho He Hl Hd Hs Hr Hx.
  eexists. unfold gen_verifier_verifyExpiry. rewrite Ho, He, Hl. cbv zeta. rewrite Hx.
  unfold time_before, time_is_zero, time_zero.
  assert (P : (0 <= (snow / second + dur / second) * second)%Z).
  { unfold second. apply Z.mul_nonneg_nonneg; [|lia].
    apply Z.add_nonneg_nonneg; apply Z.div_pos; lia. }
  destruct (Z.eqb_spec ((snow / second + dur / second) * second) (-62135596800000000000)) as [E|_]; [lia|].
  cbn [negb andb]. destruct (vnow <? _)%Z; reflexivity.
Qed.

(* ================================================================================
   5. The plugin-backed signer (clauses 1, 9, Q): capabilities, key spec from
      describe-key, the generate-signature request, dispatch of Sign / SignBlob
   ================================================================================ *)

Lemma HasCapability_loop c l :
  gen_plugin_GetMetadataResponse_HasCapability_loop1 c l = mem_str c l.
Proof.
  unfold mem_str. induction l as [|x l IH]; [reflexivity|].
  cbn [gen_plugin_GetMetadataResponse_HasCapability_loop1 existsb].
  rewrite ?(String.eqb_sym x c). destruct (String.eqb c x); [reflexivity|exact IH].
Qed.

Theorem gen_HasCapability_equiv resp c :
  gen_plugin_GetMetadataResponse_HasCapability resp c
  = (String.eqb c "" || mem_str c (GetMetadataResponse_Capabilities resp)).
Proof.
  unfold gen_plugin_GetMetadataResponse_HasCapability. rewrite HasCapability_loop.
  destruct (String.eqb c ""); reflexivity.
Qed.

Definition cap_raw : string := "SIGNATURE_GENERATOR.RAW".
Definition cap_env : string := "SIGNATURE_GENERATOR.ENVELOPE".
(* the model's two capability bits of [Plug capsig capenv describe] *)
Definition capsig_of (m : plugin_GetMetadataResponse) : bool := mem_str cap_raw (GetMetadataResponse_Capabilities m).
Definition capenv_of (m : plugin_GetMetadataResponse) : bool := mem_str cap_env (GetMetadataResponse_Capabilities m).

Definition err_nil_meta : err := Err "errors" "plugin returned an empty get-plugin-metadata response" [].
Definition err_nocap : err := Err "fmt" "plugin does not have signing capabilities" [].
Definition err_wrap (x : err) : err := Err "fmt" "failed to sign with the plugin %s: %w" [x].

(* which way the model's signer goes: [signer_sign] (SignOCI) and [signer_sign_blob] (SignBlob) *)
Inductive route := RGen (ks : keyspec) | REnv | RFail.
Definition route_oci (capsig capenv : bool) (describe : string) : route :=
  if capsig then match decode_keyspec describe with Some ks => RGen ks | None => RFail end
  else if capenv then REnv else RFail.

Inductive broute := BGen (ks : keyspec) (an : string) | BEnv (an : string) | BNoCap (an : string) | BFail.
Definition route_blob (capsig capenv : bool) (describe : string) : broute :=
  match decode_keyspec describe with
  | None => BFail
  | Some ks =>
      match C07_Model.signer_algorithms (alg_hash (sig_alg ks)) with
      | None => BFail
      | Some an => if capsig then BGen ks an else if capenv then BEnv an else BNoCap an
      end
  end.

Section RouteModel.
  Variable bytes : Type.
  Variable enc : descr -> bytes.
  Variable dec : bytes -> option descr.
  Variable top_keys tgt_keys : bytes -> list string.
  Variable recode : bytes -> bytes.

  (* the place in the model where the dispatch is made *)
  Theorem signer_sign_route i desc capsig capenv describe :
    i_signer i = Plug capsig capenv describe ->
    signer_sign bytes enc dec top_keys tgt_keys recode i desc
    = match route_oci capsig capenv describe with
      | RGen ks => plugin_generate bytes enc recode i ks desc None
      | REnv =>
          let '(secs, r) := plugin_envelope bytes enc dec top_keys tgt_keys recode (i_ks i) desc (i_format i)
                                            (i_dur i) (i_now i) (c_penv_agent (i_consts i)) in
          match r with
          | Some e => mk_sres bytes 0 None None (Some secs) (Some e)
          | None => mk_sres bytes 3 None None (Some secs) None
          end
      | RFail => sfail bytes 3 None
      end.
  Proof.
    intros H. unfold signer_sign, route_oci. rewrite H.
    destruct capsig; [destruct (decode_keyspec describe); reflexivity|].
    destruct capenv; reflexivity.
  Qed.

  Theorem signer_sign_blob_route i b mt capsig capenv describe :
    i_signer i = Plug capsig capenv describe ->
    signer_sign_blob bytes enc dec top_keys tgt_keys recode i b mt
    = match route_blob capsig capenv describe with
      | BFail => sfail bytes 3 None
      | r =>
          let an := match r with BGen _ an | BEnv an | BNoCap an => an | BFail => "" end in
          if b_readerr b then sfail bytes 3 (Some an) else
          match blob_descriptor b mt (i_meta i) an with
          | None => sfail bytes 2 (Some an)
          | Some desc =>
              match r with
              | BGen ks _ => plugin_generate bytes enc recode i ks desc (Some an)
              | BEnv _ =>
                  let '(secs, r) := plugin_envelope bytes enc dec top_keys tgt_keys recode (i_ks i) desc (i_format i)
                                                    (i_dur i) (i_now i) (c_penv_agent (i_consts i)) in
                  match r with
                  | Some e => mk_sres bytes 0 (Some an) None (Some secs) (Some e)
                  | None => mk_sres bytes 3 (Some an) None (Some secs) None
                  end
              | _ => sfail bytes 3 (Some an)
              end
          end
      end.
  Proof.
    intros H. unfold signer_sign_blob, route_blob. rewrite H.
    destruct (decode_keyspec describe) as [ks|]; [|reflexivity].
    destruct (C07_Model.signer_algorithms _) as [an|]; [|reflexivity].
    destruct capsig; [reflexivity|]. destruct capenv; reflexivity.
  Qed.
End RouteModel.

Section Oracles.
Variable P C : Type.   (* plugin.SignPlugin, x509.Certificate: opaque *)
Variable DK : ptr plugin_DescribeKeyRequest -> ptr plugin_DescribeKeyResponse * option err.
Variable GM : ptr plugin_GetMetadataRequest -> ptr plugin_GetMetadataResponse * option err.
Variable GS : ptr plugin_GenerateSignatureRequest -> ptr plugin_GenerateSignatureResponse * option err.
Variable parse : list (list Z) -> list C * option err.

Local Arguments PluginSigner_keyID {_}.
Local Arguments pluginPrimitiveSigner_keyID {_}.
Local Arguments pluginPrimitiveSigner_pluginConfig {_}.
Local Arguments pluginPrimitiveSigner_keySpec {_}.

Definition sres_t : Type := (list Z * ptr (signature_SignerInfo C) * option err)%type.
Variable GSE : ptr (signer_PluginSigner P) -> v1_Descriptor -> notation_go_SignerSignOptions C -> sres_t.
Variable GSG : ptr (signer_PluginSigner P) -> v1_Descriptor -> notation_go_SignerSignOptions C ->
               algorithm_KeySpec -> ptr plugin_GetMetadataResponse -> list (string * string) -> sres_t.

Let getKeySpec := gen_signer_PluginSigner_getKeySpec DK P.
Let primSign := gen_signer_pluginPrimitiveSigner_Sign GS P C parse.
Let Sign := gen_signer_PluginSigner_Sign DK GM P C GSE GSG.
Let SignBlob := gen_signer_PluginSigner_SignBlob DK GM P C GSE GSG.

(* "the plugin is the model's [Plug capsig capenv describe]": get-plugin-metadata answers (every
   request) with a non-nil response [mv] whose capabilities are the two bits, describe-key
   answers (every request) with a non-nil response echoing the signer's key id and naming
   the key spec [describe] *)
Definition plugin_answers (s : signer_PluginSigner P) (md : ptr plugin_GetMetadataResponse)
           (capsig capenv : bool) (describe : string) : Prop :=
  (forall req, GM req = (md, None)) /\
  (exists mv, ptr_val md = Some mv /\ capsig_of mv = capsig /\ capenv_of mv = capenv) /\
  (exists dk dv, (forall req, DK req = (dk, None)) /\ ptr_val dk = Some dv /\
                 DescribeKeyResponse_KeyID dv = PluginSigner_keyID s /\
                 DescribeKeyResponse_KeySpec dv = describe).

(* getKeySpec: the key spec is the decoded describe-key answer — the model's
   [decode_keyspec describe] ("getKeySpec") *)
Theorem gen_getKeySpec_equiv s md capsig capenv describe cfg :
  plugin_answers s md capsig capenv describe ->
  getKeySpec s cfg
  = Some (match decode_keyspec describe with
          | Some k => (ks_gen k, None)
          | None => (ks_zero, Some err_unknown_keyspec)
          end).
Proof.
  intros (_ & _ & dk & dv & Hdk & Hv & Hid & Hks).
  unfold getKeySpec, gen_signer_PluginSigner_getKeySpec, gen_signer_PluginSigner_describeKey. cbv zeta.
  rewrite Hdk. cbn [is_none negb]. rewrite Hv. cbn [is_none negb]. rewrite Hv.
  rewrite Hid, String.eqb_refl. cbn [negb]. rewrite Hks, gen_DecodeKeySpec_equiv. reflexivity.
Qed.

(* a key id that is not echoed is refused, whatever the key spec says *)
Theorem gen_getKeySpec_keyid s dk dv cfg :
  (forall req, DK req = (dk, None)) -> ptr_val dk = Some dv ->
  DescribeKeyResponse_KeyID dv <> PluginSigner_keyID s ->
  exists e, getKeySpec s cfg = Some (ks_zero, Some e).
Proof.
  intros Hdk Hv Hid.
  unfold getKeySpec, gen_signer_PluginSigner_getKeySpec, gen_signer_PluginSigner_describeKey. cbv zeta.
  rewrite Hdk. cbn [is_none negb]. rewrite Hv. cbn [is_none negb]. rewrite Hv.
  destruct (String.eqb_spec (PluginSigner_keyID s) (DescribeKeyResponse_KeyID dv)) as [E|_];
    [exfalso; apply Hid; symmetry; exact E|].
  cbn [negb]. eexists. reflexivity.
Qed.

(* pluginPrimitiveSigner.Sign: a key spec outside the model's codec tables never reaches the
   plugin (the model's plugin_generate: `| _, _ => sfail 3 h`, no o_plugsig) *)
Theorem gen_primSign_unsupported s payload :
  encode_keyspec (ks_abs (pluginPrimitiveSigner_keySpec s)) = None \/
  hash_from_keyspec (ks_abs (pluginPrimitiveSigner_keySpec s)) = None ->
  primSign s payload = ([], [], Some err_invalid_keyspec).
Proof.
  unfold primSign, gen_signer_pluginPrimitiveSigner_Sign.
  rewrite gen_EncodeKeySpec_equiv, gen_HashAlgorithmFromKeySpec_equiv.
  destruct (encode_keyspec _) as [kn|]; [|reflexivity].
  intros [H|H]; [discriminate|]. rewrite H. reflexivity.
Qed.

Definition gs_request (s : signer_pluginPrimitiveSigner P) (payload : list Z) (kn hn : string)
  : ptr plugin_GenerateSignatureRequest :=
  PNew (mk_GenerateSignatureRequest "1.0" (pluginPrimitiveSigner_keyID s) kn hn payload
                                    (pluginPrimitiveSigner_pluginConfig s)).

(* ... otherwise the generate-signature request names the key spec and the hash of the model's
   codecs (the model's o_plugsig = (kn, hn)), and the plugin is used only through this one
   request: two plugins that answer it alike give the same result *)
Theorem gen_primSign_request_sent s payload kn hn GS' :
  encode_keyspec (ks_abs (pluginPrimitiveSigner_keySpec s)) = Some kn ->
  hash_from_keyspec (ks_abs (pluginPrimitiveSigner_keySpec s)) = Some hn ->
  GS (gs_request s payload kn hn) = GS' (gs_request s payload kn hn) ->
  primSign s payload = gen_signer_pluginPrimitiveSigner_Sign GS' P C parse s payload.
Proof.
  intros E1 E2 H. unfold primSign, gen_signer_pluginPrimitiveSigner_Sign.
  rewrite gen_EncodeKeySpec_equiv, E1, gen_HashAlgorithmFromKeySpec_equiv, E2. cbn [is_none negb].
  cbv zeta. unfold gs_request in H. rewrite H. reflexivity.
Qed.

Definition fail (x : err) : sres_t := ([], PNil, Some x).
Definition wrap_res (r : sres_t) : sres_t :=
  match r with
  | (sig, si, None) => (sig, si, None)
  | (_, _, Some x) => fail (err_wrap x)
  end.

Definition merged (s : signer_PluginSigner P) (opts : notation_go_SignerSignOptions C) : list (string * string) :=
  gen_signer_PluginSigner_mergeConfig P s (SignerSignOptions_PluginConfig opts).

(* PluginSigner.Sign goes the way of the model's signer_sign (signer_sign_route): signature
   generator first (key spec from describe-key), else envelope generator, else refusal;
   the untranslated generateSignature / generateSignatureEnvelope get the descriptor and the
   options unchanged, and the decoded key spec *)
Theorem gen_Sign_route s desc opts md capsig capenv describe :
  plugin_answers s md capsig capenv describe ->
  Sign s desc opts
  = Some (match route_oci capsig capenv describe with
          | RGen ks => wrap_res (GSG (PNew s) desc opts (ks_gen ks) md (merged s opts))
          | REnv => wrap_res (GSE (PNew s) desc opts)
          | RFail => if capsig then fail (err_wrap err_unknown_keyspec) else fail err_nocap
          end).
Proof.
  intros A. pose proof A as (Hgm & (mv & Hmv & Hcs & Hce) & _).
  unfold Sign, gen_signer_PluginSigner_Sign. cbv zeta. rewrite Hgm. cbn [is_none negb]. rewrite Hmv.
  rewrite !gen_HasCapability_equiv. change (mem_str "SIGNATURE_GENERATOR.RAW" _) with (capsig_of mv).
  change (mem_str "SIGNATURE_GENERATOR.ENVELOPE" _) with (capenv_of mv). rewrite Hcs, Hce.
  cbn [String.eqb Ascii.eqb Bool.eqb orb]. unfold route_oci.
  destruct capsig.
  - fold getKeySpec. rewrite (gen_getKeySpec_equiv _ _ _ _ _ _ A).
    destruct (decode_keyspec describe) as [ks|]; cbn [is_none negb olist]; [|reflexivity].
    fold (merged s opts). unfold wrap_res.
    destruct (GSG _ _ _ _ _ _) as [[sig si] [x|]]; reflexivity.
  - destruct capenv; [|reflexivity]. unfold wrap_res.
    destruct (GSE _ _ _) as [[sig si] [x|]]; reflexivity.
Qed.

(* PluginSigner.SignBlob goes the way of the model's signer_sign_blob (signer_sign_blob_route):
   describe-key ALWAYS, the descriptor generator is asked for the digest algorithm bound to the
   described key (the model's o_shash), its error is returned as it is, then the dispatch *)
Theorem gen_SignBlob_route s gd opts md capsig capenv describe :
  plugin_answers s md capsig capenv describe ->
  SignBlob s gd opts
  = Some (match decode_keyspec describe with
          | None => fail err_unknown_keyspec
          | Some ks =>
              match route_blob capsig capenv describe with
              | BFail => fail err_unknown_hash
              | r =>
                  let an := match r with BGen _ an | BEnv an | BNoCap an => an | BFail => "" end in
                  match gd an with
                  | (_, Some x) => fail x
                  | (desc, None) =>
                      match r with
                      | BGen ks _ => GSG (PNew s) desc opts (ks_gen ks) md (merged s opts)
                      | BEnv _ => GSE (PNew s) desc opts
                      | _ => fail err_nocap
                      end
                  end
              end
          end).
Proof.
  intros A. pose proof A as (Hgm & (mv & Hmv & Hcs & Hce) & _).
  unfold SignBlob, gen_signer_PluginSigner_SignBlob. cbv zeta. rewrite Hgm. cbn [is_none negb]. rewrite Hmv.
  fold getKeySpec. rewrite (gen_getKeySpec_equiv _ _ _ _ _ _ A). unfold route_blob.
  destruct (decode_keyspec describe) as [ks|]; cbn [is_none negb]; [|reflexivity].
  rewrite gen_getDescriptor_equiv, ks_abs_gen.
  destruct (C07_Model.signer_algorithms _) as [an|]; cbn [is_none negb]; [|reflexivity].
  rewrite !gen_HasCapability_equiv. change (mem_str "SIGNATURE_GENERATOR.RAW" _) with (capsig_of mv).
  change (mem_str "SIGNATURE_GENERATOR.ENVELOPE" _) with (capenv_of mv). rewrite Hcs, Hce.
  cbn [String.eqb Ascii.eqb Bool.eqb orb]. fold (merged s opts).
  destruct capsig; [|destruct capenv]; cbv zeta;
    destruct (gd an) as [desc [x|]]; cbn [is_none negb]; reflexivity.
Qed.

(* a plugin that answers get-plugin-metadata with nothing is refused before anything else *)
Theorem gen_Sign_nil_metadata s desc opts :
  (forall req, GM req = (PNil, None)) -> Sign s desc opts = Some (fail err_nil_meta).
Proof. intros H. unfold Sign, gen_signer_PluginSigner_Sign. cbv zeta. rewrite H. reflexivity. Qed.

Theorem gen_SignBlob_nil_metadata s gd opts :
  (forall req, GM req = (PNil, None)) -> SignBlob s gd opts = Some (fail err_nil_meta).
Proof. intros H. unfold SignBlob, gen_signer_PluginSigner_SignBlob. cbv zeta. rewrite H. reflexivity. Qed.

(* The hash bound to the signing key, on the translated SignBlob (clause 9, transport of
   C07_hash_bound): a plugin that describes one of the six key specs of the property's own
   table makes SignBlob ask the descriptor generator for that row's digest algorithm, and
   nothing else. *)
Theorem gen_SignBlob_hash_bound s gd gd' opts md capsig capenv k kn a hn an :
  spec_row k spec_table = Some (kn, a, hn, an) ->
  plugin_answers s md capsig capenv kn ->
  gd an = gd' an ->
  SignBlob s gd opts = SignBlob s gd' opts.
Proof.
  intros Hrow A Hg.
  assert (Hd : decode_keyspec kn = Some k /\ C07_Model.signer_algorithms (alg_hash (sig_alg k)) = Some an).
  { destruct k as [t n]. unfold spec_table, spec_row, keyspec_eqb in Hrow. cbn [ks_type ks_size] in Hrow.
    destruct t; cbn [ktype_eqb andb] in Hrow;
    repeat match type of Hrow with
    | context [(n =? ?c)%N] =>
        destruct (N.eqb_spec n c); [subst n; inversion Hrow; subst; split; reflexivity|]
    end; discriminate. }
  destruct Hd as [Hd Ha].
  rewrite !(gen_SignBlob_route _ _ _ _ _ _ _ A). rewrite Hd. unfold route_blob. rewrite Hd, Ha.
  destruct capsig; [|destruct capenv]; cbv zeta; rewrite Hg; reflexivity.
Qed.
End Oracles.

(* ================================================================================
   6. The property's theorems, transported onto the translated functions
   ================================================================================ *)

(* C07_supported_keys: core signs only with the six key specs of the table — whatever Go
   key spec KeySpec.SignatureAlgorithm maps to an algorithm is a row of the table *)
Theorem gen_supported_keys ks :
  gen_algorithm_KeySpec_SignatureAlgorithm ks <> 0%Z ->
  exists r, spec_row (ks_abs ks) spec_table = Some r.
Proof.
  rewrite gen_SignatureAlgorithm_equiv. intros H. apply sig_alg_supported.
  intros E. rewrite E in H. apply H. reflexivity.
Qed.

(* C07_keyspec_names: the translated DecodeKeySpec and EncodeKeySpec are inverse on what
   they accept *)
Theorem gen_codecs_inverse s k :
  gen_proto_DecodeKeySpec s = (ks_gen k, None) <-> gen_proto_EncodeKeySpec (ks_gen k) = (s, None).
Proof.
  rewrite gen_DecodeKeySpec_equiv, gen_EncodeKeySpec_equiv, ks_abs_gen.
  pose proof (keyspec_names k s) as [A B]. split.
  - destruct (decode_keyspec s) as [k'|] eqn:E; [|discriminate]. intros H.
    assert (k' = k).
    { inversion H as [[Ht Hs]]. destruct k as [t n], k' as [t' n']. cbn in Ht, Hs.
      apply N2Z.inj in Hs. destruct t, t'; cbn in Ht; try discriminate; subst; reflexivity. }
    subst. rewrite (A eq_refl). reflexivity.
  - destruct (encode_keyspec k) as [s'|] eqn:E; [|discriminate]. intros H. inversion H. subst.
    rewrite (B eq_refl). reflexivity.
Qed.

(* C07_hash_bound on a legal input with a plugin-backed signer: the descriptor generator is
   asked for the digest algorithm of the key's row, and for nothing else *)
Theorem gen_SignBlob_legal (P C : Type) DK GM GSE GSG i (s : signer_PluginSigner P) gd gd' opts md
        capsig capenv describe kn a hn an :
  legal i = true -> i_signer i = Plug capsig capenv describe ->
  spec_row (i_ks i) spec_table = Some (kn, a, hn, an) ->
  plugin_answers P DK GM s md capsig capenv describe ->
  gd an = gd' an ->
  gen_signer_PluginSigner_SignBlob DK GM P C GSE GSG s gd opts
  = gen_signer_PluginSigner_SignBlob DK GM P C GSE GSG s gd' opts.
Proof.
  intros L Hs Hrow A Hg. unfold legal in L. rewrite Hs, Hrow in L.
  repeat (apply andb_true_iff in L; destruct L as [L ?]).
  repeat match goal with H : (_ && _) = true |- _ => apply andb_true_iff in H; destruct H end.
  match goal with H : String.eqb describe kn = true |- _ => apply String.eqb_eq in H; subst describe end.
  eapply gen_SignBlob_hash_bound; eassumption.
Qed.

(* ================================================================================
   7. VerificationOutcome.UserMetadata: what is read back (clause 12)
   ================================================================================ *)

Local Arguments VerificationOutcome_EnvelopeContent {_}.
Local Arguments EnvelopeContent_Payload {_}.

Definition err_no_content : err := Err "errors" "unable to find envelope content for verification outcome" [].
Definition err_unmarshal : err :=
  Err "errors" "failed to unmarshal the payload content in the signature blob to envelope.Payload" [].
Definition payload_zero : envelope_Payload := mk_envelope_Payload desc_zero.

Lemma map_len_zero {V} (m : list (string * V)) : (map_len String.eqb m =? 0)%Z = match m with [] => true | _ => false end.
Proof. destruct m as [|[k v] m]; [reflexivity|]. unfold map_len. cbn [map_entries List.length]. reflexivity. Qed.

(* json.Unmarshal(content, &payload) is an oracle U: it receives the bytes and the current
   (zero) payload and returns the payload it leaves behind and its error. For EVERY such
   oracle: the annotations of the decoded payload are returned as they are (the nil map
   becomes the empty map: one value here), a decoding error becomes the fixed error. *)
Theorem gen_UserMetadata_spec (C : Type) U (outcome : notation_go_VerificationOutcome C) :
  gen_notation_go_VerificationOutcome_UserMetadata C U outcome
  = match ptr_val (VerificationOutcome_EnvelopeContent outcome) with
    | None => Some ([], Some err_no_content)
    | Some env =>
        let '(p, e) := U (Payload_Content (EnvelopeContent_Payload env)) payload_zero in
        match e with
        | Some _ => Some ([], Some err_unmarshal)
        | None => Some (Descriptor_Annotations (Payload_TargetArtifact p), None)
        end
    end.
Proof.
  unfold gen_notation_go_VerificationOutcome_UserMetadata. rewrite ptr_is_nil_val.
  destruct (ptr_val (VerificationOutcome_EnvelopeContent outcome)) as [env|]; cbn [is_none]; [|reflexivity].
  cbv zeta. fold desc_zero. fold payload_zero.
  destruct (U _ payload_zero) as [p [x|]]; cbn [is_none negb]; [reflexivity|].
  rewrite map_len_zero. destruct (Descriptor_Annotations (Payload_TargetArtifact p)); reflexivity.
Qed.

(* the place in the model: [user_metadata] (o_meta). "U decodes like the model's dec": *)
Definition unmarshal_agrees (U : list Z -> envelope_Payload -> envelope_Payload * option err)
           (dec : list Z -> option descr) : Prop :=
  forall content,
    match U content payload_zero with
    | (p, None) => dec content = Some (payload_descr p)
    | (_, Some _) => dec content = None
    end.

Theorem gen_UserMetadata_model (C : Type) U dec (outcome : notation_go_VerificationOutcome C) env
        (e : envelope (list Z)) :
  unmarshal_agrees U dec ->
  ptr_val (VerificationOutcome_EnvelopeContent outcome) = Some env ->
  e_payload (list Z) e = Payload_Content (EnvelopeContent_Payload env) ->
  match gen_notation_go_VerificationOutcome_UserMetadata C U outcome with
  | Some (m, None) => user_metadata (list Z) dec e = Some m
  | Some (_, Some _) => user_metadata (list Z) dec e = None
  | None => False
  end.
Proof.
  intros A He Hp. rewrite gen_UserMetadata_spec, He. unfold user_metadata. rewrite Hp.
  specialize (A (Payload_Content (EnvelopeContent_Payload env))).
  destruct (U _ payload_zero) as [p [x|]]; rewrite A; reflexivity.
Qed.

(* ================================================================================
   8. GenericSigner.Sign / SignBlob: the request handed to notation-core-go
      (clauses 6, 7, 8, 10: expiry = signing time + duration, signing agent, payload)
   ================================================================================ *)

Section Generic.
Variable C E S : Type.       (* x509.Certificate, core's Envelope and Signer: opaque *)
Variable now : Z.            (* time.Now() *)
Variable KS : algorithm_KeySpec * option err.                    (* s.signer.KeySpec() *)
Variable NewEnv : string -> E * option err.                      (* signature.NewEnvelope *)
Variable ESign : ptr (signature_SignRequest C S) -> list Z * option err.   (* sigEnv.Sign *)
Variable EVerify : ptr (signature_EnvelopeContent C) * option err.         (* sigEnv.Verify *)
Variable WithCtx : ptr (signature_SignRequest C S) -> ptr (signature_SignRequest C S).
Variable add : Z -> Z -> Z.                                      (* time.Time.Add *)
Variable Marshal : envelope_Payload -> list Z * option err.      (* json.Marshal *)

Local Arguments SignerSignOptions_SigningAgent {_}.
Local Arguments SignerSignOptions_Timestamper {_}.
Local Arguments SignerSignOptions_TSARootCAs {_}.
Local Arguments SignerSignOptions_TSARevocationValidator {_}.
Local Arguments GenericSigner_signer {_}.
Local Arguments EnvelopeContent_SignerInfo {_}.
Local Arguments mk_SignRequest {_ _}.
Local Arguments SignRequest_Payload {_ _}.
Local Arguments SignRequest_SigningTime {_ _}.
Local Arguments SignRequest_Expiry {_ _}.
Local Arguments SignRequest_SigningAgent {_ _}.
Local Arguments SignRequest_SigningScheme {_ _}.
Local Arguments SignRequest_Signer {_ _}.

Let GSign := gen_signer_GenericSigner_Sign C now E NewEnv S ESign EVerify WithCtx add Marshal.
Let GSignBlob := gen_signer_GenericSigner_SignBlob C now KS E NewEnv S ESign EVerify WithCtx add Marshal.

Definition gfail (x : err) : sres_t C := ([], PNil, Some x).

(* the sign request GenericSigner.Sign builds; [agent0] = the library's own signing agent *)
Definition generic_request (agent0 : string) (s : signer_GenericSigner S) (opts : notation_go_SignerSignOptions C)
           (payloadBytes : list Z) : signature_SignRequest C S :=
  mk_SignRequest (mk_Payload mt_payload payloadBytes) (GenericSigner_signer s)
    now
    (if (SignerSignOptions_ExpiryDuration opts =? 0)%Z then time_zero
     else add now (SignerSignOptions_ExpiryDuration opts))
    []
    (if String.eqb (SignerSignOptions_SigningAgent opts) "" then agent0 else SignerSignOptions_SigningAgent opts)
    "notary.x509"
    (SignerSignOptions_Timestamper opts) (SignerSignOptions_TSARootCAs opts)
    (SignerSignOptions_TSARevocationValidator opts).

Definition err_marshal (x : err) : err := Err "fmt" "envelope payload can't be marshalled: %w" [x].
Definition err_ts1 : err := Err "errors" "timestamping: got Timestamper but nil TSARootCAs" [].
Definition err_ts2 : err := Err "errors" "timestamping: got TSARootCAs but nil Timestamper" [].
Definition err_selfverify : err := Err "fmt" "generated signature failed verification: %v" [].

(* what GenericSigner.Sign does, in the order it does it *)
Definition generic_sign_spec (agent0 : string) (s : signer_GenericSigner S) (desc : v1_Descriptor)
           (opts : notation_go_SignerSignOptions C) : option (sres_t C) :=
  match Marshal (mk_envelope_Payload (gen_envelope_SanitizeTargetArtifact desc)) with
  | (_, Some x) => Some (gfail (err_marshal x))
  | (bytes, None) =>
      if negb (ptr_is_nil (SignerSignOptions_Timestamper opts)) && ptr_is_nil (SignerSignOptions_TSARootCAs opts)
      then Some (gfail err_ts1)
      else if negb (ptr_is_nil (SignerSignOptions_TSARootCAs opts)) && ptr_is_nil (SignerSignOptions_Timestamper opts)
      then Some (gfail err_ts2)
      else
        match NewEnv (SignerSignOptions_SignatureMediaType opts) with
        | (_, Some x) => Some (gfail x)
        | (_, None) =>
            match ESign (WithCtx (PNew (generic_request agent0 s opts bytes))) with
            | (_, Some x) => Some (gfail x)
            | (sig, None) =>
                match EVerify with
                | (_, Some _) => Some (gfail err_selfverify)
                | (content, None) =>
                    match ptr_val content with
                    | None => None             (* nil content without error: the code dereferences it *)
                    | Some c =>
                        if String.eqb (Payload_ContentType (EnvelopeContent_Payload c)) mt_payload
                        then Some (sig, PNew (EnvelopeContent_SignerInfo c), None)
                        else Some (gfail err_ctype)
                    end
                end
            end
        end
  end.

(* For ALL oracles: the translated Sign is that function, for some fixed default agent.
   Clause 10: SigningTime = time.Now(), Expiry = SigningTime.Add(ExpiryDuration) unless the
   duration is 0 (then the zero Time = no expiry). Clause 7: the caller's agent, else the
   library's. Clause 8: the payload is json.Marshal(Payload{SanitizeTargetArtifact(desc)}),
   typed mt_payload; what core reports back must carry that type. *)
Local Ltac generic_tail Et :=
  destruct (ptr_is_nil (SignerSignOptions_Timestamper _)) eqn:Et;
  destruct (ptr_is_nil (SignerSignOptions_TSARootCAs _)); cbn [negb andb]; try reflexivity;
  destruct (SignerSignOptions_ExpiryDuration _ =? 0)%Z; cbn [negb ptr_val];
  unfold set_SignRequest_Expiry; cbn [SignRequest_Timestamper SignRequest_Payload SignRequest_Signer
    SignRequest_SigningTime SignRequest_Expiry SignRequest_ExtendedSignedAttributes SignRequest_SigningAgent
    SignRequest_SigningScheme SignRequest_TSARootCAs SignRequest_TSARevocationValidator];
  rewrite ?Et; cbn [negb];
  destruct (NewEnv _) as [? [?|]]; cbn [is_none negb]; try reflexivity;
  destruct (ESign _) as [? [?|]]; cbn [is_none negb]; try reflexivity;
  destruct EVerify as [content [?|]]; cbn [is_none negb]; try reflexivity;
  destruct (ptr_val content) as [c|]; try reflexivity;
  rewrite gen_ValidatePayloadContentType_equiv; cbn [ptr_val];
  unfold mt_payload, err_ctype;
  destruct (String.eqb (Payload_ContentType (EnvelopeContent_Payload c)) _); reflexivity.

Theorem gen_GenericSigner_Sign_spec :
  exists agent0 : string, forall s desc opts, GSign s desc opts = generic_sign_spec agent0 s desc opts.
Proof.
  unfold GSign. clear GSign GSignBlob. eexists. intros s desc opts.
  unfold gen_signer_GenericSigner_Sign, generic_sign_spec, generic_request, gfail, mt_payload.
  cbv zeta.
  destruct (Marshal _) as [bytes [x|]]; cbn [is_none negb olist]; [reflexivity|].
  destruct (String.eqb (SignerSignOptions_SigningAgent opts) "") eqn:Ea; cbn [negb]; cbv iota.
  - (* no agent named by the caller: the library's own agent is whatever closed string the code
       puts into the request here *)
    match goal with
    | |- context [mk_SignRequest _ _ _ _ _ ?a _ _ _ _] =>
        tryif is_evar a then fail else
        match goal with
        | |- context [mk_SignRequest _ _ _ _ _ ?b _ _ _ _] => is_evar b; unify b a
        end
    end.
    generic_tail Et.
  - generic_tail Et.
Qed.

(* the request against the model's generic_sign (payload, agent_id, expiry of core_sign's
   arguments), when time.Time.Add adds *)
Definition time_opt (t : Z) : option Z := if time_is_zero t then None else Some t.

Theorem generic_request_model agent0 s desc opts bytes :
  (forall t d, add t d = (t + d)%Z) ->
  (0 <= now)%Z -> (0 <= SignerSignOptions_ExpiryDuration opts)%Z ->
  let req := generic_request agent0 s opts bytes in
  let dur := SignerSignOptions_ExpiryDuration opts in
  let agent := SignerSignOptions_SigningAgent opts in
  SignRequest_SigningTime req = now /\
  time_opt (SignRequest_Expiry req) = (if (dur =? 0)%Z then None else Some (now + dur)%Z) /\
  SignRequest_SigningAgent req = (if String.eqb agent "" then agent0 else agent) /\
  Payload_ContentType (SignRequest_Payload req) = mt_payload /\
  Payload_Content (SignRequest_Payload req) = bytes /\
  payload_descr (mk_envelope_Payload (gen_envelope_SanitizeTargetArtifact desc)) = sanitize (descr_of desc).
Proof.
  intros Hadd Hn Hd. cbv zeta. unfold generic_request. cbn.
  repeat split.
  destruct (Z.eqb_spec (SignerSignOptions_ExpiryDuration opts) 0) as [Hz|Hz]; [reflexivity|].
  rewrite Hadd. unfold time_opt, time_is_zero, time_zero.
  destruct (Z.eqb_spec (now + SignerSignOptions_ExpiryDuration opts) (-62135596800000000000)); [lia|reflexivity].
Qed.

(* GenericSigner.SignBlob: the key spec of the signer's own key decides the digest algorithm
   the descriptor generator is asked for (clause 9, local signers), then Sign *)
Theorem gen_GenericSigner_SignBlob_spec s genDesc opts :
  GSignBlob s genDesc opts
  = match KS with
    | (_, Some x) => Some (gfail x)
    | (ks, None) =>
        match C07_Model.signer_algorithms (alg_hash (sig_alg (ks_abs ks))) with
        | None => Some (gfail err_unknown_hash)
        | Some an =>
            match genDesc an with
            | (_, Some x) => Some (gfail x)
            | (desc, None) => GSign s desc opts
            end
        end
    end.
Proof.
  unfold GSignBlob, gen_signer_GenericSigner_SignBlob, gfail. destruct KS as [ks [x|]]; cbn [is_none negb]; [reflexivity|].
  rewrite gen_getDescriptor_equiv.
  destruct (C07_Model.signer_algorithms _) as [an|]; cbn [is_none negb]; [|reflexivity].
  destruct (genDesc an) as [desc [x|]]; reflexivity.
Qed.
End Generic.
