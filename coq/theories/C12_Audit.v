(* C12_Audit.v — statements added by the theorem audit (docs/audit/C12.md):
   consistency without the input contract, the attempt limit as a non-influence
   statement, the missing plugin manager at the entry points, the clause
   "failure comes with an outcome" at the level of notation.Verify / VerifyBlob
   (refuted: the functions drop failed outcomes), non-vacuity witnesses. *)
From NV Require Import Base Regex Generated C12_Model C12_Proofs.
Open Scope string_scope.
Open Scope list_scope.

(* ---------- "panic, or a consistent return": no contract at all ---------- *)
Lemma verify_oci_any v sc : verify_oci v sc = OPanic \/ good_v (oci_selected v) (verify_oci v sc).
Proof.
  unfold verify_oci, oci_selected.
  destruct (v_oci v) as [[| |l]|]; try (right; apply gv_err_early; reflexivity); [left; reflexivity|].
  destruct (is_skip l).
  { right. apply gv_ok; [reflexivity | reflexivity | discriminate | apply skip_out_good]. }
  destruct (process_signature l (v_pm v) sc) as [|[e|] c rs] eqn:E; [left; reflexivity| |].
  - right. apply gv_err_out; [reflexivity | reflexivity | apply out_of_um].
  - rewrite (process_signature_success_content _ _ _ _ _ E). cbn [negb]. right.
    destruct (negb (s_payload_ok sc)).
    + apply gv_err_out; [reflexivity | reflexivity | apply out_of_um].
    + destruct (post_err sc) eqn:Ep.
      * apply gv_err_out; [reflexivity | reflexivity | apply out_of_um].
      * apply gv_ok; [reflexivity | reflexivity | cbn; discriminate | apply out_of_um].
Qed.

Lemma verify_blob_any v sc : verify_blob v sc = OPanic \/ good_v (blob_selected v) (verify_blob v sc).
Proof.
  unfold verify_blob, blob_selected.
  destruct (v_blob v) as [[| |l]|]; try (right; apply gv_err_early; reflexivity); [left; reflexivity|].
  destruct (is_skip l).
  { right. apply gv_ok; [reflexivity | reflexivity | discriminate | apply skip_out_good]. }
  destruct (process_signature l (v_pm v) sc) as [|[e|] c rs] eqn:E; [left; reflexivity| |].
  - right. apply gv_err_out; [reflexivity | reflexivity | apply out_of_um].
  - rewrite (process_signature_success_content _ _ _ _ _ E). cbn [negb]. right.
    destruct (negb (s_payload_ok sc)).
    + apply gv_err_out; [reflexivity | reflexivity | apply out_of_um].
    + destruct (s_descgen_err sc).
      * apply gv_err_out; [reflexivity | reflexivity | apply out_of_um].
      * destruct (post_err sc) eqn:Ep.
        -- apply gv_err_out; [reflexivity | reflexivity | apply out_of_um].
        -- apply gv_ok; [reflexivity | reflexivity | cbn; discriminate | apply out_of_um].
Qed.

Theorem consistent_verifier_any i f l outs err :
  i_entry i = EVerify \/ i_entry i = EVerifyBlob ->
  model i = ORet f l outs err ->
  (err = None <-> exists oc, outs = [Some oc] /\ oc_err oc = None) /\
  (forall e, err = Some e -> policy_selected i = true ->
     exists oc, outs = [Some oc] /\ oc_err oc = Some e /\ oc_same oc = true) /\
  (err = None -> exists oc, outs = [Some oc] /\ oc_same oc = true /\ oc_level oc <> None).
Proof.
  intros Hent Hm. unfold model in Hm. destruct (uses_lib i && construct_fails i); [discriminate|].
  destruct Hent as [Hent|Hent]; rewrite Hent in Hm.
  - rewrite (policy_selected_verify i Hent).
    destruct (verify_oci_any (i_v i) (i_sc i)) as [P|G]; [rewrite P in Hm; discriminate|].
    exact (good_v_consistent _ _ _ _ _ _ G Hm).
  - rewrite (policy_selected_blob i Hent).
    destruct (verify_blob_any (i_v i) (i_sc i)) as [P|G]; [rewrite P in Hm; discriminate|].
    exact (good_v_consistent _ _ _ _ _ _ G Hm).
Qed.

(* one call through the interface *)
Definition call_of (o : obs) : vres :=
  match o with
  | ORet _ _ [] e => VRes None e
  | ORet _ _ (x :: _) e => VRes x e
  | _ => VPanic
  end.

Lemma call_of_any sel o : o = OPanic \/ good_v sel o -> call_of o = VPanic \/ good_call (call_of o).
Proof.
  intros [P|G]; [left; rewrite P; reflexivity|]. right. exact (call_of_good_v sel o G).
Qed.

Lemma custom_call_good out err : impl_wf (VCustom out err) = true ->
  good_call (VRes (match out with Some c => Some (custom_outc c err) | None => None end)
                  (if err then Some XOther else None)).
Proof.
  intros Hi. destruct err; [apply gc_err|].
  destruct out as [c|]; cbn in Hi; [|discriminate].
  apply gc_ok; [|apply custom_outc_good].
  cbn. apply negb_true_iff in Hi. now rewrite Hi.
Qed.

Lemma call_verify_any impl v sc : impl <> VNil -> impl_wf impl = true ->
  call_verify impl v sc = VPanic \/ good_call (call_verify impl v sc).
Proof.
  intros Hn Hi. destruct impl as [| |out err]; [congruence| |].
  - exact (call_of_any _ _ (verify_oci_any v sc)).
  - right. exact (custom_call_good out err Hi).
Qed.

Lemma call_verify_blob_any impl v sc : impl <> VNil -> impl_wf impl = true ->
  call_verify_blob impl v sc = VPanic \/ good_call (call_verify_blob impl v sc).
Proof.
  intros Hn Hi. destruct impl as [| |out err]; [congruence| |].
  - exact (call_of_any _ _ (verify_blob_any v sc)).
  - right. exact (custom_call_good out err Hi).
Qed.

Lemma nloop_any impl v : impl <> VNil -> impl_wf impl = true ->
  forall k any items, nloop impl v k any items = LPanic \/ good_loop (nloop impl v k any items).
Proof.
  intros Hn Hi. induction k as [|k IH]; intros any items; cbn [nloop].
  - right; constructor.
  - destruct items as [|[|sc] rest]; try (right; constructor).
    destruct (call_verify_any impl v sc Hn Hi) as [P|G]; [rewrite P; left; reflexivity|].
    inversion G as [o Ho Hg Heq | o e Heq].
    + right. apply gl_succ; assumption.
    + destruct o; [apply IH | right; constructor].
Qed.

Lemma nverify_tail_any impl v n : impl <> VNil -> impl_wf impl = true ->
  let r := match n_ref n with
    | RefBad | RefNoTag => ORet false None [] (Some XRetrieval)
    | RefOK =>
        if n_resolve_err n then ORet false None [] (Some XRetrieval) else
        if n_digest_mismatch n then ORet false None [] (Some XRetrieval) else
        if n_list_err n then ORet false None [] (Some XOther) else
        match nloop impl v (Z.to_nat (n_max n)) false (n_items n) with
        | LPanic => OPanic
        | LReturn e => ORet false None [] (Some e)
        | LSuccess o => ORet true None [o] None
        | LExceeded => ORet false None [] (Some XFailed)
        | LEnd false => ORet false None [] (Some XRetrieval)
        | LEnd true => ORet false None [] (Some XFailed)
        end
    end in
  r = OPanic \/ good_n r.
Proof.
  intros Hn Hi. cbv zeta.
  destruct (n_ref n); try (right; apply gn_err).
  destruct (n_resolve_err n); [right; apply gn_err|].
  destruct (n_digest_mismatch n); [right; apply gn_err|].
  destruct (n_list_err n); [right; apply gn_err|].
  destruct (nloop_any impl v Hn Hi (Z.to_nat (n_max n)) false (n_items n)) as [P|G]; [rewrite P; left; reflexivity|].
  right. inversion G as [e He|o Ho Hg He| |b He]; try apply gn_err.
  - apply gn_ok; assumption.
  - destruct b; apply gn_err.
Qed.

Lemma nverify_any impl v n : impl_wf impl = true -> nverify impl v n = OPanic \/ good_n (nverify impl v n).
Proof.
  intros Hi. unfold nverify.
  destruct impl as [| |out err] eqn:Eimpl; [right; apply gn_err| |].
  - destruct (n_repo_nil n); [right; apply gn_err|].
    destruct (n_max n <=? 0)%Z; [right; apply gn_err|].
    assert (Hn : VLib <> VNil) by discriminate.
    pose proof (nverify_tail_any VLib v n Hn Hi) as T. cbv zeta in T.
    unfold skip_verify. destruct (v_oci v) as [[| |l]|]; try (right; apply gn_err); [exact T|].
    destruct (is_skip l); [right; apply gn_ok; [reflexivity | cbn; discriminate] | exact T].
  - destruct (n_repo_nil n); [right; apply gn_err|].
    destruct (n_max n <=? 0)%Z; [right; apply gn_err|].
    assert (Hn : VCustom out err <> VNil) by discriminate.
    exact (nverify_tail_any (VCustom out err) v n Hn Hi).
Qed.

Lemma nverify_blob_tail_any impl sc r : r = VPanic \/ good_call r ->
  let o := match r with
          | VPanic => OPanic
          | VRes _ (Some e) => ORet false None [] (Some (coarse e))
          | VRes None None => OPanic
          | VRes (Some o) None =>
              if negb (oc_content o) then ORet false None [Some o] None
              else if negb (blob_payload_ok impl sc) then ORet false None [] (Some XOther)
              else ORet true None [Some o] None
          end in
  o = OPanic \/ good_n o.
Proof.
  intros [P|G]; cbv zeta; [rewrite P; left; reflexivity|]. right. exact (nverify_blob_tail impl sc r G).
Qed.

Lemma nverify_blob_any impl v b sc : impl_wf impl = true ->
  nverify_blob impl v b sc = OPanic \/ good_n (nverify_blob impl v b sc).
Proof.
  intros Hi. unfold nverify_blob.
  destruct impl as [| |out err] eqn:Eimpl; [right; apply gn_err| |].
  - destruct (b_reader_nil b); [right; apply gn_err|].
    assert (Hn : VLib <> VNil) by discriminate.
    destruct (s_sig sc) eqn:Es; [right; apply gn_err| |];
      (destruct (b_ctype_bad b); [right; apply gn_err|]; destruct (b_stype_bad b); [right; apply gn_err|];
       exact (nverify_blob_tail_any VLib sc _ (call_verify_blob_any VLib v sc Hn Hi))).
  - destruct (b_reader_nil b); [right; apply gn_err|].
    assert (Hn : VCustom out err <> VNil) by discriminate.
    destruct (s_sig sc) eqn:Es; [right; apply gn_err| |];
      (destruct (b_ctype_bad b); [right; apply gn_err|]; destruct (b_stype_bad b); [right; apply gn_err|];
       exact (nverify_blob_tail_any (VCustom out err) sc _ (call_verify_blob_any (VCustom out err) v sc Hn Hi))).
Qed.

Theorem consistent_notation_any i f l outs err :
  impl_wf (i_impl i) = true -> i_entry i = ENVerify \/ i_entry i = ENVerifyBlob ->
  model i = ORet f l outs err ->
  (err = None <-> exists oc, outs = [Some oc] /\ oc_err oc = None) /\
  (err <> None -> outs = [] /\ f = false).
Proof.
  intros Hi Hent Hm. unfold model in Hm. destruct (uses_lib i && construct_fails i); [discriminate|].
  destruct Hent as [Hent|Hent]; rewrite Hent in Hm.
  - destruct (nverify_any (i_impl i) (i_v i) (i_n i) Hi) as [P|G]; [rewrite P in Hm; discriminate|].
    exact (good_n_consistent _ _ _ _ _ G Hm).
  - destruct (nverify_blob_any (i_impl i) (i_v i) (i_b i) (i_sc i) Hi) as [P|G]; [rewrite P in Hm; discriminate|].
    exact (good_n_consistent _ _ _ _ _ G Hm).
Qed.

(* the one contract consistency needs: a caller-supplied verifier that returns an outcome
   WITH an error next to a nil error makes notation.VerifyBlob hand exactly that back *)
Definition c_incons : cout := mk_cout true CCGood.
Theorem custom_inconsistent_needed :
  let i := mk_input ENVerifyBlob false (mk_v None None PMNil) (VCustom (Some c_incons) false)
                    sc_good n_one b_good CCNone in
  impl_wf (i_impl i) = false /\
  exists o, model i = ORet true None [Some o] None /\ oc_err o = Some XOther.
Proof. split; [reflexivity|]. eexists; split; reflexivity. Qed.

(* ---------- the attempt limit: signatures beyond it cannot influence the result ---------- *)
Lemma nloop_firstn impl v : forall k any items,
  nloop impl v k any items = nloop impl v k any (firstn k items).
Proof.
  induction k as [|k IH]; intros any items; [reflexivity|].
  destruct items as [|[|sc] rest]; cbn [firstn nloop]; try reflexivity.
  destruct (call_verify impl v sc) as [|[o|] [e|]]; try reflexivity. apply IH.
Qed.

Definition n_trunc (n : nreq) : nreq :=
  mk_nreq (n_repo_nil n) (n_max n) (n_ref n) (n_resolve_err n) (n_digest_mismatch n) (n_list_err n)
          (firstn (Z.to_nat (n_max n)) (n_items n)).

Theorem attempts_bounded impl v n : nverify impl v n = nverify impl v (n_trunc n).
Proof.
  destruct n as [rn mx rf re dm le items]. unfold nverify, n_trunc.
  cbn [n_repo_nil n_max n_ref n_resolve_err n_digest_mismatch n_list_err n_items].
  rewrite <- (nloop_firstn impl v (Z.to_nat mx) false items). reflexivity.
Qed.

(* ... and with as many failing signatures as the limit allows the answer is the limit error,
   whatever follows *)
Lemma nloop_all_fail impl v : forall k any items,
  (k <= List.length items)%nat ->
  (forall it, In it (firstn k items) -> exists sc o e, it = Sig sc /\ call_verify impl v sc = VRes (Some o) (Some e)) ->
  nloop impl v k any items = LExceeded.
Proof.
  induction k as [|k IH]; intros any items Hlen Hall; [reflexivity|].
  destruct items as [|it rest]; [cbn in Hlen; lia|].
  destruct (Hall it (or_introl eq_refl)) as (sc & o & e & -> & Hc).
  cbn [nloop]. rewrite Hc. apply IH.
  - cbn in Hlen. lia.
  - intros it' Hin. apply Hall. right. exact Hin.
Qed.

(* ---------- a missing plugin manager ---------- *)
Definition set_presp (sc : scenario) (r : presp) : scenario :=
  mk_sc (s_sig sc) (s_pattr sc) (s_minver_bad sc) (s_minver_high sc) (s_nonstr_crit sc) (s_crit sc)
        (s_auth_fail sc) (s_ident_fail sc) (s_exp_fail sc) (s_ts_fail sc) (s_rev sc) r
        (s_payload_ok sc) (s_annot sc) (s_desc_match sc) (s_meta_req sc) (s_meta_ok sc) (s_descgen_err sc).

Lemma discover_nil_pm sc : (exists e, discover PMNil sc = DErr e) \/ discover PMNil sc = DNone.
Proof.
  unfold discover, discover_gen. destruct (s_pattr sc); try (left; eexists; reflexivity);
    destruct (s_nonstr_crit sc); try (left; eexists; reflexivity); try (right; reflexivity).
  destruct (s_minver_bad sc); left; eexists; reflexivity.
Qed.

(* no plugin is ever consulted: the plugin's answer is irrelevant, so is the plugin contract *)
Theorem nil_pm_plugin_irrelevant l sc r :
  process_signature l PMNil (set_presp sc r) = process_signature l PMNil sc.
Proof.
  unfold process_signature, process_signature_gen, presp_nil_res; fold discover. cbn [set_presp s_sig].
  destruct (s_sig sc); try reflexivity.
  assert (Hd : discover PMNil (set_presp sc r) = discover PMNil sc) by reflexivity.
  rewrite Hd. destruct (discover_nil_pm sc) as [[e E]|E]; rewrite E; [reflexivity|].
  assert (Hn : native l (set_presp sc r) [] = native l sc []) by reflexivity.
  rewrite Hn. destruct (native l sc []); reflexivity.
Qed.

Theorem nil_pm_no_panic l sc : process_signature l PMNil sc <> PSPanic.
Proof.
  unfold process_signature, process_signature_gen, presp_nil_res; fold discover. destruct (s_sig sc); try discriminate.
  destruct (discover_nil_pm sc) as [[e E]|E]; rewrite E; [discriminate|].
  pose proof (native_no_panic l sc []) as Hn.
  destruct (native l sc []); try congruence; try discriminate.
  cbn. destruct (s_crit sc); discriminate.
Qed.

Theorem nil_pm_entry v sc l :
  v_pm v = PMNil -> is_skip l = false ->
  s_sig sc = SigOK -> s_pattr sc = PName -> s_nonstr_crit sc = false -> s_minver_bad sc = false ->
  let o := out_of (Some XInconclusive) true l [(TInt, false)] sc in
  (v_oci v = Some (SelLevel l) -> verify_oci v sc = ORet false None [Some o] (Some XInconclusive)) /\
  (v_blob v = Some (SelLevel l) -> verify_blob v sc = ORet false None [Some o] (Some XInconclusive)).
Proof.
  intros Hpm Hsk H1 H2 H3 H4. cbv zeta.
  pose proof (nil_plugin_manager l sc H1 H2 H3 H4) as Hp.
  split; intros Hd; [unfold verify_oci | unfold verify_blob]; rewrite Hd, Hsk, Hpm, Hp; reflexivity.
Qed.

(* ---------- "a failure comes with an outcome" does NOT hold for notation.Verify / VerifyBlob ---------- *)
Definition sc_badsig : scenario :=
  mk_sc SigBad PAbsent false false false false false false false false RevOK
        (PResp true (Some true) (Some true)) true false true false false false.
Definition n_fail : nreq := mk_nreq false 3 RefOK false false false [Sig sc_badsig; Sig sc_badsig].
Definition i_nverify_fail : input := mk_input ENVerify false (v_strict PMNil) VLib sc_good n_fail b_good CCNone.
Definition i_nverify_blob_fail : input := i_base ENVerifyBlob (v_strict PMNil) VLib sc_badsig.

Theorem failure_outcome_notation_refuted :
  (wf i_nverify_fail = true /\ sel_level i_nverify_fail = Some LStrict /\
   model i_nverify_fail = ORet false None [] (Some XFailed)) /\
  (wf i_nverify_blob_fail = true /\ sel_level i_nverify_blob_fail = Some LStrict /\
   model i_nverify_blob_fail = ORet false None [] (Some XOther)) /\
  (* the same signature at the Verifier interface: the outcome is there, with the error *)
  (exists o, model (i_base EVerify (v_strict PMNil) VLib sc_badsig) = ORet false None [Some o] (Some (XResult TInt)) /\
             oc_err o = Some (XResult TInt)).
Proof.
  split; [|split]; try (repeat split; reflexivity).
  eexists; split; reflexivity.
Qed.

(* ---------- non-vacuity witnesses ---------- *)
Definition v_none (pm : pmgr) : verifier := mk_v (Some SelNone) (Some SelNone) pm.
Definition v_skip : verifier := mk_v (Some (SelLevel LSkip)) (Some (SelLevel LSkip)) PMNil.
Definition v_oci_only : verifier := mk_v (Some (SelLevel LStrict)) None PMNil.

Example ex_verifier_ok :
  let i := i_base EVerify (v_strict PMNil) VLib sc_good in
  wf i = true /\ policy_selected i = true /\ sel_level i = Some LStrict /\
  exists o, model i = ORet false None [Some o] None /\ oc_err o = None /\ oc_level o = Some NStrict.
Proof. repeat split. eexists; repeat split. Qed.

Example ex_verifier_fail_selected :
  let i := i_base EVerifyBlob (v_strict PMNil) VLib sc_badsig in
  wf i = true /\ policy_selected i = true /\
  exists o, model i = ORet false None [Some o] (Some (XResult TInt)) /\ oc_err o = Some (XResult TInt) /\ oc_same o = true.
Proof. repeat split. eexists; repeat split. Qed.

Example ex_verifier_fail_unselected :
  let i := i_base EVerify (v_none PMNil) VLib sc_good in
  wf i = true /\ policy_selected i = false /\ model i = ORet false None [] (Some XNoPolicy).
Proof. repeat split. Qed.

Example ex_notation_blob_ok :
  let i := i_base ENVerifyBlob (v_strict PMNil) VLib sc_good in
  wf i = true /\ exists o, model i = ORet true None [Some o] None /\ oc_err o = None.
Proof. split; [reflexivity|]. eexists; split; reflexivity. Qed.

Example ex_skip :
  let n := n_one in
  v_oci v_skip = Some (SelLevel LSkip) /\ v_blob v_skip = Some (SelLevel LSkip) /\
  n_repo_nil n = false /\ (0 < n_max n)%Z /\
  b_reader_nil b_good = false /\ s_sig sc_good <> SigEmpty /\ b_ctype_bad b_good = false /\ b_stype_bad b_good = false /\
  sel_wf (v_oci v_skip) = true /\ skip_verify v_skip = ORet true (Some NSkip) [] None.
Proof. repeat split; try reflexivity. discriminate. Qed.

Example ex_wrong_kind :
  v_oci v_blob_only = None /\ v_blob v_oci_only = None /\
  model (i_base EVerify v_blob_only VLib sc_good) = ORet false None [] (Some XNil) /\
  model (i_base ENVerify v_blob_only VLib sc_good) = ORet false None [] (Some XNil) /\
  model (i_base EVerifyBlob v_oci_only VLib sc_good) = ORet false None [] (Some XNil) /\
  model (i_base ENVerifyBlob v_oci_only VLib sc_good) = ORet false None [] (Some XNil).
Proof. repeat split. Qed.

Example ex_nil_pm :
  let sc := sc_plugin PRNil in
  s_sig sc = SigOK /\ s_pattr sc = PName /\ s_nonstr_crit sc = false /\ s_minver_bad sc = false /\
  exists o, model (i_base EVerify (v_strict PMNil) VLib sc) = ORet false None [Some o] (Some XInconclusive) /\
            oc_err o = Some XInconclusive.
Proof. repeat split. eexists; split; reflexivity. Qed.

Example ex_attempts :
  let good_late := mk_nreq false 2 RefOK false false false [Sig sc_badsig; Sig sc_badsig; Sig sc_good] in
  let good_in_time := mk_nreq false 3 RefOK false false false [Sig sc_badsig; Sig sc_badsig; Sig sc_good] in
  nverify VLib (v_strict PMNil) good_late = ORet false None [] (Some XFailed) /\
  n_items (n_trunc good_late) = [Sig sc_badsig; Sig sc_badsig] /\
  exists o, nverify VLib (v_strict PMNil) good_in_time = ORet true None [Some o] None.
Proof. repeat split. eexists; reflexivity. Qed.
