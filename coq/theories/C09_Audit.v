(* C09_Audit.v — proofs added by the theorem audit (docs/audit/C09.md):
   the clauses of the property text that C09_Proofs.v states only through a
   computed notion (parse_distinguished_name, is_subset_dn over dn_maps, the
   count map over all scopes, new_verifier for one constructor) are spelled
   out and proved here. Definitions are in C09_Spec.v / C09_Model.v. *)
From NV Require Import Base Regex Generated C02_Levels C04_DN C09_Model C09_Spec C09_Proofs.
Open Scope string_scope.
Open Scope list_scope.

(* ====================================================================== *)
(* 1. x509.subject identities: parse AND contain C, ST and O               *)
(* ====================================================================== *)

Lemma dn_accepted_iff : forall v m, parse_distinguished_name v = DOk m <-> DNAccepted v m.
Proof.
  intros v m. unfold parse_distinguished_name, DNAccepted, MandatoryPresent, mandatory.
  destruct (has_eqhash (list_ascii_of_string v)).
  - split; [discriminate | intros [H _]; discriminate].
  - destruct (parse_dn v) as [rdns| |].
    + destruct (add_rdns rdns []) as [m'|e] eqn:Ea.
      * cbn [find].
        destruct (String.eqb (lookup_default "C" m') "") eqn:EC;
          [|destruct (String.eqb (lookup_default "ST" m') "") eqn:EST;
            [|destruct (String.eqb (lookup_default "O" m') "") eqn:EO]].
        -- split; [discriminate|]. intros [_ [r [Hr [Hm [HC _]]]]]. inversion Hr; subst r.
           rewrite Ea in Hm. inversion Hm; subst m'. apply String.eqb_eq in EC. contradiction.
        -- split; [discriminate|]. intros [_ [r [Hr [Hm [_ [HST _]]]]]]. inversion Hr; subst r.
           rewrite Ea in Hm. inversion Hm; subst m'. apply String.eqb_eq in EST. contradiction.
        -- split; [discriminate|]. intros [_ [r [Hr [Hm [_ [_ HO]]]]]]. inversion Hr; subst r.
           rewrite Ea in Hm. inversion Hm; subst m'. apply String.eqb_eq in EO. contradiction.
        -- apply String.eqb_neq in EC, EST, EO. split.
           ++ intros H; inversion H; subst m'. split; [reflexivity|]. exists rdns. auto.
           ++ intros [_ [r [Hr [Hm _]]]]. inversion Hr; subst r. rewrite Ea in Hm. exact Hm.
      * split; [discriminate|]. intros [_ [r [Hr [Hm _]]]]. inversion Hr; subst r.
        rewrite Ea in Hm. discriminate.
    + split; [discriminate|]. intros [_ [r [Hr _]]]. discriminate.
    + split; [discriminate|]. intros [_ [r [Hr _]]]. discriminate.
Qed.

Lemma identity_explicit : forall id, IdentityOK id <-> IdentityExplicit id.
Proof.
  intros id. unfold IdentityOK, IdentityExplicit. split.
  - intros [H0 [Hw|[p [v [Ec Hp]]]]]; (split; [exact H0|]); [left; exact Hw|].
    right. exists p, v. split; [exact Ec|]. intros E. destruct (Hp E) as [Hv [m Hm]].
    split; [exact Hv|]. exists m. apply dn_accepted_iff. exact Hm.
  - intros [H0 [Hw|[p [v [Ec Hp]]]]]; (split; [exact H0|]); [left; exact Hw|].
    right. exists p, v. split; [exact Ec|]. intros E. destruct (Hp E) as [Hv [m Hm]].
    split; [exact Hv|]. exists m. apply dn_accepted_iff. exact Hm.
Qed.

(* a statement rule with the mandatory attributes visible *)
Lemma identities_explicit : forall ids, Forall IdentityOK ids <-> Forall IdentityExplicit ids.
Proof. intros ids. apply Forall_iff. apply identity_explicit. Qed.

(* the converse of identities_mandatory: a distinguished name that go-ldap
   parses, with single-valued RDNs and no repeated type, but WITHOUT one of
   C, ST, O makes the whole document unacceptable, wherever it stands *)
Theorem mandatory_required : forall k d s id v rdns m f,
  In s (d_stmts d) -> In id (s_ids s) -> x509_value id = Some v ->
  parse_dn v = POk rdns -> add_rdns rdns [] = DOk m ->
  In f mandatory -> lookup_default f m = "" ->
  validate k d <> EOk.
Proof.
  intros k d s id v rdns m f Hs Hid Hv Hp Ha Hf He Hacc.
  destruct (identities_mandatory k d s id v Hacc Hs Hid Hv) as [m' [Hm' [HC [HST HO]]]].
  apply dn_accepted_iff in Hm'. destruct Hm' as [_ [r [Hr [Hm _]]]].
  rewrite Hp in Hr. inversion Hr; subst r. rewrite Ha in Hm. inversion Hm; subst m'.
  unfold mandatory in Hf. cbn in Hf.
  destruct Hf as [E|[E|[E|[]]]]; subst f; contradiction.
Qed.

(* likewise an identity that does not parse at all *)
Theorem unparsable_rejected : forall k d s id v e,
  In s (d_stmts d) -> In id (s_ids s) -> x509_value id = Some v ->
  parse_distinguished_name v = DErr e -> validate k d <> EOk.
Proof.
  intros k d s id v e Hs Hid Hv He Hacc.
  destruct (identities_mandatory k d s id v Hacc Hs Hid Hv) as [m' [Hm' _]]. congruence.
Qed.

(* ====================================================================== *)
(* 2. "do not overlap", on the identities themselves                       *)
(* ====================================================================== *)

Lemma lookup_In' : forall k v (m : amap), lookup k m = Some v -> In (k, v) m.
Proof.
  intros k v m. induction m as [|[k' v'] m IH]; cbn; [discriminate|].
  destruct (String.eqb k k') eqn:E.
  - apply String.eqb_eq in E. subst k'. intros H; inversion H; subst. left. reflexivity.
  - intros H. right. apply IH. exact H.
Qed.

Lemma in_lookup_some' : forall k v (m : amap), In (k, v) m -> exists v', lookup k m = Some v'.
Proof.
  intros k v m. induction m as [|[k' v'] m IH]; cbn; [intros []|].
  intros [H|H].
  - inversion H; subst. rewrite String.eqb_refl. eexists. reflexivity.
  - destruct (String.eqb k k'); [eexists; reflexivity | apply IH; exact H].
Qed.

Lemma subset_within : forall a b, is_subset_dn a b = true <-> Within a b.
Proof.
  intros a b. unfold is_subset_dn, Within. rewrite forallb_forall. split.
  - intros H k v Hl. specialize (H (k, v) (lookup_In' _ _ _ Hl)). cbn in H. rewrite Hl in H.
    destruct (lookup k b) as [v'|]; [|discriminate]. apply String.eqb_eq in H. subst. reflexivity.
  - intros H [k v] Hin. cbn. destruct (in_lookup_some' _ _ _ Hin) as [v' Hl].
    rewrite Hl, (H _ _ Hl). apply String.eqb_refl.
Qed.

Lemma subset_not_within : forall a b, is_subset_dn a b = false <-> ~ Within a b.
Proof.
  intros a b. rewrite <- subset_within. destruct (is_subset_dn a b); split; congruence.
Qed.

(* the parsed map an identity contributes to dn_maps *)
Definition dn_of (id : string) : list amap :=
  match x509_value id with
  | Some v => match parse_distinguished_name v with DOk m => [m] | DErr _ => [] end
  | None => []
  end.

Lemma dn_maps_flat : forall ids, dn_maps ids = flat_map dn_of ids.
Proof. reflexivity. Qed.

(* position of the map of the i-th identity inside dn_maps *)
Definition pos (ids : list string) (i : nat) : nat := List.length (dn_maps (firstn i ids)).

Lemma dn_maps_app : forall a b, dn_maps (a ++ b) = dn_maps a ++ dn_maps b.
Proof. intros a b. unfold dn_maps. apply flat_map_app. Qed.

Lemma dn_maps_single : forall id, dn_maps [id] = dn_of id.
Proof. intros id. unfold dn_maps, dn_of. cbn [flat_map]. apply app_nil_r. Qed.

Lemma split_nth : forall {A} (l : list A) i x, nth_error l i = Some x ->
  l = firstn i l ++ x :: skipn (S i) l.
Proof.
  intros A l. induction l as [|a l IH]; intros [|i] x H; cbn in *; try discriminate.
  - inversion H; reflexivity.
  - f_equal. apply IH. exact H.
Qed.

Lemma pos_nth : forall ids i id v m, nth_error ids i = Some id ->
  x509_value id = Some v -> parse_distinguished_name v = DOk m ->
  nth_error (dn_maps ids) (pos ids i) = Some m.
Proof.
  intros ids i id v m Hn Hv Hp. unfold pos.
  rewrite (split_nth ids i id Hn) at 1. rewrite dn_maps_app.
  rewrite nth_error_app2 by lia. rewrite Nat.sub_diag.
  change (id :: skipn (S i) ids) with ([id] ++ skipn (S i) ids). rewrite dn_maps_app.
  unfold dn_maps at 1. cbn [flat_map]. rewrite Hv, Hp. reflexivity.
Qed.

Lemma firstn_firstn_le : forall {A} (l : list A) i j, (i <= j)%nat -> firstn i (firstn j l) = firstn i l.
Proof. intros A l i j H. rewrite firstn_firstn. f_equal. lia. Qed.

Lemma nth_error_firstn_lt : forall {A} (l : list A) i j, (i < j)%nat ->
  nth_error (firstn j l) i = nth_error l i.
Proof.
  intros A l. induction l as [|a l IH]; intros i j H.
  - rewrite firstn_nil. reflexivity.
  - destruct j as [|j]; [lia|]. destruct i as [|i]; cbn; [reflexivity|]. apply IH. lia.
Qed.

Lemma pos_lt : forall ids i j id v m, (i < j)%nat -> nth_error ids i = Some id ->
  x509_value id = Some v -> parse_distinguished_name v = DOk m ->
  (pos ids i < pos ids j)%nat.
Proof.
  intros ids i j id v m Hlt Hn Hv Hp. unfold pos.
  assert (Hn' : nth_error (firstn j ids) i = Some id).
  { rewrite nth_error_firstn_lt by exact Hlt. exact Hn. }
  rewrite (split_nth (firstn j ids) i id Hn') at 1.
  rewrite firstn_firstn_le by lia. rewrite dn_maps_app, app_length.
  change (id :: skipn (S i) (firstn j ids)) with ([id] ++ skipn (S i) (firstn j ids)).
  rewrite dn_maps_app, app_length, dn_maps_single. unfold dn_of. rewrite Hv, Hp. cbn. lia.
Qed.

Lemma pos_neq : forall ids i j idi idj vi vj mi mj, i <> j ->
  nth_error ids i = Some idi -> nth_error ids j = Some idj ->
  x509_value idi = Some vi -> x509_value idj = Some vj ->
  parse_distinguished_name vi = DOk mi -> parse_distinguished_name vj = DOk mj ->
  pos ids i <> pos ids j.
Proof.
  intros ids i j idi idj vi vj mi mj Hne Hi Hj Hvi Hvj Hpi Hpj.
  destruct (Nat.lt_total i j) as [H|[H|H]]; [|contradiction|].
  - pose proof (pos_lt ids i j idi vi mi H Hi Hvi Hpi). lia.
  - pose proof (pos_lt ids j i idj vj mj H Hj Hvj Hpj). lia.
Qed.

(* every element of dn_maps comes from an identity, at its position *)
Lemma dn_maps_origin : forall ids n m, nth_error (dn_maps ids) n = Some m ->
  exists i id v, nth_error ids i = Some id /\ x509_value id = Some v
    /\ parse_distinguished_name v = DOk m /\ pos ids i = n.
Proof.
  induction ids as [|id ids IH]; intros n m H.
  - destruct n; discriminate.
  - change (dn_maps (id :: ids)) with (dn_of id ++ dn_maps ids) in H.
    unfold dn_of in H.
    destruct (x509_value id) as [v|] eqn:Ev;
      [destruct (parse_distinguished_name v) as [m0|e] eqn:Ep|].
    + destruct n as [|n]; cbn in H.
      * inversion H; subst m0. exists 0%nat, id, v. repeat split; auto.
      * destruct (IH n m H) as [i [id' [v' [Hn [Hv [Hp Hpos]]]]]].
        exists (S i), id', v'. repeat split; auto.
        unfold pos in *. cbn [firstn].
        change (dn_maps (id :: firstn i ids)) with (dn_of id ++ dn_maps (firstn i ids)).
        unfold dn_of. rewrite Ev, Ep. cbn. rewrite Hpos. reflexivity.
    + cbn in H. destruct (IH n m H) as [i [id' [v' [Hn [Hv [Hp Hpos]]]]]].
      exists (S i), id', v'. repeat split; auto.
      unfold pos in *. cbn [firstn].
      change (dn_maps (id :: firstn i ids)) with (dn_of id ++ dn_maps (firstn i ids)).
      unfold dn_of. rewrite Ev, Ep. cbn. exact Hpos.
    + cbn in H. destruct (IH n m H) as [i [id' [v' [Hn [Hv [Hp Hpos]]]]]].
      exists (S i), id', v'. repeat split; auto.
      unfold pos in *. cbn [firstn].
      change (dn_maps (id :: firstn i ids)) with (dn_of id ++ dn_maps (firstn i ids)).
      unfold dn_of. rewrite Ev. cbn. exact Hpos.
Qed.

Lemma pos_inj_ne : forall ids i j, pos ids i <> pos ids j -> i <> j.
Proof. intros ids i j H E. subst. apply H. reflexivity. Qed.

Theorem no_overlap_identities : forall ids, NoOverlap (dn_maps ids) <-> IdentitiesDisjoint ids.
Proof.
  intros ids. unfold NoOverlap, IdentitiesDisjoint. split.
  - intros H i j idi idj vi vj mi mj Hne Hi Hj Hvi Hvj Hpi Hpj.
    apply subset_not_within.
    apply (H (pos ids i) (pos ids j)).
    + eapply pos_neq; eauto.
    + eapply pos_nth; eauto.
    + eapply pos_nth; eauto.
  - intros H n n' a b Hne Ha Hb. apply subset_not_within.
    destruct (dn_maps_origin ids n a Ha) as [i [idi [vi [Hi [Hvi [Hpi Hposi]]]]]].
    destruct (dn_maps_origin ids n' b Hb) as [j [idj [vj [Hj [Hvj [Hpj Hposj]]]]]].
    apply (H i j idi idj vi vj a b); auto.
    apply (pos_inj_ne ids). congruence.
Qed.

(* an accepted statement has pairwise non-overlapping x509.subject identities *)
Theorem identities_disjoint : forall k d s, validate k d = EOk -> In s (d_stmts d) ->
  IdentitiesDisjoint (s_ids s).
Proof.
  intros k d s H Hs. apply validate_iff in H. destruct H as [_ [_ [_ [H _]]]].
  rewrite Forall_forall in H. specialize (H s Hs). destruct H as [_ [_ [_ [Hskip Hn]]]].
  destruct (String.eqb (sv_level (s_sv s)) "skip") eqn:E.
  - apply String.eqb_eq in E. destruct (Hskip E) as [_ H0]. rewrite H0.
    intros i j idi idj vi vj mi mj _ Hi. destruct i; discriminate.
  - apply String.eqb_neq in E. destruct (Hn E) as [_ [_ [_ [_ [_ Hno]]]]].
    apply no_overlap_identities. exact Hno.
Qed.

(* and conversely: two identities of one statement, one within the other,
   make the document unacceptable *)
Theorem overlap_rejected : forall k d s i j idi idj vi vj mi mj,
  In s (d_stmts d) -> i <> j ->
  nth_error (s_ids s) i = Some idi -> nth_error (s_ids s) j = Some idj ->
  x509_value idi = Some vi -> x509_value idj = Some vj ->
  parse_distinguished_name vi = DOk mi -> parse_distinguished_name vj = DOk mj ->
  Within mi mj -> validate k d <> EOk.
Proof.
  intros k d s i j idi idj vi vj mi mj Hs Hne Hi Hj Hvi Hvj Hpi Hpj Hw Hacc.
  exact (identities_disjoint k d s Hacc Hs i j idi idj vi vj mi mj Hne Hi Hj Hvi Hvj Hpi Hpj Hw).
Qed.

(* ====================================================================== *)
(* 3. "used by at most one statement", read literally                      *)
(* ====================================================================== *)

Lemma NoDup_app_iff : forall {A} (a b : list A),
  NoDup (a ++ b) <-> NoDup a /\ NoDup b /\ (forall x, In x a -> ~ In x b).
Proof.
  intros A a b. induction a as [|x a IH]; cbn.
  - split; [intros H; repeat split; [constructor | exact H | intros x []] | intros [_ [H _]]; exact H].
  - split.
    + intros H. inversion H as [|? ? Hx Hr]; subst. apply IH in Hr. destruct Hr as [Ha [Hb Hd]].
      split; [constructor; [intros Hin; apply Hx; apply in_or_app; left; exact Hin | exact Ha]|].
      split; [exact Hb|]. intros y [E|Hy].
      * subst y. intros Hin. apply Hx. apply in_or_app. right. exact Hin.
      * apply Hd. exact Hy.
    + intros [Ha [Hb Hd]]. inversion Ha as [|? ? Hx Ha']; subst. constructor.
      * intros Hin. apply in_app_or in Hin. destruct Hin as [Hin|Hin]; [contradiction|].
        apply (Hd x); [left; reflexivity | exact Hin].
      * apply IH. split; [exact Ha'|]. split; [exact Hb|]. intros y Hy. apply Hd. right. exact Hy.
Qed.

(* no repetition in the concatenation = no repetition inside a block and no
   element shared by two blocks *)
Lemma NoDup_flat_map_iff : forall {A B} (f : A -> list B) (l : list A),
  NoDup (flat_map f l) <->
  Forall (fun a => NoDup (f a)) l
  /\ (forall i j a b x, nth_error l i = Some a -> nth_error l j = Some b ->
        In x (f a) -> In x (f b) -> i = j).
Proof.
  intros A B f l. induction l as [|a l IH]; cbn [flat_map].
  - split.
    + intros _. split; [constructor|]. intros i j a b x H. destruct i; discriminate.
    + intros _. constructor.
  - rewrite NoDup_app_iff, IH. split.
    + intros [Ha [[Hf Hd] Hx]]. split; [constructor; assumption|].
      intros i j s t x Hi Hj Hs Ht. destruct i as [|i], j as [|j]; cbn in Hi, Hj.
      * reflexivity.
      * exfalso. inversion Hi; subst s. apply (Hx x Hs). apply in_flat_map. exists t. split; [|exact Ht].
        eapply nth_error_In; eauto.
      * exfalso. inversion Hj; subst t. apply (Hx x Ht). apply in_flat_map. exists s. split; [|exact Hs].
        eapply nth_error_In; eauto.
      * f_equal. eapply Hd; eauto.
    + intros [Hf Hd]. inversion Hf as [|? ? Ha Hf']; subst. split; [exact Ha|]. split; [split; [exact Hf'|]|].
      * intros i j s t x Hi Hj Hs Ht. assert (E : S i = S j) by (eapply (Hd (S i) (S j)); eauto). lia.
      * intros x Hx Hin. apply in_flat_map in Hin. destruct Hin as [t [Ht Hxt]].
        apply In_nth_error in Ht. destruct Ht as [j Hj].
        assert (E : 0%nat = S j) by (eapply (Hd 0%nat (S j) a t x); eauto). discriminate.
Qed.

(* acceptance = the literal rules + no statement lists a scope twice *)
Theorem oci_iff_literal : forall d,
  validate_oci d = EOk <->
  WellFormedLiteralOCI d /\ Forall (fun s => NoDup (s_scopes s)) (d_stmts d).
Proof.
  intros d. rewrite oci_iff. unfold WellFormed, WellFormedLiteralOCI, ScopesOneStatement.
  rewrite (NoDup_flat_map_iff s_scopes (d_stmts d)). tauto.
Qed.

(* what the text promises holds of every accepted document *)
Theorem scope_one_statement : forall d, validate_oci d = EOk -> ScopesOneStatement (d_stmts d).
Proof. intros d H. apply oci_iff_literal in H. destruct H as [[_ [_ [_ [_ [_ H]]]]] _]. exact H. Qed.

(* but "accepted iff the literal rules" is false: a statement that lists one
   scope twice obeys every rule as worded and is rejected *)
Definition ex_scope_twice : doc :=
  mk_doc "1.0" [mk_stmt "a" (mk_sv "strict" [] "") ["ca:s"] ["*"] ["a/b"; "a/b"] false].

Theorem scope_literal_refuted : exists d, WellFormedLiteralOCI d /\ validate_oci d = EScopeDup.
Proof.
  exists ex_scope_twice. split; [|vm_compute; reflexivity].
  unfold WellFormedLiteralOCI, ex_scope_twice. cbn [d_version d_stmts].
  split; [left; reflexivity|]. split; [discriminate|].
  split; [constructor; [intros [] | constructor]|].
  split; [constructor; [apply stmt_reflect; vm_compute; reflexivity | constructor]|].
  split; [constructor; [apply stmt_scopes_reflect; vm_compute; reflexivity | constructor]|].
  intros i j s t sc Hi Hj _ _.
  destruct i as [|[|i]], j as [|[|j]]; cbn in Hi, Hj; try discriminate; reflexivity.
Qed.

(* ====================================================================== *)
(* 4. acceptance through the pointer and through JSON                      *)
(* ====================================================================== *)

Theorem ptr_iff : forall k od, validate_ptr k od = EOk <-> exists d, od = Some d /\ WellFormed k d.
Proof.
  intros k [d|]; cbn [validate_ptr].
  - rewrite validate_iff. split; [intros H; exists d; auto | intros [d' [E H]]; inversion E; subst; exact H].
  - split; [discriminate | intros [d' [E _]]; discriminate].
Qed.

Theorem json_iff : forall k od, validate_json k od = EOk <-> exists d, od = Some d /\ WellFormed k d.
Proof.
  intros k [d|]; cbn [validate_json].
  - rewrite validate_iff. split; [intros H; exists d; auto | intros [d' [E H]]; inversion E; subst; exact H].
  - split; [destruct k; discriminate | intros [d' [E _]]; discriminate].
Qed.

(* ====================================================================== *)
(* 5. every constructor forces validation                                  *)
(* ====================================================================== *)

Theorem forced_constructors : forall c oci blob,
  construct c oci blob = EOk <->
  c <> CtorNilStore
  /\ (oci <> None \/ blob_given c blob <> None)
  /\ (forall d, oci = Some d -> WellFormed OCI d)
  /\ (forall d, blob_given c blob = Some d -> WellFormed Blob d).
Proof.
  intros c oci blob. destruct c; unfold construct, new_verifier_store, blob_given.
  - rewrite forced. split; [intros H; split; [discriminate | exact H] | intros [_ H]; exact H].
  - split; [discriminate | intros [H _]; contradiction].
  - rewrite forced. split; [intros H; split; [discriminate | exact H] | intros [_ H]; exact H].
  - rewrite forced. split; [intros H; split; [discriminate | exact H] | intros [_ H]; exact H].
Qed.

(* the document left in the options of NewWithOptions plays no role *)
Theorem decoy_ignored : forall decoy oci blob,
  construct (CtorWithOptions decoy) oci blob = construct CtorOptions oci blob.
Proof. reflexivity. Qed.

(* every statement of every document a constructed verifier holds yields a
   level that enforces integrity unless the statement is skip *)
Theorem verifier_integrity : forall c oci blob, construct c oci blob = EOk ->
  (forall d, oci = Some d -> Forall YieldsIntegrity (d_stmts d))
  /\ (forall d, blob_given c blob = Some d -> Forall YieldsIntegrity (d_stmts d)).
Proof.
  intros c oci blob H. apply forced_constructors in H. destruct H as [_ [_ [Ho Hb]]]. split.
  - intros d E. apply (integrity OCI). apply validate_iff. apply Ho. exact E.
  - intros d E. apply (integrity Blob). apply validate_iff. apply Hb. exact E.
Qed.

(* ====================================================================== *)
(* 6. witnesses                                                            *)
(* ====================================================================== *)

Definition stmt_no_O : stmt :=
  mk_stmt "a" (mk_sv "strict" [] "") ["ca:s"] ["x509.subject:C=US,ST=WA"] ["*"] false.

Lemma mandatory_required_witness :
  exists rdns m, parse_dn "C=US,ST=WA" = POk rdns /\ add_rdns rdns [] = DOk m
    /\ lookup_default "O" m = "" /\ validate_oci (mk_doc "1.0" [stmt_no_O]) = EIdDN.
Proof.
  exists [[("C", "US")]; [("ST", "WA")]]. eexists. repeat split; vm_compute; reflexivity.
Qed.
