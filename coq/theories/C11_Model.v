(* C11_Model.v — model of notation.SignOCI over a heap of Go map objects.
   Definitions only. Mirrors, statement by statement (notation.go, after fix 14156eb):
     SignOCI                        (validation, reference handling, Resolve, digest pin,
                                     metadata, signer call, annotations, PushSignature,
                                     error mapping)
     validateSignArguments, validateSigMediaType
     addUserMetadataToDescriptor    ([add_meta false]; the pre-fix in-place variant is
                                     [add_meta true], kept for the refuted statement)
     generateAnnotations, envelope.SigningTime
   Go maps are reference objects: the annotation map of the descriptor returned by
   Repository.Resolve may be the repository's own stored map, the caller's UserMetadata
   and PluginConfig are maps the caller keeps, the signer's PluginAnnotations() is a map
   the signer keeps. These are the objects of the heap (addresses); a map that SignOCI
   allocates itself and hands to exactly one callee is a value ([AFresh]).
   Outside /repo, inputs of the model (oracle facts supplied by the harness from the
   real libraries):
     - orasRegistry.ParseReference on the caller's reference ([ci_parse]),
     - digest.Parse on the effective reference ([ci_isdigest]),
     - what the repository's Resolve answers ([i_table]), what Signer.Sign answers
       ([ci_sign]: signature bytes, SHA-256 thumbprints of the returned chain as computed
       by crypto/sha256 over cert.Raw, signing time), what PushSignature answers ([ci_push]),
     - which offending metadata key Go's unspecified map iteration reaches first ([ci_first]). *)
From NV Require Import Base Generated.
Open Scope string_scope.

(* ---------- maps and the heap ---------- *)

Definition addr := N.
Definition heap := list (addr * amap).

Fixpoint hget (a : addr) (h : heap) : option amap :=
  match h with
  | [] => None
  | (a', m) :: h' => if (a =? a')%N then Some m else hget a h'
  end.

Definition hread (a : addr) (h : heap) : amap :=
  match hget a h with Some m => m | None => [] end.

(* update in place (the first binding of the address: the one [hget] reads) *)
Fixpoint hupd (a : addr) (m : amap) (h : heap) : heap :=
  match h with
  | [] => []
  | (a', m') :: h' => if (a =? a')%N then (a', m) :: h' else (a', m') :: hupd a m h'
  end.

(* Go [m[k] = v]: the value of k is replaced where it stands, a new key is appended *)
Fixpoint mset (k v : string) (m : amap) : amap :=
  match m with
  | [] => [(k, v)]
  | (k', v') :: m' => if String.eqb k k' then (k, v) :: m' else (k', v') :: mset k v m'
  end.

(* a reference to a map as a Go value of type map[string]string *)
Inductive aref :=
| ANil                      (* nil map *)
| AShared (a : addr)        (* a heap object (someone else holds it too) *)
| AFresh (m : amap).        (* allocated by SignOCI, held by nobody else *)

Definition aread (r : aref) (h : heap) : amap :=
  match r with ANil => [] | AShared a => hread a h | AFresh m => m end.

(* [r[k] = v] *)
Definition awrite (k v : string) (h : heap) (r : aref) : heap * aref :=
  match r with
  | AFresh m => (h, AFresh (mset k v m))
  | AShared a => (hupd a (mset k v (hread a h)) h, r)
  | ANil => (h, r)    (* a write to a nil map panics in Go; never reached: both callers make the map first *)
  end.

(* ---------- descriptors ---------- *)

Record desc := mk_desc {
  d_mt : string;          (* MediaType *)
  d_dg : string;          (* Digest *)
  d_sz : Z;               (* Size *)
  d_rest : string;        (* the remaining fields (URLs, Data, Platform, ArtifactType), opaque token *)
  d_ann : aref }.         (* Annotations *)

(* what an observer sees of a map reference / of a descriptor at one instant *)
Inductive mref := MNil | MKnown (a : addr) | MFresh.

Record ddesc := mk_dd {
  dd_mt : string; dd_dg : string; dd_sz : Z; dd_rest : string;
  dd_ref : mref;          (* identity of the annotation map *)
  dd_ann : amap }.        (* its content at that instant *)

Definition aref_m (r : aref) : mref :=
  match r with ANil => MNil | AShared a => MKnown a | AFresh _ => MFresh end.

Definition opt_mref (o : option addr) : mref :=
  match o with None => MNil | Some a => MKnown a end.

Definition deep (h : heap) (d : desc) : ddesc :=
  mk_dd (d_mt d) (d_dg d) (d_sz d) (d_rest d) (aref_m (d_ann d)) (aread (d_ann d) h).

(* ---------- the repository, the signer, the options ---------- *)

(* Resolve: reference -> descriptor; a reference not in the table is an error *)
Definition table := list (string * desc).

Fixpoint lookup_tbl (k : string) (t : table) : option desc :=
  match t with
  | [] => None
  | (k', d) :: t' => if String.eqb k k' then Some d else lookup_tbl k t'
  end.

(* a signature as the repository stores it (manifest + blob, serialised: deep values) *)
Record stored := mk_stored {
  st_mt : string;         (* media type of the signature blob *)
  st_sig : string;        (* the blob *)
  st_subject : ddesc;     (* subject of the manifest ([dd_ref] is MNil: a stored copy) *)
  st_ann : amap }.        (* manifest annotations *)

Record sinfo := mk_sinfo {
  si_chain : list string;     (* hex SHA-256 of cert.Raw for each certificate of SignerInfo.CertificateChain *)
  si_time : option Z }.       (* SignedAttributes.SigningTime as Unix seconds; None = the zero time *)

Inductive sscript :=
| SErr                                        (* Signer.Sign returns an error *)
| SOk (sig : string) (info : option sinfo).   (* signature, *SignerInfo (None = nil) *)

Inductive pa :=
| PANone                   (* the signer has no PluginAnnotations method *)
| PANil                    (* it returns a nil map *)
| PAMap (a : addr).        (* it returns this map *)

Inductive pscript :=
| PushOK (dg : string)        (* PushSignature succeeds; digest of the manifest descriptor it returns *)
| PushErr                     (* it fails *)
| PushRefDel (dg : string).   (* pushed, but remote.ReferrersError{Op: DeleteReferrersIndex} *)

Record call_in := mk_call_in {
  ci_signer_nil : bool;
  ci_repo_nil : bool;
  ci_ref : string;                (* SignOptions.ArtifactReference *)
  ci_parse : option string;       (* oracle: ParseReference(ref) = ok -> ref.Reference *)
  ci_isdigest : bool;             (* oracle: digest.Parse(effective reference) = ok *)
  ci_mt : string;                 (* SignatureMediaType *)
  ci_expiry : Z;                  (* ExpiryDuration, ns *)
  ci_agent : string;              (* SigningAgent *)
  ci_meta : option addr;          (* UserMetadata (None = nil map) *)
  ci_first : option string;       (* oracle: the metadata key the iteration visits first *)
  ci_pcfg : option addr;          (* PluginConfig *)
  ci_sign : sscript;
  ci_pa : pa;
  ci_push : pscript }.

Inductive res :=
| ROk | RRefDel
| EArgSigner | EArgExpiryNeg | EArgExpiryGran | EArgMtEmpty | EArgMtInvalid | ERepoNil
| EResolve | EDigestMismatch | EMetaReserved | EMetaPresent
| ESigner | EAnnInfoNil | EAnnTime | EPush.

Record sign_call := mk_sign_call {
  sc_desc : ddesc;            (* descriptor handed to Signer.Sign, deep, at the time of the call *)
  sc_mt : string; sc_expiry : Z; sc_agent : string;
  sc_pcfg : mref }.           (* identity of opts.PluginConfig *)

Record push_call := mk_push_call {
  pc_mt : string; pc_sig : string;
  pc_subject : ddesc;         (* deep, at the time of the call *)
  pc_ref : mref; pc_ann : amap }.   (* the annotations argument: identity and content *)

Record trace := mk_trace {
  t_res : res;
  t_art : option ddesc;       (* returned artifact descriptor (None = the zero descriptor) *)
  t_sigdg : string;           (* digest of the returned signature manifest descriptor *)
  t_resolves : list string;   (* references the repository was asked to resolve *)
  t_signs : list sign_call;
  t_pushes : list push_call }.

Record state := mk_state { s_heap : heap; s_stored : list stored }.

(* ---------- formatting ---------- *)

Definition k_thumb : string := "io.cncf.notary.x509chain.thumbprint#S256".
Definition k_created : string := "org.opencontainers.image.created".
Definition mt_jws : string := "application/jose+json".
Definition mt_cose : string := "application/cose".

Definition quote (s : string) : string := String """"%char (s ++ String """"%char "").

Fixpoint join_q (l : list string) : string :=
  match l with
  | [] => ""
  | [x] => quote x
  | x :: l' => quote x ++ "," ++ join_q l'
  end.

(* json.Marshal of a []string of hex strings; a nil slice is null *)
Definition json_strs (l : list string) : string :=
  match l with [] => "null" | _ => "[" ++ join_q l ++ "]" end.

Definition digit (n : Z) : string := String (ascii_of_N (48 + Z.to_N n)) "".
Definition pad2 (n : Z) : string := digit ((n / 10) mod 10) ++ digit (n mod 10).
Definition pad4 (n : Z) : string := pad2 (n / 100) ++ pad2 (n mod 100).

(* days since 1970-01-01 -> (year, month, day), proleptic Gregorian *)
Definition civil (days : Z) : Z * Z * Z :=
  let z := (days + 719468)%Z in
  let era := (z / 146097)%Z in
  let doe := (z - era * 146097)%Z in
  let yoe := ((doe - doe / 1460 + doe / 36524 - doe / 146096) / 365)%Z in
  let doy := (doe - (365 * yoe + yoe / 4 - yoe / 100))%Z in
  let mp := ((5 * doy + 2) / 153)%Z in
  let d := (doy - (153 * mp + 2) / 5 + 1)%Z in
  let m := (if mp <? 10 then mp + 3 else mp - 9)%Z in
  ((yoe + era * 400 + (if m <=? 2 then 1 else 0))%Z, m, d).

(* t.UTC().Format(time.RFC3339) for years 0..9999 *)
Definition rfc3339 (t : Z) : string :=
  let days := (t / 86400)%Z in
  let s := (t mod 86400)%Z in
  let '(y, m, d) := civil days in
  pad4 y ++ "-" ++ pad2 m ++ "-" ++ pad2 d ++ "T"
  ++ pad2 (s / 3600) ++ ":" ++ pad2 ((s mod 3600) / 60) ++ ":" ++ pad2 (s mod 60) ++ "Z".

(* ---------- validateSignArguments ---------- *)

Definition valid_mt (s : string) : bool := String.eqb s mt_jws || String.eqb s mt_cose.

Definition validate (c : call_in) : option res :=
  if ci_signer_nil c then Some EArgSigner
  else if (ci_expiry c <? 0)%Z then Some EArgExpiryNeg
  else if negb (Z.rem (ci_expiry c) 1000000000 =? 0)%Z then Some EArgExpiryGran
  else if String.eqb (ci_mt c) "" then Some EArgMtEmpty
  else if negb (valid_mt (ci_mt c)) then Some EArgMtInvalid
  else None.

(* ---------- addUserMetadataToDescriptor ---------- *)

Definition reserved (k : string) : bool :=
  existsb (fun p => has_prefix p k) gen_reserved_annotation_prefixes.

(* the range loop over userMetadata, entries in iteration order *)
Fixpoint add_loop (es : amap) (h : heap) (r : aref) : heap * aref * option res :=
  match es with
  | [] => (h, r, None)
  | (k, v) :: es' =>
      if reserved k then (h, r, Some EMetaReserved)
      else match lookup k (aread r h) with
           | Some _ => (h, r, Some EMetaPresent)
           | None => let '(h', r') := awrite k v h r in add_loop es' h' r'
           end
  end.

(* inplace = false: the code now (the annotations are copied when there is metadata);
   inplace = true: the code before 14156eb (only a nil map is replaced) *)
Definition add_meta (inplace : bool) (h : heap) (r : aref) (es : amap) : heap * aref * option res :=
  let r0 := match es with
            | [] => r
            | _ => if inplace then match r with ANil => AFresh [] | _ => r end
                   else AFresh (aread r h)
            end in
  add_loop es h r0.

(* iteration order of the metadata map: the oracle key first *)
Definition entries (first : option string) (m : amap) : amap :=
  match first with
  | None => m
  | Some k => match lookup k m with
              | Some v => (k, v) :: remove_key k m
              | None => m
              end
  end.

(* ---------- generateAnnotations ---------- *)

Definition gen_ann (h : heap) (info : option sinfo) (p : pa) : heap * (res + aref) :=
  match info with
  | None => (h, inl EAnnInfoNil)
  | Some si =>
      let r0 := match p with PAMap a => AShared a | _ => AFresh [] end in
      let '(h1, r1) := awrite k_thumb (json_strs (si_chain si)) h r0 in
      match si_time si with
      | None => (h1, inl EAnnTime)
      | Some t => let '(h2, r2) := awrite k_created (rfc3339 t) h1 r1 in (h2, inr r2)
      end
  end.

(* ---------- SignOCI ---------- *)

Definition eff_ref (c : call_in) : string :=
  match ci_parse c with Some r => r | None => ci_ref c end.

Definition forget (d : ddesc) : ddesc :=
  mk_dd (dd_mt d) (dd_dg d) (dd_sz d) (dd_rest d) MNil (dd_ann d).

Definition sign_oci (inplace : bool) (tbl : table) (st : state) (c : call_in) : state * trace :=
  let h := s_heap st in
  let fail := fun (h' : heap) (e : res) (rs : list string) (ss : list sign_call) =>
                (mk_state h' (s_stored st), mk_trace e None "" rs ss []) in
  match validate c with
  | Some e => fail h e [] []
  | None =>
  if ci_repo_nil c then fail h ERepoNil [] [] else
  let ref := eff_ref c in
  match lookup_tbl ref tbl with
  | None => fail h EResolve [ref] []
  | Some d =>
  if negb (String.eqb ref (d_dg d)) && ci_isdigest c then fail h EDigestMismatch [ref] [] else
  let es := match ci_meta c with None => [] | Some a => entries (ci_first c) (hread a h) end in
  match add_meta inplace h (d_ann d) es with
  | (h1, _, Some e) => fail h1 e [ref] []
  | (h1, r1, None) =>
  let d2s := mk_desc (d_mt d) (d_dg d) (d_sz d) (d_rest d) r1 in
  let sc := mk_sign_call (deep h1 d2s) (ci_mt c) (ci_expiry c) (ci_agent c) (opt_mref (ci_pcfg c)) in
  match ci_sign c with
  | SErr => fail h1 ESigner [ref] [sc]
  | SOk sig info =>
  match gen_ann h1 info (ci_pa c) with
  | (h2, inl e) => fail h2 e [ref] [sc]
  | (h2, inr ra) =>
  let pc := mk_push_call (ci_mt c) sig (deep h2 d) (aref_m ra) (aread ra h2) in
  let sto := mk_stored (ci_mt c) sig (forget (deep h2 d)) (aread ra h2) in
  match ci_push c with
  | PushErr =>
      (mk_state h2 (s_stored st), mk_trace EPush None "" [ref] [sc] [pc])
  | PushOK dg =>
      (mk_state h2 (s_stored st ++ [sto])%list, mk_trace ROk (Some (deep h2 d)) dg [ref] [sc] [pc])
  | PushRefDel dg =>
      (mk_state h2 (s_stored st ++ [sto])%list, mk_trace RRefDel (Some (deep h2 d)) dg [ref] [sc] [pc])
  end end end end end end.

(* ---------- vocabulary of the theorems ---------- *)

(* the caller's UserMetadata as the heap shows it *)
Definition meta_of (c : call_in) (h : heap) : amap :=
  match ci_meta c with None => [] | Some a => hread a h end.

(* the value of key k in the union of two maps (the first wins; the theorems use it where
   the two are disjoint) *)
Definition union_lookup (a b : amap) (k : string) : option string :=
  match lookup k a with Some v => Some v | None => lookup k b end.

(* result classes of a call that got as far as calling the signer *)
Definition reached_signer (r : res) : bool :=
  match r with ROk | RRefDel | ESigner | EAnnInfoNil | EAnnTime | EPush => true | _ => false end.

(* a call that was refused: nothing signed, nothing pushed, nothing returned, no state change *)
Definition refused (st st' : state) (t : trace) : Prop :=
  st' = st /\ t_signs t = [] /\ t_pushes t = [] /\ t_art t = None /\ reached_signer (t_res t) = false.

(* ---------- histories ---------- *)

Record input := mk_input {
  i_heap : heap;                (* the map objects that exist before the first call *)
  i_table : table;              (* the repository's Resolve *)
  i_probes : list string;       (* references resolved after every call to look at the repository *)
  i_calls : list call_in }.     (* consecutive SignOCI calls against the same repository *)

Record call_obs := mk_co {
  co_trace : trace;
  co_heap : heap;                               (* every heap object after the call *)
  co_view : list (string * option ddesc);       (* Resolve of every probe after the call, deep *)
  co_stored : list stored }.                    (* signatures the repository holds after the call *)

Definition obs := list call_obs.

Definition view (tbl : table) (probes : list string) (h : heap) : list (string * option ddesc) :=
  map (fun r => (r, option_map (deep h) (lookup_tbl r tbl))) probes.

Fixpoint run_calls (inplace : bool) (tbl : table) (probes : list string) (st : state)
         (cs : list call_in) : obs :=
  match cs with
  | [] => []
  | c :: cs' =>
      let '(st', t) := sign_oci inplace tbl st c in
      mk_co t (s_heap st') (view tbl probes (s_heap st')) (s_stored st')
      :: run_calls inplace tbl probes st' cs'
  end.

Definition model (i : input) : obs :=
  run_calls false (i_table i) (i_probes i) (mk_state (i_heap i) []) (i_calls i).

(* the code before fix 14156eb *)
Definition model_inplace (i : input) : obs :=
  run_calls true (i_table i) (i_probes i) (mk_state (i_heap i) []) (i_calls i).

(* ---------- boolean equalities (maps are compared as maps, not as lists) ---------- *)

(* the two maps agree on every key of [a]; [amap_eqv a b = true] iff they agree on every key *)
Definition sub_map (a b : amap) : bool :=
  forallb (fun kv => opt_eqb String.eqb (lookup (fst kv) b) (lookup (fst kv) a)) a.

Definition amap_eqv (a b : amap) : bool := sub_map a b && sub_map b a.

Definition mref_eqb (a b : mref) : bool :=
  match a, b with
  | MNil, MNil | MFresh, MFresh => true
  | MKnown x, MKnown y => (x =? y)%N
  | _, _ => false
  end.

Definition ddesc_eqb (a b : ddesc) : bool :=
  String.eqb (dd_mt a) (dd_mt b) && String.eqb (dd_dg a) (dd_dg b) && (dd_sz a =? dd_sz b)%Z
  && String.eqb (dd_rest a) (dd_rest b) && mref_eqb (dd_ref a) (dd_ref b)
  && amap_eqv (dd_ann a) (dd_ann b).

Definition res_eqb (a b : res) : bool :=
  match a, b with
  | ROk, ROk | RRefDel, RRefDel | EArgSigner, EArgSigner | EArgExpiryNeg, EArgExpiryNeg
  | EArgExpiryGran, EArgExpiryGran | EArgMtEmpty, EArgMtEmpty | EArgMtInvalid, EArgMtInvalid
  | ERepoNil, ERepoNil | EResolve, EResolve | EDigestMismatch, EDigestMismatch
  | EMetaReserved, EMetaReserved | EMetaPresent, EMetaPresent | ESigner, ESigner
  | EAnnInfoNil, EAnnInfoNil | EAnnTime, EAnnTime | EPush, EPush => true
  | _, _ => false
  end.

Definition sign_call_eqb (a b : sign_call) : bool :=
  ddesc_eqb (sc_desc a) (sc_desc b) && String.eqb (sc_mt a) (sc_mt b)
  && (sc_expiry a =? sc_expiry b)%Z && String.eqb (sc_agent a) (sc_agent b)
  && mref_eqb (sc_pcfg a) (sc_pcfg b).

Definition push_call_eqb (a b : push_call) : bool :=
  String.eqb (pc_mt a) (pc_mt b) && String.eqb (pc_sig a) (pc_sig b)
  && ddesc_eqb (pc_subject a) (pc_subject b) && mref_eqb (pc_ref a) (pc_ref b)
  && amap_eqv (pc_ann a) (pc_ann b).

Definition stored_eqb (a b : stored) : bool :=
  String.eqb (st_mt a) (st_mt b) && String.eqb (st_sig a) (st_sig b)
  && ddesc_eqb (st_subject a) (st_subject b) && amap_eqv (st_ann a) (st_ann b).

Definition trace_eqb (a b : trace) : bool :=
  res_eqb (t_res a) (t_res b) && opt_eqb ddesc_eqb (t_art a) (t_art b)
  && String.eqb (t_sigdg a) (t_sigdg b)
  && list_eqb String.eqb (t_resolves a) (t_resolves b)
  && list_eqb sign_call_eqb (t_signs a) (t_signs b)
  && list_eqb push_call_eqb (t_pushes a) (t_pushes b).

Definition heap_eqb (a b : heap) : bool :=
  list_eqb (fun x y => (fst x =? fst y)%N && amap_eqv (snd x) (snd y)) a b.

Definition view_eqb (a b : list (string * option ddesc)) : bool :=
  list_eqb (fun x y => String.eqb (fst x) (fst y) && opt_eqb ddesc_eqb (snd x) (snd y)) a b.

Definition co_eqb (a b : call_obs) : bool :=
  trace_eqb (co_trace a) (co_trace b) && heap_eqb (co_heap a) (co_heap b)
  && view_eqb (co_view a) (co_view b) && list_eqb stored_eqb (co_stored a) (co_stored b).

Definition obs_eqb (a b : obs) : bool := list_eqb co_eqb a b.

(* ---------- the property oracle, evaluated on what the implementation did ----------
   Stated on observations only (it does not call [model], [sign_oci], [add_meta] or
   [gen_ann]): every call is judged against the heap and the stored signatures observed
   after the previous call. *)

Definition is_nil {A} (l : list A) : bool := match l with [] => true | _ => false end.
Definition is_none {A} (o : option A) : bool := match o with None => true | _ => false end.
Definition is_some {A} (o : option A) : bool := match o with Some _ => true | _ => false end.

Definition args_bad (c : call_in) : bool :=
  ci_signer_nil c || (ci_expiry c <? 0)%Z || negb (Z.rem (ci_expiry c) 1000000000 =? 0)%Z
  || negb (valid_mt (ci_mt c)) || ci_repo_nil c.

Definition arg_errors : list res :=
  [EArgSigner; EArgExpiryNeg; EArgExpiryGran; EArgMtEmpty; EArgMtInvalid; ERepoNil].

(* heap objects unchanged, except possibly the one at [ex] *)
Definition heap_same_except (ex : option addr) (h h' : heap) : bool :=
  list_eqb (fun x y => (fst x =? fst y)%N
                       && (match ex with Some a => (a =? fst x)%N | None => false end
                           || amap_eqv (snd x) (snd y))) h h'.

(* what the repository resolves is the table's descriptor, same map object, with the
   content the heap shows *)
Definition view_ok (tbl : table) (probes : list string) (h' : heap)
           (v : list (string * option ddesc)) : bool :=
  view_eqb v (view tbl probes h').

(* same fields, same annotation object as the resolved descriptor, annotations = [content] *)
Definition is_resolved (d : desc) (content : amap) (x : ddesc) : bool :=
  String.eqb (dd_mt x) (d_mt d) && String.eqb (dd_dg x) (d_dg d) && (dd_sz x =? d_sz d)%Z
  && String.eqb (dd_rest x) (d_rest d) && mref_eqb (dd_ref x) (aref_m (d_ann d))
  && amap_eqv (dd_ann x) content.

Definition plugin_content (c : call_in) (hp : heap) : amap :=
  match ci_pa c with PAMap a => hread a hp | _ => [] end.

(* annotations of the signature manifest: thumbprints, signing time, and the plugin's
   annotations, nothing else *)
Definition ann_ok (pc0 : amap) (si : sinfo) (tm : Z) (m : amap) : bool :=
  opt_eqb String.eqb (lookup k_thumb m) (Some (json_strs (si_chain si)))
  && opt_eqb String.eqb (lookup k_created m) (Some (rfc3339 tm))
  && forallb (fun kv => String.eqb (fst kv) k_thumb || String.eqb (fst kv) k_created
                        || opt_eqb String.eqb (lookup (fst kv) m) (lookup (fst kv) pc0)) (pc0 ++ m)%list.

Definition spec_call (tbl : table) (probes : list string) (hp : heap) (sp : list stored)
           (c : call_in) (o : call_obs) : bool :=
  let t := co_trace o in
  let ref := eff_ref c in
  let ex := match ci_pa c with PAMap a => Some a | _ => None end in
  (* nothing reached the repository and nothing is returned *)
  let quiet := list_eqb stored_eqb (co_stored o) sp && is_nil (t_pushes t)
               && is_none (t_art t) && String.eqb (t_sigdg t) "" in
  (* refused before anything was signed *)
  let refused := fun (classes : list res) =>
                   existsb (res_eqb (t_res t)) classes && quiet && is_nil (t_signs t)
                   && heap_same_except None hp (co_heap o) in
  heap_same_except ex hp (co_heap o)
  && view_ok tbl probes (co_heap o) (co_view o)
  &&
  if args_bad c then refused arg_errors && is_nil (t_resolves t)
  else
  list_eqb String.eqb (t_resolves t) [ref]
  &&
  match lookup_tbl ref tbl with
  | None => refused [EResolve]
  | Some d =>
  if negb (String.eqb ref (d_dg d)) && ci_isdigest c then refused [EDigestMismatch] else
  let es := match ci_meta c with None => [] | Some a => hread a hp end in
  let rc := aread (d_ann d) hp in
  let bad_res := existsb (fun kv => reserved (fst kv)) es in
  let bad_pre := existsb (fun kv => is_some (lookup (fst kv) rc)) es in
  if bad_res || bad_pre then
    refused ((if bad_res then [EMetaReserved] else []) ++ (if bad_pre then [EMetaPresent] else []))%list
  else
  match t_signs t with
  | [sc] =>
      (* signed: exactly the resolved descriptor plus the metadata, with the caller's options *)
      String.eqb (dd_mt (sc_desc sc)) (d_mt d) && String.eqb (dd_dg (sc_desc sc)) (d_dg d)
      && (dd_sz (sc_desc sc) =? d_sz d)%Z && String.eqb (dd_rest (sc_desc sc)) (d_rest d)
      && amap_eqv (dd_ann (sc_desc sc)) (rc ++ es)%list
      && String.eqb (sc_mt sc) (ci_mt c) && (sc_expiry sc =? ci_expiry c)%Z
      && String.eqb (sc_agent sc) (ci_agent c) && mref_eqb (sc_pcfg sc) (opt_mref (ci_pcfg c))
      &&
      match ci_sign c with
      | SErr => res_eqb (t_res t) ESigner && quiet
      | SOk sig None => res_eqb (t_res t) EAnnInfoNil && quiet
      | SOk sig (Some si) =>
          match si_time si with
          | None => res_eqb (t_res t) EAnnTime && quiet
          | Some tm =>
              match t_pushes t with
              | [pc] =>
                  (* pushed: that signature, on the resolved artifact, with the annotations *)
                  String.eqb (pc_mt pc) (ci_mt c) && String.eqb (pc_sig pc) sig
                  && is_resolved d rc (pc_subject pc)
                  && ann_ok (plugin_content c hp) si tm (pc_ann pc)
                  &&
                  let sto := mk_stored (ci_mt c) sig (forget (pc_subject pc)) (pc_ann pc) in
                  match ci_push c with
                  | PushErr =>
                      res_eqb (t_res t) EPush && list_eqb stored_eqb (co_stored o) sp
                      && is_none (t_art t) && String.eqb (t_sigdg t) ""
                  | PushOK dg =>
                      res_eqb (t_res t) ROk
                      && list_eqb stored_eqb (co_stored o) (sp ++ [sto])%list
                      && match t_art t with Some x => is_resolved d rc x | None => false end
                      && String.eqb (t_sigdg t) dg
                  | PushRefDel dg =>
                      res_eqb (t_res t) RRefDel
                      && list_eqb stored_eqb (co_stored o) (sp ++ [sto])%list
                      && match t_art t with Some x => is_resolved d rc x | None => false end
                      && String.eqb (t_sigdg t) dg
                  end
              | _ => false
              end
          end
      end
  | _ => false
  end
  end.

Fixpoint spec_calls (tbl : table) (probes : list string) (hp : heap) (sp : list stored)
         (cs : list call_in) (os : obs) : bool :=
  match cs, os with
  | [], [] => true
  | c :: cs', o :: os' =>
      spec_call tbl probes hp sp c o
      && spec_calls tbl probes (co_heap o) (co_stored o) cs' os'
  | _, _ => false
  end.

Definition spec_ok (i : input) (o : obs) : bool :=
  spec_calls (i_table i) (i_probes i) (i_heap i) [] (i_calls i) o.

(* ---------- the input contract ---------- *)

Fixpoint nodup_str (l : list string) : bool :=
  match l with [] => true | x :: l' => negb (mem_str x l') && nodup_str l' end.

Definition table_addrs (t : table) : list addr :=
  flat_map (fun e => match d_ann (snd e) with AShared a => [a] | _ => [] end) t.

(* heap objects are Go maps (one value per key); the map a signer returns from
   PluginAnnotations() is a heap object that is neither one of the repository's maps nor
   the caller's metadata (the signer's own object) *)
Definition wf_call (h : heap) (t : table) (c : call_in) : bool :=
  match ci_pa c with
  | PAMap a => is_some (hget a h) && negb (existsb (N.eqb a) (table_addrs t))
               && match ci_meta c with Some b => negb (a =? b)%N | None => true end
  | _ => true
  end.

Definition wf_heap (h : heap) : bool := forallb (fun e => nodup_str (map fst (snd e))) h.

Definition wf (i : input) : bool :=
  wf_heap (i_heap i) && forallb (wf_call (i_heap i) (i_table i)) (i_calls i).

(* ---------- cases ---------- *)
Record case := mk_case { c_id : N; c_in : input; c_obs : obs }.

Definition run (cs : list case) : list (N * N * N) :=
  run_cases c_id
    (fun c => obs_eqb (model (c_in c)) (c_obs c))
    (fun c => negb (wf (c_in c)) || spec_ok (c_in c) (c_obs c))
    (fun _ => 0%N) cs.
