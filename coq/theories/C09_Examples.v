(* C09_Examples.v — the concrete documents and the evaluated witnesses behind the
   Examples of props/C09_Property.v (non-vacuity of the hypotheses, regression
   documents F1 / F11). Kept in theories/ so that the evaluations are compiled once
   by make; props/C09_Property.v states each Example and closes it with [exact]. *)
From Coq Require Import List String.
From NV Require Import Base Regex Generated C02_Levels C04_DN C09_Model C09_Spec C09_Proofs C09_Audit.
Import ListNotations.
Open Scope string_scope.

(* ---------- non-vacuity and regression witnesses ---------- *)

Definition ex_oci : doc :=
  mk_doc "1.0"
    [ mk_stmt "wabbit-networks-images" (mk_sv "strict" [("revocation", "skip")] "afterCertExpiry")
        ["ca:valid-trust-store"; "signingAuthority:valid-trust-store"]
        ["x509.subject:C=US, ST=WA, O=wabbit-network.io, OU=org1"; "x509.subject:C=US,S=CA,O=acme"]
        ["registry.acme-rockets.io/software/net-monitor"; "localhost:5000/a"] false;
      mk_stmt "unsigned" (mk_sv "skip" [] "") [] [] ["registry.acme-rockets.io/software/unsigned"] false;
      mk_stmt "rest" (mk_sv "audit" [] "") ["ca:a"] ["*"] ["*"] false ].

Lemma example_wellformed : WellFormed OCI ex_oci /\ validate_oci ex_oci = EOk.
Proof. split; [apply oci_iff|]; vm_compute; reflexivity. Qed.

Definition ex_blob : doc :=
  mk_doc "1.0"
    [ mk_stmt "skip-some" (mk_sv "skip" [] "") [] [] [] false;
      mk_stmt "global" (mk_sv "permissive" [("expiry", "enforce")] "always")
        ["ca:acme-rockets"; "tsa:...a"] ["x509.subject:C=US;ST=WA;O=a\,b"; "spiffe://other"] [] true ].

Lemma example_blob_wellformed :
  WellFormed Blob ex_blob /\ validate_blob ex_blob = EOk
  /\ new_verifier (Some ex_oci) (Some ex_blob) = EOk
  /\ new_verifier (Some ex_oci) (Some (mk_doc "1.0" [])) = ENoStatements.
Proof. split; [apply blob_iff|]; repeat split; vm_compute; reflexivity. Qed.

Definition ex_blob_global_skip : doc :=
  mk_doc "1.0" [ mk_stmt "a" (mk_sv "strict" [] "") ["ca:s"] ["*"] [] false;
                 mk_stmt "g" (mk_sv "skip" [] "") [] [] [] true ].

(* F1 (fixed by 81abfe4): a global blob statement with level skip is rejected *)
Lemma example_global_skip :
  validate_blob ex_blob_global_skip = EGlobalSkip /\ ~ WellFormed Blob ex_blob_global_skip.
Proof.
  split; [vm_compute; reflexivity|]. intros H. apply blob_iff in H. vm_compute in H. discriminate.
Qed.

(* F11 (fixed by 7fbf478): the store names "." and ".." are rejected *)
Lemma example_dotdot :
  validate_oci (mk_doc "1.0" [mk_stmt "a" (mk_sv "strict" [] "") ["ca:.."] ["*"] ["*"] false]) = EStoreName.
Proof. vm_compute; reflexivity. Qed.

(* integrity cannot be overridden; overlapping identities; a scope used twice *)
Lemma example_rejections :
  validate_oci (mk_doc "1.0" [mk_stmt "a" (mk_sv "strict" [("integrity", "log")] "") ["ca:s"] ["*"] ["*"] false]) = EOverride
  /\ validate_oci (mk_doc "1.0" [mk_stmt "a" (mk_sv "strict" [] "") ["ca:s"]
        ["x509.subject:C=US,ST=WA,O=x"; "x509.subject:O=x,CN=y,ST=WA,C=US"] ["*"] false]) = EIdOverlap
  /\ validate_oci (mk_doc "1.0" [mk_stmt "a" (mk_sv "strict" [] "") ["ca:s"] ["*"] ["a/b"] false;
                                 mk_stmt "b" (mk_sv "strict" [] "") ["ca:s"] ["*"] ["a/b"] false]) = EScopeDup.
Proof. repeat split; vm_compute; reflexivity. Qed.

(* ---------- audit: the hypotheses of the theorems above are satisfiable ---------- *)

(* C09_integrity on a custom level: strict with revocation skipped still
   enforces integrity; a skip statement yields the skip level *)
Lemma example_integrity :
  validate OCI ex_oci = EOk
  /\ map level_obs (d_stmts ex_oci)
     = [Some ("custom", "eeees"); Some ("skip", "sssss"); Some ("audit", "ellll")].
Proof. split; vm_compute; reflexivity. Qed.

(* C09_names_safe / C09_identities_mandatory / C09_identities_disjoint: a
   store, an identity and a pair of identities of an accepted document *)
Lemma example_instances :
  let s := nth 0 (d_stmts ex_oci) (mk_stmt "" (mk_sv "" [] "") [] [] [] false) in
  validate OCI ex_oci = EOk /\ In s (d_stmts ex_oci)
  /\ In "signingAuthority:valid-trust-store" (s_stores s)
  /\ x509_value (nth 1 (s_ids s) "") = Some "C=US,S=CA,O=acme"
  /\ parse_distinguished_name "C=US,S=CA,O=acme" = DOk [("O", "acme"); ("ST", "CA"); ("C", "US")]
  /\ (exists m, parse_distinguished_name "C=US, ST=WA, O=wabbit-network.io, OU=org1" = DOk m).
Proof.
  cbv zeta. split; [vm_compute; reflexivity|]. split; [left; reflexivity|].
  split; [right; left; reflexivity|]. split; [vm_compute; reflexivity|].
  split; [vm_compute; reflexivity|]. eexists. vm_compute. reflexivity.
Qed.

(* C09_mandatory_required: "C=US,ST=WA" parses, is single-valued, lacks O, and
   the document is rejected by the real rule (class EIdDN) *)
Lemma example_mandatory :
  exists rdns m, parse_dn "C=US,ST=WA" = POk rdns /\ add_rdns rdns [] = DOk m
    /\ lookup_default "O" m = "" /\ validate_oci (mk_doc "1.0" [stmt_no_O]) = EIdDN.
Proof. exact mandatory_required_witness. Qed.

(* C09_overlap_rejected: the first identity is within the third (positions 0 and 2) *)
Lemma example_overlap :
  Within [("O", "x"); ("ST", "WA"); ("C", "US")] [("C", "US"); ("ST", "WA"); ("CN", "y"); ("O", "x")]
  /\ parse_distinguished_name "C=US,ST=WA,O=x" = DOk [("O", "x"); ("ST", "WA"); ("C", "US")]
  /\ parse_distinguished_name "O=x,CN=y,ST=WA,C=US" = DOk [("C", "US"); ("ST", "WA"); ("CN", "y"); ("O", "x")]
  /\ validate_oci (mk_doc "1.0" [mk_stmt "a" (mk_sv "strict" [] "") ["ca:s"]
        ["x509.subject:C=US,ST=WA,O=x"; "foo:bar"; "x509.subject:O=x,CN=y,ST=WA,C=US"] ["*"] false]) = EIdOverlap.
Proof.
  split; [apply subset_within; vm_compute; reflexivity|]. repeat split; vm_compute; reflexivity.
Qed.

(* C09_forced_constructors: each constructor accepts something; nothing is
   constructed without a trust store; New does not take the blob document;
   the decoy left in the options of NewWithOptions does not count *)
Lemma example_constructors :
  construct CtorOptions (Some ex_oci) (Some ex_blob) = EOk
  /\ construct CtorNilStore (Some ex_oci) (Some ex_blob) = EStoreNil
  /\ construct CtorNew (Some ex_oci) (Some ex_blob_global_skip) = EOk
  /\ construct CtorNew None (Some ex_blob) = EBothNil
  /\ construct (CtorWithOptions (Some ex_oci)) None None = EBothNil
  /\ construct (CtorWithOptions (Some ex_oci)) (Some ex_scope_twice) (Some ex_blob) = EScopeDup
  /\ construct (CtorWithOptions (Some ex_scope_twice)) (Some ex_oci) None = EOk.
Proof. repeat split; vm_compute; reflexivity. Qed.

(* C09_model_meets_oracle: inputs inside the contract, for every constructor *)
Lemma example_contract :
  wf (mk_input OCI (Some ex_oci) (Some ex_blob)) = true
  /\ wf (mk_input_c Blob (Some ex_blob) None (CtorWithOptions (Some ex_oci))) = true
  /\ o_new (model (mk_input_c Blob (Some ex_blob) (Some ex_oci) CtorNew)) = EOk
  /\ o_new (model (mk_input_c OCI None (Some ex_blob) CtorNew)) = EBothNil.
Proof. repeat split; vm_compute; reflexivity. Qed.
