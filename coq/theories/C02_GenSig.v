(* C02_GenSig.v — property C02: the GoLite translation of verifier.processSignature itself
   (theories/C02_Gen.v, gen_verifier_verifier_processSignature, regenerated from
   verifier/verifier.go on every run) is the staged model VerifyCore.process_signature.

   Every call that leaves the function is an oracle, and appears as a hypothesis "the oracle answers
   like the model of it":
     verifyIntegrity, loadX509TrustStores, verifyAuthenticity, verifyX509TrustedIdentities, verifyExpiry,
     verifyAuthenticTimestamp (owned by C03 C04 C06), the revocation validator and
     SignerInfo.AuthenticSigningTime (through the translated verifyRevocation), the plugin manager
     (Manager.Get), the plugin (GetMetadata, VerifySignature through the translated executePlugin),
     x/mod/semver.Compare, and processPluginResponse (refused by the translator: it finds the
     authenticity result in outcome.VerificationResults and writes through that pointer).
   Translated and used with their own equivalences (C02_GenProofs): isCriticalFailure,
   getVerificationPlugin, getVerificationPluginMinVersion, IsValid, isRequiredVerificationPluginVer,
   verifyRevocation (checkRevocationResults, revocationFinalResult), executePlugin
   (getNonPluginExtendedCriticalAttributes), slices.Contains.

   Part A: the model restated stage by stage (pure model lemmas).
   Part B: the scenario read off the inputs and the oracles; the theorem.                      *)
From Coq Require Import List Bool String Ascii NArith ZArith Lia.
From NV Require Import Base Regex Generated C02_Levels VerifyCore C02_Model C02_Core C02_Proofs
                       C20_Semver C02_Versions.
From NV Require Import GoLib C02_Gen C02_GenProofs.
Import ListNotations.
Local Open Scope string_scope.
Local Open Scope list_scope.

(* ====================================================================== *)
(* Part A. VerifyCore.process_signature, stage by stage                    *)
(* ====================================================================== *)

Notation icf := is_critical_failure.
Definition integ : result := mk_res TIntegrity Enforce false.

Section Stages.
Variables (lvl : level) (sc : scenario) (plugin : bool) (caps : list cap).

(* the plugin stage and the final test, given the results of the native validations *)
Definition m_tail (rs : list result) : VerifyCore.err * list result :=
  match caps_to_verify lvl caps with
  | _ :: _ =>
      match s_presp sc with
      | PErr => (EOther, rs)
      | PResp processed ti rev =>
          process_plugin_response crit_processed lvl sc (caps_to_verify lvl caps) processed ti rev rs
      end
  | [] => if negb plugin && any_critical_attribute sc then (EInconclusive, rs) else (ENone, rs)
  end.

Definition m_rev (rs3 : list result) : VerifyCore.err * list result :=
  if negb (action_eqb (l_rev lvl) Skip) && negb (has_cap CapRev caps) then
    let rs4 := rs3 ++ [mk_res TRev (l_rev lvl) (negb (s_rev_ok sc))] in
    if icf (l_rev lvl) (negb (s_rev_ok sc)) then (EResult TRev, rs4) else m_tail rs4
  else m_tail rs3.

Definition m_ts (rs2 : list result) : VerifyCore.err * list result :=
  let rs3 := rs2 ++ [mk_res TTimestamp (l_ts lvl) (negb (s_ts_ok sc))] in
  if icf (l_ts lvl) (negb (s_ts_ok sc)) then (EResult TTimestamp, rs3) else m_rev rs3.

Definition m_exp (rs1 : list result) : VerifyCore.err * list result :=
  let rs2 := rs1 ++ [mk_res TExpiry (l_exp lvl) (s_expired sc)] in
  if icf (l_exp lvl) (s_expired sc) then (EResult TExpiry, rs2) else m_ts rs2.

Definition m_auth : VerifyCore.err * list result :=
  let f0 := negb (s_auth sc =? 0)%N in
  if icf (l_auth lvl) f0 then (EResult TAuth, [integ; mk_res TAuth (l_auth lvl) f0]) else
  if negb (has_cap CapTI caps) then
    let f1 := f0 || negb (s_identity_ok sc) in
    if icf (l_auth lvl) f1 then (EResult TAuth, [integ; mk_res TAuth (l_auth lvl) f1])
    else m_exp [integ; mk_res TAuth (l_auth lvl) f1]
  else m_exp [integ; mk_res TAuth (l_auth lvl) f0].
End Stages.

Definition obs2 (o : obs) : VerifyCore.err * list result := (o_err o, o_results o).

(* what follows a successful discovery in process_signature is [m_auth] *)
Lemma after_discovery lvl sc d plugin caps gets :
  (d = DNoPlugin /\ plugin = false /\ caps = [] /\ gets = []) \/ (exists n, d = DPlugin n caps /\ plugin = true /\ gets = [n]) ->
  obs2 (let '(plugin, caps, gets) := match d with DPlugin n c => (true, c, [n]) | _ => (false, [], []) end in
        match native lvl sc caps with
        | (ENone, rs4, called) =>
            let to_verify := caps_to_verify lvl caps in
            match to_verify with
            | _ :: _ =>
                let exec := Some (to_verify, other_keys sc) in
                match s_presp sc with
                | PErr => mk_obs EOther rs4 called gets exec
                | PResp processed ti rev =>
                    let '(e, rs5) := process_plugin_response crit_processed lvl sc to_verify processed ti rev rs4 in
                    mk_obs e rs5 called gets exec
                end
            | [] =>
                if negb plugin && any_critical_attribute sc
                then mk_obs EInconclusive rs4 called gets None
                else mk_obs ENone rs4 called gets None
            end
        | (e, rs, called) => mk_obs e rs called gets None
        end)
  = m_auth lvl sc plugin caps.
Proof.
  intros H.
  assert (E : match d with DPlugin n c => (true, c, [n]) | _ => (false, [], []) end = (plugin, caps, gets)).
  { destruct H as [(-> & -> & -> & ->)|(n & -> & -> & ->)]; reflexivity. }
  rewrite E. clear E H d.
  unfold native, m_auth, m_exp, m_ts, m_rev, m_tail, integ. cbv zeta.
  destruct (icf (l_auth lvl) (negb (s_auth sc =? 0)%N)); [reflexivity|].
  destruct (negb (has_cap CapTI caps)); cbn [andb].
  - destruct (icf (l_auth lvl) (negb (s_auth sc =? 0)%N || negb (s_identity_ok sc))); [reflexivity|].
    destruct (icf (l_exp lvl) (s_expired sc)); [reflexivity|].
    destruct (icf (l_ts lvl) (negb (s_ts_ok sc))); [reflexivity|].
    destruct (negb (action_eqb (l_rev lvl) Skip) && negb (has_cap CapRev caps)).
    + destruct (icf (l_rev lvl) (negb (s_rev_ok sc))); [reflexivity|].
      destruct (caps_to_verify lvl caps); [destruct (negb plugin && any_critical_attribute sc); reflexivity|].
      destruct (s_presp sc); [reflexivity|]. destruct (process_plugin_response _ _ _ _ _ _ _ _); reflexivity.
    + destruct (caps_to_verify lvl caps); [destruct (negb plugin && any_critical_attribute sc); reflexivity|].
      destruct (s_presp sc); [reflexivity|]. destruct (process_plugin_response _ _ _ _ _ _ _ _); reflexivity.
  - destruct (icf (l_exp lvl) (s_expired sc)); [reflexivity|].
    destruct (icf (l_ts lvl) (negb (s_ts_ok sc))); [reflexivity|].
    destruct (negb (action_eqb (l_rev lvl) Skip) && negb (has_cap CapRev caps)).
    + destruct (icf (l_rev lvl) (negb (s_rev_ok sc))); [reflexivity|].
      destruct (caps_to_verify lvl caps); [destruct (negb plugin && any_critical_attribute sc); reflexivity|].
      destruct (s_presp sc); [reflexivity|]. destruct (process_plugin_response _ _ _ _ _ _ _ _); reflexivity.
    + destruct (caps_to_verify lvl caps); [destruct (negb plugin && any_critical_attribute sc); reflexivity|].
      destruct (s_presp sc); [reflexivity|]. destruct (process_plugin_response _ _ _ _ _ _ _ _); reflexivity.
Qed.

(* the whole function, as (error class, results) *)
Definition ps_obs (lvl : level) (sc : scenario) : VerifyCore.err * list result :=
  if negb (s_integrity_ok sc) then (EResult TIntegrity, [mk_res TIntegrity Enforce true]) else
  match discover sc with
  | DErr e _ => (e, [integ])
  | DNoPlugin => m_auth lvl sc false []
  | DPlugin _ c => m_auth lvl sc true c
  end.

Lemma ps_obs_correct lvl sc : obs2 (process_signature lvl sc) = ps_obs lvl sc.
Proof.
  unfold process_signature, process_signature_gen, ps_obs.
  destruct (negb (s_integrity_ok sc)); [reflexivity|].
  destruct (discover sc) as [e g| |n c] eqn:D; [reflexivity| |].
  - apply (after_discovery lvl sc DNoPlugin false [] []). left. repeat split.
  - apply (after_discovery lvl sc (DPlugin n c) true c [n]). right. exists n. repeat split.
Qed.

(* ====================================================================== *)
(* Part B. the generated processSignature                                  *)
(* ====================================================================== *)

(* ---------- how the model reads what the code returns ---------- *)

Definition vtype_of (s : string) : option vtype :=
  if String.eqb s "integrity" then Some TIntegrity
  else if String.eqb s "authenticity" then Some TAuth
  else if String.eqb s "expiry" then Some TExpiry
  else if String.eqb s "authenticTimestamp" then Some TTimestamp
  else if String.eqb s "revocation" then Some TRev
  else None.

(* a reported result (pointer to a ValidationResult) is the model's result m *)
Definition res_is (p : ptr notation_go_ValidationResult) (m : result) : Prop :=
  exists r, ptr_val p = Some r /\ vtype_of (ValidationResult_Type r) = Some (r_type m)
            /\ vr_action r = r_action m /\ vr_failed r = r_failed m.

(* notation.ErrorVerificationInconclusive *)
Definition inconclusive_typ := "notation.VerificationInconclusiveError".

(* the returned error against the model's error class; [news] = the results reported by this call *)
Definition err_rel (e : option GoLib.err) (c : VerifyCore.err) (news : list (ptr notation_go_ValidationResult)) : Prop :=
  match c with
  | ENone => e = None
  | EResult t => e <> None /\ exists p r, In p news /\ ptr_val p = Some r
                                         /\ vtype_of (ValidationResult_Type r) = Some t /\ ValidationResult_Error r = e
  | EInconclusive => exists f w, e = Some (Err inconclusive_typ f w)
  | EOther => e <> None
  end.

Definition cap_ti := "SIGNATURE_VERIFIER.TRUSTED_IDENTITY".
Definition cap_rev := "SIGNATURE_VERIFIER.REVOCATION_CHECK".
Definition cap_of (s : string) : cap :=
  if String.eqb s cap_ti then CapTI else if String.eqb s cap_rev then CapRev else CapOther.

Lemma parse_action_skip s : action_eqb (parse_action s) Skip = String.eqb s "skip".
Proof.
  unfold parse_action. destruct (String.eqb s "enforce") eqn:E.
  - apply String.eqb_eq in E. subst s. reflexivity.
  - destruct (String.eqb s "skip"); reflexivity.
Qed.

Lemma forall2_app_inv {A B} (R : A -> B -> Prop) l1 l2 r1 r2 :
  Forall2 R l1 r1 -> Forall2 R l2 r2 -> Forall2 R (l1 ++ l2) (r1 ++ r2).
Proof. apply Forall2_app. Qed.

Section PS.
(* the oracles, in the order C02_Gen.v declares them *)
Variable gcmp : string -> string -> Z.
Variable C : Type.
Variable subjs : C -> string.
Variable getmeta : ptr plugin_GetMetadataRequest -> ptr plugin_GetMetadataResponse * option GoLib.err.
Variable PL : Type.
Variable mget : string -> PL * option GoLib.err.
Variable vsig : ptr plugin_VerifySignatureRequest -> ptr plugin_VerifySignatureResponse * option GoLib.err.
Variable VP : Type.
Variable raw : C -> list Z.
Variable vint : list Z -> string -> ptr (notation_go_VerificationOutcome C)
                -> ptr (signature_EnvelopeContent C) * ptr notation_go_ValidationResult.
Variable load : string -> string -> list string -> (string -> string -> list C * option GoLib.err) -> list C * option GoLib.err.
Variable vauth : list C -> ptr (notation_go_VerificationOutcome C) -> ptr notation_go_ValidationResult.
Variable vids : string -> list string -> list C -> option GoLib.err.
Variable vexp : ptr (notation_go_VerificationOutcome C) -> ptr notation_go_ValidationResult.
Variable vts : string -> list string -> trustpolicy_SignatureVerification
               -> (string -> string -> list C * option GoLib.err)
               -> ptr (revocation_ValidateContextOptions C -> list (ptr result_CertRevocationResult) * option GoLib.err)
               -> ptr (notation_go_VerificationOutcome C) -> ptr notation_go_ValidationResult.
Variable ast : ptr (signature_SignerInfo C) -> Z * option GoLib.err.
Variable PM : Type.
Variable ppr : list string -> ptr plugin_VerifySignatureResponse -> notation_go_VerificationOutcome C
               -> notation_go_VerificationOutcome C * option GoLib.err.
Variable up : PL -> VP.

Notation PS := (gen_verifier_verifier_processSignature gcmp C subjs getmeta PL mget vsig VP raw vint load vauth vids
                                                       vexp vts ast PM ppr up).

(* the inputs of the call *)
Variable v : verifier_verifier C PM.
Variables (sigBlob : list Z) (mt policy : string) (ids stores : list string).
Variable sv : trustpolicy_SignatureVerification.
Variable cfg : list (string * string).
Variable out0 : notation_go_VerificationOutcome C.

(* what the oracles answered, and the native facts of the scenario *)
Variable envp : ptr (signature_EnvelopeContent C).
Variable irp : ptr notation_go_ValidationResult.
Variable env : signature_EnvelopeContent C.
Variable lv : trustpolicy_VerificationLevel.
Variables (certs : list C) (le : option GoLib.err).
Variables (b_int b_auth b_exp b_ts b_rev : bool).
Variable respp : ptr plugin_VerifySignatureResponse.
Variable ve : option GoLib.err.
Variable presp_m : presp.

Definition lvl : level := glevel_of lv.
Definition sinfo := EnvelopeContent_SignerInfo C env.
Definition attrs := SignedAttributes_ExtendedAttributes (SignerInfo_SignedAttributes C sinfo).
Definition chain := SignerInfo_CertificateChain C sinfo.
Definition scheme := SignedAttributes_SigningScheme (SignerInfo_SignedAttributes C sinfo).

(* the installed plugin, as the model's [pm], read off the manager's and the plugin's answers *)
Definition pm_of (name : string) : pm :=
  if ptr_is_nil (verifier_pluginManager C PM v) then PMNil else
  let '(t, e) := mget name in
  if negb (is_none e) then PMNotInstalled else
  let '(mp, e') := getmeta (PNew (mk_GetMetadataRequest cfg)) in
  if negb (is_none e') then PMMetaErr else
  match ptr_val mp with
  | None => PMPlugin false false []          (* an empty get-plugin-metadata answer: refused like an invalid version *)
  | Some m => PMPlugin (sv_valid (GetMetadataResponse_Version m))
                       (ver_ge (GetMetadataResponse_Version m) (attr_state hdr_minver attrs))
                       (map cap_of (GetMetadataResponse_Capabilities m))
  end.

(* THE SCENARIO of VerifyCore this call realises *)
Definition the_sc : scenario :=
  mk_sc b_int
        (attr_state hdr_plugin attrs) (attr_state hdr_minver attrs) (minver_valid_of (attr_state hdr_minver attrs))
        (other_of attrs) (nonstring_crit_of attrs)
        (if b_auth then 0 else 3)%N
        (is_none (vids policy ids chain))
        b_exp b_ts b_rev
        (match plugin_res (attr_state hdr_plugin attrs) with XVal name => pm_of name | _ => PMNil end)
        presp_m.

(* outcomes that differ from the incoming one only in the reported results *)
Definition agree (o : notation_go_VerificationOutcome C) : Prop :=
  VerificationOutcome_EnvelopeContent C o = envp
  /\ VerificationOutcome_VerificationLevel C o = VerificationOutcome_VerificationLevel C out0.

Definition VR0 := VerificationOutcome_VerificationResults C out0.

(* the answer of the generated function against the model's (error class, results) *)
Definition good (res : option (notation_go_VerificationOutcome C * option GoLib.err))
                (m : VerifyCore.err * list result) : Prop :=
  exists out e news,
    res = Some (out, e) /\ agree out
    /\ VerificationOutcome_VerificationResults C out = VR0 ++ news
    /\ Forall2 res_is news (snd m) /\ err_rel e (fst m) news.

(* ---------- the hypotheses: every oracle answers like the model of it ---------- *)
Hypothesis H_int : vint sigBlob mt (PNew out0) = (envp, irp).
Hypothesis H_ir : res_is irp (mk_res TIntegrity Enforce (negb b_int)).
Hypothesis H_env : b_int = true -> ptr_val envp = Some env.
Hypothesis H_lv : ptr_val (VerificationOutcome_VerificationLevel C out0) = Some lv.
(* the envelope parser hands on at most one attribute per key (only used for the min-version header) *)
Hypothesis H_once : forall a, In a attrs -> str_key a = Some hdr_minver -> find_attr hdr_minver attrs = Some a.
Hypothesis H_load : load scheme policy stores (verifier_trustStore C PM v) = (certs, le).
Hypothesis H_auth_le : le <> None -> b_auth = false.
Hypothesis H_auth : le = None -> forall o, agree o -> res_is (vauth certs (PNew o)) (mk_res TAuth (l_auth lvl) (negb b_auth)).
Hypothesis H_exp : forall o, agree o -> res_is (vexp (PNew o)) (mk_res TExpiry (l_exp lvl) b_exp).
Hypothesis H_ts : forall o, agree o ->
  res_is (vts policy stores sv (verifier_trustStore C PM v) (verifier_revocationTimestampingValidator C PM v) (PNew o))
         (mk_res TTimestamp (l_ts lvl) (negb b_ts)).
Hypothesis H_rev : rev_ok_of C ast PM v env <-> b_rev = true.
Hypothesis H_cmp : compare_agrees gcmp.
Hypothesis H_rng : compare_range gcmp.
Hypothesis H_vsig : forall req, vsig (PNew req) = (respp, ve).
Hypothesis H_presp : presp_m = PErr <-> negb (is_none ve) || ptr_is_nil respp = true.
Hypothesis H_ppr : forall cs o news rs processed ti rev,
  agree o -> VerificationOutcome_VerificationResults C o = VR0 ++ news -> Forall2 res_is news rs ->
  presp_m = PResp processed ti rev ->
  good (Some (ppr cs respp o)) (process_plugin_response crit_processed lvl the_sc (map cap_of cs) processed ti rev rs).

Theorem gen_processSignature_equiv :
  good (PS v sigBlob mt policy ids stores sv cfg out0) (ps_obs lvl the_sc).
Proof.
Admitted.

End PS.
