(* C02_GenSig.v — property C02: the GoLite translation of verifier.processSignature itself
   (theories/C02_Gen.v, gen_verifier_verifier_processSignature, regenerated from
   verifier/verifier.go on every run) is the staged model VerifyCore.process_signature.

   Every call that leaves the function is an oracle, and appears as a hypothesis "the oracle answers
   like the model of it":
     verifyIntegrity, loadX509TrustStores, verifyAuthenticity, verifyX509TrustedIdentities, verifyExpiry,
     verifyAuthenticTimestamp (owned by C03 C04 C06), the revocation validator and
     SignerInfo.AuthenticSigningTime (through the translated verifyRevocation), the plugin manager
     (Manager.Get), the plugin (GetMetadata, VerifySignature through the translated executePlugin),
     x/mod/semver.Compare, and processPluginResponse (refused by the translator: it finds the
     authenticity result in outcome.VerificationResults and writes through that pointer).
   Translated and used with their own equivalences (C02_GenProofs): isCriticalFailure,
   getVerificationPlugin, getVerificationPluginMinVersion, IsValid, isRequiredVerificationPluginVer,
   verifyRevocation (checkRevocationResults, revocationFinalResult), executePlugin
   (getNonPluginExtendedCriticalAttributes), slices.Contains.

   Part A: the model restated stage by stage (pure model lemmas).
   Part B: the scenario read off the inputs and the oracles; the theorem.                      *)
From Coq Require Import List Bool String Ascii NArith ZArith Lia.
From NV Require Import Base Regex Generated C02_Levels VerifyCore C02_Model C02_Core C02_Proofs C02_Struct
                       C20_Semver C02_Versions.
From NV Require Import GoLib C02_Gen C02_GenProofs.
Import ListNotations.
Local Open Scope string_scope.
Local Open Scope list_scope.

(* ====================================================================== *)
(* Part A. VerifyCore.process_signature, stage by stage                    *)
(* ====================================================================== *)

Notation icf := is_critical_failure.
Definition integ : result := mk_res TIntegrity Enforce false.

Section Stages.
Variables (lvl : level) (sc : scenario) (plugin : bool) (caps : list cap).

(* the plugin stage and the final test, given the results of the native validations *)
Definition m_tail (rs : list result) : VerifyCore.err * list result :=
  match caps_to_verify lvl caps with
  | _ :: _ =>
      match s_presp sc with
      | PErr => (EOther, rs)
      | PResp processed ti rev =>
          process_plugin_response crit_processed lvl sc (caps_to_verify lvl caps) processed ti rev rs
      end
  | [] => if negb plugin && any_critical_attribute sc then (EInconclusive, rs) else (ENone, rs)
  end.

Definition m_rev (rs3 : list result) : VerifyCore.err * list result :=
  if negb (action_eqb (l_rev lvl) Skip) && negb (has_cap CapRev caps) then
    let rs4 := rs3 ++ [mk_res TRev (l_rev lvl) (negb (s_rev_ok sc))] in
    if icf (l_rev lvl) (negb (s_rev_ok sc)) then (EResult TRev, rs4) else m_tail rs4
  else m_tail rs3.

Definition m_ts (rs2 : list result) : VerifyCore.err * list result :=
  let rs3 := rs2 ++ [mk_res TTimestamp (l_ts lvl) (negb (s_ts_ok sc))] in
  if icf (l_ts lvl) (negb (s_ts_ok sc)) then (EResult TTimestamp, rs3) else m_rev rs3.

Definition m_exp (rs1 : list result) : VerifyCore.err * list result :=
  let rs2 := rs1 ++ [mk_res TExpiry (l_exp lvl) (s_expired sc)] in
  if icf (l_exp lvl) (s_expired sc) then (EResult TExpiry, rs2) else m_ts rs2.

Definition m_auth : VerifyCore.err * list result :=
  let f0 := negb (s_auth sc =? 0)%N in
  if icf (l_auth lvl) f0 then (EResult TAuth, [integ; mk_res TAuth (l_auth lvl) f0]) else
  if negb (has_cap CapTI caps) then
    let f1 := f0 || negb (s_identity_ok sc) in
    if icf (l_auth lvl) f1 then (EResult TAuth, [integ; mk_res TAuth (l_auth lvl) f1])
    else m_exp [integ; mk_res TAuth (l_auth lvl) f1]
  else m_exp [integ; mk_res TAuth (l_auth lvl) f0].
End Stages.

Definition obs2 (o : obs) : VerifyCore.err * list result := (o_err o, o_results o).

(* what follows a successful discovery in process_signature is [m_auth] *)
Lemma after_discovery lvl sc d plugin caps gets :
  (d = DNoPlugin /\ plugin = false /\ caps = [] /\ gets = []) \/ (exists n, d = DPlugin n caps /\ plugin = true /\ gets = [n]) ->
  obs2 (let '(plugin, caps, gets) := match d with DPlugin n c => (true, c, [n]) | _ => (false, [], []) end in
        match native lvl sc caps with
        | (ENone, rs4, called) =>
            let to_verify := caps_to_verify lvl caps in
            match to_verify with
            | _ :: _ =>
                let exec := Some (to_verify, other_keys sc) in
                match s_presp sc with
                | PErr => mk_obs EOther rs4 called gets exec
                | PResp processed ti rev =>
                    let '(e, rs5) := process_plugin_response crit_processed lvl sc to_verify processed ti rev rs4 in
                    mk_obs e rs5 called gets exec
                end
            | [] =>
                if negb plugin && any_critical_attribute sc
                then mk_obs EInconclusive rs4 called gets None
                else mk_obs ENone rs4 called gets None
            end
        | (e, rs, called) => mk_obs e rs called gets None
        end)
  = m_auth lvl sc plugin caps.
Proof.
  intros H.
  assert (E : match d with DPlugin n c => (true, c, [n]) | _ => (false, [], []) end = (plugin, caps, gets)).
  { destruct H as [(-> & -> & -> & ->)|(n & -> & -> & ->)]; reflexivity. }
  rewrite E. clear E H d.
  unfold native, m_auth, m_exp, m_ts, m_rev, m_tail, integ. cbv zeta.
  destruct (icf (l_auth lvl) (negb (s_auth sc =? 0)%N)); [reflexivity|].
  destruct (negb (has_cap CapTI caps)); cbn [andb].
  - destruct (icf (l_auth lvl) (negb (s_auth sc =? 0)%N || negb (s_identity_ok sc))); [reflexivity|].
    destruct (icf (l_exp lvl) (s_expired sc)); [reflexivity|].
    destruct (icf (l_ts lvl) (negb (s_ts_ok sc))); [reflexivity|].
    destruct (negb (action_eqb (l_rev lvl) Skip) && negb (has_cap CapRev caps)).
    + destruct (icf (l_rev lvl) (negb (s_rev_ok sc))); [reflexivity|].
      destruct (caps_to_verify lvl caps); [destruct (negb plugin && any_critical_attribute sc); reflexivity|].
      destruct (s_presp sc); [reflexivity|]. destruct (process_plugin_response _ _ _ _ _ _ _ _); reflexivity.
    + destruct (caps_to_verify lvl caps); [destruct (negb plugin && any_critical_attribute sc); reflexivity|].
      destruct (s_presp sc); [reflexivity|]. destruct (process_plugin_response _ _ _ _ _ _ _ _); reflexivity.
  - destruct (icf (l_exp lvl) (s_expired sc)); [reflexivity|].
    destruct (icf (l_ts lvl) (negb (s_ts_ok sc))); [reflexivity|].
    destruct (negb (action_eqb (l_rev lvl) Skip) && negb (has_cap CapRev caps)).
    + destruct (icf (l_rev lvl) (negb (s_rev_ok sc))); [reflexivity|].
      destruct (caps_to_verify lvl caps); [destruct (negb plugin && any_critical_attribute sc); reflexivity|].
      destruct (s_presp sc); [reflexivity|]. destruct (process_plugin_response _ _ _ _ _ _ _ _); reflexivity.
    + destruct (caps_to_verify lvl caps); [destruct (negb plugin && any_critical_attribute sc); reflexivity|].
      destruct (s_presp sc); [reflexivity|]. destruct (process_plugin_response _ _ _ _ _ _ _ _); reflexivity.
Qed.

(* the whole function, as (error class, results) *)
Definition ps_obs (lvl : level) (sc : scenario) : VerifyCore.err * list result :=
  if negb (s_integrity_ok sc) then (EResult TIntegrity, [mk_res TIntegrity Enforce true]) else
  match discover sc with
  | DErr e _ => (e, [integ])
  | DNoPlugin => m_auth lvl sc false []
  | DPlugin _ c => m_auth lvl sc true c
  end.

Lemma ps_obs_correct lvl sc : obs2 (process_signature lvl sc) = ps_obs lvl sc.
Proof.
  unfold process_signature, process_signature_gen, ps_obs.
  destruct (negb (s_integrity_ok sc)); [reflexivity|].
  destruct (discover sc) as [e g| |n c] eqn:D; [reflexivity| |].
  - apply (after_discovery lvl sc DNoPlugin false [] []). left. repeat split.
  - apply (after_discovery lvl sc (DPlugin n c) true c [n]). right. exists n. repeat split.
Qed.

(* ====================================================================== *)
(* Part B. the generated processSignature                                  *)
(* ====================================================================== *)

(* ---------- how the model reads what the code returns ---------- *)

Definition vtype_of (s : string) : option vtype :=
  if String.eqb s "integrity" then Some TIntegrity
  else if String.eqb s "authenticity" then Some TAuth
  else if String.eqb s "expiry" then Some TExpiry
  else if String.eqb s "authenticTimestamp" then Some TTimestamp
  else if String.eqb s "revocation" then Some TRev
  else None.

(* a reported result (pointer to a ValidationResult) is the model's result m *)
Definition res_is (p : ptr notation_go_ValidationResult) (m : result) : Prop :=
  exists r, ptr_val p = Some r /\ vtype_of (ValidationResult_Type r) = Some (r_type m)
            /\ vr_action r = r_action m /\ vr_failed r = r_failed m.

(* notation.ErrorVerificationInconclusive *)
Definition inconclusive_typ := "notation.VerificationInconclusiveError".

(* the returned error against the model's error class; [news] = the results reported by this call *)
Definition err_rel (e : option GoLib.err) (c : VerifyCore.err) (news : list (ptr notation_go_ValidationResult)) : Prop :=
  match c with
  | ENone => e = None
  | EResult t => e <> None /\ exists p r, In p news /\ ptr_val p = Some r
                                         /\ vtype_of (ValidationResult_Type r) = Some t /\ ValidationResult_Error r = e
  | EInconclusive => exists f w, e = Some (Err inconclusive_typ f w)
  | EOther => e <> None
  end.

Definition cap_ti := "SIGNATURE_VERIFIER.TRUSTED_IDENTITY".
Definition cap_rev := "SIGNATURE_VERIFIER.REVOCATION_CHECK".
Definition cap_of (s : string) : cap :=
  if String.eqb s cap_ti then CapTI else if String.eqb s cap_rev then CapRev else CapOther.

Lemma parse_action_skip s : action_eqb (parse_action s) Skip = String.eqb s "skip".
Proof.
  unfold parse_action. destruct (String.eqb s "enforce") eqn:E.
  - apply String.eqb_eq in E. subst s. reflexivity.
  - destruct (String.eqb s "skip"); reflexivity.
Qed.

Lemma forall2_app_inv {A B} (R : A -> B -> Prop) l1 l2 r1 r2 :
  Forall2 R l1 r1 -> Forall2 R l2 r2 -> Forall2 R (l1 ++ l2) (r1 ++ r2).
Proof. apply Forall2_app. Qed.

Section PS.
(* the oracles, in the order C02_Gen.v declares them *)
Variable gcmp : string -> string -> Z.
Variable C : Type.
Variable subjs : C -> string.
Variable getmeta : ptr plugin_GetMetadataRequest -> ptr plugin_GetMetadataResponse * option GoLib.err.
Variable PL : Type.
Variable mget : string -> PL * option GoLib.err.
Variable vsig : ptr plugin_VerifySignatureRequest -> ptr plugin_VerifySignatureResponse * option GoLib.err.
Variable VP : Type.
Variable raw : C -> list Z.
Variable vint : list Z -> string -> ptr (notation_go_VerificationOutcome C)
                -> ptr (signature_EnvelopeContent C) * ptr notation_go_ValidationResult.
Variable load : string -> string -> list string -> (string -> string -> list C * option GoLib.err) -> list C * option GoLib.err.
Variable vauth : list C -> ptr (notation_go_VerificationOutcome C) -> ptr notation_go_ValidationResult.
Variable vids : string -> list string -> list C -> option GoLib.err.
Variable vexp : ptr (notation_go_VerificationOutcome C) -> ptr notation_go_ValidationResult.
Variable vts : string -> list string -> trustpolicy_SignatureVerification
               -> (string -> string -> list C * option GoLib.err)
               -> ptr (revocation_ValidateContextOptions C -> list (ptr result_CertRevocationResult) * option GoLib.err)
               -> ptr (notation_go_VerificationOutcome C) -> ptr notation_go_ValidationResult.
Variable ast : ptr (signature_SignerInfo C) -> Z * option GoLib.err.
Variable PM : Type.
Variable ppr : list string -> ptr plugin_VerifySignatureResponse -> notation_go_VerificationOutcome C
               -> notation_go_VerificationOutcome C * option GoLib.err.
Variable up : PL -> VP.

Notation PS := (gen_verifier_verifier_processSignature gcmp C subjs getmeta PL mget vsig VP raw vint load vauth vids
                                                       vexp vts ast PM ppr up).

(* the inputs of the call *)
Variable v : verifier_verifier C PM.
Variables (sigBlob : list Z) (mt policy : string) (ids stores : list string).
Variable sv : trustpolicy_SignatureVerification.
Variable cfg : list (string * string).
Variable out0 : notation_go_VerificationOutcome C.

(* what the oracles answered, and the native facts of the scenario *)
Variable envp : ptr (signature_EnvelopeContent C).
Variable irp : ptr notation_go_ValidationResult.
Variable env : signature_EnvelopeContent C.
Variable lv : trustpolicy_VerificationLevel.
Variables (certs : list C) (le : option GoLib.err).
Variables (b_int b_auth b_exp b_ts b_rev : bool).
Variable respp : ptr plugin_VerifySignatureResponse.
Variable ve : option GoLib.err.
Variable presp_m : presp.

Definition lvl : level := glevel_of lv.
Definition sinfo := EnvelopeContent_SignerInfo C env.
Definition attrs := SignedAttributes_ExtendedAttributes (SignerInfo_SignedAttributes C sinfo).
Definition chain := SignerInfo_CertificateChain C sinfo.
Definition scheme := SignedAttributes_SigningScheme (SignerInfo_SignedAttributes C sinfo).

(* the installed plugin, as the model's [pm], read off the manager's and the plugin's answers *)
Definition pm_of (name : string) : pm :=
  if ptr_is_nil (verifier_pluginManager C PM v) then PMNil else
  let '(t, e) := mget name in
  if negb (is_none e) then PMNotInstalled else
  let '(mp, e') := getmeta (PNew (mk_GetMetadataRequest cfg)) in
  if negb (is_none e') then PMMetaErr else
  match ptr_val mp with
  | None => PMPlugin false false []          (* an empty get-plugin-metadata answer: refused like an invalid version *)
  | Some m => PMPlugin (sv_valid (GetMetadataResponse_Version m))
                       (ver_ge (GetMetadataResponse_Version m) (attr_state hdr_minver attrs))
                       (map cap_of (GetMetadataResponse_Capabilities m))
  end.

(* THE SCENARIO of VerifyCore this call realises *)
Definition the_sc : scenario :=
  mk_sc b_int
        (attr_state hdr_plugin attrs) (attr_state hdr_minver attrs) (minver_valid_of (attr_state hdr_minver attrs))
        (other_of attrs) (nonstring_crit_of attrs)
        (if b_auth then 0 else 3)%N
        (is_none (vids policy ids chain))
        b_exp b_ts b_rev
        (match plugin_res (attr_state hdr_plugin attrs) with XVal name => pm_of name | _ => PMNil end)
        presp_m.

(* outcomes that differ from the incoming one only in the reported results *)
Definition agree (o : notation_go_VerificationOutcome C) : Prop :=
  VerificationOutcome_EnvelopeContent C o = envp
  /\ VerificationOutcome_VerificationLevel C o = VerificationOutcome_VerificationLevel C out0.

Definition VR0 := VerificationOutcome_VerificationResults C out0.

(* the answer of the generated function against the model's (error class, results) *)
Definition good (res : option (notation_go_VerificationOutcome C * option GoLib.err))
                (m : VerifyCore.err * list result) : Prop :=
  exists out e news,
    res = Some (out, e) /\ agree out
    /\ VerificationOutcome_VerificationResults C out = VR0 ++ news
    /\ Forall2 res_is news (snd m) /\ err_rel e (fst m) news.

(* ---------- the hypotheses: every oracle answers like the model of it ---------- *)
Hypothesis H_int : vint sigBlob mt (PNew out0) = (envp, irp).
Hypothesis H_ir : res_is irp (mk_res TIntegrity Enforce (negb b_int)).
Hypothesis H_env : b_int = true -> ptr_val envp = Some env.
Hypothesis H_lv : ptr_val (VerificationOutcome_VerificationLevel C out0) = Some lv.
(* the envelope parser hands on at most one attribute per key (only used for the min-version header) *)
Hypothesis H_once : forall a, In a attrs -> str_key a = Some hdr_minver -> find_attr hdr_minver attrs = Some a.
Hypothesis H_load : load scheme policy stores (verifier_trustStore C PM v) = (certs, le).
Hypothesis H_auth_le : le <> None -> b_auth = false.
Hypothesis H_auth : le = None -> forall o, agree o -> res_is (vauth certs (PNew o)) (mk_res TAuth (l_auth lvl) (negb b_auth)).
Hypothesis H_exp : forall o, agree o -> res_is (vexp (PNew o)) (mk_res TExpiry (l_exp lvl) b_exp).
Hypothesis H_ts : forall o, agree o ->
  res_is (vts policy stores sv (verifier_trustStore C PM v) (verifier_revocationTimestampingValidator C PM v) (PNew o))
         (mk_res TTimestamp (l_ts lvl) (negb b_ts)).
Hypothesis H_rev : rev_ok_of C ast PM v env <-> b_rev = true.
Hypothesis H_cmp : compare_agrees gcmp.
Hypothesis H_rng : compare_range gcmp.
Hypothesis H_vsig : forall req, vsig (PNew req) = (respp, ve).
Hypothesis H_presp : presp_m = PErr <-> negb (is_none ve) || ptr_is_nil respp = true.
Hypothesis H_ppr : forall cs o news rs processed ti rev,
  agree o -> VerificationOutcome_VerificationResults C o = VR0 ++ news -> Forall2 res_is news rs ->
  presp_m = PResp processed ti rev ->
  good (Some (ppr cs respp o)) (process_plugin_response crit_processed lvl the_sc (map cap_of cs) processed ti rev rs).

(* ---------- helper lemmas ---------- *)

Notation LOOP1 := (gen_verifier_verifier_processSignature_loop1 gcmp C subjs getmeta PL mget vsig VP raw load vauth vids vexp vts ast PM ppr up).

Lemma str_key_any_str a :
  snd (any_str "string" (Attribute_Key a)) = match str_key a with Some _ => true | None => false end.
Proof.
  unfold str_key. rewrite any_str_value. destruct (Attribute_Key a) as [|ty k| | | |]; try reflexivity.
  destruct (String.eqb ty "string"); reflexivity.
Qed.

(* loop 1: a critical attribute whose key is not a Go string ends the verification (inconclusive);
   otherwise the loop has no effect *)
Lemma loop1_skip pcs o e name : forall l,
  (nonstring_crit_of l = true ->
     exists f w, LOOP1 pcs o e policy stores v sv name ids cfg l = Some (o, Some (Err inconclusive_typ f w)))
  /\ (nonstring_crit_of l = false ->
     LOOP1 pcs o e policy stores v sv name ids cfg l = LOOP1 pcs o e policy stores v sv name ids cfg []).
Proof.
  (* the [] instance is the whole rest of the function: keep it folded *)
  remember (LOOP1 pcs o e policy stores v sv name ids cfg []) as NIL eqn:EN.
  induction l as [|a l IH]; [split; [discriminate|intros _; symmetry; exact EN]|].
  cbn [nonstring_crit_of existsb]. fold (nonstring_crit_of l).
  cbn [gen_verifier_verifier_processSignature_loop1]. pose proof (str_key_any_str a) as K.
  destruct (any_str "string" (Attribute_Key a)) as [s ok]. cbn [snd] in K. subst ok.
  destruct (str_key a) as [k|]; cbn [negb andb orb]; [exact IH|].
  destruct (Attribute_Critical a); cbn [orb].
  - split; [|discriminate]. intros _. eexists. eexists. reflexivity.
  - exact IH.
Qed.

Notation LOOP2 := (gen_verifier_verifier_processSignature_loop2 C).
Notation LOOP3 := (gen_verifier_verifier_processSignature_loop3 C).
Notation LOOP4 := (gen_verifier_verifier_processSignature_loop4 C).

(* loop 2 (verifier.go:581): any critical attribute ends the verification (inconclusive) *)
Lemma loop2_spec K o : forall l,
  (existsb Attribute_Critical l = true -> exists f w, LOOP2 K o l = Some (o, Some (Err inconclusive_typ f w)))
  /\ (existsb Attribute_Critical l = false -> LOOP2 K o l = K tt).
Proof.
  induction l as [|a l IH]; [split; [discriminate|reflexivity]|].
  cbn [gen_verifier_verifier_processSignature_loop2 existsb].
  destruct (Attribute_Critical a); cbn [orb]; [|exact IH].
  split; [|discriminate]. intros _. eexists. eexists. reflexivity.
Qed.

(* loop 3 (verifier.go:557): the capabilities to verify = all but revocation when the level skips it *)
Definition keep_cap (lv0 : trustpolicy_VerificationLevel) (pc : string) : bool :=
  negb (String.eqb (enf_get lv0 "revocation") "skip" && String.eqb pc cap_rev).

Lemma loop3_spec K o lv0 : ptr_val (VerificationOutcome_VerificationLevel C o) = Some lv0 ->
  forall l acc, LOOP3 K o l acc = K (acc ++ filter (keep_cap lv0) l).
Proof.
  intros HL. induction l as [|pc l IH]; intros acc; [cbn; now rewrite app_nil_r|].
  cbn [gen_verifier_verifier_processSignature_loop3 filter]. rewrite HL. unfold keep_cap at 1. unfold enf_get, cap_rev.
  destruct (String.eqb (map_get_or String.eqb "" "revocation" (VerificationLevel_Enforcement lv0)) "skip" && String.eqb pc "SIGNATURE_VERIFIER.REVOCATION_CHECK");
    cbn [negb]; rewrite IH; [reflexivity|]. now rewrite <- app_assoc.
Qed.

(* loop 4 (verifier.go:476): the verification capabilities of the plugin, in order *)
Definition is_ver_cap (s : string) : bool := String.eqb s cap_rev || String.eqb s cap_ti.

Lemma loop4_spec K : forall l acc, LOOP4 K l acc = K (acc ++ filter is_ver_cap l).
Proof.
  induction l as [|c l IH]; intros acc; [cbn; now rewrite app_nil_r|].
  cbn [gen_verifier_verifier_processSignature_loop4 filter]. cbv zeta. unfold is_ver_cap at 1. unfold cap_rev, cap_ti.
  destruct (String.eqb c "SIGNATURE_VERIFIER.REVOCATION_CHECK" || String.eqb c "SIGNATURE_VERIFIER.TRUSTED_IDENTITY");
    rewrite IH; [|reflexivity]. now rewrite <- app_assoc.
Qed.

Lemma cap_of_rev s : cap_eqb (cap_of s) CapRev = String.eqb s cap_rev.
Proof.
  unfold cap_of. destruct (String.eqb s cap_ti) eqn:E; [apply String.eqb_eq in E; subst s; reflexivity|].
  destruct (String.eqb s cap_rev); reflexivity.
Qed.
Lemma cap_of_ti s : cap_eqb (cap_of s) CapTI = String.eqb s cap_ti.
Proof.
  unfold cap_of. destruct (String.eqb s cap_ti) eqn:E; [reflexivity|].
  destruct (String.eqb s cap_rev); reflexivity.
Qed.

Lemma verification_caps_of l : map cap_of (filter is_ver_cap l) = verification_caps (map cap_of l).
Proof.
  induction l as [|s l IH]; [reflexivity|]. cbn [filter map verification_caps]. fold (verification_caps (map cap_of l)).
  unfold is_ver_cap at 1. unfold cap_of at 2.
  destruct (String.eqb s cap_ti) eqn:T.
  - rewrite orb_true_r. cbn [map]. rewrite IH. unfold cap_of. rewrite T. reflexivity.
  - rewrite orb_false_r. destruct (String.eqb s cap_rev) eqn:R; [cbn [map]; rewrite IH; unfold cap_of; rewrite T, R; reflexivity|exact IH].
Qed.

Lemma caps_to_verify_of lv0 l :
  map cap_of (filter (keep_cap lv0) l) = caps_to_verify (glevel_of lv0) (map cap_of l).
Proof.
  induction l as [|s l IH]; [reflexivity|]. cbn [filter map caps_to_verify]. fold (caps_to_verify (glevel_of lv0) (map cap_of l)).
  unfold keep_cap at 1. cbn [glevel_of l_rev]. rewrite parse_action_skip, cap_of_rev.
  destruct (negb (String.eqb (enf_get lv0 "revocation") "skip" && String.eqb s cap_rev)); [cbn [map]; now rewrite IH|exact IH].
Qed.

Lemma contains_cap_loop s l : gen_slices_Contains_plugin_Capability_loop1 s l = mem_str s l.
Proof.
  induction l as [|a l IH]; [reflexivity|]. cbn [gen_slices_Contains_plugin_Capability_loop1 mem_str existsb]. cbv zeta.
  destruct (String.eqb s a); [reflexivity|exact IH].
Qed.

Lemma has_cap_of c s l : (forall x, cap_eqb (cap_of x) c = String.eqb x s) ->
  has_cap c (map cap_of l) = gen_slices_Contains_plugin_Capability l s.
Proof.
  intros H. unfold gen_slices_Contains_plugin_Capability. rewrite contains_cap_loop. unfold has_cap, mem_str.
  induction l as [|a l IH]; [reflexivity|]. cbn [map existsb]. rewrite IH.
  assert (E : cap_eqb c (cap_of a) = String.eqb s a).
  { rewrite String.eqb_sym, <- H. destruct c, (cap_of a); reflexivity. }
  now rewrite E.
Qed.


Lemma anyv_eqb_str_key a key : anyv_eqb (Attribute_Key a) (GoLib.AStr "string" key) = true <-> str_key a = Some key.
Proof.
  unfold str_key. destruct (Attribute_Key a) as [|ty k| | | |]; cbn [anyv_eqb]; try (split; discriminate).
  rewrite andb_true_iff, !String.eqb_eq. split.
  - intros [-> ->]. reflexivity.
  - destruct (String.eqb ty "string") eqn:T; [|discriminate]. apply String.eqb_eq in T. intros H. injection H as ->. now split.
Qed.

Lemma find_attr_in key l a : In a l -> str_key a = Some key -> find_attr key l <> None.
Proof.
  induction l as [|b l IH]; [intros []|]. intros [->|I] S; cbn [find_attr].
  - apply anyv_eqb_str_key in S. rewrite S. discriminate.
  - destruct (anyv_eqb (Attribute_Key b) (GoLib.AStr "string" key)); [discriminate|now apply IH].
Qed.

Lemma find_attr_some key l x : find_attr key l = Some x -> In x l /\ str_key x = Some key.
Proof.
  induction l as [|b l IH]; [discriminate|]. cbn [find_attr].
  destruct (anyv_eqb (Attribute_Key b) (GoLib.AStr "string" key)) eqn:E.
  - intros H. injection H as ->. split; [left; reflexivity|now apply anyv_eqb_str_key].
  - intros H. destruct (IH H) as [I S]. split; [right; exact I|exact S].
Qed.

(* the last test of processSignature (no plugin named): some attribute is critical *)
Lemma any_critical_of :
  attr_state hdr_plugin attrs = AAbsent -> nonstring_crit_of attrs = false ->
  existsb Attribute_Critical attrs = any_critical_attribute the_sc.
Proof.
  intros HP HN. unfold any_critical_attribute, other_crit, the_sc. cbn [s_other s_minver_attr].
  (* every critical attribute has a string key; it is another attribute or the min-version header *)
  assert (G : forall l, (forall a, In a l -> In a attrs) ->
              existsb Attribute_Critical l
              = match map fst (filter snd (other_of l)) with
                | _ :: _ => true
                | [] => existsb (fun a => Attribute_Critical a && match str_key a with Some k => String.eqb k hdr_minver | None => false end) l
                end).
  { induction l as [|a l IH]; intros Sub; [reflexivity|].
    assert (Ia : In a attrs) by (apply Sub; left; reflexivity).
    specialize (IH (fun x Hx => Sub x (or_intror Hx))).
    cbn [existsb other_of flat_map]. fold (other_of l).
    destruct (str_key a) as [k|] eqn:SK.
    - unfold mem_str. cbn [existsb]. rewrite orb_false_r.
      destruct (String.eqb k hdr_plugin) eqn:EP.
      + (* a plugin header would make the demand present *)
        exfalso. apply String.eqb_eq in EP. subst k. unfold attr_state in HP.
        pose proof (find_attr_in hdr_plugin attrs a Ia SK) as F.
        destruct (find_attr hdr_plugin attrs) as [x|]; [|now elim F].
        destruct (Attribute_Critical x); [|discriminate].
        destruct (Attribute_Value x) as [|ty s| | | |]; try discriminate. destruct (String.eqb ty "string"); discriminate.
      + cbn [orb]. destruct (String.eqb k hdr_minver) eqn:EM.
        * cbn [app]. rewrite IH. rewrite andb_true_r.
          destruct (map fst (filter snd (other_of l))); [reflexivity|now rewrite orb_true_r].
        * cbn [app filter snd]. rewrite andb_false_r. cbn [orb].
          destruct (Attribute_Critical a); cbn [map orb]; [reflexivity|exact IH].
    - (* a non-string key: not critical *)
      assert (NC : Attribute_Critical a = false).
      { unfold nonstring_crit_of in HN. destruct (Attribute_Critical a) eqn:CA; [|reflexivity].
        assert (X : existsb (fun a0 => match str_key a0 with None => Attribute_Critical a0 | Some _ => false end) attrs = true).
        { apply existsb_exists. exists a. split; [exact Ia|]. now rewrite SK. }
        rewrite X in HN. discriminate. }
      rewrite NC. cbn [andb orb app]. exact IH. }
  rewrite (G attrs (fun a H => H)).
  destruct (map fst (filter snd (other_of attrs))); [|reflexivity].
  (* the min-version header: only its first occurrence exists (H_once) *)
  unfold attr_state. destruct (find_attr hdr_minver attrs) as [x|] eqn:FM.
  - pose proof (find_attr_some hdr_minver attrs x FM) as Ix.
    destruct Ix as [Ix Sx].
    transitivity (Attribute_Critical x).
    + destruct (Attribute_Critical x) eqn:CX.
      * apply existsb_exists. exists x. split; [exact Ix|]. rewrite CX, Sx, String.eqb_refl. reflexivity.
      * apply not_true_is_false. intros E. apply existsb_exists in E. destruct E as (y & Iy & Ey).
        apply andb_true_iff in Ey. destruct Ey as [Cy Ky].
        destruct (str_key y) as [k|] eqn:SY; [|discriminate]. apply String.eqb_eq in Ky. subst k.
        pose proof (H_once y Iy SY) as HY. try rewrite FM in HY. injection HY as HY. subst. congruence.
    + destruct (Attribute_Critical x); [|reflexivity].
      destruct (Attribute_Value x) as [|ty s| | | |]; try reflexivity. destruct (String.eqb ty "string"); reflexivity.
  - apply not_true_is_false. intros E. apply existsb_exists in E. destruct E as (y & Iy & Ey).
    apply andb_true_iff in Ey. destruct Ey as [Cy Ky].
    destruct (str_key y) as [k|] eqn:SY; [|discriminate]. apply String.eqb_eq in Ky. subst k.
    pose proof (H_once y Iy SY) as HY. try rewrite FM in HY. discriminate.
Qed.


Lemma good_ret o e news m :
  agree o -> VerificationOutcome_VerificationResults C o = VR0 ++ news ->
  Forall2 res_is news (snd m) -> err_rel e (fst m) news -> good (Some (o, e)) m.
Proof. intros A V F E. exists o, e, news. repeat split; try assumption; apply A. Qed.

Lemma res_is_icf p m r : res_is p m -> ptr_val p = Some r ->
  gen_verifier_isCriticalFailure r = icf (r_action m) (r_failed m)
  /\ vtype_of (ValidationResult_Type r) = Some (r_type m)
  /\ (r_failed m = true -> ValidationResult_Error r <> None)
  /\ (r_failed m = false -> ValidationResult_Error r = None).
Proof.
  intros (r' & P & T & A & F) E. rewrite P in E. injection E as <-.
  rewrite gen_isCriticalFailure_equiv, A, F. split; [reflexivity|]. split; [exact T|].
  unfold vr_failed in F. split; intros H; rewrite H in F; destruct (ValidationResult_Error r'); cbn in F; congruence.
Qed.

Lemma icf_failed a f : icf a f = true -> f = true.
Proof. destruct a; cbn; congruence. Qed.

(* the outcome after the integrity result was appended *)
Definition o1 : notation_go_VerificationOutcome C :=
  set_VerificationOutcome_VerificationResults C
    (VerificationOutcome_VerificationResults C (set_VerificationOutcome_EnvelopeContent C envp out0) ++ [irp])
    (set_VerificationOutcome_EnvelopeContent C envp out0).

Lemma o1_agree : agree o1.
Proof. split; reflexivity. Qed.
Lemma o1_results : VerificationOutcome_VerificationResults C o1 = VR0 ++ [irp].
Proof. reflexivity. Qed.


Definition disc_obs (d : discovery) : VerifyCore.err * list result :=
  match d with
  | DErr e _ => (e, [integ])
  | DNoPlugin => m_auth lvl the_sc false []
  | DPlugin _ c => m_auth lvl the_sc true c
  end.

Lemma blank_nonempty n : blank n = false -> n <> "".
Proof. intros B ->. vm_compute in B. discriminate. Qed.


(* naming a let-bound continuation without inlining it *)
Ltac name_let :=
  lazymatch goal with
  | |- good (let x := ?a in @?b x) ?m =>
      let n := fresh x in remember a as n eqn:?EK; change (good (b n) m); cbv beta
  end.
(* zeta on the model side only *)
Ltac zeta_model :=
  lazymatch goal with |- good ?t ?m => let m' := eval cbv zeta in m in change (good t m') end.
(* substituting a simple let *)
Ltac inline_let :=
  lazymatch goal with
  | |- good (let x := ?a in @?b x) ?m => change (good (b a) m); cbv beta
  end.


(* unfolding equations of the staged model (rewriting with them leaves the generated side alone) *)
Lemma m_auth_eq l s p c :
  m_auth l s p c =
  if icf (l_auth l) (negb (s_auth s =? 0)%N)
  then (EResult TAuth, [integ; mk_res TAuth (l_auth l) (negb (s_auth s =? 0)%N)])
  else if negb (has_cap CapTI c)
       then if icf (l_auth l) (negb (s_auth s =? 0)%N || negb (s_identity_ok s))
            then (EResult TAuth, [integ; mk_res TAuth (l_auth l) (negb (s_auth s =? 0)%N || negb (s_identity_ok s))])
            else m_exp l s p c [integ; mk_res TAuth (l_auth l) (negb (s_auth s =? 0)%N || negb (s_identity_ok s))]
       else m_exp l s p c [integ; mk_res TAuth (l_auth l) (negb (s_auth s =? 0)%N)].
Proof. reflexivity. Qed.
Lemma m_exp_eq l s p c rs1 :
  m_exp l s p c rs1 =
  if icf (l_exp l) (s_expired s) then (EResult TExpiry, rs1 ++ [mk_res TExpiry (l_exp l) (s_expired s)])
  else m_ts l s p c (rs1 ++ [mk_res TExpiry (l_exp l) (s_expired s)]).
Proof. reflexivity. Qed.
Lemma m_ts_eq l s p c rs2 :
  m_ts l s p c rs2 =
  if icf (l_ts l) (negb (s_ts_ok s)) then (EResult TTimestamp, rs2 ++ [mk_res TTimestamp (l_ts l) (negb (s_ts_ok s))])
  else m_rev l s p c (rs2 ++ [mk_res TTimestamp (l_ts l) (negb (s_ts_ok s))]).
Proof. reflexivity. Qed.
Lemma m_rev_eq l s p c rs3 :
  m_rev l s p c rs3 =
  if negb (action_eqb (l_rev l) Skip) && negb (has_cap CapRev c)
  then if icf (l_rev l) (negb (s_rev_ok s)) then (EResult TRev, rs3 ++ [mk_res TRev (l_rev l) (negb (s_rev_ok s))])
       else m_tail l s p c (rs3 ++ [mk_res TRev (l_rev l) (negb (s_rev_ok s))])
  else m_tail l s p c rs3.
Proof. reflexivity. Qed.
Lemma m_tail_eq l s p c rs :
  m_tail l s p c rs =
  match caps_to_verify l c with
  | _ :: _ => match s_presp s with
              | PErr => (EOther, rs)
              | PResp processed ti rev => process_plugin_response crit_processed l s (caps_to_verify l c) processed ti rev rs
              end
  | [] => if negb p && any_critical_attribute s then (EInconclusive, rs) else (ENone, rs)
  end.
Proof. reflexivity. Qed.
Lemma lookup_plugin_eq s name :
  lookup_plugin s name =
  if minver_error s then DErr EInconclusive [] else
  match s_pm s with
  | PMNil => DErr EInconclusive []
  | PMNotInstalled => DErr EInconclusive [name]
  | PMMetaErr => DErr EOther [name]
  | PMPlugin ver_valid ver_ge caps =>
      if negb ver_valid then DErr EInconclusive [name]
      else if negb ver_ge then DErr EInconclusive [name]
      else match verification_caps caps with
           | [] => DErr EInconclusive [name]
           | vc => DPlugin name vc
           end
  end.
Proof. reflexivity. Qed.

Lemma s_auth_f0 : negb (s_auth the_sc =? 0)%N = negb b_auth.
Proof. cbn [the_sc s_auth]. destruct b_auth; reflexivity. Qed.

Lemma agree_env o : agree o -> ptr_val envp = Some env -> ptr_val (VerificationOutcome_EnvelopeContent C o) = Some env.
Proof. intros [A _] H. now rewrite A. Qed.
Lemma agree_lvl o : agree o -> ptr_val (VerificationOutcome_VerificationLevel C o) = Some lv.
Proof. intros [_ A]. now rewrite A. Qed.

(* appending a result keeps the frame *)
Definition push (p : ptr notation_go_ValidationResult) (o : notation_go_VerificationOutcome C) :=
  set_VerificationOutcome_VerificationResults C (VerificationOutcome_VerificationResults C o ++ [p]) o.
Lemma push_agree p o : agree o -> agree (push p o).
Proof. intros [A B]. split; assumption. Qed.
Lemma push_results p o news : VerificationOutcome_VerificationResults C o = VR0 ++ news ->
  VerificationOutcome_VerificationResults C (push p o) = VR0 ++ (news ++ [p]).
Proof. intros V. cbn. rewrite V. now rewrite app_assoc. Qed.

Lemma forall2_snoc news rs p m : Forall2 res_is news rs -> res_is p m -> Forall2 res_is (news ++ [p]) (rs ++ [m]).
Proof. intros F R. apply Forall2_app; [exact F|]. constructor; [exact R|constructor]. Qed.

Lemma err_rel_result news p r t : In p news -> ptr_val p = Some r -> vtype_of (ValidationResult_Type r) = Some t ->
  ValidationResult_Error r <> None -> err_rel (ValidationResult_Error r) (EResult t) news.
Proof. intros I P T N. split; [exact N|]. exists p, r. repeat split; assumption. Qed.

Lemma body_spec e name :
  b_int = true -> ptr_val envp = Some env -> res_is irp integ ->
  nonstring_crit_of attrs = false ->
  (plugin_res (attr_state hdr_plugin attrs) = XAbsent /\ name = "") \/ plugin_res (attr_state hdr_plugin attrs) = XVal name ->
  good (LOOP1 [] o1 e policy stores v sv name ids cfg [])
       (disc_obs (match plugin_res (attr_state hdr_plugin attrs) with XVal n => lookup_plugin the_sc n | _ => DNoPlugin end)).
Proof.
  intros BI HE RI NS HP.
  cbv beta iota fix delta [gen_verifier_verifier_processSignature_loop1].
  inline_let. name_let.
  (* ------------------------------------------------------------------ *)
  (* the native validations and the plugin stage: continuation k'6       *)
  (* ------------------------------------------------------------------ *)
  assert (HK6 : forall pcs ip plugin,
            (plugin = false /\ name = "" /\ pcs = [] /\ ip = PNil) \/ (plugin = true /\ name <> "" /\ exists p, ptr_val ip = Some p) ->
            good (k'6 pcs ip) (m_auth lvl the_sc plugin (map cap_of pcs))).
  { intros pcs ip plugin HPL. subst k'6. cbv beta.
    rewrite (agree_env o1 o1_agree HE).
    change (SignedAttributes_SigningScheme (SignerInfo_SignedAttributes C (EnvelopeContent_SignerInfo C env))) with scheme.
    rewrite H_load. cbv iota beta. inline_let. name_let.
    set (caps := map cap_of pcs).
    (* ---- after the authenticity result exists: k'8 ---- *)
    assert (HK8 : forall o arp, agree o -> VerificationOutcome_VerificationResults C o = VR0 ++ [irp] ->
              res_is arp (mk_res TAuth (l_auth lvl) (negb b_auth)) ->
              good (k'8 o arp) (m_auth lvl the_sc plugin caps)).
    { intros o arp A V RA. subst k'8. cbv beta. inline_let. inline_let. fold (push arp o).
      pose proof RA as (ar & PA & _). rewrite PA. cbv beta iota.
      destruct (res_is_icf arp _ ar RA PA) as (IC & TA & FT & FF). cbn [r_type r_action r_failed] in IC, TA, FT, FF.
      pose proof (push_agree arp o A) as A2. pose proof (push_results arp o [irp] V) as V2. cbn [app] in V2.
      rewrite m_auth_eq, s_auth_f0, IC.
      destruct (icf (l_auth lvl) (negb b_auth)) eqn:C0.
      { apply good_ret with (news := [irp; arp]); [exact A2|exact V2| |].
        - cbn beta iota delta [snd]. constructor; [exact RI|]. constructor; [exact RA|constructor].
        - cbn beta iota delta [fst]. apply err_rel_result with (p := arp); [right; left; reflexivity|exact PA|exact TA|].
          apply FT. exact (icf_failed _ _ C0). }
      name_let.
      (* ---- expiry onwards: k'11 ---- *)
      assert (HK11 : forall o' e' arp' f1, agree o' -> VerificationOutcome_VerificationResults C o' = VR0 ++ [irp; arp'] ->
                res_is arp' (mk_res TAuth (l_auth lvl) f1) ->
                good (k'11 o' e' arp') (m_exp lvl the_sc plugin caps [integ; mk_res TAuth (l_auth lvl) f1])).
      { intros o' e' arp' f1 A' V' RA'. subst k'11. cbv beta. inline_let. inline_let. fold (push (vexp (PNew o')) o').
        pose proof (H_exp o' A') as RE. pose proof RE as (er & PE & _). rewrite PE. cbv beta iota.
        destruct (res_is_icf _ _ er RE PE) as (ICe & TE & FTe & FFe). cbn [r_type r_action r_failed] in ICe, TE, FTe, FFe.
        pose proof (push_agree (vexp (PNew o')) o' A') as A3. pose proof (push_results (vexp (PNew o')) o' _ V') as V3. cbn [app] in V3.
        assert (F3 : Forall2 res_is [irp; arp'; vexp (PNew o')] ([integ; mk_res TAuth (l_auth lvl) f1] ++ [mk_res TExpiry (l_exp lvl) (s_expired the_sc)])).
        { cbn beta iota delta [app]. constructor; [exact RI|]. constructor; [exact RA'|]. constructor; [exact RE|constructor]. }
        rewrite m_exp_eq. change (s_expired the_sc) with b_exp in *. rewrite ICe.
        destruct (icf (l_exp lvl) b_exp) eqn:C2.
        { apply good_ret with (news := [irp; arp'; vexp (PNew o')]); [exact A3|exact V3|exact F3|].
          cbn beta iota delta [fst]. apply err_rel_result with (p := vexp (PNew o')); [right; right; left; reflexivity|exact PE|exact TE|].
          apply FTe. exact (icf_failed _ _ C2). }
        (* timestamp *)
        set (o3 := push (vexp (PNew o')) o') in *.
        inline_let. inline_let.
        set (tsp := vts policy stores sv (verifier_trustStore C PM v) (verifier_revocationTimestampingValidator C PM v) (PNew o3)).
        fold (push tsp o3).
        pose proof (H_ts o3 A3) as RT. fold tsp in RT. pose proof RT as (tr & PT & _). rewrite PT. cbv beta iota.
        destruct (res_is_icf _ _ tr RT PT) as (ICt & TT & FTt & FFt). cbn [r_type r_action r_failed] in ICt, TT, FTt, FFt.
        pose proof (push_agree tsp o3 A3) as A4. pose proof (push_results tsp o3 _ V3) as V4. cbn [app] in V4.
        set (rs2 := [integ; mk_res TAuth (l_auth lvl) f1] ++ [mk_res TExpiry (l_exp lvl) b_exp]) in *.
        assert (F4 : Forall2 res_is [irp; arp'; vexp (PNew o'); tsp] (rs2 ++ [mk_res TTimestamp (l_ts lvl) (negb (s_ts_ok the_sc))])).
        { apply (forall2_snoc [irp; arp'; vexp (PNew o')] rs2 tsp _ F3 RT). }
        rewrite m_ts_eq. change (s_ts_ok the_sc) with b_ts in *. rewrite ICt.
        destruct (icf (l_ts lvl) (negb b_ts)) eqn:C3.
        { apply good_ret with (news := [irp; arp'; vexp (PNew o'); tsp]); [exact A4|exact V4|exact F4|].
          cbn beta iota delta [fst]. apply err_rel_result with (p := tsp); [right; right; right; left; reflexivity|exact PT|exact TT|].
          apply FTt. exact (icf_failed _ _ C3). }
        set (o4 := push tsp o3) in *.
        set (rs3 := rs2 ++ [mk_res TTimestamp (l_ts lvl) (negb b_ts)]) in *.
        name_let.
        (* ---- the plugin stage and the last test: k'14 ---- *)
        assert (HK14 : forall o5 news rs, agree o5 -> VerificationOutcome_VerificationResults C o5 = VR0 ++ news ->
                  Forall2 res_is news rs -> good (k'14 o5) (m_tail lvl the_sc plugin caps rs)).
        { intros o5 news rs A5 V5 F5. subst k'14. cbv beta. name_let.
          assert (HK15 : forall o6 news6 rs6, agree o6 -> VerificationOutcome_VerificationResults C o6 = VR0 ++ news6 ->
                    Forall2 res_is news6 rs6 ->
                    good (k'15 o6) (if negb plugin && any_critical_attribute the_sc then (EInconclusive, rs6) else (ENone, rs6))).
          { intros o6 news6 rs6 A6 V6 F6. subst k'15. cbv beta. name_let.
            assert (G0 : good (k'16 tt) (ENone, rs6)).
            { subst k'16. apply good_ret with (news := news6); [exact A6|exact V6|exact F6|reflexivity]. }
            destruct HPL as [(-> & -> & _ & _)|(-> & NN & _)].
            - (* no plugin named: the last loop *)
              change (String.eqb "" "") with true. cbv beta iota delta [negb andb]. inline_let. rewrite (agree_env o6 A6 HE).
              fold sinfo. fold attrs.
              assert (AB : attr_state hdr_plugin attrs = AAbsent).
              { destruct HP as [[HP _]|HP].
                - unfold plugin_res in HP. destruct (attr_state hdr_plugin attrs) as [| | |n]; cbn in HP; try discriminate; [reflexivity|].
                  destruct (blank n); discriminate.
                - unfold plugin_res in HP. destruct (attr_state hdr_plugin attrs) as [| | |n]; cbn in HP; try discriminate.
                  destruct (blank n) eqn:B; [discriminate|]. injection HP as ->. vm_compute in B. discriminate. }
              rewrite <- (any_critical_of AB NS).
              destruct (loop2_spec (fun _ : unit => k'16 tt) o6 attrs) as [L1 L2].
              destruct (existsb Attribute_Critical attrs).
              + destruct (L1 eq_refl) as (f & w & ->).
                apply good_ret with (news := news6); [exact A6|exact V6|exact F6|]. exists f, w. reflexivity.
              + rewrite (L2 eq_refl). exact G0.
            - (* a plugin was named *)
              apply String.eqb_neq in NN. rewrite NN. cbv beta iota delta [negb andb]. exact G0. }
          destruct HPL as [(-> & -> & -> & ->)|(-> & NN & p & PP)].
          - (* no plugin *)
            cbn beta iota delta [ptr_val]. rewrite m_tail_eq. subst caps. cbn beta iota delta [map caps_to_verify filter]. apply (HK15 o5 news rs A5 V5 F5).
          - rewrite PP. inline_let. name_let. rewrite (loop3_spec k'22 o5 lv (agree_lvl o5 A5)). cbn beta iota delta [app].
            subst k'22. cbv beta. rewrite list_len_pos.
            rewrite m_tail_eq. subst caps. pose proof (caps_to_verify_of lv pcs) as CV. fold lvl in CV. rewrite <- CV.
            destruct (filter (keep_cap lv) pcs) as [|c0 cs0] eqn:FK.
            + cbn beta iota delta [map]. exact (HK15 o5 news rs A5 V5 F5).
            + cbn beta iota delta [map]. rewrite <- FK. set (cs := filter (keep_cap lv) pcs) in *.
              destruct A5 as [A5e A5l]. rewrite A5e.
              destruct (gen_executePlugin_spec C vsig VP raw ip p cs envp env ids cfg PP HE) as (req & out & EX & POST & _).
              rewrite EX. rewrite H_vsig in POST. unfold exec_post in POST. cbn [fst snd] in POST.
              change (s_presp the_sc) with presp_m.
              destruct out as [resp e2].
              destruct (is_none ve && ptr_is_nil respp) eqn:NIL.
              * (* a nil answer *)
                cbn [fst snd] in POST. destruct POST as [-> N2]. destruct e2 as [x2|]; [|now elim N2]. cbn beta iota delta [is_none negb].
                assert (PE' : presp_m = PErr).
                { apply H_presp. apply andb_true_iff in NIL. destruct NIL as [_ ->]. apply orb_true_r. }
                rewrite PE'. apply good_ret with (news := news); [split; assumption|exact V5|exact F5|discriminate].
              * injection POST as -> ->. destruct ve as [x2|] eqn:VE; cbn beta iota delta [is_none negb].
                -- assert (PE' : presp_m = PErr) by (apply H_presp; reflexivity).
                   rewrite PE'. apply good_ret with (news := news); [split; assumption|exact V5|exact F5|discriminate].
                -- cbn [is_none andb] in NIL.
                   destruct presp_m as [|processed ti rev] eqn:PR.
                   { exfalso. destruct H_presp as [H1 _]. specialize (H1 eq_refl). cbn [is_none negb orb] in H1. congruence. }
                   pose proof (H_ppr cs o5 news rs processed ti rev (conj A5e A5l) V5 F5 eq_refl) as G.
                   destruct (ppr cs respp o5) as [o7 e7]. rewrite FK in G. exact G. }
        (* revocation *)
        rewrite (agree_lvl o4 A4). fold (enf_get lv "revocation").
        rewrite m_rev_eq. change (l_rev lvl) with (parse_action (enf_get lv "revocation")). rewrite parse_action_skip.
        subst caps. rewrite (has_cap_of CapRev cap_rev pcs cap_of_rev). fold cap_rev.
        destruct (negb (String.eqb (enf_get lv "revocation") "skip") && negb (gen_slices_Contains_plugin_Capability pcs cap_rev)).
        2:{ exact (HK14 o4 _ rs3 A4 V4 F4). }
        destruct (gen_revocation_stage C subjs ast PM v (PNew o4) o4 env lv b_rev eq_refl (agree_env o4 A4 HE) (agree_lvl o4 A4) H_rev)
          as (rr & ER & TR & AR & FR & ICr).
        rewrite ER. inline_let. inline_let. cbn beta iota delta [ptr_val]. fold (push (PNew rr) o4).
        pose proof (push_agree (PNew rr) o4 A4) as A5. pose proof (push_results (PNew rr) o4 _ V4) as V5. cbn [app] in V5.
        assert (RR : res_is (PNew rr) (mk_res TRev (parse_action (enf_get lv "revocation")) (negb (s_rev_ok the_sc)))).
        { exists rr. cbn beta iota delta [ptr_val r_type r_action r_failed]. repeat split; [rewrite TR; reflexivity|exact AR|exact FR]. }
        pose proof (forall2_snoc _ rs3 (PNew rr) _ F4 RR) as F5.
        rewrite ICr. change (s_rev_ok the_sc) with b_rev in *. change (l_rev (glevel_of lv)) with (parse_action (enf_get lv "revocation")).
        destruct (icf (parse_action (enf_get lv "revocation")) (negb b_rev)) eqn:C4.
        { apply good_ret with (news := [irp; arp'; vexp (PNew o'); tsp] ++ [PNew rr]); [exact A5|exact V5|exact F5|].
          cbn beta iota delta [fst]. apply err_rel_result with (p := PNew rr); [apply in_or_app; right; left; reflexivity|reflexivity|rewrite TR; reflexivity|].
          pose proof (icf_failed _ _ C4) as FB. unfold vr_failed in FR. rewrite FB in FR.
          destruct (ValidationResult_Error rr); [discriminate|discriminate FR]. }
        exact (HK14 (push (PNew rr) o4) _ _ A5 V5 F5). }
      (* trusted identities: natively unless the plugin owns them *)
      subst caps. rewrite (has_cap_of CapTI cap_ti pcs cap_of_ti). fold cap_ti.
      destruct (negb (gen_slices_Contains_plugin_Capability pcs cap_ti)).
      2:{ exact (HK11 (push arp o) le arp (negb b_auth) A2 V2 RA). }
      rewrite (agree_env _ A2 HE). fold sinfo. fold chain. inline_let. name_let.
      assert (HK32 : forall o' arp' f1, agree o' -> VerificationOutcome_VerificationResults C o' = VR0 ++ [irp; arp'] ->
                res_is arp' (mk_res TAuth (l_auth lvl) f1) ->
                good (k'32 o' arp')
                     (if icf (l_auth lvl) f1 then (EResult TAuth, [integ; mk_res TAuth (l_auth lvl) f1])
                      else m_exp lvl the_sc plugin (map cap_of pcs) [integ; mk_res TAuth (l_auth lvl) f1])).
      { intros o' arp' f1 A' V' RA'. subst k'32. cbv beta.
        pose proof RA' as (ar' & PA' & _). rewrite PA'. cbv beta iota.
        destruct (res_is_icf arp' _ ar' RA' PA') as (IC' & TA' & FT' & FF'). cbn [r_type r_action r_failed] in IC', TA', FT', FF'.
        rewrite IC'. destruct (icf (l_auth lvl) f1) eqn:C1.
        - apply good_ret with (news := [irp; arp']); [exact A'|exact V'| |].
          + cbn beta iota delta [snd]. constructor; [exact RI|]. constructor; [exact RA'|constructor].
          + cbn beta iota delta [fst]. apply err_rel_result with (p := arp'); [right; left; reflexivity|exact PA'|exact TA'|].
            apply FT'. exact (icf_failed _ _ C1).
        - exact (HK11 o' _ arp' f1 A' V' RA'). }
      change (s_identity_ok the_sc) with (is_none (vids policy ids chain)).
      destruct (vids policy ids chain) as [ie|] eqn:VI; cbn beta iota delta [is_none negb].
      - (* the identity check failed: the error replaces the one of the authenticity result *)
        rewrite orb_true_r. inline_let. inline_let. inline_let.
        set (arp2 := PNew (set_ValidationResult_Error (Some ie) ar)).
        assert (LS : list_set (list_len (VerificationOutcome_VerificationResults C o)) arp2
                              (VerificationOutcome_VerificationResults C (push arp o))
                     = VerificationOutcome_VerificationResults C o ++ [arp2]) by apply list_set_app_last.
        rewrite LS. fold (push arp2 o).
        apply (HK32 (push arp2 o) arp2 true (push_agree arp2 o A)).
        + pose proof (push_results arp2 o [irp] V) as V2'. exact V2'.
        + exists (set_ValidationResult_Error (Some ie) ar). cbn beta iota delta [ptr_val r_type r_action r_failed].
          destruct RA as (ar0 & PA0 & T0 & A0 & _). rewrite PA in PA0. injection PA0 as <-.
          repeat split; [exact T0|exact A0].
      - rewrite orb_false_r. exact (HK32 (push arp o) arp (negb b_auth) A2 V2 RA). }
    (* the authenticity result *)
    destruct le as [lerr|] eqn:LE; cbn beta iota delta [is_none negb].
    - rewrite (agree_lvl o1 o1_agree). inline_let. fold (enf_get lv "authenticity").
      apply (HK8 o1 _ o1_agree o1_results).
      rewrite (H_auth_le ltac:(discriminate)). eexists. cbn beta iota delta [ptr_val r_type r_action r_failed]. repeat split; reflexivity.
    - inline_let. apply (HK8 o1 _ o1_agree o1_results). exact (H_auth eq_refl o1 o1_agree). }
  (* ------------------------------------------------------------------ *)
  (* discovery of the plugin                                             *)
  (* ------------------------------------------------------------------ *)
  assert (GI : forall e0, e0 <> None -> good (Some (o1, e0)) (EOther, [integ])).
  { intros e0 N. apply good_ret with (news := [irp]); [exact o1_agree|exact o1_results| |exact N].
    constructor; [exact RI|constructor]. }
  assert (GN : forall f w, good (Some (o1, Some (Err inconclusive_typ f w))) (EInconclusive, [integ])).
  { intros f w. apply good_ret with (news := [irp]); [exact o1_agree|exact o1_results| |].
    - constructor; [exact RI|constructor].
    - exists f, w. reflexivity. }
  destruct HP as [[HP ->]|HP].
  { rewrite HP. cbn beta iota delta [String.eqb negb disc_obs]. apply (HK6 [] PNil false). left. repeat split. }
  rewrite HP.
  assert (HA : attr_state hdr_plugin attrs = VerifyCore.AStr name /\ blank name = false).
  { unfold plugin_res in HP. destruct (attr_state hdr_plugin attrs) as [| | |n]; cbn in HP; try discriminate.
    destruct (blank n) eqn:B; [discriminate|]. injection HP as ->. split; [reflexivity|exact B]. }
  destruct HA as [HA BN]. pose proof (blank_nonempty name BN) as NN.
  assert (NE : String.eqb name "" = false) by (now apply String.eqb_neq).
  rewrite NE. cbn beta iota delta [negb].
  rewrite (agree_env o1 o1_agree HE). fold sinfo.
  rewrite lookup_plugin_eq. rewrite (minver_error_by_minver_res the_sc eq_refl).
  change (s_minver_attr the_sc) with (attr_state hdr_minver attrs).
  destruct (gen_getVerificationPluginMinVersion_equiv C sinfo) as [M1 M2]. fold attrs in M1.
  destruct (gen_verifier_getVerificationPluginMinVersion C sinfo) as [mv me]. unfold xres_of in M1. cbn [fst snd] in M1, M2.
  assert (MV : (negb (is_none me) && negb (err_same me verifier_errExtendedAttributeNotExist) = true
                /\ minver_res (attr_state hdr_minver attrs) = XErr)
               \/ (negb (is_none me) && negb (err_same me verifier_errExtendedAttributeNotExist) = false
                   /\ minver_res (attr_state hdr_minver attrs) <> XErr
                   /\ mv = minver_string (attr_state hdr_minver attrs)
                   /\ match attr_state hdr_minver attrs with VerifyCore.AStr m => sv_valid m = true | AAbsent => True | _ => False end)).
  { destruct me as [x|]; cbn beta iota delta [is_none negb andb].
    - destruct (err_same (Some x) verifier_errExtendedAttributeNotExist); cbn beta iota delta [negb].
      + right. split; [reflexivity|]. rewrite <- M1. split; [discriminate|].
        rewrite (M2 ltac:(discriminate)). unfold minver_res in M1.
        destruct (attr_state hdr_minver attrs) as [| | |m]; cbn in M1; try discriminate; [split; [reflexivity|exact I]|].
        destruct (blank m || negb (sv_valid m)); discriminate.
      + left. split; [reflexivity|]. now rewrite <- M1.
    - right. split; [reflexivity|]. rewrite <- M1. split; [discriminate|].
      unfold minver_res in M1. destruct (attr_state hdr_minver attrs) as [| | |m]; cbn in M1; try discriminate.
      destruct (blank m || negb (sv_valid m)) eqn:B; [discriminate|]. injection M1 as ->.
      split; [reflexivity|]. apply orb_false_iff in B. destruct B as [_ B]. now apply negb_false_iff in B. }
  destruct MV as [[-> ->]|(-> & MR & -> & MOK)].
  { cbn beta iota delta [disc_obs]. apply GN. }
  assert (ME : match minver_res (attr_state hdr_minver attrs) with XErr => true | _ => false end = false)
    by (destruct (minver_res (attr_state hdr_minver attrs)); [reflexivity|now elim MR|reflexivity]).
  rewrite ME.
  change (s_pm the_sc) with (match plugin_res (attr_state hdr_plugin attrs) with XVal name0 => pm_of name0 | _ => PMNil end).
  rewrite HP. unfold pm_of.
  destruct (ptr_is_nil (verifier_pluginManager C PM v)) eqn:PN.
  { cbn beta iota delta [disc_obs]. apply GN. }
  rewrite ptr_is_nil_val in PN. destruct (ptr_val (verifier_pluginManager C PM v)) as [mgr|]; [|discriminate PN].
  destruct (mget name) as [t e0].
  destruct e0 as [x0|]; cbn beta iota delta [is_none negb].
  { cbn beta iota delta [disc_obs]. apply GN. }
  cbn beta iota delta [ptr_val].
  destruct (getmeta (PNew (mk_GetMetadataRequest cfg))) as [mp e1].
  destruct e1 as [x1|]; cbn beta iota delta [is_none negb].
  { cbn beta iota delta [disc_obs]. apply GI. discriminate. }
  destruct (ptr_val mp) as [m|].
  2:{ cbn beta iota delta [negb disc_obs]. apply GN. }
  rewrite gen_IsValid_equiv.
  destruct (sv_valid (GetMetadataResponse_Version m)) eqn:VV; cbn beta iota delta [negb].
  2:{ cbn beta iota delta [disc_obs]. apply GN. }
  rewrite (gen_isRequired_equiv gcmp H_cmp H_rng _ (attr_state hdr_minver attrs) VV MOK).
  destruct (ver_ge (GetMetadataResponse_Version m) (attr_state hdr_minver attrs)); cbn beta iota delta [negb].
  2:{ cbn beta iota delta [disc_obs]. apply GN. }
  rewrite loop4_spec. cbn beta iota delta [app]. rewrite list_len_zero.
  rewrite <- verification_caps_of.
  destruct (filter is_ver_cap (GetMetadataResponse_Capabilities m)) as [|c0 cs0] eqn:FC.
  { cbn beta iota delta [map disc_obs]. apply GN. }
  rewrite <- FC. set (pcs := filter is_ver_cap (GetMetadataResponse_Capabilities m)) in *.
  assert (DP : disc_obs (match map cap_of pcs with [] => DErr EInconclusive [name] | c :: l => DPlugin name (c :: l) end)
               = m_auth lvl the_sc true (map cap_of pcs)).
  { rewrite FC. reflexivity. }
  rewrite DP. apply (HK6 pcs (PNew (up t)) true). right. split; [reflexivity|]. split; [exact NN|]. eexists. reflexivity.
Qed.

Theorem gen_processSignature_equiv :
  good (PS v sigBlob mt policy ids stores sv cfg out0) (ps_obs lvl the_sc).

Proof.
  unfold gen_verifier_verifier_processSignature. rewrite H_int. fold o1.
  pose proof H_ir as (ir & PI & TI & AI & FI). rewrite PI. cbn [r_type r_action r_failed] in PI, TI, AI, FI.
  unfold ps_obs. cbn [s_integrity_ok the_sc].
  assert (EI : negb (is_none (ValidationResult_Error ir)) = negb b_int) by exact FI.
  rewrite EI. assert (BI : b_int = true \/ b_int = false) by (destruct b_int; tauto).
  destruct BI as [BI|BI]; rewrite BI in EI, FI |- *; cbn [negb].
  2:{ (* integrity failed *)
    apply good_ret with (news := [irp]); [exact o1_agree|exact o1_results| |].
    - cbn. constructor; [|constructor]. exists ir. repeat split; assumption.
    - cbn. split.
      + destruct (ValidationResult_Error ir); [discriminate|discriminate EI].
      + exists irp, ir. repeat split; try assumption. left; reflexivity. }
  pose proof (H_env BI) as HE.
  assert (E1 : ptr_val (VerificationOutcome_EnvelopeContent C o1) = Some env) by exact HE.
  rewrite E1.
  assert (RI : res_is irp integ) by (exists ir; repeat split; assumption).
  assert (GI : forall e0, e0 <> None -> good (Some (o1, e0)) (EOther, [integ])).
  { intros e0 N. apply good_ret with (news := [irp]); [exact o1_agree|exact o1_results| |exact N].
    constructor; [exact RI|constructor]. }
  assert (GN : forall f w, good (Some (o1, Some (Err inconclusive_typ f w))) (EInconclusive, [integ])).
  { intros f w. apply good_ret with (news := [irp]); [exact o1_agree|exact o1_results| |].
    - constructor; [exact RI|constructor].
    - exists f, w. reflexivity. }
  fold (disc_obs (discover the_sc)). rewrite discover_by_plugin_res.
  change (s_plugin_attr the_sc) with (attr_state hdr_plugin attrs).
  change (s_nonstring_crit the_sc) with (nonstring_crit_of attrs).
  destruct (gen_getVerificationPlugin_equiv C (EnvelopeContent_SignerInfo C env)) as [X1 X2].
  fold sinfo in X1, X2 |- *. fold attrs in X1 |- *.
  destruct (gen_verifier_getVerificationPlugin C sinfo) as [name e]. unfold xres_of in X1. cbn [fst snd] in X1, X2.
  destruct (loop1_skip [] o1 e name attrs) as [LS1 LS2].
  destruct e as [x|]; cbn [is_none negb andb].
  - destruct (err_same (Some x) verifier_errExtendedAttributeNotExist) eqn:SM; cbn [negb]; rewrite <- X1.
    + (* the header is absent *)
      rewrite (X2 ltac:(discriminate)) in *.
      destruct (nonstring_crit_of attrs) eqn:NS.
      * destruct (LS1 eq_refl) as (f & w & ->). apply GN.
      * rewrite (LS2 eq_refl).
        pose proof (body_spec (Some x) "" BI HE RI NS) as B. rewrite <- X1 in B. apply B. left. split; reflexivity.
    + apply GI. discriminate.
  - rewrite <- X1.
    destruct (nonstring_crit_of attrs) eqn:NS.
    * destruct (LS1 eq_refl) as (f & w & ->). apply GN.
    * rewrite (LS2 eq_refl).
      pose proof (body_spec None name BI HE RI NS) as B. rewrite <- X1 in B. apply B. right. reflexivity.
Qed.

End PS.

(* ====================================================================== *)
(* Part C. the theorem in packaged form, and what it transports            *)
(* ====================================================================== *)

(* the oracles of the generated function *)
Record oracles := mk_oracles {
  or_cmp : string -> string -> Z;                               (* golang.org/x/mod/semver.Compare *)
  or_C : Type;                                                  (* *x509.Certificate *)
  or_subject : or_C -> string;                                  (* cert.Subject.String() *)
  or_getmeta : ptr plugin_GetMetadataRequest -> ptr plugin_GetMetadataResponse * option GoLib.err;  (* plugin: get-plugin-metadata *)
  or_PL : Type;                                                 (* plugin.Plugin *)
  or_get : string -> or_PL * option GoLib.err;                  (* pluginManager.Get *)
  or_vsig : ptr plugin_VerifySignatureRequest -> ptr plugin_VerifySignatureResponse * option GoLib.err; (* plugin: verify-signature *)
  or_VP : Type;                                                 (* plugin.VerifyPlugin *)
  or_raw : or_C -> list Z;                                      (* cert.Raw *)
  or_integrity : list Z -> string -> ptr (notation_go_VerificationOutcome or_C)
                 -> ptr (signature_EnvelopeContent or_C) * ptr notation_go_ValidationResult;         (* verifyIntegrity *)
  or_load : string -> string -> list string -> (string -> string -> list or_C * option GoLib.err)
            -> list or_C * option GoLib.err;                    (* loadX509TrustStores *)
  or_authenticity : list or_C -> ptr (notation_go_VerificationOutcome or_C) -> ptr notation_go_ValidationResult; (* verifyAuthenticity *)
  or_identities : string -> list string -> list or_C -> option GoLib.err;                           (* verifyX509TrustedIdentities *)
  or_expiry : ptr (notation_go_VerificationOutcome or_C) -> ptr notation_go_ValidationResult;        (* verifyExpiry *)
  or_timestamp : string -> list string -> trustpolicy_SignatureVerification
                 -> (string -> string -> list or_C * option GoLib.err)
                 -> ptr (revocation_ValidateContextOptions or_C -> list (ptr result_CertRevocationResult) * option GoLib.err)
                 -> ptr (notation_go_VerificationOutcome or_C) -> ptr notation_go_ValidationResult;  (* verifyAuthenticTimestamp *)
  or_signing_time : ptr (signature_SignerInfo or_C) -> Z * option GoLib.err;                         (* SignerInfo.AuthenticSigningTime *)
  or_PM : Type;                                                 (* plugin.Manager *)
  or_ppr : list string -> ptr plugin_VerifySignatureResponse -> notation_go_VerificationOutcome or_C
           -> notation_go_VerificationOutcome or_C * option GoLib.err;                               (* processPluginResponse *)
  or_up : or_PL -> or_VP }.                                     (* the Plugin used as a VerifyPlugin *)

(* the arguments of one call *)
Record call (O : oracles) := mk_call {
  cl_v : verifier_verifier (or_C O) (or_PM O);
  cl_sig : list Z; cl_media : string; cl_policy : string;
  cl_identities : list string; cl_stores : list string;
  cl_sv : trustpolicy_SignatureVerification;
  cl_config : list (string * string);
  cl_outcome : notation_go_VerificationOutcome (or_C O) }.
Arguments cl_v {O}. Arguments cl_sig {O}. Arguments cl_media {O}. Arguments cl_policy {O}.
Arguments cl_identities {O}. Arguments cl_stores {O}. Arguments cl_sv {O}. Arguments cl_config {O}.
Arguments cl_outcome {O}.

(* what the oracles answered during it, and the native facts *)
Record facts (O : oracles) := mk_facts {
  ft_envp : ptr (signature_EnvelopeContent (or_C O));   (* verifyIntegrity: the envelope content *)
  ft_irp : ptr notation_go_ValidationResult;            (* verifyIntegrity: the integrity result *)
  ft_env : signature_EnvelopeContent (or_C O);
  ft_level : trustpolicy_VerificationLevel;             (* outcome.VerificationLevel *)
  ft_certs : list (or_C O); ft_load_err : option GoLib.err;   (* loadX509TrustStores *)
  ft_integrity_ok : bool; ft_authentic : bool; ft_expired : bool; ft_ts_ok : bool; ft_rev_ok : bool;
  ft_resp : ptr plugin_VerifySignatureResponse; ft_resp_err : option GoLib.err;   (* the plugin's verify-signature answer *)
  ft_presp : presp }.
Arguments ft_envp {O}. Arguments ft_irp {O}. Arguments ft_env {O}. Arguments ft_level {O}. Arguments ft_certs {O}.
Arguments ft_load_err {O}. Arguments ft_integrity_ok {O}. Arguments ft_authentic {O}. Arguments ft_expired {O}.
Arguments ft_ts_ok {O}. Arguments ft_rev_ok {O}. Arguments ft_resp {O}. Arguments ft_resp_err {O}. Arguments ft_presp {O}.

(* the generated function on these *)
Definition run (O : oracles) (K : call O) : option (notation_go_VerificationOutcome (or_C O) * option GoLib.err) :=
  gen_verifier_verifier_processSignature (or_cmp O) (or_C O) (or_subject O) (or_getmeta O) (or_PL O) (or_get O) (or_vsig O)
    (or_VP O) (or_raw O) (or_integrity O) (or_load O) (or_authenticity O) (or_identities O) (or_expiry O) (or_timestamp O)
    (or_signing_time O) (or_PM O) (or_ppr O) (or_up O)
    (cl_v K) (cl_sig K) (cl_media K) (cl_policy K) (cl_identities K) (cl_stores K) (cl_sv K) (cl_config K) (cl_outcome K).

(* the scenario of VerifyCore and the enforcement map this call realises *)
Definition scenario_of (O : oracles) (K : call O) (F : facts O) : scenario :=
  the_sc (or_C O) (or_getmeta O) (or_PL O) (or_get O) (or_identities O) (or_PM O) (cl_v K) (cl_policy K) (cl_identities K)
         (cl_config K) (ft_env F) (ft_integrity_ok F) (ft_authentic F) (ft_expired F) (ft_ts_ok F) (ft_rev_ok F) (ft_presp F).
Definition level_of_call (O : oracles) (F : facts O) : level := lvl (ft_level F).

Definition agrees (O : oracles) (K : call O) (F : facts O) := agree (or_C O) (cl_outcome K) (ft_envp F).
Definition matches_model (O : oracles) (K : call O) (F : facts O) := good (or_C O) (cl_outcome K) (ft_envp F).

(* "every oracle answers like the model of it" *)
Definition Describes (O : oracles) (K : call O) (F : facts O) : Prop :=
  let l := level_of_call O F in
  (* verifyIntegrity *)
  or_integrity O (cl_sig K) (cl_media K) (PNew (cl_outcome K)) = (ft_envp F, ft_irp F)
  /\ res_is (ft_irp F) (mk_res TIntegrity Enforce (negb (ft_integrity_ok F)))
  /\ (ft_integrity_ok F = true -> ptr_val (ft_envp F) = Some (ft_env F))
  (* the level handed in *)
  /\ ptr_val (VerificationOutcome_VerificationLevel (or_C O) (cl_outcome K)) = Some (ft_level F)
  (* at most one min-version header *)
  /\ (forall a, In a (attrs (or_C O) (ft_env F)) -> str_key a = Some hdr_minver ->
                find_attr hdr_minver (attrs (or_C O) (ft_env F)) = Some a)
  (* trust store based authenticity *)
  /\ or_load O (scheme (or_C O) (ft_env F)) (cl_policy K) (cl_stores K) (verifier_trustStore (or_C O) (or_PM O) (cl_v K))
     = (ft_certs F, ft_load_err F)
  /\ (ft_load_err F <> None -> ft_authentic F = false)
  /\ (ft_load_err F = None -> forall o, agrees O K F o ->
        res_is (or_authenticity O (ft_certs F) (PNew o)) (mk_res TAuth (l_auth l) (negb (ft_authentic F))))
  (* expiry, authentic timestamp *)
  /\ (forall o, agrees O K F o -> res_is (or_expiry O (PNew o)) (mk_res TExpiry (l_exp l) (ft_expired F)))
  /\ (forall o, agrees O K F o ->
        res_is (or_timestamp O (cl_policy K) (cl_stores K) (cl_sv K) (verifier_trustStore (or_C O) (or_PM O) (cl_v K))
                             (verifier_revocationTimestampingValidator (or_C O) (or_PM O) (cl_v K)) (PNew o))
               (mk_res TTimestamp (l_ts l) (negb (ft_ts_ok F))))
  (* the revocation validator (through the translated verifyRevocation) *)
  /\ (rev_ok_of (or_C O) (or_signing_time O) (or_PM O) (cl_v K) (ft_env F) <-> ft_rev_ok F = true)
  (* x/mod/semver.Compare *)
  /\ compare_agrees (or_cmp O) /\ compare_range (or_cmp O)
  (* the plugin's verify-signature answer (through the translated executePlugin) *)
  /\ (forall req, or_vsig O (PNew req) = (ft_resp F, ft_resp_err F))
  /\ (ft_presp F = PErr <-> negb (is_none (ft_resp_err F)) || ptr_is_nil (ft_resp F) = true)
  (* processPluginResponse *)
  /\ (forall cs o news rs processed ti rev,
        agrees O K F o ->
        VerificationOutcome_VerificationResults (or_C O) o = VR0 (or_C O) (cl_outcome K) ++ news ->
        Forall2 res_is news rs -> ft_presp F = PResp processed ti rev ->
        matches_model O K F (Some (or_ppr O cs (ft_resp F) o))
          (process_plugin_response crit_processed l (scenario_of O K F) (map cap_of cs) processed ti rev rs)).

(* THE THEOREM: the generated processSignature is the model *)
Theorem gen_processSignature_is_model (O : oracles) (K : call O) (F : facts O) :
  Describes O K F ->
  matches_model O K F (run O K) (obs2 (process_signature (level_of_call O F) (scenario_of O K F))).
Proof.
  intros (H1 & H2 & H3 & H4 & H5 & H6 & H7 & H8 & H9 & H10 & H11 & H12 & H13 & H14 & H15 & H16).
  rewrite ps_obs_correct. unfold matches_model, run, level_of_call, scenario_of.
  apply (gen_processSignature_equiv (or_cmp O) (or_C O) (or_subject O) (or_getmeta O) (or_PL O) (or_get O) (or_vsig O)
           (or_VP O) (or_raw O) (or_integrity O) (or_load O) (or_authenticity O) (or_identities O) (or_expiry O)
           (or_timestamp O) (or_signing_time O) (or_PM O) (or_ppr O) (or_up O)
           (cl_v K) (cl_sig K) (cl_media K) (cl_policy K) (cl_identities K) (cl_stores K) (cl_sv K) (cl_config K) (cl_outcome K)
           (ft_envp F) (ft_irp F) (ft_env F) (ft_level F) (ft_certs F) (ft_load_err F)
           (ft_integrity_ok F) (ft_authentic F) (ft_expired F) (ft_ts_ok F) (ft_rev_ok F) (ft_resp F) (ft_resp_err F) (ft_presp F));
    assumption.
Qed.

(* unpacked: the function returns; what it appended to outcome.VerificationResults are the model's
   results (type, action read as the code reads it, failed = Error is not nil) in order; the error
   it returns has the model's class; nothing else of the outcome changes but EnvelopeContent *)
Corollary gen_processSignature_returns (O : oracles) (K : call O) (F : facts O) :
  Describes O K F ->
  let ob := process_signature (level_of_call O F) (scenario_of O K F) in
  exists out e news,
    run O K = Some (out, e)
    /\ VerificationOutcome_VerificationResults (or_C O) out
       = VerificationOutcome_VerificationResults (or_C O) (cl_outcome K) ++ news
    /\ Forall2 res_is news (o_results ob)
    /\ err_rel e (o_err ob) news
    /\ VerificationOutcome_EnvelopeContent (or_C O) out = ft_envp F
    /\ VerificationOutcome_VerificationLevel (or_C O) out = VerificationOutcome_VerificationLevel (or_C O) (cl_outcome K)
    /\ (e = None <-> accepted ob = true).
Proof.
  intros D ob. destruct (gen_processSignature_is_model O K F D) as (out & e & news & R & [A1 A2] & V & F2 & E).
  exists out, e, news. cbn [obs2 fst snd] in F2, E. fold ob in F2, E.
  repeat split; try assumption.
  - unfold accepted. destruct (o_err ob); cbn in E |- *; intros; subst; try reflexivity; try discriminate.
    + destruct E as [E _]. now elim E.
    + destruct E as (f & w & E). discriminate.
    + now elim E.
  - unfold accepted. destruct (o_err ob); cbn in E |- *; try discriminate. intros _. exact E.
Qed.

(* transported C02_exact_all: the code's own processSignature returns an error EXACTLY WHEN integrity
   failed, or a validation whose action is enforce failed, or one of the plugin / attribute reasons
   holds (C02_problem_parts spells them out) *)
Corollary gen_processSignature_rejects_iff (O : oracles) (K : call O) (F : facts O) :
  Describes O K F ->
  let l := level_of_call O F in let sc := scenario_of O K F in
  exists out e, run O K = Some (out, e)
    /\ (e <> None <->
        s_integrity_ok sc = false \/ enforced_failure l sc = true \/ plugin_or_attribute_problem l sc = true).
Proof.
  intros D l sc. destruct (gen_processSignature_returns O K F D) as (out & e & news & R & _ & _ & _ & _ & _ & A).
  exists out, e. split; [exact R|]. fold l sc in A.
  rewrite <- (exact_all_iff l sc). unfold verify_core.
  destruct (accepted (process_signature l sc)); split; intros H.
  - elim H. now apply A.
  - discriminate.
  - reflexivity.
  - intros N. apply A in N. discriminate.
Qed.

(* transported C02_monotone_all: two calls that differ only in the enforcement map handed in
   (same scenario), the second map pointwise no stricter: accepted by the first => accepted by the second *)
Corollary gen_processSignature_monotone (O : oracles) (K1 K2 : call O) (F1 F2 : facts O) :
  Describes O K1 F1 -> Describes O K2 F2 ->
  scenario_of O K1 F1 = scenario_of O K2 F2 ->
  level_le (level_of_call O F1) (level_of_call O F2) = true ->
  forall out1 out2 e2, run O K1 = Some (out1, None) -> run O K2 = Some (out2, e2) -> e2 = None.
Proof.
  intros D1 D2 ES LE out1 out2 e2 R1 R2.
  destruct (gen_processSignature_returns O K1 F1 D1) as (o1' & e1' & n1 & R1' & _ & _ & _ & _ & _ & A1).
  destruct (gen_processSignature_returns O K2 F2 D2) as (o2' & e2' & n2 & R2' & _ & _ & _ & _ & _ & A2).
  rewrite R1 in R1'. injection R1' as <- <-. rewrite R2 in R2'. injection R2' as <- <-.
  apply A2. rewrite <- ES. apply (monotone_all (level_of_call O F1) (level_of_call O F2) _ LE). now apply A1.
Qed.

(* ---------- non-vacuity: an instance of [Describes] ---------- *)
Definition ex_cmp (a b : string) : Z :=
  match a, b with
  | String _ a', String _ b' => match xcompare (bytes a') (bytes b') with Lt => (-1)%Z | Eq => 0%Z | Gt => 1%Z end
  | _, _ => 0%Z
  end.

Definition ex_vr (t : string) (e : option GoLib.err) := PNew (mk_ValidationResult t "enforce" e).
Definition ex_env : signature_EnvelopeContent unit :=
  mk_EnvelopeContent unit
    (mk_SignerInfo unit (mk_SignedAttributes "notary.x509" 0%Z 0%Z
         [mk_Attribute (GoLib.AStr "string" "note") false (GoLib.AStr "string" "x")])
       (mk_UnsignedAttributes [] "") 0%Z [tt] [])
    (mk_Payload "application/vnd.cncf.notary.payload.v1+json" []).

Definition ex_O : oracles :=
  mk_oracles ex_cmp unit (fun _ => "CN=leaf") (fun _ => (PNil, None)) unit (fun _ => (tt, None)) (fun _ => (PNil, None)) unit
    (fun _ => [])
    (fun _ _ _ => (PNew ex_env, ex_vr "integrity" None))
    (fun _ _ _ _ => ([tt], None))
    (fun _ _ => ex_vr "authenticity" None)
    (fun _ _ _ => None)
    (fun _ => PNew (mk_ValidationResult "expiry" "log" (Some (Err "fmt" "digital signature has expired on %q" []))))
    (fun _ _ _ _ _ _ => PNew (mk_ValidationResult "authenticTimestamp" "log" None))
    (fun _ => (0%Z, None)) unit
    (fun _ _ o => (o, None)) (fun _ => tt).

Definition ex_out0 : notation_go_VerificationOutcome unit :=
  mk_VerificationOutcome unit [] PNil trustpolicy_LevelPermissive [] None.
Definition ex_K : call ex_O :=
  mk_call ex_O (mk_verifier unit unit PNil PNil (fun _ _ => ([tt], None)) PNil PNil PNil PNil)
          [] "application/jose+json" "policy" ["x509.subject: CN=leaf"] ["ca:s"]
          (mk_SignatureVerification "permissive" [] "") [] ex_out0.
Definition ex_F : facts ex_O :=
  mk_facts ex_O (PNew ex_env) (ex_vr "integrity" None) ex_env trustpolicy_LevelPermissive_v [tt] None
           true true true true false PNil None PErr.

Lemma ex_cmp_agrees : compare_agrees ex_cmp.
Proof.
  intros v w _ _. unfold ex_cmp, sign_of. cbn [String.append].
  destruct (xcompare (bytes v) (bytes w)); reflexivity.
Qed.
Lemma ex_cmp_range : compare_range ex_cmp.
Proof.
  intros a b. unfold ex_cmp. destruct a as [|? a']; [tauto|]. destruct b as [|? b']; [tauto|].
  destruct (xcompare (bytes a') (bytes b')); tauto.
Qed.

Lemma ex_describes : Describes ex_O ex_K ex_F.
Proof.
  unfold Describes. cbv zeta.
  split; [reflexivity|]. split; [eexists; repeat split; reflexivity|]. split; [reflexivity|]. split; [reflexivity|].
  split. { intros a [<-|[]] H. vm_compute in H. discriminate. }
  split; [reflexivity|]. split; [intros H; now elim H|].
  split. { intros _ o _. eexists. repeat split; reflexivity. }
  split. { intros o _. eexists. repeat split; reflexivity. }
  split. { intros o _. eexists. repeat split; reflexivity. }
  split. { split; [|discriminate]. intros (rs & H & _). discriminate. }
  split; [exact ex_cmp_agrees|]. split; [exact ex_cmp_range|].
  split; [reflexivity|]. split; [split; reflexivity|].
  intros cs o news rs processed ti rev _ _ _ H. discriminate.
Qed.

(* the hypotheses are satisfiable, and on this instance the generated function can also be run: an
   expired signature under the permissive level, no revocation validator configured: accepted with the
   two failures reported (expiry, revocation), as the model says *)
Example gen_processSignature_example :
  Describes ex_O ex_K ex_F
  /\ (exists out, run ex_O ex_K = Some (out, None)
                  /\ List.length (VerificationOutcome_VerificationResults unit out) = 5%nat)
  /\ verify_core (level_of_call ex_O ex_F) (scenario_of ex_O ex_K ex_F)
     = mk_obs ENone [mk_res TIntegrity Enforce false; mk_res TAuth Enforce false; mk_res TExpiry Log true;
                     mk_res TTimestamp Log false; mk_res TRev Log true] true [] None.
Proof.
  split; [exact ex_describes|]. split.
  - eexists. split; vm_compute; reflexivity.
  - vm_compute. reflexivity.
Qed.
