(* C14_Free.v — the oracle of the free-running cases accepts every API-level history
   that a run of the directory semantics can produce (Part 3 of C14_Model). *)
From NV Require Import Base Generated C14_Model C14_Proofs.
Open Scope string_scope.
Open Scope list_scope.
Open Scope nat_scope.

Lemma get_cons : forall {K V} (eqb : K -> K -> bool) k k' (v : V) m,
  get eqb k ((k', v) :: m) = if eqb k k' then Some v else get eqb k m.
Proof. reflexivity. Qed.

Definition oread_res (res : rres) : oread :=
  match res with Miss => OMiss | Hit c => OHit (str_of c) end.

Definition recs_of (m : list (N * rrec)) : list readrec :=
  flat_map (fun rrr : N * rrec =>
    match r_st (snd rrr) with
    | RDone Miss => [(fst rrr, r_url (snd rrr), OMiss)]
    | RDone (Hit c) => [(fst rrr, r_url (snd rrr), OHit (str_of c))]
    | RReading _ => []
    end) m.

Lemma find_recs : forall m r rr res, getN r m = Some rr -> r_st rr = RDone res ->
  find_read r (recs_of m) = Some (oread_res res).
Proof.
  induction m as [|[r' rr'] m IH]; intros r rr res G R; [discriminate G|].
  rewrite get_cons in G. unfold recs_of. cbn [flat_map fst snd]. fold (recs_of m).
  destruct (N.eqb r r') eqn:E.
  - inversion G; subst rr'. apply N.eqb_eq in E. subst r'. rewrite R.
    destruct res as [|c]; cbn; rewrite N.eqb_refl; reflexivity.
  - destruct (r_st rr') as [buf|[|c]]; cbn [app find_read]; try rewrite E; exact (IH _ _ _ G R).
Qed.

Lemma in_recs : forall m r u o, In (r, u, o) (recs_of m) ->
  exists rr res, In (r, rr) m /\ r_url rr = u /\ r_st rr = RDone res /\ o = oread_res res.
Proof.
  induction m as [|[r' rr'] m IH]; intros r u o H; [destruct H|].
  unfold recs_of in H. cbn [flat_map fst snd] in H. fold (recs_of m) in H.
  apply in_app_or in H. destruct H as [H|H].
  - destruct (r_st rr') as [buf|[|c]] eqn:E; cbn in H; try contradiction;
      destruct H as [H|[]]; inversion H; subst; eexists; eexists;
      (split; [left; reflexivity|]); (split; [reflexivity|]); (split; [exact E|reflexivity]).
  - destruct (IH _ _ _ H) as [rr [res [I R]]]. exists rr, res. split; [right; exact I|exact R].
Qed.

Lemma wpc_eqb_eq : forall a b, wpc_eqb a b = true -> a = b.
Proof. intros [] []; cbn; intros H; try discriminate; reflexivity. Qed.

Section Free.
Variable i : input.
Notation sha := (sha_of (i_sha i)).

(* once completed, a reader's record never changes *)
Lemma step_rdone : forall s e s' r rr res, step sha s e = Some s' ->
  getN r (s_r s) = Some rr -> r_st rr = RDone res -> getN r (s_r s') = Some rr.
Proof.
  intros s e s' r rr res H G R.
  destruct e; cbn in H; repeat dmatch H; inversion H; subst; clear H; cbn; try exact G;
    match goal with |- context [putN ?r0 _ (s_r s)] =>
      destruct (N.eq_dec r r0) as [->|Hn]; [exfalso|mapN; exact G] end;
    match goal with Hq : getN _ (s_r s) = _ |- _ =>
      rewrite G in Hq; first [discriminate Hq | inversion Hq; subst; cbn in R; discriminate R] end.
Qed.

Lemma step_wfr : forall s e s', step sha s e = Some s' ->
  wfmap N.eqb (s_r s) -> wfmap N.eqb (s_r s').
Proof.
  intros s e s' H W.
  destruct e; cbn in H; repeat dmatch H; inversion H; subst; clear H; cbn; try exact W;
    apply (wfmap_put N.eqb Neqb_spec); exact W.
Qed.

Lemma declared_b_ok : forall e, declared_b i e = true -> declared i e.
Proof.
  intros e H. destruct e; cbn; try exact I.
  cbn in H. destruct (getN w (i_writers i)) as [[u' b]|]; [|discriminate].
  apply andb_true_iff in H. destruct H as [Hu Hc]. apply String.eqb_eq in Hu. subst u'.
  apply (list_eqb_spec Ascii.eqb Ascii.eqb_eq) in Hc. exists b. split; [reflexivity|exact Hc].
Qed.

(* ---------- the joint invariant of the run and the monitor ---------- *)
Record psi (M : mon) (s : state) : Prop := mk_psi {
  q_phi : phi M s;
  q_good : good i s;
  q_wfr : wfmap N.eqb (s_r s);
  (* a writer that has renamed: its key exists, and is not held by a writer that had
     returned before it started *)
  q_done : forall w wr, getN w (s_w s) = Some wr -> w_pc wr = PDone ->
    exists L, getS (key sha (w_url wr)) (s_dir s) = Some L /\
              forall l, getN w (n_before M) = Some l -> ~ In L l;
  (* a read that has begun: what the monitor remembered at its beginning is still implied
     by the present, and the inode it opened (if it has opened) respects it *)
  q_open : forall r u st mo, getN r (n_open M) = Some (u, (st, mo)) ->
    (forall x, In x st -> In x (n_stale M)) /\
    (mo = false -> exists L, getS (key sha u) (s_dir s) = Some L) /\
    (forall rr, getN r (s_r s) = Some rr -> r_url rr = u /\
       match r_ino rr with Some L => ~ In L st | None => mo = true end);
  q_reader : forall r rr, getN r (s_r s) = Some rr ->
    exists u st mo, getN r (n_open M) = Some (u, (st, mo)) }.

Lemma psi_init : psi mon0 init.
Proof.
  split; [apply phi_init|apply good_init|intros k v []| | |]; cbn; intros; discriminate.
Qed.

(* events of the run other than a rename *)
Lemma psi_step_nr : forall M s e s', psi M s -> safe e = true -> declared i e ->
  create_started M e -> not_rename e ->
  (forall r u, e = EOpen r u -> exists st mo, getN r (n_open M) = Some (u, (st, mo))) ->
  step sha s e = Some s' -> psi M s'.
Proof.
  intros M s e s' [P G W D O R] S Dc Cs Nr Op H.
  pose proof (g_inv _ _ G) as I.
  split.
  - exact (phi_step_other i _ _ _ _ P G S Nr Cs H).
  - exact (step_good i _ _ _ G S Dc H).
  - exact (step_wfr _ _ _ H W).
  - intros w wr Gw Pc.
    destruct (step_done_origin sha _ _ _ _ _ H I S (conj Gw Pc)) as [[Gw0 _]| ->]; [|destruct Nr].
    destruct (D _ _ Gw0 Pc) as [L [GL NL]]. exists L. split; [|exact NL].
    rewrite (step_dir_nontemp i _ _ _ _ I S Nr H (key_not_temp sha _)). exact GL.
  - intros r u st mo Go. destruct (O _ _ _ _ Go) as [O1 [O2 O3]].
    split; [exact O1|]. split.
    + intros Hm. destruct (O2 Hm) as [L GL]. exists L.
      rewrite (step_dir_nontemp i _ _ _ _ I S Nr H (key_not_temp sha _)). exact GL.
    + intros rr' Gr'. destruct (step_r_origin sha _ _ _ _ _ H Gr') as [[rr0 G0]|E].
      * destruct (step_r_stable sha _ _ _ _ _ H G0) as [rr2 [G2 [U2 I2]]].
        assert (rr2 = rr') by congruence. subst rr2. rewrite U2, I2. exact (O3 _ G0).
      * subst e. destruct (Op _ _ eq_refl) as [st' [mo' Go']].
        assert (u = r_url rr' /\ st' = st /\ mo' = mo) as [-> [-> ->]] by (split; [|split]; congruence).
        split; [reflexivity|].
        cbn in H. destruct (getN r (s_r s)) eqn:Gr0; [discriminate|].
        destruct (getS (key sha (r_url rr')) (s_dir s)) as [L|] eqn:Gk;
          inversion H; subst s'; clear H; cbn in Gr'; rewrite (get_put_eq N.eqb Neqb_spec) in Gr';
          inversion Gr' as [Er]; rewrite <- Er in *; cbn [r_ino r_url] in *.
        -- intros Hin. exact (p_holder _ _ P _ _ Gk (key_not_temp sha _) (O1 _ Hin)).
        -- destruct mo; [reflexivity|]. destruct (O2 eq_refl) as [L GL]. congruence.
  - intros r rr' Gr'. destruct (step_r_origin sha _ _ _ _ _ H Gr') as [[rr0 G0]|E].
    + exact (R _ _ G0).
    + destruct (Op _ _ E) as [st [mo Go]]. exists (r_url rr'), st, mo. exact Go.
Qed.

(* a rename *)
Lemma psi_rename : forall M s w s', psi M s -> step sha s (ERename w) = Some s' -> psi M s'.
Proof.
  intros M s w s' [P G W D O R] H. pose proof (g_inv _ _ G) as I. pose proof H as H0.
  pose proof P as [P1 P2 P3 P4 P5 P6].
  cbn in H.
  destruct (getN w (s_w s)) as [wr|] eqn:Gw; [|discriminate].
  destruct (w_pc wr) eqn:Pc; try discriminate.
  destruct (w_inplace wr) eqn:Inp; try discriminate.
  destruct (getS (w_tmp wr) (s_dir s)) as [n|] eqn:Gt; [|discriminate].
  inversion H; subst s'; clear H.
  destruct (inv_w _ _ I _ _ Gw) as [_ [_ [d [_ [_ [_ Lw]]]]]].
  destruct (Lw (or_intror Pc)) as [Tt Gt']. assert (n = w) by congruence. subst n.
  assert (~ In w (n_ret M)) as NotRet.
  { intros Hx. destruct (P2 _ Hx) as [wr' [G' P']]. assert (wr' = wr) by congruence. subst wr'.
    destruct P' as [P'|P']; congruence. }
  assert (forall k, is_temp k = false -> k <> key sha (w_url wr) ->
            getS k (putS (key sha (w_url wr)) w (delS (w_tmp wr) (s_dir s))) = getS k (s_dir s)) as Other.
  { intros k T Nk. assert (k <> w_tmp wr) by (intros ->; congruence).
    rewrite (get_put_neq String.eqb Seqb_spec) by exact Nk.
    apply (get_del_neq String.eqb Seqb_spec). assumption. }
  split.
  - (* phi *)
    split; cbn.
    + intros w' wr' G'. destruct (step_w_origin sha _ (ERename w) _ _ _ H0 eq_refl G') as [[wr0 G0]|[t Ee]]; [|discriminate].
      exact (P1 _ _ G0).
    + intros x Hx. exact (step_fin i _ _ _ _ H0 (P2 _ Hx)).
    + exact P3.
    + exact P4.
    + intros k L Gk T Hin.
      destruct (String.eqb k (key sha (w_url wr))) eqn:E.
      * apply String.eqb_eq in E. subst k. rewrite (get_put_eq String.eqb Seqb_spec) in Gk.
        inversion Gk; subst L. exact (NotRet (P4 _ Hin)).
      * apply String.eqb_neq in E. rewrite (Other _ T E) in Gk. exact (P5 _ _ Gk T Hin).
    + intros k Hk. destruct (P6 _ Hk) as [T [L Gk]]. split; [exact T|].
      destruct (step_key_holder sha _ (ERename w) _ _ _ I eq_refl H0 Gk T) as [L' [Gk' _]]. exists L'. exact Gk'.
  - exact (step_good i s (ERename w) _ G eq_refl Logic.I H0).
  - exact W.
  - (* q_done *)
    cbn. intros w0 wr0 Gw0 Pc0.
    destruct (N.eq_dec w0 w) as [->|Hn].
    + rewrite (get_put_eq N.eqb Neqb_spec) in Gw0. inversion Gw0; subst wr0. cbn [with_pc w_url].
      exists w. split; [apply (get_put_eq String.eqb Seqb_spec)|].
      intros l Gl Hin. exact (NotRet (P3 _ _ Gl _ Hin)).
    + rewrite (get_put_neq N.eqb Neqb_spec) in Gw0 by exact Hn.
      destruct (D _ _ Gw0 Pc0) as [L [GL NL]].
      destruct (String.eqb (key sha (w_url wr0)) (key sha (w_url wr))) eqn:E.
      * apply String.eqb_eq in E. rewrite E. exists w. split; [apply (get_put_eq String.eqb Seqb_spec)|].
        intros l Gl Hin. exact (NotRet (P3 _ _ Gl _ Hin)).
      * apply String.eqb_neq in E. exists L. split; [|exact NL].
        rewrite (Other _ (key_not_temp sha _) E). exact GL.
  - (* q_open *)
    cbn. intros r u st mo Go. destruct (O _ _ _ _ Go) as [O1 [O2 O3]].
    split; [exact O1|]. split; [|exact O3].
    intros Hm. destruct (O2 Hm) as [L GL].
    destruct (step_key_holder sha _ (ERename w) _ _ _ I eq_refl H0 GL (key_not_temp sha _)) as [L' [Gk' _]].
    exists L'. exact Gk'.
  - exact R.
Qed.

(* the API events *)
Lemma psi_start : forall M s w, psi M s -> getN w (s_w s) = None -> psi (mon_next i M (AStart w)) s.
Proof.
  intros M s w [P G W D O R] Gw. unfold mon_next. cbn [mon_step fst].
  split; try assumption.
  - apply phi_start. exact P.
  - cbn. intros w0 wr0 Gw0 Pc0. destruct (D _ _ Gw0 Pc0) as [L [GL NL]]. exists L. split; [exact GL|].
    intros l Gl. apply NL. assert (w0 <> w) by congruence.
    rewrite (get_put_neq N.eqb Neqb_spec) in Gl by assumption. exact Gl.
Qed.

Lemma psi_ret_false : forall M s w wr, psi M s -> getN w (s_w s) = Some wr -> w_pc wr = PFailed ->
  psi (mon_next i M (ARet w false)) s.
Proof.
  intros M s w wr [P G W D O R] Gw Pc. unfold mon_next. cbn [mon_step fst].
  pose proof P as [P1 P2 P3 P4 P5 P6].
  split; try assumption.
  split; cbn; try assumption.
  - intros x [<-|Hx]; [|exact (P2 _ Hx)]. exists wr. split; [exact Gw|right; exact Pc].
  - intros w' l Gb x Hx. right. exact (P3 _ _ Gb _ Hx).
  - intros x Hx. right. exact (P4 _ Hx).
Qed.

Lemma psi_ret_true : forall M s w wr, psi M s -> getN w (s_w s) = Some wr -> w_pc wr = PDone ->
  psi (mon_next i M (ARet w true)) s.
Proof.
  intros M s w wr [P G W D O R] Gw Pc. unfold mon_next. cbn [mon_step fst].
  pose proof P as [P1 P2 P3 P4 P5 P6]. pose proof G as [I Wd Dl].
  destruct (Dl _ _ Gw) as [b [Gi C]]. destruct (decl_wkey i _ _ _ Gi) as [Wk _].
  destruct (D _ _ Gw Pc) as [Lw [GLw NLw]].
  assert (forall x, In x (match getN w (n_before M) with Some l => l | None => [] end) -> In x (n_ret M)) as Bef.
  { intros x Hx. destruct (getN w (n_before M)) as [l|] eqn:Gb; [exact (P3 _ _ Gb _ Hx)|destruct Hx]. }
  split; try assumption.
  - split; cbn; try assumption.
    + intros x [<-|Hx]; [|exact (P2 _ Hx)]. exists wr. split; [exact Gw|left; exact Pc].
    + intros w' l Gb x Hx. right. exact (P3 _ _ Gb _ Hx).
    + intros x Hx. apply in_app_or in Hx. destruct Hx as [Hx|Hx].
      * apply filter_In in Hx. right. exact (Bef _ (proj1 Hx)).
      * right. exact (P4 _ Hx).
    + intros k L Gk T Hin. apply in_app_or in Hin. destruct Hin as [Hx|Hx]; [|exact (P5 _ _ Gk T Hx)].
      apply filter_In in Hx. destruct Hx as [Hb Hx]. apply String.eqb_eq in Hx.
      destruct (inv_d _ _ I _ _ Gk) as [T'|[wrL [DnL KL]]]; [congruence|].
      destruct (Dl _ _ (proj1 DnL)) as [bL [GiL _]]. destruct (decl_wkey i _ _ _ GiL) as [WkL _].
      assert (k = key sha (w_url wr)) as -> by congruence.
      assert (Lw = L) by congruence. subst Lw.
      destruct (getN w (n_before M)) as [l|] eqn:Gb; [exact (NLw _ eq_refl Hb)|destruct Hb].
    + intros k [<-|Hk]; [|exact (P6 _ Hk)].
      rewrite Wk. split; [apply key_not_temp|]. exists Lw. exact GLw.
  - cbn. intros r u st mo Go. destruct (O _ _ _ _ Go) as [O1 [O2 O3]].
    split; [|split; assumption]. intros x Hx. apply in_or_app. right. exact (O1 _ Hx).
Qed.

Lemma psi_beg : forall M s r u, psi M s -> getN r (s_r s) = None -> getN r (n_open M) = None ->
  psi (mon_next i M (ABeg r u)) s.
Proof.
  intros M s r u [P G W D O R] Gr Go. unfold mon_next. cbn [mon_step fst].
  pose proof P as [P1 P2 P3 P4 P5 P6].
  split; try assumption.
  - apply phi_open. exact P.
  - cbn. intros r0 u0 st mo G0. apply (get_put_cases N.eqb Neqb_spec) in G0.
    destruct G0 as [[-> E]|[Hn G0]]; [|exact (O _ _ _ _ G0)].
    inversion E; subst u0 st mo. split; [auto|]. split.
    + intros Hm. apply negb_false_iff in Hm. apply existsb_exists in Hm.
      destruct Hm as [k [Hk E']]. apply String.eqb_eq in E'. subst k.
      destruct (P6 _ Hk) as [_ X]. exact X.
    + intros rr Grr. congruence.
  - cbn. intros r0 rr Grr. assert (r0 <> r) by congruence.
    destruct (R _ _ Grr) as [u0 [st [mo G0]]]. exists u0, st, mo.
    rewrite (get_put_neq N.eqb Neqb_spec) by assumption. exact G0.
Qed.

(* what a completed read is, in the oracle's terms *)
Lemma completed_read : forall M s r rr res, psi M s -> getN r (s_r s) = Some rr -> r_st rr = RDone res ->
  match res with
  | Miss => r_ino rr = None
  | Hit c => exists L wr b, r_ino rr = Some L /\ getN L (s_w s) = Some wr /\
               getN L (i_writers i) = Some (w_url wr, b) /\
               wkey i L = ukey i (r_url rr) /\ wbundle i L = b /\ str_of c = b
  end.
Proof.
  intros M s r rr res [P G W D O R] Gr Rs. pose proof G as [I Wd Dl].
  pose proof (inv_r _ _ I _ _ Gr) as Rk. unfold rok in Rk. rewrite Rs in Rk.
  destruct (r_ino rr) as [L|].
  - destruct Rk as [wr [Dn [K C]]]. destruct res as [|c]; [destruct C|]. subst c.
    destruct (Dl _ _ (proj1 Dn)) as [b [Gi Cb]]. destruct (decl_wkey i _ _ _ Gi) as [Wk Wb].
    exists L, wr, b. split; [reflexivity|]. split; [exact (proj1 Dn)|]. split; [exact Gi|].
    split; [unfold ukey; congruence|]. split; [exact Wb|]. rewrite Cb. apply str_dat.
  - inversion Rk. reflexivity.
Qed.

(* the verdict of the monitor at the end of a read *)
Lemma end_ok : forall M s r rr res reads, psi M s -> getN r (s_r s) = Some rr -> r_st rr = RDone res ->
  find_read r reads = Some (oread_res res) ->
  mon_step i reads (M, true) (AEnd r) = (M, true).
Proof.
  intros M s r rr res reads Q Gr Rs Fr.
  pose proof (completed_read _ _ _ _ _ Q Gr Rs) as CR.
  destruct Q as [P G W D O R]. pose proof P as [P1 P2 P3 P4 P5 P6].
  destruct (R _ _ Gr) as [u [st [mo Go]]]. destruct (O _ _ _ _ Go) as [O1 [O2 O3]].
  destruct (O3 _ Gr) as [U Ino].
  cbn [mon_step]. rewrite Go, Fr. cbn [andb]. f_equal.
  destruct res as [|c]; cbn [oread_res].
  - rewrite CR in Ino. exact Ino.
  - destruct CR as [L [wr [b [Ri [Gw [Gi [Wk [Wb Sb]]]]]]]]. rewrite Ri in Ino.
    apply existsb_exists. exists L. split; [exact (P1 _ _ Gw)|].
    rewrite Wk, Wb, Sb, U, !String.eqb_refl. rewrite (memN_false L st Ino). reflexivity.
Qed.

(* ---------- the run ---------- *)
Lemma xexec_rdone : forall xs s M s' M' r rr res, xexec i s M xs = Some (s', M') ->
  getN r (s_r s) = Some rr -> r_st rr = RDone res -> getN r (s_r s') = Some rr.
Proof.
  induction xs as [|x xs IH]; intros s M s' M' r rr res H G R; cbn [xexec] in H.
  - inversion H; subst. exact G.
  - destruct (xguard i s M x); [|discriminate]. destruct x as [e|a].
    + destruct (step sha s e) as [s1|] eqn:E; [|discriminate].
      exact (IH _ _ _ _ _ _ _ H (step_rdone _ _ _ _ _ _ E G R) R).
    + exact (IH _ _ _ _ _ _ _ H G R).
Qed.

Lemma free_lock : forall xs s M s' M' reads, psi M s -> xexec i s M xs = Some (s', M') ->
  (forall r rr res, getN r (s_r s') = Some rr -> r_st rr = RDone res ->
     find_read r reads = Some (oread_res res)) ->
  snd (fresh_go i reads (api_of xs) [] (M, true)) = true /\ psi M' s'.
Proof.
  induction xs as [|x xs IH]; intros s M s' M' reads Q H Fin; cbn [xexec] in H.
  - inversion H; subst. split; [reflexivity|exact Q].
  - destruct (xguard i s M x) eqn:Gd; [|discriminate]. destruct x as [e|a].
    + (* an event of the run *)
      cbn [api_of]. destruct (step sha s e) as [s1|] eqn:E; [|discriminate].
      cbn [xguard] in Gd. apply andb_true_iff in Gd. destruct Gd as [Gd G3].
      apply andb_true_iff in Gd. destruct Gd as [Sf Dc]. apply declared_b_ok in Dc.
      apply (IH s1 M s' M' reads); [|exact H|exact Fin].
      destruct e; try discriminate Sf;
        try (apply (psi_step_nr M s _ s1 Q Sf Dc); [exact Logic.I|exact Logic.I|intros ? ? Ee; discriminate Ee|exact E]).
      * (* create *)
        apply (psi_step_nr M s _ s1 Q Sf Dc); [|exact Logic.I|intros ? ? Ee; discriminate Ee|exact E].
        cbn. apply memN_In. exact G3.
      * (* rename *) exact (psi_rename _ _ _ _ Q E).
      * (* open *)
        apply (psi_step_nr M s _ s1 Q Sf Dc); [exact Logic.I|exact Logic.I| |exact E].
        intros r0 u0 Ee. inversion Ee; subst r0 u0.
        destruct (getN r (n_open M)) as [[u' [st mo]]|]; [|discriminate].
        apply String.eqb_eq in G3. subst u'. exists st, mo. reflexivity.
    + (* an API event *)
      cbn [api_of]. destruct a as [w|r u|w|w|w ok|r u|r]; try discriminate Gd; cbn [xguard] in Gd; cbn [fresh_go].
      * (* AStart *)
        destruct (getN w (s_w s)) eqn:Gw; [discriminate|].
        exact (IH s _ s' M' reads (psi_start _ _ _ Q Gw) H Fin).
      * (* ARet *)
        destruct (getN w (s_w s)) as [wr|] eqn:Gw; [|discriminate]. apply wpc_eqb_eq in Gd.
        destruct ok.
        -- exact (IH s _ s' M' reads (psi_ret_true _ _ _ _ Q Gw Gd) H Fin).
        -- exact (IH s _ s' M' reads (psi_ret_false _ _ _ _ Q Gw Gd) H Fin).
      * (* ABeg *)
        destruct (getN r (s_r s)) eqn:Gr; [discriminate|]. destruct (getN r (n_open M)) eqn:Go; [discriminate|].
        exact (IH s _ s' M' reads (psi_beg _ _ _ u Q Gr Go) H Fin).
      * (* AEnd *)
        destruct (getN r (s_r s)) as [rr|] eqn:Gr; [|discriminate].
        destruct (r_st rr) as [buf|res] eqn:Rs; [discriminate|].
        pose proof (xexec_rdone _ _ _ _ _ _ _ _ H Gr Rs) as Gr'.
        rewrite (end_ok M s r rr res reads Q Gr Rs (Fin _ _ _ Gr' Rs)).
        assert (mon_next i M (AEnd r) = M) as EM.
        { unfold mon_next. cbn [mon_step]. destruct (getN r (n_open M)) as [[? [? ?]]|]; reflexivity. }
        rewrite EM in H. exact (IH s M s' M' reads Q H Fin).
Qed.

(* every recorded read is a miss or a complete bundle of a writer of that key *)
Lemma reads_free_ok : forall M s, psi M s -> forallb (read_check i) (readrecs s) = true.
Proof.
  intros M s Q. apply forallb_forall. intros [[r u] o] Hin.
  destruct (in_recs _ _ _ _ Hin) as [rr [res [Im [U [Rs ->]]]]].
  pose proof (q_wfr _ _ Q _ _ Im) as Gr.
  pose proof (completed_read _ _ _ _ _ Q Gr Rs) as CR.
  destruct res as [|c]; cbn; [reflexivity|].
  destruct CR as [L [wr [b [Ri [Gw [Gi [Wk [Wb Sb]]]]]]]].
  apply existsb_exists. exists (L, (w_url wr, b)). split; [exact (get_in N.eqb Neqb_spec _ _ _ Gi)|].
  cbn [fst]. rewrite Wk, Wb, Sb, U, !String.eqb_refl. reflexivity.
Qed.

(* the oracle reads only the hash table and the writer table of its input *)
Lemma mon_step_free : forall fl tm sc reads mo e,
  mon_step (mk_input fl (i_sha i) (i_writers i) tm sc) reads mo e = mon_step i reads mo e.
Proof. reflexivity. Qed.

Lemma fresh_go_free : forall fl tm sc reads sched pts mo,
  fresh_go (mk_input fl (i_sha i) (i_writers i) tm sc) reads sched pts mo = fresh_go i reads sched pts mo.
Proof.
  intros fl tm sc reads sched. induction sched as [|e sched IH]; intros pts mo; [reflexivity|].
  destruct e; cbn [fresh_go]; rewrite ?mon_step_free; apply IH.
Qed.

(* C14_free_runs_meet_oracle *)
Theorem free_runs_meet_oracle : tmps_ok i = true ->
  forall xs s M, xexec i init mon0 xs = Some (s, M) ->
  spec_ok (free_input i xs) (free_obs s) = true.
Proof.
  intros Tm xs s M H.
  destruct (free_lock xs init mon0 s M (readrecs s) psi_init H) as [Fr Q].
  { intros r rr res G R. exact (find_recs _ _ _ _ G R). }
  unfold spec_ok. apply andb_true_iff. split; [apply andb_true_iff; split|].
  - exact (reads_free_ok _ _ Q).
  - unfold fresh_ok, free_input, free_obs. cbn [o_reads o_points i_sched]. rewrite fresh_go_free. exact Fr.
  - unfold listing_ok. apply andb_true_iff. split; [|exact Tm].
    exact (listing_model_ok i _ (q_good _ _ Q)).
Qed.

(* the underlying run is a run of Part 1 by writers that follow the program of the code *)
Lemma xexec_run : forall xs s M s' M', xexec i s M xs = Some (s', M') ->
  exec sha s (run_of xs) = Some s' /\ forallb safe (run_of xs) = true.
Proof.
  induction xs as [|x xs IH]; intros s M s' M' H; cbn [xexec] in H.
  - inversion H; subst. split; reflexivity.
  - destruct (xguard i s M x) eqn:Gd; [|discriminate]. destruct x as [e|a]; cbn [run_of].
    + destruct (step sha s e) as [s1|] eqn:E; [|discriminate].
      destruct (IH _ _ _ _ H) as [X S]. cbn [exec forallb]. rewrite E, S.
      cbn [xguard] in Gd. apply andb_true_iff in Gd. destruct Gd as [Gd _].
      apply andb_true_iff in Gd. destruct Gd as [Sf _]. rewrite Sf. split; [exact X|reflexivity].
    + exact (IH _ _ _ _ H).
Qed.

(* ---------- every run of Part 1 has a decoration ---------- *)
Lemma run_of_decorate : forall tr, run_of (decorate tr) = tr.
Proof.
  induction tr as [|e tr IH]; [reflexivity|]. destruct e; cbn [decorate run_of]; rewrite IH; reflexivity.
Qed.

Lemma decorate_runs : forall tr s M s',
  (forall r, getN r (n_open M) <> None -> getN r (s_r s) <> None) ->
  exec sha s tr = Some s' -> forallb safe tr = true -> forallb (declared_b i) tr = true ->
  exists M', xexec i s M (decorate tr) = Some (s', M').
Proof.
  induction tr as [|e tr IH]; intros s M s' Inv H S Dc; cbn [exec] in H.
  - inversion H; subst. exists M. reflexivity.
  - cbn [forallb] in S, Dc. apply andb_true_iff in S. destruct S as [Se St].
    apply andb_true_iff in Dc. destruct Dc as [De Dt].
    destruct (step sha s e) as [s1|] eqn:E; [|discriminate].
    assert (forall r, getN r (s_r s) <> None -> getN r (s_r s1) <> None) as Keep.
    { intros r Hr. destruct (getN r (s_r s)) as [rr|] eqn:G; [|destruct (Hr eq_refl)].
      destruct (step_r_stable sha _ _ _ _ _ E G) as [rr' [G' _]]. congruence. }
    destruct e; try discriminate Se;
      try (cbn [decorate xexec xguard]; rewrite Se, De, E; cbn [andb];
           apply (IH s1 M s'); [intros ? Hr; exact (Keep _ (Inv _ Hr))|exact H|exact St|exact Dt]).
    + (* create *)
      cbn [decorate xexec xguard].
      assert (getN w (s_w s) = None) as Gw.
      { cbn in E. destruct (getN w (s_w s)); [discriminate|reflexivity]. }
      rewrite Gw. unfold mon_next. cbn [mon_step fst n_started].
      rewrite Se, De. unfold memN. cbn [existsb]. rewrite N.eqb_refl. cbn [andb orb]. rewrite E.
      apply (IH s1 _ s'); [|exact H|exact St|exact Dt].
      cbn [n_open]. intros ? Hr. exact (Keep _ (Inv _ Hr)).
    + (* open *)
      cbn [decorate xexec xguard].
      assert (getN r (s_r s) = None) as Gr.
      { cbn in E. destruct (getN r (s_r s)); [discriminate|reflexivity]. }
      assert (getN r (n_open M) = None) as Go.
      { destruct (getN r (n_open M)) eqn:G; [|reflexivity]. exfalso. apply (Inv r); [congruence|exact Gr]. }
      rewrite Gr, Go. unfold mon_next. cbn [mon_step fst n_open].
      rewrite Se, De, (get_put_eq N.eqb Neqb_spec), String.eqb_refl. cbn [andb]. rewrite E.
      apply (IH s1 _ s'); [|exact H|exact St|exact Dt].
      cbn [n_open]. intros r0 Hr. destruct (N.eq_dec r0 r) as [->|Hn].
      * cbn in E. rewrite Gr in E. inversion E; subst s1. cbn. rewrite (get_put_eq N.eqb Neqb_spec). discriminate.
      * cbn [n_open] in Hr. rewrite (get_put_neq N.eqb Neqb_spec) in Hr by exact Hn. exact (Keep _ (Inv _ Hr)).
Qed.

(* C14_all_runs_meet_oracle: what ANY run of the semantics by the writers of a case leaves
   behind (its completed reads, its directory) is accepted by the oracle *)
Theorem all_runs_meet_oracle : tmps_ok i = true ->
  forall tr s, exec sha init tr = Some s -> forallb safe tr = true -> forallb (declared_b i) tr = true ->
  spec_ok (free_input i (decorate tr)) (free_obs s) = true.
Proof.
  intros Tm tr s H S Dc.
  destruct (decorate_runs tr init mon0 s) as [M' X]; try assumption.
  { intros r Hr. destruct (Hr eq_refl). }
  exact (free_runs_meet_oracle Tm _ _ _ X).
Qed.

End Free.

(* ---------- a concrete decorated run (non-vacuity of the theorems above) ----------
   URLs "u" and "v" with 32-byte hashes (key-shaped names).  Writers 0 (AAAA) and 1
   (BBBBBB) of "u" overlap; reader 9 begins before anything exists, opens A's entry and
   finishes long after B and E were stored; B is seen to return before A; writer 2 is
   killed in the middle of its write; writer 3 (URL "v") fails and cleans up; writer 4
   (EE) starts after 0 and 1 returned, so that they are stale for reader 6. *)
Definition ex_tn (n : string) : string := (tmp_prefix ++ n ++ tmp_suffix)%string.
Definition ex_input : input :=
  mk_input true [("u", repeat 171%N 32); ("v", repeat 205%N 32)]
    [(0%N, ("u", "AAAA")); (1%N, ("u", "BBBBBB")); (2%N, ("u", "CC")); (3%N, ("v", "DDD")); (4%N, ("u", "EE"))] [] [].
Definition ex_history : list xev :=
  [XA (AStart 0); XA (ABeg 9 "u");
   XE (ECreate 0 "u" (dat_of "AAAA") (ex_tn "11")); XE (EWrite 0 2); XA (AStart 1);
   XE (ECreate 1 "u" (dat_of "BBBBBB") (ex_tn "22")); XE (EWrite 0 2); XE (EClose 0); XE (ERename 0);
   XE (EOpen 9 "u");
   XE (EWrite 1 6); XE (EClose 1); XE (ERename 1); XA (ARet 1 true);
   XE (ERead 9 3); XA (ARet 0 true);
   XA (ABeg 8 "u"); XE (EOpen 8 "u"); XE (ERead 8 10); XE (EEof 8); XA (AEnd 8);
   XA (AStart 2); XE (ECreate 2 "u" (dat_of "CC") (ex_tn "33")); XE (EWrite 2 1); XE (ECrash 2);
   XA (AStart 3); XE (ECreate 3 "v" (dat_of "DDD") (ex_tn "44")); XE (EWrite 3 3); XE (EClose 3); XE (EFail 3);
   XA (ARet 3 false);
   XA (ABeg 7 "v"); XE (EOpen 7 "v"); XA (AEnd 7);
   XE (ERead 9 1); XE (EEof 9); XA (AEnd 9);
   XA (AStart 4); XE (ECreate 4 "u" (dat_of "EE") (ex_tn "55")); XE (EWrite 4 2); XE (EClose 4); XE (ERename 4);
   XA (ARet 4 true);
   XA (ABeg 6 "u"); XE (EOpen 6 "u"); XE (ERead 6 2); XE (EEof 6); XA (AEnd 6)].
Definition ex_ku : string := key (sha_of (i_sha ex_input)) "u".
(* the verdict of the oracle when readers 6 and 9 report r6 and r9 and the directory is dir *)
Definition ex_verdict (r6 r9 : oread) (dir : list (string * string)) : bool :=
  spec_ok (free_input ex_input ex_history)
    (mk_obs [] [(6%N, "u", r6); (9%N, "u", r9); (7%N, "v", OMiss); (8%N, "u", OHit "BBBBBB")] dir).
