(* C06_Audit.v — lemmas added by the theorem audit (docs/audit/C06.md):
   - the "passes only if" direction WITHOUT the input contract [wf];
   - the observation-level statement of the whole property;
   - which certificate a window / revocation failure names (the first one);
   - what each validation depends on, and on nothing else. *)
From NV Require Import Base C06_Model C06_Proofs.
Local Open Scope Z_scope.

(* ================= the policy look-ups without the input contract ================= *)

(* whatever isTSATrustStoreInPolicy answers (when it answers) is "some value starts with tsa:" *)
Lemma tsa_in_policy_some stores en : tsa_in_policy stores = Some en ->
  en = existsb is_tsa_store stores.
Proof.
  induction stores as [|s r IH]; cbn [tsa_in_policy existsb].
  - intros H; now inversion H.
  - destruct (cut_byte colon s) as [[ty name]|] eqn:C; [|discriminate].
    destruct (cut_tsa _ _ _ C) as [E _]. rewrite E.
    destruct (is_tsa_store s); cbn [orb].
    + intros H; now inversion H.
    + exact IH.
Qed.

(* loadX509TrustStoresWithType returns certificates only if every value has a separator *)
Lemma load_tsa_some_wf db : forall stores seen acc b,
  (forall s, In s seen -> contains_byte colon s = true) ->
  load_tsa stores seen db acc = Some b -> forallb (contains_byte colon) stores = true.
Proof.
  induction stores as [|s r IH]; intros seen acc b Hseen; [reflexivity|].
  cbn [load_tsa forallb].
  destruct (mem_str s seen) eqn:M.
  - intros H. apply mem_str_In in M. rewrite (Hseen _ M). cbn [andb]. now apply (IH seen acc b).
  - destruct (cut_byte colon s) as [[ty name]|] eqn:C; [|discriminate].
    assert (CS : contains_byte colon s = true).
    { destruct (contains_byte colon s) eqn:E; [reflexivity|]. apply cut_byte_none in E. congruence. }
    rewrite CS. cbn [andb].
    destruct (negb (String.eqb ty "tsa")).
    + intros H. now apply (IH seen acc b).
    + destruct (lookup_db name db); [discriminate| |]; intros H.
      * apply (IH (s :: seen) acc b); [|exact H]. intros s' [<-|Hin]; auto.
      * apply (IH (s :: seen) true b); [|exact H]. intros s' [<-|Hin]; auto.
Qed.

Lemma countersig_passed_wf i : countersig i = Passed -> wf i = true.
Proof.
  unfold countersig, wf. intros H.
  destruct (negb (k_present (i_tok i))); [discriminate|].
  destruct (negb (k_parses (i_tok i))); [discriminate|].
  destruct (negb (k_info (i_tok i))); [discriminate|].
  destruct (negb (k_imprint (i_tok i))); [discriminate|].
  destruct (load_tsa (i_stores i) [] (i_tsadb i) false) as [b|] eqn:L; [|discriminate].
  apply (load_tsa_some_wf _ _ _ _ _ (fun s (F : In s []) => match F with end) L).
Qed.

(* verifyTimestamp, whatever the trustStores list looks like *)
Lemma vt_cases i : i_scheme i = X509 ->
  verify_authentic_timestamp i = Failed WConfig \/
  verify_authentic_timestamp i = if applies i then countersig i else now_loop (i_now i) (i_chain i) 0%N.
Proof.
  intros S. unfold verify_authentic_timestamp, verify_timestamp. rewrite S.
  destruct (tsa_in_policy (i_stores i)) as [en|] eqn:T; [|now left].
  right. apply tsa_in_policy_some in T. subst en. reflexivity.
Qed.

(* ================= "passes only if", for every input ================= *)

Theorem passes_only_if : forall i, verify_authentic_timestamp i = Passed ->
  (i_scheme i = SigningAuthority -> Forall (Valid_at (i_sigtime i)) (i_chain i)) /\
  (i_scheme i = X509 -> ~ Applies i -> Forall (Valid_at (i_now i)) (i_chain i)) /\
  (i_scheme i = X509 -> Applies i -> Token_ok i).
Proof.
  intros i P. split; [|split].
  - intros S. now apply (sa_iff i S).
  - intros S NA. destruct (vt_cases i S) as [E|E]; rewrite E in P; [discriminate|].
    destruct (applies i) eqn:A; [exfalso; apply NA; now apply applies_iff|].
    pose proof (now_loop_spec (i_now i) (i_chain i) 0%N) as NL. rewrite P in NL.
    now apply (forallb_Forall _ _ (i_chain i) (valid_at_iff (i_now i))).
  - intros S A. destruct (vt_cases i S) as [E|E]; [rewrite E in P; discriminate|].
    pose proof A as A'. apply applies_iff in A'. rewrite A' in E.
    assert (W : wf i = true) by (apply countersig_passed_wf; congruence).
    now apply (x509_tsa i W S A).
Qed.

(* both directions, under the input contract *)
Theorem passes_iff : forall i, wf i = true ->
  (verify_authentic_timestamp i = Passed <->
   match i_scheme i with
   | SigningAuthority => Forall (Valid_at (i_sigtime i)) (i_chain i)
   | X509 => (~ Applies i /\ Forall (Valid_at (i_now i)) (i_chain i)) \/ (Applies i /\ Token_ok i)
   end).
Proof.
  intros i W. destruct (i_scheme i) eqn:S.
  - destruct (applies_dec i) as [A|NA].
    + rewrite (x509_tsa i W S A). tauto.
    + rewrite (x509_no_tsa i W S NA). tauto.
  - apply (sa_iff i S).
Qed.

(* ================= the observations of Verify ================= *)

Lemma stops_iff i :
  enforced (i_aexp i) && negb (verify_expiry (i_now i) (i_expiry i)) = true <->
  (i_aexp i = Enforce /\ exists e, i_expiry i = Some e /\ e <= i_now i).
Proof.
  rewrite andb_true_iff. unfold verify_expiry. split.
  - intros [E1 E2]. split; [destruct (i_aexp i); [reflexivity | discriminate]|].
    destruct (i_expiry i) as [e|]; [|discriminate]. exists e. split; [reflexivity|].
    apply negb_true_iff in E2. lia.
  - intros [-> (e & -> & L)]. split; [reflexivity|]. apply negb_true_iff. lia.
Qed.

Theorem expiry_iff : forall i,
  (o_expiry (model i) = Some false <-> exists e, i_expiry i = Some e /\ e <= i_now i) /\
  (o_expiry (model i) = Some true <-> forall e, i_expiry i = Some e -> i_now i < e).
Proof.
  intros i. rewrite o_expiry_model. unfold verify_expiry. destruct (i_expiry i) as [e|].
  - split; split.
    + intros H. exists e. split; [reflexivity|]. inversion H as [H']. lia.
    + intros (e' & E & L). inversion E; subst. f_equal. lia.
    + intros H e' E. inversion E; subst. inversion H as [H']. lia.
    + intros H. f_equal. specialize (H e eq_refl). lia.
  - split; split; try discriminate; try reflexivity.
    intros (e & E & _). discriminate.
Qed.

Theorem statement : forall i, wf i = true ->
  (o_ts (model i) = Some Passed <->
   ~ (i_aexp i = Enforce /\ exists e, i_expiry i = Some e /\ e <= i_now i) /\
   match i_scheme i with
   | SigningAuthority => Forall (Valid_at (i_sigtime i)) (i_chain i)
   | X509 => (~ Applies i /\ Forall (Valid_at (i_now i)) (i_chain i)) \/ (Applies i /\ Token_ok i)
   end).
Proof.
  intros i W. rewrite <- (passes_iff i W), <- stops_iff. unfold model.
  destruct (enforced (i_aexp i) && negb (verify_expiry (i_now i) (i_expiry i))); cbn [o_ts].
  - split; [discriminate | intros [H _]; now contradiction H].
  - split.
    + intros H. inversion H as [H']. rewrite H'. split; [discriminate | reflexivity].
    + intros [_ ->]. reflexivity.
Qed.

(* Verify returns without error under enforced actions: both validations hold *)
Theorem accepted_only_if : forall i, i_aexp i = Enforce -> i_ats i = Enforce ->
  o_rejected (model i) = false ->
  (forall e, i_expiry i = Some e -> i_now i < e) /\
  (i_scheme i = SigningAuthority -> Forall (Valid_at (i_sigtime i)) (i_chain i)) /\
  (i_scheme i = X509 -> ~ Applies i -> Forall (Valid_at (i_now i)) (i_chain i)) /\
  (i_scheme i = X509 -> Applies i -> Token_ok i).
Proof.
  intros i A1 A2 R. unfold model in R. rewrite A1, A2 in R. cbn [enforced andb] in R.
  destruct (negb (verify_expiry (i_now i) (i_expiry i))) eqn:E; cbn [o_rejected] in R; [discriminate|].
  split.
  - intros e He. unfold verify_expiry in E. rewrite He in E. apply negb_false_iff in E. lia.
  - apply passes_only_if. destruct (verify_authentic_timestamp i); [reflexivity | discriminate].
Qed.

Theorem accepted_iff : forall i, wf i = true -> i_aexp i = Enforce -> i_ats i = Enforce ->
  (o_rejected (model i) = false <->
   (forall e, i_expiry i = Some e -> i_now i < e) /\
   match i_scheme i with
   | SigningAuthority => Forall (Valid_at (i_sigtime i)) (i_chain i)
   | X509 => (~ Applies i /\ Forall (Valid_at (i_now i)) (i_chain i)) \/ (Applies i /\ Token_ok i)
   end).
Proof.
  intros i W A1 A2. rewrite <- (passes_iff i W). unfold model. rewrite A1, A2. cbn [enforced andb].
  unfold verify_expiry. destruct (i_expiry i) as [e|].
  - destruct (i_now i <? e) eqn:L; cbn [negb o_rejected].
    + destruct (verify_authentic_timestamp i); cbn [is_failed]; split.
      * intros _. split; [intros e' E; inversion E; subst; lia | reflexivity].
      * reflexivity.
      * discriminate.
      * intros [_ H]. discriminate.
    + split; [discriminate|]. intros [H _]. specialize (H e eq_refl). lia.
  - cbn [negb o_rejected]. destruct (verify_authentic_timestamp i); cbn [is_failed]; split.
    + intros _. split; [discriminate | reflexivity].
    + reflexivity.
    + discriminate.
    + intros [_ H]. discriminate.
Qed.

(* ================= the case split, spelled out ================= *)

Theorem applies_cases : forall i,
  Applies i <->
  Lists_tsa (i_stores i) /\
  (i_opt i = OptUnset \/ i_opt i = OptAlways \/ (i_opt i = OptAfterCertExpiry /\ Expired_now i)).
Proof.
  intros i. unfold Applies. split.
  - intros [L H]. split; [exact L|].
    destruct (i_opt i) eqn:O; [now left | right; now left | right; right; split; [reflexivity | now apply H]].
  - intros [L H]. split; [exact L|]. intros O.
    destruct H as [H|[H|[_ H]]]; [congruence | congruence | exact H].
Qed.

(* under the contract, the code's own test (strings.Cut type = "tsa") is "starts with tsa:" *)
Theorem tsa_enabled_iff : forall i, wf i = true ->
  (tsa_in_policy (i_stores i) = Some true <-> Lists_tsa (i_stores i)) /\
  (tsa_in_policy (i_stores i) = Some false <-> ~ Lists_tsa (i_stores i)).
Proof.
  intros i W. unfold wf in W. rewrite (tsa_in_policy_wf _ W), <- lists_tsa_iff.
  destruct (existsb is_tsa_store (i_stores i)); split; split; try discriminate; try reflexivity.
  intros H. now contradiction H.
Qed.

(* ================= what each validation depends on ================= *)

Theorem x509_clock : forall i i', i_scheme i = X509 -> i_scheme i' = X509 ->
  i_now i = i_now i' -> i_chain i = i_chain i' -> i_stores i = i_stores i' -> i_opt i = i_opt i' ->
  i_tsadb i = i_tsadb i' -> i_tok i = i_tok i' ->
  verify_authentic_timestamp i = verify_authentic_timestamp i'.
Proof.
  intros i i' S S' N C ST O D K.
  unfold verify_authentic_timestamp, verify_timestamp, countersig. now rewrite S, S', N, C, ST, O, D, K.
Qed.

(* no tsa store listed (or afterCertExpiry, nothing expired): the countersignature, the tsa
   stores' content and the option are not looked at *)
Theorem x509_no_tsa_ignores_token : forall i db k, wf i = true -> i_scheme i = X509 -> ~ Applies i ->
  verify_authentic_timestamp (with_policy i (i_stores i) (i_opt i) db k) = verify_authentic_timestamp i.
Proof.
  intros i db k W S NA.
  assert (A : applies i = false).
  { destruct (applies i) eqn:A; [|reflexivity]. exfalso. apply NA. now apply applies_iff. }
  set (i' := with_policy i (i_stores i) (i_opt i) db k).
  assert (W' : wf i' = true) by exact W.
  assert (S' : i_scheme i' = X509) by exact S.
  rewrite (vt_unfold i' W' S'), (vt_unfold i W S).
  change (applies i') with (applies i). rewrite A. reflexivity.
Qed.

(* timestamp verification applies: the moment of verification plays no further role —
   two moments that agree on "applies" give the same result *)
Theorem x509_tsa_ignores_now : forall i t, wf i = true -> i_scheme i = X509 ->
  Applies i -> Applies (with_now i t) ->
  verify_authentic_timestamp (with_now i t) = verify_authentic_timestamp i.
Proof.
  intros i t W S A A'.
  assert (W' : wf (with_now i t) = true) by exact W.
  assert (S' : i_scheme (with_now i t) = X509) by exact S.
  rewrite (vt_unfold _ W' S'), (vt_unfold i W S).
  apply applies_iff in A. apply applies_iff in A'. rewrite A, A'. reflexivity.
Qed.

(* ================= which certificate a window failure names ================= *)

Lemma ts_loop_names lo hi : forall cs k w, ts_loop lo hi cs k = Some w ->
  exists j c, nth_error cs j = Some c /\
    forallb (window_ok lo hi) (firstn j cs) = true /\
    ((w = WTsBefore (k + N.of_nat j) /\ lo < nb c) \/
     (w = WTsAfter (k + N.of_nat j) /\ nb c <= lo /\ na c < hi)).
Proof.
  induction cs as [|c cs IH]; intros k w; [discriminate|].
  cbn [ts_loop].
  destruct (nb c <=? lo) eqn:E1; cbn [negb].
  - destruct (hi <=? na c) eqn:E2; cbn [negb].
    + intros H. destruct (IH _ _ H) as (j & c' & Hn & Hf & Hw).
      exists (S j), c'. split; [exact Hn|]. split.
      * cbn [firstn forallb]. unfold window_ok at 1. now rewrite E1, E2.
      * rewrite <- succ_of_nat. exact Hw.
    + intros H; inversion H; subst. exists O, c. rewrite N.add_0_r.
      split; [reflexivity|]. split; [reflexivity|]. right. split; [reflexivity|]. lia.
  - intros H; inversion H; subst. exists O, c. rewrite N.add_0_r.
    split; [reflexivity|]. split; [reflexivity|]. left. split; [reflexivity|]. lia.
Qed.

(* ================= which certificate a revocation failure names ================= *)

Lemma index_from_nth {A} (l : list A) : forall k j x p,
  nth_error (index_from k l) j = Some (x, p) -> p = (k + N.of_nat j)%N /\ nth_error l j = Some x.
Proof.
  induction l as [|y l IH]; intros k j x p; destruct j; cbn; try discriminate.
  - intros H; inversion H; subst. split; [lia | reflexivity].
  - intros H. destruct (IH _ _ _ _ H) as [-> Hn]. split; [lia | exact Hn].
Qed.

Lemma index_from_firstn {A} (l : list A) : forall k j,
  firstn j (index_from k l) = index_from k (firstn j l).
Proof.
  induction l as [|y l IH]; intros k j; destruct j; cbn; try reflexivity. now rewrite IH.
Qed.

(* the loop runs from the last certificate to the first, so the LAST assignment —
   the lowest index — wins *)
Lemma fr_revSubj_first : forall l, a_revFound (fr l) = true ->
  exists j r, nth_error l j = Some (r, a_revSubj (fr l)) /\ is_revoked r = true /\
              existsb revp (firstn j l) = false.
Proof.
  induction l as [|[r s] l IH]; [cbn; discriminate|].
  rewrite fr_cons. unfold rstep.
  destruct (is_ok r) eqn:E; cbn [a_revFound a_revSubj].
  - intros H. destruct (IH H) as (j & r' & Hn & Hr & Hf). exists (S j), r'.
    split; [exact Hn|]. split; [exact Hr|]. cbn [firstn existsb].
    change (revp (r, s)) with (is_revoked r). now rewrite (ok_not_rev _ E).
  - destruct (is_revoked r) eqn:E2; cbn [a_revFound a_revSubj].
    + intros _. exists O, r. repeat split. exact E2.
    + intros H. destruct (IH H) as (j & r' & Hn & Hr & Hf). exists (S j), r'.
      split; [exact Hn|]. split; [exact Hr|]. cbn [firstn existsb].
      change (revp (r, s)) with (is_revoked r). now rewrite E2.
Qed.

Lemma fr_prob_first : forall l, forallb okp l = false ->
  exists j, nth_error l j = Some (a_final (fr l), a_prob (fr l)) /\
            is_ok (a_final (fr l)) = false /\ forallb okp (firstn j l) = true.
Proof.
  induction l as [|[r s] l IH]; [cbn; discriminate|].
  rewrite fr_cons. unfold rstep. cbn [forallb]. change (okp (r, s)) with (is_ok r).
  destruct (is_ok r) eqn:E; cbn [a_final a_prob andb].
  - intros H. destruct (IH H) as (j & Hn & Hk & Hf). exists (S j).
    split; [exact Hn|]. split; [exact Hk|]. cbn [firstn forallb].
    change (okp (r, s)) with (is_ok r). now rewrite E.
  - intros _. exists O. destruct (is_revoked r); cbn [a_final a_prob]; repeat split; exact E.
Qed.

Lemma is_revoked_eq r : is_revoked r = true -> r = RRevoked.
Proof. destruct r; cbn; congruence. Qed.

Lemma no_revoked_firstn rs j : existsb is_revoked (firstn j rs) = false -> ~ In RRevoked (firstn j rs).
Proof.
  intros H Hin. assert (existsb is_revoked (firstn j rs) = true); [|congruence].
  apply existsb_exists. now exists RRevoked.
Qed.

Lemma rev_check_revoked rs : In RRevoked rs ->
  exists j, nth_error rs j = Some RRevoked /\ ~ In RRevoked (firstn j rs) /\
            rev_check (VRes rs) = Some (WRevoked (N.of_nat j)).
Proof.
  intros Hin.
  assert (X : existsb is_revoked rs = true) by (apply existsb_exists; now exists RRevoked).
  assert (NOK : forallb is_ok rs = false).
  { destruct (forallb is_ok rs) eqn:F; [|reflexivity].
    rewrite forallb_forall in F. specialize (F _ Hin). discriminate. }
  assert (RF : a_revFound (fr (index_from 0%N rs)) = true) by now rewrite fr_revFound, index_from_revp.
  destruct (fr_revSubj_first _ RF) as (j & r & Hn & Hr & Hf).
  apply index_from_nth in Hn. destruct Hn as [Hp Hn]. rewrite N.add_0_l in Hp.
  rewrite index_from_firstn, index_from_revp in Hf.
  exists j. apply is_revoked_eq in Hr. subst r. split; [exact Hn|].
  split; [now apply no_revoked_firstn|].
  unfold rev_check, final_result. rewrite loop_is_fr, RF.
  rewrite fr_numOK, <- (index_from_length rs 0%N), filter_len_all, index_from_okp, NOK, Hp.
  reflexivity.
Qed.

Lemma rev_check_unknown rs : ~ In RRevoked rs -> forallb is_ok rs = false ->
  exists j r, nth_error rs j = Some r /\ is_ok r = false /\
              forallb is_ok (firstn j rs) = true /\
              rev_check (VRes rs) = Some (WRevUnknown (N.of_nat j)).
Proof.
  intros NR NOK.
  assert (X : existsb is_revoked rs = false).
  { destruct (existsb is_revoked rs) eqn:E; [|reflexivity]. exfalso. apply NR.
    apply existsb_exists in E. destruct E as (r & Hin & Hr). apply is_revoked_eq in Hr. now subst. }
  assert (RF : a_revFound (fr (index_from 0%N rs)) = false) by now rewrite fr_revFound, index_from_revp.
  assert (NOK' : forallb okp (index_from 0%N rs) = false) by now rewrite index_from_okp.
  destruct (fr_prob_first _ NOK') as (j & Hn & Hk & Hf).
  apply index_from_nth in Hn. destruct Hn as [Hp Hn]. rewrite N.add_0_l in Hp.
  rewrite index_from_firstn, index_from_okp in Hf.
  exists j, (a_final (fr (index_from 0%N rs))). split; [exact Hn|]. split; [exact Hk|]. split; [exact Hf|].
  assert (NRV : a_final (fr (index_from 0%N rs)) <> RRevoked).
  { intros E. apply NR. rewrite <- E. eapply nth_error_In; exact Hn. }
  unfold rev_check, final_result. rewrite loop_is_fr, RF.
  rewrite fr_numOK, <- (index_from_length rs 0%N), filter_len_all, index_from_okp, NOK, Hp.
  destruct (a_final (fr (index_from 0%N rs))); cbn in Hk; try discriminate; try reflexivity.
  now contradiction NRV.
Qed.

(* ================= the last two steps of the pipeline, naming the certificate ================= *)

Section LastSteps.
  Variable i : input.
  Hypothesis W : wf i = true.
  Hypothesis S : i_scheme i = X509.
  Hypothesis A : Applies i.
  Hypothesis P1 : k_present (i_tok i) = true.
  Hypothesis P2 : k_parses (i_tok i) = true.
  Hypothesis P3 : k_info (i_tok i) = true.
  Hypothesis P4 : k_imprint (i_tok i) = true.
  Hypothesis P5 : all_load i = true.
  Hypothesis P6 : some_root i = true.
  Hypothesis P7 : k_verify (i_tok i) = true.
  Hypothesis P8 : k_rules (i_tok i) = true.

  Let lo := k_gen (i_tok i) - k_acc (i_tok i).
  Let hi := k_gen (i_tok i) + k_acc (i_tok i).

  Lemma to_last_steps : verify_authentic_timestamp i =
    match ts_loop lo hi (i_chain i) 0%N with
    | Some w => Failed w
    | None =>
        match shape_check (k_tsalen (i_tok i)) (k_rev (i_tok i)) with
        | Some w => Failed w
        | None => match rev_check (k_rev (i_tok i)) with Some w => Failed w | None => Passed end
        end
    end.
  Proof.
    rewrite (vt_unfold i W S). apply applies_iff in A. rewrite A. unfold countersig.
    now rewrite P1, P2, P3, P4, (load_tsa_top _ W), P5, P6, P7, P8.
  Qed.

  Lemma step_window_names : ~ Forall (Inside lo hi) (i_chain i) ->
    exists k c, nth_error (i_chain i) k = Some c /\
      Forall (Inside lo hi) (firstn k (i_chain i)) /\
      ((verify_authentic_timestamp i = Failed (WTsBefore (N.of_nat k)) /\ lo < nb c) \/
       (verify_authentic_timestamp i = Failed (WTsAfter (N.of_nat k)) /\ nb c <= lo /\ na c < hi)).
  Proof.
    intros NF. rewrite to_last_steps.
    destruct (ts_loop lo hi (i_chain i) 0%N) as [w|] eqn:T.
    - destruct (ts_loop_names _ _ _ _ _ T) as (j & c & Hn & Hf & Hw). rewrite !N.add_0_l in Hw.
      exists j, c. split; [exact Hn|]. split.
      + now apply (forallb_Forall _ _ _ (window_ok_iff lo hi)).
      + destruct Hw as [[-> H]|[-> H]]; [left | right]; (split; [reflexivity | exact H]).
    - exfalso. apply NF. pose proof (ts_loop_spec lo hi (i_chain i) 0%N) as TS. rewrite T in TS.
      now apply (forallb_Forall _ _ _ (window_ok_iff lo hi)).
  Qed.

  Hypothesis P9 : Forall (Inside lo hi) (i_chain i).

  Lemma to_shape_step : verify_authentic_timestamp i =
    match shape_check (k_tsalen (i_tok i)) (k_rev (i_tok i)) with
    | Some w => Failed w
    | None => match rev_check (k_rev (i_tok i)) with Some w => Failed w | None => Passed end
    end.
  Proof.
    rewrite to_last_steps.
    pose proof (ts_loop_spec lo hi (i_chain i) 0%N) as TS.
    destruct (ts_loop lo hi (i_chain i) 0%N) as [w|]; [|reflexivity].
    exfalso. destruct TS as [F _].
    apply (forallb_Forall _ _ _ (window_ok_iff lo hi)) in P9. congruence.
  Qed.

  Lemma step_rev_error : k_rev (i_tok i) = VErr -> verify_authentic_timestamp i = Failed WRevErr.
  Proof. intros R. rewrite to_shape_step, R. reflexivity. Qed.

  (* the validator answered with one non-nil result per certificate of the TSA chain *)
  Hypothesis P10 : shape_ok (k_tsalen (i_tok i)) (k_rev (i_tok i)) = true.

  Lemma to_rev_step : verify_authentic_timestamp i =
    match rev_check (k_rev (i_tok i)) with Some w => Failed w | None => Passed end.
  Proof.
    rewrite to_shape_step.
    pose proof (shape_check_spec (k_tsalen (i_tok i)) (k_rev (i_tok i))) as SH.
    destruct (shape_check (k_tsalen (i_tok i)) (k_rev (i_tok i))) as [w|]; [|reflexivity].
    destruct SH as [F _]. congruence.
  Qed.

  Lemma step_revoked_names : forall rs, k_rev (i_tok i) = VRes rs -> In RRevoked rs ->
    exists k, nth_error rs k = Some RRevoked /\ ~ In RRevoked (firstn k rs) /\
              verify_authentic_timestamp i = Failed (WRevoked (N.of_nat k)).
  Proof.
    intros rs R Hin. rewrite to_rev_step, R.
    destruct (rev_check_revoked rs Hin) as (j & Hn & Hf & ->). now exists j.
  Qed.

  Lemma step_unknown_names : forall rs, k_rev (i_tok i) = VRes rs -> ~ In RRevoked rs ->
    ~ Forall (fun r => r = ROK \/ r = RNonRevokable) rs ->
    exists k r, nth_error rs k = Some r /\ r <> ROK /\ r <> RNonRevokable /\
                Forall (fun r => r = ROK \/ r = RNonRevokable) (firstn k rs) /\
                verify_authentic_timestamp i = Failed (WRevUnknown (N.of_nat k)).
  Proof.
    intros rs R NR NF. rewrite to_rev_step, R.
    assert (NOK : forallb is_ok rs = false).
    { destruct (forallb is_ok rs) eqn:F; [|reflexivity]. exfalso. apply NF.
      now apply (forallb_Forall is_ok _ rs is_ok_iff). }
    destruct (rev_check_unknown rs NR NOK) as (j & r & Hn & Hk & Hf & ->).
    exists j, r. split; [exact Hn|]. split; [intros ->; discriminate|].
    split; [intros ->; discriminate|]. split; [|reflexivity].
    now apply (forallb_Forall is_ok _ _ is_ok_iff).
  Qed.
End LastSteps.

(* ================= the clock is read twice ================= *)

(* verifyExpiry and verifyTimestamp each call time.Now(); [model] hands both the
   same [i_now]. [model2 te i] lets the expiry validation read [te] and the
   authentic-timestamp validation [i_now i]. *)
Definition model2 (te : Z) (i : input) : obs :=
  let e := verify_expiry te (i_expiry i) in
  if enforced (i_aexp i) && negb e then mk_obs (Some false) None true
  else
    let r := verify_authentic_timestamp i in
    mk_obs (Some e) (Some r) (enforced (i_ats i) && is_failed r).

Theorem two_clock_reads : forall te i,
  model2 (i_now i) i = model i /\
  o_expiry (model2 te i) = o_expiry (model (with_now i te)) /\
  (o_ts (model2 te i) = None \/ o_ts (model2 te i) = Some (verify_authentic_timestamp i)) /\
  (o_ts (model2 te i) = None <-> i_aexp i = Enforce /\ exists e, i_expiry i = Some e /\ e <= te).
Proof.
  intros te i. split; [reflexivity|]. split; [|split].
  - rewrite o_expiry_model. cbn [with_now i_now i_expiry]. unfold model2.
    destruct (enforced (i_aexp i) && negb (verify_expiry te (i_expiry i))) eqn:E; cbn [o_expiry]; [|reflexivity].
    apply andb_true_iff in E. destruct E as [_ E].
    destruct (verify_expiry te (i_expiry i)); [discriminate | reflexivity].
  - unfold model2. destruct (enforced (i_aexp i) && negb (verify_expiry te (i_expiry i))); cbn [o_ts]; auto.
  - pose proof (stops_iff (with_now i te)) as ST. cbn [with_now i_now i_expiry i_aexp] in ST.
    rewrite <- ST. unfold model2.
    destruct (enforced (i_aexp i) && negb (verify_expiry te (i_expiry i))); cbn [o_ts];
      split; try reflexivity; discriminate.
Qed.

(* ================= "unrevoked TSA" at full strength, no contract on the validator ================= *)

(* whatever the revocation validator answers: if the authentic-timestamp validation passes
   while timestamp verification applies, the validator reported exactly one result per
   certificate of the TSA chain and every one of them is OK or non-revokable *)
Theorem unrevoked_tsa : forall i, i_scheme i = X509 -> Applies i ->
  verify_authentic_timestamp i = Passed ->
  exists rs, k_rev (i_tok i) = VRes rs /\
    List.length rs = N.to_nat (k_tsalen (i_tok i)) /\
    forall j, (j < N.to_nat (k_tsalen (i_tok i)))%nat ->
      nth_error rs j = Some ROK \/ nth_error rs j = Some RNonRevokable.
Proof.
  intros i S A P. destruct (passes_only_if i P) as (_ & _ & T). specialize (T S A).
  destruct T as (_ & _ & _ & _ & _ & _ & _ & _ & _ & rs & R & L & F).
  exists rs. split; [exact R|]. assert (L' : List.length rs = N.to_nat (k_tsalen (i_tok i))) by lia.
  split; [exact L'|]. intros j Hj. rewrite <- L' in Hj.
  destruct (nth_error rs j) as [r|] eqn:E; [|apply nth_error_None in E; lia].
  rewrite Forall_forall in F. destruct (F r (nth_error_In _ _ E)) as [-> | ->]; auto.
Qed.

(* the answers that used to slip through: a vector of another length than the TSA chain
   (shorter: passed; longer: index out of range) or with a nil entry never passes *)
Theorem bad_shape_never_passes : forall i rs, i_scheme i = X509 -> Applies i ->
  k_rev (i_tok i) = VRes rs ->
  (N.of_nat (List.length rs) <> k_tsalen (i_tok i) \/ In RNil rs) ->
  verify_authentic_timestamp i <> Passed.
Proof.
  intros i rs S A R Bad P. destruct (unrevoked_tsa i S A P) as (rs' & R' & L & F).
  rewrite R in R'. inversion R'; subst rs'. destruct Bad as [NE | Hin]; [lia|].
  apply In_nth_error in Hin. destruct Hin as [j Hj].
  assert (Hlt : (j < N.to_nat (k_tsalen (i_tok i)))%nat).
  { rewrite <- L. apply nth_error_Some. congruence. }
  destruct (F j Hlt) as [E|E]; rewrite Hj in E; discriminate.
Qed.
