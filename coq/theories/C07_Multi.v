(* C07_Multi.v — one artifact signed SEVERAL times (k calls of notation.SignOCI,
   by the same or by different signers, each with its own user metadata and
   expiry) and then verified ONCE with notation.Verify:
     notation.Verify: argument check, the loop over the listed signature
       manifests (MaxSignatureAttempts, FetchSignatureBlob, verifier.Verify,
       continue on failure, stop at the first success), the result assembly
       (attempt limit, no signature, all failed, success)          (notation.go)
     verifier.Verify: processSignature's order authenticity -> expiry
       (verifyExpiry: !time.Now().Before(expiry)), then the descriptor and the
       user-metadata checks of the single-signature model        (verifier/verifier.go)
   Every signature is produced and judged by the pipeline of C07_Model (same
   [sign], same [verify_oci]); this file adds what happens BETWEEN signatures.
   Also here: ONE signature (OCI or blob) verified at a given time ([verify_at],
   [model_at]): the expiry check placed into the single-signature pipeline.
   Not modelled: the repository (which signatures it lists, in which order, is
   the input [mi_order]; it lists them in one page, as registry.Repository does
   over an OCI layout or a memory store), the clock ([mi_vnow]).
   Definitions only. *)
From NV Require Import Base Generated C07_Model.
Open Scope string_scope.
Open Scope list_scope.

(* one notation.SignOCI call *)
Record mstep := mk_mstep {
  ms_signer : signer; ms_ks : keyspec; ms_format : string; ms_meta : amap; ms_dur : Z;
  ms_agent : string; ms_now : Z;
  ms_trusted : bool }.     (* the verification policy trusts this signer's certificate chain *)

Record minput := mk_minput {
  mi_desc : descr;         (* what the reference resolves to when signing *)
  mi_consts : consts;
  mi_steps : list mstep;   (* the SignOCI calls, in call order *)
  mi_order : list N;       (* the order in which the repository lists the signature manifests at
                              verification, by index of the call that made them *)
  mi_vdesc : descr;        (* what the reference resolves to when verifying *)
  mi_vmeta : amap;         (* VerifyOptions.UserMetadata *)
  mi_vnow : Z;             (* the clock during Verify, ns *)
  mi_max : Z }.            (* VerifyOptions.MaxSignatureAttempts *)

(* the single-signature input of step [s] *)
Definition step_input (mi : minput) (s : mstep) : input :=
  mk_input (TOCI (mi_desc mi)) (ms_signer s) (ms_ks s) (ms_format s) (ms_meta s) (ms_dur s) (ms_agent s)
           (ms_now s) (mi_consts mi) (ms_trusted s) (TOCI (mi_vdesc mi)) (mi_vmeta mi).

(* the signing API over the concrete codec of C07_Model.model *)
Definition csign : input -> sres descr :=
  sign descr (fun d => d) dec_descr (fun _ => ["targetArtifact"]) present_keys
       (fun d => set_size d (jws_number (d_size d))).

(* verifier.go: verifyExpiry *)
Definition expired (vnow : Z) (e : envelope descr) : bool :=
  match e_expiry descr e with
  | Some x => negb (vnow <? x * second)%Z
  | None => false
  end.

(* verifier.Verify on one signature (strict level): authenticity, expiry, then
   descriptor and user metadata. Codes as o_verify of C07_Model, plus 6 = expired *)
Definition verify_one (mi : minput) (s : mstep) (e : envelope descr) : vres :=
  if negb (ms_trusted s) then vfail 1 None
  else if expired (mi_vnow mi) e then vfail 6 None
  else verify_oci descr dec_descr (step_input mi s) e (mi_vdesc mi).

Record mobs := mk_mobs {
  mo_signs : list N;          (* result class of every SignOCI call (o_sign) *)
  mo_code : N;                (* notation.Verify: 0 ok; 10 every processed signature failed; 11 attempt limit
                                 exceeded; 12 no signature associated; 13 MaxSignatureAttempts <= 0 *)
  mo_fetched : list N;        (* signature blobs downloaded, in order, by step index *)
  mo_tried : list (N * N);    (* verifier.Verify calls in order: (step index, result class) *)
  mo_winner : option N;       (* step index of the signature whose outcome is returned *)
  mo_ret : option descr;      (* descriptor returned by notation.Verify *)
  mo_meta : option amap }.    (* outcomes[0].UserMetadata() *)

(* the envelope a step stored in the repository, if its SignOCI succeeded *)
Definition stored (mi : minput) (k : N) : option (mstep * envelope descr) :=
  match nth_error (mi_steps mi) (N.to_nat k) with
  | None => None
  | Some s => match r_env descr (csign (step_input mi s)) with
              | Some e => Some (s, e)
              | None => None
              end
  end.

(* state of the loop of notation.Verify *)
Record lstate := mk_lstate {
  l_processed : Z;                       (* numOfSignatureProcessed *)
  l_fetched : list N;
  l_tried : list (N * N);
  l_won : option (N * vres) }.           (* verificationSucceeded, with the outcome *)

(* the callback of ListSignatures over one page: for _, sigManifestDesc := range ... *)
Fixpoint vloop (mi : minput) (l : list N) (st : lstate) : lstate :=
  match l with
  | [] => st
  | k :: l' =>
      if (mi_max mi <=? l_processed st)%Z then st                     (* break *)
      else match stored mi k with
           | None => vloop mi l' st                                    (* no such manifest in the listing *)
           | Some (s, e) =>
               let v := verify_one mi s e in
               let st' := mk_lstate (l_processed st + 1) (l_fetched st ++ [k])
                                    (l_tried st ++ [(k, v_code v)]) None in
               if (v_code v =? 0)%N
               then mk_lstate (l_processed st') (l_fetched st') (l_tried st') (Some (k, v))  (* return errDoneVerification *)
               else vloop mi l' st'                                    (* continue *)
           end
  end.

Definition lstate0 : lstate := mk_lstate 0 [] [] None.

Definition sign_codes (mi : minput) : list N :=
  map (fun s => r_err descr (csign (step_input mi s))) (mi_steps mi).

(* notation.Verify *)
Definition mverify (mi : minput) : mobs :=
  let signs := sign_codes mi in
  if (mi_max mi <=? 0)%Z then mk_mobs signs 13 [] [] None None None
  else
    let st := vloop mi (mi_order mi) lstate0 in
    match l_won st with
    | Some (k, v) => mk_mobs signs 0 (l_fetched st) (l_tried st) (Some k) (v_ret v) (v_meta v)
    | None =>
        let code := if (mi_max mi <=? l_processed st)%Z then 11%N
                    else if (l_processed st =? 0)%Z then 12%N else 10%N in
        mk_mobs signs code (l_fetched st) (l_tried st) None None None
    end.

Definition mmodel : minput -> mobs := mverify.

(* ===================== equalities ===================== *)

Definition nn_eqb (a b : N * N) : bool := (fst a =? fst b)%N && (snd a =? snd b)%N.

Definition mobs_eqb (a b : mobs) : bool :=
  list_eqb N.eqb (mo_signs a) (mo_signs b) && (mo_code a =? mo_code b)%N
  && list_eqb N.eqb (mo_fetched a) (mo_fetched b) && list_eqb nn_eqb (mo_tried a) (mo_tried b)
  && opt_eqb N.eqb (mo_winner a) (mo_winner b)
  && opt_eqb descr_eqb (mo_ret a) (mo_ret b) && opt_eqb amap_eqb (mo_meta a) (mo_meta b).

(* ===================== the property oracle (on observations only) ===================== *)

(* what step [s] must have signed: the resolved descriptor reduced to media
   type, digest, size, annotations + user metadata *)
Definition signed_of (mi : minput) (s : mstep) : descr :=
  let d := mi_desc mi in
  mk_descr (d_mt d) (d_digest d) (d_size d) [] (d_anns d ++ ms_meta s) "" "" "".

(* when Verify runs, the signature of step [s] has expired (expiry = signing
   time truncated to seconds + the requested duration) *)
Definition step_expired (mi : minput) (s : mstep) : bool :=
  negb (ms_dur s =? 0)%Z && negb (mi_vnow mi <? (ms_now s / second + ms_dur s / second) * second)%Z.

(* the signature of step [s] is one the property promises success for: signer
   trusted, not expired, same content, demanded metadata signed *)
Definition satisfies (mi : minput) (s : mstep) : bool :=
  ms_trusted s && negb (step_expired mi s)
  && content_equal (signed_of mi s) (mi_vdesc mi)
  && submap (mi_vmeta mi) (d_anns (signed_of mi s)).

Definition step_sat (mi : minput) (k : N) : bool :=
  match nth_error (mi_steps mi) (N.to_nat k) with
  | Some s => satisfies mi s
  | None => false
  end.

Fixpoint nodup_N (l : list N) : bool :=
  match l with
  | [] => true
  | k :: l' => negb (existsb (N.eqb k) l') && nodup_N l'
  end.

(* input contract: every step is a well-formed single-signature input, the
   listing names existing signatures, each at most once, the attempt limit is
   positive *)
Definition mwf (mi : minput) : bool :=
  forallb (fun s => wf (step_input mi s)) (mi_steps mi)
  && forallb (fun k => (k <? N.of_nat (List.length (mi_steps mi)))%N) (mi_order mi)
  && nodup_N (mi_order mi)
  && (0 <? mi_max mi)%Z.

(* the first listed signature, among the first MaxSignatureAttempts, that satisfies the request *)
Definition first_sat (mi : minput) : option N :=
  find (step_sat mi) (firstn (Z.to_nat (mi_max mi)) (mi_order mi)).

Definition mspec_ok (mi : minput) (o : mobs) : bool :=
  if negb (mwf mi) then true
  else
    forallb (fun c => (c =? 0)%N) (mo_signs o)
    && (List.length (mo_signs o) =? List.length (mi_steps mi))%nat
    && match first_sat mi with
       | Some k =>
           (mo_code o =? 0)%N && opt_eqb N.eqb (mo_winner o) (Some k)
           && opt_eqb descr_eqb (mo_ret o) (Some (mi_vdesc mi))
           && match nth_error (mi_steps mi) (N.to_nat k) with
              | Some s => opt_eqb amap_eqb (mo_meta o) (Some (d_anns (signed_of mi s)))
              | None => false
              end
       | None =>
           negb (mo_code o =? 0)%N
           && match mo_winner o with None => true | Some _ => false end
           && match mo_ret o with None => true | Some _ => false end
           && match mo_meta o with None => true | Some _ => false end
       end.

(* ===================== cases ===================== *)

Record mcase := mk_mcase { mc_id : N; mc_in : minput; mc_obs : mobs }.

Definition mrun : list mcase -> list (N * N * N) :=
  run_cases mc_id (fun c => mobs_eqb (mmodel (mc_in c)) (mc_obs c)) (fun c => mspec_ok (mc_in c) (mc_obs c))
            (fun _ => 0%N).

(* ===================== one signature, verified at a given time ===================== *)

(* notation.Verify / notation.VerifyBlob of the ONE signature of C07_Model.model with the clock
   as an input: processSignature checks the expiry after authenticity and before anything that
   depends on the payload; the argument checks of VerifyBlob (code 4) and the trust decision
   (code 1) come before it *)
Definition verify_at (vnow : Z) (i : input) (e : envelope descr) : vres :=
  let v := verify descr dec_descr true i e in
  if (v_code v =? 4)%N || (v_code v =? 1)%N then v
  else if expired vnow e then vfail 6 None
  else v.

Definition model_at (vnow : Z) (i : input) : obs :=
  let s := csign i in
  match r_env descr s with
  | None => mk_obs (r_err descr s) (r_shash descr s) (r_plugsig descr s) (r_plugenv descr s) None 7 None None None
  | Some e =>
      let v := verify_at vnow i e in
      mk_obs (r_err descr s) (r_shash descr s) (r_plugsig descr s) (r_plugenv descr s)
             (Some (view descr dec_descr (fun _ => ["targetArtifact"]) present_keys e))
             (v_code v) (v_hash v) (v_ret v) (v_meta v)
  end.

(* when Verify runs, the signature has expired (expiry = signing time in seconds + duration) *)
Definition input_expired (vnow : Z) (i : input) : bool :=
  negb (i_dur i =? 0)%Z && negb (vnow <? (i_now i / second + i_dur i / second) * second)%Z.

(* the oracle: before the expiry it is the oracle of C07_Model; after it a signature of a legal
   input still has to be produced, and must not verify *)
Definition tspec_ok (vnow : Z) (i : input) (o : obs) : bool :=
  if negb (input_expired vnow i) then spec_ok i o
  else if negb (wf i) then true
  else (o_sign o =? 0)%N && negb (o_verify o =? 0)%N
       && match o_ret o with None => true | Some _ => false end
       && match o_meta o with None => true | Some _ => false end.

Record tcase := mk_tcase { tc_id : N; tc_in : input; tc_vnow : Z; tc_obs : obs }.

Definition trun : list tcase -> list (N * N * N) :=
  run_cases tc_id (fun c => obs_eqb (model_at (tc_vnow c) (tc_in c)) (tc_obs c))
            (fun c => tspec_ok (tc_vnow c) (tc_in c) (tc_obs c)) (fun _ => 0%N).

(* all kinds of case in one list *)
Inductive xcase := XS (c : case) | XM (c : mcase) | XT (c : tcase).

Definition xrun (cs : list xcase) : list (N * N * N) :=
  flat_map (fun x => match x with XS c => run [c] | XM c => mrun [c] | XT c => trun [c] end) cs.
