(* C15_Audit.v — proofs added by the theorem audit (docs/audit/C15.md).
   Statements are in props/C15_Property.v (second half). No axioms. *)
From NV Require Import Base C15_Model C15_Proofs.
Open Scope string_scope.

(* ---------- histories: splitting, lengths ---------- *)
Section Ops.
  Variable sha : string -> string.
  Variable enc : bool -> string -> option string -> string.
  Variable dec : string -> option (string * option string).
  Variable parse : string -> crlfact.
  Notation run_ops := (run_ops sha enc dec parse).
  Notation step := (step sha enc dec parse).
  Notation fname := (file_name sha).

  Lemma run_ops_app a : forall b (f : fs),
    run_ops f (a ++ b)%list =
      ((fst (fst (run_ops f a)) ++ fst (fst (run_ops (snd (run_ops f a)) b)))%list,
       (snd (fst (run_ops f a)) ++ snd (fst (run_ops (snd (run_ops f a)) b)))%list,
       snd (run_ops (snd (run_ops f a)) b)).
  Proof.
    induction a as [|o a IH]; intros b f; cbn [app C15_Model.run_ops].
    - cbn. destruct (run_ops f b) as [[rs ws] f2]. reflexivity.
    - destruct (step f o) as [[f1 r] w]. rewrite IH.
      destruct (run_ops f1 a) as [[ra wa] fa]. cbn [fst snd].
      destruct (run_ops fa b) as [[rb wb] fb]. cbn [fst snd].
      rewrite app_assoc. reflexivity.
  Qed.

  Lemma results_length_from ops : forall (f : fs),
    List.length (fst (fst (run_ops f ops))) = List.length ops.
  Proof.
    induction ops as [|o ops IH]; intros f; cbn [C15_Model.run_ops]; auto.
    destruct (step f o) as [[f1 r] w]. specialize (IH f1).
    destruct (run_ops f1 ops) as [[rs ws] f2]. cbn [fst snd List.length] in *. congruence.
  Qed.

  (* ---------- the directory, key by key ---------- *)
  (* an operation whose url has another file name leaves the file of u alone *)
  Lemma step_key_other (f : fs) o u :
    fname (op_url o) <> fname u ->
    alookup (fname u) (fst (fst (step f o))) = alookup (fname u) f.
  Proof.
    intros N. assert (fname u <> fname (op_url o)) as N' by congruence.
    destruct o as [v e bd|v t|v c|v|v]; cbn [op_url] in *; cbn [C15_Model.step fst]; auto.
    - destruct bd as [[[b|] d]|]; cbn; auto.
      destruct (alookup (fname v) f) as [[c|]|]; cbn; auto; apply alookup_aset_other; auto.
    - apply alookup_aset_other; auto.
    - apply alookup_adel_other; auto.
    - apply alookup_aset_other; auto.
  Qed.

  (* a Get, a Set of a nil bundle, a Set without base: the directory is unchanged *)
  Lemma step_untouched (f : fs) o : touches o = false -> fst (fst (step f o)) = f.
  Proof.
    destruct o as [v e bd|v t|v c|v|v]; cbn; try discriminate; auto.
    destruct bd as [[[b|] d]|]; cbn; try discriminate; auto.
  Qed.

  Lemma step_key_idle (f : fs) o u :
    (fname (op_url o) = fname u -> op_url o = u) -> idle_on u o ->
    alookup (fname u) (fst (fst (step f o))) = alookup (fname u) f.
  Proof.
    intros Hi [N|T].
    - apply step_key_other. intros E. apply N. auto.
    - rewrite step_untouched; auto.
  Qed.

  Lemma run_key_idle ops : forall (f : fs) u,
    (forall o, In o ops -> fname (op_url o) = fname u -> op_url o = u) ->
    (forall o, In o ops -> idle_on u o) ->
    alookup (fname u) (snd (run_ops f ops)) = alookup (fname u) f.
  Proof.
    induction ops as [|o ops IH]; intros f u Hi H; cbn [C15_Model.run_ops]; auto.
    pose proof (step_key_idle f o u (Hi o (or_introl eq_refl)) (H o (or_introl eq_refl))) as E.
    destruct (step f o) as [[f1 r] w]. cbn [fst] in E.
    specialize (IH f1 u (fun o' Ho' => Hi o' (or_intror Ho')) (fun o' Ho' => H o' (or_intror Ho'))).
    destruct (run_ops f1 ops) as [[rs ws] f2]. cbn [snd] in *. congruence.
  Qed.

  (* no directory sits at the key of u unless the environment planted one *)
  Lemma step_no_dir (f : fs) o u :
    (fname (op_url o) = fname u -> op_url o = u) -> o <> OMkdir u ->
    alookup (fname u) f <> Some None ->
    alookup (fname u) (fst (fst (step f o))) <> Some None.
  Proof.
    intros Hi No Hf.
    destruct (string_dec (fname (op_url o)) (fname u)) as [E|N]; [|rewrite step_key_other; auto].
    apply Hi in E.
    destruct o as [v e bd|v t|v c|v|v]; cbn [op_url] in E; subst v; cbn [C15_Model.step fst]; auto.
    - destruct bd as [[[b|] d]|]; cbn [set fst]; auto.
      destruct (alookup (fname u) f) as [[c|]|] eqn:El; cbn [fst].
      + rewrite alookup_aset_same; discriminate.
      + contradiction Hf; reflexivity.
      + rewrite alookup_aset_same; discriminate.
    - rewrite alookup_aset_same; discriminate.
    - rewrite alookup_adel_same; discriminate.
  Qed.

  Lemma run_no_dir_fs ops : forall (f : fs) u,
    (forall o, In o ops -> fname (op_url o) = fname u -> op_url o = u) ->
    (forall o, In o ops -> o <> OMkdir u) ->
    alookup (fname u) f <> Some None ->
    alookup (fname u) (snd (run_ops f ops)) <> Some None.
  Proof.
    induction ops as [|o ops IH]; intros f u Hi H Hf; cbn [C15_Model.run_ops]; auto.
    pose proof (step_no_dir f o u (Hi o (or_introl eq_refl)) (H o (or_introl eq_refl)) Hf) as E.
    destruct (step f o) as [[f1 r] w]. cbn [fst] in E.
    specialize (IH f1 u (fun o' Ho' => Hi o' (or_intror Ho')) (fun o' Ho' => H o' (or_intror Ho')) E).
    destruct (run_ops f1 ops) as [[rs ws] f2]. auto.
  Qed.
  Lemma run_ops_cons_snd (f : fs) o ops :
    snd (run_ops f (o :: ops)) = snd (run_ops (fst (fst (step f o))) ops).
  Proof.
    cbn [C15_Model.run_ops]. destruct (step f o) as [[f1 r] w]. cbn [fst].
    destruct (run_ops f1 ops) as [[rs ws] f2]. reflexivity.
  Qed.

  (* a Set with a base, when no directory is in the way, leaves the encoding in the file of u *)
  Lemma set_stores (f : fs) u e b d :
    alookup (fname u) f <> Some None ->
    alookup (fname u) (fst (fst (set sha enc f u e (Some (Some b, d))))) = Some (Some (enc e b d)).
  Proof.
    intros Hf. cbn [set].
    destruct (alookup (fname u) f) as [[c|]|] eqn:El; cbn [fst].
    - apply alookup_aset_same.
    - contradiction Hf; reflexivity.
    - apply alookup_aset_same.
  Qed.
End Ops.

(* the list of results has one element per operation: [last _ RNone] never
   falls back on its default in the theorems about a final Get *)
Theorem results_length sha enc dec parse ops :
  List.length (impl_results sha enc dec parse ops) = List.length ops.
Proof. apply results_length_from. Qed.

(* ---------- the map: operations that leave the slot of u alone ---------- *)
Section SpecIdle.
  Variable dec : string -> option (string * option string).
  Variable parse : string -> crlfact.
  Notation spec_run := (spec_run dec parse).
  Notation spec_step := (spec_step dec parse).

  Lemma step_untouched_spec s o : touches o = false -> fst (spec_step s o) = s.
  Proof.
    destruct o as [v e bd|v t|v c|v|v]; cbn; try discriminate; auto.
    destruct bd as [[[b|] d]|]; cbn; try discriminate; auto.
  Qed.

  Lemma step_idle s o u : idle_on u o -> fst (spec_step s o) u = s u.
  Proof.
    intros [N|T]; [apply step_other; auto | rewrite step_untouched_spec; auto].
  Qed.

  Lemma run_idle ops : forall s u,
    (forall o, In o ops -> idle_on u o) -> snd (spec_run s ops) u = s u.
  Proof.
    induction ops as [|o ops IH]; intros s u H; cbn [C15_Model.spec_run]; auto.
    pose proof (step_idle s o u (H o (or_introl eq_refl))) as E.
    destruct (spec_step s o) as [s1 r]. cbn [fst] in E.
    specialize (IH s1 u (fun o' Ho' => H o' (or_intror Ho'))).
    destruct (spec_run s1 ops) as [rs s2]. cbn [snd] in *. congruence.
  Qed.

  (* nothing is put at the key of u: an empty slot stays empty *)
  Lemma run_not_stored ops : forall s u,
    s u = None -> (forall o, In o ops -> op_url o = u -> stores o = false) ->
    snd (spec_run s ops) u = None.
  Proof.
    induction ops as [|o ops IH]; intros s u Hs H; cbn [C15_Model.spec_run]; auto.
    assert (fst (spec_step s o) u = None) as E.
    { destruct (string_dec (op_url o) u) as [Eu|N]; [|rewrite step_other; auto].
      pose proof (H o (or_introl eq_refl) Eu) as St.
      destruct o as [v e bd|v t|v c|v|v]; cbn [op_url] in Eu; subst v; cbn in St |- *; try discriminate; auto.
      - destruct bd as [[[b|] d]|]; cbn; try discriminate; auto.
      - apply supd_same. }
    destruct (spec_step s o) as [s1 r]. cbn [fst] in E.
    specialize (IH s1 u E (fun o' Ho' => H o' (or_intror Ho'))).
    destruct (spec_run s1 ops) as [rs s2]. auto.
  Qed.

  (* where an entry held by a url comes from: the LAST operation that touched
     the url is a Set of these very bytes, or the environment wrote a file that
     decodes to them *)
  Lemma entry_origin ops : forall s u b d,
    snd (spec_run s ops) u = Some (SEntry b d) ->
    (s u = Some (SEntry b d) /\ forall o, In o ops -> idle_on u o) \/
    exists pre w mid, ops = (pre ++ w :: mid)%list /\ (forall o, In o mid -> idle_on u o) /\
      ((exists e d0, w = OSet u e (Some (Some b, d0)) /\ d = norm d0) \/
       (exists c, w = OPut u c /\ dec c = Some (b, d))).
  Proof.
    induction ops as [|o ops IH]; intros s u b d H; cbn [C15_Model.spec_run] in H.
    - left. split; auto. intros o [].
    - destruct (spec_step s o) as [s1 r] eqn:Es.
      specialize (IH s1 u b d).
      destruct (spec_run s1 ops) as [rs s2]. cbn [snd] in *.
      destruct (IH H) as [[H1 Hid]|(pre & w & mid & -> & Hmid & Hw)].
      + assert (s1 = fst (spec_step s o)) as E1 by (rewrite Es; auto).
        destruct (string_dec (op_url o) u) as [Eu|N].
        * destruct (touches o) eqn:T.
          -- right. exists [], o, ops. split; [reflexivity|]. split; [auto|].
             destruct o as [v e bd|v t|v c|v|v]; cbn [op_url] in Eu; subst v; cbn in T; try discriminate.
             ++ destruct bd as [[[b0|] d0]|]; try discriminate. cbn in Es.
                destruct (s u) as [[| |]|] eqn:Esu; injection Es as <- <-;
                  try (rewrite supd_same in H1; injection H1 as <- <-; left; eauto).
                congruence.
             ++ cbn in Es. injection Es as <- <-. rewrite supd_same in H1.
                right. exists c. split; auto.
                destruct (dec c) as [[b1 d1]|]; cbn in H1; [injection H1 as <- <-; auto | discriminate].
             ++ cbn in Es. injection Es as <- <-. rewrite supd_same in H1. discriminate.
             ++ cbn in Es. injection Es as <- <-. rewrite supd_same in H1. discriminate.
          -- left. rewrite E1, step_untouched_spec in H1; auto. split; auto.
             intros o' [<-|Ho']; [right; auto | auto].
        * left. rewrite E1, step_other in H1; auto. split; auto.
          intros o' [<-|Ho']; [left; auto | auto].
      + right. exists (o :: pre), w, mid. split; [reflexivity|]. auto.
  Qed.
End SpecIdle.

(* ---------- the theorems over whole histories ---------- *)
Section Hist.
  Variable sha : string -> string.
  Variable enc : bool -> string -> option string -> string.
  Variable dec : string -> option (string * option string).
  Variable parse : string -> crlfact.
  Notation results := (impl_results sha enc dec parse).
  Notation fname := (file_name sha).

  (* Get u after the LAST Set u that reached the file: whatever happened before
     (earlier Sets of u included), and whatever happens in between on other
     urls, or on u itself as long as it is a Get or a refused Set *)
  Theorem get_after_last_set pre mid u e b d t :
    let ops := (pre ++ OSet u e (Some (Some b, d)) :: mid)%list in
    inj_on sha (urls (ops ++ [OGet u t])) -> roundtrip_on enc dec (ops ++ [OGet u t]) ->
    (forall o, In o pre -> o <> OMkdir u) ->
    (forall o, In o mid -> idle_on u o) ->
    last (results (ops ++ [OGet u t])%list) RNone = get_entry parse b (norm d) t.
  Proof.
    intros ops Hi Hr Hpre Hmid. rewrite final_get; auto.
    unfold ops, map_after. rewrite spec_run_app. cbn [snd].
    assert (snd (spec_run dec parse sempty pre) u <> Some SDir) as Hnd.
    { apply run_no_dir; auto. cbn. discriminate. }
    set (s0 := snd (spec_run dec parse sempty pre)) in *.
    cbn [C15_Model.spec_run spec_step].
    assert (exists s1, (match s0 u with
                        | Some SDir => (s0, RErr 9)
                        | _ => (supd u (Some (SEntry b (norm d))) s0, ROk)
                        end) = (s1, ROk) /\ s1 u = Some (SEntry b (norm d))) as (s1 & -> & E1).
    { destruct (s0 u) as [[| |]|]; try (eexists; split; [reflexivity|apply supd_same]).
      contradiction Hnd; auto. }
    pose proof (run_idle dec parse mid s1 u Hmid) as Eo.
    destruct (spec_run dec parse s1 mid) as [rs s2]. cbn [snd] in *.
    rewrite Eo, E1. reflexivity.
  Qed.

  (* the clause as worded: while neither part has passed its NextUpdate, the
     bundle has exactly the bytes last stored — for bytes that are the DER of a
     CRL as the parser reads it (Raw = the bytes themselves) *)
  Theorem exact_bytes_partial pre mid u e b d t nb :
    let ops := (pre ++ OSet u e (Some (Some b, d)) :: mid)%list in
    inj_on sha (urls (ops ++ [OGet u t])) -> roundtrip_on enc dec (ops ++ [OGet u t]) ->
    (forall o, In o pre -> o <> OMkdir u) ->
    (forall o, In o mid -> idle_on u o) ->
    parse b = POk b (Some nb) -> (t <= nb)%Z ->
    (forall dd, norm d = Some dd -> exists nd, parse dd = POk dd (Some nd) /\ (t <= nd)%Z) ->
    last (results (ops ++ [OGet u t])%list) RNone = RHit b (norm d).
  Proof.
    intros ops Hi Hr Hpre Hmid Hb Lb Hd.
    unfold ops. rewrite get_after_last_set; auto.
    apply hit_iff. split; [eauto|].
    destruct (norm d) as [dd|]; auto.
    destruct (Hd dd eq_refl) as (nd & Hp & Ld). eauto.
  Qed.

  (* "only": a bundle answered by a final Get has the bytes of the LAST operation
     that touched the url — a Set of them, or a file planted by the environment
     that decodes to them — and both parts are fresh at the time of the call *)
  Theorem hit_only_last_store ops u t b' d' :
    inj_on sha (urls (ops ++ [OGet u t])) -> roundtrip_on enc dec (ops ++ [OGet u t]) ->
    last (results (ops ++ [OGet u t])%list) RNone = RHit b' d' ->
    exists pre w mid b d,
      ops = (pre ++ w :: mid)%list /\ (forall o, In o mid -> idle_on u o) /\
      ((exists e d0, w = OSet u e (Some (Some b, d0)) /\ d = norm d0) \/
       (exists c, w = OPut u c /\ dec c = Some (b, d))) /\
      (exists nb, parse b = POk b' (Some nb) /\ (t <= nb)%Z) /\
      match d with
      | None => d' = None
      | Some dd => exists rd nd, d' = Some rd /\ parse dd = POk rd (Some nd) /\ (t <= nd)%Z
      end.
  Proof.
    intros Hi Hr H. rewrite final_get in H; auto.
    destruct (map_after dec parse ops u) as [[b d| |]|] eqn:Em; cbn in H; try discriminate.
    apply hit_iff in H as [Hb Hd].
    unfold map_after in Em. apply entry_origin in Em as [[E _]|(pre & w & mid & -> & Hmid & Hw)].
    - discriminate.
    - exists pre, w, mid, b, d. repeat split; auto.
  Qed.

  (* for histories of store / read operations only, the origin is a Set *)
  Theorem hit_only_last_set ops u t b' d' :
    inj_on sha (urls (ops ++ [OGet u t])) -> roundtrip_on enc dec (ops ++ [OGet u t]) ->
    forallb is_api ops = true ->
    last (results (ops ++ [OGet u t])%list) RNone = RHit b' d' ->
    exists pre e b d mid,
      ops = (pre ++ OSet u e (Some (Some b, d)) :: mid)%list /\ (forall o, In o mid -> idle_on u o) /\
      (exists nb, parse b = POk b' (Some nb) /\ (t <= nb)%Z) /\
      match norm d with
      | None => d' = None
      | Some dd => exists rd nd, d' = Some rd /\ parse dd = POk rd (Some nd) /\ (t <= nd)%Z
      end.
  Proof.
    intros Hi Hr Ha H.
    destruct (hit_only_last_store ops u t b' d' Hi Hr H) as (pre & w & mid & b & d & -> & Hmid & Hw & Hb & Hd).
    destruct Hw as [(e & d0 & -> & ->)|(c & -> & _)].
    - exists pre, e, b, d0, mid. auto.
    - rewrite forallb_forall in Ha. specialize (Ha (OPut u c)). cbn in Ha.
      assert (false = true) by (apply Ha; apply in_or_app; right; left; reflexivity). discriminate.
  Qed.

  (* a url at whose key nothing was ever put (Gets, refused Sets and removals of
     that url, and anything on other urls, are allowed): cache miss *)
  Theorem never_stored_miss ops u t :
    inj_on sha (urls (ops ++ [OGet u t])) -> roundtrip_on enc dec (ops ++ [OGet u t]) ->
    (forall o, In o ops -> op_url o = u -> stores o = false) ->
    last (results (ops ++ [OGet u t])%list) RNone = RMiss 0.
  Proof.
    intros Hi Hr H. rewrite final_get; auto. unfold map_after.
    rewrite run_not_stored; auto.
  Qed.

  (* an entry removed from the directory and not stored again: cache miss *)
  Theorem deleted_miss pre mid u t :
    let ops := (pre ++ ODel u :: mid)%list in
    inj_on sha (urls (ops ++ [OGet u t])) -> roundtrip_on enc dec (ops ++ [OGet u t]) ->
    (forall o, In o mid -> op_url o = u -> stores o = false) ->
    last (results (ops ++ [OGet u t])%list) RNone = RMiss 0.
  Proof.
    intros ops Hi Hr H. rewrite final_get; auto. unfold ops, map_after.
    rewrite spec_run_app. cbn [snd C15_Model.spec_run spec_step].
    set (s1 := supd u None (snd (spec_run dec parse sempty pre))).
    pose proof (run_not_stored dec parse mid s1 u (supd_same _ _ _) H) as E.
    destruct (spec_run dec parse s1 mid) as [rs s2]. cbn [snd] in *. rewrite E. reflexivity.
  Qed.

  (* what is on disk: after the last Set of u that reached the file, the file of
     u holds exactly the encoding of the bytes handed to that Set *)
  Theorem file_after_set pre mid u e b d :
    let ops := (pre ++ OSet u e (Some (Some b, d)) :: mid)%list in
    inj_on sha (urls ops) ->
    (forall o, In o pre -> o <> OMkdir u) ->
    (forall o, In o mid -> idle_on u o) ->
    alookup (fname u) (impl_files sha enc dec parse ops) = Some (Some (enc e b d)).
  Proof.
    intros ops Hi Hpre Hmid. unfold impl_files, ops.
    assert (forall o, In o ops -> fname (op_url o) = fname u -> op_url o = u) as Hk.
    { intros o Ho E. apply hex_inj in E. apply Hi; auto.
      - apply in_map; auto.
      - apply in_map with (f := op_url) (x := OSet u e (Some (Some b, d))).
        unfold ops. apply in_or_app. right. left. reflexivity. }
    rewrite run_ops_app. cbn [snd].
    set (f0 := snd (run_ops sha enc dec parse [] pre)).
    assert (alookup (fname u) f0 <> Some None) as Hnd.
    { apply run_no_dir_fs; auto.
      - intros o Ho. apply Hk. unfold ops. apply in_or_app; auto.
      - cbn. discriminate. }
    rewrite run_ops_cons_snd.
    pose proof (set_stores sha enc f0 u e b d Hnd) as E1. cbn [step].
    set (f1 := fst (fst (set sha enc f0 u e (Some (Some b, d))))) in *.
    rewrite run_key_idle; auto.
    intros o Ho. apply Hk. unfold ops. apply in_or_app. right. right. auto.
  Qed.
End Hist.

(* ---------- Get and Set on an ARBITRARY directory (no history, no hypothesis) ---------- *)
Section Direct.
  Variable sha : string -> string.
  Variable enc : bool -> string -> option string -> string.
  Variable dec : string -> option (string * option string).
  Variable parse : string -> crlfact.
  Notation fname := (file_name sha).
  Notation get := (get sha dec parse).

  (* a bundle iff the file at the hashed name is a regular file that decodes,
     both parts parse, carry a NextUpdate, and neither has passed *)
  Theorem get_hit_iff (f : fs) u t b' d' :
    get f u t = RHit b' d' <->
    exists c b d, alookup (fname u) f = Some (Some c) /\ dec c = Some (b, d) /\
      (exists nb, parse b = POk b' (Some nb) /\ (t <= nb)%Z) /\
      match d with
      | None => d' = None
      | Some dd => exists rd nd, d' = Some rd /\ parse dd = POk rd (Some nd) /\ (t <= nd)%Z
      end.
  Proof.
    unfold C15_Model.get. split.
    - destruct (alookup (fname u) f) as [[c|]|]; try discriminate.
      destruct (dec c) as [[b d]|] eqn:Ed; try discriminate.
      intros H. apply hit_iff in H. exists c, b, d. tauto.
    - intros (c & b & d & -> & -> & H). apply hit_iff. auto.
  Qed.

  (* the entry level: a miss iff the base parses with a NextUpdate, the delta (if
     any) parses, and the base has expired (1) or, the base being fresh, the
     delta has a NextUpdate that has passed (2) *)
  Lemma entry_miss_iff b d t k :
    get_entry parse b d t = RMiss k <->
    exists rb nb, parse b = POk rb (Some nb) /\
      match d with
      | None => (t > nb)%Z /\ k = 1%N
      | Some dd => exists rd ond, parse dd = POk rd ond /\
          (((t > nb)%Z /\ k = 1%N) \/
           ((t <= nb)%Z /\ exists nd, ond = Some nd /\ (t > nd)%Z /\ k = 2%N))
      end.
  Proof.
    unfold get_entry, check_expiry. split.
    - destruct (parse b) as [|rb [nb|]] eqn:Eb.
      + discriminate.
      + destruct d as [dd|].
        * destruct (parse dd) as [|rd ond] eqn:Ed; try discriminate.
          destruct (t >? nb)%Z eqn:E1.
          -- intros H; injection H as <-. exists rb, nb. split; auto. exists rd, ond. split; auto. left. split; auto; zb.
          -- destruct ond as [nd|]; try discriminate.
             destruct (t >? nd)%Z eqn:E2; try discriminate.
             intros H; injection H as <-. exists rb, nb. split; auto. exists rd, (Some nd). split; auto.
             right. split; [zb|]. exists nd. repeat split; auto; zb.
        * destruct (t >? nb)%Z eqn:E1; try discriminate.
          intros H; injection H as <-. exists rb, nb. repeat split; auto; zb.
      + destruct d as [dd|]; [destruct (parse dd) as [|rd nd]|]; discriminate.
    - intros (rb & nb & -> & H). destruct d as [dd|].
      + destruct H as (rd & ond & -> & [[L ->]|(L & nd & -> & L2 & ->)]).
        * assert ((t >? nb)%Z = true) as -> by zb. reflexivity.
        * assert ((t >? nb)%Z = false) as -> by zb.
          assert ((t >? nd)%Z = true) as -> by zb. reflexivity.
      + destruct H as [L ->]. assert ((t >? nb)%Z = true) as -> by zb. reflexivity.
  Qed.

  (* a cache miss iff there is no file (0), or the file is a well-formed entry a
     part of which has expired *)
  Theorem get_miss_iff (f : fs) u t k :
    get f u t = RMiss k <->
    (alookup (fname u) f = None /\ k = 0%N) \/
    exists c b d, alookup (fname u) f = Some (Some c) /\ dec c = Some (b, d) /\
      exists rb nb, parse b = POk rb (Some nb) /\
        match d with
        | None => (t > nb)%Z /\ k = 1%N
        | Some dd => exists rd ond, parse dd = POk rd ond /\
            (((t > nb)%Z /\ k = 1%N) \/
             ((t <= nb)%Z /\ exists nd, ond = Some nd /\ (t > nd)%Z /\ k = 2%N))
        end.
  Proof.
    unfold C15_Model.get. split.
    - destruct (alookup (fname u) f) as [[c|]|].
      + destruct (dec c) as [[b d]|] eqn:Ed; try discriminate.
        intros H. apply entry_miss_iff in H. right. exists c, b, d. auto.
      + discriminate.
      + intros H; injection H as <-. left; auto.
    - intros [[-> ->]|(c & b & d & -> & -> & H)]; auto. apply entry_miss_iff; auto.
  Qed.

  (* Get changes nothing *)
  Theorem get_changes_nothing (f : fs) u t :
    step sha enc dec parse f (OGet u t) = (f, get f u t, []).
  Proof. reflexivity. Qed.

  (* Set: no file of ANY other name changes; a Set that does not answer nil
     changes nothing at all; a Set that answers nil has left exactly the
     encoding of its bundle in the file of its url; the only destination ever
     handed to file.WriteFile is that file *)
  Theorem set_frame (f : fs) u e bd :
    let f' := fst (fst (set sha enc f u e bd)) in
    let r := snd (fst (set sha enc f u e bd)) in
    let w := snd (set sha enc f u e bd) in
    (forall n, n <> fname u -> alookup n f' = alookup n f) /\
    (r <> ROk -> f' = f) /\
    (r = ROk -> exists b d, bd = Some (Some b, d) /\ alookup (fname u) f' = Some (Some (enc e b d))) /\
    (w = [] \/ w = [fname u]).
  Proof.
    destruct bd as [[[b|] d]|]; cbn.
    - destruct (alookup (fname u) f) as [[c|]|] eqn:El; cbn; repeat split; auto;
        try (intros n Hn; apply alookup_aset_other; auto);
        try (intros H; contradiction H; reflexivity);
        try (intros _; exists b, d; split; auto; apply alookup_aset_same);
        discriminate.
    - repeat split; auto; discriminate.
    - repeat split; auto; discriminate.
  Qed.
End Direct.

(* ---------- the path ---------- *)
Lemma dir_base_plain n : contains_byte "/" n = false -> dir_base n = (None, n).
Proof.
  induction n as [|a n IH]; cbn; auto.
  intros H. apply orb_false_iff in H as [Ha Hn]. rewrite IH; auto. rewrite Ha. reflexivity.
Qed.

Lemma dir_base_join r n : contains_byte "/" n = false -> dir_base (join r n) = (Some r, n).
Proof.
  intros H. unfold join. induction r as [|a r IH]; cbn [append dir_base].
  - rewrite dir_base_plain; auto.
  - cbn [append] in IH. rewrite IH. reflexivity.
Qed.

Lemma contains_byte_app c a b : contains_byte c (a ++ b) = contains_byte c a || contains_byte c b.
Proof. induction a as [|x a IH]; cbn; auto. rewrite IH, orb_assoc. reflexivity. Qed.

(* the path opened by Get / written by Set is a direct child of the root whose
   name is neither empty (for a non-empty digest), "." nor ".."; for a 32-byte
   digest it is 64 characters long *)
Theorem in_root_child sha u :
  dir_base (entry_path sha u) = (Some root, file_name sha u) /\
  file_name sha u <> "." /\ file_name sha u <> ".." /\
  (sha u <> "" -> file_name sha u <> "") /\
  (String.length (sha u) = 32 -> String.length (file_name sha u) = 64).
Proof.
  pose proof (file_name_no_byte sha u) as Hn.
  assert (contains_byte "." (file_name sha u) = false) as Hdot by (apply Hn; reflexivity).
  split; [apply dir_base_join; apply Hn; reflexivity|].
  split; [intros E; rewrite E in Hdot; discriminate|].
  split; [intros E; rewrite E in Hdot; discriminate|].
  split.
  - intros Hs E. apply Hs. apply (f_equal String.length) in E.
    rewrite (proj2 (file_name_shape sha u)) in E. destruct (sha u); [auto|cbn in E; discriminate E].
  - intros L. rewrite (proj2 (file_name_shape sha u)), L. reflexivity.
Qed.

(* a temporary file of file.WriteFile (root/notation-<digits>) is never the file of a url *)
Theorem temp_never_entry sha u x : file_name sha u <> "notation-" ++ x.
Proof.
  intros E. pose proof (file_name_no_byte sha u "n" eq_refl) as H.
  rewrite E in H. cbn in H. discriminate.
Qed.

(* ---------- the literal reading of "exactly the bytes last stored" ----------
   x509.ParseRevocationList reads ONE DER element and ignores what follows it
   (crypto/x509/parser.go: ReadASN1Element, no trailing-data check).  A caller
   who hands Set a RevocationList whose Raw is a CRL followed by further bytes
   (not obtainable from the parser, only by building the struct by hand) gets
   back, from Get, the CRL without those bytes.  The file holds all bytes
   (file_after_set); the bundle does not.  Replayed on the real code: harness
   family "matrix", base W2 = F1.Raw ++ [0x00], answered "hit base=F1". *)
Theorem exact_bytes_literal_refuted :
  exists i u b b' t,
    wf i = true /\ facts_cover i = true /\
    i_ops i = [OSet u false (Some (Some b, None)); OGet u t] /\
    o_res (model i) = [ROk; RHit b' None] /\ b' <> b.
Proof.
  exists (mk_input [("http://h/a", "0123456789abcdef0123456789abcdef")]
                   [(enc_json false "CRL+" None, Some ("CRL+", None))]
                   [("CRL+", POk "CRL" (Some 100%Z))]
                   [OSet "http://h/a" false (Some (Some "CRL+", None)); OGet "http://h/a" 5%Z]),
         "http://h/a", "CRL+", "CRL", 5%Z.
  repeat split; try (vm_compute; reflexivity). discriminate.
Qed.

(* any sequence of operations on other urls (Sets, corruptions, removals,
   directories), from ANY directory: the file of u is not created, changed or removed *)
Theorem isolated_files sha enc dec parse ops (f : fs) u :
  (forall o, In o ops -> op_url o <> u /\ (sha (op_url o) = sha u -> op_url o = u)) ->
  alookup (file_name sha u) (snd (run_ops sha enc dec parse f ops)) = alookup (file_name sha u) f /\
  forall t, get sha dec parse (snd (run_ops sha enc dec parse f ops)) u t = get sha dec parse f u t.
Proof.
  intros H.
  assert (alookup (file_name sha u) (snd (run_ops sha enc dec parse f ops)) = alookup (file_name sha u) f) as E.
  { apply run_key_idle.
    - intros o Ho E. apply hex_inj in E. apply (H o Ho); auto.
    - intros o Ho. left. apply (H o Ho). }
  split; auto. intros t. apply get_reads_only; auto.
Qed.
