(* C01_Registry.v — proofs about the model of notation.Verify (C01_Model:
   page_loop, pages_loop, notation_verify). *)
From NV Require Import Base Regex Generated C01_Model C01_Proofs.
From Coq Require Import Lia.
Open Scope string_scope.
Open Scope list_scope.

(* ---------- the loop, for any per-signature verdict ---------- *)
Section Loop.
Variable ver : sigin -> err.
Variable max : Z.

Definition Rejected (s : sigin) : Prop := s_fetch s = true /\ ver s <> ENone.

Lemma page_loop_nil_limit : forall vs q, limit_reached max vs = true ->
  page_loop ver max vs q = (vs, CLimit).
Proof. intros vs q H. destruct q as [|s q]; simpl; rewrite H; reflexivity. Qed.

(* the page boundaries do not matter until the callback returns an error *)
Lemma page_loop_app : forall p q vs,
  page_loop ver max vs (p ++ q) =
  match page_loop ver max vs p with
  | (vs1, CCont) => page_loop ver max vs1 q
  | r => r
  end.
Proof.
  induction p as [|s p IH]; intros q vs.
  - simpl. destruct (limit_reached max vs) eqn:L; [apply page_loop_nil_limit; exact L | reflexivity].
  - simpl. destruct (limit_reached max vs); [reflexivity|].
    destruct (negb (s_fetch s)); [reflexivity|].
    destruct (ver s); try apply IH. reflexivity.
Qed.

Lemma pages_done_flat : forall pages vs vs',
  pages_loop ver max vs pages = (vs', CDone) <-> page_loop ver max vs (List.concat pages) = (vs', CDone).
Proof.
  induction pages as [|p ps IH]; intros vs vs'; simpl.
  - destruct (limit_reached max vs); split; discriminate.
  - rewrite page_loop_app. destruct (page_loop ver max vs p) as [vs1 c]. destruct c; try reflexivity. apply IH.
Qed.

Lemma flat_done_elim : forall l vs vs', page_loop ver max vs l = (vs', CDone) ->
  exists pre s post, l = pre ++ s :: post /\ Forall Rejected pre /\ s_fetch s = true /\ ver s = ENone /\
    (Z.of_nat (List.length vs + List.length pre) < max)%Z /\ vs' = vs ++ map ver pre ++ [ENone].
Proof.
  induction l as [|s l IH]; intros vs vs' H; simpl in H.
  - destruct (limit_reached max vs); discriminate.
  - destruct (limit_reached max vs) eqn:L; [discriminate|].
    destruct (s_fetch s) eqn:F; simpl in H; [|discriminate].
    unfold limit_reached in L. apply Z.leb_gt in L.
    destruct (ver s) eqn:V;
      try (apply IH in H; destruct H as [pre [s0 [post [E [R [F0 [V0 [Len E']]]]]]]];
           exists (s :: pre), s0, post; rewrite app_length in Len; simpl in Len;
           split; [rewrite E; reflexivity|]; split; [constructor; [split; [exact F | rewrite V; discriminate] | exact R]|];
           split; [exact F0|]; split; [exact V0|]; split; [simpl; lia|];
           rewrite E'; simpl; rewrite V, <- app_assoc; reflexivity).
    inversion H; subst. exists [], s, l. repeat split; auto. simpl. lia.
Qed.

Lemma flat_done_intro : forall pre s post vs, Forall Rejected pre -> s_fetch s = true -> ver s = ENone ->
  (Z.of_nat (List.length vs + List.length pre) < max)%Z ->
  page_loop ver max vs (pre ++ s :: post) = (vs ++ map ver pre ++ [ENone], CDone).
Proof.
  induction pre as [|a pre IH]; intros s post vs R F V Len; simpl.
  - assert (L : limit_reached max vs = false) by (unfold limit_reached; apply Z.leb_gt; simpl in Len; lia).
    rewrite L, F, V. reflexivity.
  - inversion R as [|x y [Fa Va] R']; subst.
    assert (L : limit_reached max vs = false) by (unfold limit_reached; apply Z.leb_gt; simpl in Len; lia).
    rewrite L, Fa. simpl.
    assert (Len' : (Z.of_nat (List.length (vs ++ [ver a]) + List.length pre) < max)%Z).
    { rewrite app_length. simpl in *. lia. }
    destruct (ver a) eqn:Va'; try (rewrite (IH s post _ R' F V Len'), <- app_assoc; reflexivity).
    exfalso. apply Va. reflexivity.
Qed.

Lemma pages_done_iff : forall pages vs',
  pages_loop ver max [] pages = (vs', CDone) <->
  exists pre s post, List.concat pages = pre ++ s :: post /\ Forall Rejected pre /\ s_fetch s = true /\
    ver s = ENone /\ (Z.of_nat (List.length pre) < max)%Z /\ vs' = map ver pre ++ [ENone].
Proof.
  intros pages vs'. rewrite pages_done_flat. split.
  - intro H. apply flat_done_elim in H. destruct H as [pre [s [post [E [R [F [V [Len E']]]]]]]].
    exists pre, s, post. simpl in *. auto 10.
  - intros [pre [s [post [E [R [F [V [Len E']]]]]]]]. rewrite E, E'.
    apply (flat_done_intro pre s post [] R F V). simpl. exact Len.
Qed.
End Loop.

(* ---------- one listed signature: verifier.Verify on the resolved descriptor ---------- *)

Lemma sig_verdict : forall l ri d s, is_skip l = false ->
  (o_err (verify_oci l (sig_input ri d s) d) = ENone <-> Verifies (r_md ri) d s).
Proof.
  intros l ri d s Hs. rewrite (verify_oci_success _ _ _ Hs). unfold Verifies, SigFacts. simpl. split.
  - intros [HI [HR [t [HD [[B1 [B2 B3]] M]]]]]. split; [exact HR|]. split; [exact HI|]. exists t. auto 10.
  - intros [HR [HI [t [HD [B1 [B2 [B3 M]]]]]]]. split; [exact HI|]. split; [exact HR|]. exists t. auto 10.
Qed.

Lemma sig_model : forall l ri d s, get_level (r_level ri) (r_override ri) = Some l ->
  model (sig_input ri d s) = verify_oci l (sig_input ri d s) d.
Proof. intros l ri d s HL. unfold model. simpl. rewrite HL. reflexivity. Qed.

(* ---------- notation.Verify ---------- *)

Lemma nv_unfold : forall ri l, get_level (r_level ri) (r_override ri) = Some l -> is_skip l = false ->
  (ro_err (notation_verify ri) = RNone <->
   (0 < r_max ri)%Z /\ exists d vs, r_resolved ri = Some d /\
     pages_loop (fun s => o_err (verify_oci l (sig_input ri d s) d)) (r_max ri) [] (r_pages ri) = (vs, CDone) /\
     notation_verify ri = mk_ro RNone (Some d) vs (ROSig (N.of_nat (List.length vs) - 1))).
Proof.
  intros ri l HL Hs. unfold notation_verify. rewrite HL, Hs.
  destruct (r_max ri <=? 0)%Z eqn:M.
  { apply Z.leb_le in M. simpl. split; [discriminate | intros [C _]; lia]. }
  apply Z.leb_gt in M.
  destruct (r_resolved ri) as [d|].
  2:{ simpl. split; [discriminate | intros [_ [d [vs [C _]]]]; discriminate]. }
  destruct (pages_loop _ (r_max ri) [] (r_pages ri)) as [vs c] eqn:P.
  destruct c.
  - destruct vs; simpl; (split; [discriminate | intros [_ [d' [vs' [E [C _]]]]]; inversion E; subst d'; rewrite P in C; discriminate]).
  - simpl. split.
    + intros _. split; [exact M|]. exists d, vs. auto.
    + reflexivity.
  - simpl. split; [discriminate | intros [_ [d' [vs' [E [C _]]]]]; inversion E; subst d'; rewrite P in C; discriminate].
  - simpl. split; [discriminate | intros [_ [d' [vs' [E [C _]]]]]; inversion E; subst d'; rewrite P in C; discriminate].
Qed.

(* success of notation.Verify, characterised: the reference resolves to d, and
   within the limit there is a first listed signature that can be fetched and
   that verifier.Verify accepts for d; everything listed before it was fetched
   and rejected *)
Theorem registry_iff : forall ri, NonSkip (r_level ri) (r_override ri) ->
  (ro_err (notation_verify ri) = RNone <->
   (0 < r_max ri)%Z /\
   exists d pre s post, r_resolved ri = Some d /\ all_sigs ri = pre ++ s :: post /\
     (Z.of_nat (List.length pre) < r_max ri)%Z /\
     Forall (fun s' => s_fetch s' = true /\ ~ Verifies (r_md ri) d s') pre /\
     s_fetch s = true /\ Verifies (r_md ri) d s).
Proof.
  intros ri [l [HL Hs]]. rewrite (nv_unfold ri l HL Hs). unfold all_sigs. split.
  - intros [M [d [vs [HR [P _]]]]]. split; [exact M|].
    apply pages_done_iff in P. destruct P as [pre [s [post [E [R [F [V [Len _]]]]]]]].
    exists d, pre, s, post. split; [exact HR|]. split; [exact E|]. split; [exact Len|]. split; [|split].
    + eapply Forall_impl; [|exact R]. intros a [Fa Va]. split; [exact Fa|].
      intro C. apply Va. apply (sig_verdict l ri d a Hs). exact C.
    + exact F.
    + apply (sig_verdict l ri d s Hs). exact V.
  - intros [M [d [pre [s [post [HR [E [Len [R [F V]]]]]]]]]]. split; [exact M|].
    set (ver := fun s0 => o_err (verify_oci l (sig_input ri d s0) d)).
    assert (P : pages_loop ver (r_max ri) [] (r_pages ri) = (map ver pre ++ [ENone], CDone)).
    { apply pages_done_iff. exists pre, s, post. split; [exact E|]. split; [|split; [exact F|split; [|split; [exact Len|reflexivity]]]].
      - eapply Forall_impl; [|exact R]. intros a [Fa Va]. split; [exact Fa|].
        intro C. apply Va. apply (sig_verdict l ri d a Hs). exact C.
      - apply (sig_verdict l ri d s Hs). exact V. }
    exists d, (map ver pre ++ [ENone]). split; [exact HR|]. split; [exact P|].
    unfold notation_verify. rewrite HL, Hs.
    assert (M' : (r_max ri <=? 0)%Z = false) by (apply Z.leb_gt; exact M).
    rewrite M', HR. fold ver. rewrite P. reflexivity.
Qed.

(* what a success returns *)
Theorem registry_sound : forall ri, NonSkip (r_level ri) (r_override ri) ->
  ro_err (notation_verify ri) = RNone ->
  exists d pre s post,
    r_resolved ri = Some d /\ all_sigs ri = pre ++ s :: post /\ (Z.of_nat (List.length pre) < r_max ri)%Z /\
    s_fetch s = true /\ s_rest s = true /\ Intact (s_env s) /\
    (exists t, e_decode (s_env s) = Some t /\ t_dg t = t_dg d /\ t_sz t = t_sz d /\ t_mt t = t_mt d /\
               (forall k v, In (k, v) (r_md ri) -> lookup k (t_ann t) = Some v)) /\
    ro_desc (notation_verify ri) = Some d /\
    ro_outs (notation_verify ri) = ROSig (N.of_nat (List.length pre)) /\
    ro_verdicts (notation_verify ri) = map (fun s' => o_err (model (sig_input ri d s'))) pre ++ [ENone] /\
    Forall (fun s' => s_fetch s' = true /\ o_err (model (sig_input ri d s')) <> ENone) pre.
Proof.
  intros ri [l [HL Hs]] H. apply (nv_unfold ri l HL Hs) in H.
  destruct H as [M [d [vs [HR [P NV]]]]].
  apply pages_done_iff in P. destruct P as [pre [s [post [E [R [F [V [Len EV]]]]]]]].
  apply (sig_verdict l ri d s Hs) in V. destruct V as [VR [VI VT]].
  exists d, pre, s, post. split; [exact HR|]. split; [exact E|]. split; [exact Len|].
  split; [exact F|]. split; [exact VR|]. split; [exact VI|]. split; [exact VT|].
  rewrite NV. simpl. split; [reflexivity|]. split; [|split].
  - rewrite EV, app_length, map_length. simpl. f_equal. lia.
  - rewrite EV. f_equal. apply map_ext. intro a. rewrite (sig_model l ri d a HL). reflexivity.
  - eapply Forall_impl; [|exact R]. intros a [Fa Va]. split; [exact Fa|].
    rewrite (sig_model l ri d a HL). exact Va.
Qed.

(* every success of notation.Verify: skip level, or accepted on the merits of one listed signature *)
Theorem registry_success_cases : forall ri, ro_err (notation_verify ri) = RNone ->
  (r_level ri = "skip" /\ r_override ri = []) \/ NonSkip (r_level ri) (r_override ri).
Proof.
  intros ri H. destruct (get_level (r_level ri) (r_override ri)) as [l|] eqn:HL.
  - destruct (is_skip l) eqn:Hs.
    + left. pose proof (proj1 (skip_iff_named _ _ _ HL) Hs) as E. split; [exact E|].
      rewrite E in HL. eapply get_level_skip_no_override; eassumption.
    + right. exists l. split; assumption.
  - unfold notation_verify in H. rewrite HL in H. discriminate.
Qed.

(* no level, override, trust store, revocation or plugin situation (the inputs
   r_level, r_override, s_rest, s_touch, none of which the hypothesis mentions),
   no limit and no paging makes notation.Verify succeed when no listed
   signature is intact, bound to the resolved descriptor and carries the
   required metadata *)
Theorem registry_no_configuration_helps : forall ri,
  (forall d s, r_resolved ri = Some d -> In s (all_sigs ri) -> ~ (s_fetch s = true /\ SigFacts (r_md ri) d s)) ->
  ro_err (notation_verify ri) = RNone ->
  r_level ri = "skip" /\ r_override ri = [].
Proof.
  intros ri HN H. destruct (registry_success_cases ri H) as [S|NS]; [exact S|].
  exfalso. destruct (registry_sound ri NS H) as [d [pre [s [post [HR [E [_ [F [_ [HI [[t HT] _]]]]]]]]]]].
  apply (HN d s HR).
  - rewrite E. apply in_or_app. right. left. reflexivity.
  - split; [exact F|]. split; [exact HI|]. exists t. exact HT.
Qed.

(* under the skip level nothing is resolved, fetched or verified *)
Theorem registry_skip : forall ri, r_level ri = "skip" -> r_override ri = [] -> (0 < r_max ri)%Z ->
  notation_verify ri = mk_ro RNone (Some zero_target) [] ROSkip.
Proof.
  intros ri HL HO M. unfold notation_verify. rewrite HL, HO.
  destruct (get_level "skip" []) as [l|] eqn:G; [|vm_compute in G; discriminate].
  assert (Hs : is_skip l = true) by (apply (skip_iff_named _ _ _ G); reflexivity).
  assert (M' : (r_max ri <=? 0)%Z = false) by (apply Z.leb_gt; exact M).
  rewrite M', Hs. reflexivity.
Qed.

(* ---------- the boolean oracle is met ---------- *)

Lemma sig_facts_ok_iff : forall md d s, sig_facts_ok md d s = true <-> s_fetch s = true /\ SigFacts md d s.
Proof.
  intros md d s. unfold sig_facts_ok, SigFacts. rewrite !andb_true_iff, intact_iff. split.
  - intros [[F I] T]. split; [exact F|]. split; [exact I|].
    destruct (e_decode (s_env s)) as [t|]; [|discriminate].
    apply andb_true_iff in T. destruct T as [B M]. apply bound_iff in B. apply md_present_iff in M.
    simpl in B. exists t. tauto.
  - intros [F [I [t [HD [B1 [B2 [B3 M]]]]]]]. split; [split; assumption|]. rewrite HD.
    apply andb_true_iff. split; [apply bound_iff; simpl; tauto | apply md_present_iff; exact M].
Qed.

Lemma target_eqb_refl : forall t, target_eqb t t = true.
Proof.
  intro t. unfold target_eqb. rewrite !String.eqb_refl, Z.eqb_refl. simpl.
  apply list_eqb_spec; [|reflexivity].
  intros [a1 b1] [a2 b2]. unfold pair_eqb. simpl. rewrite andb_true_iff, !String.eqb_eq.
  split; [intros [-> ->]; reflexivity | intro X; inversion X; auto].
Qed.

Theorem registry_meets_oracle : forall ri, rspec_ok ri (notation_verify ri) = true.
Proof.
  intro ri. unfold rspec_ok.
  destruct (get_level (r_level ri) (r_override ri)) as [l|] eqn:HL.
  2:{ unfold notation_verify. rewrite HL. reflexivity. }
  destruct (is_skip l) eqn:Hs; [reflexivity|].
  destruct (ro_err (notation_verify ri)) eqn:E; try reflexivity.
  assert (NS : NonSkip (r_level ri) (r_override ri)) by (exists l; split; assumption).
  destruct (registry_sound ri NS E) as [d [pre [s [post [HR [EA [Len [F [_ [HI [[t HT] [RD [RO [RV _]]]]]]]]]]]]]].
  rewrite HR, RO, RD, RV, EA. simpl. rewrite target_eqb_refl. simpl.
  assert (K : N.to_nat (N.of_nat (List.length pre)) = List.length pre) by apply Nnat.Nat2N.id.
  rewrite K, nth_error_app2, Nat.sub_diag by lia. simpl.
  assert (SF : sig_facts_ok (r_md ri) d s = true).
  { apply sig_facts_ok_iff. split; [exact F|]. split; [exact HI|]. exists t. exact HT. }
  rewrite SF. rewrite app_length, map_length. simpl.
  apply andb_true_iff. split; [apply andb_true_iff; split; [|reflexivity]|].
  - apply Z.ltb_lt. lia.
  - apply N.eqb_eq. lia.
Qed.
