(* C13_Compose.v — composition of C09 (only well-formed trust policy documents
   are accepted) with C13 (trust stores load only valid certificates from real
   files of the named store).
   C09 proves that every trust store value of an ACCEPTED policy document is
   ty ++ ":" ++ nm with [In ty gen_store_types] and [SafeComponent nm]; the C13
   theorems are stated for [known_type ty] and [plain_name nm]. Here the two
   vocabularies are shown to coincide, and the theorems are composed: every
   store a valid policy can name is read from exactly
   root/truststore/x509/ty/nm and from nowhere else.
   The two developments use the same identifiers (model, wf, input,
   is_valid_file_name ...): nothing is imported, every name is qualified. *)
From NV Require Import Base Regex Generated.
From NV Require C09_Model C09_Spec C09_Proofs C13_Model C13_Proofs.
Require Import Lia.
Open Scope list_scope.
Open Scope string_scope.

Module M9 := C09_Model.
Module S9 := C09_Spec.
Module P9 := C09_Proofs.
Module M13 := C13_Model.
Module P13 := C13_Proofs.

(* ---------- the two vocabularies coincide ---------- *)

(* a byte of a file name: C09's arithmetic predicate = C13's class table *)
Lemma fn_byte_iff_name_byte c : S9.fn_byte c <-> M13.name_byte c = true.
Proof.
  unfold S9.fn_byte, M13.name_byte, M13.name_class, in_cls. cbn [existsb fst snd].
  rewrite !orb_true_iff, !andb_true_iff, !N.leb_le. lia.
Qed.

(* C09's "safe path component" = C13's "plain file name" *)
Lemma safe_component_iff_plain_name nm : S9.SafeComponent nm <-> M13.plain_name nm.
Proof.
  unfold S9.SafeComponent, M13.plain_name. rewrite !Forall_forall.
  split; intros (H1 & H2 & H3 & H4); repeat split; try assumption;
    intros c Hc; apply fn_byte_iff_name_byte; auto.
Qed.

(* C09's "type of the generated table" = C13's "known type" *)
Lemma gen_type_iff_known_type ty : In ty gen_store_types <-> M13.known_type ty.
Proof. unfold M13.known_type. rewrite P13.gen_types_are_spec_types. reflexivity. Qed.

(* the two models of file.IsValidFileName are the same function *)
Lemma is_valid_file_name_same s : M9.is_valid_file_name s = M13.is_valid_file_name s.
Proof. reflexivity. Qed.

(* so the name check made when the policy is validated and the one made when
   the store is loaded accept the same names: a name accepted by the policy
   validation is never refused by GetCertificates for its name, and conversely *)
Lemma policy_name_check_iff_plain nm : M9.is_valid_file_name nm = true <-> M13.plain_name nm.
Proof. rewrite is_valid_file_name_same. apply P13.is_valid_file_name_spec. Qed.

(* ---------- the decomposition type:name is unique ---------- *)

Lemma type_name_unique ty nm ty' nm' :
  M13.known_type ty -> M13.known_type ty' ->
  ty ++ ":" ++ nm = ty' ++ ":" ++ nm' -> ty = ty' /\ nm = nm'.
Proof.
  intros H H' E.
  apply P13.known_type_cases in H. apply P13.known_type_cases in H'.
  destruct H as [-> | [-> | ->]], H' as [-> | [-> | ->]]; cbn in E;
    try discriminate; inversion E; split; reflexivity.
Qed.

(* ---------- composition ---------- *)

(* every trust store value of an accepted policy document (OCI or blob) names
   a known store type and a plain file name *)
Theorem policy_stores_plain k d s st :
  M9.validate k d = M9.EOk -> In s (M9.d_stmts d) -> In st (M9.s_stores s) ->
  exists ty nm, st = ty ++ ":" ++ nm /\ M13.known_type ty /\ M13.plain_name nm.
Proof.
  intros H Hs Hst. destruct (P9.names_safe k d s st H Hs Hst) as (ty & nm & E & Ht & Hn).
  exists ty, nm. split; [exact E|]. split.
  - now apply gen_type_iff_known_type.
  - now apply safe_component_iff_plain_name.
Qed.

Theorem oci_policy_stores_plain d s st :
  M9.validate_oci d = M9.EOk -> In s (M9.d_stmts d) -> In st (M9.s_stores s) ->
  exists ty nm, st = ty ++ ":" ++ nm /\ M13.known_type ty /\ M13.plain_name nm.
Proof. exact (policy_stores_plain M9.OCI d s st). Qed.

(* what "read from exactly root/truststore/x509/ty/nm and from nowhere else"
   means for a store (ty, nm), in the terms of the C13 theorems *)
Definition read_only_from_named_store (ty nm : string) : Prop :=
  (* the path computed by path.Join / filepath.Join is the four components
     truststore, x509, ty, nm, each a single component: a grandchild of x509 *)
  M13.sys_path ty nm = Some ["truststore"; "x509"; ty; nm] /\
  Forall (fun c => c <> "" /\ c <> "." /\ c <> ".." /\ ~ In 47%N (bytes c)) ["truststore"; "x509"; ty; nm] /\
  (* neither check of GetCertificates refuses the call for its type or name *)
  M13.is_valid_store_type ty = true /\ M13.is_valid_file_name nm = true /\
  (* the result depends on nothing but what lstat shows at that path *)
  (forall r1 r2, M13.lstat r1 ["truststore"; "x509"; ty; nm] = M13.lstat r2 ["truststore"; "x509"; ty; nm] ->
     M13.get_certificates M13.is_valid_file_name r1 ty nm = M13.get_certificates M13.is_valid_file_name r2 ty nm) /\
  (* success iff that directory is a loadable store, with exactly its certificates *)
  (forall root l, M13.get_certificates M13.is_valid_file_name root ty nm = M13.Loaded l <->
     exists es, M13.lstat root ["truststore"; "x509"; ty; nm] = M13.LNode (M13.NDir es) /\
                Forall (M13.entry_good (M13.is_tsa ty)) es /\
                l = flat_map M13.certs_of_entry es /\ l <> []) /\
  (* every certificate returned is held by a regular file directly in it *)
  (forall root l c, M13.get_certificates M13.is_valid_file_name root ty nm = M13.Loaded l -> In c l ->
     exists es f cs, M13.lstat root ["truststore"; "x509"; ty; nm] = M13.LNode (M13.NDir es) /\
                     In (f, M13.NFile (M13.CCerts cs)) es /\ In c cs).

Lemma known_plain_read_only ty nm :
  M13.known_type ty -> M13.plain_name nm -> read_only_from_named_store ty nm.
Proof.
  intros Ht Hn. unfold read_only_from_named_store.
  change ["truststore"; "x509"; ty; nm] with (M13.store_path ty nm).
  split; [exact (P13.sys_path_valid ty nm Ht Hn)|].
  split; [exact (P13.store_path_components ty nm Ht Hn)|].
  split; [now apply P13.is_valid_store_type_spec|].
  split; [now apply P13.is_valid_file_name_spec|].
  split; [intros r1 r2; apply P13.frame|].
  split.
  - intros root l.
    pose proof (P13.load_iff (M13.mk_input ty nm root) l) as H. unfold M13.load, M13.loadable in H.
    cbn [M13.i_root M13.i_ty M13.i_name] in H. rewrite H. split.
    + intros (_ & _ & es & E). exists es. exact E.
    + intros (es & E). split; [exact Ht|]. split; [exact Hn|]. exists es. exact E.
  - intros root l c. apply P13.only_from_store.
Qed.

(* the composed statement: every store named by an accepted policy document
   is type:name, uniquely, and GetCertificates(type, name) reads exactly
   root/truststore/x509/type/name and nothing else *)
Theorem policy_stores_contained k d s st :
  M9.validate k d = M9.EOk -> In s (M9.d_stmts d) -> In st (M9.s_stores s) ->
  exists ty nm, st = ty ++ ":" ++ nm /\ M13.known_type ty /\ M13.plain_name nm /\
    (forall ty' nm', M13.known_type ty' -> st = ty' ++ ":" ++ nm' -> ty' = ty /\ nm' = nm) /\
    read_only_from_named_store ty nm.
Proof.
  intros H Hs Hst. destruct (policy_stores_plain k d s st H Hs Hst) as (ty & nm & E & Ht & Hn).
  exists ty, nm. split; [exact E|]. split; [exact Ht|]. split; [exact Hn|]. split.
  - intros ty' nm' Ht' E'. rewrite E in E'. symmetry in E'.
    exact (type_name_unique ty' nm' ty nm Ht' Ht E').
  - exact (known_plain_read_only ty nm Ht Hn).
Qed.

(* ---------- a concrete accepted document and tree ---------- *)

Definition ex_policy : M9.doc :=
  M9.mk_doc "1.0"
    [ M9.mk_stmt "images" (M9.mk_sv "strict" [] "")
        ["ca:web"; "tsa:roots"] ["*"] ["registry.acme-rockets.io/software/net-monitor"] false ].

Lemma ex_policy_accepted : M9.validate_oci ex_policy = M9.EOk.
Proof. vm_compute. reflexivity. Qed.
