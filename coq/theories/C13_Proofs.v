(* C13_Proofs.v — proofs about C13_Model (GetCertificates over a directory tree). *)
From NV Require Import Base Regex Generated C13_Model.
Open Scope string_scope.
Open Scope list_scope.

(* ---------- obligations over Generated.v ---------- *)

Lemma gen_types_are_spec_types : gen_store_types = spec_store_types.
Proof. reflexivity. Qed.

Lemma gen_filename_anchored : anchored gen_re_filename = true.
Proof. reflexivity. Qed.

Lemma gen_filename_core :
  core gen_re_filename =
  CCat CEps (CCat (CCat (CCls name_class) (CStar (CCls name_class))) (CCat CEps CEps)).
Proof. reflexivity. Qed.

(* ---------- the file-name regex, characterised ---------- *)

Lemma run_tail rs s :
  run_re (CCat (CStar (CCls rs)) (CCat CEps CEps)) s = forallb (fun c => in_cls c rs) s.
Proof.
  induction s as [|c s IH]; [reflexivity|].
  cbn [run_re forallb]. cbn [deriv nullable andb orb].
  destruct (in_cls c rs); cbn [mkcat mkalt andb]; [exact IH | reflexivity].
Qed.

Lemma run_filename rs s :
  run_re (CCat CEps (CCat (CCat (CCls rs) (CStar (CCls rs))) (CCat CEps CEps))) s =
  match s with [] => false | _ => forallb (fun c => in_cls c rs) s end.
Proof.
  destruct s as [|c s]; [reflexivity|].
  cbn [run_re forallb]. cbn [deriv nullable andb orb].
  destruct (in_cls c rs); cbn [mkcat mkalt andb]; [apply run_tail | reflexivity].
Qed.

Lemma bytes_nil s : bytes s = [] <-> s = "".
Proof. destruct s; cbn; split; congruence. Qed.

Lemma regex_name_ok_spec s :
  regex_name_ok s = true <-> s <> "" /\ Forall (fun c => name_byte c = true) (bytes s).
Proof.
  unfold regex_name_ok, matches. rewrite gen_filename_core, run_filename.
  rewrite Forall_forall. unfold name_byte.
  destruct (bytes s) as [|c l] eqn:E.
  - apply bytes_nil in E. subst. split; [discriminate | intros [H _]; congruence].
  - rewrite forallb_forall. split.
    + intros H. split; [|exact H]. intros ->. discriminate.
    + intros [_ H]. exact H.
Qed.

Lemma is_valid_file_name_spec s : is_valid_file_name s = true <-> plain_name s.
Proof.
  unfold is_valid_file_name, plain_name.
  destruct (String.eqb_spec s ".") as [->|N1]; cbn [orb].
  - split; [discriminate | intros (_ & H & _); congruence].
  - destruct (String.eqb_spec s "..") as [->|N2].
    + split; [discriminate | intros (_ & _ & H & _); congruence].
    + rewrite regex_name_ok_spec. tauto.
Qed.

Lemma plain_nameb_spec s : plain_nameb s = true <-> plain_name s.
Proof.
  unfold plain_nameb, plain_name.
  rewrite !andb_true_iff, !negb_true_iff, !String.eqb_neq, forallb_forall, Forall_forall. tauto.
Qed.

(* a plain name holds no path separator *)
Lemma name_byte_not_slash a : name_byte (N_of_ascii a) = true -> Ascii.eqb a "/"%char = false.
Proof.
  intros H. destruct (Ascii.eqb_spec a "/"%char) as [->|]; [|reflexivity].
  vm_compute in H. discriminate.
Qed.

Lemma split_slash_plain s :
  Forall (fun c => name_byte c = true) (bytes s) -> split_slash s = [s].
Proof.
  induction s as [|a s IH]; intros H; [reflexivity|].
  unfold bytes in H. cbn [list_ascii_of_string map] in H. inversion H as [|x l Ha Hs]; subst.
  cbn [split_slash]. rewrite (name_byte_not_slash a Ha). rewrite (IH Hs). reflexivity.
Qed.

Lemma plain_no_separator s : plain_name s -> ~ In 47%N (bytes s).
Proof.
  intros (_ & _ & _ & H) Hin. rewrite Forall_forall in H. apply H in Hin. vm_compute in Hin. discriminate.
Qed.

(* ---------- the path ---------- *)

Definition comp_ok (c : string) : Prop := c <> "" /\ c <> "." /\ c <> "..".

Lemma clean_plain cs : forall st, Forall comp_ok cs -> clean_comps st cs = rev st ++ cs.
Proof.
  induction cs as [|c cs IH]; intros st H; cbn [clean_comps].
  - now rewrite app_nil_r.
  - inversion H as [|x l (N0 & N1 & N2) Hl]; subst.
    apply String.eqb_neq in N0, N1, N2. rewrite N0, N1, N2. cbn [orb].
    rewrite IH by exact Hl. cbn [rev]. now rewrite <- app_assoc.
Qed.

Lemma known_type_cases ty : known_type ty -> ty = "ca" \/ ty = "signingAuthority" \/ ty = "tsa".
Proof. unfold known_type, spec_store_types. cbn. intuition. Qed.

Lemma trust_store_dir_valid ty name :
  known_type ty -> plain_name name -> x509_trust_store_dir ty name = store_path ty name.
Proof.
  intros Ht Hn. pose proof Hn as (N0 & N1 & N2 & Hb).
  unfold x509_trust_store_dir, store_path.
  assert (E : flat_map split_slash ["truststore"; "x509"; ty; name] = ["truststore"; "x509"; ty; name]).
  { cbn [flat_map]. rewrite (split_slash_plain name Hb).
    destruct (known_type_cases ty Ht) as [-> | [-> | ->]]; reflexivity. }
  rewrite E. rewrite clean_plain; [reflexivity|].
  repeat constructor; try discriminate; try assumption;
    destruct (known_type_cases ty Ht) as [-> | [-> | ->]]; discriminate.
Qed.

Lemma sys_path_valid ty name :
  known_type ty -> plain_name name -> sys_path ty name = Some (store_path ty name).
Proof.
  intros Ht Hn. unfold sys_path. rewrite trust_store_dir_valid by assumption.
  pose proof Hn as (N0 & N1 & N2 & Hb).
  assert (E : existsb (String.eqb "..") (store_path ty name) = false).
  { unfold store_path. cbn [existsb].
    apply not_eq_sym in N2. apply String.eqb_neq in N2. rewrite N2.
    destruct (known_type_cases ty Ht) as [-> | [-> | ->]]; reflexivity. }
  now rewrite E.
Qed.

(* every component of the path read is a single name, none of them "." or ".." *)
Lemma store_path_components ty name :
  known_type ty -> plain_name name ->
  Forall (fun c => c <> "" /\ c <> "." /\ c <> ".." /\ ~ In 47%N (bytes c)) (store_path ty name).
Proof.
  intros Ht Hn. pose proof Hn as (N0 & N1 & N2 & Hb). pose proof (plain_no_separator name Hn) as Hs.
  unfold store_path.
  destruct (known_type_cases ty Ht) as [-> | [-> | ->]];
    repeat constructor; try discriminate; try assumption;
    try (vm_compute; intuition discriminate).
Qed.

(* ---------- type check ---------- *)

Lemma mem_str_In x l : mem_str x l = true <-> In x l.
Proof.
  unfold mem_str. rewrite existsb_exists. split.
  - intros (y & Hy & E). apply String.eqb_eq in E. now subst.
  - intros H. exists x. split; [exact H | apply String.eqb_refl].
Qed.

Lemma is_valid_store_type_spec ty : is_valid_store_type ty = true <-> known_type ty.
Proof. unfold is_valid_store_type, known_type. rewrite gen_types_are_spec_types. apply mem_str_In. Qed.

(* ---------- entries ---------- *)

Lemma cert_okb_spec tsa c : cert_okb tsa c = true <-> cert_ok tsa c.
Proof.
  unfold cert_okb, cert_ok. rewrite andb_true_iff, !orb_true_iff, negb_true_iff, andb_true_iff.
  destruct tsa; intuition congruence.
Qed.

Lemma entry_goodb_spec tsa e : entry_goodb tsa e = true <-> entry_good tsa e.
Proof.
  unfold entry_goodb, entry_good. destruct e as [nm n]. cbn [snd].
  destruct n as [[|cs]|es|t].
  - split; [discriminate | intros (cs & E & _); discriminate].
  - destruct cs as [|c cs].
    + split; [discriminate | intros (cs' & E & N & _); inversion E; subst; congruence].
    + rewrite forallb_forall. split.
      * intros H. exists (c :: cs). split; [reflexivity|]. split; [discriminate|].
        rewrite Forall_forall. intros x Hx. apply cert_okb_spec. now apply H.
      * intros (cs' & E & _ & H). inversion E; subst. rewrite Forall_forall in H.
        intros x Hx. apply cert_okb_spec. now apply H.
  - split; [discriminate | intros (cs & E & _); discriminate].
  - split; [discriminate | intros (cs & E & _); discriminate].
Qed.

Lemma validate_spec cs :
  validate_certificates cs = true <-> cs <> [] /\ Forall (fun c => ct_ca c = true \/ ct_selfsig c = true) cs.
Proof.
  unfold validate_certificates. destruct cs as [|c cs].
  - split; [discriminate | intros [H _]; congruence].
  - rewrite forallb_forall, Forall_forall. unfold cert_accepted. split.
    + intros H. split; [discriminate|]. intros x Hx. apply orb_true_iff. now apply H.
    + intros [_ H] x Hx. apply orb_true_iff. now apply H.
Qed.

Lemma roots_spec cs :
  forallb is_root_ca cs = true <-> Forall (fun c => ct_sigfrom c = true /\ ct_subj_iss c = true) cs.
Proof.
  rewrite forallb_forall, Forall_forall. unfold is_root_ca.
  split; intros H x Hx; apply andb_true_iff; now apply H.
Qed.

Lemma entry_good_file tsa nm cs :
  entry_good tsa (nm, NFile (CCerts cs)) <->
  validate_certificates cs = true /\ (tsa = true -> forallb is_root_ca cs = true).
Proof.
  unfold entry_good. cbn [snd]. rewrite validate_spec. split.
  - intros (cs' & E & N & H). inversion E; subst cs'. rewrite Forall_forall in H.
    split; [split; [exact N|]|].
    + rewrite Forall_forall. intros x Hx. apply (H x Hx).
    + intros T. apply roots_spec. rewrite Forall_forall. intros x Hx. now apply (H x Hx).
  - intros [[N Hv] Hr]. exists cs. split; [reflexivity|]. split; [exact N|].
    rewrite Forall_forall in *. intros x Hx. split; [now apply Hv|].
    intros T. specialize (Hr T). apply roots_spec in Hr. rewrite Forall_forall in Hr. now apply Hr.
Qed.

Lemma entry_not_good_dir tsa nm es : ~ entry_good tsa (nm, NDir es).
Proof. intros (cs & E & _). discriminate. Qed.
Lemma entry_not_good_link tsa nm t : ~ entry_good tsa (nm, NLink t).
Proof. intros (cs & E & _). discriminate. Qed.
Lemma entry_not_good_err tsa nm : ~ entry_good tsa (nm, NFile CErr).
Proof. intros (cs & E & _). discriminate. Qed.

(* what one iteration of the loop does *)
Lemma load_entries_step tsa nm n es acc :
  (entry_good tsa (nm, n) /\
   load_entries tsa ((nm, n) :: es) acc = load_entries tsa es (acc ++ certs_of_entry (nm, n))) \/
  (~ entry_good tsa (nm, n) /\
   load_entries tsa ((nm, n) :: es) acc = Failed ECertificate (entry_fault tsa n) nm).
Proof.
  destruct n as [[|cs]|es0|t]; cbn [load_entries entry_fault].
  - right. split; [apply entry_not_good_err | reflexivity].
  - destruct (validate_certificates cs) eqn:V; cbn [negb].
    + destruct tsa; cbn [andb].
      * destruct (forallb is_root_ca cs) eqn:R; cbn [negb].
        -- left. split; [apply entry_good_file; split; [exact V | intros _; exact R] | reflexivity].
        -- right. split; [|reflexivity]. intros G. apply entry_good_file in G. destruct G as [_ G].
           specialize (G eq_refl). congruence.
      * left. split; [apply entry_good_file; split; [exact V | discriminate] | reflexivity].
    + right. split; [|reflexivity]. intros G. apply entry_good_file in G. destruct G as [G _]. congruence.
  - right. split; [apply entry_not_good_dir | reflexivity].
  - right. split; [apply entry_not_good_link | reflexivity].
Qed.

Lemma load_entries_ok tsa es : forall acc l,
  load_entries tsa es acc = Loaded l <->
  Forall (entry_good tsa) es /\ l = acc ++ flat_map certs_of_entry es /\ l <> [].
Proof.
  induction es as [|[nm n] es IH]; intros acc l.
  - cbn [load_entries flat_map]. rewrite app_nil_r. destruct acc as [|a acc].
    + split; [discriminate | intros (_ & -> & N); congruence].
    + split.
      * intros E. inversion E; subst. repeat split; [constructor | discriminate].
      * intros (_ & -> & _). reflexivity.
  - destruct (load_entries_step tsa nm n es acc) as [[G E] | [G E]]; rewrite E.
    + rewrite IH. cbn [flat_map]. rewrite app_assoc. split.
      * intros (F & L & N). repeat split; try assumption. now constructor.
      * intros (F & L & N). inversion F; subst. repeat split; try assumption.
    + split; [discriminate|]. intros (F & _). inversion F; subst. contradiction.
Qed.

(* the first entry that is not good decides the error and is named by it *)
Lemma load_entries_first_bad tsa good nm n rest : forall acc,
  Forall (entry_good tsa) good -> ~ entry_good tsa (nm, n) ->
  load_entries tsa (good ++ (nm, n) :: rest) acc = Failed ECertificate (entry_fault tsa n) nm.
Proof.
  induction good as [|[gn g] good IH]; intros acc F B; cbn [app].
  - destruct (load_entries_step tsa nm n rest acc) as [[G _] | [_ E]]; [contradiction | exact E].
  - inversion F as [|x l Hg Hl]; subst.
    destruct (load_entries_step tsa gn g (good ++ (nm, n) :: rest) acc) as [[_ E] | [G _]]; [|contradiction].
    rewrite E. now apply IH.
Qed.

Lemma load_entries_never_partial tsa es acc :
  (exists l, load_entries tsa es acc = Loaded l) \/
  (exists k e, load_entries tsa es acc = Failed ECertificate k e).
Proof.
  revert acc. induction es as [|[nm n] es IH]; intros acc.
  - cbn. destruct acc; [right; eauto | left; eauto].
  - destruct (load_entries_step tsa nm n es acc) as [[_ E] | [_ E]]; rewrite E; [apply IH | right; eauto].
Qed.

(* ---------- GetCertificates ---------- *)

Lemma get_certificates_valid root ty name :
  known_type ty -> plain_name name ->
  get_certificates is_valid_file_name root ty name =
  match lstat root (store_path ty name) with
  | LNotExist => Failed ETrustStore KNotExist ""
  | LOther => Failed ETrustStore KAccess ""
  | LNode (NDir es) => load_entries (is_tsa ty) es []
  | LNode _ => Failed ETrustStore KNotDir ""
  end.
Proof.
  intros Ht Hn. unfold get_certificates.
  apply is_valid_store_type_spec in Ht as Ht'. apply is_valid_file_name_spec in Hn as Hn'.
  rewrite Ht', Hn'. cbn [negb]. now rewrite sys_path_valid.
Qed.

Lemma get_certificates_bad_type nk root ty name :
  ~ known_type ty -> get_certificates nk root ty name = Failed ETrustStore KType "".
Proof.
  intros H. unfold get_certificates. rewrite <- is_valid_store_type_spec in H.
  apply not_true_is_false in H. now rewrite H.
Qed.

Lemma get_certificates_bad_name root ty name :
  known_type ty -> ~ plain_name name ->
  get_certificates is_valid_file_name root ty name = Failed ETrustStore KName "".
Proof.
  intros Ht H. unfold get_certificates. apply is_valid_store_type_spec in Ht. rewrite Ht. cbn [negb].
  rewrite <- is_valid_file_name_spec in H. apply not_true_is_false in H. now rewrite H.
Qed.

Theorem get_certificates_iff root ty name l :
  get_certificates is_valid_file_name root ty name = Loaded l <-> loadable root ty name l.
Proof.
  unfold loadable. split.
  - intros H.
    destruct (is_valid_store_type ty) eqn:Ht.
    2:{ unfold get_certificates in H. rewrite Ht in H. discriminate. }
    destruct (is_valid_file_name name) eqn:Hn.
    2:{ unfold get_certificates in H. rewrite Ht, Hn in H. discriminate. }
    apply is_valid_store_type_spec in Ht. apply is_valid_file_name_spec in Hn.
    rewrite get_certificates_valid in H by assumption.
    split; [exact Ht|]. split; [exact Hn|].
    destruct (lstat root (store_path ty name)) as [| |[c|es|t]]; try discriminate.
    exists es. split; [reflexivity|]. apply load_entries_ok in H. exact H.
  - intros (Ht & Hn & es & E & F & L & N).
    rewrite get_certificates_valid by assumption. rewrite E.
    apply load_entries_ok. cbn [app]. auto.
Qed.

Theorem load_iff i l : load i = Loaded l <-> loadable (i_root i) (i_ty i) (i_name i) l.
Proof. apply get_certificates_iff. Qed.

Theorem model_ok_iff i ids :
  model i = OOk ids <-> exists l, loadable (i_root i) (i_ty i) (i_name i) l /\ ids = map ct_id l.
Proof.
  unfold model. split.
  - destruct (load i) as [l|c k e] eqn:E; cbn [obs_of]; [|discriminate].
    intros H. inversion H; subst. exists l. split; [now apply load_iff | reflexivity].
  - intros (l & L & ->). apply load_iff in L. now rewrite L.
Qed.

(* all or nothing: either the whole store, or an error *)
Theorem all_or_nothing i :
  (exists l, load i = Loaded l /\ loadable (i_root i) (i_ty i) (i_name i) l) \/
  (exists c k e, load i = Failed c k e /\ forall l, ~ loadable (i_root i) (i_ty i) (i_name i) l).
Proof.
  destruct (load i) as [l|c k e] eqn:E.
  - left. exists l. split; [reflexivity | now apply load_iff].
  - right. exists c, k, e. split; [reflexivity|]. intros l L. apply load_iff in L. congruence.
Qed.

Theorem first_offender root ty name good nm n rest :
  known_type ty -> plain_name name ->
  lstat root (store_path ty name) = LNode (NDir (good ++ (nm, n) :: rest)) ->
  Forall (entry_good (is_tsa ty)) good -> ~ entry_good (is_tsa ty) (nm, n) ->
  get_certificates is_valid_file_name root ty name = Failed ECertificate (entry_fault (is_tsa ty) n) nm.
Proof.
  intros Ht Hn E F B. rewrite get_certificates_valid by assumption. rewrite E.
  now apply load_entries_first_bad.
Qed.

Theorem store_errors root ty name :
  let r := get_certificates is_valid_file_name root ty name in
  (~ known_type ty -> r = Failed ETrustStore KType "") /\
  (known_type ty -> ~ plain_name name -> r = Failed ETrustStore KName "") /\
  (known_type ty -> plain_name name ->
     (lstat root (store_path ty name) = LNotExist -> r = Failed ETrustStore KNotExist "") /\
     (lstat root (store_path ty name) = LOther -> r = Failed ETrustStore KAccess "") /\
     (forall c, lstat root (store_path ty name) = LNode (NFile c) -> r = Failed ETrustStore KNotDir "") /\
     (forall t, lstat root (store_path ty name) = LNode (NLink t) -> r = Failed ETrustStore KNotDir "") /\
     (lstat root (store_path ty name) = LNode (NDir []) -> r = Failed ECertificate KEmpty "")).
Proof.
  cbn zeta. split; [apply get_certificates_bad_type|]. split; [apply get_certificates_bad_name|].
  intros Ht Hn. rewrite get_certificates_valid by assumption.
  repeat split; intros; match goal with H : lstat _ _ = _ |- _ => rewrite H end; reflexivity.
Qed.

(* ---------- containment ---------- *)

Theorem frame r1 r2 ty name :
  lstat r1 (store_path ty name) = lstat r2 (store_path ty name) ->
  get_certificates is_valid_file_name r1 ty name = get_certificates is_valid_file_name r2 ty name.
Proof.
  intros E.
  destruct (is_valid_store_type ty) eqn:Ht.
  2:{ unfold get_certificates. now rewrite Ht. }
  destruct (is_valid_file_name name) eqn:Hn.
  2:{ unfold get_certificates. now rewrite Ht, Hn. }
  apply is_valid_store_type_spec in Ht. apply is_valid_file_name_spec in Hn.
  rewrite !get_certificates_valid by assumption. now rewrite E.
Qed.

Theorem only_from_store root ty name l c :
  get_certificates is_valid_file_name root ty name = Loaded l -> In c l ->
  exists es nm cs, lstat root (store_path ty name) = LNode (NDir es) /\
                   In (nm, NFile (CCerts cs)) es /\ In c cs.
Proof.
  intros H Hc. apply get_certificates_iff in H. destruct H as (_ & _ & es & E & _ & -> & _).
  apply in_flat_map in Hc. destruct Hc as ([nm n] & He & Hc).
  unfold certs_of_entry in Hc. cbn [snd] in Hc.
  destruct n as [[|cs]|?|?]; try contradiction.
  exists es, nm, cs. auto.
Qed.

(* without the exclusion of the dot names (the code before fix 7fbf478) the
   certificates of truststore/x509/ are returned for a store that does not exist *)
Definition f11_root : node :=
  NDir [("truststore", NDir [("x509", NDir [("root.pem", NFile (CCerts [mk_cert 1 true true true true]))])])].

Lemma dot_names_needed :
  regex_name_ok ".." = true /\
  get_certificates regex_name_ok f11_root "ca" ".." = Loaded [mk_cert 1 true true true true] /\
  lstat f11_root (store_path "ca" "..") = LNotExist /\
  get_certificates is_valid_file_name f11_root "ca" ".." = Failed ETrustStore KName "".
Proof. vm_compute. repeat split. Qed.

(* ---------- the boolean oracle ---------- *)

Lemma expected_spec i l :
  expected i = Some l <-> loadable (i_root i) (i_ty i) (i_name i) l.
Proof.
  unfold expected, loadable. split.
  - destruct (mem_str (i_ty i) spec_store_types) eqn:Ht; cbn [andb]; [|discriminate].
    destruct (plain_nameb (i_name i)) eqn:Hn; [|discriminate].
    apply mem_str_In in Ht. apply plain_nameb_spec in Hn.
    destruct (lstat (i_root i) (store_path (i_ty i) (i_name i))) as [| |[c|[|e es]|t]] eqn:E; try discriminate.
    destruct (forallb (entry_goodb (i_ty i =? "tsa")) (e :: es)) eqn:F; [|discriminate].
    intros H. inversion H; subst l. split; [exact Ht|]. split; [exact Hn|].
    exists (e :: es). split; [reflexivity|].
    rewrite forallb_forall in F.
    assert (G : Forall (entry_good (is_tsa (i_ty i))) (e :: es)).
    { rewrite Forall_forall. intros x Hx. apply entry_goodb_spec. now apply F. }
    split; [exact G|]. split; [reflexivity|].
    inversion G as [|x l0 (cs & Ecs & Ncs & _) _]; subst. cbn [flat_map]. unfold certs_of_entry at 1.
    rewrite Ecs. destruct cs; [congruence | discriminate].
  - intros (Ht & Hn & es & E & F & L & N).
    apply mem_str_In in Ht. apply plain_nameb_spec in Hn. rewrite Ht, Hn. cbn [andb]. rewrite E.
    destruct es as [|e es]; [subst l; cbn in N; congruence|].
    assert (G : forallb (entry_goodb (i_ty i =? "tsa")) (e :: es) = true).
    { rewrite forallb_forall. rewrite Forall_forall in F. intros x Hx. apply entry_goodb_spec. now apply F. }
    rewrite G. now subst l.
Qed.

Lemma same_ids_refl l : same_ids l l = true.
Proof. unfold same_ids. apply forallb_forall. intros x _. apply Nat.eqb_refl. Qed.

Theorem model_spec_ok i : wf i = true -> spec_ok i (model i) = true.
Proof.
  intros _. unfold spec_ok, model.
  destruct (load i) as [l|c k e] eqn:E; cbn [obs_of].
  - apply load_iff in E. pose proof E as (_ & _ & _ & _ & _ & _ & N).
    apply expected_spec in E. rewrite E. rewrite same_ids_refl. cbn [andb].
    destruct l; [congruence | reflexivity].
  - destruct (expected i) as [l|] eqn:X; [|reflexivity].
    apply expected_spec in X. apply load_iff in X. congruence.
Qed.

Lemma path_valid ty name : known_type ty -> plain_name name ->
  sys_path ty name = Some (store_path ty name) /\
  Forall (fun c => c <> "" /\ c <> "." /\ c <> ".." /\ ~ In 47%N (bytes c)) (store_path ty name).
Proof. intros Ht Hn. split; [exact (sys_path_valid ty name Ht Hn) | exact (store_path_components ty name Ht Hn)]. Qed.

(* ---------- a concrete tree for the examples of the property file ---------- *)
Definition ex_root : cert := mk_cert 1 true true true true.
Definition ex_inter : cert := mk_cert 2 true false false false.
Definition ex_leaf : cert := mk_cert 3 false false false false.
Definition ex_tree : node :=
  NDir [("truststore", NDir [("x509", NDir [
    ("ca", NDir [("web", NDir [("a.pem", NFile (CCerts [ex_root; ex_inter])); ("b.der", NFile (CCerts [ex_root]))]);
                 ("mixed", NDir [("a.pem", NFile (CCerts [ex_root])); ("leaf.crt", NFile (CCerts [ex_leaf])); ("z.pem", NFile CErr)]);
                 ("alias", NLink (Some (NDir [("a.pem", NFile (CCerts [ex_root]))])))]);
    ("tsa", NDir [("t", NDir [("a.pem", NFile (CCerts [ex_root; ex_inter]))]);
                  ("roots", NDir [("r.cer", NFile (CCerts [ex_root]))])])])])].

