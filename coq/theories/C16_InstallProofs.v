(* C16_InstallProofs.v — proof of the footprint of the GoLite translation of
   CLIManager.Install (theories/C16_Install_Gen.v); compiled by make, re-checked only when
   the generated file changes (13 s). Statement: props/C16_GeneratedInstall.v. No axioms. *)
From Coq Require Import List Bool String Ascii NArith ZArith Lia.
From NV Require Import Base GoLib C16_Install_Gen.
Import ListNotations.
Local Open Scope string_scope.
Local Open Scope list_scope.

(* one step: both sides have the same shape; where the scrutinee consults a copy
   oracle, first bring the other side's oracle to it (its directory has been
   destructed out of SysPath by then), then split on the scrutinee *)
Ltac copy_rw s :=
  match s with
  | context [?C ?a ?b] =>
      match goal with
      | H : forall f d e, _ -> C f d = ?C' f d |- _ =>
          rewrite <- (H a b _ ltac:(first [eassumption | reflexivity]))
      end
  end.

Ltac dep_step :=
  match goal with
  | |- ?x = ?x => reflexivity
  | |- match ?s with _ => _ end = _ => try copy_rw s; destruct s
  | |- (if ?s then _ else _) = _ => try copy_rw s; destruct s
  end.

Lemma gen_Install_footprint :
  forall GMeta CGMeta NewP (PL : Type) Get Uninst Uninst' ParseDir ParseName IsExec SameDir SysPath
         Copy1 Copy1' Copy2 Copy2' Eval Dir Cmp m opts,
    let n1 := snd (fst (ParseDir (CLIInstallOptions_PluginPath opts))) in
    let n2 := fst (ParseName (filepath_base (CLIInstallOptions_PluginPath opts))) in
    Uninst (PNew m) n1 = Uninst' (PNew m) n1 ->
    Uninst (PNew m) n2 = Uninst' (PNew m) n2 ->
    (forall f d e, SysPath [n1] = (d, e) -> Copy1 f d = Copy1' f d) ->
    (forall f d e, SysPath [n2] = (d, e) -> Copy1 f d = Copy1' f d) ->
    (forall f d e, SysPath [n1] = (d, e) -> Copy2 f d = Copy2' f d) ->
    (forall f d e, SysPath [n2] = (d, e) -> Copy2 f d = Copy2' f d) ->
    gen_plugin_CLIManager_Install GMeta CGMeta NewP PL Get Uninst ParseDir ParseName IsExec SameDir SysPath
                                  Copy1 Copy2 Eval Dir Cmp m opts
    = gen_plugin_CLIManager_Install GMeta CGMeta NewP PL Get Uninst' ParseDir ParseName IsExec SameDir SysPath
                                    Copy1' Copy2' Eval Dir Cmp m opts.
Proof.
  intros GMeta CGMeta NewP PL Get Uninst Uninst' ParseDir ParseName IsExec SameDir SysPath
         Copy1 Copy1' Copy2 Copy2' Eval Dir Cmp m opts.
  unfold gen_plugin_CLIManager_Install. cbv zeta.
  destruct (ParseDir (CLIInstallOptions_PluginPath opts)) as [[f n] e].
  destruct (ParseName (filepath_base (CLIInstallOptions_PluginPath opts))) as [n' e'].
  cbn [fst snd]. intros HU1 HU2 HC1 HC2 HD1 HD2.
  rewrite <- ?HU1, <- ?HU2.
  repeat dep_step.
Qed.
