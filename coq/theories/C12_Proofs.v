(* C12_Proofs.v — proofs about the nil-ability lattice model (C12_Model.v). *)
From NV Require Import Base Regex Generated C12_Model.
Open Scope string_scope.
Open Scope list_scope.

(* ---------- generic helpers ---------- *)
Ltac brk1 :=
  match goal with
  | |- context [match ?x with _ => _ end] =>
      lazymatch x with
      | context [match _ with _ => _ end] => fail
      | _ => destruct x eqn:?
      end
  end.

Lemma errc_eqb_refl e : errc_eqb e e = true.
Proof. destruct e; try reflexivity. destruct t; reflexivity. Qed.

Lemma errc_eqb_eq a b : errc_eqb a b = true -> a = b.
Proof.
  destruct a, b; cbn; try discriminate; try reflexivity.
  destruct t, t0; cbn; try discriminate; reflexivity.
Qed.

Lemma lname_eqb_eq a b : lname_eqb a b = true <-> a = b.
Proof. destruct a, b; cbn; split; congruence. Qed.

(* ---------- UserMetadata never panics on a non-nil outcome ---------- *)
Lemma user_metadata_no_panic c p a : user_metadata c p a <> UMPanic.
Proof. unfold user_metadata. destruct c, p; cbn; discriminate. Qed.

Lemma out_of_um e c l rs sc : oc_um (out_of e c l rs sc) <> UMPanic.
Proof. apply user_metadata_no_panic. Qed.

(* ---------- processSignature ---------- *)
Lemma discover_no_panic pm sc : discover pm sc <> DPanic.
Proof.
  unfold discover, discover_gen, meta_nil_res.
  destruct (s_pattr sc); try discriminate;
    destruct (s_nonstr_crit sc); try discriminate.
  destruct (s_minver_bad sc); try discriminate.
  destruct pm as [| |[| |vv caps]]; try discriminate.
  destruct vv; cbn; try discriminate.
  destruct (s_minver_high sc); try discriminate.
  destruct (vcaps caps); discriminate.
Qed.

Lemma rev_failed_fixed r : rev_failed true r <> None.
Proof. destruct r; discriminate. Qed.

(* since fix d78db00 no answer of the revocation validator reaches a dereference *)
Lemma native_no_panic l sc caps : native l sc caps <> NPanic.
Proof.
  unfold native, native_gen, native_gen2. fold (rev_failed true).
  pose proof (rev_failed_fixed (s_rev sc)) as Hr.
  destruct (rev_failed true (s_rev sc)) as [f|]; [|congruence].
  repeat (brk1; try discriminate).
Qed.

Lemma process_signature_no_panic l pm sc :
  process_signature l pm sc <> PSPanic.
Proof.
  unfold process_signature, process_signature_gen, presp_nil_res; fold discover.
  destruct (s_sig sc); try discriminate.
  pose proof (discover_no_panic pm sc) as Hd.
  destruct (discover pm sc) as [|e| |caps] eqn:Ed; try congruence; try discriminate.
  - pose proof (native_no_panic l sc []) as Hn.
    destruct (native l sc []) eqn:En; try congruence; try discriminate.
    cbn. destruct (s_crit sc); discriminate.
  - pose proof (native_no_panic l sc caps) as Hn.
    destruct (native l sc caps) eqn:En; try congruence; try discriminate.
    destruct (caps_to_verify l caps) eqn:Ec.
    + cbn. discriminate.
    + destruct (s_presp sc) eqn:Ep; try discriminate.
      destruct (negb all_processed); try discriminate.
      destruct (process_caps l ti rev (c :: l0) rs). discriminate.
Qed.

(* the envelope content is present exactly when integrity held *)
Lemma process_signature_content l pm sc e c rs :
  process_signature l pm sc = PSRet e c rs ->
  c = match s_sig sc with SigOK => true | _ => false end.
Proof.
  unfold process_signature, process_signature_gen, presp_nil_res; fold discover. destruct (s_sig sc); try (intros E; inversion E; reflexivity).
  destruct (discover pm sc); try discriminate.
  - intros E; inversion E; reflexivity.
  - destruct (native l sc []); try discriminate; try (intros E; inversion E; reflexivity).
    cbn. destruct (s_crit sc); intros E; inversion E; reflexivity.
  - destruct (native l sc caps); try discriminate; try (intros E; inversion E; reflexivity).
    destruct (caps_to_verify l caps).
    + cbn. intros E; inversion E; reflexivity.
    + destruct (s_presp sc); try discriminate; try (intros E; inversion E; reflexivity).
      destruct (negb all_processed); try (intros E; inversion E; reflexivity).
      destruct (process_caps l ti rev (c0 :: l0) rs0). intros E; inversion E; reflexivity.
Qed.

Lemma process_signature_success_content l pm sc c rs :
  process_signature l pm sc = PSRet None c rs -> c = true.
Proof.
  intros H. rewrite (process_signature_content _ _ _ _ _ _ H).
  unfold process_signature, process_signature_gen in H. destruct (s_sig sc); try discriminate; reflexivity.
Qed.

(* ---------- verifier.Verify / VerifyBlob: shape of the result ---------- *)
(* [good_v sel o]: o is a normal return of a verifier-level entry point that is
   consistent; [sel] = the request passed policy selection *)
Definition good_outc (o : outc) : Prop := oc_um o <> UMPanic.

Inductive good_v (sel : bool) : obs -> Prop :=
| gv_ok o : oc_err o = None -> oc_same o = true -> oc_level o <> None -> good_outc o ->
            good_v sel (ORet false None [Some o] None)
| gv_err_out o e : oc_err o = Some e -> oc_same o = true -> good_outc o ->
            good_v sel (ORet false None [Some o] (Some e))
| gv_err_early e : sel = false -> good_v sel (ORet false None [] (Some e)).

Definition oci_selected (v : verifier) : bool :=
  match v_oci v with Some (SelLevel _) => true | _ => false end.
Definition blob_selected (v : verifier) : bool :=
  match v_blob v with Some (SelLevel _) => true | _ => false end.

Lemma skip_out_good : good_outc skip_out.
Proof. unfold good_outc; cbn; discriminate. Qed.

Lemma verify_oci_good v sc :
  sel_wf (v_oci v) = true ->
  good_v (oci_selected v) (verify_oci v sc).
Proof.
  intros Hsel. unfold verify_oci, oci_selected.
  destruct (v_oci v) as [[| |l]|]; try (apply gv_err_early; reflexivity); [discriminate Hsel|].
  destruct (is_skip l).
  { apply gv_ok; [reflexivity | reflexivity | discriminate | apply skip_out_good]. }
  pose proof (process_signature_no_panic l (v_pm v) sc) as Hn.
  destruct (process_signature l (v_pm v) sc) as [|[e|] c rs] eqn:E; try congruence.
  - apply gv_err_out; [reflexivity | reflexivity | apply out_of_um].
  - rewrite (process_signature_success_content _ _ _ _ _ E). cbn [negb].
    destruct (negb (s_payload_ok sc)).
    + apply gv_err_out; [reflexivity | reflexivity | apply out_of_um].
    + destruct (post_err sc) eqn:Ep.
      * apply gv_err_out; [reflexivity | reflexivity | apply out_of_um].
      * apply gv_ok; [reflexivity | reflexivity | cbn; discriminate | apply out_of_um].
Qed.

Lemma verify_blob_good v sc :
  sel_wf (v_blob v) = true ->
  good_v (blob_selected v) (verify_blob v sc).
Proof.
  intros Hsel. unfold verify_blob, blob_selected.
  destruct (v_blob v) as [[| |l]|]; try (apply gv_err_early; reflexivity); [discriminate Hsel|].
  destruct (is_skip l).
  { apply gv_ok; [reflexivity | reflexivity | discriminate | apply skip_out_good]. }
  pose proof (process_signature_no_panic l (v_pm v) sc) as Hn.
  destruct (process_signature l (v_pm v) sc) as [|[e|] c rs] eqn:E; try congruence.
  - apply gv_err_out; [reflexivity | reflexivity | apply out_of_um].
  - rewrite (process_signature_success_content _ _ _ _ _ E). cbn [negb].
    destruct (negb (s_payload_ok sc)).
    + apply gv_err_out; [reflexivity | reflexivity | apply out_of_um].
    + destruct (s_descgen_err sc).
      * apply gv_err_out; [reflexivity | reflexivity | apply out_of_um].
      * destruct (post_err sc) eqn:Ep.
        -- apply gv_err_out; [reflexivity | reflexivity | apply out_of_um].
        -- apply gv_ok; [reflexivity | reflexivity | cbn; discriminate | apply out_of_um].
Qed.

(* ---------- one call through the Verifier / BlobVerifier interface ---------- *)
(* a call result that notation.Verify / VerifyBlob can digest *)
Inductive good_call : vres -> Prop :=
| gc_ok o : oc_err o = None -> good_outc o -> good_call (VRes (Some o) None)
| gc_err o e : good_call (VRes o (Some e)).

Lemma custom_outc_good c err : good_outc (custom_outc c err).
Proof. unfold good_outc, custom_outc; cbn. destruct (co_content c); discriminate. Qed.

Lemma call_of_good_v sel o :
  good_v sel o ->
  good_call (match o with
             | ORet _ _ [] e => VRes None e
             | ORet _ _ (x :: _) e => VRes x e
             | _ => VPanic
             end).
Proof. intros H; destruct H; try (apply gc_err). apply gc_ok; assumption. Qed.

Lemma call_verify_good impl v sc :
  sel_wf (v_oci v) = true ->
  impl <> VNil -> impl_wf impl = true ->
  good_call (call_verify impl v sc).
Proof.
  intros Hsel Hn Hi. destruct impl as [| |out err]; [congruence| |].
  - cbn. apply (call_of_good_v _ _ (verify_oci_good v sc Hsel)).
  - cbn. destruct err; [apply gc_err|].
    destruct out as [c|]; cbn in Hi; [|discriminate].
    apply gc_ok; [|apply custom_outc_good].
    cbn. apply negb_true_iff in Hi. now rewrite Hi.
Qed.

Lemma call_verify_blob_good impl v sc :
  sel_wf (v_blob v) = true ->
  impl <> VNil -> impl_wf impl = true ->
  good_call (call_verify_blob impl v sc).
Proof.
  intros Hsel Hn Hi. destruct impl as [| |out err]; [congruence| |].
  - cbn. apply (call_of_good_v _ _ (verify_blob_good v sc Hsel)).
  - cbn. destruct err; [apply gc_err|].
    destruct out as [c|]; cbn in Hi; [|discriminate].
    apply gc_ok; [|apply custom_outc_good].
    cbn. apply negb_true_iff in Hi. now rewrite Hi.
Qed.

(* ---------- notation.Verify ---------- *)
(* a consistent normal return of notation.Verify / VerifyBlob *)
Inductive good_n : obs -> Prop :=
| gn_ok f o : oc_err o = None -> good_outc o -> good_n (ORet f None [Some o] None)
| gn_err e : good_n (ORet false None [] (Some e)).

Inductive good_loop : lres -> Prop :=
| gl_ret e : good_loop (LReturn e)
| gl_succ o : oc_err o = None -> good_outc o -> good_loop (LSuccess (Some o))
| gl_exc : good_loop LExceeded
| gl_end b : good_loop (LEnd b).

Lemma nloop_good impl v : sel_wf (v_oci v) = true ->
  impl <> VNil -> impl_wf impl = true -> 
  forall k any items, good_loop (nloop impl v k any items).
Proof.
  intros Hsel Hn Hi. induction k as [|k IH]; intros any items; cbn [nloop].
  - constructor.
  - destruct items as [|[|sc] rest]; try constructor.
    pose proof (call_verify_good impl v sc Hsel Hn Hi) as Hc.
    inversion Hc as [o Ho Hg Heq | o e Heq].
    + apply gl_succ; assumption.
    + destruct o; [apply IH; assumption | constructor].
Qed.

Lemma skip_verify_shape v : sel_wf (v_oci v) = true ->
  (exists e, skip_verify v = ORet false None [] (Some e)) \/
  skip_verify v = ORet true (Some NSkip) [] None \/
  (exists n, n <> NSkip /\ skip_verify v = ORet false (Some n) [] None).
Proof.
  intros Hsel. unfold skip_verify. destruct (v_oci v) as [[| |l]|]; try (left; eexists; reflexivity); [discriminate Hsel|].
  destruct l; cbn; try (right; right; eexists; split; [|reflexivity]; discriminate).
  right; left; reflexivity.
Qed.

Lemma nverify_good impl v n :
  sel_wf (v_oci v) = true ->
  impl_wf impl = true -> 
  good_n (nverify impl v n).
Proof.
  intros Hsel Hi. unfold nverify.
  destruct impl as [| |out err] eqn:Eimpl; [apply gn_err| |].
  - (* the library's verifier *)
    destruct (n_repo_nil n); [apply gn_err|].
    destruct (n_max n <=? 0)%Z; [apply gn_err|].
    destruct (skip_verify_shape v Hsel) as [[e H]|[H|[nm [Hnm H]]]]; rewrite H.
    + apply gn_err.
    + apply gn_ok; [reflexivity | cbn; discriminate].
    + destruct (n_ref n); try apply gn_err.
      destruct (n_resolve_err n); [apply gn_err|].
      destruct (n_digest_mismatch n); [apply gn_err|].
      destruct (n_list_err n); [apply gn_err|].
      assert (Hn : VLib <> VNil) by discriminate.
      pose proof (nloop_good VLib v Hsel Hn Hi (Z.to_nat (n_max n)) false (n_items n)) as Hl.
      inversion Hl as [e He|o Ho Hg He| |b He]; try apply gn_err.
      * apply gn_ok; assumption.
      * destruct b; apply gn_err.
  - destruct (n_repo_nil n); [apply gn_err|].
    destruct (n_max n <=? 0)%Z; [apply gn_err|].
    destruct (n_ref n); try apply gn_err.
    destruct (n_resolve_err n); [apply gn_err|].
    destruct (n_digest_mismatch n); [apply gn_err|].
    destruct (n_list_err n); [apply gn_err|].
    assert (Hn : VCustom out err <> VNil) by discriminate.
    pose proof (nloop_good (VCustom out err) v Hsel Hn Hi (Z.to_nat (n_max n)) false (n_items n)) as Hl.
    inversion Hl as [e He|o Ho Hg He| |b He]; try apply gn_err.
    + apply gn_ok; assumption.
    + destruct b; apply gn_err.
Qed.

(* ---------- notation.VerifyBlob ---------- *)
Lemma nverify_blob_tail impl sc r : good_call r ->
  good_n (match r with
          | VPanic => OPanic
          | VRes _ (Some e) => ORet false None [] (Some (coarse e))
          | VRes None None => OPanic
          | VRes (Some o) None =>
              if negb (oc_content o) then ORet false None [Some o] None
              else if negb (blob_payload_ok impl sc) then ORet false None [] (Some XOther)
              else ORet true None [Some o] None
          end).
Proof.
  intros H. destruct H as [o Ho Hg | o e].
  - destruct (negb (oc_content o)); [apply gn_ok; assumption|].
    destruct (negb (blob_payload_ok impl sc)); [apply gn_err | apply gn_ok; assumption].
  - destruct o; apply gn_err.
Qed.

Lemma nverify_blob_good impl v b sc :
  sel_wf (v_blob v) = true ->
  impl_wf impl = true ->
  good_n (nverify_blob impl v b sc).
Proof.
  intros Hsel Hi. unfold nverify_blob.
  destruct impl as [| |out err] eqn:Eimpl; [apply gn_err| |].
  - destruct (b_reader_nil b); [apply gn_err|].
    assert (Hn : VLib <> VNil) by discriminate.
    destruct (s_sig sc) eqn:Es; [apply gn_err| |];
      (destruct (b_ctype_bad b); [apply gn_err|]; destruct (b_stype_bad b); [apply gn_err|];
       apply nverify_blob_tail, call_verify_blob_good; assumption).
  - destruct (b_reader_nil b); [apply gn_err|].
    assert (Hn : VCustom out err <> VNil) by discriminate.
    destruct (s_sig sc) eqn:Es; [apply gn_err| |];
      (destruct (b_ctype_bad b); [apply gn_err|]; destruct (b_stype_bad b); [apply gn_err|];
       apply nverify_blob_tail, call_verify_blob_good; assumption).
Qed.

(* ---------- the model as a whole ---------- *)
Lemma wf_parts i : wf i = true ->
  impl_wf (i_impl i) = true /\
  sel_wf (v_oci (i_v i)) = true /\ sel_wf (v_blob (i_v i)) = true.
Proof.
  unfold wf. intros H.
  apply andb_prop in H as [H Hi]. apply andb_prop in H as [Ho Hb].
  repeat split; assumption.
Qed.

(* normal return: no panic, and UserMetadata panics on none of the outcomes returned *)
Definition returns_normally (o : obs) : Prop :=
  o <> OPanic /\
  forall f l outs e oc, o = ORet f l outs e -> In (Some oc) outs -> oc_um oc <> UMPanic.

Lemma good_v_normal sel o : good_v sel o -> returns_normally o.
Proof.
  intros H; destruct H; (split; [discriminate|]); intros f l outs e' oc E Hin; inversion E; subst;
    cbn in Hin; try tauto; destruct Hin as [Hin|[]]; inversion Hin; subst; assumption.
Qed.

Lemma good_n_normal o : good_n o -> returns_normally o.
Proof.
  intros H; destruct H; (split; [discriminate|]); intros f' l outs e' oc E Hin; inversion E; subst;
    cbn in Hin; try tauto; destruct Hin as [Hin|[]]; inversion Hin; subst; assumption.
Qed.

Lemma skip_verify_normal v : sel_wf (v_oci v) = true -> returns_normally (skip_verify v).
Proof.
  intros Hsel. destruct (skip_verify_shape v Hsel) as [[e H]|[H|[nm [Hnm H]]]]; rewrite H;
    (split; [discriminate|]); intros f l outs e' oc E Hin; inversion E; subst; destruct Hin.
Qed.

Theorem no_panic i : wf i = true -> returns_normally (model i).
Proof.
  intros Hwf. destruct (wf_parts i Hwf) as (Hi & Hso & Hsb).
  unfold model. destruct (uses_lib i && construct_fails i).
  { split; [discriminate|]. intros; discriminate. }
  destruct (i_entry i).
  - eapply good_v_normal, verify_oci_good; assumption.
  - eapply good_v_normal, verify_blob_good; assumption.
  - apply skip_verify_normal; assumption.
  - apply good_n_normal, nverify_good; assumption.
  - apply good_n_normal, nverify_blob_good; assumption.
  - split; [discriminate|]. intros f l outs e oc E Hin. inversion E; subst.
    destruct Hin as [Hin|[]]. inversion Hin; subst. cbn. apply user_metadata_no_panic.
Qed.

(* ---------- consistency ---------- *)
Lemma policy_selected_verify i : i_entry i = EVerify -> policy_selected i = oci_selected (i_v i).
Proof. intros E. unfold policy_selected, oci_selected. now rewrite E. Qed.
Lemma policy_selected_blob i : i_entry i = EVerifyBlob -> policy_selected i = blob_selected (i_v i).
Proof. intros E. unfold policy_selected, blob_selected. now rewrite E. Qed.

Lemma good_v_consistent sel o f l outs err :
  good_v sel o -> o = ORet f l outs err ->
  (err = None <-> exists oc, outs = [Some oc] /\ oc_err oc = None) /\
  (forall e, err = Some e -> sel = true ->
     exists oc, outs = [Some oc] /\ oc_err oc = Some e /\ oc_same oc = true) /\
  (err = None -> exists oc, outs = [Some oc] /\ oc_same oc = true /\ oc_level oc <> None).
Proof.
  intros H E. destruct H; inversion E; subst; clear E.
  - repeat split; try discriminate.
    + intros _. eexists; split; [reflexivity|assumption].
    + intros _. eexists; repeat split; assumption.
  - repeat split; try discriminate.
    + intros [oc [E1 E2]]. inversion E1; subst. congruence.
    + intros e0 E0 _. inversion E0; subst. eexists; repeat split; assumption.
  - repeat split; try discriminate.
    intros [oc [E1 _]]. discriminate.
Qed.

Theorem consistent_verifier i f l outs err :
  wf i = true -> i_entry i = EVerify \/ i_entry i = EVerifyBlob ->
  model i = ORet f l outs err ->
  (err = None <-> exists oc, outs = [Some oc] /\ oc_err oc = None) /\
  (forall e, err = Some e -> policy_selected i = true ->
     exists oc, outs = [Some oc] /\ oc_err oc = Some e /\ oc_same oc = true) /\
  (err = None -> exists oc, outs = [Some oc] /\ oc_same oc = true /\ oc_level oc <> None).
Proof.
  intros Hwf Hent Hm. destruct (wf_parts i Hwf) as (Hi & Hso & Hsb).
  unfold model in Hm. destruct (uses_lib i && construct_fails i); [discriminate|].
  destruct Hent as [Hent|Hent]; rewrite Hent in Hm.
  - rewrite (policy_selected_verify i Hent).
    exact (good_v_consistent _ _ _ _ _ _ (verify_oci_good _ _ Hso) Hm).
  - rewrite (policy_selected_blob i Hent).
    exact (good_v_consistent _ _ _ _ _ _ (verify_blob_good _ _ Hsb) Hm).
Qed.

Lemma good_n_consistent o f l outs err :
  good_n o -> o = ORet f l outs err ->
  (err = None <-> exists oc, outs = [Some oc] /\ oc_err oc = None) /\
  (err <> None -> outs = [] /\ f = false).
Proof.
  intros H E. destruct H; inversion E; subst; clear E.
  - repeat split; try congruence. intros _. eexists; split; [reflexivity|assumption].
  - repeat split; try discriminate. intros [oc [E1 _]]. discriminate.
Qed.

Theorem consistent_notation i f l outs err :
  wf i = true -> i_entry i = ENVerify \/ i_entry i = ENVerifyBlob ->
  model i = ORet f l outs err ->
  (err = None <-> exists oc, outs = [Some oc] /\ oc_err oc = None) /\
  (err <> None -> outs = [] /\ f = false).
Proof.
  intros Hwf Hent Hm. destruct (wf_parts i Hwf) as (Hi & Hso & Hsb).
  unfold model in Hm. destruct (uses_lib i && construct_fails i); [discriminate|].
  destruct Hent as [Hent|Hent]; rewrite Hent in Hm.
  - exact (good_n_consistent _ _ _ _ _ (nverify_good _ _ _ Hso Hi) Hm).
  - exact (good_n_consistent _ _ _ _ _ (nverify_blob_good _ _ _ _ Hsb Hi) Hm).
Qed.

Theorem consistent_skip_verify v f l outs err :
  sel_wf (v_oci v) = true ->
  skip_verify v = ORet f l outs err ->
  outs = [] /\
  (err = None <-> l <> None) /\
  (f = true <-> l = Some NSkip) /\
  (f = true -> err = None).
Proof.
  intros Hsel H. destruct (skip_verify_shape v Hsel) as [[e E]|[E|[nm [Hnm E]]]]; rewrite E in H; inversion H; subst;
    repeat split; try congruence; try discriminate;
    try (intros E'; inversion E'; congruence).
Qed.

(* ---------- the boolean oracle is met by the model ---------- *)
Lemma good_outc_b o : good_outc o -> um_no_panic (Some o) = true.
Proof. unfold good_outc, um_no_panic. destruct (oc_um o); congruence. Qed.

Lemma spec_cons_good_v i o :
  (i_entry i = EVerify \/ i_entry i = EVerifyBlob) ->
  good_v (policy_selected i) o -> spec_cons i o = true.
Proof.
  intros Hent H. destruct H as [oc H1 H2 H3 H4 | oc e H1 H2 H3 | e Hs]; unfold spec_cons; cbn [forallb].
  - rewrite (good_outc_b _ H4). cbn.
    destruct Hent as [-> | ->]; rewrite H1, H2; cbn; destruct (oc_level oc); cbn; congruence.
  - rewrite (good_outc_b _ H3). cbn.
    destruct Hent as [-> | ->]; unfold has_error; rewrite H1, H2; cbn; rewrite errc_eqb_refl;
      destruct (policy_selected i); reflexivity.
  - cbn. destruct Hent as [-> | ->]; rewrite Hs; reflexivity.
Qed.

Lemma spec_cons_good_n i o :
  (i_entry i = ENVerify \/ i_entry i = ENVerifyBlob) -> good_n o -> spec_cons i o = true.
Proof.
  intros Hent H. destruct H as [f oc H1 H2 | e]; unfold spec_cons; cbn [forallb].
  - rewrite (good_outc_b _ H2). cbn. destruct Hent as [-> | ->]; rewrite H1; reflexivity.
  - cbn. destruct Hent as [-> | ->]; reflexivity.
Qed.

Theorem model_spec_cons i : wf i = true -> spec_cons i (model i) = true.
Proof.
  intros Hwf. destruct (wf_parts i Hwf) as (Hi & Hso & Hsb).
  unfold model. destruct (uses_lib i && construct_fails i); [reflexivity|].
  destruct (i_entry i) eqn:Hent.
  - apply spec_cons_good_v; [now left|]. rewrite (policy_selected_verify i Hent).
    apply verify_oci_good; assumption.
  - apply spec_cons_good_v; [now right|]. rewrite (policy_selected_blob i Hent).
    apply verify_blob_good; assumption.
  - destruct (skip_verify_shape (i_v i) Hso) as [[e E]|[E|[nm [Hnm E]]]]; rewrite E; unfold spec_cons; rewrite Hent; cbn;
      try reflexivity.
    destruct nm; cbn; congruence.
  - apply spec_cons_good_n; [now left|]. apply nverify_good; assumption.
  - apply spec_cons_good_n; [now right|]. apply nverify_blob_good; assumption.
  - unfold spec_cons. rewrite Hent. cbn.
    destruct (user_metadata _ _ _) eqn:Eu; try reflexivity.
    exfalso. eapply user_metadata_no_panic; eassumption.
Qed.

(* the oracle rejects exactly what the declarative statements exclude: a
   panicking observation never passes *)
Lemma spec_cons_no_panic i o : spec_cons i o = true -> returns_normally o.
Proof.
  destruct o as [| |f l outs err]; cbn; try discriminate.
  - intros _. split; [discriminate|]. intros; discriminate.
  - intros H. apply andb_prop in H as [H _]. apply andb_prop in H as [H _]. split; [discriminate|].
    intros f' l' outs' e' oc E Hin. inversion E; subst.
    rewrite forallb_forall in H. specialize (H _ Hin). cbn in H.
    destruct (oc_um oc); congruence.
Qed.

Lemma spec_cons_no_nil i f l outs e : spec_cons i (ORet f l outs e) = true -> ~ In None outs.
Proof.
  cbn. intros H Hin. apply andb_prop in H as [H _]. apply andb_prop in H as [_ H].
  rewrite forallb_forall in H. specialize (H _ Hin). discriminate H.
Qed.

(* ---------- every outcome carries the level of the statement of ITS entry point ---------- *)
Lemma verify_oci_level v sc l f lv outs e :
  v_oci v = Some (SelLevel l) -> verify_oci v sc = ORet f lv outs e ->
  forallb (has_level (name_of l)) outs = true /\ (is_skip l = true -> e = None).
Proof.
  intros H. unfold verify_oci. rewrite H.
  destruct (is_skip l) eqn:Es.
  { intros E; inversion E; subst. split; [|reflexivity]. destruct l; try discriminate; reflexivity. }
  destruct (process_signature l (v_pm v) sc) as [|[e0|] c rs]; try discriminate.
  - intros E; inversion E; subst. split; [|discriminate]. cbn. destruct l; reflexivity.
  - destruct (negb c); try discriminate.
    destruct (negb (s_payload_ok sc)).
    + intros E; inversion E; subst. split; [|discriminate]. cbn. destruct l; reflexivity.
    + intros E; inversion E; subst. split; [|discriminate]. cbn. destruct l; reflexivity.
Qed.

Lemma verify_blob_level v sc l f lv outs e :
  v_blob v = Some (SelLevel l) -> verify_blob v sc = ORet f lv outs e ->
  forallb (has_level (name_of l)) outs = true /\ (is_skip l = true -> e = None).
Proof.
  intros H. unfold verify_blob. rewrite H.
  destruct (is_skip l) eqn:Es.
  { intros E; inversion E; subst. split; [|reflexivity]. destruct l; try discriminate; reflexivity. }
  destruct (process_signature l (v_pm v) sc) as [|[e0|] c rs]; try discriminate.
  - intros E; inversion E; subst. split; [|discriminate]. cbn. destruct l; reflexivity.
  - destruct (negb c); try discriminate.
    destruct (negb (s_payload_ok sc)).
    + intros E; inversion E; subst. split; [|discriminate]. cbn. destruct l; reflexivity.
    + destruct (s_descgen_err sc); intros E; inversion E; subst; (split; [|discriminate]); cbn; destruct l; reflexivity.
Qed.

Lemma skip_verify_level v l :
  v_oci v = Some (SelLevel l) -> skip_verify v = ORet (is_skip l) (Some (name_of l)) [] None.
Proof. intros H. unfold skip_verify. rewrite H. destruct l; reflexivity. Qed.

Lemma call_verify_lib_level v sc l o e :
  v_oci v = Some (SelLevel l) -> call_verify VLib v sc = VRes (Some o) e ->
  has_level (name_of l) (Some o) = true.
Proof.
  intros H. cbn [call_verify].
  destruct (verify_oci v sc) as [| |f lv outs e'] eqn:E; try discriminate.
  destruct (verify_oci_level _ _ _ _ _ _ _ H E) as [Hl _].
  destruct outs as [|x outs]; try discriminate.
  intros E'; inversion E'; subst. cbn in Hl. apply andb_prop in Hl as [Hl _]. exact Hl.
Qed.

Lemma nloop_lib_level v l : v_oci v = Some (SelLevel l) ->
  forall k any items o, nloop VLib v k any items = LSuccess (Some o) -> has_level (name_of l) (Some o) = true.
Proof.
  intros H. induction k as [|k IH]; intros any items o; cbn [nloop]; try discriminate.
  destruct items as [|[|sc] rest]; try discriminate.
  destruct (call_verify VLib v sc) as [|[o'|] [e|]] eqn:E; try discriminate.
  - apply IH.
  - intros E'; inversion E'; subst. exact (call_verify_lib_level _ _ _ _ _ H E).
Qed.

Lemma nverify_lib_level v n l f lv outs e :
  v_oci v = Some (SelLevel l) -> nverify VLib v n = ORet f lv outs e ->
  forallb (has_level (name_of l)) outs = true.
Proof.
  intros H. unfold nverify.
  destruct (n_repo_nil n); [intros E; inversion E; reflexivity|].
  destruct (n_max n <=? 0)%Z; [intros E; inversion E; reflexivity|].
  rewrite (skip_verify_level _ _ H).
  destruct (is_skip l) eqn:Es.
  { intros E; inversion E; subst. destruct l; try discriminate; reflexivity. }
  destruct (n_ref n); try (intros E; inversion E; reflexivity).
  destruct (n_resolve_err n); [intros E; inversion E; reflexivity|].
  destruct (n_digest_mismatch n); [intros E; inversion E; reflexivity|].
  destruct (n_list_err n); [intros E; inversion E; reflexivity|].
  destruct (nloop VLib v (Z.to_nat (n_max n)) false (n_items n)) as [|e0|[o|]| |[|]] eqn:El;
    try discriminate; try (intros E; inversion E; reflexivity).
  intros E; inversion E; subst. cbn [forallb]. rewrite (nloop_lib_level _ _ H _ _ _ _ El). reflexivity.
Qed.

Lemma nverify_blob_lib_level v b sc l f lv outs e :
  v_blob v = Some (SelLevel l) -> nverify_blob VLib v b sc = ORet f lv outs e ->
  forallb (has_level (name_of l)) outs = true.
Proof.
  intros H. unfold nverify_blob.
  destruct (b_reader_nil b); [intros E; inversion E; reflexivity|].
  assert (Hmain : match call_verify_blob VLib v sc with
          | VPanic => OPanic
          | VRes _ (Some e0) => ORet false None [] (Some (coarse e0))
          | VRes None None => OPanic
          | VRes (Some o) None =>
              if negb (oc_content o) then ORet false None [Some o] None
              else if negb (blob_payload_ok VLib sc) then ORet false None [] (Some XOther)
              else ORet true None [Some o] None
          end = ORet f lv outs e -> forallb (has_level (name_of l)) outs = true).
  { cbn [call_verify_blob].
    destruct (verify_blob v sc) as [| |f' lv' outs' e'] eqn:Ev; try discriminate.
    destruct (verify_blob_level _ _ _ _ _ _ _ H Ev) as [Hl _].
    destruct outs' as [|x outs'].
    - destruct e'; try discriminate. intros E; inversion E; reflexivity.
    - cbn in Hl. apply andb_prop in Hl as [Hl _].
      destruct x as [o|]; destruct e'; try discriminate; try (intros E; inversion E; reflexivity).
      destruct (negb (oc_content o)).
      + intros E; inversion E; subst. cbn [forallb]. rewrite Hl. reflexivity.
      + destruct (negb (blob_payload_ok VLib sc)); intros E; inversion E; subst; try reflexivity.
        cbn [forallb]. rewrite Hl. reflexivity. }
  destruct (s_sig sc); [intros E; inversion E; reflexivity| |];
    (destruct (b_ctype_bad b); [intros E; inversion E; reflexivity|];
     destruct (b_stype_bad b); [intros E; inversion E; reflexivity|]; exact Hmain).
Qed.

Theorem model_level_ok i f lv outs e :
  model i = ORet f lv outs e -> level_ok i lv outs e = true.
Proof.
  unfold model, level_ok, sel_level.
  destruct (uses_lib i) eqn:Eu; cbn [negb andb]; [|reflexivity].
  destruct (construct_fails i); [discriminate|].
  destruct (i_entry i) eqn:Hent.
  - destruct (v_oci (i_v i)) as [[| |l]|] eqn:Ho; try reflexivity. intros E.
    destruct (verify_oci_level _ _ _ _ _ _ _ Ho E) as [H1 H2]. rewrite H1. cbn.
    destruct (is_skip l); [rewrite (H2 eq_refl)|]; reflexivity.
  - destruct (v_blob (i_v i)) as [[| |l]|] eqn:Ho; try reflexivity. intros E.
    destruct (verify_blob_level _ _ _ _ _ _ _ Ho E) as [H1 H2]. rewrite H1. cbn.
    destruct (is_skip l); [rewrite (H2 eq_refl)|]; reflexivity.
  - destruct (v_oci (i_v i)) as [[| |l]|] eqn:Ho; try reflexivity.
    rewrite (skip_verify_level _ _ Ho). intros E; inversion E; subst. cbn.
    destruct l; reflexivity.
  - destruct (v_oci (i_v i)) as [[| |l]|] eqn:Ho; try reflexivity. intros E.
    unfold uses_lib in Eu. rewrite Hent in Eu. destruct (i_impl i); try discriminate.
    rewrite (nverify_lib_level _ _ _ _ _ _ _ Ho E). reflexivity.
  - destruct (v_blob (i_v i)) as [[| |l]|] eqn:Ho; try reflexivity. intros E.
    unfold uses_lib in Eu. rewrite Hent in Eu. destruct (i_impl i); try discriminate.
    rewrite (nverify_blob_lib_level _ _ _ _ _ _ _ _ Ho E). reflexivity.
  - reflexivity.
Qed.

Theorem model_spec_ok i : wf i = true -> spec_ok i (model i) = true.
Proof.
  intros Hwf. unfold spec_ok. rewrite (model_spec_cons i Hwf). cbn.
  destruct (model i) as [| |f lv outs e] eqn:E; try reflexivity.
  exact (model_level_ok i f lv outs e E).
Qed.

Lemma spec_ok_cons i o : spec_ok i o = true -> spec_cons i o = true.
Proof. unfold spec_ok. intros H. apply andb_prop in H as [H _]. exact H. Qed.

Lemma spec_ok_no_panic i o : spec_ok i o = true -> returns_normally o.
Proof. intros H. exact (spec_cons_no_panic i o (spec_ok_cons i o H)). Qed.

(* no nil outcome pointer is ever handed back *)
Theorem no_nil_outcomes i f l outs e :
  wf i = true -> model i = ORet f l outs e -> ~ In None outs.
Proof.
  intros Hwf Hm. apply (spec_cons_no_nil i f l outs e). rewrite <- Hm. apply model_spec_cons; assumption.
Qed.

(* declarative reading of [level_ok] *)
Theorem outcome_levels i f lv outs e l o :
  model i = ORet f lv outs e -> sel_level i = Some l -> In (Some o) outs -> oc_level o = Some (name_of l).
Proof.
  intros Hm Hs Hin. pose proof (model_level_ok i f lv outs e Hm) as H.
  unfold level_ok in H. rewrite Hs in H. apply andb_prop in H as [H _].
  rewrite forallb_forall in H. specialize (H _ Hin). cbn in H.
  destruct (oc_level o) as [n|]; cbn in H; [|discriminate].
  apply lname_eqb_eq in H. now subst.
Qed.

(* ---------- skip-level statements produce a usable outcome ---------- *)
Theorem skip_level_verify v sc :
  v_oci v = Some (SelLevel LSkip) ->
  verify_oci v sc = ORet false None [Some skip_out] None /\ skip_verify v = ORet true (Some NSkip) [] None.
Proof. intros H. unfold verify_oci, skip_verify. rewrite H. split; reflexivity. Qed.

Theorem skip_level_verify_blob v sc :
  v_blob v = Some (SelLevel LSkip) -> verify_blob v sc = ORet false None [Some skip_out] None.
Proof. intros H. unfold verify_blob. rewrite H. reflexivity. Qed.

Theorem skip_level_nverify v n :
  v_oci v = Some (SelLevel LSkip) -> n_repo_nil n = false -> (0 < n_max n)%Z ->
  nverify VLib v n = ORet false None [Some skip_out] None.
Proof.
  intros H Hr Hm. unfold nverify. rewrite Hr.
  destruct (n_max n <=? 0)%Z eqn:E; [apply Z.leb_le in E; lia|].
  unfold skip_verify. rewrite H. reflexivity.
Qed.

Theorem skip_level_nverify_blob v b sc :
  v_blob v = Some (SelLevel LSkip) -> b_reader_nil b = false -> s_sig sc <> SigEmpty ->
  b_ctype_bad b = false -> b_stype_bad b = false ->
  nverify_blob VLib v b sc = ORet false None [Some skip_out] None.
Proof.
  intros H Hr Hs Hc Ht. unfold nverify_blob. rewrite Hr, Hc, Ht.
  destruct (s_sig sc); try congruence; cbn; unfold verify_blob; rewrite H; reflexivity.
Qed.

(* ---------- a verifier of the wrong kind answers with an error ---------- *)
Theorem wrong_kind_oci v sc n :
  v_oci v = None ->
  verify_oci v sc = ORet false None [] (Some XNil) /\
  skip_verify v = ORet false None [] (Some XNil) /\
  (n_repo_nil n = false -> (0 < n_max n)%Z -> nverify VLib v n = ORet false None [] (Some XNil)).
Proof.
  intros H. unfold nverify, verify_oci, skip_verify. rewrite H. repeat split.
  intros Hr Hm. rewrite Hr. destruct (n_max n <=? 0)%Z eqn:E; [apply Z.leb_le in E; lia|]. reflexivity.
Qed.

Theorem wrong_kind_blob v sc b :
  v_blob v = None ->
  verify_blob v sc = ORet false None [] (Some XNil) /\
  (b_reader_nil b = false -> s_sig sc <> SigEmpty -> b_ctype_bad b = false -> b_stype_bad b = false ->
   nverify_blob VLib v b sc = ORet false None [] (Some XNil)).
Proof.
  intros H. unfold verify_blob, nverify_blob. rewrite H. split; [reflexivity|].
  intros Hr Hs Hc Ht. rewrite Hr, Hc, Ht.
  destruct (s_sig sc); try congruence; cbn; unfold verify_blob; rewrite H; reflexivity.
Qed.

(* ---------- a missing plugin manager ---------- *)
Theorem nil_plugin_manager l sc :
  s_sig sc = SigOK -> s_pattr sc = PName -> s_nonstr_crit sc = false -> s_minver_bad sc = false ->
  process_signature l PMNil sc = PSRet (Some XInconclusive) true [(TInt, false)].
Proof.
  intros H1 H2 H3 H4. unfold process_signature, process_signature_gen, discover_gen. rewrite H1, H2, H3, H4. reflexivity.
Qed.

(* nil arguments of the notation.* functions *)
Theorem nil_arguments v n b sc impl :
  nverify VNil v n = ORet false None [] (Some XNil) /\
  nverify_blob VNil v b sc = ORet false None [] (Some XNil) /\
  (impl <> VNil -> n_repo_nil n = true -> nverify impl v n = ORet false None [] (Some XNil)) /\
  (impl <> VNil -> b_reader_nil b = true -> nverify_blob impl v b sc = ORet false None [] (Some XNil)).
Proof.
  repeat split.
  - intros Hn Hr. unfold nverify. rewrite Hr. destruct impl; congruence.
  - intros Hn Hr. unfold nverify_blob. rewrite Hr. destruct impl; congruence.
Qed.

(* ---------- the behaviour before the two fixes, and the contracts ---------- *)
Definition v_blob_only : verifier := mk_v None (Some (SelLevel LStrict)) PMNil.
Definition v_blob_skip : verifier := mk_v None (Some (SelLevel LSkip)) PMNil.
Definition sc_good : scenario :=
  mk_sc SigOK PAbsent false false false false false false false false RevOK
        (PResp true (Some true) (Some true)) true false true false false false.
Definition n_one : nreq := mk_nreq false 1 RefOK false false false [Sig sc_good].
Definition b_good : breq := mk_breq false false false.

Theorem prefix_87f7f59_refuted : skip_verify_v0 v_blob_only = OPanic /\ skip_verify v_blob_only <> OPanic.
Proof. split; [reflexivity | discriminate]. Qed.

Theorem prefix_00e9a29_refuted :
  nverify_blob_v0 VLib v_blob_skip b_good sc_good = OPanic /\
  nverify_blob VLib v_blob_skip b_good sc_good = ORet false None [Some skip_out] None.
Proof. split; reflexivity. Qed.

(* each conjunct of [wf] is needed: violating it alone reaches a dereference *)
Definition i_base (e : entry) (v : verifier) (impl : vimpl) (sc : scenario) : input :=
  mk_input e false v impl sc n_one b_good CCNone.
Definition v_strict (pm : pmgr) : verifier := mk_v (Some (SelLevel LStrict)) (Some (SelLevel LStrict)) pm.
Definition sc_plugin (r : presp) : scenario :=
  mk_sc SigOK PName false false false false false false false false RevOK r true false true false false false.
Definition sc_rev (r : revr) : scenario :=
  mk_sc SigOK PAbsent false false false false false false false false r
        (PResp true (Some true) (Some true)) true false true false false false.

Theorem contracts_needed :
  model (i_base ENVerifyBlob (v_strict PMNil) (VCustom None false) sc_good) = OPanic /\
  model (i_base EVerify (mk_v (Some SelBadLevel) None PMNil) VLib sc_good) = OPanic.
Proof. repeat split; reflexivity. Qed.

(* before fix 686cc56 a verification plugin answering (nil, nil) to get-plugin-metadata or to
   verify-signature reached a dereference; now both are ordinary failures with the outcome present *)
Theorem prefix_686cc56_refuted :
  process_signature_v0 LStrict (PMPlugin MetaNil) (sc_plugin (PResp true (Some true) (Some true))) = PSPanic /\
  process_signature_v0 LStrict (PMPlugin (Meta true [CapTI])) (sc_plugin PRNil) = PSPanic /\
  (exists o, model (i_base EVerify (v_strict (PMPlugin MetaNil)) VLib (sc_plugin (PResp true (Some true) (Some true))))
               = ORet false None [Some o] (Some XInconclusive) /\ oc_err o = Some XInconclusive) /\
  (exists o, model (i_base EVerifyBlob (v_strict (PMPlugin (Meta true [CapTI]))) VLib (sc_plugin PRNil))
               = ORet false None [Some o] (Some XOther) /\ oc_err o = Some XOther).
Proof.
  split; [reflexivity|]. split; [reflexivity|]. split; eexists; split; reflexivity.
Qed.

(* before fix d78db00 a revocation validator answering with a nil entry / another number of
   results than certificates reached a dereference; now it is an ordinary revocation failure *)
Theorem prefix_d78db00_refuted :
  native_v0 LStrict (sc_rev RevBadShape) [] = NPanic /\
  native LStrict (sc_rev RevBadShape) [] =
    NStop (XResult TRev) [(TInt, false); (TAuth, false); (TExp, false); (TTs, false); (TRev, true)] /\
  (exists o, model (i_base EVerifyBlob (v_strict PMNil) VLib (sc_rev RevBadShape)) = ORet false None [Some o] (Some (XResult TRev)) /\
             oc_err o = Some (XResult TRev)) /\
  (exists o, model (i_base EVerify (mk_v (Some (SelLevel LAudit)) None PMNil) VLib (sc_rev RevBadShape)) = ORet false None [Some o] None /\
             oc_results o = [(TInt, false); (TAuth, false); (TExp, false); (TTs, false); (TRev, true)]).
Proof.
  split; [reflexivity|]. split; [reflexivity|]. split; eexists; split; reflexivity.
Qed.

(* before fix a146158 a revocation validator putting a nil entry among the server results of a result
   reached a dereference (the logging loop of revocationFinalResult): the contract "no nil server result"
   was needed. Now the entry is skipped and the verdict is the results' own *)
Theorem prefix_a146158_refuted :
  native_v1 LStrict (sc_rev RevNilServer) [] = NPanic /\
  native LStrict (sc_rev RevNilServer) [] =
    NGo [(TInt, false); (TAuth, false); (TExp, false); (TTs, false); (TRev, false)] /\
  (exists o, model (i_base EVerify (v_strict PMNil) VLib (sc_rev RevNilServer)) = ORet false None [Some o] None /\
             oc_err o = None /\
             oc_results o = [(TInt, false); (TAuth, false); (TExp, false); (TTs, false); (TRev, false)]).
Proof.
  split; [reflexivity|]. split; [reflexivity|]. eexists; repeat split; reflexivity.
Qed.

(* a caller-supplied verifier answering (nil, nil) makes notation.Verify return a nil outcome *)
Theorem custom_nil_nil_verify :
  model (i_base ENVerify (v_strict PMNil) (VCustom None false) sc_good) = ORet true None [None] None.
Proof. reflexivity. Qed.

(* ---------- the level table is the one of the sources ---------- *)
Definition act_name (a : action) : string :=
  match a with Enforce => "enforce" | Log => "log" | Skip => "skip" end.
Definition vt_name (t : vtype) : string :=
  match t with
  | TInt => "integrity" | TAuth => "authenticity" | TTs => "authenticTimestamp"
  | TExp => "expiry" | TRev => "revocation"
  end.
Definition table (l : level) : list (string * string) :=
  map (fun t => (vt_name t, act_name (act l t))) [TInt; TAuth; TTs; TExp; TRev].

Theorem levels_generated :
  [("strict", table LStrict); ("permissive", table LPermissive); ("audit", table LAudit); ("skip", table LSkip)]
  = gen_levels.
Proof. reflexivity. Qed.

(* non-vacuity *)
Example wf_example :
  let i := i_base ENVerify (v_strict (PMPlugin (Meta true [CapTI; CapRev]))) VLib sc_good in
  wf i = true /\ exists o, model i = ORet true None [Some o] None /\ oc_err o = None.
Proof. split; [reflexivity|]. eexists; split; reflexivity. Qed.
