(* C06_Model.v — model of the expiry and authentic-timestamp validations of
   verifier.processSignature. Definitions only. Mirrors, statement by statement,
     verifier/verifier.go  verifyExpiry, verifyAuthenticTimestamp, verifyTimestamp,
                           revocationFinalResult (as used for the TSA chain),
                           the two steps of processSignature that call them
     verifier/helpers.go   isTSATrustStoreInPolicy, loadX509TSATrustStores /
                           loadX509TrustStoresWithType
   Time is a [Z] (the harness uses seconds relative to its start); the moment
   of verification [i_now] is an input (the Go code reads the wall clock).
   What notation-core-go, tspclient-go and crypto/x509 decide about the
   RFC 3161 countersignature is a record of oracle facts ([token]), consulted
   by the model in the order the code consults them. *)
From NV Require Import Base.
Local Open Scope Z_scope.

Inductive scheme := X509 | SigningAuthority.
Inductive tsopt := OptUnset | OptAlways | OptAfterCertExpiry.   (* signatureVerification.verifyTimestamp *)
Inductive action := Enforce | Log.          (* expiry / authenticTimestamp cannot be skipped in a policy *)

Record cert := mk_cert { nb : Z; na : Z }.  (* NotBefore, NotAfter *)

Inductive rres := ROK | RNonRevokable | RUnknown | RRevoked | ROther
  | RNil.   (* a nil entry in the validator's answer *)
Inductive vout := VErr | VRes (rs : list rres).     (* answer of the timestamping revocation validator *)
Inductive sres := SErr | SEmpty | SCerts.           (* answer of the trust store for one named tsa store *)

(* oracle facts about the countersignature, in the order verifyTimestamp asks *)
Record token := mk_token {
  k_present : bool;      (* len(UnsignedAttributes.TimestampSignature) > 0 *)
  k_parses : bool;       (* tspclient.ParseSignedToken succeeds *)
  k_info : bool;         (* SignedToken.Info succeeds *)
  k_imprint : bool;      (* TSTInfo.Validate(signature value) succeeds: version 1, known
                            hash, message imprint = hash of the envelope's signature value *)
  k_gen : Z;             (* genTime *)
  k_acc : Z;             (* accuracy, as computed by TSTInfo.Validate *)
  k_verify : bool;       (* SignedToken.Verify under the certificates of the policy's tsa
                            stores at CurrentTime = genTime returns a chain *)
  k_rules : bool;        (* nx509.ValidateTimestampingCertChain accepts that chain *)
  k_tsalen : N;          (* number of certificates of that chain (the TSA chain) *)
  k_rev : vout }.        (* revocation validator's answer for that chain *)

Record input := mk_input {
  i_now : Z;                         (* moment of verification *)
  i_scheme : scheme;
  i_sigtime : Z;                     (* signed (authentic) signing time *)
  i_expiry : option Z;               (* None = zero time, no expiry *)
  i_chain : list cert;               (* signing chain, leaf first *)
  i_stores : list string;            (* trustStores of the policy statement *)
  i_opt : tsopt;
  i_tsadb : list (string * sres);    (* the trust store: tsa store name -> answer; absent = error *)
  i_tok : token;
  i_aexp : action;                   (* action of expiry in the verification level *)
  i_ats : action }.                  (* action of authenticTimestamp *)

(* why the authentic-timestamp validation failed: one constructor per error
   return of the code; [k] = position in the signing chain (for the last two:
   in the TSA chain) of the certificate the message names *)
Inductive why :=
| WSigTime (k : N)        (* signingAuthority: certificate not valid at the signing time *)
| WConfig                 (* trust store value without separator *)
| WNowBefore (k : N) | WNowAfter (k : N)
| WNoToken | WParse | WInfo | WImprint | WLoad | WNoRoots | WVerify | WRules
| WTsBefore (k : N) | WTsAfter (k : N)
| WRevErr
| WRevCount               (* checkRevocationResults: not one result per TSA certificate *)
| WRevNil (k : N)         (* checkRevocationResults: nil entry at position k *)
| WRevoked (k : N) | WRevUnknown (k : N).

Inductive res := Passed | Failed (w : why).

Record obs := mk_obs {
  o_expiry : option bool;     (* expiry entry of the outcome: Some true = passed; None = no entry *)
  o_ts : option res;          (* authenticTimestamp entry *)
  o_rejected : bool }.        (* Verify returned an error *)

(* ---------- verifyExpiry ----------
   fails iff  !expiry.IsZero() && !time.Now().Before(expiry) *)
Definition verify_expiry (now : Z) (e : option Z) : bool :=
  match e with
  | None => true
  | Some t => now <? t
  end.

(* ---------- signingAuthority loop ---------- *)
Fixpoint sa_loop (t : Z) (cs : list cert) (k : N) : res :=
  match cs with
  | [] => Passed
  | c :: cs' =>
      if (t <? nb c) || (na c <? t) then Failed (WSigTime k)
      else sa_loop t cs' (N.succ k)
  end.

(* ---------- isTSATrustStoreInPolicy ---------- *)
Definition colon : ascii := ":"%char.

Fixpoint tsa_in_policy (stores : list string) : option bool :=
  match stores with
  | [] => Some false
  | s :: r =>
      match cut_byte colon s with
      | None => None
      | Some (ty, _) => if String.eqb ty "tsa" then Some true else tsa_in_policy r
      end
  end.

(* ---------- loadX509TrustStoresWithType(TypeTSA) ----------
   [seen] = processedStoreSet; result: None = error, Some b = b says whether
   the concatenated certificate list is non-empty *)
Fixpoint lookup_db (name : string) (db : list (string * sres)) : sres :=
  match db with
  | [] => SErr
  | (n, r) :: db' => if String.eqb name n then r else lookup_db name db'
  end.

Fixpoint load_tsa (stores seen : list string) (db : list (string * sres)) (acc : bool) : option bool :=
  match stores with
  | [] => Some acc
  | s :: r =>
      if mem_str s seen then load_tsa r seen db acc
      else match cut_byte colon s with
           | None => None
           | Some (ty, name) =>
               if negb (String.eqb ty "tsa") then load_tsa r seen db acc
               else match lookup_db name db with
                    | SErr => None
                    | SEmpty => load_tsa r (s :: seen) db acc
                    | SCerts => load_tsa r (s :: seen) db true
                    end
           end
  end.

(* ---------- loops over the signing chain in verifyTimestamp ---------- *)
Definition expired (now : Z) (cs : list cert) : bool := existsb (fun c => na c <? now) cs.

Fixpoint now_loop (now : Z) (cs : list cert) (k : N) : res :=
  match cs with
  | [] => Passed
  | c :: cs' =>
      if now <? nb c then Failed (WNowBefore k)
      else if na c <? now then Failed (WNowAfter k)
      else now_loop now cs' (N.succ k)
  end.

(* BoundedAfter(NotBefore): lo >= nb;  BoundedBefore(NotAfter): hi <= na *)
Fixpoint ts_loop (lo hi : Z) (cs : list cert) (k : N) : option why :=
  match cs with
  | [] => None
  | c :: cs' =>
      if negb (nb c <=? lo) then Some (WTsBefore k)
      else if negb (hi <=? na c) then Some (WTsAfter k)
      else ts_loop lo hi cs' (N.succ k)
  end.

(* ---------- revocationFinalResult on the TSA chain ----------
   loop i = len(results)-1 .. 0 with counters; certificates are named by
   their index. Since d78db00 checkRevocationResults runs first ([shape_check]
   below): the loop only sees one non-nil result per TSA certificate. *)
Definition is_ok (r : rres) : bool :=
  match r with ROK | RNonRevokable => true | _ => false end.
Definition is_revoked (r : rres) : bool :=
  match r with RRevoked => true | _ => false end.

Record racc := mk_racc {
  a_final : rres; a_numOK : nat; a_prob : N; a_revFound : bool; a_revSubj : N }.
Definition racc0 : racc := mk_racc RUnknown 0 0%N false 0%N.

Definition rstep (a : racc) (x : rres * N) : racc :=
  let '(r, s) := x in
  if is_ok r then mk_racc (a_final a) (S (a_numOK a)) (a_prob a) (a_revFound a) (a_revSubj a)
  else if is_revoked r then mk_racc r (a_numOK a) s true s
  else mk_racc r (a_numOK a) s (a_revFound a) (a_revSubj a).

Fixpoint index_from (k : N) {A} (l : list A) : list (A * N) :=
  match l with
  | [] => []
  | x :: l' => (x, k) :: index_from (N.succ k) l'
  end.

Definition final_result (rs : list rres) : rres * N :=
  let a := fold_left rstep (rev (index_from 0%N rs)) racc0 in
  let '(f, p) := if a_revFound a then (RRevoked, a_revSubj a) else (a_final a, a_prob a) in
  if Nat.eqb (a_numOK a) (List.length rs) then (ROK, p) else (f, p).

Definition rev_check (v : vout) : option why :=
  match v with
  | VErr => Some WRevErr
  | VRes rs =>
      match final_result rs with
      | (ROK, _) => None
      | (RRevoked, p) => Some (WRevoked p)
      | (_, p) => Some (WRevUnknown p)
      end
  end.

(* ---------- checkRevocationResults(certResults, tsaCertChain) ----------
   len(certResults) != len(certChain) -> error; then the first nil entry -> error *)
Definition is_nil (r : rres) : bool := match r with RNil => true | _ => false end.

Fixpoint first_nil (k : N) (rs : list rres) : option N :=
  match rs with
  | [] => None
  | r :: rs' => if is_nil r then Some k else first_nil (N.succ k) rs'
  end.

Definition shape_check (n : N) (v : vout) : option why :=
  match v with
  | VErr => None          (* ValidateContext's own error is returned before (see [rev_check]) *)
  | VRes rs =>
      if negb (N.of_nat (List.length rs) =? n)%N then Some WRevCount
      else match first_nil 0%N rs with
           | Some k => Some (WRevNil k)
           | None => None
           end
  end.

(* ---------- verifyTimestamp ---------- *)
Definition perform_ts (now : Z) (cs : list cert) (opt : tsopt) (enabled : bool) : bool :=
  enabled && match opt with
             | OptAfterCertExpiry => expired now cs
             | _ => true
             end.

Definition countersig (i : input) : res :=
  let k := i_tok i in
  if negb (k_present k) then Failed WNoToken
  else if negb (k_parses k) then Failed WParse
  else if negb (k_info k) then Failed WInfo
  else if negb (k_imprint k) then Failed WImprint
  else match load_tsa (i_stores i) [] (i_tsadb i) false with
       | None => Failed WLoad
       | Some false => Failed WNoRoots
       | Some true =>
           if negb (k_verify k) then Failed WVerify
           else if negb (k_rules k) then Failed WRules
           else match ts_loop (k_gen k - k_acc k) (k_gen k + k_acc k) (i_chain i) 0%N with
                | Some w => Failed w
                | None =>
                    match shape_check (k_tsalen k) (k_rev k) with
                    | Some w => Failed w
                    | None =>
                        match rev_check (k_rev k) with
                        | Some w => Failed w
                        | None => Passed
                        end
                    end
                end
       end.

Definition verify_timestamp (i : input) : res :=
  match tsa_in_policy (i_stores i) with
  | None => Failed WConfig
  | Some enabled =>
      if perform_ts (i_now i) (i_chain i) (i_opt i) enabled
      then countersig i
      else now_loop (i_now i) (i_chain i) 0%N
  end.

(* ---------- verifyAuthenticTimestamp ---------- *)
Definition verify_authentic_timestamp (i : input) : res :=
  match i_scheme i with
  | X509 => verify_timestamp i
  | SigningAuthority => sa_loop (i_sigtime i) (i_chain i) 0%N
  end.

(* ---------- the two steps of processSignature ----------
   (integrity, authenticity and trusted identity passed; revocation passes or
   is skipped; no plugin) *)
Definition is_failed (r : res) : bool := match r with Passed => false | Failed _ => true end.
Definition enforced (a : action) : bool := match a with Enforce => true | Log => false end.

Definition model (i : input) : obs :=
  let e := verify_expiry (i_now i) (i_expiry i) in
  if enforced (i_aexp i) && negb e then mk_obs (Some false) None true
  else
    let r := verify_authentic_timestamp i in
    mk_obs (Some e) (Some r) (enforced (i_ats i) && is_failed r).

(* ---------- boolean equalities ---------- *)
Definition why_eqb (a b : why) : bool :=
  match a, b with
  | WSigTime x, WSigTime y | WNowBefore x, WNowBefore y | WNowAfter x, WNowAfter y
  | WTsBefore x, WTsBefore y | WTsAfter x, WTsAfter y
  | WRevoked x, WRevoked y | WRevUnknown x, WRevUnknown y | WRevNil x, WRevNil y => (x =? y)%N
  | WConfig, WConfig | WNoToken, WNoToken | WParse, WParse | WInfo, WInfo
  | WImprint, WImprint | WLoad, WLoad | WNoRoots, WNoRoots | WVerify, WVerify
  | WRules, WRules | WRevErr, WRevErr | WRevCount, WRevCount => true
  | _, _ => false
  end.

Definition res_eqb (a b : res) : bool :=
  match a, b with
  | Passed, Passed => true
  | Failed x, Failed y => why_eqb x y
  | _, _ => false
  end.

Definition obs_eqb (a b : obs) : bool :=
  opt_eqb Bool.eqb (o_expiry a) (o_expiry b)
  && opt_eqb res_eqb (o_ts a) (o_ts b)
  && Bool.eqb (o_rejected a) (o_rejected b).

(* ---------- the input contract ----------
   every trust store value has a separator (trust policy validation rejects
   the document otherwise) *)
Definition wf (i : input) : bool := forallb (contains_byte colon) (i_stores i).

(* ---------- the property oracle ----------
   A declarative reading of the property text, evaluated on what the
   implementation did; it calls neither [model] nor any of the loops above. *)
Definition valid_at (t : Z) (c : cert) : bool := (nb c <=? t) && (t <=? na c).

Definition is_tsa_store (s : string) : bool := has_prefix "tsa:" s.

(* timestamp verification applies: a tsa store is listed and the option is
   unset / always, or afterCertExpiry with some certificate past notAfter now *)
Definition applies (i : input) : bool :=
  existsb is_tsa_store (i_stores i)
  && match i_opt i with
     | OptAfterCertExpiry => existsb (fun c => na c <? i_now i) (i_chain i)
     | _ => true
     end.

Definition store_loads (db : list (string * sres)) (s : string) : bool :=
  match lookup_db (drop 4 s) db with SErr => false | _ => true end.
Definition store_has (db : list (string * sres)) (s : string) : bool :=
  match lookup_db (drop 4 s) db with SCerts => true | _ => false end.

(* every listed tsa store loads / at least one of them holds a certificate *)
Definition all_load (i : input) : bool :=
  forallb (fun s => negb (is_tsa_store s) || store_loads (i_tsadb i) s) (i_stores i).
Definition some_root (i : input) : bool :=
  existsb (fun s => is_tsa_store s && store_has (i_tsadb i) s) (i_stores i).

Definition window_ok (lo hi : Z) (c : cert) : bool := (nb c <=? lo) && (hi <=? na c).

Definition rev_ok (v : vout) : bool :=
  match v with VErr => false | VRes rs => forallb is_ok rs end.

(* the validator answered with one (non-nil) result per certificate of the TSA chain *)
Definition shape_ok (n : N) (v : vout) : bool :=
  match v with
  | VErr => true
  | VRes rs => (N.of_nat (List.length rs) =? n)%N && forallb (fun r => negb (is_nil r)) rs
  end.

Definition token_ok (i : input) : bool :=
  let k := i_tok i in
  k_present k && k_parses k && k_info k && k_imprint k
  && all_load i && some_root i && k_verify k && k_rules k
  && forallb (window_ok (k_gen k - k_acc k) (k_gen k + k_acc k)) (i_chain i)
  && shape_ok (k_tsalen k) (k_rev k) && rev_ok (k_rev k).

Definition expected_pass (i : input) : bool :=
  match i_scheme i with
  | SigningAuthority => forallb (valid_at (i_sigtime i)) (i_chain i)
  | X509 => if applies i then token_ok i else forallb (valid_at (i_now i)) (i_chain i)
  end.

Definition cert_at (k : N) (cs : list cert) (p : cert -> bool) : bool :=
  match nth_error cs (N.to_nat k) with Some c => p c | None => false end.
Definition rres_at (k : N) (v : vout) (p : rres -> bool) : bool :=
  match v with
  | VErr => false
  | VRes rs => match nth_error rs (N.to_nat k) with Some r => p r | None => false end
  end.

(* a reported reason must be truthful: the fact it names is indeed violated,
   in the branch (scheme, applies) it belongs to *)
Definition why_ok (i : input) (w : why) : bool :=
  let k := i_tok i in
  let lo := k_gen k - k_acc k in
  let hi := k_gen k + k_acc k in
  match w with
  | WSigTime n =>
      match i_scheme i with
      | SigningAuthority => cert_at n (i_chain i) (fun c => negb (valid_at (i_sigtime i) c))
      | X509 => false
      end
  | _ =>
      match i_scheme i with
      | SigningAuthority => false
      | X509 =>
          match w with
          | WSigTime _ | WConfig => false
          | WNowBefore n => negb (applies i) && cert_at n (i_chain i) (fun c => i_now i <? nb c)
          | WNowAfter n => negb (applies i) && cert_at n (i_chain i) (fun c => na c <? i_now i)
          | WNoToken => applies i && negb (k_present k)
          | WParse => applies i && negb (k_parses k)
          | WInfo => applies i && negb (k_info k)
          | WImprint => applies i && negb (k_imprint k)
          | WLoad => applies i && negb (all_load i)
          | WNoRoots => applies i && negb (some_root i)
          | WVerify => applies i && negb (k_verify k)
          | WRules => applies i && negb (k_rules k)
          | WTsBefore n => applies i && cert_at n (i_chain i) (fun c => lo <? nb c)
          | WTsAfter n => applies i && cert_at n (i_chain i) (fun c => na c <? hi)
          | WRevErr => applies i && match k_rev k with VErr => true | _ => false end
          | WRevCount =>
              applies i && match k_rev k with
                           | VRes rs => negb (N.of_nat (List.length rs) =? k_tsalen k)%N
                           | VErr => false
                           end
          | WRevNil n => applies i && rres_at n (k_rev k) is_nil
          | WRevoked n => applies i && rres_at n (k_rev k) is_revoked
          | WRevUnknown n =>
              applies i && rres_at n (k_rev k) (fun r => negb (is_ok r))
              && negb (rres_at n (k_rev k) is_revoked)
          end
      end
  end.

Definition expiry_passes (i : input) : bool :=
  match i_expiry i with None => true | Some t => negb (t <=? i_now i) end.

Definition spec_ok (i : input) (o : obs) : bool :=
  match o_expiry o with
  | None => false
  | Some e =>
      Bool.eqb e (expiry_passes i)
      && if enforced (i_aexp i) && negb e
         then match o_ts o with None => o_rejected o | Some _ => false end
         else match o_ts o with
              | None => false
              | Some r =>
                  Bool.eqb (negb (is_failed r)) (expected_pass i)
                  && match r with Passed => true | Failed w => why_ok i w end
                  && Bool.eqb (o_rejected o) (enforced (i_ats i) && is_failed r)
              end
  end.

(* ---------- cases ---------- *)
Record case := mk_case { c_id : N; c_in : input; c_obs : obs }.

Definition run (cs : list case) : list (N * N * N) :=
  run_cases c_id
    (fun c => obs_eqb (model (c_in c)) (c_obs c))
    (fun c => negb (wf (c_in c)) || spec_ok (c_in c) (c_obs c))
    (fun _ => 0%N) cs.

(* ---------- the property as propositions (used by props/C06_Property.v) ---------- *)
Definition Valid_at (t : Z) (c : cert) : Prop := nb c <= t <= na c.

(* the policy lists a tsa store *)
Definition Lists_tsa (stores : list string) : Prop :=
  exists name, In ("tsa:" ++ name)%string stores.

(* some certificate of the signing chain is past notAfter at the moment of verification *)
Definition Expired_now (i : input) : Prop := exists c, In c (i_chain i) /\ na c < i_now i.

(* timestamp verification applies *)
Definition Applies (i : input) : Prop :=
  Lists_tsa (i_stores i) /\ (i_opt i = OptAfterCertExpiry -> Expired_now i).

(* the timestamp range [lo, hi] lies inside the validity of c *)
Definition Inside (lo hi : Z) (c : cert) : Prop := nb c <= lo /\ hi <= na c.

(* the envelope carries a countersignature over its signature value, issued by
   an unrevoked TSA chaining to the policy's tsa stores, whose range lies
   inside every certificate's validity *)
Definition Token_ok (i : input) : Prop :=
  let k := i_tok i in
  k_present k = true /\ k_parses k = true /\ k_info k = true /\ k_imprint k = true /\
  (forall name, In ("tsa:" ++ name)%string (i_stores i) -> lookup_db name (i_tsadb i) <> SErr) /\
  (exists name, In ("tsa:" ++ name)%string (i_stores i) /\ lookup_db name (i_tsadb i) = SCerts) /\
  k_verify k = true /\ k_rules k = true /\
  Forall (Inside (k_gen k - k_acc k) (k_gen k + k_acc k)) (i_chain i) /\
  (* unrevoked TSA: one result per certificate of the TSA chain, each OK or non-revokable *)
  exists rs, k_rev k = VRes rs /\ N.of_nat (List.length rs) = k_tsalen k /\
             Forall (fun r => r = ROK \/ r = RNonRevokable) rs.

(* functional updates used to state what a result does NOT depend on *)
Definition with_opt (i : input) (o : tsopt) : input :=
  mk_input (i_now i) (i_scheme i) (i_sigtime i) (i_expiry i) (i_chain i) (i_stores i) o
           (i_tsadb i) (i_tok i) (i_aexp i) (i_ats i).
Definition with_sigtime (i : input) (t : Z) : input :=
  mk_input (i_now i) (i_scheme i) t (i_expiry i) (i_chain i) (i_stores i) (i_opt i)
           (i_tsadb i) (i_tok i) (i_aexp i) (i_ats i).
Definition with_now (i : input) (t : Z) : input :=
  mk_input t (i_scheme i) (i_sigtime i) (i_expiry i) (i_chain i) (i_stores i) (i_opt i)
           (i_tsadb i) (i_tok i) (i_aexp i) (i_ats i).
Definition with_policy (i : input) (stores : list string) (o : tsopt)
           (db : list (string * sres)) (k : token) : input :=
  mk_input (i_now i) (i_scheme i) (i_sigtime i) (i_expiry i) (i_chain i) stores o
           db k (i_aexp i) (i_ats i).

(* ---------- a concrete state used by the Examples of props/C06_Property.v ----------
   leaf expired 36000 s ago, root valid; afterCertExpiry; tsa store "a" holds a
   certificate; token issued 72000 s ago with 1 s accuracy by a trusted,
   well-formed, unrevoked TSA *)
Definition ex_tok : token := mk_token true true true true (-72000) 1 true true 2 (VRes [ROK; ROK]).
Definition ex_in (stores : list string) (k : token) : input :=
  mk_input 0 X509 (-80000) None [mk_cert (-360000) (-36000); mk_cert (-360000) 360000]
           stores OptAfterCertExpiry [("a", SCerts)] k Enforce Enforce.
