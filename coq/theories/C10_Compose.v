(* C10_Compose.v — composition of the model of notation.Verify (C10_Model) with
   the model of verifier.Verify (C01_Model).

   C10_Model treats "signature k verifies" as an abstract kind. Here a listed
   signature is either unfetchable or a fetched envelope, given by the facts
   C01's model takes as inputs (what notation-core-go / encoding/json say about
   the envelope bytes, and what the rest of processSignature answers). The
   verifier is the one of verifier/verifier.go: one trust-policy statement
   (level + override), the caller's required UserMetadata, and — because
   notation.Verify hands the RESOLVED descriptor to every verifier.Verify call
   (checked call by call by the C10 harness: o_args) — the descriptor presented
   to C01's model is the resolved one. The kind of a fetched signature is what
   C01's model of verifier.Verify returns on it:
       G   no error
       Bd  an error together with an outcome
       NO  an error without outcome (only when the statement is illegal, i.e. the
           verifier could not have been constructed)
   and the verifier's SkipVerify answers skip iff the level is the skip level
   (verifier.SkipVerify: reflect.DeepEqual(level, LevelSkip)).

   Definitions and proofs; the statements are in props/C10_WithC01.v. *)
From NV Require C01_Model C01_Proofs.
From NV Require Import Base C10_Model C10_Proofs.
Local Open Scope list_scope.

Module M1 := C01_Model.

(* ---------- composed inputs ---------- *)

(* one listed signature *)
Inductive sigentry :=
| Unfetchable
| Fetched (env : M1.envfacts) (rest rest_touch : bool).

(* ArtifactReference as oras parses it; a digest reference carries its digest *)
Inductive cref :=
| CInvalid
| CNoRef
| CTag
| CDigest (dg : string).

Record cinput := mk_cin {
  ci_max : Z;                          (* MaxSignatureAttempts *)
  ci_ref : cref;
  ci_rerr : bool;                      (* Resolve fails *)
  ci_resolved : M1.target;             (* the descriptor Resolve returns *)
  ci_pages : list (list sigentry);     (* the listing, as paged *)
  ci_lerr : bool;
  ci_level : string;                   (* the verifier: signatureVerification.level ... *)
  ci_override : amap;                  (* ... and override of the applicable statement *)
  ci_md : amap }.                      (* VerifyOptions.UserMetadata *)

(* the input of C01's model for a fetched signature: verifier.Verify on the
   RESOLVED descriptor, with the caller's required metadata *)
Definition c01_in (c : cinput) (env : M1.envfacts) (rest touch : bool) : M1.input :=
  M1.mk_in (ci_level c) (ci_override c) env rest touch (ci_md c) (M1.COCI (ci_resolved c)).

Definition verifies (c : cinput) (env : M1.envfacts) (rest touch : bool) : bool :=
  M1.err_eqb (M1.o_err (M1.model (c01_in c env rest touch))) M1.ENone.

Definition kind_of (c : cinput) (s : sigentry) : sigk :=
  match s with
  | Unfetchable => U
  | Fetched env rest touch =>
      if verifies c env rest touch then G
      else match M1.o_out (M1.model (c01_in c env rest touch)) with
           | Some _ => Bd
           | None => NO
           end
  end.

(* ref.ValidateReferenceAsDigest / ref.Reference != artifactDescriptor.Digest.String() *)
Definition refclass_of (c : cinput) : refclass :=
  match ci_ref c with
  | CInvalid => RInvalid
  | CNoRef => RNone
  | CTag => RTag
  | CDigest dg => if String.eqb dg (M1.t_dg (ci_resolved c)) then RDigSame else RDigDiff
  end.

(* verifier.SkipVerify *)
Definition skipper_of (c : cinput) : skipper :=
  match M1.get_level (ci_level c) (ci_override c) with
  | None => SkipErr
  | Some l => if M1.is_skip l then SkipYes else SkipNo
  end.

Definition entries (c : cinput) : list sigentry := List.concat (ci_pages c).

(* the input of C10's model *)
Definition to_c10 (c : cinput) : input :=
  mk_input false false (ci_max c) (skipper_of c) (refclass_of c) (ci_rerr c)
           (map (map (kind_of c)) (ci_pages c)) (ci_lerr c).

(* notation.Verify with the verifier of verifier/verifier.go *)
Definition verify_registry (c : cinput) : obs := model (to_c10 c).

(* ---------- what the corollaries say about signature k ---------- *)

(* entry k was fetched, its envelope is intact with a Notary payload, the signed
   target is the resolved descriptor on digest, size and media type, and every
   required metadata pair is a signed annotation *)
Definition sound_at (c : cinput) (k : nat) : Prop :=
  exists env rest touch,
    nth_error (entries c) k = Some (Fetched env rest touch) /\
    M1.Intact env /\
    exists t, M1.e_decode env = Some t /\
              M1.t_dg t = M1.t_dg (ci_resolved c) /\
              M1.t_sz t = M1.t_sz (ci_resolved c) /\
              M1.t_mt t = M1.t_mt (ci_resolved c) /\
              (forall key v, In (key, v) (ci_md c) -> lookup key (M1.t_ann t) = Some v).

(* entry j was fetched and verifier.Verify failed on it *)
Definition failed_at (c : cinput) (j : nat) : Prop :=
  exists env rest touch,
    nth_error (entries c) j = Some (Fetched env rest touch) /\
    M1.o_err (M1.model (c01_in c env rest touch)) <> M1.ENone.

(* ---------- lemmas ---------- *)

Lemma err_eqb_none e : M1.err_eqb e M1.ENone = true <-> e = M1.ENone.
Proof. destruct e; cbn; split; intros H; try reflexivity; try discriminate. Qed.

Lemma listing_to_c10 c : listing (to_c10 c) = map (kind_of c) (entries c).
Proof. unfold listing, entries, to_c10. cbn [i_pages]. symmetry. apply concat_map. Qed.

Lemma nth_kind c k x :
  nth_error (listing (to_c10 c)) k = Some x ->
  exists s, nth_error (entries c) k = Some s /\ kind_of c s = x.
Proof.
  rewrite listing_to_c10, nth_error_map. destruct (nth_error (entries c) k) as [s|]; cbn; [|discriminate].
  intros H. inversion H. exists s. split; reflexivity.
Qed.

Lemma kind_good c s :
  kind_of c s = G ->
  exists env rest touch, s = Fetched env rest touch /\
    M1.o_err (M1.model (c01_in c env rest touch)) = M1.ENone.
Proof.
  destruct s as [|env rest touch]; cbn; [discriminate|].
  destruct (verifies c env rest touch) eqn:E.
  - intros _. exists env, rest, touch. split; [reflexivity|]. apply err_eqb_none. exact E.
  - destruct (M1.o_out _); discriminate.
Qed.

Lemma kind_bad c s :
  kind_of c s = Bd ->
  exists env rest touch, s = Fetched env rest touch /\
    M1.o_err (M1.model (c01_in c env rest touch)) <> M1.ENone.
Proof.
  destruct s as [|env rest touch]; cbn; [discriminate|].
  destruct (verifies c env rest touch) eqn:E; [discriminate|].
  intros _. exists env, rest, touch. split; [reflexivity|].
  intros H. apply err_eqb_none in H. unfold verifies in E. congruence.
Qed.

Lemma nonskip_skipper c :
  M1.NonSkip (ci_level c) (ci_override c) -> skipper_of c = SkipNo.
Proof. intros (l & Hl & Hs). unfold skipper_of. rewrite Hl, Hs. reflexivity. Qed.

(* a good signature is sound: C01's theorem on the resolved descriptor *)
Lemma good_sound c k env rest touch :
  M1.NonSkip (ci_level c) (ci_override c) ->
  nth_error (entries c) k = Some (Fetched env rest touch) ->
  M1.o_err (M1.model (c01_in c env rest touch)) = M1.ENone ->
  sound_at c k.
Proof.
  intros Hns Hn Hok.
  destruct (C01_Proofs.oci_sound (c01_in c env rest touch) (ci_resolved c) eq_refl Hns Hok)
    as (Hint & t & Hd & Hdg & Hsz & Hmt & Hmd).
  exists env, rest, touch. split; [exact Hn|]. split; [exact Hint|].
  exists t. repeat split; assumption.
Qed.

(* under a non-skip level a success went through the listing *)
Lemma success_reaches c :
  M1.NonSkip (ci_level c) (ci_override c) ->
  o_res (verify_registry c) = ROk ->
  reaches_listing (to_c10 c) /\
  exists k, first_good (listing (to_c10 c)) (ci_max c) k /\
    verify_registry c = mk_obs ROk DResolved (OSig k) (head_of (to_c10 c) ++ pairs 0 (S k)) true.
Proof.
  intros Hns Hok. unfold verify_registry in *.
  destruct (success_returns (to_c10 c) Hok) as [(Hs & _) | (Hr & k & Hg & E)].
  - cbn [to_c10 i_skip] in Hs. rewrite (nonskip_skipper c Hns) in Hs. discriminate.
  - split; [exact Hr|]. exists k. split; [exact Hg | exact E].
Qed.

(* ---------- C10_registry_verification_sound ---------- *)

Theorem registry_verification_sound : forall c,
  M1.NonSkip (ci_level c) (ci_override c) ->
  o_res (verify_registry c) = ROk ->
  exists k,
    o_outs (verify_registry c) = OSig k /\ o_desc (verify_registry c) = DResolved /\
    (Z.of_nat k < ci_max c)%Z /\
    sound_at c k /\
    (forall j, j < k -> failed_at c j) /\
    fetches (o_log (verify_registry c)) = range 0 (S k) /\
    C10_Proofs.verifies (o_log (verify_registry c)) = range 0 (S k).
Proof.
  intros c Hns Hok. destruct (success_reaches c Hns Hok) as (Hr & k & Hg & E).
  exists k. rewrite E. cbn [o_outs o_desc o_log].
  split; [reflexivity|]. split; [reflexivity|].
  pose proof Hg as (Hk & Hn & Hb). cbn [to_c10 i_max] in Hk.
  split; [exact Hk|]. split.
  - destruct (nth_kind c k G Hn) as (s & Hs & Hkind).
    destruct (kind_good c s Hkind) as (env & rest & touch & -> & Hm).
    exact (good_sound c k env rest touch Hns Hs Hm).
  - split.
    + intros j Hj. destruct (nth_kind c j Bd (Hb j Hj)) as (s & Hs & Hkind).
      destruct (kind_bad c s Hkind) as (env & rest & touch & -> & Hm).
      exists env, rest, touch. split; assumption.
    + destruct (fetches_head (to_c10 c)) as (Hf & Hv).
      rewrite fetches_app, verifies_app, Hf, Hv, fetches_pairs, verifies_pairs. split; reflexivity.
Qed.

(* the converse direction of the same composition: what success needs *)
Theorem registry_verification_complete : forall c k env rest touch,
  M1.NonSkip (ci_level c) (ci_override c) ->
  reaches_listing (to_c10 c) ->
  (Z.of_nat k < ci_max c)%Z ->
  nth_error (entries c) k = Some (Fetched env rest touch) ->
  M1.o_err (M1.model (c01_in c env rest touch)) = M1.ENone ->
  (forall j, j < k -> failed_at c j) ->
  verify_registry c = mk_obs ROk DResolved (OSig k) (head_of (to_c10 c) ++ pairs 0 (S k)) true.
Proof.
  intros c k env rest touch Hns Hr Hk Hn Hok Hb. unfold verify_registry.
  rewrite (model_head _ Hr). apply listing_obs_good.
  destruct Hns as (l & Hl & Hskip).
  split; [exact Hk|]. rewrite listing_to_c10. split.
  - rewrite nth_error_map, Hn. cbn. unfold verifies.
    apply err_eqb_none in Hok. rewrite Hok. reflexivity.
  - intros j Hj. destruct (Hb j Hj) as (e' & r' & t' & Hn' & Hne).
    rewrite nth_error_map, Hn'. cbn. unfold verifies.
    destruct (M1.err_eqb (M1.o_err (M1.model (c01_in c e' r' t'))) M1.ENone) eqn:E.
    + apply err_eqb_none in E. contradiction.
    + (* a failing verifier.Verify of a constructible verifier returns an outcome *)
      unfold M1.model, c01_in. cbn [M1.i_level M1.i_override M1.i_call]. rewrite Hl.
      unfold M1.verify_oci, M1.prefix. rewrite Hskip.
      cbn [M1.i_env M1.i_rest M1.i_rest_touch M1.i_md].
      destruct (M1.verify_integrity e'); [reflexivity|].
      destruct r'; [|reflexivity]. cbn [negb].
      destruct (M1.e_decode e'); reflexivity.
Qed.

(* ---------- C10_registry_pin ---------- *)

Theorem registry_pin : forall c dg,
  ci_ref c = CDigest dg ->
  M1.NonSkip (ci_level c) (ci_override c) ->
  o_res (verify_registry c) = ROk ->
  M1.t_dg (ci_resolved c) = dg /\
  exists k env rest touch t,
    o_outs (verify_registry c) = OSig k /\
    nth_error (entries c) k = Some (Fetched env rest touch) /\
    M1.Intact env /\ M1.e_decode env = Some t /\ M1.t_dg t = dg.
Proof.
  intros c dg Href Hns Hok.
  destruct (registry_verification_sound c Hns Hok) as (k & Ho & _ & _ & Hs & _).
  destruct (success_reaches c Hns Hok) as ((_ & _ & _ & _ & Hrc & _) & _).
  assert (Hd : M1.t_dg (ci_resolved c) = dg).
  { cbn [to_c10 i_ref] in Hrc. unfold refclass_of in Hrc. rewrite Href in Hrc.
    destruct (String.eqb dg (M1.t_dg (ci_resolved c))) eqn:E.
    - apply String.eqb_eq in E. symmetry. exact E.
    - destruct Hrc; discriminate. }
  split; [exact Hd|].
  destruct Hs as (env & rest & touch & Hn & Hint & t & Hdec & Hdg & _).
  exists k, env, rest, touch, t.
  split; [exact Ho|]. split; [exact Hn|]. split; [exact Hint|]. split; [exact Hdec|].
  rewrite Hdg. exact Hd.
Qed.

(* a digest reference the repository resolves elsewhere never succeeds, whatever is listed *)
Theorem registry_pin_refuses : forall c dg,
  ci_ref c = CDigest dg -> M1.t_dg (ci_resolved c) <> dg ->
  M1.NonSkip (ci_level c) (ci_override c) ->
  o_res (verify_registry c) <> ROk /\ fetches (o_log (verify_registry c)) = [].
Proof.
  intros c dg Href Hne Hns.
  assert (Hrc : refclass_of c = RDigDiff).
  { unfold refclass_of. rewrite Href. destruct (String.eqb dg (M1.t_dg (ci_resolved c))) eqn:E; [|reflexivity].
    apply String.eqb_eq in E. congruence. }
  unfold verify_registry, model. cbn [to_c10 i_nilv i_nilr i_max i_skip].
  destruct (ci_max c <=? 0)%Z; [split; [discriminate | reflexivity]|].
  rewrite (nonskip_skipper c Hns). unfold after_skip. cbn [to_c10 i_ref i_rerr]. rewrite Hrc.
  destruct (ci_rerr c); split; try discriminate; reflexivity.
Qed.

(* ---------- C10_registry_skip ---------- *)

(* the reference class of the composed input is the string comparison of C10_Model.classify *)
Definition pref_of (r : cref) : pref :=
  match r with CInvalid => PInvalid | CNoRef => PNone | CTag => PTag | CDigest dg => PDigest dg end.

Lemma refclass_of_classify c :
  refclass_of c = classify (pref_of (ci_ref c)) (M1.t_dg (ci_resolved c)).
Proof. unfold refclass_of. destruct (ci_ref c); reflexivity. Qed.

(* the applicable level is the skip level: one SkipVerify call, the skip outcome, the zero
   descriptor; no call on the repository — whatever the reference, the resolved descriptor,
   the listing *)
Theorem registry_skip : forall c l,
  M1.get_level (ci_level c) (ci_override c) = Some l -> M1.is_skip l = true ->
  (0 < ci_max c)%Z ->
  verify_registry c = mk_obs ROk DZero OSkip [ES] true /\
  repo_calls (o_log (verify_registry c)) = [].
Proof.
  intros c l Hl Hs Hm.
  assert (E : skipper_of c = SkipYes) by (unfold skipper_of; rewrite Hl, Hs; reflexivity).
  split.
  - unfold verify_registry. apply skip_nothing; cbn [to_c10 i_nilv i_nilr i_max i_skip]; auto.
  - unfold verify_registry. apply skip_no_repo_calls. exact E.
Qed.

(* conversely the skip outcome is returned only under the skip level *)
Theorem registry_skip_only : forall c,
  o_outs (verify_registry c) = OSkip ->
  exists l, M1.get_level (ci_level c) (ci_override c) = Some l /\ M1.is_skip l = true.
Proof.
  intros c Ho. unfold verify_registry in Ho.
  destruct (model_not_reaching (to_c10 c)) as [Hr | [(_ & _ & _ & _ & Hs) | (r & log & E & _)]].
  - exfalso. rewrite (model_head _ Hr) in Ho. revert Ho. unfold listing_obs.
    destruct (find_stop _ 0) as [[k x]|];
      repeat match goal with |- context [if ?b then _ else _] => destruct b end;
      try destruct x; cbn; discriminate.
  - cbn [to_c10 i_skip] in Hs. unfold skipper_of in Hs.
    destruct (M1.get_level (ci_level c) (ci_override c)) as [l|]; [|discriminate].
    exists l. split; [reflexivity|]. destruct (M1.is_skip l); [reflexivity | discriminate].
  - rewrite E in Ho. cbn in Ho. discriminate.
Qed.
