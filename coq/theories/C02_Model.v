(* C02_Model.v — input/observation records, the declarative acceptance rule of
   property C02 and the boolean oracle evaluated on what the implementation
   did. The model itself is VerifyCore.verify_core composed with
   C02_Levels.get_level. Definitions only. *)
From NV Require Import Base Regex Generated C02_Levels VerifyCore.
Open Scope string_scope.
Open Scope list_scope.

Record input := mk_input {
  i_level : string;           (* signatureVerification.level of the statement *)
  i_override : amap;          (* signatureVerification.override (a Go map, printed sorted) *)
  i_sc : scenario }.

(* None = the verifier could not be constructed (invalid policy) *)
Definition model (i : input) : option obs :=
  match get_level (i_level i) (i_override i) with
  | inl _ => None
  | inr (_, enf) =>
      if String.eqb (i_level i) "skip" then None   (* skip is C10/C12's business *)
      else Some (verify_core (level_of enf) (i_sc i))
  end.

(* ---------- the declarative rule ---------- *)

Definition is_none {A} (o : option A) : bool := match o with None => true | _ => false end.

Definition attr_malformed (a : attr) : bool :=
  match a with
  | AAbsent => false
  | ANotCritical | ANotString => true
  | AStr s => blank s
  end.

(* the plugin the signature demands is installed and usable; gives its
   verification capabilities *)
Definition usable_caps (sc : scenario) : option (list cap) :=
  match s_plugin_attr sc with
  | AStr name =>
      if blank name then None
      else if attr_malformed (s_minver_attr sc) then None
      else if (match s_minver_attr sc with AStr _ => negb (s_minver_valid sc) | _ => false end) then None
      else match s_pm sc with
           | PMPlugin true true caps =>
               match verification_caps caps with [] => None | vc => Some vc end
           | _ => None
           end
  | _ => None
  end.

Definition plugin_demanded (sc : scenario) : bool :=
  match s_plugin_attr sc with AAbsent => false | _ => true end.

Definition caps_to_verify (lvl : level) (caps : list cap) : list cap :=
  filter (fun c => negb (action_eqb (l_rev lvl) Skip && cap_eqb c CapRev)) caps.

Definition enforced (a : action) (failed : bool) : bool :=
  match a with Enforce => failed | _ => false end.

(* which validation results are failed, given who performs them *)
Definition identity_failed (sc : scenario) (caps : list cap) : bool :=
  if has_cap CapTI caps
  then match s_presp sc with PResp _ (Some false) _ => true | _ => false end
  else negb (s_identity_ok sc).

Definition revocation_failed (sc : scenario) (caps : list cap) : bool :=
  if has_cap CapRev caps
  then match s_presp sc with PResp _ _ (Some false) => true | _ => false end
  else negb (s_rev_ok sc).

Definition plugin_exec_problem (lvl : level) (sc : scenario) (caps : list cap) : bool :=
  match caps_to_verify lvl caps with
  | [] => false
  | tv =>
      match s_presp sc with
      | PErr => true
      | PResp processed ti rev =>
          negb (forallb (fun k => mem_str k processed) (s_other_crit sc))
          || (has_cap CapTI tv && is_none ti) || (has_cap CapRev tv && is_none rev)
      end
  end.

(* critical attributes that nothing processes although no plugin runs *)
Definition unprocessed_without_plugin (sc : scenario) : bool :=
  negb (plugin_demanded sc)
  && (match s_other_crit sc with [] => false | _ => true end
      || match s_minver_attr sc with AAbsent | ANotCritical => false | _ => true end).

(* footprint of the known finding F12b: the demanded plugin is usable but not
   run because its only capability is revocation and the level skips it, and
   the signature carries critical extended attributes *)
Definition f12b (lvl : level) (sc : scenario) : bool :=
  match usable_caps sc with
  | Some caps =>
      match caps_to_verify lvl caps with
      | [] => match s_other_crit sc with [] => false | _ => true end
      | _ => false
      end
  | None => false
  end.

(* what the implementation decides (proved equal to the model's rejection) *)
Definition should_fail_impl (lvl : level) (sc : scenario) : bool :=
  negb (s_integrity_ok sc)
  || s_nonstring_crit sc
  || (plugin_demanded sc && is_none (usable_caps sc))
  || unprocessed_without_plugin sc
  || (let caps := match usable_caps sc with Some c => c | None => [] end in
      enforced (l_auth lvl) (negb (s_auth sc =? 0)%N || identity_failed sc caps)
      || enforced (l_exp lvl) (s_expired sc)
      || enforced (l_ts lvl) (negb (s_ts_ok sc))
      || (negb (action_eqb (l_rev lvl) Skip) && enforced (l_rev lvl) (revocation_failed sc caps))
      || plugin_exec_problem lvl sc caps).

(* what property C02 demands *)
Definition should_fail_full (lvl : level) (sc : scenario) : bool :=
  should_fail_impl lvl sc || f12b lvl sc.

(* well-formed scenarios: capabilities without duplicates of the two
   verification capabilities (duplicates would make the plugin be asked, and
   its verdict be reported, twice) *)
Fixpoint count_cap (c : cap) (l : list cap) : nat :=
  match l with [] => 0 | x :: l' => (if cap_eqb c x then 1 else 0) + count_cap c l' end.

Definition wf_sc (sc : scenario) : bool :=
  match s_pm sc with
  | PMPlugin _ _ caps => Nat.leb (count_cap CapTI caps) 1 && Nat.leb (count_cap CapRev caps) 1
  | _ => true
  end.

(* the results an accepting run reports, in order *)
Definition expected_results (lvl : level) (sc : scenario) : list result :=
  let caps := match usable_caps sc with Some c => c | None => [] end in
  [mk_res TIntegrity Enforce false;
   mk_res TAuth (l_auth lvl) (negb (s_auth sc =? 0)%N || identity_failed sc caps);
   mk_res TExpiry (l_exp lvl) (s_expired sc);
   mk_res TTimestamp (l_ts lvl) (negb (s_ts_ok sc))]
  ++ (if action_eqb (l_rev lvl) Skip then []
      else [mk_res TRev (l_rev lvl) (revocation_failed sc caps)]).

Definition act_of (lvl : level) (t : vtype) : action :=
  match t with
  | TIntegrity => Enforce | TAuth => l_auth lvl | TExpiry => l_exp lvl
  | TTimestamp => l_ts lvl | TRev => l_rev lvl
  end.

(* ---------- the oracle on observations ---------- *)
Definition accepted (o : obs) : bool := err_eqb (o_err o) ENone.

Definition spec_ok_obs (lvl : level) (sc : scenario) (o : obs) : bool :=
  (* exact acceptance rule, full property *)
  Bool.eqb (negb (accepted o)) (should_fail_full lvl sc)
  (* every reported result carries the action of the level *)
  && forallb (fun r => action_eqb (r_action r) (act_of lvl (r_type r))) (o_results o)
  (* an accepting run reports every performed validation, failed ones included *)
  && (negb (accepted o) || list_eqb result_eqb (o_results o) (expected_results lvl sc))
  (* skipped revocation is performed neither natively nor by the plugin *)
  && (negb (action_eqb (l_rev lvl) Skip)
      || (negb (o_rev_called o)
          && match o_exec o with Some (cs, _) => negb (has_cap CapRev cs) | None => true end
          && negb (existsb (fun r => vtype_eqb (r_type r) TRev) (o_results o))))
  (* a capability the plugin declares replaces the native check *)
  && (negb (o_rev_called o)
      || match usable_caps sc with Some caps => negb (has_cap CapRev caps) | None => true end).

Definition spec_ok (i : input) (o : option obs) : bool :=
  match get_level (i_level i) (i_override i), o with
  | inl _, None => true
  | inl _, Some _ => false          (* an illegal level/override must be refused *)
  | inr (_, enf), Some ob => spec_ok_obs (level_of enf) (i_sc i) ob
  | inr _, None => String.eqb (i_level i) "skip"
  end.

Definition wf (i : input) : bool := wf_sc (i_sc i).

Record case := mk_case { c_id : N; c_in : input; c_obs : option obs }.

Definition fp_case (c : case) : N :=
  match get_level (i_level (c_in c)) (i_override (c_in c)) with
  | inr (_, enf) =>
      if f12b (level_of enf) (i_sc (c_in c)) && negb (should_fail_impl (level_of enf) (i_sc (c_in c)))
      then 1%N else 0%N
  | inl _ => 0%N
  end.

Definition run (cs : list case) : list (N * N * N) :=
  run_cases c_id
    (fun c => opt_eqb obs_eqb (model (c_in c)) (c_obs c))
    (fun c => negb (wf (c_in c)) || spec_ok (c_in c) (c_obs c))
    fp_case cs.
