(* C02_Model.v — input/observation records, the declarative acceptance rule of
   property C02 and the boolean oracle evaluated on what the implementation
   did. The model itself is VerifyCore.verify_core (= processSignature)
   composed with C02_Levels.get_level (= GetVerificationLevel).
   Definitions only. *)
From NV Require Import Base Regex Generated C02_Levels VerifyCore.
Open Scope string_scope.
Open Scope list_scope.

Record input := mk_input {
  i_level : string;           (* signatureVerification.level of the statement *)
  i_override : amap;          (* signatureVerification.override (a Go map, printed sorted) *)
  i_sc : scenario }.

(* None = the verifier could not be constructed (invalid policy) *)
Definition model (i : input) : option obs :=
  match get_level (i_level i) (i_override i) with
  | inl _ => None
  | inr (_, enf) =>
      if String.eqb (i_level i) "skip" then None   (* skip is C10/C12's business *)
      else Some (verify_core (level_of enf) (i_sc i))
  end.

(* ---------- the declarative rule ---------- *)

Definition is_none {A} (o : option A) : bool := match o with None => true | _ => false end.
Definition nonempty {A} (l : list A) : bool := match l with [] => false | _ => true end.

Definition attr_malformed (a : attr) : bool :=
  match a with
  | AAbsent => false
  | ANotCritical | ANotString => true
  | AStr s => blank s
  end.

(* the signature demands a verification plugin (the header is present) *)
Definition plugin_demanded (sc : scenario) : bool :=
  match s_plugin_attr sc with AAbsent => false | _ => true end.

(* the plugin the signature demands is well named, installed, answers
   get-plugin-metadata, has a valid version not below the demanded minimum and
   declares at least one verification capability; gives those capabilities *)
Definition usable_caps (sc : scenario) : option (list cap) :=
  match s_plugin_attr sc with
  | AStr name =>
      if blank name then None
      else if attr_malformed (s_minver_attr sc) then None
      else if (match s_minver_attr sc with AStr _ => negb (s_minver_valid sc) | _ => false end) then None
      else match s_pm sc with
           | PMPlugin true true caps =>
               match verification_caps caps with [] => None | vc => Some vc end
           | _ => None
           end
  | _ => None
  end.

Definition caps_of (sc : scenario) : list cap :=
  match usable_caps sc with Some c => c | None => [] end.

(* the capabilities the plugin is asked to verify under this level *)
Definition asked (lvl : level) (sc : scenario) : list cap := caps_to_verify lvl (caps_of sc).

Definition enforced (a : action) (failed : bool) : bool :=
  match a with Enforce => failed | _ => false end.

(* which validation results are failed, given who performs them: a capability
   the plugin declares replaces the native check *)
Definition identity_failed (sc : scenario) : bool :=
  if has_cap CapTI (caps_of sc)
  then match s_presp sc with PResp _ (Some false) _ => true | _ => false end
  else negb (s_identity_ok sc).

Definition revocation_failed (sc : scenario) : bool :=
  if has_cap CapRev (caps_of sc)
  then match s_presp sc with PResp _ _ (Some false) => true | _ => false end
  else negb (s_rev_ok sc).

Definition authenticity_failed (sc : scenario) : bool :=
  negb (s_auth sc =? 0)%N || identity_failed sc.

(* some validation whose action is enforce failed *)
Definition enforced_failure (lvl : level) (sc : scenario) : bool :=
  enforced (l_auth lvl) (authenticity_failed sc)
  || enforced (l_exp lvl) (s_expired sc)
  || enforced (l_ts lvl) (negb (s_ts_ok sc))
  || enforced (l_rev lvl) (revocation_failed sc).     (* never when the action is skip *)

(* the demanded plugin is missing, too old, lacks verification capabilities
   (or the demand itself is malformed) *)
Definition plugin_unusable (sc : scenario) : bool :=
  plugin_demanded sc && is_none (usable_caps sc).

(* the plugin was executed and failed, omitted a verdict it was asked for, or
   left a critical extended attribute unprocessed *)
Definition plugin_exec_problem (lvl : level) (sc : scenario) : bool :=
  match asked lvl sc with
  | [] => false
  | tv =>
      match s_presp sc with
      | PErr => true
      | PResp processed ti rev =>
          negb (crit_processed sc processed)
          || (has_cap CapTI tv && is_none ti) || (has_cap CapRev tv && is_none rev)
      end
  end.

(* a critical extended attribute is present and no plugin is executed: nothing
   processes it. (A critical min-version header on a signature that demands no
   plugin is such an attribute; integer-labelled ones are [s_nonstring_crit].) *)
Definition has_critical (sc : scenario) : bool :=
  nonempty (other_crit sc)
  || (negb (plugin_demanded sc)
      && match s_minver_attr sc with AAbsent | ANotCritical => false | _ => true end).

Definition nothing_processes (lvl : level) (sc : scenario) : bool :=
  has_critical sc && negb (nonempty (asked lvl sc)).

(* footprint of the known finding F12b: the demanded plugin is usable but is
   not run because its only capability is revocation and the level skips it,
   and the signature carries critical extended attributes *)
Definition f12b (lvl : level) (sc : scenario) : bool :=
  plugin_demanded sc && nothing_processes lvl sc.

(* what property C02 demands: verification fails exactly when ... *)
Definition should_fail_full (lvl : level) (sc : scenario) : bool :=
  negb (s_integrity_ok sc)
  || s_nonstring_crit sc
  || plugin_unusable sc
  || enforced_failure lvl sc
  || plugin_exec_problem lvl sc
  || nothing_processes lvl sc.

(* every reason to fail other than a failed validation, as the implementation
   has them: the plugin demanded is unusable, was executed and failed / omitted
   a verdict / left a critical attribute unprocessed, or nothing can process a critical
   attribute of a signature that demands no plugin *)
Definition plugin_or_attribute_problem (lvl : level) (sc : scenario) : bool :=
  s_nonstring_crit sc
  || plugin_unusable sc
  || plugin_exec_problem lvl sc
  || (negb (plugin_demanded sc) && nothing_processes lvl sc).

(* what the implementation decides (proved equal to the model's rejection) *)
Definition should_fail_impl (lvl : level) (sc : scenario) : bool :=
  negb (s_integrity_ok sc) || plugin_or_attribute_problem lvl sc || enforced_failure lvl sc.

(* well-formed scenarios: capabilities without duplicates of the two
   verification capabilities (duplicates would make the plugin be asked, and
   its verdict be reported, twice) *)
Fixpoint count_cap (c : cap) (l : list cap) : nat :=
  match l with [] => 0 | x :: l' => (if cap_eqb c x then 1 else 0) + count_cap c l' end.

Definition wf_sc (sc : scenario) : bool :=
  match s_pm sc with
  | PMPlugin _ _ caps => Nat.leb (count_cap CapTI caps) 1 && Nat.leb (count_cap CapRev caps) 1
  | _ => true
  end.

(* the results an accepting run reports, in order: every performed validation
   with the action of the level and whether it failed *)
Definition expected_results (lvl : level) (sc : scenario) : list result :=
  [mk_res TIntegrity Enforce false;
   mk_res TAuth (l_auth lvl) (authenticity_failed sc);
   mk_res TExpiry (l_exp lvl) (s_expired sc);
   mk_res TTimestamp (l_ts lvl) (negb (s_ts_ok sc))]
  ++ (if action_eqb (l_rev lvl) Skip then []
      else [mk_res TRev (l_rev lvl) (revocation_failed sc)]).

Definition act_of (lvl : level) (t : vtype) : action :=
  match t with
  | TIntegrity => Enforce | TAuth => l_auth lvl | TExpiry => l_exp lvl
  | TTimestamp => l_ts lvl | TRev => l_rev lvl
  end.

Definition type_order : list vtype := [TIntegrity; TAuth; TExpiry; TTimestamp; TRev].

Fixpoint is_prefix (a b : list vtype) : bool :=
  match a, b with
  | [], _ => true
  | x :: a', y :: b' => vtype_eqb x y && is_prefix a' b'
  | _ :: _, [] => false
  end.

(* ---------- the oracle on observations ---------- *)
Definition accepted (o : obs) : bool := err_eqb (o_err o) ENone.

(* everything except the exact acceptance rule *)
Definition spec_shape (lvl : level) (sc : scenario) (o : obs) : bool :=
  (* every reported result carries the action of the level; fixed order, each type at most once *)
  forallb (fun r => action_eqb (r_action r) (act_of lvl (r_type r))) (o_results o)
  && is_prefix (map r_type (o_results o)) type_order
  (* an accepting run reports every performed validation, failed ones included *)
  && (negb (accepted o) || list_eqb result_eqb (o_results o) (expected_results lvl sc))
  (* a rejection that carries the error of a result: that result is reported, enforced and failed *)
  && match o_err o with
     | EResult t => existsb (fun r => vtype_eqb (r_type r) t && action_eqb (r_action r) Enforce && r_failed r) (o_results o)
     | _ => true
     end
  (* a reported result that is enforced and failed rejects *)
  && (negb (existsb (fun r => action_eqb (r_action r) Enforce && r_failed r) (o_results o)) || negb (accepted o))
  (* an error that is not the error of a reported result: a plugin / attribute problem *)
  && match o_err o with
     | EInconclusive | EOther => plugin_or_attribute_problem lvl sc
     | _ => true
     end
  (* skipped revocation is performed neither natively nor by the plugin *)
  && (negb (action_eqb (l_rev lvl) Skip)
      || (negb (o_rev_called o)
          && match o_exec o with Some (cs, _) => negb (has_cap CapRev cs) | None => true end
          && negb (existsb (fun r => vtype_eqb (r_type r) TRev) (o_results o))))
  (* a capability the plugin declares replaces the native check *)
  && (negb (o_rev_called o) || negb (has_cap CapRev (caps_of sc)))
  (* the plugin is asked for exactly its declared capabilities, minus a skipped
     revocation (that it is handed every attribute it must process is part of
     the correspondence check and of theorem C02_plugin_request) *)
  && match o_exec o with
     | Some (cs, _) => nonempty cs && list_eqb cap_eqb cs (asked lvl sc)
     | None => true
     end
  (* an accepting run has executed the plugin iff there was something to ask it *)
  && (negb (accepted o) || Bool.eqb (negb (is_none (o_exec o))) (nonempty (asked lvl sc))).

(* the property on what the implementation did: exact acceptance rule + shape *)
Definition spec_ok_obs (lvl : level) (sc : scenario) (o : obs) : bool :=
  Bool.eqb (negb (accepted o)) (should_fail_full lvl sc) && spec_shape lvl sc o.

Definition spec_ok (i : input) (o : option obs) : bool :=
  match get_level (i_level i) (i_override i), o with
  | inl _, None => true
  | inl _, Some _ => false          (* an illegal level/override must be refused *)
  | inr (_, enf), Some ob => spec_ok_obs (level_of enf) (i_sc i) ob
  | inr _, None => String.eqb (i_level i) "skip"
  end.

Definition wf (i : input) : bool := wf_sc (i_sc i).

(* footprint 1 = the known finding F12b *)
Definition fp (i : input) : N :=
  match get_level (i_level i) (i_override i) with
  | inr (_, enf) =>
      if f12b (level_of enf) (i_sc i) && negb (should_fail_impl (level_of enf) (i_sc i))
      then 1%N else 0%N
  | inl _ => 0%N
  end.

Record case := mk_case { c_id : N; c_in : input; c_obs : option obs }.

Definition run (cs : list case) : list (N * N * N) :=
  run_cases c_id
    (fun c => opt_eqb obs_eqb (model (c_in c)) (c_obs c))
    (fun c => negb (wf (c_in c)) || spec_ok (c_in c) (c_obs c))
    (fun c => fp (c_in c)) cs.

(* ---------- the same scenario with one native fact changed (statements of
   C02_log_reports and C02_capability_replaces) ---------- *)
Definition set_auth (n : N) (sc : scenario) : scenario :=
  mk_sc (s_integrity_ok sc) (s_plugin_attr sc) (s_minver_attr sc) (s_minver_valid sc) (s_other sc)
        (s_nonstring_crit sc) n (s_identity_ok sc) (s_expired sc) (s_ts_ok sc) (s_rev_ok sc) (s_pm sc) (s_presp sc).
Definition set_identity (b : bool) (sc : scenario) : scenario :=
  mk_sc (s_integrity_ok sc) (s_plugin_attr sc) (s_minver_attr sc) (s_minver_valid sc) (s_other sc)
        (s_nonstring_crit sc) (s_auth sc) b (s_expired sc) (s_ts_ok sc) (s_rev_ok sc) (s_pm sc) (s_presp sc).
Definition set_expired (b : bool) (sc : scenario) : scenario :=
  mk_sc (s_integrity_ok sc) (s_plugin_attr sc) (s_minver_attr sc) (s_minver_valid sc) (s_other sc)
        (s_nonstring_crit sc) (s_auth sc) (s_identity_ok sc) b (s_ts_ok sc) (s_rev_ok sc) (s_pm sc) (s_presp sc).
Definition set_ts_ok (b : bool) (sc : scenario) : scenario :=
  mk_sc (s_integrity_ok sc) (s_plugin_attr sc) (s_minver_attr sc) (s_minver_valid sc) (s_other sc)
        (s_nonstring_crit sc) (s_auth sc) (s_identity_ok sc) (s_expired sc) b (s_rev_ok sc) (s_pm sc) (s_presp sc).
Definition set_rev_ok (b : bool) (sc : scenario) : scenario :=
  mk_sc (s_integrity_ok sc) (s_plugin_attr sc) (s_minver_attr sc) (s_minver_valid sc) (s_other sc)
        (s_nonstring_crit sc) (s_auth sc) (s_identity_ok sc) (s_expired sc) (s_ts_ok sc) b (s_pm sc) (s_presp sc).

(* ---------- what a legal override entry is (statement of C02_levels) ---------- *)
Definition legal_entry (kv : string * string) : Prop :=
  ((fst kv = "authenticity" \/ fst kv = "authenticTimestamp" \/ fst kv = "expiry")
   /\ (snd kv = "enforce" \/ snd kv = "log"))
  \/ (fst kv = "revocation" /\ (snd kv = "enforce" \/ snd kv = "log" \/ snd kv = "skip")).

(* the enforcement map of a named level with an override, when GetVerificationLevel accepts it *)
Definition level_for (name : string) (ov : amap) : option level :=
  match get_level name ov with inr (_, enf) => Some (level_of enf) | inl _ => None end.

(* what the model is proved to satisfy: the implementation's exact acceptance rule and the shape *)
Definition spec_impl (lvl : level) (sc : scenario) (o : obs) : bool :=
  Bool.eqb (negb (accepted o)) (should_fail_impl lvl sc) && spec_shape lvl sc o.
