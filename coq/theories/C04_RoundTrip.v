(* C04_RoundTrip.v — the byte-level parser of C04_DN reads back every rendering
   of an abstract DN: for all attribute orders, all choices of S / ST, all
   amounts of unescaped space around types and values, both separators and all
   per-byte escaping choices,
       parse_distinguished_name (render d) = DOk (rev (map snd d)).
   No axioms. *)
From NV Require Import Base C04_DN.
From Coq Require Import Permutation.
Open Scope string_scope.
Open Scope list_scope.

Local Notation bs := "\"%char.
Local Notation sp := " "%char.
Local Notation eq_c := "="%char.
Local Notation hash := "#"%char.

Local Arguments is_special : simpl never.
Local Arguments hexval : simpl never.
Local Arguments is_sep : simpl never.

(* ---------- small list facts ---------- *)

Lemma rev_repeat' : forall {A} (x : A) n, rev (repeat x n) = repeat x n.
Proof.
  intros A x n. induction n as [|n IH]; [reflexivity|]. cbn. rewrite IH.
  clear IH. induction n as [|n IH]; [reflexivity|]. cbn. now rewrite IH.
Qed.

Lemma rev_spaces : forall n, rev (spaces n) = spaces n.
Proof. intros n. apply rev_repeat'. Qed.

Lemma spaces_snoc : forall n, [sp] ++ spaces n = spaces n ++ [sp].
Proof.
  intros n. unfold spaces. induction (N.to_nat n) as [|k IH]; [reflexivity|]. cbn. cbn in IH. now rewrite <- IH.
Qed.

Lemma last_is_snoc : forall c l d, last_is c (l ++ [d]) = Ascii.eqb d c.
Proof. intros c l d. unfold last_is. now rewrite rev_app_distr. Qed.

Lemma ltrim_spaces : forall n l, ltrim (spaces n ++ l) = ltrim l.
Proof. intros n l. unfold spaces. induction (N.to_nat n) as [|k IH]; [reflexivity|]. cbn. exact IH. Qed.

Lemma ltrim_nonspace : forall c r, c <> sp -> ltrim (c :: r) = c :: r.
Proof. intros c r H. cbn. apply Ascii.eqb_neq in H. now rewrite H. Qed.

Lemma rtrim_spaces : forall n l, rtrim (l ++ spaces n) = rtrim l.
Proof. intros n l. unfold rtrim. now rewrite rev_app_distr, rev_spaces, ltrim_spaces. Qed.

Lemma rtrim_nonspace : forall c l, c <> sp -> rtrim (l ++ [c]) = l ++ [c].
Proof.
  intros c l H. unfold rtrim. rewrite rev_app_distr. cbn [rev app].
  rewrite ltrim_nonspace by assumption. cbn [rev]. now rewrite rev_involutive.
Qed.

(* ---------- stripLeadingAndTrailingSpaces on  spaces ++ e ++ spaces ---------- *)

(* how a segment may end so that stripping gives it back *)
Inductive endk (b : N) (e : la) : Prop :=
| EndA e' c : e = e' ++ [c] -> c <> sp -> c <> bs -> endk b e
| EndB e' : e = e' ++ [bs; sp] -> endk b e
| EndC e' : e = e' ++ [bs] -> b = 0%N -> endk b e.

Lemma strip_spaces : forall a b e c0 r0,
  e = c0 :: r0 -> c0 <> sp -> endk b e -> strip (spaces a ++ e ++ spaces b) = e.
Proof.
  intros a b e c0 r0 He Hc0 Hend. unfold strip. rewrite ltrim_spaces.
  assert (Hl : ltrim (e ++ spaces b) = e ++ spaces b).
  { rewrite He. cbn [app]. now apply ltrim_nonspace. }
  rewrite Hl, rtrim_spaces. destruct Hend as [e' c E H1 H2 | e' E | e' E Hb].
  - rewrite E, rtrim_nonspace by assumption. rewrite last_is_snoc.
    apply Ascii.eqb_neq in H2. now rewrite H2.
  - assert (R : rtrim e = e' ++ [bs]).
    { rewrite E. change [bs; sp] with ([bs] ++ spaces 1). rewrite app_assoc, rtrim_spaces.
      apply rtrim_nonspace. discriminate. }
    rewrite R, last_is_snoc. cbn [Ascii.eqb Bool.eqb andb].
    assert (L : last_is sp (spaces a ++ e ++ spaces b) = true).
    { rewrite E. change [bs; sp] with ([bs] ++ [sp]). rewrite <- !app_assoc. rewrite spaces_snoc.
      rewrite !app_assoc. apply last_is_snoc. }
    rewrite L. cbn. rewrite E. now rewrite <- app_assoc.
  - subst b. change (spaces 0) with (@nil ascii). rewrite !app_nil_r.
    rewrite E, rtrim_nonspace by discriminate. rewrite last_is_snoc. cbn [Ascii.eqb Bool.eqb andb].
    rewrite app_assoc, last_is_snoc. reflexivity.
Qed.

(* ---------- scanning: stretches of bytes the loop only steps over ---------- *)

Fixpoint scan (tyset esc : bool) (l : la) : option bool :=
  match l with
  | [] => Some esc
  | c :: r =>
      if esc then scan tyset false r
      else if Ascii.eqb c bs then scan tyset true r
      else if (Ascii.eqb c eq_c && negb tyset) || is_sep c then None
      else scan tyset false r
  end.

Lemma scan_app : forall t a b e,
  scan t e (a ++ b) = match scan t e a with Some e' => scan t e' b | None => None end.
Proof.
  intros t a b. induction a as [|c a IH]; intros e; [reflexivity|]. cbn.
  destruct e; [apply IH|]. destruct (Ascii.eqb c bs); [apply IH|].
  destruct ((Ascii.eqb c eq_c && negb t) || is_sep c); [reflexivity|apply IH].
Qed.

Lemma run_scan : forall t l st e rest,
  scan t (p_esc st) l = Some e -> is_nil (p_ty st) = negb t ->
  run st (l ++ rest) = run (mk_pst e (rev l ++ p_seg st) (p_ty st) (p_attrs st) (p_rdns st)) rest.
Proof.
  intros t l. induction l as [|c l IH]; intros [esc seg ty atts rdns] e rest Hs Ht; cbn in Hs, Ht.
  - inversion Hs. reflexivity.
  - cbn [app run]. unfold step. cbn [p_esc p_seg p_ty p_attrs p_rdns].
    destruct esc.
    + rewrite (IH (mk_pst false (c :: seg) ty atts rdns) e rest Hs Ht). cbn [p_seg p_ty p_attrs p_rdns rev].
      now rewrite <- app_assoc.
    + destruct (Ascii.eqb c bs).
      * rewrite (IH (mk_pst true (c :: seg) ty atts rdns) e rest Hs Ht). cbn [p_seg p_ty p_attrs p_rdns rev].
        now rewrite <- app_assoc.
      * rewrite Ht. destruct (Ascii.eqb c eq_c && negb t) eqn:E1; [discriminate|].
        destruct (is_sep c) eqn:E2; [discriminate|]. cbn [orb] in Hs.
        rewrite (IH (mk_pst false (c :: seg) ty atts rdns) e rest Hs Ht). cbn [p_seg p_ty p_attrs p_rdns rev].
        now rewrite <- app_assoc.
Qed.

Lemma scan_spaces : forall t n, scan t false (spaces n) = Some false.
Proof. intros t n. unfold spaces. induction (N.to_nat n) as [|k IH]; [reflexivity|]. cbn. exact IH. Qed.

(* ---------- attribute types ---------- *)

Lemma safe_type_char_facts : forall c, safe_type_char c = true ->
  Ascii.eqb c bs = false /\ Ascii.eqb c eq_c = false /\ is_sep c = false /\ c <> sp /\ c <> hash
  /\ is_go_space c = false.
Proof.
  intros c. destruct c as [[] [] [] [] [] [] [] []]; vm_compute; intros H; try discriminate H;
    repeat split; discriminate.
Qed.

Lemma scan_type : forall l, forallb safe_type_char l = true -> scan false false l = Some false.
Proof.
  induction l as [|c l IH]; [reflexivity|]. cbn. intros H. apply andb_true_iff in H. destruct H as [H1 H2].
  destruct (safe_type_char_facts c H1) as (E1 & E2 & E3 & _). rewrite E1, E2, E3. cbn. auto.
Qed.

Lemma unescape_type : forall l, forallb safe_type_char l = true -> unescape l = Some l.
Proof.
  induction l as [|c l IH]; [reflexivity|]. cbn [forallb unescape]. intros H.
  apply andb_true_iff in H. destruct H as [H1 H2].
  destruct (safe_type_char_facts c H1) as (E1 & _). rewrite E1. cbn. now rewrite IH.
Qed.

Lemma decode_type : forall a b l, l <> [] -> forallb safe_type_char l = true ->
  decode_string (spaces a ++ l ++ spaces b) = Some l.
Proof.
  intros a b l Hne Hs. unfold decode_string.
  destruct l as [|c0 r0] eqn:El; [congruence|]. rewrite <- El in *.
  assert (Hc0 : c0 <> sp).
  { subst l. cbn in Hs. apply andb_true_iff in Hs. destruct Hs as [H _].
    now destruct (safe_type_char_facts _ H) as (_ & _ & _ & H' & _). }
  destruct (exists_last Hne) as [l' [c Hl]].
  assert (Hc : safe_type_char c = true).
  { rewrite Hl, forallb_app in Hs. apply andb_true_iff in Hs. destruct Hs as [_ H]. cbn in H.
    now rewrite andb_true_r in H. }
  destruct (safe_type_char_facts _ Hc) as (E1 & _ & _ & E4 & _).
  rewrite (strip_spaces a b l c0 r0 El Hc0).
  - now apply unescape_type.
  - eapply EndA; [exact Hl|exact E4|]. now apply Ascii.eqb_neq.
Qed.

(* ---------- one value byte ---------- *)

Lemma enc_byte_form : forall ch edge b,
  (enc_byte ch edge b = [b] /\ plain_ok edge b = true) \/
  (enc_byte ch edge b = [bs; b] /\ is_special b = true /\ must_hex b = false) \/
  (exists up, enc_byte ch edge b = hex_escape up b).
Proof.
  intros ch edge b. unfold enc_byte.
  destruct (ch =? 2)%N; [right; right; now exists false|].
  destruct (ch =? 3)%N; [right; right; now exists true|].
  destruct ((ch =? 1)%N && is_special b && negb (must_hex b)) eqn:E1.
  { right; left. apply andb_true_iff in E1. destruct E1 as [E1 E2]. apply andb_true_iff in E1.
    destruct E1 as [_ E1]. apply negb_true_iff in E2. auto. }
  destruct (plain_ok edge b) eqn:E2; [left; auto|].
  destruct (is_special b && negb (must_hex b)) eqn:E3.
  { right; left. apply andb_true_iff in E3. destruct E3 as [E3 E4]. apply negb_true_iff in E4. auto. }
  right; right. now exists false.
Qed.

Lemma plain_ok_facts : forall edge b, plain_ok edge b = true ->
  Ascii.eqb b bs = false /\ is_sep b = false /\ b <> hash /\ (edge = true -> b <> sp).
Proof.
  intros edge b H. unfold plain_ok, must_hex in H.
  repeat (apply andb_true_iff in H; destruct H as [H ?]).
  apply negb_true_iff in H. apply orb_false_iff in H. destruct H as [H _].
  repeat match goal with X : negb _ = true |- _ => apply negb_true_iff in X end.
  repeat split; try assumption.
  - now apply Ascii.eqb_neq.
  - intros ->. cbn in *. now apply Ascii.eqb_neq.
Qed.

(* facts about the hex escape, by enumeration of the 256 bytes *)
Definition hex_ok (up : bool) (b : ascii) : bool :=
  match hex_escape up b with
  | [c0; h; l] =>
      Ascii.eqb c0 bs && negb (is_special h)
      && match hexval h, hexval l with
         | Some x, Some y => Ascii.eqb (ascii_of_N (16 * x + y)) b
         | _, _ => false
         end
      && negb (Ascii.eqb h bs) && negb (Ascii.eqb l bs) && negb (Ascii.eqb l sp)
      && negb (Ascii.eqb h hash) && negb (Ascii.eqb l hash)
      && negb (is_sep l) && negb (Ascii.eqb l eq_c)
  | _ => false
  end.

Lemma hex_ok_all : forall up b, hex_ok up b = true.
Proof. intros [] [[] [] [] [] [] [] [] []]; vm_compute; reflexivity. Qed.

Lemma hex_shape : forall up b, exists h l,
  hex_escape up b = [bs; h; l] /\ is_special h = false
  /\ (exists x y, hexval h = Some x /\ hexval l = Some y /\ ascii_of_N (16 * x + y) = b)
  /\ Ascii.eqb l bs = false /\ l <> sp /\ l <> bs /\ h <> hash /\ l <> hash
  /\ is_sep l = false /\ Ascii.eqb l eq_c = false.
Proof.
  intros up b. pose proof (hex_ok_all up b) as H. unfold hex_ok in H.
  unfold hex_escape in *. set (h := hexdigit up (N_of_ascii b / 16)) in *.
  set (l := hexdigit up (N_of_ascii b mod 16)) in *. exists h, l.
  repeat (apply andb_true_iff in H; destruct H as [H ?]).
  repeat match goal with X : negb _ = true |- _ => apply negb_true_iff in X end.
  destruct (hexval h) as [x|]; [|discriminate]. destruct (hexval l) as [y|]; [|discriminate].
  repeat split; try assumption; try (now apply Ascii.eqb_neq).
  exists x, y. repeat split. now apply Ascii.eqb_eq.
Qed.

Lemma is_special_bs_false : forall b, is_special b = true -> b = bs \/ Ascii.eqb b bs = false.
Proof. intros b _. destruct (Ascii.eqb_spec b bs); auto. Qed.

Lemma scan_enc_byte : forall ch edge b, scan true false (enc_byte ch edge b) = Some false.
Proof.
  intros ch edge b. destruct (enc_byte_form ch edge b) as [[E H]|[[E [H1 H2]]|[up E]]]; rewrite E.
  - destruct (plain_ok_facts _ _ H) as (E1 & E2 & _). cbn. rewrite E1, E2, andb_false_r. reflexivity.
  - reflexivity.
  - destruct (hex_shape up b) as (h & l & E' & _ & _ & E1 & _ & _ & _ & _ & E2 & E3). rewrite E'.
    cbn. rewrite E1, E2, andb_false_r. reflexivity.
Qed.

Lemma unescape_enc_byte : forall ch edge b r,
  unescape (enc_byte ch edge b ++ r) = option_map (cons b) (unescape r).
Proof.
  intros ch edge b r. destruct (enc_byte_form ch edge b) as [[E H]|[[E [H1 H2]]|[up E]]]; rewrite E.
  - destruct (plain_ok_facts _ _ H) as (E1 & _). cbn. now rewrite E1.
  - cbn. now rewrite H1.
  - destruct (hex_shape up b) as (h & l & E' & Hs & (x & y & Hx & Hy & Hb) & _). rewrite E'.
    cbn [app unescape]. change (Ascii.eqb bs bs) with true. cbn [negb]. now rewrite Hs, Hx, Hy, Hb.
Qed.

Lemma nohash_enc_byte : forall ch edge b, ~ In hash (enc_byte ch edge b).
Proof.
  intros ch edge b. destruct (enc_byte_form ch edge b) as [[E H]|[[E [H1 H2]]|[up E]]]; rewrite E.
  - destruct (plain_ok_facts _ _ H) as (_ & _ & E3 & _). intros [X|[]]. congruence.
  - unfold must_hex in H2. apply orb_false_iff in H2. destruct H2 as [H2 _]. apply Ascii.eqb_neq in H2.
    intros [X|[X|[]]]; [discriminate X|congruence].
  - destruct (hex_shape up b) as (h & l & E' & _ & _ & _ & _ & _ & E1 & E2 & _). rewrite E'.
    intros [X|[X|[X|[]]]]; [discriminate X|congruence|congruence].
Qed.

(* first byte of an edge chunk: neither a space nor '#' *)
Lemma enc_byte_head : forall ch b, exists c0 r0, enc_byte ch true b = c0 :: r0 /\ c0 <> sp.
Proof.
  intros ch b. destruct (enc_byte_form ch true b) as [[E H]|[[E _]|[up E]]]; rewrite E.
  - destruct (plain_ok_facts _ _ H) as (_ & _ & _ & E4). exists b, []. auto.
  - exists bs, [b]. split; [reflexivity|discriminate].
  - exists bs. eexists. split; [reflexivity|discriminate].
Qed.

(* how an edge chunk ends *)
Lemma enc_byte_end : forall ch b n pre,
  (n = 0%N \/ b <> bs) -> endk n (pre ++ enc_byte ch true b).
Proof.
  intros ch b n pre Hq. destruct (enc_byte_form ch true b) as [[E H]|[[E [H1 H2]]|[up E]]]; rewrite E.
  - destruct (plain_ok_facts _ _ H) as (E1 & _ & _ & E4). eapply EndA; [reflexivity|auto|now apply Ascii.eqb_neq].
  - destruct (Ascii.eqb_spec b sp) as [->|Hsp].
    + now apply EndB with (e' := pre).
    + destruct (Ascii.eqb_spec b bs) as [->|Hbs].
      * destruct Hq as [->|Hq]; [|congruence].
        apply EndC with (e' := pre ++ [bs]); [|reflexivity]. now rewrite <- app_assoc.
      * apply EndA with (e' := pre ++ [bs]) (c := b); [now rewrite <- app_assoc|assumption|assumption].
  - destruct (hex_shape up b) as (h & l & E' & _ & _ & _ & E1 & E2 & _). rewrite E'.
    apply EndA with (e' := pre ++ [bs; h]) (c := l); [now rewrite <- app_assoc|assumption|assumption].
Qed.

(* ---------- a whole value ---------- *)

Lemma scan_enc_rest : forall v ch, scan true false (enc_rest v ch) = Some false.
Proof.
  induction v as [|b v IH]; intros ch; [reflexivity|]. cbn [enc_rest]. now rewrite scan_app, scan_enc_byte.
Qed.

Lemma scan_enc_value : forall v ch, scan true false (enc_value v ch) = Some false.
Proof.
  intros [|b v] ch; [reflexivity|]. cbn [enc_value]. now rewrite scan_app, scan_enc_byte, scan_enc_rest.
Qed.

Lemma unescape_enc_rest : forall v ch, unescape (enc_rest v ch) = Some v.
Proof.
  induction v as [|b v IH]; intros ch; [reflexivity|]. cbn [enc_rest]. now rewrite unescape_enc_byte, IH.
Qed.

Lemma unescape_enc_value : forall v ch, unescape (enc_value v ch) = Some v.
Proof.
  intros [|b v] ch; [reflexivity|]. cbn [enc_value]. now rewrite unescape_enc_byte, unescape_enc_rest.
Qed.

Lemma nohash_enc_rest : forall v ch, ~ In hash (enc_rest v ch).
Proof.
  induction v as [|b v IH]; intros ch; [intros []|]. cbn [enc_rest]. intros H. apply in_app_or in H.
  destruct H as [H|H]; [eapply nohash_enc_byte; eauto|eapply IH; eauto].
Qed.

Lemma nohash_enc_value : forall v ch, ~ In hash (enc_value v ch).
Proof.
  intros [|b v] ch; [intros []|]. cbn [enc_value]. intros H. apply in_app_or in H.
  destruct H as [H|H]; [eapply nohash_enc_byte; eauto|eapply nohash_enc_rest; eauto].
Qed.

Lemma enc_rest_last : forall v' b ch, exists pre c, enc_rest (v' ++ [b]) ch = pre ++ enc_byte c true b.
Proof.
  induction v' as [|a v' IH]; intros b ch.
  - exists [], (hd 0%N ch). cbn. now rewrite app_nil_r.
  - destruct (IH b (tl ch)) as (pre & c & E). cbn [app enc_rest]. rewrite E.
    eexists (_ ++ pre), c. now rewrite <- app_assoc.
Qed.

Lemma enc_value_last : forall v' b ch, exists pre c, enc_value (v' ++ [b]) ch = pre ++ enc_byte c true b.
Proof.
  intros [|a v'] b ch.
  - exists [], (hd 0%N ch). cbn. now rewrite app_nil_r.
  - destruct (enc_rest_last v' b (tl ch)) as (pre & c & E). cbn [app enc_value]. rewrite E.
    eexists (_ ++ pre), c. now rewrite <- app_assoc.
Qed.

Lemma enc_value_head : forall v ch, v <> [] -> exists c0 r0, enc_value v ch = c0 :: r0 /\ c0 <> sp.
Proof.
  intros [|b v] ch H; [congruence|]. cbn [enc_value].
  destruct (enc_byte_head (hd 0%N ch) b) as (c0 & r0 & E & Hc). rewrite E. exists c0. eexists. split; [reflexivity|assumption].
Qed.

Lemma decode_value : forall a n v ch, v <> [] -> (n = 0%N \/ last_is bs v = false) ->
  decode_string (spaces a ++ enc_value v ch ++ spaces n) = Some v.
Proof.
  intros a n v ch Hne Hq. unfold decode_string.
  destruct (enc_value_head v ch Hne) as (c0 & r0 & E0 & Hc0).
  destruct (exists_last Hne) as [v' [b Hv]].
  destruct (enc_value_last v' b ch) as (pre & c & E). rewrite <- Hv in E.
  rewrite (strip_spaces a n _ c0 r0 E0 Hc0).
  - apply unescape_enc_value.
  - rewrite E. apply enc_byte_end. destruct Hq as [Hq|Hq]; [now left|right].
    rewrite Hv, last_is_snoc in Hq. now apply Ascii.eqb_neq.
Qed.

(* ---------- one rendered attribute ---------- *)

Definition val_seg (st : astyle) (v : la) : la := spaces (s_sp3 st) ++ enc_value v (s_esc st) ++ spaces (s_sp4 st).

Lemma type_chars_of : forall st t, attr_wf (t, EmptyString) = true \/ True ->
  forallb safe_type_char (list_ascii_of_string t) = true -> negb (String.eqb t "") = true ->
  forallb safe_type_char (list_ascii_of_string (render_type st t)) = true
  /\ list_ascii_of_string (render_type st t) <> [].
Proof.
  intros st t _ Hs Hne. unfold render_type. destruct (s_alias st && String.eqb t "ST").
  - split; [reflexivity|discriminate].
  - split; [assumption|]. destruct t; [discriminate|]. discriminate.
Qed.

Lemma attr_wf_parts : forall a, attr_wf a = true ->
  negb (String.eqb (fst a) "") = true /\ forallb safe_type_char (list_ascii_of_string (fst a)) = true
  /\ String.eqb (fst a) "S" = false /\ list_ascii_of_string (snd a) <> [].
Proof.
  intros [t v] H. unfold attr_wf in H. cbn [fst snd] in *.
  repeat (apply andb_true_iff in H; destruct H as [H ?]).
  repeat match goal with X : negb _ = true |- _ => apply negb_true_iff in X end.
  repeat split; try assumption.
  - now apply negb_true_iff.
  - destruct v; [discriminate|discriminate].
Qed.

Lemma style_wf_parts : forall sa, style_wf sa = true ->
  s_sp4 (fst sa) = 0%N \/ last_is bs (list_ascii_of_string (snd (snd sa))) = false.
Proof.
  intros sa H. unfold style_wf in H. apply orb_true_iff in H. destruct H as [H|H].
  - left. now apply N.eqb_eq.
  - right. now apply negb_true_iff.
Qed.

Lemma run_attr : forall sty a rdns rest, attr_wf a = true ->
  run (mk_pst false [] [] [] rdns) (render_attr (sty, a) ++ rest) =
  run (mk_pst false (rev (val_seg sty (list_ascii_of_string (snd a))))
              (list_ascii_of_string (render_type sty (fst a))) [] rdns) rest.
Proof.
  intros sty a rdns rest Hwf. destruct (attr_wf_parts a Hwf) as (H1 & H2 & H3 & H4).
  destruct (type_chars_of sty (fst a) (or_intror I) H2 H1) as [T1 T2].
  unfold render_attr.
  change (spaces (s_sp3 sty) ++ enc_value (list_ascii_of_string (snd a)) (s_esc sty) ++ spaces (s_sp4 sty))
    with (val_seg sty (list_ascii_of_string (snd a))).
  set (T := list_ascii_of_string (render_type sty (fst a))) in *.
  set (V := val_seg sty (list_ascii_of_string (snd a))).
  replace ((spaces (s_sp1 sty) ++ T ++ spaces (s_sp2 sty) ++ [eq_c] ++ V) ++ rest)
    with ((spaces (s_sp1 sty) ++ T ++ spaces (s_sp2 sty)) ++ eq_c :: (V ++ rest))
    by (rewrite <- !app_assoc; reflexivity).
  rewrite (run_scan false _ (mk_pst false [] [] [] rdns) false).
  - cbn [p_seg p_ty p_attrs p_rdns run]. unfold step. cbn [p_esc p_seg p_ty p_attrs p_rdns is_nil andb Ascii.eqb Bool.eqb].
    rewrite app_nil_r, rev_involutive, decode_type by assumption.
    rewrite (run_scan true V (mk_pst false [] T [] rdns) false).
    + cbn [p_seg p_ty p_attrs p_rdns]. now rewrite app_nil_r.
    + cbn [p_esc]. unfold V, val_seg. rewrite scan_app, scan_spaces. cbv beta iota.
      rewrite scan_app, scan_enc_value. cbv beta iota. apply scan_spaces.
    + cbn [p_ty]. destruct T; [congruence|reflexivity].
  - cbn [p_esc]. rewrite scan_app, scan_spaces. cbv beta iota.
    rewrite scan_app, scan_type by assumption. cbv beta iota. apply scan_spaces.
  - reflexivity.
Qed.

Lemma nohash_spaces : forall n, ~ In hash (spaces n).
Proof. intros n H. unfold spaces in H. apply repeat_spec in H. discriminate H. Qed.

Lemma set_value_nohash : forall seg, ~ In hash seg ->
  set_value seg = match decode_string seg with Some v => VOk v | None => VErr end.
Proof.
  intros [|c r] H; [reflexivity|]. unfold set_value.
  destruct c as [[] [] [] [] [] [] [] []]; try reflexivity. exfalso. apply H. now left.
Qed.

Lemma nohash_val_seg : forall sty v, ~ In hash (val_seg sty v).
Proof.
  intros sty v H. unfold val_seg in H. apply in_app_or in H. destruct H as [H|H]; [eapply nohash_spaces; eauto|].
  apply in_app_or in H. destruct H as [H|H]; [eapply nohash_enc_value; eauto|eapply nohash_spaces; eauto].
Qed.

Lemma set_value_val_seg : forall sty a, attr_wf a = true -> style_wf (sty, a) = true ->
  set_value (val_seg sty (list_ascii_of_string (snd a))) = VOk (list_ascii_of_string (snd a)).
Proof.
  intros sty a Hwf Hst. destruct (attr_wf_parts a Hwf) as (_ & _ & _ & H4).
  rewrite set_value_nohash by apply nohash_val_seg. unfold val_seg.
  rewrite decode_value; [reflexivity|assumption|]. exact (style_wf_parts _ Hst).
Qed.

(* ---------- the whole name ---------- *)

Definition finish_run (st : pst) (l : la) : presult :=
  match run st l with SOk st' => finish st' | SErr => PErr | SHex => PUnsupported end.

Definition written (sa : astyle * attr) : attr := (render_type (fst sa) (fst (snd sa)), snd (snd sa)).

Lemma finish_attr : forall sty a rdns, attr_wf a = true -> style_wf (sty, a) = true ->
  finish (mk_pst false (rev (val_seg sty (list_ascii_of_string (snd a))))
                 (list_ascii_of_string (render_type sty (fst a))) [] rdns)
  = POk (rev rdns ++ [[written (sty, a)]]).
Proof.
  intros sty a rdns Hwf Hst. destruct (attr_wf_parts a Hwf) as (H1 & H2 & _).
  destruct (type_chars_of sty (fst a) (or_intror I) H2 H1) as [_ T2].
  unfold finish. cbn [p_ty p_seg].
  destruct (list_ascii_of_string (render_type sty (fst a))) eqn:ET; [congruence|]. cbn [is_nil].
  rewrite rev_involutive, set_value_val_seg by assumption.
  unfold append_attr. cbn [p_ty p_attrs p_rdns p_esc rev app]. rewrite <- ET.
  now rewrite !string_of_list_ascii_of_string.
Qed.

Lemma sep_step : forall sty a rdns rest, attr_wf a = true -> style_wf (sty, a) = true ->
  run (mk_pst false (rev (val_seg sty (list_ascii_of_string (snd a))))
              (list_ascii_of_string (render_type sty (fst a))) [] rdns) (sep_of sty :: rest)
  = run (mk_pst false [] [] [] ([written (sty, a)] :: rdns)) rest.
Proof.
  intros sty a rdns rest Hwf Hst. destruct (attr_wf_parts a Hwf) as (H1 & H2 & _).
  destruct (type_chars_of sty (fst a) (or_intror I) H2 H1) as [_ T2].
  cbn [run]. unfold step. cbn [p_esc p_ty p_seg].
  destruct (list_ascii_of_string (render_type sty (fst a))) eqn:ET; [congruence|]. cbn [is_nil].
  rewrite rev_involutive, set_value_val_seg by assumption.
  unfold append_attr. cbn [p_ty p_attrs p_rdns p_esc rev app]. rewrite <- ET.
  rewrite !string_of_list_ascii_of_string.
  unfold sep_of. destruct (s_semi sty); reflexivity.
Qed.

Lemma finish_render : forall d rdns, d <> [] ->
  forallb attr_wf (map snd d) = true -> forallb style_wf d = true ->
  finish_run (mk_pst false [] [] [] rdns) (render_bytes d) = POk (rev rdns ++ map (fun sa => [written sa]) d).
Proof.
  induction d as [|[sty a] d IH]; intros rdns Hne Hw Hs; [congruence|].
  cbn [map forallb snd] in Hw, Hs. apply andb_true_iff in Hw, Hs. destruct Hw as [Hw1 Hw2], Hs as [Hs1 Hs2].
  destruct d as [|sb d'].
  - change (render_bytes [(sty, a)]) with (render_attr (sty, a)).
    unfold finish_run. rewrite <- (app_nil_r (render_attr (sty, a))), run_attr by assumption.
    cbn [run]. now apply finish_attr.
  - change (render_bytes ((sty, a) :: sb :: d')) with (render_attr (sty, a) ++ [sep_of sty] ++ render_bytes (sb :: d')).
    unfold finish_run. rewrite run_attr by assumption. cbn [app]. rewrite sep_step by assumption.
    change (match run (mk_pst false [] [] [] ([written (sty, a)] :: rdns)) (render_bytes (sb :: d')) with
            | SOk st' => finish st' | SErr => PErr | SHex => PUnsupported end)
      with (finish_run (mk_pst false [] [] [] ([written (sty, a)] :: rdns)) (render_bytes (sb :: d'))).
    rewrite IH; [|discriminate|assumption|assumption]. cbn [rev map]. now rewrite <- app_assoc.
Qed.

Lemma eq_in_render : forall d, d <> [] -> In eq_c (render_bytes d).
Proof.
  intros [|[sty a] d] H; [congruence|]. cbn [render_bytes].
  assert (In eq_c (render_attr (sty, a))).
  { unfold render_attr. rewrite !in_app_iff. right; right; right; left. now left. }
  destruct d; [assumption|]. apply in_or_app. now left.
Qed.

(* a text that contains '=' is not all white space *)
Lemma space3_bounds : forall a b c, space3 a b c = true -> (128 <= a /\ 128 <= b /\ 128 <= c)%N.
Proof.
  intros a b c H. unfold space3 in H.
  repeat (rewrite ?orb_true_iff, ?andb_true_iff, ?N.eqb_eq, ?N.leb_le in H). lia.
Qed.

Lemma all_go_space_no_eq : forall n s, (List.length s <= n)%nat -> all_go_space s = true -> ~ In eq_c s.
Proof.
  induction n as [|n IH]; intros s Hl H.
  - destruct s; [intros []|cbn in Hl; lia].
  - destruct s as [|c r]; [intros []|]. cbn [all_go_space] in H. cbn [List.length] in Hl.
    destruct (is_go_space c) eqn:Ec.
    { intros [->|Hin]; [vm_compute in Ec; discriminate|]. revert Hin. apply IH; [lia|assumption]. }
    destruct r as [|d r1]; [discriminate|]. cbn [List.length] in Hl.
    destruct ((N_of_ascii c =? 194) && ((N_of_ascii d =? 133) || (N_of_ascii d =? 160)))%N eqn:E2.
    { intros [->|[->|Hin]].
      - vm_compute in E2. discriminate.
      - cbn in E2. rewrite andb_false_r in E2. discriminate.
      - revert Hin. apply IH; [lia|assumption]. }
    destruct r1 as [|e r2]; [discriminate|]. cbn [List.length] in Hl.
    destruct (space3 (N_of_ascii c) (N_of_ascii d) (N_of_ascii e)) eqn:E3; [|discriminate].
    intros [->|[->|[->|Hin]]].
    + apply space3_bounds in E3. cbn in E3. lia.
    + apply space3_bounds in E3. cbn in E3. lia.
    + apply space3_bounds in E3. cbn in E3. lia.
    + revert Hin. apply IH; [lia|assumption].
Qed.

Lemma parse_dn_render : forall d, d <> [] ->
  forallb attr_wf (map snd d) = true -> forallb style_wf d = true ->
  parse_dn (render d) = POk (map (fun sa => [written sa]) d).
Proof.
  intros d Hne Hw Hs. unfold parse_dn, render. rewrite list_ascii_of_string_of_list_ascii.
  unfold parse_dn_bytes.
  destruct (all_go_space (render_bytes d)) eqn:E.
  - exfalso. exact (all_go_space_no_eq _ _ (le_n _) E (eq_in_render d Hne)).
  - pose proof (finish_render d [] Hne Hw Hs) as F. unfold finish_run in F. cbn [rev app] in F. exact F.
Qed.

(* ---------- no "=#" in a rendering ---------- *)

Lemma has_eqhash_nohash : forall l, ~ In hash l -> has_eqhash l = false.
Proof.
  induction l as [|c l IH]; [reflexivity|]. intros H. cbn [has_eqhash].
  rewrite IH by (intros X; apply H; now right).
  destruct l as [|d l']; [now rewrite andb_false_r|].
  destruct (Ascii.eqb_spec d hash) as [->|_]; [exfalso; apply H; right; now left|].
  now rewrite andb_false_r.
Qed.

Lemma nohash_type : forall l, forallb safe_type_char l = true -> ~ In hash l.
Proof.
  intros l H X. rewrite forallb_forall in H. specialize (H _ X). discriminate H.
Qed.

Lemma nohash_render_attr : forall sty a, attr_wf a = true -> ~ In hash (render_attr (sty, a)).
Proof.
  intros sty a Hwf. destruct (attr_wf_parts a Hwf) as (H1 & H2 & _).
  destruct (type_chars_of sty (fst a) (or_intror I) H2 H1) as [T1 _].
  unfold render_attr. rewrite !in_app_iff. intros [H|[H|[H|[H|[H|[H|H]]]]]].
  - eapply nohash_spaces; eauto.
  - eapply nohash_type; eauto.
  - eapply nohash_spaces; eauto.
  - destruct H as [H|[]]. discriminate H.
  - eapply nohash_spaces; eauto.
  - eapply nohash_enc_value; eauto.
  - eapply nohash_spaces; eauto.
Qed.

Lemma nohash_render : forall d, forallb attr_wf (map snd d) = true -> ~ In hash (render_bytes d).
Proof.
  induction d as [|[sty a] d IH]; intros Hw; [intros []|].
  cbn [map forallb snd] in Hw. apply andb_true_iff in Hw. destruct Hw as [Hw1 Hw2].
  cbn [render_bytes]. destruct d as [|sb d'].
  - now apply nohash_render_attr.
  - rewrite !in_app_iff. intros [H|[H|H]].
    + eapply nohash_render_attr; eauto.
    + destruct H as [H|[]]. unfold sep_of in H. cbn [fst] in H. destruct (s_semi sty); discriminate H.
    + now apply IH.
Qed.

(* ---------- ParseDistinguishedName on the parsed RDNs ---------- *)

Lemma remove_key_absent : forall k (m : amap), lookup k m = None -> remove_key k m = m.
Proof.
  intros k m. induction m as [|[k' v'] m IH]; [reflexivity|]. cbn.
  destruct (String.eqb k k'); [discriminate|]. intros H. now rewrite IH.
Qed.

Definition canon_attr (a : attr) : attr := (canon_type (fst a), snd a).

Lemma add_rdns_singletons : forall (l : list attr) m,
  (forall a, In a l -> lookup (canon_type (fst a)) m = None) ->
  nodup_keys (map canon_attr l) = true ->
  add_rdns (map (fun a => [a]) l) m = DOk (rev (map canon_attr l) ++ m).
Proof.
  induction l as [|[t v] l IH]; intros m Hm Hn; [reflexivity|].
  cbn [map add_rdns List.length Nat.ltb Nat.leb add_attrs].
  pose proof (Hm (t, v) (or_introl eq_refl)) as H0. cbn [fst] in H0.
  unfold lookup_default. rewrite H0. cbn [String.eqb].
  unfold set_key. rewrite remove_key_absent by assumption.
  cbn [map canon_attr nodup_keys fst snd] in Hn. apply andb_true_iff in Hn. destruct Hn as [Hn1 Hn2].
  apply negb_true_iff in Hn1.
  rewrite IH.
  - cbn [rev map canon_attr fst snd]. now rewrite <- app_assoc.
  - intros a Hin. cbn [lookup].
    destruct (String.eqb (canon_type (fst a)) (canon_type t)) eqn:E.
    + exfalso. apply String.eqb_eq in E.
      assert (X : existsb (fun kv => String.eqb (canon_type t) (fst kv)) (map canon_attr l) = true).
      { apply existsb_exists. exists (canon_attr a). split; [now apply in_map|]. cbn. rewrite E. apply String.eqb_refl. }
      rewrite X in Hn1. discriminate.
    + apply Hm. now right.
  - assumption.
Qed.

Lemma canon_written : forall sa, String.eqb (fst (snd sa)) "S" = false -> canon_attr (written sa) = snd sa.
Proof.
  intros [sty [t v]] H. cbn [fst snd] in H. unfold canon_attr, written, render_type, canon_type. cbn [fst snd].
  destruct (s_alias sty && String.eqb t "ST") eqn:E.
  - apply andb_true_iff in E. destruct E as [_ E]. apply String.eqb_eq in E. subst. reflexivity.
  - now rewrite H.
Qed.

Lemma map_canon_written : forall d, forallb attr_wf (map snd d) = true ->
  map canon_attr (map written d) = map snd d.
Proof.
  induction d as [|sa d IH]; [reflexivity|]. cbn [map forallb]. intros H. apply andb_true_iff in H.
  destruct H as [H1 H2]. rewrite IH by assumption. f_equal. apply canon_written.
  now destruct (attr_wf_parts _ H1) as (_ & _ & H3 & _).
Qed.

Lemma lookup_In' : forall k v (m : amap), lookup k m = Some v -> In (k, v) m.
Proof.
  intros k v m. induction m as [|[k' v'] m IH]; cbn; [discriminate|].
  destruct (String.eqb k k') eqn:E.
  - intros H. inversion H. apply String.eqb_eq in E. subst. now left.
  - intros H. right. auto.
Qed.

Lemma nodup_lookup' : forall (m : amap) k v,
  nodup_keys m = true -> In (k, v) m -> lookup k m = Some v.
Proof.
  induction m as [|[k' v'] m IH]; cbn; [tauto|].
  intros k v H [H1|H1].
  - inversion H1. subst. now rewrite String.eqb_refl.
  - apply andb_true_iff in H. destruct H as [Hn Hd].
    destruct (String.eqb k k') eqn:E; [|auto].
    apply String.eqb_eq in E. subst. apply negb_true_iff in Hn.
    assert (X : existsb (fun kv => String.eqb k' (fst kv)) m = true).
    { apply existsb_exists. exists (k', v). split; [assumption|apply String.eqb_refl]. }
    rewrite X in Hn. discriminate.
Qed.

Lemma nodup_keys_NoDup' : forall (m : amap), nodup_keys m = true <-> NoDup (map fst m).
Proof.
  induction m as [|[k v] m IH]; cbn.
  - split; [constructor|reflexivity].
  - rewrite andb_true_iff, IH, negb_true_iff. split.
    + intros [H1 H2]. constructor; [|assumption].
      intros Hin. apply in_map_iff in Hin. destruct Hin as [[k' v'] [E Hin]]. cbn in E. subst.
      assert (X : existsb (fun kv => String.eqb k (fst kv)) m = true).
      { apply existsb_exists. exists (k, v'). split; [assumption|apply String.eqb_refl]. }
      rewrite X in H1. discriminate.
    + intros H. inversion H as [|? ? Hn Hd]. subst. split; [|assumption].
      destruct (existsb (fun kv => String.eqb k (fst kv)) m) eqn:E; [|reflexivity].
      apply existsb_exists in E. destruct E as [[k' v'] [Hin E]]. cbn in E.
      apply String.eqb_eq in E. subst. exfalso. apply Hn. apply in_map_iff. now exists (k', v').
Qed.

Lemma nodup_keys_rev : forall (m : amap), nodup_keys m = true -> nodup_keys (rev m) = true.
Proof.
  intros m H. apply nodup_keys_NoDup'. rewrite map_rev. apply NoDup_rev. now apply nodup_keys_NoDup'.
Qed.

Lemma lookup_rev : forall (m : amap) k v, nodup_keys m = true ->
  lookup k m = Some v -> lookup k (rev m) = Some v.
Proof.
  intros m k v H L. apply nodup_lookup'; [now apply nodup_keys_rev|]. apply in_rev. rewrite rev_involutive.
  now apply lookup_In'.
Qed.

(* ---------- the round trip ---------- *)

Theorem parse_render : forall d,
  dn_wf (map snd d) = true -> forallb style_wf d = true ->
  parse_distinguished_name (render d) = DOk (rev (map snd d)).
Proof.
  intros d Hwf Hst. unfold dn_wf in Hwf.
  apply andb_true_iff in Hwf. destruct Hwf as [Hwf Hm]. apply andb_true_iff in Hwf. destruct Hwf as [Ha Hn].
  assert (Hne : d <> []).
  { intros ->. cbn in Hm. discriminate. }
  unfold parse_distinguished_name.
  assert (Hh : has_eqhash (list_ascii_of_string (render d)) = false).
  { unfold render. rewrite list_ascii_of_string_of_list_ascii. apply has_eqhash_nohash. now apply nohash_render. }
  rewrite Hh, parse_dn_render by assumption.
  replace (map (fun sa => [written sa]) d) with (map (fun a => [a]) (map written d)) by now rewrite map_map.
  rewrite add_rdns_singletons.
  - rewrite map_canon_written, app_nil_r by assumption.
    assert (F : forall f, In f mandatory -> String.eqb (lookup_default f (rev (map snd d))) "" = false).
    { intros f Hin. rewrite forallb_forall in Hm. specialize (Hm f Hin).
      destruct (lookup f (map snd d)) as [v|] eqn:L; [|discriminate].
      pose proof (lookup_rev _ _ _ Hn L) as R. unfold lookup_default. unfold attr in *. rewrite R.
      apply lookup_In' in L. rewrite forallb_forall in Ha. specialize (Ha _ L).
      destruct (attr_wf_parts _ Ha) as (_ & _ & _ & H4). cbn [snd] in H4.
      destruct v; [now elim H4|reflexivity]. }
    unfold mandatory in *. cbn [find].
    rewrite (F "C"), (F "ST"), (F "O") by (cbn; tauto). reflexivity.
  - intros a _. reflexivity.
  - now rewrite map_canon_written.
Qed.
