(* C19_Model.v — model of the signature store of notation-go (package registry)
   over an OCI layout. Definitions only. Mirrors, statement by statement,
     registry/repository.go : PushSignature, uploadSignatureManifest,
                              pushNotationManifestConfig, ListSignatures,
                              signatureReferrers, FetchSignatureBlob,
                              getSignatureBlobDesc
   for a GraphTarget that is neither a registry.Repository nor a
   registry.ReferrerLister (oras-go's oci.Store: the path taken by
   registry.NewOCIRepository).

   Outside /repo (oras-go v2.5.0, encoding/json), modelled from their source as
   far as the anchored code depends on them:
     - oci.Store.Push   : storage keyed by digest alone (existing digest =>
                          ErrAlreadyExists, checked first), size verified on
                          ingest, then graph.Memory.Index of the successors
                          (content.Successors, by the media type of the pushed
                          descriptor; a JSON error fails the push AFTER the
                          content was stored),
     - oci.Store.Predecessors : nodes that have the queried descriptor, compared
                          on (media type, digest, size), among their successors,
     - content.FetchAll : Fetch by digest, then size (>= 0, equal to the stored
                          length) and digest verification,
     - oras.PushBytes   : does NOT ignore ErrAlreadyExists,
     - oras.PackManifest (v1.1): config descriptor given, one layer, subject,
                          annotations plus "org.opencontainers.image.created"
                          (the clock, an input) unless supplied (then it must
                          parse as RFC 3339: an input bit), push ignoring
                          ErrAlreadyExists.
   Inputs of the model (oracle facts supplied by the harness from the real
   objects): digests, media types and annotation strings as numbers (interned
   injectively per history: equal numbers <=> equal byte strings, digest
   numbers <=> sha256 digests), for every stored content its length and what
   encoding/json makes of it as ocispec.Manifest / artifact manifest /
   ocispec.Index, the digest and length of the manifest PackManifest marshals,
   the clock reading it put into the manifest.

   The state is ONE list of successfully stored contents, newest first: entry
   (descriptor pushed, content, successors indexed). It encodes both maps of
   oci.Store, which the store keeps in step by construction: the blob
   directory (first entry with the digest) and the graph (entries with
   e_succ = Some ss; Predecessors q = entries with q among ss).
   The real Predecessors iterates a Go map (random order); the model iterates
   newest first and observations are compared as multisets
   (C19_Proofs.list_loop_perm shows the order is immaterial). *)
From NV Require Import Base Generated.
Open Scope list_scope.
Open Scope N_scope.

(* ---------- interned constants ---------- *)
Definition MT_NONE : N := 0.      (* ""                                                  *)
Definition MT_IMAGE : N := 1.     (* application/vnd.oci.image.manifest.v1+json          *)
Definition MT_ARTIFACT : N := 2.  (* application/vnd.oci.artifact.manifest.v1+json       *)
Definition MT_INDEX : N := 3.     (* application/vnd.oci.image.index.v1+json             *)
Definition MT_DMAN : N := 4.      (* application/vnd.docker.distribution.manifest.v2+json *)
Definition MT_DLIST : N := 5.     (* application/vnd.docker.distribution.manifest.list.v2+json *)
Definition MT_NOTATION : N := 6.  (* application/vnd.cncf.notary.signature               *)
Definition MT_OCTET : N := 7.     (* application/octet-stream (NewDescriptorFromBytes default) *)
Definition K_CREATED : N := 1.    (* annotation key org.opencontainers.image.created     *)
Definition DG_EMPTY : N := 1.     (* sha256 of "{}"                                      *)

Definition capM : Z := Z.of_N gen_max_manifest_size.   (* maxManifestSizeLimit *)
Definition capB : Z := Z.of_N gen_max_blob_size.       (* maxBlobSizeLimit     *)

(* ---------- descriptors, contents ---------- *)
(* the three fields content.Equal and the graph key look at; every other
   field of a descriptor (annotations, urls, platform) is ignored by the code
   under study and absent from the model *)
Record desc := D { d_mt : N; d_dg : N; d_sz : Z }.

Definition desc_eqb (a b : desc) : bool :=          (* content.Equal *)
  (d_sz a =? d_sz b)%Z && (d_dg a =? d_dg b) && (d_mt a =? d_mt b).

Definition ann := list (N * N).                     (* sorted by key number *)

(* what encoding/json reads out of a content; fields a view lacks are zero *)
Record mrec := M {
  m_subject : option desc;      (* "subject"                       *)
  m_config : desc;              (* "config"       (image manifest) *)
  m_layers : list desc;         (* "layers"       (image manifest) *)
  m_atype : N;                  (* "artifactType"                  *)
  m_blobs : list desc;          (* "blobs"        (artifact manifest) *)
  m_manifests : list desc;      (* "manifests"    (index)          *)
  m_ann : ann }.                (* "annotations"                   *)
Definition d0 : desc := D 0 0 0.
Definition m0 : mrec := M None d0 [] 0 [] [] [].

Record content := C {
  c_sz : Z;                     (* length in bytes *)
  c_img : bool;                 (* json.Unmarshal into ocispec.Manifest succeeds *)
  c_art : bool;                 (* ... into the artifact manifest struct *)
  c_idx : bool;                 (* ... into ocispec.Index *)
  c_m : mrec }.
(* short forms used by the harness *)
Definition CB (sz : Z) : content := C sz false false false m0.   (* not JSON (COSE, garbage) *)
Definition CO (sz : Z) : content := C sz true true true m0.      (* a JSON object without manifest fields (JWS, "{}") *)

(* content.Successors, by the media type of the node *)
Definition opt_cons (o : option desc) (l : list desc) : list desc :=
  match o with Some d => d :: l | None => l end.

Definition successors (mt : N) (c : content) : option (list desc) :=
  let m := c_m c in
  if mt =? MT_DMAN then (if c_img c then Some (m_config m :: m_layers m) else None)
  else if mt =? MT_IMAGE then (if c_img c then Some (opt_cons (m_subject m) (m_config m :: m_layers m)) else None)
  else if mt =? MT_DLIST then (if c_idx c then Some (m_manifests m) else None)
  else if mt =? MT_INDEX then (if c_idx c then Some (opt_cons (m_subject m) (m_manifests m)) else None)
  else if mt =? MT_ARTIFACT then (if c_art c then Some (opt_cons (m_subject m) (m_blobs m)) else None)
  else Some [].

(* ---------- the store ---------- *)
Record entry := E { e_d : desc; e_c : content; e_succ : option (list desc) }.
Definition state := list entry.

Definition lookup_dg (st : state) (dg : N) : option entry :=
  find (fun e => d_dg (e_d e) =? dg) st.

Inductive pres := POk | PExists | PMismatch | PBadJSON.

(* oci.Store.Push(expected = d, content = c) *)
Definition push1 (st : state) (d : desc) (c : content) : state * pres :=
  match lookup_dg st (d_dg d) with
  | Some _ => (st, PExists)
  | None =>
      if negb (d_sz d =? c_sz c)%Z then (st, PMismatch)
      else match successors (d_mt d) c with
           | None => (E d c None :: st, PBadJSON)          (* stored, not indexed *)
           | Some ss => (E d c (Some ss) :: st, POk)
           end
  end.

(* content.FetchAll(store, d): the Fetch call is logged by the caller *)
Definition fetch_all (st : state) (d : desc) : option content :=
  match lookup_dg st (d_dg d) with
  | Some e => if (0 <=? d_sz d)%Z && (d_sz d =? c_sz (e_c e))%Z then Some (e_c e) else None
  | None => None
  end.

Definition refers (q : desc) (e : entry) : bool :=
  match e_succ e with Some ss => existsb (desc_eqb q) ss | None => false end.

Definition predecessors (st : state) (q : desc) : list desc :=
  map e_d (filter (refers q) st).

(* ---------- views of a signature manifest by media type ---------- *)
Definition is_sigmt (mt : N) : bool := (mt =? MT_ARTIFACT) || (mt =? MT_IMAGE).
Definition parsed (mt : N) (c : content) : bool :=
  if mt =? MT_IMAGE then c_img c else c_art c.
Definition atype_of (mt : N) (c : content) : N :=
  if mt =? MT_IMAGE then d_mt (m_config (c_m c)) else m_atype (c_m c).
Definition blobs_of (mt : N) (c : content) : list desc :=
  if mt =? MT_IMAGE then m_layers (c_m c) else m_blobs (c_m c).

(* ---------- signatureReferrers ---------- *)
Record item := I { i_d : desc; i_at : N; i_ann : ann }.
Inductive vres := VSkip | VKeep (it : item) | VErr (e : N).

(* error classes of a listing: 1 referrer too large, 2 fetch, 3 JSON *)
(* one iteration of the loop; second component: digests handed to Fetch *)
Definition visit (st : state) (q node : desc) : vres * list N :=
  if is_sigmt (d_mt node) then                              (* the two manifest cases *)
    if (capM <? d_sz node)%Z then (VErr 1, [])
    else match fetch_all st node with
         | None => (VErr 2, [d_dg node])
         | Some c =>
             if negb (parsed (d_mt node) c) then (VErr 3, [d_dg node])
             else match m_subject (c_m c) with
                  | None => (VSkip, [d_dg node])
                  | Some s =>
                      if negb (desc_eqb s q) then (VSkip, [d_dg node])
                      else if atype_of (d_mt node) c =? MT_NOTATION
                           then (VKeep (I node (atype_of (d_mt node) c) (m_ann (c_m c))), [d_dg node])
                           else (VSkip, [d_dg node])
                  end
         end
  else (VSkip, []).                                         (* default: continue *)

Inductive lres := LOk (items : list item) | LErr (e : N).

Fixpoint list_loop (st : state) (q : desc) (nodes : list desc) : lres * list N :=
  match nodes with
  | [] => (LOk [], [])
  | n :: rest =>
      match visit st q n with
      | (VErr e, lg) => (LErr e, lg)
      | (VSkip, lg) => let '(r, lg') := list_loop st q rest in (r, lg ++ lg')
      | (VKeep it, lg) =>
          match list_loop st q rest with
          | (LOk its, lg') => (LOk (it :: its), lg ++ lg')
          | (LErr e, lg') => (LErr e, lg ++ lg')
          end
      end
  end.

Definition list_sigs (st : state) (q : desc) : lres * list N :=
  list_loop st q (predecessors st q).

(* ---------- FetchSignatureBlob / getSignatureBlobDesc ---------- *)
(* error classes: 1 media type, 2 manifest too large, 3 fetch (manifest or blob),
   4 JSON, 5 not exactly one blob, 6 blob too large *)
Inductive fres := FOk (blob : N) (bd : desc) | FErr (e : N).

Definition fetch_sig (st : state) (d : desc) : fres * list N :=
  if negb (is_sigmt (d_mt d)) then (FErr 1, [])
  else if (capM <? d_sz d)%Z then (FErr 2, [])
  else match fetch_all st d with
       | None => (FErr 3, [d_dg d])
       | Some c =>
           if negb (parsed (d_mt d) c) then (FErr 4, [d_dg d])
           else match blobs_of (d_mt d) c with
                | [b] =>
                    if (capB <? d_sz b)%Z then (FErr 6, [d_dg d])
                    else match fetch_all st b with
                         | None => (FErr 3, [d_dg d; d_dg b])
                         | Some _ => (FOk (d_dg b) b, [d_dg d; d_dg b])   (* bytes verified against b's digest *)
                         end
                | _ => (FErr 5, [d_dg d])
                end
       end.

(* ---------- PushSignature ---------- *)
Record push := P {
  p_mt : N;            (* envelope media type *)
  p_bdg : N;           (* digest of the envelope *)
  p_bc : content;      (* the envelope: length, JSON views *)
  p_subj : desc;       (* subject descriptor given by the caller *)
  p_ann : ann;         (* annotations given by the caller *)
  p_now : N;           (* clock reading PackManifest would use (string, interned) *)
  p_cvalid : bool;     (* a supplied created annotation parses as RFC 3339 *)
  p_mdg : N;           (* digest of the marshalled manifest *)
  p_msz : Z }.         (* its length *)

Definition has_key (k : N) (a : ann) : bool := existsb (fun kv => fst kv =? k) a.

(* ensureAnnotationCreated *)
Definition ensure_created (a : ann) (now : N) (valid : bool) : option ann :=
  if has_key K_CREATED a then (if valid then Some a else None)
  else Some ((K_CREATED, now) :: a).

Definition cfg_desc : desc := D MT_NOTATION DG_EMPTY 2.     (* notationEmptyConfigDesc *)
Definition cfg_content : content := CO 2.

Definition blob_desc (p : push) : desc :=
  D (if p_mt p =? MT_NONE then MT_OCTET else p_mt p) (p_bdg p) (c_sz (p_bc p)).
Definition man_desc (p : push) : desc := D MT_IMAGE (p_mdg p) (p_msz p).
Definition man_content (sz : Z) (subj bd : desc) (a : ann) : content :=
  C sz true true true (M (Some subj) cfg_desc [bd] 0 [] [] a).

(* error classes of a push: 1 already exists, 2 size mismatch, 3 JSON (index
   failed), 4 invalid created annotation *)
Definition pres_code (r : pres) : N :=
  match r with POk => 0 | PExists => 1 | PMismatch => 2 | PBadJSON => 3 end.

Inductive ores :=
| RPush (e : N) (bd md : desc) (a : ann)
| RRaw (e : N)
| RList (e : N) (items : list item) (log : list N)
| RFetch (e : N) (blob : N) (bd : desc) (log : list N).

Definition push_sig (st : state) (p : push) : state * ores :=
  let bd := blob_desc p in
  match push1 st bd (p_bc p) with                            (* oras.PushBytes *)
  | (st1, POk) =>
      (* pushNotationManifestConfig: Exists, else Push ignoring ErrAlreadyExists *)
      let '(st2, r2) := match lookup_dg st1 DG_EMPTY with
                        | Some _ => (st1, POk)
                        | None => push1 st1 cfg_desc cfg_content
                        end in
      match r2 with
      | PMismatch | PBadJSON => (st2, RPush (pres_code r2) d0 d0 [])
      | _ =>
          match ensure_created (p_ann p) (p_now p) (p_cvalid p) with   (* oras.PackManifest *)
          | None => (st2, RPush 4 d0 d0 [])
          | Some a' =>
              let md := man_desc p in
              match push1 st2 md (man_content (p_msz p) (p_subj p) bd a') with
              | (st3, POk) | (st3, PExists) => (st3, RPush 0 bd md a')
              | (st3, r3) => (st3, RPush (pres_code r3) d0 d0 [])
              end
          end
      end
  | (st1, r1) => (st1, RPush (pres_code r1) d0 d0 [])
  end.

(* ---------- histories ---------- *)
Inductive op :=
| OpPush (p : push)                 (* Repository.PushSignature *)
| OpRaw (d : desc) (c : content)    (* a push through oras directly (foreign / hostile) *)
| OpList (q : desc)                 (* Repository.ListSignatures *)
| OpFetch (d : desc).               (* Repository.FetchSignatureBlob *)

Definition step (st : state) (o : op) : state * ores :=
  match o with
  | OpPush p => push_sig st p
  | OpRaw d c => let '(st', r) := push1 st d c in (st', RRaw (pres_code r))
  | OpList q =>
      match list_sigs st q with
      | (LOk its, lg) => (st, RList 0 its lg)
      | (LErr e, lg) => (st, RList e [] lg)
      end
  | OpFetch d =>
      match fetch_sig st d with
      | (FOk b bd, lg) => (st, RFetch 0 b bd lg)
      | (FErr e, lg) => (st, RFetch e 0 d0 lg)
      end
  end.

Fixpoint run_ops (st : state) (ops : list op) : state * list ores :=
  match ops with
  | [] => (st, [])
  | o :: ops' =>
      let '(st1, r) := step st o in
      let '(st2, rs) := run_ops st1 ops' in (st2, r :: rs)
  end.

Record input := mk_input { i_ops : list op }.
Definition obs := list ores.

Definition model (i : input) : obs := snd (run_ops [] (i_ops i)).

(* the input contract: lengths are not negative *)
Definition wf_op (o : op) : bool :=
  match o with
  | OpPush p => (0 <=? c_sz (p_bc p))%Z && (0 <=? p_msz p)%Z
  | OpRaw d c => (0 <=? c_sz c)%Z
  | _ => true
  end.
Definition wf (i : input) : bool := forallb wf_op (i_ops i).

(* ---------- comparing observations ---------- *)
Definition ann_eqb (a b : ann) : bool :=
  list_eqb (fun x y => (fst x =? fst y) && (snd x =? snd y)) a b.
Definition item_eqb (a b : item) : bool :=
  desc_eqb (i_d a) (i_d b) && (i_at a =? i_at b) && ann_eqb (i_ann a) (i_ann b).

Fixpoint remove1 {A} (eqb : A -> A -> bool) (x : A) (l : list A) : option (list A) :=
  match l with
  | [] => None
  | y :: l' => if eqb x y then Some l'
               else match remove1 eqb x l' with Some r => Some (y :: r) | None => None end
  end.
Fixpoint perm_eqb {A} (eqb : A -> A -> bool) (a b : list A) : bool :=
  match a with
  | [] => match b with [] => true | _ => false end
  | x :: a' => match remove1 eqb x b with Some b' => perm_eqb eqb a' b' | None => false end
  end.

(* first argument: the model's observation; second: the implementation's.
   Listings are multisets (map iteration order); the log of a failed listing
   depends on that order and is judged by the oracle only. *)
Definition ores_eqb (a b : ores) : bool :=
  match a, b with
  | RPush e bd md an, RPush e' bd' md' an' =>
      (e =? e') && desc_eqb bd bd' && desc_eqb md md' && ann_eqb an an'
  | RRaw e, RRaw e' => e =? e'
  | RList e its lg, RList e' its' lg' =>
      (e =? e') && perm_eqb item_eqb its its' && ((negb (e =? 0)) || perm_eqb N.eqb lg lg')
  | RFetch e b bd lg, RFetch e' b' bd' lg' =>
      (e =? e') && (b =? b') && desc_eqb bd bd' && list_eqb N.eqb lg lg'
  | _, _ => false
  end.
Definition obs_eqb (a b : obs) : bool := list_eqb ores_eqb a b.

(* ---------- the property oracle ----------
   A reference ledger is built from the inputs and the OBSERVED results only
   (what the pushes reported), never from the model's functions of the store:
   rs = the contents reported as stored, newest first. Against it:
   - a listing must be exactly (as a multiset) the ledger's signature manifests
     of the queried subject: stored under a manifest media type, subject equal
     on size, digest and media type, artifact type notation, with the
     annotations of the manifest; it must fail iff a referrer of the subject
     exceeds the manifest cap, and the log must show no fetch of a content
     above the cap;
   - a fetch must return the single blob of the stored manifest (descriptor
     from the manifest, bytes hashing to its digest) and must be refused, with
     the stated log, for another media type, a declared size above the
     manifest cap (nothing fetched), an unknown / mis-sized manifest, a
     manifest that does not parse, a blob count other than one or a declared
     blob size above the blob cap (only the manifest fetched);
   - a successful push reports the descriptors of what was pushed and the
     pushed annotations (plus the creation time); a push may fail only for an
     envelope already stored or an invalid created annotation. *)
(* the caps the property speaks of, as literals: the oracle does not follow a
   change of the constants in /repo (the model does, through Generated.v) *)
Definition ocapM : Z := 4194304.     (* 4 MiB  *)
Definition ocapB : Z := 33554432.    (* 32 MiB *)

Definition add_absent (rs : state) (e : entry) : state :=
  match lookup_dg rs (d_dg (e_d e)) with Some _ => rs | None => e :: rs end.

Definition mk_entry (d : desc) (c : content) : entry := E d c (successors (d_mt d) c).

Definition radv (rs : state) (o : op) (r : ores) : state :=
  match o, r with
  | OpRaw d c, RRaw e =>
      if (e =? 0) || (e =? 3) then add_absent rs (mk_entry d c) else rs
  | OpPush p, RPush e bd md a =>
      if e =? 0 then
        add_absent (add_absent (add_absent rs (mk_entry bd (p_bc p))) (mk_entry cfg_desc cfg_content))
                   (mk_entry md (man_content (d_sz md) (p_subj p) bd a))
      else if e =? 4 then
        add_absent (add_absent rs (mk_entry (blob_desc p) (p_bc p))) (mk_entry cfg_desc cfg_content)
      else if e =? 3 then add_absent rs (mk_entry (blob_desc p) (p_bc p))
      else rs
  | _, _ => rs
  end.

(* the ledger's signature manifests of subject q *)
Definition sig_entry_for (q : desc) (e : entry) : bool :=
  match e_succ e with
  | None => false
  | Some _ =>
      let mt := d_mt (e_d e) in
      is_sigmt mt && parsed mt (e_c e) &&
      match m_subject (c_m (e_c e)) with Some s => desc_eqb s q | None => false end &&
      (atype_of mt (e_c e) =? MT_NOTATION)
  end.
Definition item_of (e : entry) : item :=
  I (e_d e) (atype_of (d_mt (e_d e)) (e_c e)) (m_ann (c_m (e_c e))).
Definition expected (rs : state) (q : desc) : list item :=
  map item_of (filter (sig_entry_for q) rs).

Definition oversize_ref (q : desc) (e : entry) : bool :=
  is_sigmt (d_mt (e_d e)) && refers q e && (ocapM <? d_sz (e_d e))%Z.

Definition log_ok (rs : state) (lg : list N) : bool :=
  forallb (fun dg => match lookup_dg rs dg with
                     | Some e => (d_sz (e_d e) <=? ocapM)%Z
                     | None => true end) lg.

Definition created_ok (pa a : ann) : bool :=
  if has_key K_CREATED pa then ann_eqb a pa
  else match a with
       | (k, _) :: a' => (k =? K_CREATED) && ann_eqb a' pa
       | [] => false
       end.

Definition is_graph_mt (mt : N) : bool :=
  (mt =? MT_IMAGE) || (mt =? MT_ARTIFACT) || (mt =? MT_INDEX) || (mt =? MT_DMAN) || (mt =? MT_DLIST).

Definition rcheck (rs : state) (o : op) (r : ores) : bool :=
  match o, r with
  | OpRaw _ _, RRaw _ => true                                 (* environment *)
  | OpPush p, RPush e bd md a =>
      if e =? 0 then
        desc_eqb bd (blob_desc p) && desc_eqb md (man_desc p) && created_ok (p_ann p) a
      else
        match lookup_dg rs (p_bdg p) with Some _ => true | None => false end
        || (has_key K_CREATED (p_ann p) && negb (p_cvalid p))
        || is_graph_mt (p_mt p)
  | OpList q, RList e its lg =>
      let over := existsb (oversize_ref q) rs in
      log_ok rs lg &&
      (if e =? 0 then negb over && perm_eqb item_eqb (expected rs q) its else over)
  | OpFetch d, RFetch e b bd lg =>
      if negb (is_sigmt (d_mt d)) || (ocapM <? d_sz d)%Z then
        negb (e =? 0) && list_eqb N.eqb lg []
      else match fetch_all rs d with
           | None => negb (e =? 0) && list_eqb N.eqb lg [d_dg d]
           | Some c =>
               if negb (parsed (d_mt d) c) then negb (e =? 0) && list_eqb N.eqb lg [d_dg d]
               else match blobs_of (d_mt d) c with
                    | [x] =>
                        if (ocapB <? d_sz x)%Z then negb (e =? 0) && list_eqb N.eqb lg [d_dg d]
                        else match fetch_all rs x with
                             | None => negb (e =? 0) && list_eqb N.eqb lg [d_dg d; d_dg x]
                             | Some _ => (e =? 0) && (b =? d_dg x) && desc_eqb bd x &&
                                         list_eqb N.eqb lg [d_dg d; d_dg x]
                             end
                    | _ => negb (e =? 0) && list_eqb N.eqb lg [d_dg d]
                    end
           end
  | _, _ => false
  end.

Fixpoint orc (rs : state) (ops : list op) (os : obs) : bool :=
  match ops, os with
  | [], [] => true
  | o :: ops', r :: os' => rcheck rs o r && orc (radv rs o r) ops' os'
  | _, _ => false
  end.

(* ---------- "a signature whose push reported success is listed" ----------
   Judged at full strength on the observations: every PushSignature that
   reported success OWES its manifest (descriptor reported, artifact type
   notation, annotations reported) to every later successful listing of its
   subject. [orc] above (the ledger) cannot see a violation of this clause,
   because the ledger, like the store, keeps the first content per digest.

   KNOWN finding (footprint 1, KNOWN_FINDINGS.txt): when the exact content of
   the manifest is already in the layout under a media type other than the
   image manifest type (a plain blob, the legacy artifact manifest type, ...),
   oci.Store.Push answers ErrAlreadyExists before indexing, PackManifest
   ignores it, PushSignature reports success and the manifest is never listed.
   [squatted] recognises exactly that situation from the ledger BEFORE the push
   and the reported results; with [known = true] such a push owes nothing. *)
Definition desc_list_eqb := list_eqb desc_eqb.
Definition mrec_eqb (a b : mrec) : bool :=
  match m_subject a, m_subject b with
  | Some x, Some y => desc_eqb x y | None, None => true | _, _ => false end &&
  desc_eqb (m_config a) (m_config b) && desc_list_eqb (m_layers a) (m_layers b) &&
  (m_atype a =? m_atype b) && desc_list_eqb (m_blobs a) (m_blobs b) &&
  desc_list_eqb (m_manifests a) (m_manifests b) && ann_eqb (m_ann a) (m_ann b).
Definition content_eqb (a b : content) : bool :=
  (c_sz a =? c_sz b)%Z && Bool.eqb (c_img a) (c_img b) && Bool.eqb (c_art a) (c_art b) &&
  Bool.eqb (c_idx a) (c_idx b) && mrec_eqb (c_m a) (c_m b).

Definition squatted (rs : state) (p : push) (md : desc) (a : ann) : bool :=
  match lookup_dg rs (d_dg md) with
  | Some e => negb (d_mt (e_d e) =? MT_IMAGE) &&
              content_eqb (e_c e) (man_content (d_sz md) (p_subj p) (blob_desc p) a)
  | None => false
  end.

Definition owed := list (desc * item).     (* subject, item owed to its later listings *)

Definition owed_ok (ow : owed) (o : op) (r : ores) : bool :=
  match o, r with
  | OpList q, RList e its _ =>
      if e =? 0
      then forallb (fun si => negb (desc_eqb (fst si) q) || existsb (item_eqb (snd si)) its) ow
      else true
  | _, _ => true
  end.

Definition owed_adv (known : bool) (rs : state) (ow : owed) (o : op) (r : ores) : owed :=
  match o, r with
  | OpPush p, RPush e bd md a =>
      if (e =? 0) && negb (known && squatted rs p md a)
      then (p_subj p, I md MT_NOTATION a) :: ow else ow
  | _, _ => ow
  end.

Fixpoint orc2 (known : bool) (rs : state) (ow : owed) (ops : list op) (os : obs) : bool :=
  match ops, os with
  | [], [] => true
  | o :: ops', r :: os' =>
      rcheck rs o r && owed_ok ow o r &&
      orc2 known (radv rs o r) (owed_adv known rs ow o r) ops' os'
  | _, _ => false
  end.

(* the property oracle: ledger checks and the owed listings, no exception *)
Definition spec_ok (i : input) (o : obs) : bool := orc2 false [] [] (i_ops i) o.
(* the same, tolerating the known finding only *)
Definition spec_ok_known (i : input) (o : obs) : bool := orc2 true [] [] (i_ops i) o.

(* ---------- cases ---------- *)
Record case := mk_case { c_id : N; c_in : input; c_obs : obs }.

(* footprint 1: the oracle is violated ONLY through pushes in the squatted
   situation (it holds once exactly those owe nothing) and the implementation
   did what the faithful model of that defect predicts. Any other violation
   (a pushed signature missing from a listing without the manifest having been
   there before, a deviation from the model) has footprint 0 and is reported. *)
Definition fp (c : case) : N :=
  if wf (c_in c) && obs_eqb (model (c_in c)) (c_obs c) && spec_ok_known (c_in c) (c_obs c)
  then 1 else 0.

Definition run (cs : list case) : list (N * N * N) :=
  run_cases c_id
    (fun c => wf (c_in c) && obs_eqb (model (c_in c)) (c_obs c))
    (fun c => spec_ok (c_in c) (c_obs c))
    fp cs.
