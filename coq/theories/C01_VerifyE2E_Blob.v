(* C01_VerifyE2E_Blob.v — the entry point ( *verifier).VerifyBlob (verifier/verifier.go:266), END TO END,
   in the manner of C01_VerifyE2E.v (verifier.Verify). The body is translated on every run
   (theories/C01_Gen.v: gen_verifier_verifier_VerifyBlob). Calls that leave it = ORACLES, universally
   quantified in every statement:
     ggtp   ( *BlobDocument).GetGlobalTrustPolicy         (C08 owns its body)
     gbatp  ( *BlobDocument).GetApplicableTrustPolicy     (C08)
     ps     ( *verifier).processSignature                 (C02)
     unm    json.Unmarshal into an envelope.Payload
     hashf  SignatureAlgorithm.Hash()                     (notation-core-go)
   and the PARAMETER descGenFunc (the caller's notation.BlobDescriptorGenerator).
   The table `algorithms` (verifier.go:55) is a translated package-level variable. *)
From Coq Require Import List Bool String Ascii NArith ZArith Lia.
From NV Require Import Base Regex Generated GoLib C01_Model C01_Proofs C01_Gen C01_GenProofs C01_VerifyE2E.
Import ListNotations.
Local Open Scope string_scope.
Local Open Scope list_scope.

(* ---------- the table `algorithms`, against the model's [alg_of] ---------- *)

(* crypto.Hash values as the model's [halg] (crypto.SHA256 = 5, SHA384 = 6, SHA512 = 7) *)
Definition halg_of_code (z : Z) : halg :=
  if (z =? 5)%Z then H256 else if (z =? 6)%Z then H384 else if (z =? 7)%Z then H512 else HNone.

(* digest.Algorithm names *)
Definition dalg_name (a : dalg) : string :=
  match a with D256 => "sha256" | D384 => "sha384" | D512 => "sha512" end.

(* `digestAlgo, ok := algorithms[cryptoHash]` is the model's [alg_of] *)
Lemma algorithms_lookup z :
  map_get_ok Z.eqb "" z verifier_algorithms
  = match alg_of (halg_of_code z) with Some a => (dalg_name a, true) | None => ("", false) end.
Proof.
  unfold map_get_ok, verifier_algorithms, halg_of_code. cbn [map_get].
  destruct (z =? 5)%Z; [reflexivity|]. destruct (z =? 6)%Z; [reflexivity|]. destruct (z =? 7)%Z; reflexivity.
Qed.

Definition blob_mismatch_err : GoLib.err :=
  Err "errors" "integrity check failed. signature does not match the given blob" [].
Definition hash_err : GoLib.err := Err "fmt" "unsupported hashing algorithm: %v" [].
Definition descgen_err : GoLib.err :=
  Err "errors" "failed to generate descriptor for given artifact. Error: %s" [].

(* desc.Digest != p.Digest || desc.Size != p.Size || (desc.MediaType != "" && desc.MediaType != p.MediaType),
   as the translation spells it *)
Definition gen_blob_mismatch (desc : v1_Descriptor) (p : envelope_Payload) : bool :=
  negb (String.eqb (Descriptor_Digest desc) (Descriptor_Digest (Payload_TargetArtifact p)))
  || (negb (Z.eqb (Descriptor_Size desc) (Descriptor_Size (Payload_TargetArtifact p)))
      || (negb (String.eqb (Descriptor_MediaType desc) "")
          && negb (String.eqb (Descriptor_MediaType desc) (Descriptor_MediaType (Payload_TargetArtifact p))))).

Lemma gen_blob_mismatch_equiv desc p : gen_blob_mismatch desc p = blob_mismatch (target_of desc) (signed_of p).
Proof. unfold gen_blob_mismatch, blob_mismatch. cbn [target_of signed_of t_dg t_sz t_mt]. rewrite orb_assoc. reflexivity. Qed.

(* the two post-checks of VerifyBlob in the order of the code *)
Definition post_error_blob (p : envelope_Payload) (desc : v1_Descriptor) (md : list (string * string))
    (e0 : option GoLib.err) : option GoLib.err :=
  let e1 := if gen_blob_mismatch desc p then Some blob_mismatch_err else e0 in
  if (map_len String.eqb md >? 0)%Z
  then match gen_verifier_verifyUserMetadata p md with Some x => Some x | None => e1 end
  else e1.

Lemma post_error_blob_some p desc md x : post_error_blob p desc md (Some x) <> None.
Proof.
  unfold post_error_blob.
  destruct (gen_blob_mismatch _ _), (map_len String.eqb md >? 0)%Z;
    try destruct (gen_verifier_verifyUserMetadata p md); discriminate.
Qed.

Lemma post_error_blob_none p desc md :
  post_error_blob p desc md None
  = match gen_verifier_verifyUserMetadata p md with
    | Some x => Some x
    | None => if gen_blob_mismatch desc p then Some blob_mismatch_err else None
    end.
Proof.
  unfold post_error_blob. destruct (map_len String.eqb md >? 0)%Z eqn:L; [reflexivity|].
  rewrite (md_empty_passes p md L). reflexivity.
Qed.

(* ====================================================================== *)
Section E2EBlob.

Variables C PM : Type.
Local Notation outcome := (notation_go_VerificationOutcome C).
Local Notation verifier := (verifier_verifier C PM).
Local Notation gerr := GoLib.err.

Variable ps : ptr verifier -> list Z -> string -> string -> list string -> list string
              -> trustpolicy_SignatureVerification -> list (string * string) -> outcome -> outcome * option gerr.
Variable unm : list Z -> envelope_Payload -> envelope_Payload * option gerr.
Variable ggtp : ptr trustpolicy_BlobDocument -> ptr trustpolicy_BlobTrustPolicy * option gerr.
Variable gbatp : ptr trustpolicy_BlobDocument -> string -> ptr trustpolicy_BlobTrustPolicy * option gerr.
Variable hashf : Z -> Z.

(* THE generated function *)
Definition VerifyBlob : verifier -> (string -> v1_Descriptor * option gerr) -> list Z
                        -> notation_go_BlobVerifierVerifyOptions -> option (ptr outcome * option gerr) :=
  gen_verifier_verifier_VerifyBlob C PM ps unm ggtp gbatp hashf.

Local Notation bdoc_of v := (verifier_blobTrustPolicyDoc C PM v).
Local Notation bmd_of opts := (BlobVerifierVerifyOptions_UserMetadata opts).
Local Notation bsv_of pol := (BlobTrustPolicy_SignatureVerification pol).
Local Notation err_of o := (VerificationOutcome_Error C o).
Local Notation content_of o := (VerificationOutcome_EnvelopeContent C o).
Local Notation set_err e o := (set_VerificationOutcome_Error C e o).

(* the selection: the global statement when no name is given, else the statement of that name *)
Definition bselect (v : verifier) (opts : notation_go_BlobVerifierVerifyOptions)
  : ptr trustpolicy_BlobTrustPolicy * option gerr :=
  if String.eqb (BlobVerifierVerifyOptions_TrustPolicyName opts) "" then ggtp (bdoc_of v)
  else gbatp (bdoc_of v) (BlobVerifierVerifyOptions_TrustPolicyName opts).

Definition BSelected (v : verifier) (opts : notation_go_BlobVerifierVerifyOptions) (pol : trustpolicy_BlobTrustPolicy) : Prop :=
  ptr_is_nil (bdoc_of v) = false /\ exists tp, bselect v opts = (tp, None) /\ ptr_val tp = Some pol.

Definition bps_answer (v : verifier) (sig : list Z) (opts : notation_go_BlobVerifierVerifyOptions)
    (pol : trustpolicy_BlobTrustPolicy) : outcome * option gerr :=
  ps (PNew v) sig (BlobVerifierVerifyOptions_SignatureMediaType opts) (BlobTrustPolicy_Name pol)
     (BlobTrustPolicy_TrustedIdentities pol) (BlobTrustPolicy_TrustStores pol) (bsv_of pol)
     (BlobVerifierVerifyOptions_PluginConfig opts) (out0 C sig (level_ptr (bsv_of pol))).

(* outcome.EnvelopeContent.SignerInfo.SignatureAlgorithm.Hash() *)
Definition hash_code (ec : signature_EnvelopeContent C) : Z :=
  hashf (SignerInfo_SignatureAlgorithm C (EnvelopeContent_SignerInfo C ec)).

(* ---------- 1. the generated body as a flat decision list ---------- *)
Definition VerifyBlob_spec (v : verifier) (gen : string -> v1_Descriptor * option gerr) (sig : list Z)
    (opts : notation_go_BlobVerifierVerifyOptions) : option (ptr outcome * option gerr) :=
  if ptr_is_nil (bdoc_of v) then Some (PNil, Some (Err "errors" "blobTrustPolicyDoc is nil" [])) else
  let '(tp, e) := bselect v opts in
  if negb (is_none e) then Some (PNil, Some (Err "notation.NoApplicableTrustPolicyError" "%v" [])) else
  match ptr_val tp with
  | None => None
  | Some pol =>
      let lp := level_ptr (bsv_of pol) in
      if skip_test lp then Some (PNew (out0 C sig lp), None) else
      let '(o1, e1) := bps_answer v sig opts pol in
      if negb (is_none e1) then Some (PNew (set_err e1 o1), e1) else
      match ptr_val (content_of o1) with
      | None => None
      | Some ec =>
          let '(p, e2) := unm (Payload_Content (EnvelopeContent_Payload C ec)) zero_payload in
          if negb (is_none e2) then Some (PNew (set_err e2 o1), e2) else
          match alg_of (halg_of_code (hash_code ec)) with
          | None => Some (PNew (set_err (Some hash_err) o1), Some hash_err)
          | Some a =>
              let '(desc, e4) := gen (dalg_name a) in
              if negb (is_none e4) then Some (PNew (set_err (Some descgen_err) o1), Some descgen_err) else
              let e5 := post_error_blob p desc (bmd_of opts) (err_of o1) in
              Some (PNew (set_err e5 o1), e5)
          end
      end
  end.

Theorem VerifyBlob_is_spec : forall v gen sig opts, VerifyBlob v gen sig opts = VerifyBlob_spec v gen sig opts.
Proof.
  intros v gen sig opts. unfold VerifyBlob, VerifyBlob_spec, gen_verifier_verifier_VerifyBlob, bselect. cbv zeta.
  destruct (ptr_is_nil (bdoc_of v)); [reflexivity|].
  destruct (String.eqb (BlobVerifierVerifyOptions_TrustPolicyName opts) "");
    [destruct (ggtp (bdoc_of v)) as [tp e]
    |destruct (gbatp (bdoc_of v) (BlobVerifierVerifyOptions_TrustPolicyName opts)) as [tp e]].
  all: cbv zeta.
  all: destruct (negb (is_none e)); [reflexivity|].
  all: destruct (ptr_val tp) as [pol|]; [|reflexivity].
  all: unfold level_ptr.
  all: destruct (GetVL_total (bsv_of pol)) as [lp [le G]]; rewrite G.
  all: fold (skip_test lp); destruct (skip_test lp); [reflexivity|].
  all: unfold bps_answer, level_ptr, out0; rewrite G.
  all: match goal with |- context [ps ?a ?b ?c ?d ?e ?f ?g ?h ?i] => destruct (ps a b c d e f g h i) as [o1 e1] end.
  all: destruct (negb (is_none e1)); [reflexivity|].
  all: fold zero_payload.
  all: destruct (ptr_val (content_of o1)) as [ec|]; [|reflexivity].
  all: destruct (unm (Payload_Content (EnvelopeContent_Payload C ec)) zero_payload) as [p e2].
  all: destruct (negb (is_none e2)); [reflexivity|].
  all: fold (hash_code ec); rewrite algorithms_lookup.
  all: destruct (alg_of (halg_of_code (hash_code ec))) as [a|]; cbn [negb]; [|reflexivity].
  all: destruct (gen (dalg_name a)) as [desc e4].
  all: destruct (negb (is_none e4)); [reflexivity|].
  all: unfold post_error_blob; fold (gen_blob_mismatch desc p); fold blob_mismatch_err.
  all: destruct (gen_blob_mismatch desc p);
    destruct (map_len String.eqb (bmd_of opts) >? 0)%Z;
    try destruct (gen_verifier_verifyUserMetadata p (bmd_of opts)) as [x|];
    cbn [negb is_none]; cbn [VerificationOutcome_Error set_VerificationOutcome_Error];
    try reflexivity.
  all: destruct o1; reflexivity.
Qed.

(* ---------- 2. panics ---------- *)
Definition BPanics (v : verifier) (sig : list Z) (opts : notation_go_BlobVerifierVerifyOptions) : Prop :=
  ptr_is_nil (bdoc_of v) = false /\
  exists tp, bselect v opts = (tp, None) /\
    (ptr_val tp = None
     \/ exists pol, ptr_val tp = Some pol /\ skip_test (level_ptr (bsv_of pol)) = false
                    /\ snd (bps_answer v sig opts pol) = None
                    /\ ptr_val (content_of (fst (bps_answer v sig opts pol))) = None).

Theorem VerifyBlob_panics_iff : forall v gen sig opts, VerifyBlob v gen sig opts = None <-> BPanics v sig opts.
Proof.
  intros v gen sig opts. rewrite VerifyBlob_is_spec. unfold VerifyBlob_spec, BPanics.
  destruct (ptr_is_nil (bdoc_of v)); [split; [discriminate|intros [X _]; discriminate]|].
  destruct (bselect v opts) as [tp e] eqn:G.
  destruct e as [x|]; cbn [negb is_none].
  { split; [discriminate|]. intros [_ [tp' [X _]]]. discriminate. }
  destruct (ptr_val tp) as [pol|] eqn:T.
  2:{ split; [|reflexivity]. intros _. split; [reflexivity|]. exists tp. split; [reflexivity|]. left. exact T. }
  destruct (skip_test (level_ptr (bsv_of pol))) eqn:S.
  { split; [discriminate|]. intros [_ [tp' [X [Y|[pol' [Y [Z _]]]]]]]; inversion X; subst tp'; congruence. }
  destruct (bps_answer v sig opts pol) as [o1 e1] eqn:A. cbn [fst snd].
  destruct e1 as [x1|]; cbn [negb is_none].
  { split; [discriminate|]. intros [_ [tp' [X [Y|[pol' [Y [_ [Z _]]]]]]]]; inversion X; subst tp'; [congruence|].
    rewrite T in Y. inversion Y; subst pol'. rewrite A in Z. discriminate. }
  destruct (ptr_val (content_of o1)) as [ec|] eqn:Ec.
  - split.
    + destruct (unm _ _) as [p e2]. destruct (negb (is_none e2)); [discriminate|].
      destruct (alg_of _); [|discriminate]. destruct (gen _) as [dd e4]. destruct (negb (is_none e4)); discriminate.
    + intros [_ [tp' [X [Y|[pol' [Y [_ [_ Z]]]]]]]]; inversion X; subst tp'; [congruence|].
      rewrite T in Y. inversion Y; subst pol'. rewrite A in Z. cbn [fst] in Z. congruence.
  - split; [|reflexivity]. intros _. split; [reflexivity|]. exists tp. split; [reflexivity|]. right.
    exists pol. rewrite A. cbn [fst snd]. repeat split; assumption.
Qed.

(* ---------- 3. the inputs of the C01 model [verify_blob], from the oracles ---------- *)

(* [e_hash]: the hash of the signature algorithm of the envelope content processSignature left *)
Definition ehash_of (o1 : outcome) : halg :=
  match ptr_val (content_of o1) with Some ec => halg_of_code (hash_code ec) | None => HNone end.

Definition benv_of (e0 : envfacts) (o1 : outcome) : envfacts :=
  mk_e (e_parse e0) (e_verify e0) (e_ctype e0) (decode_of C unm o1) (ehash_of o1).

(* the caller's generator as the model's [dalg -> option target] *)
Definition gen_of (gen : string -> v1_Descriptor * option gerr) (a : dalg) : option target :=
  match gen (dalg_name a) with (d, None) => Some (target_of d) | _ => None end.

Definition blob_input (pol : trustpolicy_BlobTrustPolicy) (e0 : envfacts) (rest touch : bool)
    (opts : notation_go_BlobVerifierVerifyOptions) (o1 : outcome) : input :=
  mk_in (sv_lvl (bsv_of pol)) (sv_ov (bsv_of pol)) (benv_of e0 o1) rest touch (md_of (bmd_of opts))
        (CBlob (mk_g None None None)).

Definition bverdict_rel (r : outcome * option gerr) (e : option gerr) (m : C01_Model.err) : Prop :=
  match m with
  | ENone => e = None
  | EIntegrity _ | ERest => e <> None /\ (snd r <> None -> e = snd r)
  | EJson => exists p e2, decoded C unm (fst r) = Some (p, e2) /\ e2 <> None /\ e = e2
  | EHash => e = Some hash_err
  | EDescGen => e = Some descgen_err
  | EMismatch => e = Some blob_mismatch_err
  | EMetadata => exists x, e = Some x /\ is_md_err x
  | _ => False
  end.

(* THE THEOREM (level other than skip): as C01_e2e_Verify_is_model, for VerifyBlob and [verify_blob] *)
Theorem VerifyBlob_nonskip_is_model : forall v gen sig opts pol l e0 rest touch,
  BSelected v opts pol -> skip_test (level_ptr (bsv_of pol)) = false -> is_skip l = false ->
  let r := bps_answer v sig opts pol in
  Link C e0 rest r ->
  let m := o_err (verify_blob l (blob_input pol e0 rest touch opts (fst r)) (gen_of gen)) in
  match VerifyBlob v gen sig opts with
  | None => snd r = None /\ ptr_val (content_of (fst r)) = None /\ m <> ENone
  | Some (po, e) => po = PNew (set_err e (fst r)) /\ bverdict_rel r e m
  end.
Proof.
  intros v gen sig opts pol l e0 rest touch [Hd [tp [G T]]] S Hs r L m.
  rewrite VerifyBlob_is_spec. unfold VerifyBlob_spec. rewrite Hd, G. cbn [negb is_none]. rewrite T, S.
  subst m. unfold verify_blob, prefix, blob_input. rewrite Hs.
  cbn [i_env i_rest i_md i_rest_touch].
  change (verify_integrity (benv_of e0 (fst r))) with (verify_integrity e0).
  fold r. unfold Link, rest_of in L. destruct r as [o1 e1] eqn:R. cbn [fst snd] in L |- *.
  destruct e1 as [x1|]; cbn [negb is_none andb] in L |- *.
  { split; [reflexivity|].
    destruct (verify_integrity e0) as [k|]; [split; [discriminate|reflexivity]|].
    destruct rest; [exfalso; destruct L as [L _]; specialize (L (conj eq_refl eq_refl)); discriminate|].
    cbn [negb]. split; [discriminate|reflexivity]. }
  destruct (ptr_val (content_of o1)) as [ec|] eqn:Ec.
  2:{ split; [reflexivity|]. split; [reflexivity|].
      destruct (verify_integrity e0); [discriminate|]. destruct rest; cbn [negb]; [|discriminate].
      unfold benv_of, decode_of, decoded. cbn [e_decode]. rewrite Ec. discriminate. }
  destruct (unm (Payload_Content (EnvelopeContent_Payload C ec)) zero_payload) as [p e2] eqn:U.
  assert (D : decoded C unm o1 = Some (p, e2)) by (unfold decoded; rewrite Ec, U; reflexivity).
  destruct (err_of o1) as [y|] eqn:Ey; cbn [is_none] in L.
  { (* processSignature returned nil but left outcome.Error set *)
    assert (M : exists k, (match verify_integrity e0 with
                           | Some k => inl (mk_o (EIntegrity k) (Some (EIntegrity k, 0%N)) (lookup_default "integrity" (snd l)) None false)
                           | None => if negb rest then inl (mk_o ERest (Some (ERest, 1%N)) (lookup_default "integrity" (snd l)) None touch)
                                     else match e_decode (benv_of e0 o1) with
                                          | None => inl (mk_o EJson (Some (EJson, 1%N)) (lookup_default "integrity" (snd l)) None touch)
                                          | Some t => inr (lookup_default "integrity" (snd l), t) end
                           end : obs + (string * target)) = inl k /\ (o_err k = ERest \/ exists j, o_err k = EIntegrity j)).
    { destruct (verify_integrity e0) as [k|]; [eexists; split; [reflexivity|right; eexists; reflexivity]|].
      destruct rest; [exfalso; destruct L as [L _]; specialize (L (conj eq_refl eq_refl)); discriminate|].
      eexists; split; [reflexivity|left; reflexivity]. }
    destruct M as [k [M1 M2]]. rewrite M1.
    assert (Fin : forall e, e <> None -> bverdict_rel (o1, None) e (o_err k)).
    { intros e Ne. destruct M2 as [M2|[j M2]]; rewrite M2; (split; [exact Ne|intros X; now elim X]). }
    destruct e2 as [x2|]; cbn [negb is_none]; [split; [reflexivity|apply Fin; discriminate]|].
    destruct (alg_of (halg_of_code (hash_code ec))) as [a|]; [|split; [reflexivity|apply Fin; discriminate]].
    destruct (gen (dalg_name a)) as [desc [x4|]]; cbn [negb is_none]; [split; [reflexivity|apply Fin; discriminate]|].
    split; [reflexivity|]. apply Fin. apply post_error_blob_some. }
  destruct L as [_ L]. destruct (L eq_refl) as [Vi Hr]. rewrite Vi. subst rest. cbn [negb].
  unfold benv_of at 1. cbn [e_decode]. unfold decode_of. rewrite D.
  destruct e2 as [x2|]; cbn [negb is_none].
  { split; [reflexivity|]. cbn [bverdict_rel o_err fst snd]. exists p, (Some x2). split; [exact D|split; [discriminate|reflexivity]]. }
  unfold benv_of. cbn [e_hash i_env]. unfold ehash_of. rewrite Ec.
  destruct (alg_of (halg_of_code (hash_code ec))) as [a|]; [|split; reflexivity].
  unfold gen_of. destruct (gen (dalg_name a)) as [desc [x4|]]; cbn [negb is_none]; [split; reflexivity|].
  split; [reflexivity|]. unfold finish. cbn [o_err i_md].
  rewrite post_error_blob_none, gen_verifyUserMetadata_check_md, gen_blob_mismatch_equiv.
  destruct (gen_verifier_verifyUserMetadata p (bmd_of opts)) as [x|] eqn:Um.
  - exists x. split; [reflexivity|]. eapply md_err; exact Um.
  - destruct (blob_mismatch (target_of desc) (signed_of p)); reflexivity.
Qed.

(* the level skip *)
Theorem VerifyBlob_skip : forall v gen sig opts pol,
  BSelected v opts pol -> skip_test (level_ptr (bsv_of pol)) = true ->
  VerifyBlob v gen sig opts = Some (PNew (out0 C sig (level_ptr (bsv_of pol))), None).
Proof.
  intros v gen sig opts pol [Hd [tp [G T]]] S.
  rewrite VerifyBlob_is_spec. unfold VerifyBlob_spec. rewrite Hd, G. cbn [negb is_none]. rewrite T, S. reflexivity.
Qed.

(* ---------- 4. the C01 theorems on the generated entry point ---------- *)

(* the post-checks of VerifyBlob pass, in the code's own words: the descriptor the caller's generator
   yields FOR THE DIGEST ALGORITHM OF THE SIGNATURE ALGORITHM'S HASH has the signed digest and size, and
   the signed media type whenever it states one; every required metadata pair is a signed annotation *)
Definition BlobChecksPass (o1 : outcome) (gen : string -> v1_Descriptor * option gerr) (md : list (string * string)) : Prop :=
  exists ec p a desc,
    ptr_val (content_of o1) = Some ec
    /\ unm (Payload_Content (EnvelopeContent_Payload C ec)) zero_payload = (p, None)
    /\ alg_of (halg_of_code (hash_code ec)) = Some a
    /\ gen (dalg_name a) = (desc, None)
    /\ Descriptor_Digest (Payload_TargetArtifact p) = Descriptor_Digest desc
    /\ Descriptor_Size (Payload_TargetArtifact p) = Descriptor_Size desc
    /\ (Descriptor_MediaType desc <> "" -> Descriptor_MediaType (Payload_TargetArtifact p) = Descriptor_MediaType desc)
    /\ (forall k x, map_get String.eqb k md = Some x ->
                    map_get String.eqb k (Descriptor_Annotations (Payload_TargetArtifact p)) = Some x).

(* C01_blob / C01_success_iff transported through the model (VerifyBlob_nonskip_is_model + verify_blob_success) *)
Theorem VerifyBlob_success_iff : forall v gen sig opts pol,
  BSelected v opts pol -> skip_test (level_ptr (bsv_of pol)) = false ->
  let r := bps_answer v sig opts pol in
  ((exists po, VerifyBlob v gen sig opts = Some (po, None))
   <-> snd r = None /\ err_of (fst r) = None /\ BlobChecksPass (fst r) gen (bmd_of opts)).
Proof.
  intros v gen sig opts pol Hsel S r.
  assert (Hl : is_skip ("strict", []) = false) by reflexivity.
  pose proof (VerifyBlob_nonskip_is_model v gen sig opts pol ("strict", []) intact_facts (rest_of C r) false
                Hsel S Hl (Link_canonical C r)) as M.
  cbv zeta in M. fold r in M.
  set (i := blob_input pol intact_facts (rest_of C r) false opts (fst r)) in *.
  pose proof (verify_blob_success ("strict", []) i (gen_of gen) Hl) as V.
  assert (A : o_err (verify_blob ("strict", []) i (gen_of gen)) = ENone
              <-> snd r = None /\ err_of (fst r) = None /\ BlobChecksPass (fst r) gen (bmd_of opts)).
  { rewrite V. subst i. unfold blob_input. cbn [i_env i_rest i_md].
    unfold benv_of, intact_facts. cbn [e_decode e_hash e_parse e_verify e_ctype].
    unfold decode_of, decoded, ehash_of, BlobChecksPass, gen_of.
    split.
    - intros [_ [Hr [t [a [d [Ht [Ha [Hg [B1 [B2 [B3 Hm]]]]]]]]]]].
      unfold rest_of in Hr. apply andb_true_iff in Hr. destruct Hr as [R1 R2].
      split; [destruct (snd r); [discriminate|reflexivity]|]. split; [destruct (err_of (fst r)); [discriminate|reflexivity]|].
      destruct (ptr_val (content_of (fst r))) as [ec|]; [|discriminate].
      destruct (unm _ _) as [p [x|]] eqn:U; [discriminate|]. inversion Ht; subst t.
      destruct (gen (dalg_name a)) as [desc [x4|]] eqn:Gd; [discriminate|]. inversion Hg; subst d.
      exists ec, p, a, desc. split; [reflexivity|]. split; [exact U|]. split; [exact Ha|]. split; [exact Gd|].
      cbn [signed_of target_of t_dg t_sz t_mt] in B1, B2, B3. split; [exact B1|]. split; [exact B2|]. split; [exact B3|].
      apply (proj1 (gen_verifyUserMetadata_nil_iff p (bmd_of opts))).
      apply md_ok_iff in Hm. pose proof (gen_verifyUserMetadata_equiv p (bmd_of opts)) as Q.
      destruct (gen_verifier_verifyUserMetadata p (bmd_of opts)); [|reflexivity].
      destruct Q as [Q _]. congruence.
    - intros [R1 [R2 [ec [p [a [desc [Ec [U [Ha [Gd [B1 [B2 [B3 Hm]]]]]]]]]]]]].
      split; [repeat split|]. split; [unfold rest_of; rewrite R1, R2; reflexivity|].
      rewrite Ec, U. exists (signed_of p), a, (target_of desc). split; [reflexivity|]. split; [exact Ha|].
      rewrite Gd. split; [reflexivity|]. cbn [signed_of target_of t_dg t_sz t_mt].
      split; [exact B1|]. split; [exact B2|]. split; [exact B3|].
      apply md_ok_iff. apply (proj2 (gen_verifyUserMetadata_nil_iff p (bmd_of opts))) in Hm.
      pose proof (gen_verifyUserMetadata_equiv p (bmd_of opts)) as Q. rewrite Hm in Q. exact Q. }
  rewrite <- A. clear A V. split.
  - intros [po E]. rewrite E in M. destruct M as [_ M].
    destruct (o_err (verify_blob ("strict", []) i (gen_of gen))) as [| | |k| | | | | |]; cbn [bverdict_rel] in M.
    + reflexivity.
    + contradiction.
    + contradiction.
    + destruct M as [M _]. now elim M.
    + destruct M as [M _]. now elim M.
    + destruct M as [p' [e2 [_ [M1 M2]]]]. subst e2. now elim M1.
    + discriminate.
    + discriminate.
    + discriminate.
    + destruct M as [x [M _]]. discriminate.
  - intros E. rewrite E in M. destruct (VerifyBlob v gen sig opts) as [[po e]|].
    + destruct M as [_ M]. cbn in M. subst e. eexists; reflexivity.
    + destruct M as [_ [_ M]]. now elim M.
Qed.

(* C01_error_sticks_blob transported: both post-checks reached => the metadata error if a pair is missing,
   else the blob mismatch error if the comparison fails, else nil: the mismatch is never overwritten by a
   passing metadata check *)
Theorem VerifyBlob_error_sticks : forall v gen sig opts pol ec p a desc,
  BSelected v opts pol -> skip_test (level_ptr (bsv_of pol)) = false ->
  let r := bps_answer v sig opts pol in
  snd r = None -> err_of (fst r) = None ->
  ptr_val (content_of (fst r)) = Some ec ->
  unm (Payload_Content (EnvelopeContent_Payload C ec)) zero_payload = (p, None) ->
  alg_of (halg_of_code (hash_code ec)) = Some a -> gen (dalg_name a) = (desc, None) ->
  let e := match gen_verifier_verifyUserMetadata p (bmd_of opts) with
           | Some x => Some x
           | None => if blob_mismatch (target_of desc) (signed_of p) then Some blob_mismatch_err else None
           end in
  VerifyBlob v gen sig opts = Some (PNew (set_err e (fst r)), e).
Proof.
  intros v gen sig opts pol ec p a desc [Hd [tp [G T]]] S r R1 R2 Ec U Ha Gd e.
  rewrite VerifyBlob_is_spec. unfold VerifyBlob_spec. rewrite Hd, G. cbn [negb is_none]. rewrite T, S.
  fold r. destruct r as [o1 e1]. cbn [fst snd] in *. subst e1. cbn [negb is_none].
  rewrite Ec, U. cbn [negb is_none]. rewrite Ha, Gd. cbn [negb is_none].
  rewrite R2, post_error_blob_none, gen_blob_mismatch_equiv. reflexivity.
Qed.

End E2EBlob.
