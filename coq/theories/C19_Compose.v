(* C19_Compose.v — composition of the C11 model (notation.SignOCI: what it hands to
   Repository.PushSignature) with the C19 model (what PushSignature stores and what
   ListSignatures / FetchSignatureBlob return).

   C11_Model treats PushSignature as a scripted callee (ci_push) and records its
   arguments in the trace (push_call: media type, signature bytes, subject descriptor
   deep, annotations). Here that push_call is turned into the C19 operation
   [OpPush (adapt_push A E pc)] and executed on the C19 ledger after an arbitrary
   history; "the scripted push answered OK" is linked to "the C19 push reported
   success" by hypothesis (the two models share no state).

   Adapters between the representations (C11: strings; C19: numbers standing
   injectively for strings):
     a_mt   media type string   -> C19 media type number
     a_dg   digest string       -> C19 digest number
     a_str  annotation key/value-> C19 annotation number
     a_hash byte string         -> C19 digest number of its sha256 (the envelope)
   [adapter_ok] asks them to be injective and to send the constants the C19 model
   names (the manifest media types, the notation type, octet-stream, "", the created
   key, the digest of "{}") to their C19 numbers. [std_adapter] is a concrete one
   (table + base-257 coding of the string), proved [adapter_ok].
   The C19 oracle inputs C11 knows nothing about (how encoding/json reads the
   envelope and its length, the digest and length of the packed manifest, the clock,
   whether the created annotation parses) are the record [push_env].
   Descriptor fields the C19 model ignores (dd_rest, the annotation map of the
   subject descriptor) are dropped by [adapt_desc]. *)
From Coq Require Import Permutation.
From NV Require Import Base Generated C19_Model C19_Proofs.
From NV Require C11_Model C11_Proofs.
Open Scope list_scope.
Open Scope N_scope.

Module M11 := C11_Model.

Definition inj {X Y} (f : X -> Y) : Prop := forall x y, f x = f y -> x = y.

Record adapter := mk_adapter {
  a_mt : string -> N; a_dg : string -> N; a_str : string -> N; a_hash : string -> N }.

Definition s_image : string := "application/vnd.oci.image.manifest.v1+json".
Definition s_artifact : string := "application/vnd.oci.artifact.manifest.v1+json".
Definition s_index : string := "application/vnd.oci.image.index.v1+json".
Definition s_dman : string := "application/vnd.docker.distribution.manifest.v2+json".
Definition s_dlist : string := "application/vnd.docker.distribution.manifest.list.v2+json".
Definition s_notation : string := "application/vnd.cncf.notary.signature".
Definition s_octet : string := "application/octet-stream".
Definition s_dg_empty : string := "sha256:44136fa355b3678a1146ad16f7e8649e94fb4fc21fe77e8310c060f61caaff8a".

Record adapter_ok (A : adapter) : Prop := mk_ok {
  ok_mt_inj : inj (a_mt A); ok_dg_inj : inj (a_dg A);
  ok_str_inj : inj (a_str A); ok_hash_inj : inj (a_hash A);
  ok_none : a_mt A "" = MT_NONE; ok_image : a_mt A s_image = MT_IMAGE;
  ok_artifact : a_mt A s_artifact = MT_ARTIFACT; ok_index : a_mt A s_index = MT_INDEX;
  ok_dman : a_mt A s_dman = MT_DMAN; ok_dlist : a_mt A s_dlist = MT_DLIST;
  ok_notation : a_mt A s_notation = MT_NOTATION; ok_octet : a_mt A s_octet = MT_OCTET;
  ok_created : a_str A M11.k_created = K_CREATED;
  ok_dg_empty : a_dg A s_dg_empty = DG_EMPTY; ok_hash_empty : a_hash A "{}" = DG_EMPTY }.

Record push_env := mk_env {
  pe_bc : content;      (* the envelope as encoding/json reads it, and its length *)
  pe_now : N; pe_cvalid : bool;
  pe_mdg : N; pe_msz : Z }.

Definition adapt_desc (A : adapter) (x : M11.ddesc) : desc :=
  D (a_mt A (M11.dd_mt x)) (a_dg A (M11.dd_dg x)) (M11.dd_sz x).

Definition adapt_ann (A : adapter) (m : amap) : ann :=
  map (fun kv => (a_str A (fst kv), a_str A (snd kv))) m.

(* the PushSignature call SignOCI makes, as a C19 operation *)
Definition adapt_push (A : adapter) (E : push_env) (pc : M11.push_call) : push :=
  P (a_mt A (M11.pc_mt pc)) (a_hash A (M11.pc_sig pc)) (pe_bc E)
    (adapt_desc A (M11.pc_subject pc)) (adapt_ann A (M11.pc_ann pc))
    (pe_now E) (pe_cvalid E) (pe_mdg E) (pe_msz E).

(* the artifact Resolve answered, as a C19 descriptor *)
Definition resolved (A : adapter) (d : M11.desc) : desc :=
  D (a_mt A (M11.d_mt d)) (a_dg A (M11.d_dg d)) (M11.d_sz d).

(* ---------- small facts ---------- *)
Lemma lookup_in_amap : forall k v (m : amap), lookup k m = Some v -> In (k, v) m.
Proof.
  induction m as [|[k' v'] m IH]; cbn; [discriminate|].
  destruct (String.eqb k k') eqn:E.
  - apply String.eqb_eq in E. subst. intros H; inversion H. left; reflexivity.
  - intros H. right. auto.
Qed.

Lemma adapt_ann_in : forall A k v m, In (k, v) m -> In (a_str A k, a_str A v) (adapt_ann A m).
Proof. intros A k v m H. unfold adapt_ann. apply in_map_iff. exists (k, v). auto. Qed.

Lemma has_key_adapt : forall A k v m, In (k, v) m -> has_key (a_str A k) (adapt_ann A m) = true.
Proof.
  intros A k v m H. unfold has_key. apply existsb_exists. exists (a_str A k, a_str A v).
  split; [apply adapt_ann_in; exact H|cbn; apply N.eqb_refl].
Qed.

Lemma valid_mt_nonempty : forall s, M11.valid_mt s = true -> s <> "".
Proof.
  intros s H ->. unfold M11.valid_mt in H. cbn in H. discriminate.
Qed.

(* ---------- the composition ---------- *)
Theorem signed_then_listed : forall A E tbl st11 c st11' t,
  adapter_ok A ->
  (* C11: a SignOCI call on any repository table, heap and options that ended OK *)
  M11.sign_oci false tbl st11 c = (st11', t) ->
  M11.wf_call (M11.s_heap st11) tbl c = true ->
  (M11.t_res t = M11.ROk \/ M11.t_res t = M11.RRefDel) ->
  exists d sig si tm pc,
    M11.lookup_tbl (M11.eff_ref c) tbl = Some d /\
    M11.ci_sign c = M11.SOk sig (Some si) /\ M11.si_time si = Some tm /\
    M11.t_pushes t = [pc] /\
    M11.t_art t = Some (M11.deep (M11.s_heap st11) d) /\
    (* C19: that very push, executed on the ledger after ANY history ops1, reporting
       success, followed by ANY history ops2 *)
    forall ops1 ops2 s1' bd md a,
      let p := adapt_push A E pc in
      forallb wf_op (ops1 ++ OpPush p :: ops2) = true ->
      push_sig (state_after ops1) p = (s1', RPush 0 bd md a) ->
      lookup_dg (state_after ops1) (pe_mdg E) = None ->
      pe_mdg E <> a_hash A sig -> pe_mdg E <> DG_EMPTY ->
      let st := state_after (ops1 ++ OpPush p :: ops2) in
      let subj := resolved A d in
      (* the manifest annotations are exactly those SignOCI handed over: they contain
         the thumbprints of the signing chain and the signing time *)
      a = adapt_ann A (M11.pc_ann pc) /\
      In (a_str A M11.k_thumb, a_str A (M11.json_strs (M11.si_chain si))) a /\
      In (a_str A M11.k_created, a_str A (M11.rfc3339 tm)) a /\
      (* listed for the RESOLVED artifact *)
      (forall its lg, list_sigs st subj = (LOk its, lg) -> In (I md MT_NOTATION a) its) /\
      (* for no other subject: C19 descriptors, and C11 descriptors differing in a field *)
      (forall q its lg, q <> subj -> list_sigs st q = (LOk its, lg) ->
                        ~ In (d_dg md) (map item_dg its)) /\
      (forall x : M11.ddesc,
          M11.dd_mt x <> M11.d_mt d \/ M11.dd_dg x <> M11.d_dg d \/ M11.dd_sz x <> M11.d_sz d ->
          adapt_desc A x <> subj) /\
      (* the envelope comes back: the signer's bytes (their digest), the requested media
         type, having fetched the manifest and the blob only *)
      ((pe_msz E <= capM)%Z -> (c_sz (pe_bc E) <= capB)%Z ->
         fetch_sig st md =
         (FOk (a_hash A sig) (D (a_mt A (M11.ci_mt c)) (a_hash A sig) (c_sz (pe_bc E))),
          [pe_mdg E; a_hash A sig])) /\
      (forall bytes, a_hash A bytes = a_hash A sig -> bytes = sig).
Proof.
  intros A E tbl st11 c st11' t OK H11 W11 R11.
  destruct (C11_Proofs.pushed tbl st11 c st11' t H11 W11 R11)
    as (d & sig & si & tm & pc & dg & Hl & Hs & Ht & _ & Hp & Hmt & Hsig & Hsub & Hth & Hcr & _ & Hart & _).
  assert (Hreach : M11.reached_signer (M11.t_res t) = true) by (destruct R11 as [-> | ->]; reflexivity).
  destruct (C11_Proofs.signed tbl st11 c st11' t H11 Hreach)
    as (d' & sc & _ & _ & _ & _ & _ & _ & _ & _ & _ & _ & _ & _ & _ & _ & _ & Hvalid).
  exists d, sig, si, tm, pc. repeat (split; [assumption|]).
  intros ops1 ops2 s1' bd md a p W HP Lm N1 N2 st subj.
  assert (Esubj : p_subj p = subj).
  { unfold p, adapt_push, subj, resolved, adapt_desc. cbn [p_subj]. rewrite Hsub. reflexivity. }
  assert (Ebdg : p_bdg p = a_hash A sig) by (unfold p, adapt_push; cbn [p_bdg]; now rewrite Hsig).
  assert (Emdg : p_mdg p = pe_mdg E) by reflexivity.
  assert (N1' : p_mdg p <> p_bdg p) by (rewrite Emdg, Ebdg; exact N1).
  destruct (push_entries_present ops1 p ops2 s1' bd md a W HP Lm N1' N2)
    as (I & Hem & Heb & EC & -> & ->).
  destruct (push_listed ops1 p ops2 s1' _ _ a W HP Lm N1' N2)
    as (_ & _ & _ & _ & HL & HF).
  fold st in I, Hem, Heb, HL, HF.
  (* the annotations: created is supplied, so they are handed on unchanged *)
  assert (Hin_cr : In (M11.k_created, M11.rfc3339 tm) (M11.pc_ann pc)) by (apply lookup_in_amap; exact Hcr).
  assert (Hin_th : In (M11.k_thumb, M11.json_strs (M11.si_chain si)) (M11.pc_ann pc)) by (apply lookup_in_amap; exact Hth).
  assert (Ea : a = adapt_ann A (M11.pc_ann pc)).
  { unfold ensure_created in EC. change (p_ann p) with (adapt_ann A (M11.pc_ann pc)) in EC.
    rewrite <- (ok_created A OK) in EC. rewrite (has_key_adapt A _ _ _ Hin_cr) in EC.
    destruct (p_cvalid p); inversion EC. reflexivity. }
  split; [exact Ea|]. split; [rewrite Ea; apply adapt_ann_in; exact Hin_th|].
  split; [rewrite Ea; apply adapt_ann_in; exact Hin_cr|].
  split; [intros its lg HLs; apply (HL its lg); rewrite Esubj; exact HLs|].
  split.
  { intros q its lg Nq HLs.
    change (d_dg (man_desc p)) with (dg_of (man_entry p a)).
    apply (isolation (ops1 ++ OpPush p :: ops2) q its lg (man_entry p a) W HLs Hem).
    intros (_ & _ & _ & Hq & _). cbn in Hq. inversion Hq as [Hq']. apply Nq.
    rewrite <- Hq'. change (adapt_desc A (M11.pc_subject pc)) with (p_subj p). exact Esubj. }
  split.
  { intros x Hx Eq. unfold adapt_desc, subj, resolved in Eq. inversion Eq as [[E1 E2 E3]].
    apply (ok_mt_inj A OK) in E1. apply (ok_dg_inj A OK) in E2. tauto. }
  split.
  { intros Cm Cb. rewrite (HF Cm Cb). unfold blob_desc.
    assert (Emt : p_mt p = a_mt A (M11.ci_mt c)) by (unfold p, adapt_push; cbn [p_mt]; now rewrite Hmt).
    rewrite Emt, Ebdg, Emdg.
    assert (X : (a_mt A (M11.ci_mt c) =? MT_NONE) = false).
    { apply N.eqb_neq. intros Hz. rewrite <- (ok_none A OK) in Hz.
      apply (ok_mt_inj A OK) in Hz. exact (valid_mt_nonempty _ Hvalid Hz). }
    rewrite X. reflexivity. }
  intros bytes Hb. apply (ok_hash_inj A OK). exact Hb.
Qed.

(* ---------- a concrete adapter: tables for the named constants, base-257 coding otherwise ---------- *)
Fixpoint code (s : string) : N :=
  match s with
  | EmptyString => 0
  | String c s' => (N_of_ascii c + 1) + 257 * code s'
  end.

Lemma code_inj : inj code.
Proof.
  intros s. induction s as [|c s IH]; intros [|c' t] H; cbn [code] in H.
  - reflexivity.
  - exfalso. lia.
  - exfalso. lia.
  - pose proof (N_ascii_bounded c) as B1. pose proof (N_ascii_bounded c') as B2.
    assert (N_of_ascii c = N_of_ascii c' /\ code s = code t) as [E1 E2] by lia.
    f_equal; [|apply IH; exact E2].
    rewrite <- (ascii_N_embedding c), <- (ascii_N_embedding c'). now rewrite E1.
Qed.

Fixpoint tfind (s : string) (t : list (string * N)) : option N :=
  match t with
  | [] => None
  | (k, n) :: t' => if String.eqb s k then Some n else tfind s t'
  end.

Definition intern (t : list (string * N)) (base : N) (s : string) : N :=
  match tfind s t with Some n => n | None => base + code s end.

Lemma tfind_in : forall s t n, tfind s t = Some n -> In (s, n) t.
Proof.
  induction t as [|[k m] t IH]; cbn; [discriminate|]. intros n.
  destruct (String.eqb s k) eqn:E.
  - apply String.eqb_eq in E. subst. intros H; inversion H. left; reflexivity.
  - intros H. right. auto.
Qed.

Lemma snd_nodup_key : forall (t : list (string * N)) s s' n,
  NoDup (map snd t) -> In (s, n) t -> In (s', n) t -> s = s'.
Proof.
  induction t as [|[k m] t IH]; intros s s' n ND H1 H2; [destruct H1|].
  cbn in ND. inversion ND as [|? ? Hn ND']; subst.
  destruct H1 as [H1|H1], H2 as [H2|H2].
  - congruence.
  - inversion H1; subst. exfalso. apply Hn. apply in_map_iff. exists (s', n). auto.
  - inversion H2; subst. exfalso. apply Hn. apply in_map_iff. exists (s, n). auto.
  - eapply IH; eauto.
Qed.

Lemma intern_inj : forall t base,
  (forall k n, In (k, n) t -> n < base) -> NoDup (map snd t) -> inj (intern t base).
Proof.
  intros t base Hb ND x y H. unfold intern in H.
  destruct (tfind x t) as [n|] eqn:Fx, (tfind y t) as [m|] eqn:Fy.
  - subst m. eapply snd_nodup_key; eauto using tfind_in.
  - apply tfind_in in Fx. apply Hb in Fx. lia.
  - apply tfind_in in Fy. apply Hb in Fy. lia.
  - apply code_inj. lia.
Qed.

Definition mt_table : list (string * N) :=
  [ (EmptyString, MT_NONE); (s_image, MT_IMAGE); (s_artifact, MT_ARTIFACT); (s_index, MT_INDEX);
    (s_dman, MT_DMAN); (s_dlist, MT_DLIST); (s_notation, MT_NOTATION); (s_octet, MT_OCTET) ].

Definition std_adapter : adapter :=
  mk_adapter (intern mt_table 8)
             (intern [(EmptyString, 0); (s_dg_empty, DG_EMPTY)] 2)
             (intern [(M11.k_created, K_CREATED)] 2)
             (intern [("{}"%string, DG_EMPTY)] 2).

Ltac table_bound :=
  let k := fresh in let n := fresh in let H := fresh in
  intros k n H; cbn in H;
  repeat (destruct H as [H|H]; [inversion H; subst; reflexivity|]); destruct H.

Ltac table_nodup :=
  cbn; repeat (constructor; [cbn; intros H; repeat (destruct H as [H|H]; [discriminate H|]); exact H|]);
  constructor.

Lemma std_adapter_ok : adapter_ok std_adapter.
Proof.
  constructor; try reflexivity; cbn [a_mt a_dg a_str a_hash std_adapter];
    apply intern_inj; try table_bound; table_nodup.
Qed.
