(* C16_Path.v — lexical path library of property C16: Go's path.Clean /
   path.Join / filepath.Join on Unix (where filepath.Clean = path.Clean and the
   separator is '/'), in the component formulation of the four rules of
   path.Clean:
     1. replace multiple slashes by one        (empty components are dropped)
     2. eliminate each "." element
     3. eliminate each inner ".." together with the non-".." element before it
     4. eliminate ".." elements that begin a rooted path
   The result is "." for an empty relative result and "/" for an empty rooted one.
   The library is validated against the real dir.SysFS.SysPath / path.Join on
   every generated name (operation OPath of the C16 correspondence).
   Definitions and lemmas; no axioms. *)
From NV Require Import Base.
Open Scope string_scope.

Definition slash : ascii := "/"%char.

(* strings.Split(s, "/"): n separators give n+1 pieces *)
Fixpoint split_slash (s : string) : list string :=
  match s with
  | EmptyString => [EmptyString]
  | String a s' =>
      if Ascii.eqb a slash then EmptyString :: split_slash s'
      else match split_slash s' with
           | h :: t => String a h :: t
           | [] => [String a EmptyString]
           end
  end.

Fixpoint join_slash (l : list string) : string :=
  match l with
  | [] => ""
  | [x] => x
  | x :: t => x ++ "/" ++ join_slash t
  end.

Definition is_abs (s : string) : bool :=
  match s with String a _ => Ascii.eqb a slash | EmptyString => false end.

Definition no_slash (s : string) : bool := negb (contains_byte slash s).

(* a component that Clean keeps as it is *)
Definition plainb (c : string) : bool :=
  negb (String.eqb c "") && negb (String.eqb c ".") && negb (String.eqb c "..") && no_slash c.

(* "name is a single path component" (Unix) *)
Definition single_componentb (n : string) : bool := plainb n.
Definition single_component (n : string) : Prop :=
  n <> "" /\ n <> "." /\ n <> ".." /\ contains_byte slash n = false.

(* one component processed by Clean; the stack is kept top first *)
Definition clean_step (rooted : bool) (st : list string) (c : string) : list string :=
  if String.eqb c "" || String.eqb c "." then st
  else if String.eqb c ".." then
    match st with
    | top :: rest => if String.eqb top ".." then c :: st else rest
    | [] => if rooted then [] else [c]
    end
  else c :: st.

Definition clean_stack (rooted : bool) (comps st : list string) : list string :=
  fold_left (clean_step rooted) comps st.

Definition render (rooted : bool) (comps : list string) : string :=
  if rooted then "/" ++ join_slash comps
  else match comps with [] => "." | _ => join_slash comps end.

(* path.Clean *)
Definition clean (s : string) : string :=
  match s with
  | EmptyString => "."
  | _ => let r := is_abs s in render r (rev (clean_stack r (split_slash s) []))
  end.

(* path.Join / filepath.Join: leading empty elements are ignored, the rest is
   joined with "/" and cleaned; all empty gives "" *)
Fixpoint drop_empty (l : list string) : list string :=
  match l with
  | EmptyString :: t => drop_empty t
  | _ => l
  end.

Definition pjoin (l : list string) : string :=
  match drop_empty l with
  | [] => ""
  | l' => clean (join_slash l')
  end.

(* non-empty components of a path *)
Definition comps_of (s : string) : list string :=
  filter (fun c => negb (String.eqb c "")) (split_slash s).

(* <dir>/<name> for a clean rooted dir *)
Definition child_path (dir name : string) : string :=
  if String.eqb dir "/" then "/" ++ name else dir ++ "/" ++ name.

(* q is p or lies below p *)
Definition withinb (p q : string) : bool :=
  String.eqb q p || has_prefix (p ++ "/") q.

(* p is a proper ancestor directory of q (p clean, rooted) *)
Definition ancestorb (p q : string) : bool :=
  if String.eqb p "/" then is_abs q && negb (String.eqb q "/")
  else has_prefix (p ++ "/") q.

(* filepath.Base of a clean rooted path other than "/" : the last component *)
Definition base_name (s : string) : string := last (split_slash s) "".

(* strings.CutPrefix *)
Definition cut_prefix (p s : string) : option string :=
  if has_prefix p s then Some (drop (String.length p) s) else None.

(* ------------------------------------------------------------------ *)
(* lemmas                                                              *)

Lemma string_eqb_refl s : String.eqb s s = true.
Proof. apply String.eqb_eq. reflexivity. Qed.

Lemma append_nil_r (s : string) : s ++ "" = s.
Proof. induction s as [|a s IH]; cbn; [reflexivity | now rewrite IH]. Qed.

Lemma append_assoc (a b c : string) : (a ++ b) ++ c = a ++ (b ++ c).
Proof. induction a as [|x a IH]; cbn; [reflexivity | now rewrite IH]. Qed.

Lemma split_slash_nonnil s : split_slash s <> [].
Proof.
  destruct s as [|a s]; cbn; [discriminate|].
  destruct (Ascii.eqb a slash); [discriminate|].
  destruct (split_slash s); discriminate.
Qed.

(* splitting a concatenation at an explicit separator *)
Lemma split_slash_app a b :
  split_slash (a ++ String slash b) = (split_slash a ++ split_slash b)%list.
Proof.
  induction a as [|x a IH]; cbn.
  - reflexivity.
  - destruct (Ascii.eqb x slash); cbn.
    + now rewrite IH.
    + rewrite IH. destruct (split_slash a) as [|h t] eqn:E.
      * exfalso. eapply split_slash_nonnil; eauto.
      * reflexivity.
Qed.

Lemma split_slash_no_slash s : contains_byte slash s = false -> split_slash s = [s].
Proof.
  induction s as [|a s IH]; cbn; [reflexivity|].
  intros H. apply orb_false_iff in H as [Ha Hs].
  rewrite Ha, (IH Hs). reflexivity.
Qed.

Lemma split_slash_pieces s : Forall (fun c => contains_byte slash c = false) (split_slash s).
Proof.
  induction s as [|a s IH]; cbn.
  - constructor; [reflexivity | constructor].
  - destruct (Ascii.eqb a slash) eqn:E.
    + constructor; [reflexivity | exact IH].
    + destruct (split_slash s) as [|h t]; [constructor; [cbn; now rewrite E | constructor]|].
      inversion IH as [|? ? Hh Ht]; subst. constructor; [cbn; now rewrite E | exact Ht].
Qed.

Lemma contains_byte_app c a b :
  contains_byte c (a ++ b) = contains_byte c a || contains_byte c b.
Proof. induction a as [|x a IH]; cbn; [reflexivity | now rewrite IH, orb_assoc]. Qed.

Lemma has_prefix_app p s : has_prefix p (p ++ s) = true.
Proof.
  induction p as [|a p IH]; cbn; [reflexivity|].
  rewrite IH, andb_true_r. apply Ascii.eqb_eq. reflexivity.
Qed.

Lemma has_prefix_spec p s : has_prefix p s = true <-> exists t, s = p ++ t.
Proof.
  revert s. induction p as [|a p IH]; intros s; cbn.
  - split; [intros _; now exists s | reflexivity].
  - destruct s as [|b s]; [split; [discriminate | intros [t Ht]; discriminate]|].
    rewrite andb_true_iff, Ascii.eqb_eq, IH. split.
    + intros [-> [t ->]]. now exists t.
    + intros [t Ht]. inversion Ht; subst. split; [reflexivity | now exists t].
Qed.

Lemma has_prefix_trans p q s :
  has_prefix p q = true -> has_prefix q s = true -> has_prefix p s = true.
Proof.
  rewrite !has_prefix_spec. intros [t ->] [u ->]. exists (t ++ u). apply append_assoc.
Qed.

(* --- plain components --- *)

Lemma plainb_spec c : plainb c = true <-> single_component c.
Proof.
  unfold plainb, single_component, no_slash.
  rewrite !andb_true_iff, !negb_true_iff.
  rewrite <- !String.eqb_neq. tauto.
Qed.

Lemma single_componentb_spec n : single_componentb n = true <-> single_component n.
Proof. apply plainb_spec. Qed.

Lemma clean_step_plain r st c : plainb c = true -> clean_step r st c = c :: st.
Proof.
  unfold plainb, clean_step. rewrite !andb_true_iff, !negb_true_iff.
  intros [[[H1 H2] H3] _]. now rewrite H1, H2, H3.
Qed.

Lemma clean_stack_plain r cs : forall st,
  Forall (fun c => plainb c = true) cs -> clean_stack r cs st = (rev cs ++ st)%list.
Proof.
  unfold clean_stack. induction cs as [|c cs IH]; intros st H; cbn; [reflexivity|].
  inversion H as [|? ? Hc Hcs]; subst.
  rewrite (clean_step_plain _ _ _ Hc), (IH _ Hcs), <- app_assoc. reflexivity.
Qed.

(* rooted cleaning keeps only plain components on the stack *)
Lemma clean_step_rooted_inv st c :
  contains_byte slash c = false ->
  Forall (fun x => plainb x = true) st ->
  Forall (fun x => plainb x = true) (clean_step true st c).
Proof.
  intros Hc Hst. unfold clean_step.
  destruct (String.eqb c "") eqn:E1; cbn; [exact Hst|].
  destruct (String.eqb c ".") eqn:E2; cbn; [exact Hst|].
  destruct (String.eqb c "..") eqn:E3.
  - destruct st as [|top rest]; [constructor|].
    inversion Hst as [|? ? Ht Hr]; subst.
    destruct (String.eqb top "..") eqn:E4.
    + exfalso. unfold plainb in Ht. rewrite E4 in Ht. cbn in Ht.
      rewrite andb_false_r in Ht. discriminate.
    + exact Hr.
  - constructor; [|exact Hst]. unfold plainb, no_slash. now rewrite E1, E2, E3, Hc.
Qed.

Lemma clean_stack_rooted_inv cs : forall st,
  Forall (fun c => contains_byte slash c = false) cs ->
  Forall (fun x => plainb x = true) st ->
  Forall (fun x => plainb x = true) (clean_stack true cs st).
Proof.
  unfold clean_stack. induction cs as [|c cs IH]; intros st Hcs Hst; cbn; [exact Hst|].
  inversion Hcs as [|? ? Hc Hcs']; subst.
  apply IH; [exact Hcs' | now apply clean_step_rooted_inv].
Qed.

Lemma clean_stack_app r a b st :
  clean_stack r (a ++ b)%list st = clean_stack r b (clean_stack r a st).
Proof. unfold clean_stack. apply fold_left_app. Qed.

(* --- rendering and re-splitting --- *)

Lemma join_slash_snoc l x :
  join_slash (l ++ [x])%list = match l with [] => x | _ => join_slash l ++ "/" ++ x end.
Proof.
  induction l as [|a l IH]; [reflexivity|].
  destruct l as [|b l]; [reflexivity|].
  change (join_slash ((a :: b :: l) ++ [x])%list) with (a ++ "/" ++ join_slash ((b :: l) ++ [x])%list).
  rewrite IH. change (join_slash (a :: b :: l)) with (a ++ "/" ++ join_slash (b :: l)).
  rewrite !append_assoc. reflexivity.
Qed.

Lemma split_join_plain l :
  l <> [] -> Forall (fun c => contains_byte slash c = false) l ->
  split_slash (join_slash l) = l.
Proof.
  induction l as [|a l IH]; [congruence|]. intros _ H.
  inversion H as [|? ? Ha Hl]; subst.
  destruct l as [|b l].
  - cbn. now apply split_slash_no_slash.
  - change (join_slash (a :: b :: l)) with (a ++ String slash (join_slash (b :: l))).
    rewrite split_slash_app, (split_slash_no_slash _ Ha), IH; [reflexivity | discriminate | exact Hl].
Qed.

Lemma plainb_no_slash c : plainb c = true -> contains_byte slash c = false.
Proof. unfold plainb, no_slash. rewrite !andb_true_iff, !negb_true_iff. tauto. Qed.

Lemma plainb_nonempty c : plainb c = true -> String.eqb c "" = false.
Proof. unfold plainb. rewrite !andb_true_iff, !negb_true_iff. tauto. Qed.

Lemma filter_nonempty_plain l :
  Forall (fun x => plainb x = true) l ->
  filter (fun c => negb (String.eqb c "")) l = l.
Proof.
  induction 1 as [|x l Hx Hl IH]; cbn; [reflexivity|].
  now rewrite (plainb_nonempty _ Hx), IH.
Qed.

(* the components of a rendered rooted path are the components it was rendered from *)
Lemma comps_of_render l :
  Forall (fun x => plainb x = true) l -> comps_of (render true l) = l.
Proof.
  intros H. unfold comps_of, render.
  change ("/" ++ join_slash l) with ("" ++ String slash (join_slash l)).
  rewrite split_slash_app. cbn [split_slash app filter String.eqb negb].
  destruct l as [|a l]; [reflexivity|].
  rewrite split_join_plain; [now apply filter_nonempty_plain | discriminate |].
  eapply Forall_impl; [|exact H]. intros x. apply plainb_no_slash.
Qed.

Lemma is_abs_app a b : is_abs a = true -> is_abs (a ++ b) = true.
Proof. destruct a; [discriminate | cbn; auto]. Qed.

Lemma is_abs_nonempty a : is_abs a = true -> a <> "".
Proof. destruct a; [discriminate | discriminate]. Qed.

Lemma clean_abs s :
  is_abs s = true -> clean s = render true (rev (clean_stack true (split_slash s) [])).
Proof. intros H. unfold clean. destruct s; [discriminate|]. now rewrite H. Qed.

(* components of the cleaned plugin root, as a stack *)
Definition root_stack (root : string) : list string := clean_stack true (split_slash root) [].

Lemma root_stack_plain root : Forall (fun x => plainb x = true) (root_stack root).
Proof. apply clean_stack_rooted_inv; [apply split_slash_pieces | constructor]. Qed.

Lemma comps_of_clean_root root :
  is_abs root = true -> comps_of (clean root) = rev (root_stack root).
Proof.
  intros H. rewrite (clean_abs _ H). apply comps_of_render.
  apply Forall_rev, root_stack_plain.
Qed.

(* filepath.Join(root, rel) for a rooted root: the components of rel are
   processed on top of the stack of root *)
Lemma pjoin_root root rel :
  is_abs root = true ->
  pjoin [root; rel] = render true (rev (clean_stack true (split_slash rel) (root_stack root))).
Proof.
  intros H. unfold pjoin. destruct root as [|a r]; [discriminate|].
  cbn [drop_empty join_slash].
  change (String a r ++ "/" ++ rel) with (String a r ++ String slash rel).
  rewrite clean_abs by (apply is_abs_app; exact H).
  rewrite split_slash_app, clean_stack_app. reflexivity.
Qed.

Lemma comps_of_pjoin_root root rel :
  is_abs root = true ->
  comps_of (pjoin [root; rel]) = rev (clean_stack true (split_slash rel) (root_stack root)).
Proof.
  intros H. rewrite (pjoin_root _ _ H). apply comps_of_render. apply Forall_rev.
  apply clean_stack_rooted_inv; [apply split_slash_pieces | apply root_stack_plain].
Qed.

(* C16_characterise, component form *)
Lemma characterise root name :
  is_abs root = true ->
  (comps_of (pjoin [root; name]) = (comps_of (clean root) ++ [name])%list <-> single_component name).
Proof.
  intros H. rewrite (comps_of_pjoin_root _ _ H), (comps_of_clean_root _ H). split.
  - intros E. apply plainb_spec.
    assert (Hall : Forall (fun x => plainb x = true)
                     (rev (clean_stack true (split_slash name) (root_stack root)))).
    { apply Forall_rev, clean_stack_rooted_inv; [apply split_slash_pieces | apply root_stack_plain]. }
    rewrite E in Hall. apply Forall_app in Hall as [_ Hn]. now inversion Hn.
  - intros Hs. apply plainb_spec in Hs.
    rewrite (split_slash_no_slash _ (plainb_no_slash _ Hs)).
    unfold clean_stack. cbn [fold_left]. rewrite (clean_step_plain _ _ _ Hs). reflexivity.
Qed.

Lemma join_slash_plain_nonempty l :
  l <> [] -> Forall (fun x => plainb x = true) l -> join_slash l <> "".
Proof.
  destruct l as [|a l]; [congruence|]. intros _ H. inversion H as [|? ? Ha _]; subst.
  apply plainb_nonempty in Ha. destruct a; [discriminate|].
  destruct l; cbn; discriminate.
Qed.

(* string form: rendering one more component is child_path *)
Lemma render_snoc l x :
  Forall (fun c => plainb c = true) l ->
  render true (l ++ [x])%list = child_path (render true l) x.
Proof.
  intros H. unfold render, child_path. rewrite join_slash_snoc.
  destruct l as [|a l]; [reflexivity|].
  assert (N : join_slash (a :: l) <> "") by (apply join_slash_plain_nonempty; [discriminate | exact H]).
  destruct (join_slash (a :: l)) as [|c s] eqn:E; [congruence|].
  cbn. reflexivity.
Qed.

Lemma pjoin_root_plain root cs :
  is_abs root = true -> cs <> [] -> Forall (fun c => plainb c = true) cs ->
  pjoin [root; join_slash cs] = render true (rev (root_stack root) ++ cs)%list.
Proof.
  intros H N P. rewrite (pjoin_root _ _ H). rewrite split_join_plain; [|exact N|].
  - rewrite (clean_stack_plain _ _ _ P), rev_app_distr, rev_involutive. reflexivity.
  - eapply Forall_impl; [|exact P]. intros x. apply plainb_no_slash.
Qed.

(* the directory of a single-component name is the direct child of the clean root *)
Lemma pjoin_single root name :
  is_abs root = true -> plainb name = true ->
  pjoin [root; name] = child_path (clean root) name.
Proof.
  intros H P. change name with (join_slash [name]) at 1.
  rewrite pjoin_root_plain; [|exact H|discriminate|now constructor].
  rewrite render_snoc by (apply Forall_rev, root_stack_plain).
  rewrite (clean_abs _ H). reflexivity.
Qed.

Lemma plainb_prefixed p name :
  plainb p = true -> contains_byte slash name = false -> plainb (p ++ name) = true.
Proof.
  intros Hp Hn. unfold plainb, no_slash. rewrite contains_byte_app, Hn, (plainb_no_slash _ Hp).
  destruct p as [|a p]; [discriminate|]. cbn.
  unfold plainb in Hp. cbn in Hp.
  destruct (Ascii.eqb a "."%char) eqn:E; [|reflexivity].
  destruct p as [|b p]; [cbn in Hp; discriminate|]. cbn.
  destruct (Ascii.eqb b "."%char) eqn:E2; [|reflexivity].
  destruct p as [|c p]; [cbn in Hp; rewrite E2 in Hp; cbn in Hp; discriminate|]. reflexivity.
Qed.

(* relative join of two plain components: path.Join(name, "notation-"+name) *)
Lemma clean_rel s :
  s <> "" -> is_abs s = false ->
  clean s = render false (rev (clean_stack false (split_slash s) [])).
Proof. destruct s; [congruence|]. intros _ H. unfold clean. now rewrite H. Qed.

Lemma pjoin_rel2 a b :
  plainb a = true -> plainb b = true -> pjoin [a; b] = a ++ "/" ++ b.
Proof.
  intros Ha Hb. unfold pjoin.
  destruct a as [|x a']; [discriminate|]. cbn [drop_empty join_slash].
  set (a := String x a') in *.
  assert (Hrel : is_abs (a ++ "/" ++ b) = false).
  { unfold a. cbn. apply plainb_no_slash in Ha. cbn in Ha. apply orb_false_iff in Ha. tauto. }
  rewrite clean_rel; [|unfold a; discriminate|exact Hrel].
  change (a ++ "/" ++ b) with (a ++ String slash b).
  rewrite split_slash_app, (split_slash_no_slash _ (plainb_no_slash _ Ha)),
          (split_slash_no_slash _ (plainb_no_slash _ Hb)).
  cbn [app]. rewrite (clean_stack_plain false [a; b] []) by (repeat constructor; assumption).
  reflexivity.
Qed.

Lemma withinb_refl p : withinb p p = true.
Proof. unfold withinb. now rewrite string_eqb_refl. Qed.

Lemma withinb_child p n : p <> "/" -> withinb p (child_path p n) = true.
Proof.
  intros N. unfold withinb, child_path.
  destruct (String.eqb p "/") eqn:E; [apply String.eqb_eq in E; congruence|].
  change (p ++ "/" ++ n) with (p ++ ("/" ++ n)). rewrite <- append_assoc.
  rewrite has_prefix_app. apply orb_true_r.
Qed.

Lemma withinb_trans p q s : withinb p q = true -> withinb q s = true -> withinb p s = true.
Proof.
  unfold withinb. rewrite !orb_true_iff, !String.eqb_eq. intros [->|Hpq] [->|Hqs]; auto.
  right. apply has_prefix_spec in Hpq as [t Ht]. subst q.
  eapply has_prefix_trans; [|exact Hqs].
  rewrite (append_assoc (p ++ "/") t "/"). apply has_prefix_app.
Qed.
