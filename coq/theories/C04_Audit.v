(* C04_Audit.v — theorems added by the theorem audit (docs/audit/C04.md).
   Definitions used in the statements first, then lemmas and proofs. No axioms.

     1. the clause "authenticity passes only if ..." at the level of the
        observation of verifier.Verify (model), natively and with a plugin
     2. what a policy accepted by NewVerifier looks like (lone wildcard,
        every identity interpretable)
     3. the verdict is a function of the INTERPRETATIONS only (any text, any
        order / repetition of the identities, foreign identities anywhere)
     4. subsets pass, supersets and near misses do not (abstract DNs)
     5. pkix.ParseDistinguishedName in terms of the attributes AS WRITTEN
        (the RDNs go-ldap returns): multi-valued, duplicate, mandatory rules;
        the clause "every attribute of that identity" read on the written
        attributes (refuted in general: an empty-valued earlier duplicate is
        dropped; proved for every attribute with a non-empty value) *)
From NV Require Import Base C04_DN C04_Model C04_RoundTrip C04_Proofs.
From Coq Require Import Permutation.
Open Scope string_scope.
Open Scope list_scope.

(* ====================================================================== *)
(* definitions used in the statements                                      *)
(* ====================================================================== *)

(* the right-hand side of C04_match: the leaf subject can be interpreted, every
   listed identity can be interpreted, and every attribute of some
   x509.subject identity occurs with an equal value in the leaf subject *)
Definition pinned_match (ids : list string) (leaf : string) : Prop :=
  exists m, parse_distinguished_name leaf = DOk m /\
            (forall id, In id ids -> interpretable id) /\
            exists id v i, In id ids /\ x509_value id = Some v /\
                           parse_distinguished_name v = DOk i /\ within i m.

(* the attributes of a name as written, in order, the alias S resolved
   (None: go-ldap's ParseDN rejects the text) *)
Definition written_attrs (s : string) : option (list attr) :=
  match parse_dn s with
  | POk rdns => Some (map canon_attr (List.concat rdns))
  | _ => None
  end.

(* the value of the last attribute of type k *)
Definition last_value (k : string) (atts : list attr) : option string := lookup k (rev atts).

(* an attribute type written several times: every occurrence but the last has
   an empty value (the duplicate rule of pkix.go AS CODED) *)
Definition earlier_empty (atts : list attr) : Prop :=
  forall l1 k v l2, atts = l1 ++ (k, v) :: l2 -> In k (map fst l2) -> v = "".

(* ====================================================================== *)
(* 1. the clause at the level of Verify                                    *)
(* ====================================================================== *)

Lemma verify_pass_iff : forall ids leaf rest,
  verify_identities ids (leaf :: rest) = VPass <-> mem_str wildcard ids = true \/ pinned_match ids leaf.
Proof.
  intros ids leaf rest. destruct (mem_str wildcard ids) eqn:W.
  - split; [now left|]. intros _. now apply wildcard_accepts.
  - rewrite (match_iff ids leaf rest W). unfold pinned_match. split; [now right|].
    intros [H|H]; [discriminate|exact H].
Qed.

Lemma verify_obs_pass : forall log ids chain rej,
  verify_obs log ids chain = OVerify VPass rej <-> verify_identities ids chain = VPass /\ rej = false.
Proof.
  intros log ids chain rej. unfold verify_obs. split.
  - intros H. inversion H as [[Hv Hr]]. rewrite Hv. cbn [is_pass negb]. rewrite andb_false_r. auto.
  - intros [Hv ->]. rewrite Hv. cbn [is_pass negb]. now rewrite andb_false_r.
Qed.

(* Verify reports the authenticity result "passed" exactly when the policy was
   accepted (or set after construction), the signature is not rejected, and
   either the wildcard is listed or the leaf matches *)
Theorem model_pass_iff : forall late log ids leaf rest rej,
  model (IVerify late log ids (leaf :: rest)) = OVerify VPass rej <->
  (late = true \/ validate_ids ids = WOk) /\ rej = false /\
  (mem_str wildcard ids = true \/ pinned_match ids leaf).
Proof.
  intros late log ids leaf rest rej. cbn [model]. destruct late.
  - rewrite verify_obs_pass, verify_pass_iff. intuition.
  - destruct (validate_ids ids) eqn:V;
      try (split; [discriminate | intros [[H|H] _]; discriminate H]).
    rewrite verify_obs_pass, verify_pass_iff. intuition.
Qed.

Theorem plugin_pass_iff : forall ti rv pok log ids leaf rest rej,
  model (IPlugin ti rv pok log ids (leaf :: rest)) = OVerify VPass rej <->
  validate_ids ids = WOk /\ rej = false /\
  (if ti then pok = true else (mem_str wildcard ids = true \/ pinned_match ids leaf)).
Proof.
  intros ti rv pok log ids leaf rest rej. cbn [model].
  destruct (validate_ids ids) eqn:V;
    try (split; [discriminate | intros [H _]; discriminate H]).
  destruct ti.
  - destruct pok; cbn [is_pass negb].
    + rewrite andb_false_r. split.
      * intros H. inversion H. auto.
      * intros (_ & -> & _). reflexivity.
    + split; [discriminate|]. intros (_ & _ & H). discriminate H.
  - rewrite verify_obs_pass, verify_pass_iff. intuition.
Qed.

(* ====================================================================== *)
(* 2. policies accepted by NewVerifier                                     *)
(* ====================================================================== *)

Theorem validated_wildcard_lone : forall ids,
  validate_ids ids = WOk -> mem_str wildcard ids = true -> ids = [wildcard].
Proof.
  intros ids V W. unfold validate_ids in V. destruct ids as [|x [|y r]]; cbn [is_nil] in V.
  - discriminate.
  - unfold mem_str in W. cbn [existsb] in W. rewrite orb_false_r in W. apply String.eqb_eq in W. now subst.
  - rewrite W in V. cbn [List.length Nat.ltb Nat.leb andb] in V. discriminate.
Qed.

Lemma validate_loop_ok : forall ids dns, validate_loop ids = inr dns ->
  forall id, In id ids -> id = wildcard \/ (id <> "" /\ identity_ok id = true).
Proof.
  induction ids as [|x ids IH]; intros dns H id Hin; [destruct Hin|].
  cbn [validate_loop] in H.
  destruct (String.eqb x "") eqn:E0; [discriminate|].
  destruct (String.eqb x wildcard) eqn:Ew.
  - destruct Hin as [<-|Hin]; [left; now apply String.eqb_eq|eauto].
  - assert (Hx : identity_ok x = true /\ exists dns', validate_loop ids = inr dns').
    { unfold identity_ok. destruct (cut_byte colon x) as [[p v]|]; [|discriminate].
      destruct (String.eqb p x509_subject).
      - destruct (String.eqb v ""); [discriminate|].
        destruct (parse_distinguished_name v); [|discriminate].
        destruct (validate_loop ids); [discriminate|]. split; [reflexivity|eauto].
      - split; [reflexivity|eauto]. }
    destruct Hx as [Hx [dns' Hd]].
    destruct Hin as [<-|Hin]; [|eauto].
    right. split; [|assumption]. intros ->. discriminate.
Qed.

Lemma validate_loop_not_ok : forall ids, validate_loop ids <> inl WOk.
Proof.
  induction ids as [|x ids IH]; [discriminate|]. cbn [validate_loop].
  destruct (String.eqb x ""); [discriminate|].
  destruct (String.eqb x wildcard); [assumption|].
  destruct (cut_byte colon x) as [[p v]|]; [|discriminate].
  destruct (String.eqb p x509_subject); [|assumption].
  destruct (String.eqb v ""); [discriminate|].
  destruct (parse_distinguished_name v); [|discriminate].
  destruct (validate_loop ids) as [w|l]; [|discriminate]. intros H. apply IH. congruence.
Qed.

Theorem validated_interpretable : forall ids, validate_ids ids = WOk ->
  ids <> [] /\ forall id, In id ids -> id = wildcard \/ (id <> "" /\ interpretable id).
Proof.
  intros ids V. unfold validate_ids in V. split.
  - intros ->. discriminate.
  - destruct (is_nil ids); [discriminate|].
    destruct ((1 <? List.length ids)%nat && mem_str wildcard ids); [discriminate|].
    destruct (validate_loop ids) as [w|dns] eqn:L; [subst; now elim (validate_loop_not_ok ids)|].
    intros id Hin. destruct (validate_loop_ok _ _ L id Hin) as [H|[H1 H2]]; [now left|].
    right. split; [assumption|]. now apply identity_ok_spec.
Qed.

Lemma interpretable_not_wildcard : forall id, interpretable id -> String.eqb wildcard id = false.
Proof.
  intros id (p & v & H & _). destruct (String.eqb wildcard id) eqn:E; [|reflexivity].
  apply String.eqb_eq in E. subst id. discriminate.
Qed.

Lemma all_interpretable_no_wildcard : forall ids,
  (forall id, In id ids -> interpretable id) -> mem_str wildcard ids = false.
Proof.
  induction ids as [|x ids IH]; intros H; [reflexivity|]. unfold mem_str. cbn [existsb].
  rewrite (interpretable_not_wildcard x) by (apply H; now left). cbn [orb].
  apply IH. intros id Hin. apply H. now right.
Qed.

Lemma collect_all_ok : forall ids, (forall id, In id ids -> interpretable id) ->
  collect_ids ids = inr (x509_maps ids).
Proof.
  intros ids H. assert (F : forallb identity_ok ids = true).
  { apply forallb_forall. intros id Hin. apply identity_ok_spec. auto. }
  destruct (collect_ids ids) as [e|maps] eqn:C.
  - destruct (collect_inl _ _ C) as [H1 _]. congruence.
  - destruct (collect_inr _ _ C) as [_ ->]. reflexivity.
Qed.

(* the complete result (error class included) when every identity can be interpreted *)
Theorem verdict_interpretable : forall ids leaf rest,
  (forall id, In id ids -> interpretable id) ->
  verify_identities ids (leaf :: rest) =
  match x509_maps ids with
  | [] => VNoX509
  | _ :: _ =>
      match parse_distinguished_name leaf with
      | DErr e => VBadLeaf e
      | DOk m => if existsb (fun i => is_subset_dn i m) (x509_maps ids) then VPass else VNoMatch
      end
  end.
Proof.
  intros ids leaf rest H. unfold verify_identities.
  rewrite (all_interpretable_no_wildcard _ H), (collect_all_ok _ H).
  destruct (x509_maps ids); reflexivity.
Qed.

(* under a policy accepted by NewVerifier the identity check never ends in an
   identity error: the lone wildcard passes, otherwise the result is the
   complete verdict above *)
Theorem validated_verdict : forall ids leaf rest, validate_ids ids = WOk ->
  (ids = [wildcard] /\ verify_identities ids (leaf :: rest) = VPass) \/
  (mem_str wildcard ids = false /\ (forall id, In id ids -> interpretable id) /\
   verify_identities ids (leaf :: rest) =
   match x509_maps ids with
   | [] => VNoX509
   | _ :: _ =>
       match parse_distinguished_name leaf with
       | DErr e => VBadLeaf e
       | DOk m => if existsb (fun i => is_subset_dn i m) (x509_maps ids) then VPass else VNoMatch
       end
   end).
Proof.
  intros ids leaf rest V. destruct (mem_str wildcard ids) eqn:W.
  - left. split; [now apply validated_wildcard_lone|]. now apply wildcard_accepts.
  - right. destruct (validated_interpretable ids V) as [_ H].
    assert (HI : forall id, In id ids -> interpretable id).
    { intros id Hin. destruct (H id Hin) as [->|[_ Hi]]; [|assumption].
      exfalso. unfold mem_str in W. assert (X : existsb (String.eqb wildcard) ids = true).
      { apply existsb_exists. exists wildcard. split; [assumption|apply String.eqb_refl]. }
      congruence. }
    split; [reflexivity|]. split; [assumption|]. now apply verdict_interpretable.
Qed.

(* ====================================================================== *)
(* 3. the verdict is a function of the interpretations                     *)
(* ====================================================================== *)

Lemma within_same : forall i j m1 m2, same_attrs i j -> same_attrs m1 m2 -> within i m1 -> within j m2.
Proof.
  intros i j m1 m2 Hi Hm H k v Hl. rewrite <- Hm. apply H. now rewrite Hi.
Qed.

Lemma same_attrs_sym : forall a b, same_attrs a b -> same_attrs b a.
Proof. intros a b H k. symmetry. apply H. Qed.

Lemma existsb_within : forall maps m,
  existsb (fun i => is_subset_dn i m) maps = true <-> exists i, In i maps /\ within i m.
Proof.
  intros maps m. rewrite existsb_exists. split; intros [i [Hin H]]; exists i; split; try assumption;
    now apply is_subset_dn_spec.
Qed.

Theorem verdict_by_reading : forall ids1 ids2 leaf1 leaf2 rest1 rest2 m1 m2,
  (forall id, In id ids1 -> interpretable id) -> (forall id, In id ids2 -> interpretable id) ->
  (forall i, In i (x509_maps ids1) -> exists j, In j (x509_maps ids2) /\ same_attrs i j) ->
  (forall j, In j (x509_maps ids2) -> exists i, In i (x509_maps ids1) /\ same_attrs i j) ->
  parse_distinguished_name leaf1 = DOk m1 -> parse_distinguished_name leaf2 = DOk m2 ->
  same_attrs m1 m2 ->
  verify_identities ids1 (leaf1 :: rest1) = verify_identities ids2 (leaf2 :: rest2).
Proof.
  intros ids1 ids2 leaf1 leaf2 rest1 rest2 m1 m2 H1 H2 F12 F21 L1 L2 Hm.
  rewrite !verdict_interpretable by assumption. rewrite L1, L2.
  assert (E : existsb (fun i => is_subset_dn i m1) (x509_maps ids1)
              = existsb (fun i => is_subset_dn i m2) (x509_maps ids2)).
  { apply bool_eq_iff. rewrite !existsb_within. split.
    - intros [i [Hin Hw]]. destruct (F12 i Hin) as [j [Hj Hs]]. exists j. split; [assumption|].
      eapply within_same; eauto.
    - intros [j [Hin Hw]]. destruct (F21 j Hin) as [i [Hi Hs]]. exists i. split; [assumption|].
      eapply within_same; [apply same_attrs_sym; exact Hs|apply same_attrs_sym; exact Hm|assumption]. }
  destruct (x509_maps ids1) as [|a1 r1] eqn:X1; destruct (x509_maps ids2) as [|a2 r2] eqn:X2.
  - reflexivity.
  - destruct (F21 a2 (or_introl eq_refl)) as [i [[] _]].
  - destruct (F12 a1 (or_introl eq_refl)) as [j [[] _]].
  - now rewrite E.
Qed.

(* ====================================================================== *)
(* 4. subsets pass, supersets and near misses do not                       *)
(* ====================================================================== *)

Lemma subset_decl_incl : forall a b : list attr, subset_decl a b = true <-> incl a b.
Proof.
  intros a b. rewrite subset_decl_In. unfold incl. split.
  - intros H [k v]. apply H.
  - intros H k v. apply H.
Qed.

Theorem abstract_pass_iff : forall ds l rest,
  Forall (fun d => styled_wf d = true) ds -> styled_wf l = true ->
  (verify_identities (map id_of ds) (render l :: rest) = VPass <->
   exists d, In d ds /\ incl (map snd d) (map snd l)) /\
  (verify_identities (map id_of ds) (render l :: rest) = VNoMatch <->
   ds <> [] /\ forall d, In d ds -> ~ incl (map snd d) (map snd l)).
Proof.
  intros ds l rest Hds Hl. rewrite (abstract_verdict ds l rest Hds Hl).
  destruct ds as [|d0 ds'].
  - split; split; try discriminate.
    + intros [d [[] _]].
    + intros [H _]. now elim H.
  - set (ds := d0 :: ds') in *.
    destruct (existsb (fun d => subset_decl (map snd d) (map snd l)) ds) eqn:E.
    + apply existsb_exists in E. destruct E as [d [Hin E]]. apply subset_decl_incl in E.
      split; split.
      * intros _. eauto.
      * reflexivity.
      * discriminate.
      * intros [_ H]. exfalso. eapply H; eauto.
    + assert (N : forall d, In d ds -> ~ incl (map snd d) (map snd l)).
      { intros d Hin Hi. apply subset_decl_incl in Hi.
        assert (X : existsb (fun d => subset_decl (map snd d) (map snd l)) ds = true)
          by (apply existsb_exists; eauto). congruence. }
      split; split.
      * discriminate.
      * intros [d [Hin Hi]]. exfalso. eapply N; eauto.
      * intros _. split; [discriminate|exact N].
      * reflexivity.
Qed.

(* ====================================================================== *)
(* 5. ParseDistinguishedName on the attributes as written                  *)
(* ====================================================================== *)

Fixpoint add_plain (atts : list attr) (m : amap) : dnres :=
  match atts with
  | [] => DOk m
  | (k, v) :: rest =>
      if String.eqb (lookup_default k m) "" then add_plain rest (set_key k v m) else DErr (EDup k)
  end.

Lemma add_attrs_plain : forall atts m, add_attrs atts m = add_plain (map canon_attr atts) m.
Proof.
  induction atts as [|[t v] atts IH]; intros m; [reflexivity|].
  cbn [add_attrs map canon_attr add_plain fst snd].
  destruct (String.eqb (lookup_default (canon_type t) m) ""); [apply IH|reflexivity].
Qed.

Lemma add_rdns_single_valued : forall rdns m m', add_rdns rdns m = DOk m' ->
  Forall (fun rdn => (List.length rdn <= 1)%nat) rdns.
Proof.
  induction rdns as [|rdn rdns IH]; intros m m' H; [constructor|].
  cbn [add_rdns] in H. destruct (1 <? List.length rdn)%nat eqn:E; [discriminate|].
  apply Nat.ltb_ge in E. destruct (add_attrs rdn m) as [m1|e]; [|discriminate].
  constructor; [assumption|eauto].
Qed.

Lemma add_rdns_flat : forall rdns m, Forall (fun rdn => (List.length rdn <= 1)%nat) rdns ->
  add_rdns rdns m = add_attrs (List.concat rdns) m.
Proof.
  induction rdns as [|rdn rdns IH]; intros m H; [reflexivity|].
  inversion H as [|? ? H1 H2]. subst. cbn [add_rdns List.concat].
  destruct rdn as [|[t v] [|y r]].
  - cbn. now apply IH.
  - cbn [List.length Nat.ltb Nat.leb app add_attrs].
    destruct (String.eqb (lookup_default (canon_type t) m) ""); [now apply IH|reflexivity].
  - cbn in H1. lia.
Qed.

Lemma add_rdns_multi : forall rdns, Exists (fun rdn => (1 < List.length rdn)%nat) rdns ->
  forall m, exists e, add_rdns rdns m = DErr e.
Proof.
  induction 1 as [rdn rdns H|rdn rdns H IH]; intros m; cbn [add_rdns].
  - apply Nat.ltb_lt in H. rewrite H. eauto.
  - destruct (1 <? List.length rdn)%nat; [eauto|].
    destruct (add_attrs rdn m); [apply IH|eauto].
Qed.

Lemma lookup_app : forall k (a b : amap),
  lookup k (a ++ b) = match lookup k a with Some v => Some v | None => lookup k b end.
Proof.
  intros k a b. induction a as [|[k' v'] a IH]; [reflexivity|]. cbn.
  destruct (String.eqb k k'); [reflexivity|assumption].
Qed.

Lemma lookup_remove_other : forall k k' (m : amap), String.eqb k' k = false ->
  lookup k' (remove_key k m) = lookup k' m.
Proof.
  intros k k' m H. induction m as [|[k2 v2] m IH]; [reflexivity|]. cbn.
  destruct (String.eqb k k2) eqn:E.
  - apply String.eqb_eq in E. subst k2. rewrite H. assumption.
  - cbn. rewrite IH. reflexivity.
Qed.

Lemma lookup_set_key : forall k v k' (m : amap), lookup k' (set_key k v m) = lookup k' ((k, v) :: m).
Proof.
  intros k v k' m. unfold set_key. cbn. destruct (String.eqb k' k) eqn:E; [reflexivity|].
  now apply lookup_remove_other.
Qed.

(* two maps that answer every look-up alike *)
Lemma lookup_app_ext : forall (a m m' : amap), (forall k, lookup k m = lookup k m') ->
  forall k, lookup k (a ++ m) = lookup k (a ++ m').
Proof. intros a m m' H k. rewrite !lookup_app. now rewrite H. Qed.

Lemma add_plain_result : forall atts m m', add_plain atts m = DOk m' ->
  forall k, lookup k m' = lookup k (rev atts ++ m).
Proof.
  induction atts as [|[k0 v0] atts IH]; intros m m' H k.
  - inversion H. reflexivity.
  - cbn [add_plain] in H. destruct (String.eqb (lookup_default k0 m) ""); [|discriminate].
    rewrite (IH _ _ H k). cbn [rev]. rewrite <- app_assoc. cbn [app].
    apply lookup_app_ext. intros k'. apply lookup_set_key.
Qed.

(* the duplicate rule as coded: when an attribute of type k is met, the most
   recent earlier value of that type (if any) is empty *)
Definition latest_empty (atts : list attr) (m : amap) : Prop :=
  forall l1 k v l2, atts = l1 ++ (k, v) :: l2 -> lookup_default k (rev l1 ++ m) = "".

Lemma add_plain_ok : forall atts m, (exists m', add_plain atts m = DOk m') <-> latest_empty atts m.
Proof.
  induction atts as [|[k0 v0] atts IH]; intros m.
  - split; [|eexists; reflexivity]. intros _ l1 k v l2 H. destruct l1; discriminate.
  - cbn [add_plain]. split.
    + intros [m' H]. destruct (String.eqb (lookup_default k0 m) "") eqn:E; [|discriminate].
      assert (L : latest_empty atts (set_key k0 v0 m)) by (apply IH; eauto).
      intros l1 k v l2 Hs. destruct l1 as [|a l1].
      * inversion Hs. subst. cbn. now apply String.eqb_eq.
      * inversion Hs. subst a atts. specialize (L l1 k v l2 eq_refl).
        cbn [rev]. rewrite <- app_assoc. cbn [app]. unfold lookup_default in *.
        rewrite (lookup_app_ext (rev l1) ((k0, v0) :: m) (set_key k0 v0 m)); [exact L|].
        intros k'. symmetry. apply lookup_set_key.
    + intros L. pose proof (L [] k0 v0 atts eq_refl) as L0. cbn in L0. rewrite L0. cbn [String.eqb].
      apply IH. intros l1 k v l2 Hs. specialize (L ((k0, v0) :: l1) k v l2).
      cbn [app rev] in L. rewrite Hs in L. specialize (L eq_refl). rewrite <- app_assoc in L. cbn [app] in L.
      unfold lookup_default in *.
      rewrite (lookup_app_ext (rev l1) (set_key k0 v0 m) ((k0, v0) :: m)); [exact L|].
      intros k'. apply lookup_set_key.
Qed.

Lemma lookup_rev_In : forall k v (l : amap), lookup k (rev l) = Some v ->
  exists a b, l = a ++ (k, v) :: b /\ ~ In k (map fst b).
Proof.
  intros k v l. induction l as [|[k' v'] l IH] using rev_ind; [discriminate|].
  rewrite rev_app_distr. cbn. destruct (String.eqb k k') eqn:E.
  - intros H. inversion H. subst. apply String.eqb_eq in E. subst. exists l, []. split; [reflexivity|]. intros [].
  - intros H. destruct (IH H) as (a & b & -> & Hn). exists a, (b ++ [(k', v')]). split.
    + now rewrite <- app_assoc.
    + rewrite map_app, in_app_iff. cbn. intros [X|[X|[]]]; [auto|]. subst. rewrite String.eqb_refl in E. discriminate.
Qed.

Lemma lookup_rev_None : forall k (l : amap), lookup k (rev l) = None -> ~ In k (map fst l).
Proof.
  intros k l H Hin. apply in_map_iff in Hin. destruct Hin as [[k' v] [E Hin]]. cbn in E. subst k'.
  apply in_rev in Hin. destruct (in_lookup_some _ _ _ Hin) as [v' Hv]. congruence.
Qed.

Lemma first_occurrence : forall k (l : amap), In k (map fst l) ->
  exists a v b, l = a ++ (k, v) :: b /\ ~ In k (map fst a).
Proof.
  intros k l. induction l as [|[k' v'] l IH]; [intros []|]. cbn [map fst In].
  destruct (String.eqb k k') eqn:E.
  - intros _. apply String.eqb_eq in E. subst. exists [], v', l. split; [reflexivity|]. intros [].
  - intros [H|H]; [subst; rewrite String.eqb_refl in E; discriminate|].
    destruct (IH H) as (a & v & b & -> & Hn). exists ((k', v') :: a), v, b. split; [reflexivity|].
    cbn. intros [X|X]; [subst; rewrite String.eqb_refl in E; discriminate|auto].
Qed.

Lemma lookup_notin : forall k (l : amap), ~ In k (map fst l) -> lookup k l = None.
Proof.
  intros k l H. destruct (lookup k l) eqn:E; [|reflexivity]. apply lookup_In in E.
  exfalso. apply H. apply in_map_iff. now exists (k, s).
Qed.

Lemma latest_earlier : forall atts, latest_empty atts [] <-> earlier_empty atts.
Proof.
  intros atts. unfold latest_empty, earlier_empty. split.
  - intros L l1 k v l2 Hs Hin.
    destruct (first_occurrence k l2 Hin) as (a & v' & b & -> & Hn).
    specialize (L (l1 ++ (k, v) :: a) k v' b). rewrite <- app_assoc in L. cbn [app] in L.
    specialize (L Hs). rewrite app_nil_r in L. rewrite rev_app_distr in L. cbn [rev] in L.
    unfold lookup_default in L. rewrite <- app_assoc in L. rewrite lookup_app in L.
    rewrite lookup_notin in L by (rewrite map_rev; rewrite <- in_rev; assumption).
    cbn in L. rewrite String.eqb_refl in L. exact L.
  - intros EE l1 k v l2 Hs. rewrite app_nil_r. unfold lookup_default.
    destruct (lookup k (rev l1)) as [v0|] eqn:E; [|reflexivity].
    destruct (lookup_rev_In _ _ _ E) as (a & b & -> & _).
    apply (EE a k v0 (b ++ (k, v) :: l2)).
    + rewrite Hs. rewrite <- app_assoc. reflexivity.
    + rewrite map_app, in_app_iff. right. now left.
Qed.

(* ParseDistinguishedName accepts a text exactly when: no "=#"; go-ldap reads
   it as RDNs; no RDN is multi-valued; an attribute type written several times
   has an empty value everywhere but at its last occurrence; C, ST (or S), O
   have a non-empty (last) value *)
Theorem parse_accepts_iff : forall s,
  (exists m, parse_distinguished_name s = DOk m) <->
  has_eqhash (list_ascii_of_string s) = false /\
  exists rdns, parse_dn s = POk rdns /\
    Forall (fun rdn => (List.length rdn <= 1)%nat) rdns /\
    earlier_empty (map canon_attr (List.concat rdns)) /\
    forall f, In f mandatory ->
      exists v, last_value f (map canon_attr (List.concat rdns)) = Some v /\ v <> "".
Proof.
  intros s. unfold parse_distinguished_name. split.
  - intros [m H]. destruct (has_eqhash (list_ascii_of_string s)); [discriminate|]. split; [reflexivity|].
    destruct (parse_dn s) as [rdns| |]; try discriminate. exists rdns. split; [reflexivity|].
    destruct (add_rdns rdns []) as [m1|e] eqn:A; [|discriminate].
    pose proof (add_rdns_single_valued _ _ _ A) as SV. split; [assumption|].
    rewrite (add_rdns_flat _ _ SV), add_attrs_plain in A.
    split.
    + apply latest_earlier. apply add_plain_ok. eauto.
    + destruct (find _ mandatory) eqn:F; [discriminate|]. intros f Hin.
      pose proof (find_none _ _ F f Hin) as Hf. cbn in Hf. unfold lookup_default in Hf.
      pose proof (add_plain_result _ _ _ A f) as R. rewrite app_nil_r in R.
      unfold last_value. rewrite <- R.
      destruct (lookup f m1) as [v|]; [|discriminate]. exists v. split; [reflexivity|].
      intros ->. discriminate.
  - intros (Hh & rdns & P & SV & EE & M). rewrite Hh, P.
    rewrite (add_rdns_flat _ _ SV), add_attrs_plain.
    apply latest_earlier in EE. apply add_plain_ok in EE. destruct EE as [m1 A]. rewrite A.
    destruct (find _ mandatory) eqn:F; [|eauto].
    apply find_some in F. destruct F as [Hin Hf]. destruct (M s0 Hin) as (v & Hv & Hne).
    pose proof (add_plain_result _ _ _ A s0) as R. rewrite app_nil_r in R.
    unfold last_value in Hv. rewrite <- R in Hv.
    unfold lookup_default in Hf. rewrite Hv in Hf. apply String.eqb_eq in Hf. contradiction.
Qed.

(* and the interpretation maps every type to its last written value *)
Theorem parse_result : forall s m atts, parse_distinguished_name s = DOk m ->
  written_attrs s = Some atts -> forall k, lookup k m = last_value k atts.
Proof.
  intros s m atts H W k. unfold parse_distinguished_name in H. unfold written_attrs in W.
  destruct (has_eqhash (list_ascii_of_string s)); [discriminate|].
  destruct (parse_dn s) as [rdns| |]; try discriminate. inversion W. subst atts.
  destruct (add_rdns rdns []) as [m1|e] eqn:A; [|discriminate].
  destruct (find _ mandatory); [discriminate|]. inversion H. subst m1.
  pose proof (add_rdns_single_valued _ _ _ A) as SV.
  rewrite (add_rdns_flat _ _ SV), add_attrs_plain in A.
  rewrite (add_plain_result _ _ _ A k). unfold last_value. now rewrite app_nil_r.
Qed.

Lemma parse_written : forall s m, parse_distinguished_name s = DOk m ->
  exists atts, written_attrs s = Some atts /\ earlier_empty atts.
Proof.
  intros s m H. destruct (proj1 (parse_accepts_iff s) (ex_intro _ m H)) as (_ & rdns & P & _ & EE & _).
  exists (map canon_attr (List.concat rdns)). unfold written_attrs. rewrite P. auto.
Qed.

(* a multi-valued RDN is refused *)
Theorem multi_valued_rejected : forall s rdns, parse_dn s = POk rdns ->
  Exists (fun rdn => (1 < List.length rdn)%nat) rdns ->
  exists e, parse_distinguished_name s = DErr e.
Proof.
  intros s rdns P E. unfold parse_distinguished_name.
  destruct (has_eqhash (list_ascii_of_string s)); [eauto|]. rewrite P.
  destruct (add_rdns_multi rdns E []) as [e ->]. eauto.
Qed.

(* a second attribute of a type whose earlier value is not empty is refused *)
Theorem duplicate_rejected : forall s atts l1 k v l2, written_attrs s = Some atts ->
  atts = l1 ++ (k, v) :: l2 -> In k (map fst l2) -> v <> "" ->
  exists e, parse_distinguished_name s = DErr e.
Proof.
  intros s atts l1 k v l2 W Hs Hin Hv.
  destruct (parse_distinguished_name s) as [m|e] eqn:P; [|eauto].
  destruct (parse_written _ _ P) as (atts' & W' & EE). rewrite W in W'. inversion W'. subst atts'.
  elim Hv. eapply EE; eauto.
Qed.

(* a name without C, ST/S or O (or with an empty last value for one) is refused *)
Theorem mandatory_rejected : forall s atts f, written_attrs s = Some atts -> In f mandatory ->
  (last_value f atts = None \/ last_value f atts = Some "") ->
  exists e, parse_distinguished_name s = DErr e.
Proof.
  intros s atts f W Hin Hl.
  destruct (parse_distinguished_name s) as [m|e] eqn:P; [|eauto]. exfalso.
  destruct (parse_mandatory _ _ P f Hin) as (v & Hv & Hne).
  rewrite (parse_result _ _ _ P W f) in Hv. destruct Hl as [Hl|Hl]; rewrite Hl in Hv; [discriminate|].
  inversion Hv. auto.
Qed.

(* with no empty value written, an accepted name has pairwise distinct types *)
Theorem unique_types_partial : forall s m atts, parse_distinguished_name s = DOk m ->
  written_attrs s = Some atts -> (forall k v, In (k, v) atts -> v <> "") -> NoDup (map fst atts).
Proof.
  intros s m atts P W Hne. destruct (parse_written _ _ P) as (atts' & W' & EE).
  rewrite W in W'. inversion W'. subst atts'. clear W W' P.
  induction atts as [|[k v] atts IH]; [constructor|]. cbn [map fst]. constructor.
  - intros Hin. apply (Hne k v (or_introl eq_refl)). apply (EE [] k v atts eq_refl Hin).
  - apply IH.
    + intros k' v' Hin. apply (Hne k' v'). now right.
    + intros l1 k' v' l2 Hs Hin. apply (EE ((k, v) :: l1) k' v' l2); [|assumption]. now rewrite Hs.
Qed.

(* the unrestricted reading "an accepted name has unique attribute types" is false *)
Definition dup_name : string := "CN=,CN=alice,C=US,ST=WA,O=Notary".

Theorem unique_types_refuted : exists s m atts, parse_distinguished_name s = DOk m /\
  written_attrs s = Some atts /\ ~ NoDup (map fst atts).
Proof.
  exists dup_name, [("O", "Notary"); ("ST", "WA"); ("C", "US"); ("CN", "alice")],
         [("CN", ""); ("CN", "alice"); ("C", "US"); ("ST", "WA"); ("O", "Notary")].
  split; [vm_compute; reflexivity|]. split; [vm_compute; reflexivity|].
  cbn. intros H. inversion H as [|? ? Hn _]. apply Hn. now left.
Qed.

(* ---------- "every attribute of that identity", read on the written attributes ---------- *)

Lemma last_value_In : forall k v atts, last_value k atts = Some v -> In (k, v) atts.
Proof. intros k v atts H. unfold last_value in H. apply lookup_In in H. now apply in_rev in H. Qed.

Lemma nonempty_is_last : forall atts k v, earlier_empty atts -> In (k, v) atts -> v <> "" ->
  last_value k atts = Some v.
Proof.
  intros atts k v EE Hin Hv. apply in_split in Hin. destruct Hin as (l1 & l2 & Hs).
  assert (Hn : ~ In k (map fst l2)) by (intros X; apply Hv; eapply EE; eauto).
  unfold last_value. subst atts. rewrite rev_app_distr. cbn [rev]. rewrite <- app_assoc, lookup_app.
  rewrite lookup_notin by (rewrite map_rev, <- in_rev; assumption). cbn. now rewrite String.eqb_refl.
Qed.

(* if the check passes without wildcard, then for some listed x509.subject
   identity EVERY attribute written in it with a non-empty value is written in
   the leaf subject with the same value (types up to the alias S = ST) *)
Theorem match_written_partial : forall ids leaf rest, mem_str wildcard ids = false ->
  verify_identities ids (leaf :: rest) = VPass ->
  exists id v atts latts, In id ids /\ x509_value id = Some v /\
    written_attrs v = Some atts /\ written_attrs leaf = Some latts /\
    forall k val, In (k, val) atts -> val <> "" -> In (k, val) latts.
Proof.
  intros ids leaf rest W H. apply (match_iff ids leaf rest W) in H.
  destruct H as (m & L & _ & id & v & i & Hin & X & P & Hw).
  destruct (parse_written _ _ P) as (atts & Wa & EE).
  destruct (parse_written _ _ L) as (latts & Wl & _).
  exists id, v, atts, latts. repeat split; try assumption.
  intros k val Hk Hne. apply last_value_In. rewrite <- (parse_result _ _ _ L Wl k).
  apply Hw. rewrite (parse_result _ _ _ P Wa k). now apply nonempty_is_last.
Qed.

(* without the restriction to non-empty values the literal reading is false:
   an empty-valued earlier duplicate of the identity is dropped *)
Theorem match_written_refuted : exists ids leaf,
  mem_str wildcard ids = false /\ verify_identities ids [leaf] = VPass /\
  forall id v atts latts, In id ids -> x509_value id = Some v ->
    written_attrs v = Some atts -> written_attrs leaf = Some latts ->
    exists k val, In (k, val) atts /\ ~ In (k, val) latts.
Proof.
  exists [("x509.subject:" ++ dup_name)%string], "CN=alice,O=Notary,ST=WA,C=US".
  split; [reflexivity|]. split; [vm_compute; reflexivity|].
  intros id v atts latts [<-|[]] X Wa Wl. vm_compute in X. inversion X. subst v.
  vm_compute in Wa. inversion Wa. subst atts. vm_compute in Wl. inversion Wl. subst latts.
  exists "CN", "". split; [now left|].
  intros H. repeat (destruct H as [H|H]; [discriminate H|]). destruct H.
Qed.

(* ====================================================================== *)
(* 6. the identity check never clears a trust-store failure                *)
(* ====================================================================== *)

(* the authenticity result is shared by the trust-store check and the identity
   check: when the chain is not rooted in the trust stores, authenticity does
   not pass whatever the identities are (wildcard included); the signature is
   rejected iff the level enforces authenticity *)
Theorem untrusted_never_passes : forall log ids chain v rej,
  model (IUntrusted log ids chain) = OVerify v rej -> is_pass v = false /\ rej = negb log.
Proof.
  intros log ids chain v rej H. cbn [model] in H.
  destruct (validate_ids ids); try discriminate. destruct log.
  - inversion H. split; [|reflexivity].
    destruct (is_pass (verify_identities ids chain)) eqn:P; [reflexivity|exact P].
  - inversion H. auto.
Qed.

(* at level strict Verify returns before the identity check; at level audit
   a failed identity check replaces the reported error, a passed one leaves it *)
Theorem untrusted_result : forall log ids chain, validate_ids ids = WOk ->
  model (IUntrusted log ids chain) =
  if log then OVerify (if is_pass (verify_identities ids chain) then VStoreFail
                       else verify_identities ids chain) false
  else OVerify VStoreFail true.
Proof. intros log ids chain V. cbn [model]. rewrite V. reflexivity. Qed.
