(* C03_PluginModel.v — the C03 model extended by the verification-plugin dimension.
   Definitions only. Mirrors, on top of C03_Model.model,

     verifier/verifier.go  processSignature: plugin discovery before the authenticity step
                           (no verification capability -> ErrorVerificationInconclusive, no result),
                           the capability filter before executePlugin (revocation skipped by the level),
                           processPluginResponse: the loop over capabilitiesToVerify - a failing
                           trusted-identity verdict WRITES an error into the authenticity result of
                           the trust-store check (and ends the verification under enforce), a
                           succeeding one writes NOTHING; a failing revocation verdict under enforce
                           returns before later capabilities are looked at.

   The observation is the authenticity result the outcome FINALLY reports.
   Assumed of plugin cases (by construction of the driver, checked there): the signature is intact and
   unexpired, the plugin is installed with a valid version, answers every capability asked, and the
   steps between authenticity and the plugin (identity "*" when notation does it itself, expiry,
   authentic timestamp) do not end the verification. *)
From NV Require Import Base C03_Model.

Inductive cap := CTI | CRev.     (* SIGNATURE_VERIFIER.TRUSTED_IDENTITY / .REVOCATION_CHECK *)

Record plugin := mk_plugin {
  pg_caps : list cap;            (* verification capabilities of the metadata, in the order reported *)
  pg_ti_ok : bool;               (* the plugin's trusted-identity verdict *)
  pg_rev_ok : bool;              (* the plugin's revocation verdict *)
  pg_rev_action : action }.      (* action of revocation in the statement's level (SkipLevel = skip) *)

Record xinput := mk_xinput { x_in : input; x_plugin : option plugin }.   (* None: no plugin named *)

(* the authenticity result finally reported *)
Inductive fauth :=
| FStore (c : aclass)            (* the result of the trust-store check stands *)
| FPluginIdentity.               (* the error written for the plugin's failing trusted-identity verdict *)

Record xobs := mk_xobs { xo_auth : option fauth; xo_calls : list call; xo_stop : bool }.

Definition is_enforce (a : action) : bool := match a with Enforce => true | _ => false end.
Definition is_rev (c : cap) : bool := match c with CRev => true | CTI => false end.

(* processPluginResponse: (final authenticity result, Verify returned the authenticity error) *)
Fixpoint plugin_loop (auth_enforce : bool) (pg : plugin) (todo : list cap) (cur : fauth) : fauth * bool :=
  match todo with
  | [] => (cur, false)
  | CTI :: r =>
      if pg_ti_ok pg then plugin_loop auth_enforce pg r cur
      else if auth_enforce then (FPluginIdentity, true)
      else plugin_loop auth_enforce pg r FPluginIdentity
  | CRev :: r =>
      if pg_rev_ok pg then plugin_loop auth_enforce pg r cur
      else if is_enforce (pg_rev_action pg) then (cur, false)   (* Verify returns the revocation error *)
      else plugin_loop auth_enforce pg r cur
  end.

Definition lift (o : obs) : xobs := mk_xobs (option_map FStore (o_auth o)) (o_calls o) (o_stop o).

(* capabilitiesToVerify *)
Definition caps_to_verify (pg : plugin) : list cap :=
  filter (fun c => negb (is_rev c && match pg_rev_action pg with SkipLevel => true | _ => false end)) (pg_caps pg).

Definition auth_enforced (i : input) : bool :=
  match select (i_policy i) (i_repo i) with
  | Some st => is_enforce (st_action st)
  | None => false
  end.

Definition xmodel (xi : xinput) : xobs :=
  let o := model (x_in xi) in
  match x_plugin xi with
  | None => lift o
  | Some pg =>
      match o_auth o with
      | None => lift o                       (* no statement / level skip: processSignature is not reached *)
      | Some a =>
          match pg_caps pg with
          | [] => mk_xobs None [] false      (* inconclusive before the authenticity step *)
          | _ =>
              if o_stop o then lift o        (* the trust-store failure ended the verification *)
              else let r := plugin_loop (auth_enforced (x_in xi)) pg (caps_to_verify pg) (FStore a) in
                   mk_xobs (Some (fst r)) (o_calls o) (snd r)
          end
      end
  end.

(* ---------- equalities ---------- *)
Definition fauth_eqb (a b : fauth) : bool :=
  match a, b with
  | FStore x, FStore y => aclass_eqb x y
  | FPluginIdentity, FPluginIdentity => true
  | _, _ => false
  end.

Definition xobs_eqb (a b : xobs) : bool :=
  opt_eqb fauth_eqb (xo_auth a) (xo_auth b)
  && list_eqb key_eqb (xo_calls a) (xo_calls b)
  && Bool.eqb (xo_stop a) (xo_stop b).

(* ---------- the oracle, on observations only ----------
   Without a plugin: C03_Model.spec_ok. With a plugin: the reported authenticity result passes ONLY IF the
   declarative condition of the property holds (a statement applies whose level is not skip, the
   scheme has a store type, every listed store of that type loads and one holds a chain
   certificate): a plugin's success may never clear a failure of the trust-store check. *)
Definition fpass (f : fauth) : bool := match f with FStore APass => true | _ => false end.
Definition lower (f : fauth) : aclass := match f with FStore c => c | FPluginIdentity => AOtherErr end.

Definition store_condition (i : input) : bool :=
  match applicable (i_policy i) (i_repo i), store_type_of (i_scheme i) with
  | Some st, Some ty =>
      match st_action st with
      | SkipLevel => false
      | _ => is_pass (expected_auth i ty (st_stores st))
      end
  | _, _ => false
  end.

Definition xspec_ok (xi : xinput) (o : xobs) : bool :=
  match x_plugin xi with
  | None => spec_ok (x_in xi) (mk_obs (option_map lower (xo_auth o)) (xo_calls o) (xo_stop o))
  | Some _ =>
      match xo_auth o with
      | Some f => if fpass f then store_condition (x_in xi) else true
      | None => true
      end
  end.

(* ---------- cases ---------- *)
Record xcase := mk_xcase { xc_id : N; xc_in : xinput; xc_obs : xobs }.

Definition xrun (cs : list xcase) : list (N * N * N) :=
  run_cases xc_id
    (fun c => xobs_eqb (xmodel (xc_in c)) (xc_obs c))
    (fun c => negb (wf (x_in (xc_in c))) || xspec_ok (xc_in c) (xc_obs c))
    (fun _ => 0%N) cs.
