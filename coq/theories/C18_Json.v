(* C18_Json.v — JSON trees with ordered, possibly duplicated object members and
   the two decodings Go's encoding/json (1.23) applies to the payload of a
   signature envelope in signer/plugin.go:

     json.Unmarshal(content, &envelope.Payload{})       (struct decoding)
     forEachObjectMember(content, ...)                  (token-level member scan)

   The lexer is not modelled: the harness reads the payload bytes the envelope
   really carries with a duplicate- and order-preserving token reader and
   prints the tree. Struct-decoding rules mirrored here (decode.go):
   * members are applied in order; a member name selects the field whose name
     is equal after case folding (ASCII letters, plus the two non-ASCII runes
     that fold to an ASCII letter: long s and the Kelvin sign; exact match
     first: the same field, since the folded field names are pairwise
     distinct); other members are skipped whatever their value;
   * null is a no-op for string / integer / struct targets and resets map,
     slice and pointer targets to nil;
   * a duplicate member decodes into the value already there: struct fields
     and map entries accumulate, scalars are overwritten;
   * a value of the wrong JSON type is an UnmarshalTypeError: decoding goes
     on, but Unmarshal returns an error (here: None);
   * a number is accepted by an integer target only when its literal is an
     integer in range ([JInt z] = integer literal, [JFrac] = any other number
     literal);
   * []byte takes a base64 (standard, padded) string or an array of 0..255.
   The unknown-attribute scan (areUnknownAttributesAdded) reads the tokens of
   the payload itself, so it sees every member, duplicated ones included.
   Definitions only. *)
From NV Require Import Base.

Inductive json :=
| JNull
| JBool (b : bool)
| JInt (z : Z)
| JFrac
| JStr (s : string)
| JArr (l : list json)
| JObj (ms : list (string * json)).

(* ---------- ASCII case folding of member names ---------- *)
Definition up (a : ascii) : ascii :=
  let n := N_of_ascii a in
  if ((97 <=? n) && (n <=? 122))%N then ascii_of_N (n - 32) else a.

(* Go's foldName folds by Unicode simple folding; the only non-ASCII runes in
   the folding orbit of an ASCII letter are U+017F (long s, bytes C5 BF, orbit
   of S) and U+212A (Kelvin sign, bytes E2 84 AA, orbit of K). Every other
   non-ASCII rune folds to a non-ASCII rune, so it can never make a key equal
   to one of the (ASCII) field names; such bytes are left as they are. *)
Definition byte_is (a : ascii) (n : N) : bool := (N_of_ascii a =? n)%N.

Fixpoint fold (s : string) : string :=
  match s with
  | EmptyString => EmptyString
  | String a s1 =>
      match s1 with
      | String b s2 =>
          if byte_is a 197 && byte_is b 191 then String "S" (fold s2)
          else match s2 with
               | String c s3 =>
                   if byte_is a 226 && byte_is b 132 && byte_is c 170 then String "K" (fold s3)
                   else String (up a) (fold s1)
               | EmptyString => String (up a) (fold s1)
               end
      | EmptyString => String (up a) EmptyString
      end
  end.

Definition fold_eqb (a b : string) : bool := String.eqb (fold a) (fold b).

(* ---------- base64.StdEncoding.Decode succeeds ---------- *)
Definition is64 (a : ascii) : bool :=
  let n := N_of_ascii a in
  (((65 <=? n) && (n <=? 90)) || ((97 <=? n) && (n <=? 122)) || ((48 <=? n) && (n <=? 57))
   || (n =? 43) || (n =? 47))%N.
Definition is_pad (a : ascii) : bool := (N_of_ascii a =? 61)%N.

Fixpoint b64_ok_l (l : list ascii) : bool :=
  match l with
  | [] => true
  | a :: b :: c :: d :: rest =>
      match rest with
      | [] => is64 a && is64 b && ((is64 c && (is64 d || is_pad d)) || (is_pad c && is_pad d))
      | _ => is64 a && is64 b && is64 c && is64 d && b64_ok_l rest
      end
  | _ => false
  end.
(* the decoder skips CR and LF wherever they stand *)
Definition is_crlf (a : ascii) : bool := let n := N_of_ascii a in ((n =? 13) || (n =? 10))%N.
Definition b64_ok (s : string) : bool :=
  b64_ok_l (filter (fun a => negb (is_crlf a)) (list_ascii_of_string s)).

(* ---------- ocispec.Descriptor / Platform as decoding targets ---------- *)
Inductive dfield := FMediaType | FDigest | FSize | FUrls | FAnnotations | FData | FPlatform | FArtifactType.

Definition dfield_name (f : dfield) : string :=
  match f with
  | FMediaType => "mediaType" | FDigest => "digest" | FSize => "size" | FUrls => "urls"
  | FAnnotations => "annotations" | FData => "data" | FPlatform => "platform"
  | FArtifactType => "artifactType"
  end.

Definition dfields := [FMediaType; FDigest; FSize; FUrls; FAnnotations; FData; FPlatform; FArtifactType].

Definition find_dfield (k : string) : option dfield :=
  find (fun f => fold_eqb k (dfield_name f)) dfields.

Inductive pfield := PArch | POS | POSVersion | POSFeatures | PVariant.
Definition pfield_name (f : pfield) : string :=
  match f with
  | PArch => "architecture" | POS => "os" | POSVersion => "os.version"
  | POSFeatures => "os.features" | PVariant => "variant"
  end.
Definition pfields := [PArch; POS; POSVersion; POSFeatures; PVariant].
Definition find_pfield (k : string) : option pfield :=
  find (fun f => fold_eqb k (pfield_name f)) pfields.

(* the part of a decoded descriptor the signer looks at *)
Record dsc := mk_dsc { d_mt : string; d_dg : string; d_sz : Z; d_ann : amap }.
Definition dsc0 : dsc := mk_dsc "" "" 0 [].

Definition int64_ok (z : Z) : bool := ((- 9223372036854775808 <=? z) && (z <=? 9223372036854775807))%Z.

Definition dec_str (cur : string) (j : json) : option string :=
  match j with JNull => Some cur | JStr s => Some s | _ => None end.

Definition dec_int (cur : Z) (j : json) : option Z :=
  match j with
  | JNull => Some cur
  | JInt z => if int64_ok z then Some z else None
  | _ => None
  end.

(* targets whose value the signer never reads: only "does it decode" matters *)
Definition tc_str (j : json) : bool := match j with JNull | JStr _ => true | _ => false end.
Definition tc_strs (j : json) : bool :=
  match j with JNull => true | JArr l => forallb tc_str l | _ => false end.
Definition tc_byte (j : json) : bool :=
  match j with JNull => true | JInt z => ((0 <=? z) && (z <=? 255))%Z | _ => false end.
Definition tc_bytes (j : json) : bool :=
  match j with JNull => true | JStr s => b64_ok s | JArr l => forallb tc_byte l | _ => false end.
Definition tc_platform (j : json) : bool :=
  match j with
  | JNull => true
  | JObj ms =>
      forallb (fun kv => match find_pfield (fst kv) with
                         | Some POSFeatures => tc_strs (snd kv)
                         | Some _ => tc_str (snd kv)
                         | None => true
                         end) ms
  | _ => false
  end.

(* map[string]string: entries accumulate, the newest first ([lookup] finds it);
   null as a value stores "" *)
Fixpoint dec_ann_members (cur : amap) (ms : list (string * json)) : option amap :=
  match ms with
  | [] => Some cur
  | (k, v) :: ms' =>
      match v with
      | JStr s => dec_ann_members ((k, s) :: cur) ms'
      | JNull => dec_ann_members ((k, "") :: cur) ms'
      | _ => None
      end
  end.

Definition dec_ann (cur : amap) (j : json) : option amap :=
  match j with
  | JNull => Some []
  | JObj ms => dec_ann_members cur ms
  | _ => None
  end.

Definition dec_dmember (d : dsc) (kv : string * json) : option dsc :=
  let '(k, v) := kv in
  match find_dfield k with
  | None => Some d
  | Some FMediaType =>
      match dec_str (d_mt d) v with Some s => Some (mk_dsc s (d_dg d) (d_sz d) (d_ann d)) | None => None end
  | Some FDigest =>
      match dec_str (d_dg d) v with Some s => Some (mk_dsc (d_mt d) s (d_sz d) (d_ann d)) | None => None end
  | Some FSize =>
      match dec_int (d_sz d) v with Some z => Some (mk_dsc (d_mt d) (d_dg d) z (d_ann d)) | None => None end
  | Some FAnnotations =>
      match dec_ann (d_ann d) v with Some a => Some (mk_dsc (d_mt d) (d_dg d) (d_sz d) a) | None => None end
  | Some FUrls => if tc_strs v then Some d else None
  | Some FData => if tc_bytes v then Some d else None
  | Some FPlatform => if tc_platform v then Some d else None
  | Some FArtifactType => if tc_str v then Some d else None
  end.

Fixpoint dec_dmembers (d : dsc) (ms : list (string * json)) : option dsc :=
  match ms with
  | [] => Some d
  | kv :: ms' => match dec_dmember d kv with Some d' => dec_dmembers d' ms' | None => None end
  end.

Definition dec_desc (d : dsc) (j : json) : option dsc :=
  match j with
  | JNull => Some d
  | JObj ms => dec_dmembers d ms
  | _ => None
  end.

Definition ta_name : string := "targetArtifact".
Definition is_ta (k : string) : bool := fold_eqb k ta_name.

Fixpoint dec_pmembers (d : dsc) (ms : list (string * json)) : option dsc :=
  match ms with
  | [] => Some d
  | (k, v) :: ms' =>
      if is_ta k then
        match dec_desc d v with Some d' => dec_pmembers d' ms' | None => None end
      else dec_pmembers d ms'
  end.

(* json.Unmarshal(content, &signedPayload); None = it returns an error *)
Definition dec_payload (j : json) : option dsc :=
  match j with
  | JNull => Some dsc0
  | JObj ms => dec_pmembers dsc0 ms
  | _ => None
  end.

(* ---------- areUnknownAttributesAdded: token-level scan of the payload ----------
   forEachObjectMember walks the members of the payload object in order,
   duplicated members included; a member not spelled exactly "targetArtifact"
   is unknown; under each "targetArtifact" member whose value is an object,
   every member name outside the eight descriptor names is unknown. A value
   that is not an object is not scanned (the struct decoding has already
   accepted only null there). *)
Definition known_names : list string :=
  ["mediaType"; "digest"; "size"; "urls"; "annotations"; "data"; "platform"; "artifactType"].

Definition names (ms : list (string * json)) : list string := map fst ms.

Definition unknown_desc (v : json) : list string :=
  match v with
  | JObj dms => filter (fun k => negb (mem_str k known_names)) (names dms)
  | _ => []
  end.

Definition unknown_attrs (j : json) : list string :=
  match j with
  | JObj ms =>
      flat_map (fun kv => if String.eqb (fst kv) ta_name then unknown_desc (snd kv) else [fst kv]) ms
  | _ => []
  end.

(* ---------- the scan as it was before fix 39b2dda (kept as a named variant) ----------
   json.Unmarshal(content, &map[string]interface{}): an object becomes a map
   that keeps only the LAST value of each exactly compared member name; the
   descriptor map was taken from it with a comma-ok type assertion. Refuted in
   C18_Proofs (old_scan_refuted): a duplicated "targetArtifact" member hides
   the members of the first one. *)
Fixpoint last_val (k : string) (ms : list (string * json)) : option json :=
  match ms with
  | [] => None
  | (k', v) :: ms' =>
      match last_val k ms' with
      | Some x => Some x
      | None => if String.eqb k k' then Some v else None
      end
  end.

Definition unknown_attrs_lastwins (j : json) : list string :=
  match j with
  | JObj ms =>
      match last_val ta_name ms with
      | Some v => unknown_desc v
      | None => []
      end ++ filter (fun k => negb (String.eqb k ta_name)) (names ms)
  | _ => []
  end.

(* ---------- the declarative reading on the tree itself ----------
   no member of the payload object other than "targetArtifact" (exactly
   spelled), and every object under such a member has only the eight
   descriptor member names (exactly spelled) *)
Definition desc_clean (v : json) : bool :=
  match v with
  | JObj dms => forallb (fun k => mem_str k known_names) (names dms)
  | _ => true
  end.

Definition tree_clean (j : json) : bool :=
  match j with
  | JObj ms => forallb (fun kv => String.eqb (fst kv) ta_name && desc_clean (snd kv)) ms
  | _ => true
  end.

