(* C07_Proofs.v — proofs about C07_Model. *)
From NV Require Import Base Generated C07_Model.
Open Scope string_scope.
Open Scope list_scope.

(* ---------- small facts ---------- *)

Lemma andb_split : forall a b, a && b = true -> a = true /\ b = true.
Proof. intros a b H. apply andb_true_iff in H. exact H. Qed.

Lemma str_eqb_refl : forall s, String.eqb s s = true.
Proof. intros. apply String.eqb_refl. Qed.

Lemma compare_refl : forall s, String.compare s s = Eq.
Proof.
  intros s. pose proof (String.compare_antisym s s) as H.
  destruct (String.compare s s); simpl in H; congruence.
Qed.

Lemma ltb_irrefl : forall s, String.ltb s s = false.
Proof. intros s. unfold String.ltb. rewrite compare_refl. reflexivity. Qed.

Lemma filter_all {A} (f : A -> bool) : forall l, (forall x, In x l -> f x = true) -> filter f l = l.
Proof.
  induction l as [|x l IH]; intros H; simpl; [reflexivity|].
  rewrite (H x (or_introl eq_refl)). f_equal. apply IH. intros y Hy. apply H. right. exact Hy.
Qed.

Lemma map_id_in {A} (g : A -> A) : forall l, (forall x, In x l -> g x = x) -> map g l = l.
Proof.
  induction l as [|x l IH]; intros H; simpl; [reflexivity|].
  rewrite (H x (or_introl eq_refl)). f_equal. apply IH. intros y Hy. apply H. right. exact Hy.
Qed.

Lemma existsb_false {A} (f : A -> bool) : forall l, (forall x, In x l -> f x = false) -> existsb f l = false.
Proof.
  induction l as [|x l IH]; intros H; simpl; [reflexivity|].
  rewrite (H x (or_introl eq_refl)). simpl. apply IH. intros y Hy. apply H. right. exact Hy.
Qed.

Lemma json_safe_eq : forall s, json_safe s = true -> coerce s = s.
Proof. intros s H. apply String.eqb_eq. exact H. Qed.

Lemma coerce_empty : coerce "" = "".
Proof. reflexivity. Qed.

(* ---------- maps ---------- *)

Lemma safe_map_in : forall m e, safe_map m = true -> In e m -> coerce (fst e) = fst e /\ coerce (snd e) = snd e.
Proof.
  intros m e H Hin. unfold safe_map in H. rewrite forallb_forall in H.
  specialize (H e Hin). apply andb_split in H. destruct H as [H1 H2].
  split; apply json_safe_eq; assumption.
Qed.

(* JSON carries a map of valid UTF-8 strings unchanged *)
Lemma rt_map_safe : forall m, safe_map m = true -> rt_map m = m.
Proof.
  intros m H. unfold rt_map.
  rewrite filter_all.
  - apply map_id_in. intros [k v] Hin. destruct (safe_map_in m (k, v) H Hin) as [E1 E2].
    simpl in *. rewrite E1, E2. reflexivity.
  - intros e Hin. apply negb_true_iff. apply existsb_false. intros e' Hin'.
    destruct (safe_map_in m e H Hin) as [E1 _]. destruct (safe_map_in m e' H Hin') as [E1' _].
    rewrite E1, E1'. destruct (String.eqb (fst e') (fst e)) eqn:E; [|reflexivity].
    apply String.eqb_eq in E. rewrite E. rewrite ltb_irrefl. reflexivity.
Qed.

Lemma lookup_app : forall k a b, lookup k (a ++ b) = match lookup k a with Some v => Some v | None => lookup k b end.
Proof.
  intros k a b. induction a as [|[k' v'] a IH]; simpl; [reflexivity|].
  destruct (String.eqb k k'); [reflexivity|exact IH].
Qed.

Lemma in_has_key : forall m k v, In (k, v) m -> has_key k m = true.
Proof.
  unfold has_key. induction m as [|[k' v'] m IH]; intros k v H; simpl in *; [contradiction|].
  destruct H as [H|H].
  - inversion H; subst. rewrite str_eqb_refl. reflexivity.
  - destruct (String.eqb k k'); [reflexivity|]. eapply IH; eauto.
Qed.

Lemma has_key_app_r : forall a m k, has_key k m = true -> has_key k (a ++ m) = true.
Proof.
  unfold has_key. intros a m k H. rewrite lookup_app. destruct (lookup k a); [reflexivity|exact H].
Qed.

Lemma nodup_app_no_key : forall a m k v, nodup_keys (a ++ m) = true -> In (k, v) m -> has_key k a = false.
Proof.
  induction a as [|[k' v'] a IH]; intros m k v H Hin; simpl in *; [reflexivity|].
  apply andb_split in H. destruct H as [H1 H2].
  unfold has_key. simpl. destruct (String.eqb k k') eqn:E.
  - apply String.eqb_eq in E; subst k'.
    rewrite (has_key_app_r a m k (in_has_key m k v Hin)) in H1. discriminate.
  - apply (IH m k v H2 Hin).
Qed.

Lemma nodup_app_r : forall a m, nodup_keys (a ++ m) = true -> nodup_keys m = true.
Proof.
  induction a as [|[k v] a IH]; intros m H; simpl in *; [exact H|].
  apply andb_split in H. destruct H as [_ H]. apply IH. exact H.
Qed.

Lemma lookup_nodup : forall m k v, nodup_keys m = true -> In (k, v) m -> lookup k m = Some v.
Proof.
  induction m as [|[k' v'] m IH]; intros k v H Hin; simpl in *; [contradiction|].
  apply andb_split in H. destruct H as [H1 H2].
  destruct Hin as [Hin|Hin].
  - inversion Hin; subst. rewrite str_eqb_refl. reflexivity.
  - destruct (String.eqb k k') eqn:E.
    + apply String.eqb_eq in E; subst k'. rewrite (in_has_key m k v Hin) in H1. discriminate.
    + apply IH; assumption.
Qed.

Lemma submap_refl : forall m, nodup_keys m = true -> submap m m = true.
Proof.
  intros m H. unfold submap. apply forallb_forall. intros [k v] Hin. simpl.
  rewrite (lookup_nodup m k v H Hin). apply str_eqb_refl.
Qed.

Lemma amap_eqb_refl : forall m, nodup_keys m = true -> amap_eqb m m = true.
Proof.
  intros m H. unfold amap_eqb. rewrite Nat.eqb_refl. simpl. apply submap_refl. exact H.
Qed.

Lemma list_str_eqb_refl : forall l, list_eqb String.eqb l l = true.
Proof. induction l; simpl; [reflexivity|]. rewrite str_eqb_refl. exact IHl. Qed.

Lemma descr_eqb_refl : forall d, nodup_keys (d_anns d) = true -> descr_eqb d d = true.
Proof.
  intros d H. unfold descr_eqb.
  rewrite !str_eqb_refl, Z.eqb_refl, list_str_eqb_refl, (amap_eqb_refl _ H). reflexivity.
Qed.

(* ---------- the algorithm tables (C07_hash_bound) ---------- *)

Lemma keyspec_eqb_eq : forall a b, keyspec_eqb a b = true -> a = b.
Proof.
  intros [t n] [t' n'] H. unfold keyspec_eqb in H. simpl in H. apply andb_split in H. destruct H as [H1 H2].
  apply N.eqb_eq in H2. subst. destruct t, t'; simpl in H1; try discriminate; reflexivity.
Qed.

Lemma keyspec_eqb_refl : forall a, keyspec_eqb a a = true.
Proof. intros [t n]. unfold keyspec_eqb. simpl. rewrite N.eqb_refl. destruct t; reflexivity. Qed.

Lemma spec_row_cases : forall k r, spec_row k spec_table = Some r -> In (k, r) spec_table.
Proof.
  intros k r H. unfold spec_table in *. simpl in H.
  repeat match type of H with
  | (if keyspec_eqb ?a ?b then _ else _) = _ =>
      let E := fresh "E" in destruct (keyspec_eqb a b) eqn:E;
      [apply keyspec_eqb_eq in E; subst; inversion H; subst; simpl; tauto|]
  end.
  discriminate.
Qed.

(* for every supported key spec: the signature algorithm core derives, the
   digest algorithm the signer's table and the verifier's table give for its
   hash, the plugin names and their decoding all agree with the specification
   table *)
Lemma tables_agree : forall k kn a hn an,
  spec_row k spec_table = Some (kn, a, hn, an) ->
  sig_alg k = a /\ a <> A0 /\
  signer_algorithms (alg_hash a) = Some an /\ verifier_algorithms (alg_hash a) = Some an /\
  encode_keyspec k = Some kn /\ decode_keyspec kn = Some k /\ hash_from_keyspec k = Some hn.
Proof.
  intros k kn a hn an H. apply spec_row_cases in H. simpl in H.
  repeat destruct H as [H|H]; try contradiction; inversion H; subst; cbn; repeat split; congruence.
Qed.

Lemma decode_encode : forall k s, decode_keyspec s = Some k -> encode_keyspec k = Some s.
Proof.
  intros k s H. unfold decode_keyspec in H.
  repeat match type of H with
  | (if String.eqb ?a ?b then _ else _) = _ =>
      let E := fresh "E" in destruct (String.eqb a b) eqn:E;
      [apply String.eqb_eq in E; subst; inversion H; subst; reflexivity|]
  end.
  discriminate.
Qed.

Lemma encode_decode : forall k s, encode_keyspec k = Some s -> decode_keyspec s = Some k.
Proof.
  intros [t n] s H. unfold encode_keyspec in H. simpl in H.
  destruct t; try discriminate;
  repeat match type of H with
  | (if N.eqb ?a ?b then _ else _) = _ =>
      let E := fresh "E" in destruct (N.eqb a b) eqn:E;
      [apply N.eqb_eq in E; subst; inversion H; subst; reflexivity|]
  end; discriminate.
Qed.

(* the digest algorithm used at signing and at verification is the same for
   EVERY key spec core can derive an algorithm for, and exists whenever core
   accepts the key *)
Lemma hash_bound_all : forall k,
  signer_algorithms (alg_hash (sig_alg k)) = verifier_algorithms (alg_hash (sig_alg k)) /\
  (sig_alg k <> A0 -> exists an, signer_algorithms (alg_hash (sig_alg k)) = Some an).
Proof.
  intros k. split.
  - destruct (sig_alg k); reflexivity.
  - destruct (sig_alg k); intros H; try congruence; eexists; reflexivity.
Qed.

(* a key spec core accepts is one of the six of the specification table *)
Lemma sig_alg_supported : forall k, sig_alg k <> A0 -> exists r, spec_row k spec_table = Some r.
Proof.
  intros [t n] H. unfold sig_alg in H. simpl in H.
  destruct t; try congruence;
  repeat match type of H with
  | (if N.eqb ?a ?b then _ else _) <> _ =>
      let E := fresh "E" in destruct (N.eqb a b) eqn:E;
      [apply N.eqb_eq in E; subst; eexists; reflexivity|]
  end; congruence.
Qed.

(* ---------- time ---------- *)

Lemma second_pos : (0 < second)%Z.
Proof. reflexivity. Qed.

(* C07_expiry: truncation to seconds commutes with adding a whole number of seconds *)
Lemma trunc_add : forall t d, (Z.rem d second = 0)%Z -> (0 <= d)%Z ->
  ((t + d) / second = t / second + d / second)%Z.
Proof.
  intros t d H Hd. rewrite Z.rem_mod_nonneg in H by (try assumption; reflexivity).
  apply Z.mod_divide in H; [|discriminate]. destruct H as [q Hq]. subst d.
  rewrite Z.div_add by discriminate. rewrite Z.div_mul by discriminate. reflexivity.
Qed.

Lemma dur_pos_secs : forall d, (Z.rem d second = 0)%Z -> (0 <= d)%Z -> d <> 0%Z -> (0 < d / second)%Z.
Proof.
  intros d H Hd Hn. rewrite Z.rem_mod_nonneg in H by (try assumption; reflexivity).
  apply Z.mod_divide in H; [|discriminate]. destruct H as [q Hq]. subst d.
  rewrite Z.div_mul by discriminate. unfold second in *. lia.
Qed.

Lemma secs_mul : forall d, (Z.rem d second = 0)%Z -> (0 <= d)%Z -> (d / second * second = d)%Z.
Proof.
  intros d H Hd. rewrite Z.rem_mod_nonneg in H by (try assumption; reflexivity).
  apply Z.mod_divide in H; [|discriminate]. destruct H as [q Hq]. subst d.
  rewrite Z.div_mul by discriminate. reflexivity.
Qed.

(* without the granularity guard of validateSignArguments the statement fails *)
Lemma trunc_add_unguarded_refuted :
  exists t d, (0 < d)%Z /\ ((t + d) / second <> t / second + d / second)%Z.
Proof. exists 1999999999%Z, 1500000001%Z. split; [reflexivity|]. vm_compute. discriminate. Qed.

(* ---------- the pipeline over an arbitrary JSON codec ---------- *)

Definition in_int64 (z : Z) : Prop := (- max_int64 - 1 <= z <= max_int64)%Z.

Definition exp_expiry (i : input) : option Z :=
  if (i_dur i =? 0)%Z then None else Some (i_now i / second + i_dur i / second)%Z.

Definition exp_agent (i : input) : string :=
  let c := i_consts i in
  match i_signer i with
  | Local => if i_agent i =? "" then c_agent0 c else i_agent i
  | Plug true _ _ => (c_agent0 c ++ " " ++ c_pname c ++ "/" ++ c_pver c)%string
  | Plug false _ _ => c_penv_agent c
  end.

Definition exp_plugsig (i : input) (kn hn : string) : option (string * string) :=
  match i_signer i with Plug true _ _ => Some (kn, hn) | _ => None end.

Definition exp_plugenv (i : input) : option Z :=
  match i_signer i with Plug false _ _ => Some (i_dur i / second)%Z | _ => None end.

Definition exp_shash (i : input) (an : string) : option string :=
  if is_blob (i_target i) then Some an else None.

Lemma set_size_id : forall d, set_size d (d_size d) = d.
Proof. intros []. reflexivity. Qed.

Lemma append_nonempty : forall a c r, String.eqb (a ++ String c r)%string "" = false.
Proof. intros [|x a] c r; reflexivity. Qed.

Lemma agent_nonempty : forall a b, String.eqb (a ++ (" " ++ b))%string "" = false.
Proof. intros [|x a] b; reflexivity. Qed.

(* what [legal] gives, as propositions *)
Record legal_facts (i : input) (kn : string) : Prop := mk_lf {
  lf_now : (0 <= i_now i)%Z;
  lf_dur : (0 <= i_dur i)%Z;
  lf_rem : Z.rem (i_dur i) second = 0%Z;
  lf_fmt : i_format i = mt_jws \/ i_format i = mt_cose;
  lf_signer : match i_signer i with
              | Local => True
              | Plug capsig capenv describe => (capsig = true \/ capenv = true) /\ describe = kn
              end;
  lf_nodup : nodup_keys (target_anns (i_target i) ++ i_meta i) = true;
  lf_vnodup : nodup_keys (i_vmeta i) = true;
  lf_vtnodup : nodup_keys (target_anns (i_vtarget i)) = true;
  lf_kind : is_blob (i_target i) = is_blob (i_vtarget i);
  lf_safe : safe_map (target_anns (i_target i) ++ i_meta i) = true;
  lf_res : forall e, In e (i_meta i) -> has_prefix "io.cncf.notary" (fst e) = false;
  lf_target : match i_target i with
              | TOCI d => json_safe (d_mt d) = true /\ json_safe (d_digest d) = true
              | TBlob b mt mt_ok => b_readerr b = false /\ mt <> "" /\ mt_ok = true /\ json_safe mt = true
                                    /\ json_safe (b_d256 b) = true /\ json_safe (b_d384 b) = true
                                    /\ json_safe (b_d512 b) = true
              end }.

Lemma orb_split : forall a b, a || b = true -> a = true \/ b = true.
Proof. intros a b H. apply orb_true_iff in H. exact H. Qed.

Lemma legal_elim : forall i kn a hn an,
  legal i = true -> spec_row (i_ks i) spec_table = Some (kn, a, hn, an) -> legal_facts i kn.
Proof.
  intros i kn a hn an H Hrow. unfold legal in H. rewrite Hrow in H.
  repeat (apply andb_split in H; let H' := fresh "L" in destruct H as [H H']).
  constructor.
  - apply Z.leb_le. assumption.
  - apply Z.leb_le. assumption.
  - apply Z.eqb_eq. assumption.
  - apply orb_split in L7. destruct L7 as [E|E]; apply String.eqb_eq in E; auto.
  - destruct (i_signer i) as [|cs ce ds]; [exact I|].
    apply andb_split in L6. destruct L6 as [E1 E2]. apply String.eqb_eq in E2. apply orb_split in E1. auto.
  - assumption.
  - assumption.
  - assumption.
  - apply Bool.eqb_prop. assumption.
  - assumption.
  - intros e Hin. rewrite forallb_forall in L0. apply L0 in Hin. apply negb_true_iff in Hin. exact Hin.
  - destruct (i_target i) as [d|b mt mt_ok].
    + apply andb_split in L. tauto.
    + repeat (apply andb_split in L; let H' := fresh "T" in destruct L as [L H']).
      apply negb_true_iff in L. apply negb_true_iff in T4. repeat split; try assumption.
      intros ->. discriminate.
Qed.

Lemma add_meta_ok : forall d meta,
  nodup_keys (d_anns d ++ meta) = true ->
  (forall e, In e meta -> has_prefix "io.cncf.notary" (fst e) = false) ->
  add_meta d meta = Some (mk_descr (d_mt d) (d_digest d) (d_size d) (d_urls d) (d_anns d ++ meta)
                                   (d_data d) (d_platform d) (d_atype d)).
Proof.
  intros d meta Hn Hr. unfold add_meta. rewrite existsb_false; [reflexivity|].
  intros [k v] Hin. cbn [fst]. unfold reserved, gen_reserved_annotation_prefixes. cbn [existsb].
  pose proof (Hr (k, v) Hin) as Hp. cbn [fst] in Hp. rewrite Hp. cbn [orb].
  apply (nodup_app_no_key _ _ _ _ Hn Hin).
Qed.

Section Generic.
  Variable bytes : Type.
  Variable enc : descr -> bytes.
  Variable dec : bytes -> option descr.
  Variable top_keys tgt_keys : bytes -> list string.
  Variable recode : bytes -> bytes.
  (* what is assumed of encoding/json and of the JWS re-encoding *)
  Hypothesis codec_rt : forall d, in_int64 (d_size d) -> dec (enc d) = Some (json_rt d).
  Hypothesis codec_top : forall d, top_keys (enc d) = ["targetArtifact"].
  Hypothesis codec_tgt : forall d, tgt_keys (enc d) = present_keys d.
  Hypothesis codec_recode : forall d, recode (enc d) = enc (set_size d (jws_number (d_size d))).

  Let gsign := sign bytes enc dec top_keys tgt_keys recode.
  Let gverify := verify bytes dec.
  Let gpipe := pipeline bytes enc dec top_keys tgt_keys recode.

  Definition exp_env (i : input) (a : alg) (an : string) : envelope bytes :=
    mk_env bytes (i_format i) a mt_payload (enc (expected_signed i an)) (i_now i / second)%Z (exp_expiry i) (exp_agent i).

  (* core signs what the library built *)
  Lemma core_sign_ok : forall i a D agent,
    a <> A0 -> (0 <= i_dur i)%Z -> Z.rem (i_dur i) second = 0%Z ->
    (i_format i = mt_jws \/ i_format i = mt_cose) ->
    (i_format i = mt_cose \/ jws_number (d_size D) = d_size D) ->
    core_sign bytes recode (i_format i) a (enc D) (i_now i)
              (if (i_dur i =? 0)%Z then None else Some (i_now i + i_dur i)%Z) agent
    = Some (mk_env bytes (i_format i) a mt_payload (enc D) (i_now i / second)%Z (exp_expiry i) agent).
  Proof.
    intros i a D agent Ha Hd Hr Hf Hs. unfold core_sign, exp_expiry.
    assert (P : (if i_format i =? mt_jws then recode (enc D) else enc D) = enc D).
    { destruct Hs as [Hs|Hs].
      - rewrite Hs. reflexivity.
      - destruct (i_format i =? mt_jws); [|reflexivity]. rewrite codec_recode, Hs, set_size_id. reflexivity. }
    rewrite P.
    destruct (i_dur i =? 0)%Z eqn:E; simpl.
    - destruct a; congruence.
    - apply Z.eqb_neq in E. rewrite trunc_add by assumption.
      pose proof (dur_pos_secs _ Hr Hd E) as Hp.
      replace (i_now i / second + i_dur i / second <=? i_now i / second)%Z with false
        by (symmetry; apply Z.leb_gt; lia).
      destruct a; congruence.
  Qed.

  Lemma generic_sign_ok : forall i k a D agent agent0,
    sig_alg k = a -> a <> A0 -> (0 <= i_dur i)%Z -> Z.rem (i_dur i) second = 0%Z ->
    (i_format i = mt_jws \/ i_format i = mt_cose) ->
    (i_format i = mt_cose \/ jws_number (d_size D) = d_size D) ->
    generic_sign bytes enc recode k true D (i_format i) (i_dur i) (i_now i) agent agent0
    = Some (mk_env bytes (i_format i) a mt_payload (enc (sanitize D)) (i_now i / second)%Z (exp_expiry i)
                   (if agent =? "" then agent0 else agent)).
  Proof.
    intros i k a D agent agent0 Hk Ha Hd Hr Hf Hs. unfold generic_sign. rewrite Hk.
    rewrite (core_sign_ok i a (sanitize D)) by (try assumption; destruct D; exact Hs).
    reflexivity.
  Qed.

  Lemma wf_elim : forall i, wf i = true ->
    legal i = true /\ in_int64 (size_of (i_target i)) /\
    (i_format i = mt_cose \/ jws_number (size_of (i_target i)) = size_of (i_target i)).
  Proof.
    intros i H. unfold wf in H.
    apply andb_split in H. destruct H as [H W].
    apply andb_split in H. destruct H as [H W0].
    apply andb_split in H. destruct H as [H W1].
    split; [assumption|]. split.
    - unfold in_int64. apply Z.leb_le in W0, W1. lia.
    - apply orb_split in W. destruct W as [E|E]; [left; apply String.eqb_eq in E | right; apply Z.eqb_eq in E]; assumption.
  Qed.

  Lemma blob_digest_safe : forall b an,
    json_safe (b_d256 b) = true -> json_safe (b_d384 b) = true -> json_safe (b_d512 b) = true ->
    coerce (blob_digest b an) = blob_digest b an.
  Proof.
    intros b an H1 H2 H3. unfold blob_digest.
    destruct (an =? "sha256"); [apply json_safe_eq; assumption|].
    destruct (an =? "sha384"); [apply json_safe_eq; assumption|].
    destruct (an =? "sha512"); [apply json_safe_eq; assumption|reflexivity].
  Qed.

  Lemma signed_anns : forall i an, d_anns (expected_signed i an) = target_anns (i_target i) ++ i_meta i.
  Proof. intros i an. unfold expected_signed. destruct (i_target i); reflexivity. Qed.

  Lemma signed_size : forall i an, d_size (expected_signed i an) = size_of (i_target i).
  Proof. intros i an. unfold expected_signed. destruct (i_target i); reflexivity. Qed.

  (* JSON carries the descriptor that is signed unchanged *)
  Lemma json_rt_signed : forall i kn an, legal_facts i kn ->
    json_rt (expected_signed i an) = expected_signed i an.
  Proof.
    intros i kn an F. destruct F. unfold expected_signed in *.
    destruct (i_target i) as [d|b mt mt_ok]; unfold json_rt; simpl in *.
    - destruct lf_target0 as [S1 S2]. rewrite (json_safe_eq _ S1), (json_safe_eq _ S2), (rt_map_safe _ lf_safe0). reflexivity.
    - destruct lf_target0 as (_ & _ & _ & S1 & S2 & S3 & S4).
      rewrite (json_safe_eq _ S1), (blob_digest_safe _ _ S2 S3 S4), (rt_map_safe _ lf_safe0). reflexivity.
  Qed.

  Lemma penv_expiry : forall dur now, (0 <= dur)%Z -> Z.rem dur second = 0%Z ->
    (if (Z.quot dur second =? 0)%Z then None else Some (now + Z.quot dur second * second)%Z)
    = (if (dur =? 0)%Z then None else Some (now + dur)%Z).
  Proof.
    intros dur now Hd Hr. rewrite Z.quot_div_nonneg by (try assumption; reflexivity).
    rewrite (secs_mul _ Hr Hd).
    destruct (dur =? 0)%Z eqn:E.
    - apply Z.eqb_eq in E. subst. reflexivity.
    - apply Z.eqb_neq in E. pose proof (dur_pos_secs _ Hr Hd E).
      replace (dur / second =? 0)%Z with false by (symmetry; apply Z.eqb_neq; lia). reflexivity.
  Qed.

  Lemma content_equal_refl : forall d, content_equal d d = true.
  Proof. intros d. unfold content_equal. rewrite Z.eqb_refl, !str_eqb_refl. reflexivity. Qed.

  Lemma sanitized_no_unknown : forall X, X = sanitize X -> unknown_attrs bytes top_keys tgt_keys (enc X) = [].
  Proof.
    intros X HX. unfold unknown_attrs. rewrite codec_top, codec_tgt. rewrite HX.
    unfold present_keys, sanitize. simpl. destruct (d_anns X); reflexivity.
  Qed.

  (* generateSignatureEnvelope accepts what a faithful envelope plugin returns *)
  Lemma plugin_envelope_ok : forall i kn a D an,
    legal_facts i kn -> sig_alg (i_ks i) = a -> a <> A0 ->
    sanitize D = expected_signed i an -> d_anns D = d_anns (expected_signed i an) ->
    in_int64 (size_of (i_target i)) ->
    (i_format i = mt_cose \/ jws_number (size_of (i_target i)) = size_of (i_target i)) ->
    plugin_envelope bytes enc dec top_keys tgt_keys recode (i_ks i) D (i_format i) (i_dur i) (i_now i) (c_penv_agent (i_consts i))
    = ((i_dur i / second)%Z,
       Some (mk_env bytes (i_format i) a mt_payload (enc (expected_signed i an)) (i_now i / second)%Z (exp_expiry i)
                    (c_penv_agent (i_consts i)))).
  Proof.
    intros i kn a D an F Hk Ha HD HA Hsz Hj. pose proof F as F'. destruct F.
    unfold plugin_envelope. rewrite Hk.
    rewrite penv_expiry by assumption. rewrite Z.quot_div_nonneg by (try assumption; reflexivity).
    assert (Hsize : d_size (sanitize D) = size_of (i_target i)) by (rewrite HD; apply signed_size).
    rewrite (core_sign_ok i a (sanitize D)) by (try assumption; rewrite Hsize; assumption).
    cbn [e_ctype e_payload]. rewrite str_eqb_refl.
    rewrite codec_rt by (rewrite Hsize; assumption).
    rewrite HD, (json_rt_signed i kn an F').
    assert (CE : content_equal D (expected_signed i an) = true).
    { rewrite <- HD. unfold content_equal, sanitize. simpl. rewrite Z.eqb_refl, !str_eqb_refl. reflexivity. }
    rewrite CE. rewrite HA, submap_refl by (rewrite signed_anns; assumption).
    rewrite sanitized_no_unknown by (rewrite <- HD; destruct D; reflexivity).
    reflexivity.
  Qed.

  Lemma validate_ok : forall i kn, legal_facts i kn -> validate_sign_args (i_format i) (i_dur i) = true.
  Proof.
    intros i kn F. destruct F. unfold validate_sign_args. rewrite lf_rem0.
    replace (i_dur i <? 0)%Z with false by (symmetry; apply Z.ltb_ge; assumption).
    destruct lf_fmt0 as [E|E]; rewrite E; reflexivity.
  Qed.

  (* closed form of what the signing API produces on a well-formed input *)
  Lemma sign_closed : forall i kn a hn an,
    wf i = true -> spec_row (i_ks i) spec_table = Some (kn, a, hn, an) ->
    gsign i = mk_sres bytes 0 (exp_shash i an) (exp_plugsig i kn hn) (exp_plugenv i) (Some (exp_env i a an)).
  Proof.
    intros i kn a hn an Hwf Hrow.
    destruct (wf_elim i Hwf) as (Hl & Hsz & Hj).
    pose proof (legal_elim i kn a hn an Hl Hrow) as F.
    destruct (tables_agree _ _ _ _ _ Hrow) as (Ta & Tne & Ts & Tv & Te & Td & Th).
    unfold gsign, sign. rewrite (validate_ok i kn F). cbn [negb].
    pose proof F as F'. destruct F.
    unfold exp_env, exp_shash, exp_plugsig, exp_plugenv, exp_agent.
    destruct (i_target i) as [d|b mt mt_ok] eqn:Ht; cbn [is_blob target_anns size_of] in *.
    - (* OCI *)
      rewrite (add_meta_ok d (i_meta i) lf_nodup0 lf_res0).
      set (D := mk_descr (d_mt d) (d_digest d) (d_size d) (d_urls d) (d_anns d ++ i_meta i) (d_data d) (d_platform d) (d_atype d)).
      assert (HD : sanitize D = expected_signed i an) by (unfold expected_signed; rewrite Ht; reflexivity).
      assert (HA : d_anns D = d_anns (expected_signed i an)) by (rewrite <- HD; reflexivity).
      assert (HS : d_size D = d_size d) by reflexivity.
      unfold signer_sign.
      destruct (i_signer i) as [|capsig capenv describe] eqn:Hs.
      + rewrite (generic_sign_ok i (i_ks i) a D) by (try assumption; rewrite HS; assumption).
        rewrite HD. reflexivity.
      + destruct lf_signer0 as [Hcap Hdesc]. subst describe.
        destruct capsig.
        * rewrite Td. unfold plugin_generate.
          rewrite Ta. rewrite (core_sign_ok i a (sanitize D)) by (try assumption; destruct D; exact Hj).
          rewrite Te, Th, keyspec_eqb_refl.
          rewrite (generic_sign_ok i (i_ks i) a D) by (try assumption; rewrite HS; assumption).
          rewrite HD. rewrite agent_nonempty. reflexivity.
        * destruct Hcap as [Hcap|Hcap]; [discriminate|]. subst capenv.
          rewrite (plugin_envelope_ok i kn a D an F' Ta Tne HD HA) by (rewrite Ht; assumption).
          reflexivity.
    - (* blob *)
      destruct lf_target0 as (Hre & Hmt & Hok & _). subst mt_ok.
      replace (mt =? "") with false by (symmetry; apply String.eqb_neq; assumption).
      cbn [orb negb].
      assert (HB : blob_descriptor b mt (i_meta i) an
                   = Some (mk_descr mt (blob_digest b an) (b_size b) [] (i_meta i) "" "" "")).
      { unfold blob_descriptor. rewrite add_meta_ok by assumption. reflexivity. }
      set (D := mk_descr mt (blob_digest b an) (b_size b) [] (i_meta i) "" "" "") in *.
      assert (HD : sanitize D = expected_signed i an) by (unfold expected_signed; rewrite Ht; reflexivity).
      assert (HA : d_anns D = d_anns (expected_signed i an)) by (rewrite <- HD; reflexivity).
      assert (HS : d_size D = b_size b) by reflexivity.
      unfold signer_sign_blob.
      destruct (i_signer i) as [|capsig capenv describe] eqn:Hs.
      + rewrite Ta, Ts, Hre, HB.
        rewrite (generic_sign_ok i (i_ks i) a D) by (try assumption; rewrite HS; assumption).
        rewrite HD. reflexivity.
      + destruct lf_signer0 as [Hcap Hdesc]. subst describe.
        rewrite Td, Ta, Ts, Hre, HB.
        destruct capsig.
        * unfold plugin_generate.
          rewrite Ta. rewrite (core_sign_ok i a (sanitize D)) by (try assumption; exact Hj).
          rewrite Te, Th, keyspec_eqb_refl.
          rewrite (generic_sign_ok i (i_ks i) a D) by (try assumption; rewrite HS; assumption).
          rewrite HD. rewrite agent_nonempty. reflexivity.
        * destruct Hcap as [Hcap|Hcap]; [discriminate|]. subst capenv.
          rewrite (plugin_envelope_ok i kn a D an F' Ta Tne HD HA) by (rewrite Ht; assumption).
          reflexivity.
  Qed.

  Lemma lookup_in : forall m k v, lookup k m = Some v -> In (k, v) m.
  Proof.
    induction m as [|[k' v'] m IH]; intros k v H; simpl in *; [discriminate|].
    destruct (String.eqb k k') eqn:E.
    - apply String.eqb_eq in E. inversion H; subst. left. reflexivity.
    - right. apply IH. exact H.
  Qed.

  (* metadata demanded at verification that is part of the signed user metadata
     has no reserved key: the blob descriptor generator accepts it *)
  Lemma vmeta_not_reserved : forall vm meta,
    submap vm meta = true ->
    (forall e, In e meta -> has_prefix "io.cncf.notary" (fst e) = false) ->
    existsb (fun e => reserved (fst e) || has_key (fst e) []) vm = false.
  Proof.
    intros vm meta Hs Hr. apply existsb_false. intros [k v] Hin.
    unfold submap in Hs. rewrite forallb_forall in Hs. specialize (Hs (k, v) Hin). cbn [fst snd] in *.
    destruct (lookup k meta) as [v'|] eqn:L; [|discriminate].
    apply lookup_in in L. specialize (Hr (k, v') L). cbn [fst] in Hr.
    unfold reserved, gen_reserved_annotation_prefixes. cbn [existsb]. rewrite Hr. reflexivity.
  Qed.

  Lemma final_code_cases : forall m vm p,
    final_code m vm p = (if negb m && submap vm (d_anns p) then 0%N else if submap vm (d_anns p) then 2%N else 3%N).
  Proof.
    intros m vm p. unfold final_code. destruct vm as [|e vm'].
    - destruct m; reflexivity.
    - destruct (submap (e :: vm') (d_anns p)); destruct m; reflexivity.
  Qed.

  Definition exp_ret (rp : bool) (i : input) (signed : descr) : descr :=
    match i_vtarget i with TOCI vd => vd | _ => if rp then signed else zero_descr end.

  (* verification of what was signed: succeeds exactly on the requests the
     property promises success for, and then returns what it must *)
  Lemma verify_spec : forall rp i kn a hn an,
    wf i = true -> spec_row (i_ks i) spec_table = Some (kn, a, hn, an) ->
    let signed := expected_signed i an in
    let v := gverify rp i (exp_env i a an) in
    if positive i signed an
    then v = mk_vres 0 (exp_shash i an) (Some (exp_ret rp i signed)) (Some (d_anns signed))
    else v_code v <> 0%N /\ v_ret v = None /\ v_meta v = None.
  Proof.
    intros rp i kn a hn an Hwf Hrow signed v.
    destruct (wf_elim i Hwf) as (Hl & Hsz & Hj).
    pose proof (legal_elim i kn a hn an Hl Hrow) as F.
    destruct (tables_agree _ _ _ _ _ Hrow) as (Ta & Tne & Ts & Tv & Te & Td & Th).
    assert (Hdec : dec (enc signed) = Some signed).
    { rewrite codec_rt by (unfold signed; rewrite signed_size; assumption).
      unfold signed. rewrite (json_rt_signed i kn an F). reflexivity. }
    pose proof F as F'. destruct F.
    subst v. unfold gverify, verify, positive, exp_ret, exp_shash, exp_env.
    destruct (i_target i) as [d|b mt mt_ok] eqn:Ht; destruct (i_vtarget i) as [vd|vb vmt vmt_ok] eqn:Hv;
      cbn [is_blob] in lf_kind0; try discriminate.
    - (* OCI *)
      unfold verify_oci, user_metadata. cbn [e_payload]. fold signed. rewrite Hdec.
      rewrite final_code_cases.
      destruct (i_trusted i); cbn [negb andb]; [|repeat split; discriminate].
      destruct (submap (i_vmeta i) (d_anns signed)); destruct (content_equal signed vd);
        cbn [negb andb]; try reflexivity; repeat split; discriminate.
    - (* blob *)
      unfold verify_blob, user_metadata. cbn [e_payload e_format e_alg]. fold signed. rewrite Hdec.
      rewrite Tv.
      replace ((i_format i =? mt_jws) || (i_format i =? mt_cose)) with true
        by (destruct lf_fmt0 as [E|E]; rewrite E; reflexivity).
      cbn [negb].
      destruct (b_readerr vb) eqn:Hvre.
      { cbn [negb andb]. rewrite andb_false_r.
        destruct (negb (vmt =? "") && negb vmt_ok); destruct (i_trusted i); cbn; repeat split; discriminate. }
      cbn [negb andb].
      assert (R : submap (i_vmeta i) (d_anns signed) = true ->
                  existsb (fun e => reserved (fst e) || has_key (fst e) []) (i_vmeta i) = false).
      { intros Hs. apply (vmeta_not_reserved _ (i_meta i)); [|assumption].
        unfold signed in Hs. rewrite signed_anns, Ht in Hs. exact Hs. }
      unfold blob_descriptor, add_meta. cbn [d_anns].
      destruct (existsb (fun e => reserved (fst e) || has_key (fst e) []) (i_vmeta i)) eqn:Ex.
      + assert (Hsub : submap (i_vmeta i) (d_anns signed) = false).
        { destruct (submap (i_vmeta i) (d_anns signed)); [discriminate (R eq_refl)|reflexivity]. }
        rewrite Hsub, andb_false_r. cbn [andb].
        destruct (negb (vmt =? "") && negb vmt_ok); destruct (i_trusted i); cbn; repeat split; discriminate.
      + cbn [d_mt d_digest d_size d_anns]. rewrite final_code_cases.
        destruct (i_trusted i); destruct (submap (i_vmeta i) (d_anns signed));
          destruct (vmt =? ""); destruct vmt_ok; destruct (String.eqb (blob_digest vb an) (d_digest signed));
          destruct (b_size vb =? d_size signed)%Z; destruct (String.eqb vmt (d_mt signed));
          cbn [negb andb orb]; try rewrite Hdec; try reflexivity; repeat split; discriminate.
  Qed.

  Lemma present_keys_signed : forall i an, present_keys (expected_signed i an) = expected_keys i.
  Proof.
    intros i an. unfold present_keys, expected_keys. rewrite signed_anns.
    unfold expected_signed. destruct (i_target i); cbn [d_atype d_data d_platform d_urls target_anns];
      destruct (_ ++ i_meta i); reflexivity.
  Qed.

  Definition exp_sobs (i : input) (a : alg) (an : string) : sobs :=
    mk_sobs a mt_payload ["targetArtifact"] (expected_keys i) (Some (expected_signed i an))
            (i_now i / second)%Z (exp_expiry i) (exp_agent i).

  (* closed form of the whole pipeline on a well-formed input *)
  Lemma pipeline_closed : forall rp i kn a hn an,
    wf i = true -> spec_row (i_ks i) spec_table = Some (kn, a, hn, an) ->
    let v := gverify rp i (exp_env i a an) in
    gpipe rp i = mk_obs 0 (exp_shash i an) (exp_plugsig i kn hn) (exp_plugenv i) (Some (exp_sobs i a an))
                        (v_code v) (v_hash v) (v_ret v) (v_meta v).
  Proof.
    intros rp i kn a hn an Hwf Hrow v.
    destruct (wf_elim i Hwf) as (Hl & Hsz & Hj).
    pose proof (legal_elim i kn a hn an Hl Hrow) as F.
    unfold gpipe, pipeline. fold gsign. rewrite (sign_closed i kn a hn an Hwf Hrow).
    cbn [r_env r_err r_shash r_plugsig r_plugenv]. fold gverify. fold v.
    unfold view, exp_env, exp_sobs. cbn [e_alg e_ctype e_payload e_time e_expiry e_agent].
    rewrite codec_top, codec_tgt, present_keys_signed.
    rewrite codec_rt by (rewrite signed_size; assumption).
    rewrite (json_rt_signed i kn an F). reflexivity.
  Qed.

  Lemma opt_str_eqb_refl : forall o : option string, opt_eqb String.eqb o o = true.
  Proof. intros [s|]; simpl; [apply str_eqb_refl|reflexivity]. Qed.

  Lemma secs_zero : forall d, (0 <= d)%Z -> Z.rem d second = 0%Z -> (d / second =? 0)%Z = (d =? 0)%Z.
  Proof.
    intros d Hd Hr. destruct (d =? 0)%Z eqn:E.
    - apply Z.eqb_eq in E. subst. reflexivity.
    - apply Z.eqb_neq in E. pose proof (dur_pos_secs _ Hr Hd E). apply Z.eqb_neq. lia.
  Qed.

  (* the model (over any codec meeting the hypotheses) satisfies the property oracle *)
  Lemma pipeline_spec_ok : forall i, wf i = true -> spec_ok i (gpipe true i) = true.
  Proof.
    intros i Hwf. destruct (wf_elim i Hwf) as (Hl & Hsz & Hj).
    unfold spec_ok. rewrite Hl. cbn [negb].
    destruct (spec_row (i_ks i) spec_table) as [[[[kn a] hn] an]|] eqn:Hrow; [|reflexivity].
    pose proof (legal_elim i kn a hn an Hl Hrow) as F.
    rewrite (pipeline_closed true i kn a hn an Hwf Hrow).
    pose proof (verify_spec true i kn a hn an Hwf Hrow) as V. cbv zeta in V.
    cbn [o_sign o_shash o_plugsig o_plugenv o_env o_verify o_vhash o_ret o_meta].
    destruct F.
    assert (Hnd : nodup_keys (d_anns (expected_signed i an)) = true) by (rewrite signed_anns; assumption).
    (* signing part *)
    assert (S1 : opt_eqb String.eqb (exp_shash i an) (if is_blob (i_target i) then Some an else None) = true)
      by apply opt_str_eqb_refl.
    assert (S2 : match i_signer i with
                 | Plug true _ _ => opt_eqb pair_eqb (exp_plugsig i kn hn) (Some (kn, hn))
                 | Plug false _ _ => opt_eqb Z.eqb (exp_plugenv i) (Some (i_dur i / second)%Z)
                 | Local => true
                 end = true).
    { unfold exp_plugsig, exp_plugenv. destruct (i_signer i) as [|[] ? ?]; cbn; [reflexivity| |apply Z.eqb_refl].
      unfold pair_eqb. cbn. rewrite !str_eqb_refl. reflexivity. }
    assert (S3 : alg_eqb a a = true) by (destruct a; reflexivity).
    assert (S4 : opt_eqb descr_eqb (Some (expected_signed i an)) (Some (expected_signed i an)) = true)
      by (cbn; apply descr_eqb_refl; assumption).
    assert (S5 : opt_eqb Z.eqb (exp_expiry i)
                   (if (i_dur i / second =? 0)%Z then None else Some (i_now i / second + i_dur i / second)%Z) = true).
    { unfold exp_expiry. rewrite secs_zero by assumption. destruct (i_dur i =? 0)%Z; cbn; [reflexivity|apply Z.eqb_refl]. }
    rewrite S1, S2. unfold exp_sobs. cbn [s_alg s_ctype s_top s_tgt s_payload s_expiry s_time].
    rewrite S3, S4, S5, !list_str_eqb_refl, str_eqb_refl. cbn [andb N.eqb].
    (* verification part *)
    destruct (positive i (expected_signed i an) an) eqn:P.
    - rewrite V. cbn [v_code v_hash v_ret v_meta]. unfold exp_ret.
      rewrite opt_str_eqb_refl. cbn [opt_eqb]. rewrite (amap_eqb_refl _ Hnd).
      destruct (i_vtarget i) as [vd|vb vmt vok]; cbn [target_anns] in *.
      + rewrite (descr_eqb_refl vd lf_vtnodup0). reflexivity.
      + rewrite (descr_eqb_refl _ Hnd). reflexivity.
    - destruct V as (V1 & V2 & V3). rewrite V2, V3.
      destruct (v_code _); [congruence|reflexivity].
  Qed.
End Generic.

(* ---------- the concrete model ---------- *)

Lemma concrete_rt : forall d, in_int64 (d_size d) -> dec_descr d = Some (json_rt d).
Proof.
  intros d [H1 H2]. unfold dec_descr.
  replace (d_size d >? max_int64)%Z with false by (symmetry; rewrite Z.gtb_ltb; apply Z.ltb_ge; exact H2).
  replace (d_size d <? - max_int64 - 1)%Z with false by (symmetry; apply Z.ltb_ge; exact H1).
  reflexivity.
Qed.

Definition c_recode (d : descr) : descr := set_size d (jws_number (d_size d)).

Lemma model_with_eq : forall rp, model_with rp = pipeline descr (fun d => d) dec_descr (fun _ => ["targetArtifact"]) present_keys c_recode rp.
Proof. reflexivity. Qed.

Lemma model_spec_ok : forall i, wf i = true -> spec_ok i (model i) = true.
Proof.
  intros i H. unfold model. rewrite model_with_eq.
  apply (pipeline_spec_ok descr (fun d => d) dec_descr (fun _ => ["targetArtifact"]) present_keys c_recode);
    auto using concrete_rt.
Qed.

Lemma wf_row : forall i, wf i = true -> exists kn a hn an, spec_row (i_ks i) spec_table = Some (kn, a, hn, an).
Proof.
  intros i H. destruct (wf_elim i H) as (Hl & _). unfold legal in Hl.
  destruct (spec_row (i_ks i) spec_table) as [[[[kn a] hn] an]|] eqn:E.
  - eauto.
  - rewrite !andb_false_r in Hl. simpl in Hl. rewrite ?andb_false_r in Hl. discriminate.
Qed.

Lemma model_closed : forall rp i kn a hn an,
  wf i = true -> spec_row (i_ks i) spec_table = Some (kn, a, hn, an) ->
  let v := verify descr dec_descr rp i (exp_env descr (fun d => d) i a an) in
  model_with rp i = mk_obs 0 (exp_shash i an) (exp_plugsig i kn hn) (exp_plugenv i) (Some (exp_sobs i a an))
                           (v_code v) (v_hash v) (v_ret v) (v_meta v).
Proof.
  intros rp i kn a hn an H Hrow. rewrite model_with_eq.
  apply (pipeline_closed descr (fun d => d) dec_descr (fun _ => ["targetArtifact"]) present_keys c_recode);
    auto using concrete_rt.
Qed.

Lemma model_verify : forall rp i kn a hn an,
  wf i = true -> spec_row (i_ks i) spec_table = Some (kn, a, hn, an) ->
  let signed := expected_signed i an in
  let v := verify descr dec_descr rp i (exp_env descr (fun d => d) i a an) in
  if positive i signed an
  then v = mk_vres 0 (exp_shash i an) (Some (exp_ret rp i signed)) (Some (d_anns signed))
  else v_code v <> 0%N /\ v_ret v = None /\ v_meta v = None.
Proof.
  intros rp i kn a hn an H Hrow.
  apply (verify_spec descr (fun d => d) dec_descr concrete_rt) with (kn := kn) (hn := hn); assumption.
Qed.

(* ---------- the statements of the property ---------- *)

(* OCI: what SignOCI signs, Verify verifies, and the payload is the resolved
   descriptor reduced to media type, digest, size and annotations + metadata *)
Lemma roundtrip_oci : forall i d vd,
  wf i = true -> i_target i = TOCI d -> i_vtarget i = TOCI vd -> i_trusted i = true ->
  d_digest vd = d_digest d -> d_size vd = d_size d -> d_mt vd = d_mt d ->
  submap (i_vmeta i) (d_anns d ++ i_meta i) = true ->
  let signed := mk_descr (d_mt d) (d_digest d) (d_size d) [] (d_anns d ++ i_meta i) "" "" "" in
  let o := model i in
  o_sign o = 0%N /\ o_verify o = 0%N /\ o_ret o = Some vd /\ o_meta o = Some (d_anns d ++ i_meta i) /\
  exists s, o_env o = Some s /\ s_payload s = Some signed /\ s_top s = ["targetArtifact"] /\
            s_tgt s = (match d_anns d ++ i_meta i with [] => [] | _ => ["annotations"] end) ++ ["digest"; "mediaType"; "size"].
Proof.
  intros i d vd Hwf Ht Hv Htr Hdg Hsz Hmt Hsub signed o.
  destruct (wf_row i Hwf) as (kn & a & hn & an & Hrow).
  pose proof (model_closed true i kn a hn an Hwf Hrow) as C. cbv zeta in C.
  pose proof (model_verify true i kn a hn an Hwf Hrow) as V. cbv zeta in V.
  assert (Hs : expected_signed i an = signed) by (unfold expected_signed; rewrite Ht; reflexivity).
  assert (P : positive i (expected_signed i an) an = true).
  { rewrite Hs. unfold positive. rewrite Htr, Ht, Hv. unfold signed at 1. cbn [d_anns]. rewrite Hsub.
    unfold content_equal, signed. cbn [d_size d_digest d_mt]. rewrite Hdg, Hsz, Hmt, Z.eqb_refl, !str_eqb_refl. reflexivity. }
  rewrite P in V. subst o. unfold model. rewrite C, V.
  cbn [o_sign o_verify o_ret o_meta o_env v_code v_hash v_ret v_meta].
  unfold exp_ret. rewrite Hv, Hs. repeat split; try reflexivity.
  exists (exp_sobs i a an). unfold exp_sobs. cbn [s_payload s_top s_tgt]. rewrite Hs.
  repeat split. unfold expected_keys. rewrite Ht. reflexivity.
Qed.

(* blobs: the digest is the blob's digest under the algorithm the specification
   binds to the key spec ([an] of the spec_table row); successful VerifyBlob
   returns exactly the signed descriptor; the metadata read back is the caller's *)
Lemma roundtrip_blob : forall i b mt ok vb vmt vok kn a hn an,
  wf i = true -> i_target i = TBlob b mt ok -> i_vtarget i = TBlob vb vmt vok -> i_trusted i = true ->
  spec_row (i_ks i) spec_table = Some (kn, a, hn, an) ->
  b_readerr vb = false -> blob_digest vb an = blob_digest b an -> b_size vb = b_size b ->
  (vmt = "" \/ (vmt = mt /\ vok = true)) ->
  submap (i_vmeta i) (i_meta i) = true ->
  let signed := mk_descr mt (blob_digest b an) (b_size b) [] (i_meta i) "" "" "" in
  let o := model i in
  o_sign o = 0%N /\ o_shash o = Some an /\ o_verify o = 0%N /\ o_vhash o = Some an /\
  o_ret o = Some signed /\ o_meta o = Some (i_meta i) /\
  exists s, o_env o = Some s /\ s_alg s = a /\ s_payload s = Some signed /\ s_top s = ["targetArtifact"] /\
            s_tgt s = (match i_meta i with [] => [] | _ => ["annotations"] end) ++ ["digest"; "mediaType"; "size"].
Proof.
  intros i b mt ok vb vmt vok kn a hn an Hwf Ht Hv Htr Hrow Hvre Hdg Hsz Hvmt Hsub signed o.
  pose proof (model_closed true i kn a hn an Hwf Hrow) as C. cbv zeta in C.
  pose proof (model_verify true i kn a hn an Hwf Hrow) as V. cbv zeta in V.
  assert (Hs : expected_signed i an = signed) by (unfold expected_signed; rewrite Ht; reflexivity).
  assert (P : positive i (expected_signed i an) an = true).
  { rewrite Hs. unfold positive. rewrite Htr, Ht, Hv. unfold signed. cbn [d_anns d_digest d_size d_mt]. rewrite Hsub.
    rewrite Hvre, Hdg, Hsz, Z.eqb_refl, str_eqb_refl.
    destruct Hvmt as [->|[-> ->]]; [reflexivity|]. rewrite str_eqb_refl, orb_true_r. reflexivity. }
  rewrite P in V. subst o. unfold model. rewrite C, V.
  cbn [o_sign o_shash o_verify o_vhash o_ret o_meta o_env v_code v_hash v_ret v_meta].
  unfold exp_ret, exp_shash. rewrite Hv, Ht, Hs. cbn [is_blob]. repeat split; try reflexivity.
  exists (exp_sobs i a an). unfold exp_sobs. cbn [s_alg s_payload s_top s_tgt]. rewrite Hs.
  repeat split. unfold expected_keys. rewrite Ht. reflexivity.
Qed.

(* before a20d301, successful VerifyBlob returned the zero descriptor *)
Lemma blob_descriptor_old : forall i b mt ok vb vmt vok kn a hn an,
  wf i = true -> i_target i = TBlob b mt ok -> i_vtarget i = TBlob vb vmt vok ->
  spec_row (i_ks i) spec_table = Some (kn, a, hn, an) ->
  positive i (expected_signed i an) an = true ->
  o_verify (model_old i) = 0%N /\ o_ret (model_old i) = Some zero_descr.
Proof.
  intros i b mt ok vb vmt vok kn a hn an Hwf Ht Hv Hrow P.
  pose proof (model_closed false i kn a hn an Hwf Hrow) as C. cbv zeta in C.
  pose proof (model_verify false i kn a hn an Hwf Hrow) as V. cbv zeta in V.
  rewrite P in V. unfold model_old. rewrite C, V. cbn. unfold exp_ret. rewrite Hv. split; reflexivity.
Qed.

(* expiry = signing time + requested duration (both in the envelope, in seconds);
   signature algorithm = the one the specification binds to the key spec *)
Lemma expiry_and_alg : forall i kn a hn an,
  wf i = true -> spec_row (i_ks i) spec_table = Some (kn, a, hn, an) ->
  exists s, o_env (model i) = Some s /\ s_alg s = a /\ s_ctype s = mt_payload /\
            s_time s = (i_now i / second)%Z /\
            s_expiry s = (if (i_dur i =? 0)%Z then None else Some (s_time s + i_dur i / second)%Z).
Proof.
  intros i kn a hn an Hwf Hrow.
  pose proof (model_closed true i kn a hn an Hwf Hrow) as C. cbv zeta in C.
  unfold model. rewrite C. cbn [o_env]. exists (exp_sobs i a an). repeat split.
Qed.

(* what a signature-generator plugin is asked: the key spec name and the hash
   name the specification binds to the key; an envelope-generator plugin is
   asked for the requested duration in seconds *)
Lemma plugin_requests : forall i kn a hn an,
  wf i = true -> spec_row (i_ks i) spec_table = Some (kn, a, hn, an) ->
  match i_signer i with
  | Local => o_plugsig (model i) = None /\ o_plugenv (model i) = None
  | Plug true _ _ => o_plugsig (model i) = Some (kn, hn)
  | Plug false _ _ => o_plugenv (model i) = Some (i_dur i / second)%Z
  end.
Proof.
  intros i kn a hn an Hwf Hrow.
  pose proof (model_closed true i kn a hn an Hwf Hrow) as C. cbv zeta in C.
  unfold model. rewrite C. cbn [o_plugsig o_plugenv]. unfold exp_plugsig, exp_plugenv.
  destruct (i_signer i) as [|[] ? ?]; auto.
Qed.

(* a request outside the promise (signer not trusted, other content, metadata
   not signed) does not verify, and nothing is returned *)
Lemma negative_rejected : forall i kn a hn an,
  wf i = true -> spec_row (i_ks i) spec_table = Some (kn, a, hn, an) ->
  positive i (expected_signed i an) an = false ->
  o_verify (model i) <> 0%N /\ o_ret (model i) = None /\ o_meta (model i) = None.
Proof.
  intros i kn a hn an Hwf Hrow P.
  pose proof (model_closed true i kn a hn an Hwf Hrow) as C. cbv zeta in C.
  pose proof (model_verify true i kn a hn an Hwf Hrow) as V. cbv zeta in V.
  rewrite P in V. unfold model. rewrite C. exact V.
Qed.

(* ---------- any JSON codec meeting the round-trip hypotheses ---------- *)

(* The property holds of the pipeline over ANY payload codec (bytes, enc, dec,
   key sets, JWS re-encoding) with: decoding an encoded descriptor whose size is
   an int64 gives the JSON round trip [json_rt] of it; the document has the single
   key targetArtifact and the omitempty key set; the JWS re-encoding changes the
   numbers only, as [jws_number]. *)
Lemma any_codec_spec_ok :
  forall (bytes : Type) (enc : descr -> bytes) (dec : bytes -> option descr)
         (top_keys tgt_keys : bytes -> list string) (recode : bytes -> bytes),
  (forall d, in_int64 (d_size d) -> dec (enc d) = Some (json_rt d)) ->
  (forall d, top_keys (enc d) = ["targetArtifact"]) ->
  (forall d, tgt_keys (enc d) = present_keys d) ->
  (forall d, recode (enc d) = enc (set_size d (jws_number (d_size d)))) ->
  forall i, wf i = true -> spec_ok i (pipeline bytes enc dec top_keys tgt_keys recode true i) = true.
Proof. intros. apply pipeline_spec_ok; assumption. Qed.

(* ---------- witnesses ---------- *)

Definition ex_consts : consts := mk_consts "notation-go/1.3.0+unreleased" "vh-plugin" "1.2.3" "vh-envelope-plugin/9".

Definition ex_desc (size : Z) : descr :=
  mk_descr "application/vnd.oci.image.manifest.v1+json" "sha256:9834876dcfb05cb167a5c24953eba58c4ac89b1adf57f28f2f9d09af107ee8f0"
           size ["https://example.com/blob"] [("org.opencontainers.image.title", "app")] "e30=" "linux/amd64"
           "application/vnd.example.sbom.v1".

Definition ex_oci (fmt : string) (sg : signer) (size : Z) : input :=
  mk_input (TOCI (ex_desc size)) sg (mk_ks KRSA 3072) fmt [("buildId", "42")] (3600 * second) ""
           1700000000123456789 ex_consts true (TOCI (ex_desc size)) [("buildId", "42")].

Definition ex_blob_b : blob := mk_blob 11 "sha256:aa" "sha384:bb" "sha512:cc" false.

Definition ex_blob (meta : amap) : input :=
  mk_input (TBlob ex_blob_b "text/plain" true) (Plug true false "EC-521") (mk_ks KEC 521) mt_cose meta (86400 * second)
           "" 1700000000999999999 ex_consts true (TBlob ex_blob_b "" false) [].

(* non-vacuity: concrete well-formed inputs and what the model says *)
Lemma example_oci :
  wf (ex_oci mt_cose Local 528) = true /\
  model (ex_oci mt_cose Local 528)
  = mk_obs 0 None None None
      (Some (mk_sobs PS384 mt_payload ["targetArtifact"] ["annotations"; "digest"; "mediaType"; "size"]
         (Some (mk_descr "application/vnd.oci.image.manifest.v1+json"
                  "sha256:9834876dcfb05cb167a5c24953eba58c4ac89b1adf57f28f2f9d09af107ee8f0" 528 []
                  [("org.opencontainers.image.title", "app"); ("buildId", "42")] "" "" ""))
         1700000000 (Some 1700003600%Z) "notation-go/1.3.0+unreleased"))
      0 None (Some (ex_desc 528)) (Some [("org.opencontainers.image.title", "app"); ("buildId", "42")]).
Proof. split; vm_compute; reflexivity. Qed.

Lemma example_blob :
  wf (ex_blob [("releasedBy", "me")]) = true /\
  model (ex_blob [("releasedBy", "me")])
  = mk_obs 0 (Some "sha512") (Some ("EC-521", "SHA-512")) None
      (Some (mk_sobs ES512 mt_payload ["targetArtifact"] ["annotations"; "digest"; "mediaType"; "size"]
         (Some (mk_descr "text/plain" "sha512:cc" 11 [] [("releasedBy", "me")] "" "" ""))
         1700000000 (Some 1700086400%Z) "notation-go/1.3.0+unreleased vh-plugin/1.2.3"))
      0 (Some "sha512") (Some (mk_descr "text/plain" "sha512:cc" 11 [] [("releasedBy", "me")] "" "" ""))
      (Some [("releasedBy", "me")]).
Proof. split; vm_compute; reflexivity. Qed.

(* KNOWN finding, footprint 1: with the JWS envelope an OCI descriptor size that
   is not a float64 is signed rounded, and verification then fails; COSE is exact *)
Lemma jws_size_refuted :
  let i := ex_oci mt_jws Local 9007199254740993 in
  legal i = true /\ wf i = false /\ spec_ok i (model i) = false /\
  o_verify (model i) = 2%N /\
  (exists s p, o_env (model i) = Some s /\ s_payload s = Some p /\ d_size p = 9007199254740992%Z) /\
  spec_ok (ex_oci mt_cose Local 9007199254740993) (model (ex_oci mt_cose Local 9007199254740993)) = true.
Proof.
  cbv zeta. repeat split; try (vm_compute; reflexivity).
  eexists. eexists. split; [vm_compute; reflexivity|]. split; reflexivity.
Qed.

(* the same defect makes an envelope-generator plugin signer fail at Sign *)
Lemma jws_size_plugin_refuted :
  let i := ex_oci mt_jws (Plug false true "RSA-3072") 9007199254740993 in
  legal i = true /\ o_sign (model i) = 3%N.
Proof. cbv zeta. split; vm_compute; reflexivity. Qed.

(* user metadata that is not valid UTF-8 is not read back as it was given
   (JSON replaces the offending bytes by U+FFFD): [legal] has to demand text *)
Lemma non_utf8_metadata_refuted :
  let i := ex_blob [("m", B [255%N])] in
  legal i = false /\ o_sign (model i) = 0%N /\ o_verify (model i) = 0%N /\
  o_meta (model i) = Some [("m", B [239%N; 191%N; 189%N])] /\ o_meta (model i) <> Some (i_meta i).
Proof.
  cbv zeta. repeat split; try (vm_compute; reflexivity).
  vm_compute. intros H. discriminate H.
Qed.

(* notation.VerifyBlob before a20d301: the zero descriptor comes back, and the
   oracle rejects that behaviour *)
Lemma blob_descriptor_old_refuted :
  let i := ex_blob [("releasedBy", "me")] in
  wf i = true /\ o_verify (model_old i) = 0%N /\ o_ret (model_old i) = Some zero_descr /\
  spec_ok i (model_old i) = false /\ spec_ok i (model i) = true.
Proof. cbv zeta. repeat split; vm_compute; reflexivity. Qed.

Lemma keyspec_names : forall k s, decode_keyspec s = Some k <-> encode_keyspec k = Some s.
Proof. intros k s. split; [exact (decode_encode k s) | exact (encode_decode k s)]. Qed.
