(* C07_Proofs.v — proofs about C07_Model. *)
From NV Require Import Base Generated C07_Model.
Open Scope string_scope.

(* ---------- small facts ---------- *)

Lemma andb_split : forall a b, a && b = true -> a = true /\ b = true.
Proof. intros a b H. apply andb_true_iff in H. exact H. Qed.

Lemma str_eqb_refl : forall s, String.eqb s s = true.
Proof. intros. apply String.eqb_refl. Qed.

Lemma compare_refl : forall s, String.compare s s = Eq.
Proof.
  intros s. pose proof (String.compare_antisym s s) as H.
  destruct (String.compare s s); simpl in H; congruence.
Qed.

Lemma ltb_irrefl : forall s, String.ltb s s = false.
Proof. intros s. unfold String.ltb. rewrite compare_refl. reflexivity. Qed.

Lemma filter_all {A} (f : A -> bool) : forall l, (forall x, In x l -> f x = true) -> filter f l = l.
Proof.
  induction l as [|x l IH]; intros H; simpl; [reflexivity|].
  rewrite (H x (or_introl eq_refl)). f_equal. apply IH. intros y Hy. apply H. right. exact Hy.
Qed.

Lemma map_id_in {A} (g : A -> A) : forall l, (forall x, In x l -> g x = x) -> map g l = l.
Proof.
  induction l as [|x l IH]; intros H; simpl; [reflexivity|].
  rewrite (H x (or_introl eq_refl)). f_equal. apply IH. intros y Hy. apply H. right. exact Hy.
Qed.

Lemma existsb_false {A} (f : A -> bool) : forall l, (forall x, In x l -> f x = false) -> existsb f l = false.
Proof.
  induction l as [|x l IH]; intros H; simpl; [reflexivity|].
  rewrite (H x (or_introl eq_refl)). simpl. apply IH. intros y Hy. apply H. right. exact Hy.
Qed.

Lemma json_safe_eq : forall s, json_safe s = true -> coerce s = s.
Proof. intros s H. apply String.eqb_eq. exact H. Qed.

Lemma coerce_empty : coerce "" = "".
Proof. reflexivity. Qed.

(* ---------- maps ---------- *)

Lemma safe_map_in : forall m e, safe_map m = true -> In e m -> coerce (fst e) = fst e /\ coerce (snd e) = snd e.
Proof.
  intros m e H Hin. unfold safe_map in H. rewrite forallb_forall in H.
  specialize (H e Hin). apply andb_split in H. destruct H as [H1 H2].
  split; apply json_safe_eq; assumption.
Qed.

(* JSON carries a map of valid UTF-8 strings unchanged *)
Lemma rt_map_safe : forall m, safe_map m = true -> rt_map m = m.
Proof.
  intros m H. unfold rt_map.
  rewrite filter_all.
  - apply map_id_in. intros [k v] Hin. destruct (safe_map_in m (k, v) H Hin) as [E1 E2].
    simpl in *. rewrite E1, E2. reflexivity.
  - intros e Hin. apply negb_true_iff. apply existsb_false. intros e' Hin'.
    destruct (safe_map_in m e H Hin) as [E1 _]. destruct (safe_map_in m e' H Hin') as [E1' _].
    rewrite E1, E1'. destruct (String.eqb (fst e') (fst e)) eqn:E; [|reflexivity].
    apply String.eqb_eq in E. rewrite E. rewrite ltb_irrefl. reflexivity.
Qed.

Lemma lookup_app : forall k a b, lookup k (a ++ b) = match lookup k a with Some v => Some v | None => lookup k b end.
Proof.
  intros k a b. induction a as [|[k' v'] a IH]; simpl; [reflexivity|].
  destruct (String.eqb k k'); [reflexivity|exact IH].
Qed.

Lemma in_has_key : forall m k v, In (k, v) m -> has_key k m = true.
Proof.
  unfold has_key. induction m as [|[k' v'] m IH]; intros k v H; simpl in *; [contradiction|].
  destruct H as [H|H].
  - inversion H; subst. rewrite str_eqb_refl. reflexivity.
  - destruct (String.eqb k k'); [reflexivity|]. eapply IH; eauto.
Qed.

Lemma has_key_app_r : forall a m k, has_key k m = true -> has_key k (a ++ m) = true.
Proof.
  unfold has_key. intros a m k H. rewrite lookup_app. destruct (lookup k a); [reflexivity|exact H].
Qed.

Lemma nodup_app_no_key : forall a m k v, nodup_keys (a ++ m) = true -> In (k, v) m -> has_key k a = false.
Proof.
  induction a as [|[k' v'] a IH]; intros m k v H Hin; simpl in *; [reflexivity|].
  apply andb_split in H. destruct H as [H1 H2].
  unfold has_key. simpl. destruct (String.eqb k k') eqn:E.
  - apply String.eqb_eq in E; subst k'.
    rewrite (has_key_app_r a m k (in_has_key m k v Hin)) in H1. discriminate.
  - apply (IH m k v H2 Hin).
Qed.

Lemma nodup_app_r : forall a m, nodup_keys (a ++ m) = true -> nodup_keys m = true.
Proof.
  induction a as [|[k v] a IH]; intros m H; simpl in *; [exact H|].
  apply andb_split in H. destruct H as [_ H]. apply IH. exact H.
Qed.

Lemma lookup_nodup : forall m k v, nodup_keys m = true -> In (k, v) m -> lookup k m = Some v.
Proof.
  induction m as [|[k' v'] m IH]; intros k v H Hin; simpl in *; [contradiction|].
  apply andb_split in H. destruct H as [H1 H2].
  destruct Hin as [Hin|Hin].
  - inversion Hin; subst. rewrite str_eqb_refl. reflexivity.
  - destruct (String.eqb k k') eqn:E.
    + apply String.eqb_eq in E; subst k'. rewrite (in_has_key m k v Hin) in H1. discriminate.
    + apply IH; assumption.
Qed.

Lemma submap_refl : forall m, nodup_keys m = true -> submap m m = true.
Proof.
  intros m H. unfold submap. apply forallb_forall. intros [k v] Hin. simpl.
  rewrite (lookup_nodup m k v H Hin). apply str_eqb_refl.
Qed.

Lemma amap_eqb_refl : forall m, nodup_keys m = true -> amap_eqb m m = true.
Proof.
  intros m H. unfold amap_eqb. rewrite Nat.eqb_refl. simpl. apply submap_refl. exact H.
Qed.

Lemma list_str_eqb_refl : forall l, list_eqb String.eqb l l = true.
Proof. induction l; simpl; [reflexivity|]. rewrite str_eqb_refl. exact IHl. Qed.

Lemma descr_eqb_refl : forall d, nodup_keys (d_anns d) = true -> descr_eqb d d = true.
Proof.
  intros d H. unfold descr_eqb.
  rewrite !str_eqb_refl, Z.eqb_refl, list_str_eqb_refl, (amap_eqb_refl _ H). reflexivity.
Qed.

(* ---------- the algorithm tables (C07_hash_bound) ---------- *)

Lemma keyspec_eqb_eq : forall a b, keyspec_eqb a b = true -> a = b.
Proof.
  intros [t n] [t' n'] H. unfold keyspec_eqb in H. simpl in H. apply andb_split in H. destruct H as [H1 H2].
  apply N.eqb_eq in H2. subst. destruct t, t'; simpl in H1; try discriminate; reflexivity.
Qed.

Lemma keyspec_eqb_refl : forall a, keyspec_eqb a a = true.
Proof. intros [t n]. unfold keyspec_eqb. simpl. rewrite N.eqb_refl. destruct t; reflexivity. Qed.

Lemma spec_row_cases : forall k r, spec_row k spec_table = Some r -> In (k, r) spec_table.
Proof.
  intros k r H. unfold spec_table in *. simpl in H.
  repeat match type of H with
  | (if keyspec_eqb ?a ?b then _ else _) = _ =>
      let E := fresh "E" in destruct (keyspec_eqb a b) eqn:E;
      [apply keyspec_eqb_eq in E; subst; inversion H; subst; simpl; tauto|]
  end.
  discriminate.
Qed.

(* for every supported key spec: the signature algorithm core derives, the
   digest algorithm the signer's table and the verifier's table give for its
   hash, the plugin names and their decoding all agree with the specification
   table *)
Lemma tables_agree : forall k kn a hn an,
  spec_row k spec_table = Some (kn, a, hn, an) ->
  sig_alg k = a /\ a <> A0 /\
  signer_algorithms (alg_hash a) = Some an /\ verifier_algorithms (alg_hash a) = Some an /\
  encode_keyspec k = Some kn /\ decode_keyspec kn = Some k /\ hash_from_keyspec k = Some hn.
Proof.
  intros k kn a hn an H. apply spec_row_cases in H. simpl in H.
  repeat destruct H as [H|H]; try contradiction; inversion H; subst; cbn; repeat split; congruence.
Qed.

Lemma decode_encode : forall k s, decode_keyspec s = Some k -> encode_keyspec k = Some s.
Proof.
  intros k s H. unfold decode_keyspec in H.
  repeat match type of H with
  | (if String.eqb ?a ?b then _ else _) = _ =>
      let E := fresh "E" in destruct (String.eqb a b) eqn:E;
      [apply String.eqb_eq in E; subst; inversion H; subst; reflexivity|]
  end.
  discriminate.
Qed.

Lemma encode_decode : forall k s, encode_keyspec k = Some s -> decode_keyspec s = Some k.
Proof.
  intros [t n] s H. unfold encode_keyspec in H. simpl in H.
  destruct t; try discriminate;
  repeat match type of H with
  | (if N.eqb ?a ?b then _ else _) = _ =>
      let E := fresh "E" in destruct (N.eqb a b) eqn:E;
      [apply N.eqb_eq in E; subst; inversion H; subst; reflexivity|]
  end; discriminate.
Qed.

(* the digest algorithm used at signing and at verification is the same for
   EVERY key spec core can derive an algorithm for, and exists whenever core
   accepts the key *)
Lemma hash_bound_all : forall k,
  signer_algorithms (alg_hash (sig_alg k)) = verifier_algorithms (alg_hash (sig_alg k)) /\
  (sig_alg k <> A0 -> exists an, signer_algorithms (alg_hash (sig_alg k)) = Some an).
Proof.
  intros k. split.
  - destruct (sig_alg k); reflexivity.
  - destruct (sig_alg k); intros H; try congruence; eexists; reflexivity.
Qed.

(* a key spec core accepts is one of the six of the specification table *)
Lemma sig_alg_supported : forall k, sig_alg k <> A0 -> exists r, spec_row k spec_table = Some r.
Proof.
  intros [t n] H. unfold sig_alg in H. simpl in H.
  destruct t; try congruence;
  repeat match type of H with
  | (if N.eqb ?a ?b then _ else _) <> _ =>
      let E := fresh "E" in destruct (N.eqb a b) eqn:E;
      [apply N.eqb_eq in E; subst; eexists; reflexivity|]
  end; congruence.
Qed.

(* ---------- time ---------- *)

Lemma second_pos : (0 < second)%Z.
Proof. reflexivity. Qed.

(* C07_expiry: truncation to seconds commutes with adding a whole number of seconds *)
Lemma trunc_add : forall t d, (Z.rem d second = 0)%Z -> (0 <= d)%Z ->
  ((t + d) / second = t / second + d / second)%Z.
Proof.
  intros t d H Hd. rewrite Z.rem_mod_nonneg in H by (try assumption; reflexivity).
  apply Z.mod_divide in H; [|discriminate]. destruct H as [q Hq]. subst d.
  rewrite Z.div_add by discriminate. rewrite Z.div_mul by discriminate. reflexivity.
Qed.

Lemma dur_pos_secs : forall d, (Z.rem d second = 0)%Z -> (0 <= d)%Z -> d <> 0%Z -> (0 < d / second)%Z.
Proof.
  intros d H Hd Hn. rewrite Z.rem_mod_nonneg in H by (try assumption; reflexivity).
  apply Z.mod_divide in H; [|discriminate]. destruct H as [q Hq]. subst d.
  rewrite Z.div_mul by discriminate. unfold second in *. lia.
Qed.

Lemma secs_mul : forall d, (Z.rem d second = 0)%Z -> (0 <= d)%Z -> (d / second * second = d)%Z.
Proof.
  intros d H Hd. rewrite Z.rem_mod_nonneg in H by (try assumption; reflexivity).
  apply Z.mod_divide in H; [|discriminate]. destruct H as [q Hq]. subst d.
  rewrite Z.div_mul by discriminate. reflexivity.
Qed.

(* without the granularity guard of validateSignArguments the statement fails *)
Lemma trunc_add_unguarded_refuted :
  exists t d, (0 < d)%Z /\ ((t + d) / second <> t / second + d / second)%Z.
Proof. exists 1999999999%Z, 1500000001%Z. split; [reflexivity|]. vm_compute. discriminate. Qed.
