(* C15_Codec.v — the text written by Set (C15_Model.enc_json: fixed JSON text +
   standard base64) determines the stored bytes: [dec_canon] decodes it.
   Consequences: enc_json is injective up to omitempty, and the hypothesis
   [roundtrip_on enc_json dec] of the C15 theorems is satisfiable for all
   histories at once.  No axioms. *)
From NV Require Import Base C15_Model C15_Proofs.
Open Scope string_scope.

(* ---------- strings ---------- *)
Lemma sapp_assoc (a b c : string) : (a ++ b) ++ c = a ++ (b ++ c).
Proof. induction a as [|x a IH]; cbn; auto. rewrite IH. reflexivity. Qed.

Lemma strip_app p r : strip p (p ++ r) = Some r.
Proof. induction p as [|a p IH]; cbn; auto. rewrite Ascii.eqb_refl. auto. Qed.

Lemma cut_byte_app c t r :
  contains_byte c t = false -> cut_byte c (t ++ String c r) = Some (t, r).
Proof.
  induction t as [|a t IH]; cbn.
  - intros _. rewrite Ascii.eqb_refl. reflexivity.
  - intros H. apply orb_false_iff in H as [Ha Ht]. rewrite Ha, IH; auto.
Qed.

Lemma string_ind3 (P : string -> Prop) :
  P "" -> (forall a, P (String a "")) -> (forall a b, P (String a (String b ""))) ->
  (forall a b c r, P r -> P (String a (String b (String c r)))) ->
  forall s, P s.
Proof.
  intros H0 H1 H2 H3. fix IH 1.
  intros [|a [|b [|c r]]].
  - exact H0.
  - apply H1.
  - apply H2.
  - apply H3. apply IH.
Qed.

(* ---------- base64 ---------- *)
Lemma unsext_sext b5 b4 b3 b2 b1 b0 :
  unsext (sext b5 b4 b3 b2 b1 b0) = Some (b5, b4, b3, b2, b1, b0).
Proof. destruct b5, b4, b3, b2, b1, b0; vm_compute; reflexivity. Qed.

Lemma sext_not_pad b5 b4 b3 b2 b1 b0 : Ascii.eqb (sext b5 b4 b3 b2 b1 b0) pad = false.
Proof. destruct b5, b4, b3, b2, b1, b0; vm_compute; reflexivity. Qed.

Lemma sext_not_quote b5 b4 b3 b2 b1 b0 : Ascii.eqb (sext b5 b4 b3 b2 b1 b0) """" = false.
Proof. destruct b5, b4, b3, b2, b1, b0; vm_compute; reflexivity. Qed.

Lemma b64dec_enc : forall s, b64dec (b64enc s) = Some s.
Proof.
  apply string_ind3.
  - reflexivity.
  - intros [a0 a1 a2 a3 a4 a5 a6 a7]. cbn [b64enc b64dec].
    rewrite !unsext_sext. reflexivity.
  - intros [a0 a1 a2 a3 a4 a5 a6 a7] [b0 b1 b2 b3 b4 b5 b6 b7]. cbn [b64enc b64dec].
    rewrite !unsext_sext, !sext_not_pad. reflexivity.
  - intros [a0 a1 a2 a3 a4 a5 a6 a7] [b0 b1 b2 b3 b4 b5 b6 b7] [c0 c1 c2 c3 c4 c5 c6 c7] r IH.
    cbn [b64enc]. cbn [b64dec]. fold b64dec.
    rewrite !unsext_sext, !sext_not_pad, IH. reflexivity.
Qed.

Lemma b64enc_no_quote : forall s, contains_byte """" (b64enc s) = false.
Proof.
  apply string_ind3.
  - reflexivity.
  - intros [a0 a1 a2 a3 a4 a5 a6 a7]. cbn [b64enc contains_byte]. rewrite !sext_not_quote. reflexivity.
  - intros [a0 a1 a2 a3 a4 a5 a6 a7] [b0 b1 b2 b3 b4 b5 b6 b7]. cbn [b64enc contains_byte].
    rewrite !sext_not_quote. reflexivity.
  - intros [a0 a1 a2 a3 a4 a5 a6 a7] [b0 b1 b2 b3 b4 b5 b6 b7] [c0 c1 c2 c3 c4 c5 c6 c7] r IH.
    cbn [b64enc contains_byte]. rewrite !sext_not_quote, IH. reflexivity.
Qed.

(* base64 is injective: two byte strings never have the same text *)
Lemma b64enc_inj a b : b64enc a = b64enc b -> a = b.
Proof.
  intros E. apply (f_equal b64dec) in E. rewrite !b64dec_enc in E. congruence.
Qed.

(* ---------- the values of the entry ---------- *)
Lemma dec_value_null r : dec_value ("null" ++ r) = Some (false, "", r).
Proof. reflexivity. Qed.

Lemma dec_value_quoted x r : dec_value ("""" ++ b64enc x ++ """" ++ r) = Some (true, x, r).
Proof.
  unfold dec_value. cbn [append strip]. cbn [Ascii.eqb Bool.eqb].
  change (String """" r) with (String """" r).
  rewrite cut_byte_app by apply b64enc_no_quote.
  rewrite b64dec_enc. reflexivity.
Qed.

Lemma jbytes_quoted x : x <> "" -> jbytes x = """" ++ b64enc x ++ """".
Proof. destruct x; [contradiction|reflexivity]. Qed.

(* the base value, followed by anything: its bytes come back *)
Lemma dec_value_jbase e b r : exists fl, dec_value (jbase e b ++ r) = Some (fl, b, r).
Proof.
  destruct b as [|a b].
  - destruct e; cbn [jbase].
    + exists true. change ("""""" ++ r) with ("""" ++ b64enc "" ++ """" ++ r). apply dec_value_quoted.
    + exists false. apply dec_value_null.
  - exists true. cbn [jbase]. rewrite jbytes_quoted by discriminate.
    rewrite !sapp_assoc. apply dec_value_quoted.
Qed.

Theorem dec_canon_enc e b d : dec_canon (enc_json e b d) = Some (b, norm d).
Proof.
  unfold dec_canon, enc_json. rewrite strip_app.
  destruct d as [[|x d]|]; cbn [norm].
  - destruct (dec_value_jbase e b ("" ++ "}")) as (fl & ->). reflexivity.
  - remember (String x d) as dd eqn:Edd.
    assert (dd <> "") as Hdd by (subst; discriminate).
    rewrite jbytes_quoted by auto. rewrite !sapp_assoc.
    destruct (dec_value_jbase e b (",""deltaCRL"":" ++ """" ++ b64enc dd ++ """" ++ "}")) as (fl & ->).
    cbn [append]. cbn [strip Ascii.eqb Bool.eqb].
    change (String """" (b64enc dd ++ String """" "}")) with ("""" ++ b64enc dd ++ """" ++ "}").
    rewrite dec_value_quoted. reflexivity.
  - destruct (dec_value_jbase e b ("" ++ "}")) as (fl & ->). reflexivity.
Qed.

(* two Sets write the same text only for the same bytes (a delta of length 0 and
   no delta are the same entry: omitempty) *)
Theorem enc_json_injective e b d e' b' d' :
  enc_json e b d = enc_json e' b' d' -> b = b' /\ norm d = norm d'.
Proof.
  intros E. apply (f_equal dec_canon) in E. rewrite !dec_canon_enc in E.
  injection E as -> ->. auto.
Qed.

(* the hypothesis on the decoder used throughout is satisfiable, for every history at once *)
Lemma roundtrip_canon ops : roundtrip_on enc_json dec_canon ops.
Proof.
  unfold roundtrip_on. apply Forall_forall. intros o _.
  destruct o as [u e bd|u t|u c|u|u]; cbn; auto.
  destruct bd as [[[b|] d]|]; cbn; auto. apply dec_canon_enc.
Qed.

Theorem roundtrip_satisfiable : exists dec, forall ops, roundtrip_on enc_json dec ops.
Proof. exists dec_canon. exact roundtrip_canon. Qed.

Lemma inj_id us : inj_on (fun u => u) us.
Proof. intros u v _ _ E. exact E. Qed.

(* and so is the hypothesis on the hash: any injective function will do *)
Theorem inj_satisfiable : exists sha, forall us, inj_on sha us.
Proof. exists (fun u => u). intros us u v _ _ E. exact E. Qed.
