(* C20_ReLang.v — denotational semantics of the core regular expressions of
   Regex.v and correctness (soundness and completeness) of the Brzozowski
   matcher [run_re]; generic inversion lemmas used by C20_SemverProofs.v.
   No axioms. *)
From NV Require Import Base Regex.
Open Scope N_scope.
Open Scope list_scope.

Inductive lang : cre -> list N -> Prop :=
| L_eps : lang CEps []
| L_cls rs c : in_cls c rs = true -> lang (CCls rs) [c]
| L_cat a b s1 s2 : lang a s1 -> lang b s2 -> lang (CCat a b) (s1 ++ s2)
| L_altl a b s : lang a s -> lang (CAlt a b) s
| L_altr a b s : lang b s -> lang (CAlt a b) s
| L_star_nil a : lang (CStar a) []
| L_star_step a s1 s2 : lang a s1 -> lang (CStar a) s2 -> lang (CStar a) (s1 ++ s2).

(* ---------- inversion lemmas ---------- *)
Lemma lang_none_inv s : lang CNone s <-> False.
Proof. split; [intros H; inversion H | tauto]. Qed.

Lemma lang_eps_inv s : lang CEps s <-> s = [].
Proof. split; [intros H; inversion H; reflexivity | intros ->; constructor]. Qed.

Lemma lang_cls_inv rs s : lang (CCls rs) s <-> exists c, s = [c] /\ in_cls c rs = true.
Proof.
  split.
  - intros H; inversion H; subst. eexists; split; [reflexivity|assumption].
  - intros (c & -> & Hc). constructor; assumption.
Qed.

Lemma lang_cat_inv a b s :
  lang (CCat a b) s <-> exists s1 s2, s = s1 ++ s2 /\ lang a s1 /\ lang b s2.
Proof.
  split.
  - intros H; inversion H; subst. do 2 eexists; split; [reflexivity|split; assumption].
  - intros (s1 & s2 & -> & H1 & H2). constructor; assumption.
Qed.

Lemma lang_alt_inv a b s : lang (CAlt a b) s <-> lang a s \/ lang b s.
Proof.
  split.
  - intros H; inversion H; subst; [left|right]; assumption.
  - intros [H|H]; [apply L_altl | apply L_altr]; assumption.
Qed.

(* a star is a concatenation of a list of words of the body *)
Lemma lang_star_concat a s :
  lang (CStar a) s <-> exists l, s = List.concat l /\ Forall (lang a) l.
Proof.
  split.
  - intros H. remember (CStar a) as r eqn:Er. revert Er.
    induction H as [| | | | | a0 | a0 s1 s2 H1 _ H2 IH2]; intros Er; try discriminate.
    + exists []. split; [reflexivity|constructor].
    + injection Er as ->. destruct (IH2 eq_refl) as (l & -> & Hl).
      exists (s1 :: l). split; [reflexivity|constructor; assumption].
  - intros (l & -> & Hl). induction Hl as [|x l Hx _ IH]; cbn.
    + constructor.
    + constructor; assumption.
Qed.

Lemma lang_star_cls rs s :
  lang (CStar (CCls rs)) s <-> Forall (fun c => in_cls c rs = true) s.
Proof.
  rewrite lang_star_concat. split.
  - intros (l & -> & Hl). induction Hl as [|x l Hx _ IH]; cbn; [constructor|].
    apply lang_cls_inv in Hx. destruct Hx as (c & -> & Hc). cbn. constructor; assumption.
  - intros H. exists (map (fun c => [c]) s). split.
    + induction s as [|c s IH]; cbn; [reflexivity|]. inversion H; subst. f_equal. apply IH. assumption.
    + induction H as [|c s Hc _ IH]; cbn; constructor; [constructor; assumption | assumption].
Qed.

(* a non-empty word of a star starts with a non-empty word of the body *)
Lemma lang_star_cons a c s :
  lang (CStar a) (c :: s) -> exists s1 s2, s = s1 ++ s2 /\ lang a (c :: s1) /\ lang (CStar a) s2.
Proof.
  intros H. remember (CStar a) as r eqn:Er. remember (c :: s) as w eqn:Ew. revert Er s Ew.
  induction H as [| | | | | a0 | a0 s1 s2 H1 _ H2 IH2]; intros Er s' Ew; try discriminate.
  injection Er as ->. destruct s1 as [|c1 s1].
  - cbn in Ew. apply IH2; [reflexivity|assumption].
  - cbn in Ew. injection Ew as -> <-. exists s1, s2. repeat split; assumption.
Qed.

(* ---------- nullable ---------- *)
Lemma nullable_spec r : nullable r = true <-> lang r [].
Proof.
  induction r as [| |rs|a IHa b IHb|a IHa b IHb|a IHa]; cbn [nullable].
  - rewrite lang_none_inv. split; [discriminate|tauto].
  - split; [constructor|reflexivity].
  - rewrite lang_cls_inv. split; [discriminate|]. intros (c & E & _). discriminate.
  - rewrite andb_true_iff, IHa, IHb, lang_cat_inv. split.
    + intros [H1 H2]. exists [], []. auto.
    + intros (s1 & s2 & E & H1 & H2). symmetry in E. apply app_eq_nil in E. destruct E as [-> ->]. auto.
  - rewrite orb_true_iff, IHa, IHb, lang_alt_inv. tauto.
  - split; [constructor|reflexivity].
Qed.

(* ---------- smart constructors ---------- *)
Lemma mkcat_lang a b s : lang (mkcat a b) s <-> lang (CCat a b) s.
Proof.
  rewrite lang_cat_inv.
  assert (Hnl : forall x, (exists s1 s2, s = s1 ++ s2 /\ lang CNone s1 /\ lang x s2) <-> False).
  { intros x. split; [|tauto]. intros (s1 & s2 & _ & H & _). inversion H. }
  assert (Hnr : forall x, (exists s1 s2, s = s1 ++ s2 /\ lang x s1 /\ lang CNone s2) <-> False).
  { intros x. split; [|tauto]. intros (s1 & s2 & _ & _ & H). inversion H. }
  assert (Hel : forall x, (exists s1 s2, s = s1 ++ s2 /\ lang CEps s1 /\ lang x s2) <-> lang x s).
  { intros x. split.
    - intros (s1 & s2 & -> & H1 & H2). apply lang_eps_inv in H1. subst. exact H2.
    - intros H. exists [], s. repeat split; [constructor|assumption]. }
  assert (Her : forall x, (exists s1 s2, s = s1 ++ s2 /\ lang x s1 /\ lang CEps s2) <-> lang x s).
  { intros x. split.
    - intros (s1 & s2 & -> & H1 & H2). apply lang_eps_inv in H2. subst. rewrite app_nil_r. exact H1.
    - intros H. exists s, []. rewrite app_nil_r. repeat split; [assumption|constructor]. }
  destruct a, b; cbn [mkcat];
    rewrite ?Hnl, ?Hnr, ?Hel, ?Her, ?lang_none_inv; try tauto;
    rewrite <- lang_cat_inv; tauto.
Qed.

Lemma mkalt_lang a b s : lang (mkalt a b) s <-> lang (CAlt a b) s.
Proof.
  rewrite lang_alt_inv.
  destruct a, b; cbn [mkalt]; rewrite ?lang_none_inv; try tauto;
    rewrite lang_alt_inv; tauto.
Qed.

(* ---------- derivatives ---------- *)
Lemma deriv_lang r : forall c s, lang (deriv c r) s <-> lang r (c :: s).
Proof.
  induction r as [| |rs|a IHa b IHb|a IHa b IHb|a IHa]; intros c s; cbn [deriv].
  - rewrite !lang_none_inv. tauto.
  - rewrite lang_none_inv, lang_eps_inv. split; [tauto|discriminate].
  - rewrite lang_cls_inv. destruct (in_cls c rs) eqn:Ec.
    + rewrite lang_eps_inv. split.
      * intros ->. exists c. auto.
      * intros (c' & E & _). injection E as _ ->. reflexivity.
    + rewrite lang_none_inv. split; [tauto|]. intros (c' & E & Hc). injection E as -> _. congruence.
  - assert (Hcat : lang (CCat a b) (c :: s) <->
                   lang (CCat (deriv c a) b) s \/ (lang a [] /\ lang b (c :: s))).
    { rewrite !lang_cat_inv. split.
      - intros (s1 & s2 & E & H1 & H2). destruct s1 as [|c1 s1].
        + cbn in E. subst s2. right. auto.
        + cbn in E. injection E as <- ->. left. exists s1, s2. rewrite IHa. auto.
      - intros [(s1 & s2 & -> & H1 & H2) | [H1 H2]].
        + rewrite IHa in H1. exists (c :: s1), s2. auto.
        + exists [], (c :: s). auto. }
    rewrite Hcat. destruct (nullable a) eqn:En.
    + rewrite mkalt_lang, lang_alt_inv, mkcat_lang, IHb.
      apply nullable_spec in En. tauto.
    + rewrite mkcat_lang. split; [tauto|]. intros [H|[H _]]; [exact H|].
      apply nullable_spec in H. congruence.
  - rewrite mkalt_lang, !lang_alt_inv, IHa, IHb. tauto.
  - rewrite mkcat_lang, lang_cat_inv. split.
    + intros (s1 & s2 & -> & H1 & H2). rewrite IHa in H1.
      change (c :: s1 ++ s2) with ((c :: s1) ++ s2). constructor; assumption.
    + intros H. apply lang_star_cons in H. destruct H as (s1 & s2 & -> & H1 & H2).
      exists s1, s2. rewrite IHa. auto.
Qed.

(* ---------- the matcher is correct ---------- *)
Theorem run_re_lang s : forall r, run_re r s = true <-> lang r s.
Proof.
  induction s as [|c s IH]; intros r; cbn [run_re].
  - apply nullable_spec.
  - rewrite <- deriv_lang, <- IH.
    destruct (deriv c r) eqn:Ed; try tauto.
    rewrite IH, lang_none_inv. split; [discriminate|tauto].
Qed.

Corollary matches_lang r s : matches r s = true <-> lang (core r) (bytes s).
Proof. apply run_re_lang. Qed.

(* ---------- class membership as arithmetic ---------- *)
Lemma in_cls_nil c : in_cls c [] = false.
Proof. reflexivity. Qed.

Lemma in_cls_cons c lo hi rs :
  in_cls c ((lo, hi) :: rs) = true <-> (lo <= c /\ c <= hi) \/ in_cls c rs = true.
Proof.
  unfold in_cls. cbn [existsb fst snd]. rewrite orb_true_iff, andb_true_iff, !N.leb_le. tauto.
Qed.

(* words of a star of separator-prefixed items *)
Lemma lang_star_sep sep body (P : list N -> Prop) s :
  (forall w, lang body w -> P w) ->
  lang (CStar (CCat (CCls [(sep, sep)]) (CCat body CEps))) s ->
  exists l, s = flat_map (cons sep) l /\ Forall P l.
Proof.
  intros HP H. apply lang_star_concat in H. destruct H as (l & -> & Hl).
  induction Hl as [|x l Hx _ IH].
  - exists []. split; [reflexivity|constructor].
  - destruct IH as (l' & E & Hl'). rewrite lang_cat_inv in Hx.
    destruct Hx as (s1 & s2 & -> & H1 & H2).
    apply lang_cls_inv in H1. destruct H1 as (c & -> & Hc).
    apply in_cls_cons in Hc. rewrite in_cls_nil in Hc.
    assert (c = sep) as -> by (destruct Hc as [Hc|Hc]; [lia|discriminate]).
    apply lang_cat_inv in H2. destruct H2 as (w & e & -> & Hw & He).
    apply lang_eps_inv in He. subst e. rewrite app_nil_r.
    exists (w :: l'). split.
    + cbn. rewrite E. reflexivity.
    + constructor; [apply HP; assumption | assumption].
Qed.

Print Assumptions run_re_lang.
