(* C05_Proofs.v — lemmas about the revocation aggregator and verifyRevocation model. *)
From NV Require Import Base C05_Model.

Definition okp (x : rres * string) := is_ok (fst x).
Definition revp (x : rres * string) := is_revoked (fst x).

(* the loop, seen from the head of the listing *)
Definition fr (l : list (rres * string)) : acc := fold_right (fun x a => step a x) acc0 l.

Lemma loop_is_fr l : fold_left step (rev l) acc0 = fr l.
Proof. unfold fr. rewrite <- (rev_involutive l) at 2. now rewrite fold_left_rev_right. Qed.

Lemma fr_cons x l : fr (x :: l) = step (fr l) x.
Proof. reflexivity. Qed.

Lemma ok_not_rev r : is_ok r = true -> is_revoked r = false.
Proof. destruct r; cbn; congruence. Qed.

Lemma fr_numOK l : a_numOK (fr l) = List.length (filter okp l).
Proof.
  induction l as [|[r s] l IH]; [reflexivity|].
  rewrite fr_cons. unfold step. cbn [filter]. change (okp (r, s)) with (is_ok r).
  destruct (is_ok r); cbn [a_numOK List.length]; [now rewrite IH|].
  destruct (is_revoked r); cbn [a_numOK]; exact IH.
Qed.

Lemma fr_revFound l : a_revFound (fr l) = existsb revp l.
Proof.
  induction l as [|[r s] l IH]; [reflexivity|].
  rewrite fr_cons. unfold step. cbn [existsb]. change (revp (r, s)) with (is_revoked r).
  destruct (is_ok r) eqn:E; cbn [a_revFound].
  - now rewrite (ok_not_rev _ E), IH.
  - destruct (is_revoked r); cbn [a_revFound]; [reflexivity | exact IH].
Qed.

Lemma fr_revSubj l : a_revFound (fr l) = true ->
  exists r, In (r, a_revSubj (fr l)) l /\ is_revoked r = true.
Proof.
  induction l as [|[r s] l IH]; [cbn; discriminate|].
  rewrite fr_cons. unfold step.
  destruct (is_ok r) eqn:E; cbn [a_revFound a_revSubj].
  - intros H. destruct (IH H) as (r' & Hin & Hr). exists r'. split; [now right | exact Hr].
  - destruct (is_revoked r) eqn:E2; cbn [a_revFound a_revSubj].
    + intros _. exists r. split; [now left | exact E2].
    + intros H. destruct (IH H) as (r' & Hin & Hr). exists r'. split; [now right | exact Hr].
Qed.

(* when some entry is not ok, the remembered (final, prob) is a non-ok entry *)
Lemma fr_prob l : forallb okp l = false ->
  In (a_final (fr l), a_prob (fr l)) l /\ is_ok (a_final (fr l)) = false.
Proof.
  induction l as [|[r s] l IH]; [cbn; discriminate|].
  rewrite fr_cons. unfold step. cbn [forallb]. change (okp (r, s)) with (is_ok r).
  destruct (is_ok r) eqn:E; cbn [a_final a_prob andb].
  - intros H. destruct (IH H) as [Hin Hn]. split; [now right | exact Hn].
  - intros _. destruct (is_revoked r); cbn [a_final a_prob]; (split; [now left | exact E]).
Qed.

Lemma filter_len_le {A} (p : A -> bool) l : List.length (filter p l) <= List.length l.
Proof. induction l as [|x l IH]; cbn; [lia|]. destruct (p x); cbn; lia. Qed.

Lemma filter_len_all {A} (p : A -> bool) l :
  Nat.eqb (List.length (filter p l)) (List.length l) = forallb p l.
Proof.
  induction l as [|x l IH]; [reflexivity|]. cbn [filter forallb].
  destruct (p x); cbn [List.length andb].
  - exact IH.
  - apply Nat.eqb_neq. pose proof (filter_len_le p l). cbn. lia.
Qed.

Lemma forallb_okp_combine rs chain : List.length rs = List.length chain ->
  forallb okp (combine rs chain) = forallb is_ok rs.
Proof.
  revert chain; induction rs as [|r rs IH]; intros [|c chain] H; cbn in *; try congruence.
  unfold okp at 1; cbn [fst]. f_equal. apply IH. lia.
Qed.

Lemma existsb_revp_combine rs chain : List.length rs = List.length chain ->
  existsb revp (combine rs chain) = existsb is_revoked rs.
Proof.
  revert chain; induction rs as [|r rs IH]; intros [|c chain] H; cbn in *; try congruence.
  unfold revp at 1; cbn [fst]. f_equal. apply IH. lia.
Qed.

Lemma in_combine_nth (rs : list rres) (chain : list string) r s :
  In (r, s) (combine rs chain) ->
  exists k, k < List.length rs /\ k < List.length chain /\ nth k rs ROK = r /\ nth k chain "" = s.
Proof.
  revert chain; induction rs as [|r0 rs IH]; intros [|c chain]; cbn [combine]; try (intros []; fail).
  intros [E | Hin].
  - inversion E; subst. exists 0. cbn. repeat split; lia.
  - destruct (IH _ Hin) as (k & H1 & H2 & H3 & H4). exists (S k). cbn. repeat split; try lia; assumption.
Qed.

(* ---- characterisation of final_result under the validator contract ---- *)
Section Final.
  Variables (rs : list rres) (chain : list string).
  Hypothesis Hlen : List.length rs = List.length chain.

  Lemma final_all_ok : forallb is_ok rs = true -> fst (final_result rs chain) = ROK.
  Proof.
    intros H. unfold final_result. rewrite loop_is_fr, fr_numOK.
    assert (E : Nat.eqb (List.length (filter okp (combine rs chain))) (List.length rs) = true).
    { replace (List.length rs) with (List.length (combine rs chain))
        by (rewrite combine_length; lia).
      rewrite filter_len_all, forallb_okp_combine; assumption. }
    rewrite E. destruct (a_revFound _); reflexivity.
  Qed.

  Lemma final_not_all_ok : forallb is_ok rs = false ->
    final_result rs chain =
      let a := fr (combine rs chain) in
      if a_revFound a then (RRevoked, a_revSubj a) else (a_final a, a_prob a).
  Proof.
    intros H. unfold final_result. rewrite loop_is_fr, fr_numOK.
    assert (E : Nat.eqb (List.length (filter okp (combine rs chain))) (List.length rs) = false).
    { replace (List.length rs) with (List.length (combine rs chain))
        by (rewrite combine_length; lia).
      rewrite filter_len_all, forallb_okp_combine; assumption. }
    rewrite E. cbv zeta. destruct (a_revFound _); reflexivity.
  Qed.

  Lemma final_revoked : existsb is_revoked rs = true ->
    exists k, k < List.length rs /\ nth k rs ROK = RRevoked /\
              final_result rs chain = (RRevoked, nth k chain "").
  Proof.
    intros H.
    assert (Hnok : forallb is_ok rs = false).
    { apply existsb_exists in H. destruct H as (r & Hin & Hr).
      destruct (forallb is_ok rs) eqn:E; [|reflexivity].
      rewrite forallb_forall in E. specialize (E _ Hin). destruct r; cbn in *; congruence. }
    rewrite (final_not_all_ok Hnok). cbv zeta.
    assert (Hf : a_revFound (fr (combine rs chain)) = true)
      by (rewrite fr_revFound, existsb_revp_combine; assumption).
    rewrite Hf. destruct (fr_revSubj _ Hf) as (r & Hin & Hr).
    destruct (in_combine_nth _ _ _ _ Hin) as (k & H1 & _ & H3 & H4).
    exists k. repeat split; [exact H1 | destruct r; cbn in Hr; congruence | now rewrite H4].
  Qed.

  Lemma final_unknown : forallb is_ok rs = false -> existsb is_revoked rs = false ->
    exists k, k < List.length rs /\ is_ok (nth k rs ROK) = false /\
              final_result rs chain = (nth k rs ROK, nth k chain "").
  Proof.
    intros Hnok Hnr. rewrite (final_not_all_ok Hnok). cbv zeta.
    assert (Hf : a_revFound (fr (combine rs chain)) = false)
      by (rewrite fr_revFound, existsb_revp_combine; assumption).
    rewrite Hf.
    assert (Hc : forallb okp (combine rs chain) = false)
      by (rewrite forallb_okp_combine; assumption).
    destruct (fr_prob _ Hc) as [Hin Hn].
    destruct (in_combine_nth _ _ _ _ Hin) as (k & H1 & _ & H3 & H4).
    exists k. repeat split; [exact H1 | now rewrite H3 | now rewrite H3, H4].
  Qed.
End Final.

Lemma nth_existsb {A} (p : A -> bool) l d k : k < List.length l -> p (nth k l d) = true -> existsb p l = true.
Proof. intros H1 H2. apply existsb_exists. exists (nth k l d). split; [now apply nth_In | exact H2]. Qed.

(* ---- the statements used by props/C05_Property.v ---- *)

Definition all_ok (rs : list rres) := Forall (fun r => r = ROK \/ r = RNonRevokable) rs.

Lemma all_ok_forallb rs : all_ok rs <-> forallb is_ok rs = true.
Proof.
  unfold all_ok. rewrite forallb_forall, Forall_forall. split; intros H r Hin; specialize (H r Hin).
  - destruct H; subst; reflexivity.
  - destruct r; cbn in H; try discriminate; auto.
Qed.

Lemma model_result i rs :
  i_action i <> Skip -> i_vout i = VRes rs -> List.length rs = List.length (i_chain i) ->
  o_result (model i) = Some (classify (final_result rs (i_chain i))).
Proof.
  intros Ha Hv Hl. unfold model. rewrite Hv, (proj2 (Nat.eqb_eq _ _) Hl).
  destruct (i_action i); [reflexivity | reflexivity | congruence].
Qed.

(* an answer that is not one result per certificate is inconclusive (checkRevocationResults) *)
Lemma model_incomplete i rs :
  i_action i <> Skip -> i_vout i = VRes rs -> List.length rs <> List.length (i_chain i) ->
  o_result (model i) = Some Inconclusive.
Proof.
  intros Ha Hv Hl. unfold model. rewrite Hv, (proj2 (Nat.eqb_neq _ _) Hl).
  destruct (i_action i); [reflexivity | reflexivity | congruence].
Qed.

Lemma pass_iff i rs :
  i_action i <> Skip -> i_vout i = VRes rs -> List.length rs = List.length (i_chain i) ->
  (o_result (model i) = Some Pass <-> all_ok rs).
Proof.
  intros Ha Hv Hl. rewrite (model_result _ _ Ha Hv Hl), all_ok_forallb. split.
  - intros H. destruct (forallb is_ok rs) eqn:E; [reflexivity|exfalso].
    destruct (existsb is_revoked rs) eqn:E2.
    + destruct (final_revoked _ _ Hl E2) as (k & _ & _ & Hf). rewrite Hf in H. cbn in H. discriminate.
    + destruct (final_unknown _ _ Hl E E2) as (k & _ & Hn & Hf). rewrite Hf in H. unfold classify in H; cbn [fst snd] in H.
      destruct (nth k rs ROK); cbn in Hn; try discriminate; inversion H.
  - intros H. unfold classify. now rewrite (final_all_ok _ _ Hl H).
Qed.

Lemma revoked_named i rs :
  i_action i <> Skip -> i_vout i = VRes rs -> List.length rs = List.length (i_chain i) ->
  In RRevoked rs ->
  exists k, k < List.length rs /\ nth k rs ROK = RRevoked /\
            o_result (model i) = Some (Revoked (nth k (i_chain i) "")).
Proof.
  intros Ha Hv Hl Hin. rewrite (model_result _ _ Ha Hv Hl).
  assert (E : existsb is_revoked rs = true) by (apply existsb_exists; exists RRevoked; auto).
  destruct (final_revoked _ _ Hl E) as (k & H1 & H2 & Hf). exists k. rewrite Hf. auto.
Qed.

Lemma unknown_named i rs :
  i_action i <> Skip -> i_vout i = VRes rs -> List.length rs = List.length (i_chain i) ->
  ~ all_ok rs -> ~ In RRevoked rs ->
  exists k, k < List.length rs /\ is_ok (nth k rs ROK) = false /\
            o_result (model i) = Some (Unknown (nth k (i_chain i) "")).
Proof.
  intros Ha Hv Hl Hn Hr. rewrite (model_result _ _ Ha Hv Hl).
  assert (E : forallb is_ok rs = false).
  { destruct (forallb is_ok rs) eqn:E; [|reflexivity]. exfalso; apply Hn, all_ok_forallb, E. }
  assert (E2 : existsb is_revoked rs = false).
  { destruct (existsb is_revoked rs) eqn:E2; [|reflexivity]. exfalso; apply Hr.
    apply existsb_exists in E2. destruct E2 as (r & Hin & Hrr). destruct r; cbn in Hrr; try discriminate. exact Hin. }
  destruct (final_unknown _ _ Hl E E2) as (k & H1 & H2 & Hf). exists k. rewrite Hf.
  repeat split; [exact H1 | exact H2 |]. unfold classify; cbn [fst snd].
  assert (nth k rs ROK <> RRevoked).
  { intros Heq. apply Hr. rewrite <- Heq. now apply nth_In. }
  destruct (nth k rs ROK); cbn in H2; try discriminate; try reflexivity. congruence.
Qed.

Lemma validator_error i :
  i_action i <> Skip -> i_vout i = VErr -> o_result (model i) = Some Inconclusive.
Proof. intros Ha Hv. unfold model. rewrite Hv. destruct (i_action i); [reflexivity | reflexivity | congruence]. Qed.

Lemma calls_exact i :
  i_action i <> Skip -> (i_val i = 1 \/ i_val i = 2 \/ i_val i = 3)%N ->
  o_calls (model i) =
    [mk_call (if (i_val i =? 2)%N then 2 else 1) (i_chain i) (i_sa i)].
Proof.
  intros Ha Hv. unfold model.
  destruct (i_action i); try congruence; destruct Hv as [-> | [-> | ->]]; reflexivity.
Qed.

Lemma skip_nothing i : i_action i = Skip -> model i = mk_obs [] None false.
Proof. intros H. unfold model. now rewrite H. Qed.

Lemma rejected_iff i :
  o_rejected (model i) = true <->
  i_action i = Enforce /\ exists c, o_result (model i) = Some c /\ c <> Pass.
Proof.
  unfold model. destruct (i_action i) eqn:Ea; cbn [o_rejected o_result].
  - split.
    + intros H. split; [reflexivity|]. eexists; split; [reflexivity|]. intros E. rewrite E in H. discriminate.
    + intros [_ (c & Hc & Hn)]. inversion Hc; subst c. destruct (match i_vout i with VErr => _ | VRes _ => _ end); cbn; congruence.
  - split; [discriminate | intros [H _]; discriminate].
  - split; [discriminate | intros [H _]; discriminate].
Qed.

Lemma log_reports i : i_action i = Log ->
  o_rejected (model i) = false /\ exists c, o_result (model i) = Some c.
Proof. intros H. unfold model. rewrite H. split; [reflexivity | eexists; reflexivity]. Qed.

(* ---- the model satisfies the boolean oracle on every well-formed input ---- *)
Lemma named_ok_nth p rs chain k :
  List.length rs = List.length chain -> k < List.length rs -> p (nth k rs ROK) = true ->
  named_ok p rs chain (nth k chain "") = true.
Proof.
  intros Hl Hk Hp. unfold named_ok. apply existsb_exists.
  exists (nth k (combine rs chain) (ROK, "")). split.
  - apply nth_In. rewrite combine_length. lia.
  - rewrite combine_nth by exact Hl. cbn [fst snd]. now rewrite Hp, String.eqb_refl.
Qed.

Lemma model_spec_ok_total i : spec_ok i (model i) = true.
Proof.
  unfold spec_ok.
  destruct (i_action i) eqn:Ea; try (rewrite (skip_nothing _ Ea); reflexivity).
  all: assert (Hns : i_action i <> Skip) by congruence.
  all: assert (Hcalls : calls_ok i (o_calls (model i)) = true)
    by (unfold model, calls_ok; rewrite Ea;
        destruct (i_val i) as [|[p|p|]] eqn:Ev; try destruct p; cbn;
        rewrite ?(proj2 (list_eqb_spec String.eqb String.eqb_eq _ _) eq_refl), ?eqb_reflx; reflexivity).
  all: rewrite Hcalls; cbn [andb].
  all: assert (Hres : exists c, o_result (model i) = Some c /\ result_ok i c = true /\
                       o_rejected (model i) = match i_action i with Enforce => is_failure c | _ => false end).
  1,3: destruct (i_vout i) as [|rs] eqn:Ev.
  1,3: exists Inconclusive; rewrite (validator_error _ Hns Ev); unfold result_ok, model; rewrite Ev, Ea; auto.
  1,2: destruct (Nat.eq_dec (List.length rs) (List.length (i_chain i))) as [Hwf|Hwf].
  2,4: exists Inconclusive; rewrite (model_incomplete _ _ Hns Ev Hwf); unfold result_ok, model;
       rewrite Ev, Ea, (proj2 (Nat.eqb_neq _ _) Hwf); auto.
  1,2: rewrite (model_result _ _ Hns Ev Hwf);
       eexists; split; [reflexivity|]; split;
         [| unfold model; rewrite Ea, Ev, (proj2 (Nat.eqb_eq _ _) Hwf); reflexivity];
       unfold result_ok; rewrite Ev, (proj2 (Nat.eqb_eq _ _) Hwf); cbn [negb];
       destruct (forallb is_ok rs) eqn:E1;
       [ unfold classify; now rewrite (final_all_ok _ _ Hwf E1)
       | destruct (existsb is_revoked rs) eqn:E2;
         [ destruct (final_revoked _ _ Hwf E2) as (k & Hk & Hr & Hf); rewrite Hf; cbn [classify fst snd];
           apply named_ok_nth; [exact Hwf | exact Hk | now rewrite Hr]
         | destruct (final_unknown _ _ Hwf E1 E2) as (k & Hk & Hn & Hf); rewrite Hf; unfold classify; cbn [fst snd];
           assert (Hnr : is_revoked (nth k rs ROK) = false)
             by (destruct (is_revoked (nth k rs ROK)) eqn:E3; [|reflexivity];
                 rewrite <- E2; symmetry; eapply nth_existsb; eauto);
           destruct (nth k rs ROK) eqn:En; cbn in Hn, Hnr; try discriminate;
           (apply named_ok_nth; [exact Hwf | exact Hk | now rewrite En]) ] ].
  all: destruct Hres as (c & Hc & Hr & Hrej); rewrite Hc, Hr, Hrej, Ea; cbn [andb]; apply eqb_reflx.
Qed.

Lemma model_spec_ok i : wf i = true -> spec_ok i (model i) = true.
Proof. intros _. apply model_spec_ok_total. Qed.

(* passes <-> one result per certificate, all OK / non-revokable: no contract assumed *)
Lemma pass_iff_total i rs :
  i_action i <> Skip -> i_vout i = VRes rs ->
  (o_result (model i) = Some Pass <-> List.length rs = List.length (i_chain i) /\ all_ok rs).
Proof.
  intros Ha Hv. destruct (Nat.eq_dec (List.length rs) (List.length (i_chain i))) as [Hl|Hl].
  - rewrite (pass_iff _ _ Ha Hv Hl). tauto.
  - rewrite (model_incomplete _ _ Ha Hv Hl). split; [discriminate | tauto].
Qed.
