(* C16_GenProofs.v — library for props/C16_Generated.v (GoLite, docs/GOLITE.md):
   facts that do NOT depend on the generated file theories/C16_Gen.v, so that
   this file is compiled once and a change of the Go code only re-checks the
   (short) proofs of props/C16_Generated.v.
     1. strings.ContainsAny (GoLib.str_contains_any) as a disjunction of
        contains_byte
     2. strings.TrimSpace (GoLib.str_trim_space): the result is "" exactly when
        the model's all_space holds (UTF-8 white space, every byte string)
     3. error classes of GoLib errors as the harness canonicalises them
     4. the places of the model where the translated functions' decisions are
        made: get = validation + NewCLIPlugin, verify_plan = attribute stage +
        minimum-version stage + manager stage
   No axioms. *)
From Coq Require Import List Bool String Ascii NArith ZArith Lia.
From NV Require Import Base GoLib C16_Path C16_Model C16_Proofs.
Import ListNotations.
Local Open Scope string_scope.
Local Open Scope list_scope.

(* ------------------------------------------------------------------ *)
(* 1. strings.ContainsAny                                              *)

Lemma contains_byte_existsb a s :
  contains_byte a s = existsb (fun x => Ascii.eqb x a) (list_ascii_of_string s).
Proof. induction s as [|b s IH]; [reflexivity|]. cbn. now rewrite IH. Qed.

Lemma existsb_orb {A} (f g : A -> bool) l :
  existsb (fun x => f x || g x) l = existsb f l || existsb g l.
Proof.
  induction l as [|x l IH]; [reflexivity|]. cbn. rewrite IH.
  destruct (f x), (g x), (existsb f l); reflexivity.
Qed.

Lemma existsb_ext' {A} (f g : A -> bool) l : (forall x, f x = g x) -> existsb f l = existsb g l.
Proof. intros H. induction l as [|x l IH]; [reflexivity|]. cbn. now rewrite H, IH. Qed.

Lemma existsb_const_false {A} (l : list A) : existsb (fun _ => false) l = false.
Proof. induction l; [reflexivity|assumption]. Qed.

(* strings.ContainsAny(s, chars), chars ASCII: some byte of chars occurs in s *)
Lemma contains_any_existsb chars s :
  str_contains_any chars s = existsb (fun c => contains_byte c s) (list_ascii_of_string chars).
Proof.
  induction s as [|a s IH].
  - cbn. now rewrite existsb_const_false.
  - cbn [str_contains_any contains_byte]. rewrite existsb_orb, <- IH, contains_byte_existsb.
    f_equal. apply existsb_ext'. intros x. apply ascii_eqb_sym.
Qed.

(* ------------------------------------------------------------------ *)
(* 2. strings.TrimSpace(s) == ""  <->  all_space s                      *)

(* the white-space encodings, on byte codes *)
Definition cw1 (c : N) : bool := ((9 <=? c) && (c <=? 13) || (c =? 32))%N.
Definition cw2 (c d : N) : bool := ((c =? 194) && ((d =? 133) || (d =? 160)))%N.
Definition cw3 (c d e : N) : bool :=
  (((c =? 225) && (d =? 154) && (e =? 128))
   || ((c =? 226) && (d =? 128)
       && (((128 <=? e) && (e <=? 138)) || (e =? 168) || (e =? 169) || (e =? 175)))
   || ((c =? 226) && (d =? 129) && (e =? 159))
   || ((c =? 227) && (d =? 128) && (e =? 128)))%N.

Ltac split_ifs :=
  repeat match goal with
  | |- context [if ?b then _ else _] => destruct b eqn:?
  end.

Lemma prefix_len_1 c : space_prefix_len [c] = if cw1 c then 1 else 0.
Proof. reflexivity. Qed.

Lemma prefix_len_2 c d : space_prefix_len [c; d] = if cw1 c then 1 else if cw2 c d then 2 else 0.
Proof. reflexivity. Qed.

Lemma prefix_len_3 c d e l :
  space_prefix_len (c :: d :: e :: l)
  = if cw1 c then 1 else if cw2 c d then 2 else if cw3 c d e then 3 else 0.
Proof.
  unfold cw3. cbv beta iota delta [space_prefix_len]. fold (cw1 c). fold (cw2 c d).
  destruct (cw1 c); [reflexivity|]. destruct (cw2 c d); [reflexivity|].
  split_ifs; try reflexivity; cbn [orb] in *; rewrite ?orb_true_r in *; discriminate.
Qed.

Lemma suffix_len_1 c : space_suffix_len [c] = if cw1 c then 1 else 0.
Proof. reflexivity. Qed.

Lemma suffix_len_2 c d : space_suffix_len [c; d] = if cw1 c then 1 else if cw2 d c then 2 else 0.
Proof. reflexivity. Qed.

Lemma suffix_len_3 c d e l :
  space_suffix_len (c :: d :: e :: l)
  = if cw1 c then 1 else if cw2 d c then 2 else if cw3 e d c then 3 else 0.
Proof.
  unfold cw3. cbv beta iota delta [space_suffix_len]. fold (cw1 c). fold (cw2 d c).
  destruct (cw1 c); [reflexivity|]. destruct (cw2 d c); [reflexivity|].
  split_ifs; try reflexivity; cbn [orb] in *; rewrite ?orb_true_r in *; discriminate.
Qed.

(* a byte list that is a sequence of white-space encodings *)
Inductive spaces : list N -> Prop :=
| sp_nil : spaces []
| sp_1 c l : cw1 c = true -> spaces l -> spaces (c :: l)
| sp_2 c d l : cw2 c d = true -> spaces l -> spaces (c :: d :: l)
| sp_3 c d e l : cw3 c d e = true -> spaces l -> spaces (c :: d :: e :: l).

Lemma spaces_app a b : spaces a -> spaces b -> spaces (a ++ b).
Proof.
  intros Ha Hb. induction Ha; cbn [app]; [assumption| | |].
  - now apply sp_1.
  - now apply sp_2.
  - now apply sp_3.
Qed.

(* a non-empty sequence of encodings starts with one *)
Lemma spaces_prefix l : spaces l -> l <> [] -> space_prefix_len l <> 0.
Proof.
  intros H Hne. destruct H as [|c l H1 _|c d l H2 _|c d e l H3 _]; [congruence| | |].
  - destruct l as [|d [|e l]]; rewrite ?prefix_len_1, ?prefix_len_2, ?prefix_len_3, H1; discriminate.
  - destruct l as [|e l]; rewrite ?prefix_len_2, ?prefix_len_3, H2; destruct (cw1 c); discriminate.
  - rewrite prefix_len_3, H3. destruct (cw1 c), (cw2 c d); discriminate.
Qed.

(* one step of the trimming from the end: what is removed is an encoding *)
Lemma suffix_step r :
  space_suffix_len r <> 0 ->
  exists w, r = w ++ skipn (space_suffix_len r) r /\ spaces (rev w).
Proof.
  destruct r as [|c [|d [|e l]]]; [intros H; now elim H| | |];
    rewrite ?suffix_len_1, ?suffix_len_2, ?suffix_len_3.
  - destruct (cw1 c) eqn:H1; [|intros H; now elim H]. intros _.
    exists [c]. split; [reflexivity|]. cbn. apply sp_1; [exact H1|constructor].
  - destruct (cw1 c) eqn:H1.
    { intros _. exists [c]. split; [reflexivity|]. cbn. apply sp_1; [exact H1|constructor]. }
    destruct (cw2 d c) eqn:H2; [|intros H; now elim H]. intros _.
    exists [c; d]. split; [reflexivity|]. cbn. apply sp_2; [exact H2|constructor].
  - destruct (cw1 c) eqn:H1.
    { intros _. exists [c]. split; [reflexivity|]. cbn. apply sp_1; [exact H1|constructor]. }
    destruct (cw2 d c) eqn:H2.
    { intros _. exists [c; d]. split; [reflexivity|]. cbn. apply sp_2; [exact H2|constructor]. }
    destruct (cw3 e d c) eqn:H3; [|intros H; now elim H]. intros _.
    exists [c; d; e]. split; [reflexivity|]. cbn. apply sp_3; [exact H3|constructor].
Qed.

(* if the trimming from the end leaves nothing, everything was white space *)
Lemma trim_suffix_nil : forall fuel r,
  trim_with space_suffix_len fuel r = [] -> spaces (rev r).
Proof.
  induction fuel as [|fuel IH]; intros r H.
  - cbn in H. subst r. constructor.
  - cbn [trim_with] in H. destruct (space_suffix_len r) as [|n] eqn:E.
    + subst r. constructor.
    + destruct (suffix_step r) as [w [Hr Hw]]; [congruence|]. rewrite E in Hr.
      rewrite Hr, rev_app_distr. apply spaces_app; [|exact Hw]. apply IH. exact H.
Qed.

Lemma trim_prefix_fixed : forall fuel l,
  (List.length l <= fuel)%nat ->
  let r := trim_with space_prefix_len fuel l in r = [] \/ space_prefix_len r = 0.
Proof.
  induction fuel as [|fuel IH]; intros l Hl; cbn zeta.
  - left. destruct l; [reflexivity|cbn in Hl; lia].
  - cbn [trim_with]. destruct (space_prefix_len l) as [|n] eqn:E.
    + right. exact E.
    + apply IH. rewrite skipn_length. lia.
Qed.

Lemma B_nil_iff l : String.eqb (B l) "" = match l with [] => true | _ => false end.
Proof. destruct l; reflexivity. Qed.

(* after trimming the front, trimming the back empties the list only if it
   was empty already *)
Lemma trim_suffix_nonempty l1 :
  l1 <> [] -> space_prefix_len l1 = 0 ->
  rev (trim_with space_suffix_len (List.length l1) (rev l1)) <> [].
Proof.
  intros Hne H E2.
  assert (E3 : trim_with space_suffix_len (List.length l1) (rev l1) = []).
  { rewrite <- (rev_involutive (trim_with _ _ _)), E2. reflexivity. }
  apply trim_suffix_nil in E3. rewrite rev_involutive in E3.
  exact (spaces_prefix l1 E3 Hne H).
Qed.

Lemma trim_space_empty_iff s :
  String.eqb (str_trim_space s) ""
  = match trim_with space_prefix_len (List.length (bytes s)) (bytes s) with [] => true | _ => false end.
Proof.
  unfold str_trim_space. cbn zeta. rewrite B_nil_iff.
  pose proof (trim_prefix_fixed (List.length (bytes s)) (bytes s) (le_n _)) as H. cbn zeta in H.
  remember (trim_with space_prefix_len (List.length (bytes s)) (bytes s)) as l1 eqn:E1. clear E1.
  destruct H as [H|H].
  - subst l1. reflexivity.
  - destruct l1 as [|c l1']; [reflexivity|].
    pose proof (trim_suffix_nonempty (c :: l1') ltac:(discriminate) H) as Hn.
    destruct (rev (trim_with space_suffix_len (List.length (c :: l1')) (rev (c :: l1')))); [now elim Hn|reflexivity].
Qed.

Lemma is_space_cw1 a : is_space a = cw1 (N_of_ascii a).
Proof. reflexivity. Qed.
Lemma is_space2_cw2 a b : is_space2 a b = cw2 (N_of_ascii a) (N_of_ascii b).
Proof. reflexivity. Qed.
Lemma is_space3_cw3 a b c : is_space3 a b c = cw3 (N_of_ascii a) (N_of_ascii b) (N_of_ascii c).
Proof. reflexivity. Qed.

Lemma bytes_cons a s : bytes (String a s) = N_of_ascii a :: bytes s.
Proof. reflexivity. Qed.

Lemma bytes_length s : List.length (bytes s) = String.length s.
Proof. induction s as [|a s IH]; [reflexivity|]. rewrite bytes_cons. cbn. now rewrite IH. Qed.

Lemma prefix_len_cw1 c l : cw1 c = true -> space_prefix_len (c :: l) = 1.
Proof.
  intros H. destruct l as [|d [|e l]]; rewrite ?prefix_len_1, ?prefix_len_2, ?prefix_len_3, H; reflexivity.
Qed.

Lemma prefix_len_cw2 c d l : cw1 c = false -> cw2 c d = true -> space_prefix_len (c :: d :: l) = 2.
Proof.
  intros H1 H2. destruct l as [|e l]; rewrite ?prefix_len_2, ?prefix_len_3, H1, H2; reflexivity.
Qed.

(* the model's all_space is the front trimming run to the end *)
Lemma all_space_trim_prefix : forall fuel s,
  (String.length s <= fuel)%nat ->
  all_space s = match trim_with space_prefix_len fuel (bytes s) with [] => true | _ => false end.
Proof.
  induction fuel as [|fuel IH]; intros s Hs.
  - destruct s; [reflexivity|cbn in Hs; lia].
  - destruct s as [|a s1]; [reflexivity|].
    cbn [all_space trim_with]. rewrite is_space_cw1, bytes_cons.
    destruct (cw1 (N_of_ascii a)) eqn:H1.
    { rewrite (prefix_len_cw1 _ _ H1). cbn [skipn]. apply IH. cbn in Hs. lia. }
    destruct s1 as [|b s2].
    { change (bytes "") with (@nil N). rewrite prefix_len_1, H1. reflexivity. }
    rewrite is_space2_cw2, bytes_cons.
    destruct (cw2 (N_of_ascii a) (N_of_ascii b)) eqn:H2.
    { rewrite (prefix_len_cw2 _ _ _ H1 H2). cbn [skipn]. apply IH. cbn in Hs. lia. }
    destruct s2 as [|c s3].
    { change (bytes "") with (@nil N). rewrite prefix_len_2, H1, H2. reflexivity. }
    rewrite is_space3_cw3, bytes_cons, prefix_len_3, H1, H2.
    destruct (cw3 (N_of_ascii a) (N_of_ascii b) (N_of_ascii c)) eqn:H3; [|reflexivity].
    cbn [skipn]. apply IH. cbn in Hs. lia.
Qed.

(* strings.TrimSpace(s) == "" in GoLib  =  all_space s in C16_Model, for every
   byte string (valid UTF-8 or not) *)
Theorem trim_space_empty_all_space s :
  String.eqb (str_trim_space s) "" = all_space s.
Proof.
  rewrite trim_space_empty_iff. symmetry. apply all_space_trim_prefix.
  rewrite bytes_length. apply le_n.
Qed.

(* ------------------------------------------------------------------ *)
(* 3. error classes                                                    *)

(* the class the correspondence harness gives a Go error (vh-c16 classify):
   EInvalid  = the message says "invalid plugin name" (the format string of the
               error itself; texts of arguments are not modelled),
   ENotExist = errors.Is(err, fs.ErrNotExist): the error, or an error it wraps
               with %w, is one the operating system marks as "does not exist"
               ([notexist], a parameter: a fact about errors of package os),
   EOther    = any other error. *)
Section Classes.
  Variable notexist : GoLib.err -> bool.

  Fixpoint chain_is (e : GoLib.err) : bool :=
    notexist e
    || match e with
       | Err _ _ ws =>
           (fix go (l : list GoLib.err) : bool :=
              match l with [] => false | x :: r => chain_is x || go r end) ws
       end.

  Definition fmt_invalid (e : GoLib.err) : bool := str_contains "invalid plugin name" (err_fmt e).

  Definition errc (o : option GoLib.err) : C16_Model.err :=
    match o with
    | None => ENone
    | Some e => if fmt_invalid e then EInvalid else if chain_is e then ENotExist else EOther
    end.

  (* errors made inside notation-go (fmt.Errorf, errors.New, the sentinels of the
     packages plugin and verifier, whose typ is their name) are not the
     operating system's "does not exist" *)
  Definition lib_typ (t : string) : bool :=
    String.eqb t "fmt" || String.eqb t "errors" || has_prefix "plugin." t || has_prefix "verifier." t.

  Definition lib_errors_distinct : Prop :=
    forall e, notexist e = true -> lib_typ (err_typ e) = false.

  Lemma chain_is_wrap1 (H : lib_errors_distinct) f e :
    chain_is (Err "fmt" f [e]) = chain_is e.
  Proof.
    cbn [chain_is]. destruct (notexist (Err "fmt" f [e])) eqn:N.
    - apply H in N. discriminate N.
    - cbn [orb]. now rewrite orb_false_r.
  Qed.

  Lemma chain_is_leaf (H : lib_errors_distinct) t f :
    lib_typ t = true -> chain_is (Err t f []) = false.
  Proof.
    intros Ht. cbn [chain_is]. destruct (notexist (Err t f [])) eqn:N; [|reflexivity].
    apply H in N. cbn [err_typ] in N. congruence.
  Qed.

  (* a library error without wrapped errors whose text does not say "invalid
     plugin name" (decidable on a generated constant by computation) *)
  Definition lib_leaf (o : option GoLib.err) : bool :=
    match o with
    | Some (Err t f []) => lib_typ t && negb (fmt_invalid (Err t f []))
    | _ => false
    end.

  Lemma errc_lib_leaf (H : lib_errors_distinct) o : lib_leaf o = true -> errc o = EOther.
  Proof.
    destruct o as [[t f [|x ws]]|]; cbn [lib_leaf]; try discriminate.
    intros L. apply andb_true_iff in L. destruct L as [Lt Lf]. apply negb_true_iff in Lf.
    unfold errc. rewrite Lf, (chain_is_leaf H t f Lt). reflexivity.
  Qed.
End Classes.

(* ------------------------------------------------------------------ *)
(* 4. where the model makes the same decisions                         *)

Lemma drop_app p s : drop (String.length p) (p ++ s) = s.
Proof. induction p as [|a p IH]; [destruct s; reflexivity|exact IH]. Qed.

(* parsePluginName in the model accepts exactly notation-<valid name> *)
Lemma parse_plugin_name_some f n :
  parse_plugin_name f = Some n <-> f = bin_name n /\ valid_name n = true.
Proof.
  unfold parse_plugin_name, cut_prefix, bin_name. split.
  - destruct (has_prefix bin_prefix f) eqn:H; [|discriminate].
    apply has_prefix_spec in H. destruct H as [t ->]. rewrite drop_app.
    destruct (valid_name t) eqn:V; [|discriminate]. intros E. inversion E. subst t. tauto.
  - intros [-> V]. rewrite has_prefix_app, drop_app, V. reflexivity.
Qed.

(* NewCLIPlugin(ctx, name, path) in the model: the tail of [get] *)
Definition new_cli_plugin (w : fs) (p : string) : C16_Model.err * option string :=
  match stat w p with
  | SNotExist => (ENotExist, None)
  | SOtherErr => (EOther, None)
  | SOk NDir => (EOther, None)
  | SOk (NFile _ _) => (ENone, Some p)
  end.

(* CLIManager.Get = validatePluginName, then NewCLIPlugin on
   SysPath(path.Join(name, binName(name))) *)
Lemma get_is_validate_then_new w root name :
  get w root name =
  if valid_name name then
    let p := pjoin [root; pjoin [name; bin_name name]] in
    (fst (new_cli_plugin w p), snd (new_cli_plugin w p), [EStat p])
  else (EInvalid, None, []).
Proof.
  unfold get, new_cli_plugin. destruct (valid_name name); [|reflexivity]. cbn [negb].
  destruct (stat w _) as [| |[|x m]]; reflexivity.
Qed.

(* CLIManager.Uninstall = validatePluginName, then os.Stat and os.RemoveAll on
   SysPath(name) *)
Lemma uninstall_is_validate_then_stat w root name :
  uninstall w root name =
  if valid_name name then
    let p := pjoin [root; name] in
    match stat w p with
    | SNotExist => (ENotExist, w, [EStat p])
    | SOtherErr => (EOther, w, [EStat p])
    | SOk _ => (ENone, fs_remove_all p w, [EStat p; ERemoveAll p])
    end
  else (EInvalid, w, []).
Proof. unfold uninstall. destruct (valid_name name); reflexivity. Qed.

(* isExecutableFile in the model (scan_step, install: a stat, then the x bit) *)
Definition is_executable_file (w : fs) (p : string) : bool * C16_Model.err :=
  match stat w p with
  | SNotExist => (false, ENotExist)
  | SOtherErr => (false, EOther)
  | SOk NDir => (false, EOther)
  | SOk (NFile x _) => (x, ENone)
  end.

(* getVerificationPlugin in the model: the first stage of verify_plan.
   NSNoPlugin = the attribute is absent (verification goes on without plugin),
   NSError e  = processSignature stops with class e before any manager call,
   NSName s   = the name handed to the later stages *)
Inductive name_stage := NSNoPlugin | NSError (e : C16_Model.err) | NSName (s : string).

Definition verification_plugin_stage (a : vattr) : name_stage :=
  match a with
  | VAbsent => NSNoPlugin
  | VNotCritical _ => NSError EOther
  | VNotString => NSError EOther
  | VStr s => if all_space s then NSError EEmpty else NSName s
  end.

Lemma verify_plan_stages a mb pm :
  verify_plan a mb pm =
  match verification_plugin_stage a with
  | NSNoPlugin => (ENone, [])
  | NSError e => (e, [])
  | NSName s => if mb then (EOther, []) else if negb pm then (EOther, []) else (ENone, [CGet s])
  end.
Proof. destruct a as [|s| |s]; cbn; try reflexivity. destruct (all_space s); reflexivity. Qed.

(* the manager is called only with the name the first stage returns *)
Lemma verify_plan_calls_stage a mb pm s :
  In (CGet s) (snd (verify_plan a mb pm)) -> verification_plugin_stage a = NSName s.
Proof.
  rewrite verify_plan_stages. destruct (verification_plugin_stage a) as [|e|s']; cbn; try tauto.
  destruct mb; cbn; [tauto|]. destruct pm; cbn; [|tauto]. intros [H|[]]. now inversion H.
Qed.
