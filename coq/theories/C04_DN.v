(* C04_DN.v — byte-level model of distinguished-name handling in notation-go.
   Definitions only (lemmas are in C04_Proofs.v).  Mirrors, for ASCII input:

     go-ldap v3.4.10  dn.go   ParseDN, setType/setValue, decodeString,
                              stripLeadingAndTrailingSpaces
     /repo internal/pkix/pkix.go   ParseDistinguishedName, IsSubsetDN
                                   (after fix 03c6882: presence required)

   plus the renderer of abstract DNs (attribute list + per-attribute style)
   used by the round-trip theorem and by the harness.

   Limits: go-ldap converts a segment to []rune before un-escaping and writes
   the runes back as UTF-8, and the loop of ParseDN is byte-wise; for input
   that is VALID UTF-8 this is the identity on bytes, and every character go-ldap
   tests for is ASCII, so this byte-level model is claimed for all valid UTF-8
   input (every Subject.String() of crypto/x509 and every identity read from a
   JSON policy is valid UTF-8); strings.TrimSpace's Unicode white space is
   modelled by [all_go_space].  Input that is NOT valid UTF-8 is outside the
   model: each offending byte becomes U+FFFD in the Go code (hex escapes \XX
   may still PRODUCE any byte; those are copied verbatim by both).
   The "#hex" BER value form of setValue is not modelled (result PUnsupported):
   ParseDistinguishedName rejects every name containing "=#" before calling
   ParseDN, and a value can only start with '#' right after a '='
   (lemma [parse_dn_supported]). *)
From NV Require Import Base.
Open Scope char_scope.
Open Scope list_scope.

Definition la := list ascii.

(* ---------- characters ---------- *)

Definition is_sep (c : ascii) : bool :=
  Ascii.eqb c "," || Ascii.eqb c "+" || Ascii.eqb c ";".

(* the special characters of decodeString's switch *)
Definition specials : la := [" "; """"; "#"; "+"; ","; ";"; "<"; "="; ">"; "\"].
Definition is_special (c : ascii) : bool := existsb (Ascii.eqb c) specials.

(* encoding/hex.fromHexChar *)
Definition hexval (c : ascii) : option N :=
  let n := N_of_ascii c in
  if (48 <=? n)%N && (n <=? 57)%N then Some (n - 48)%N
  else if (97 <=? n)%N && (n <=? 102)%N then Some (n - 87)%N
  else if (65 <=? n)%N && (n <=? 70)%N then Some (n - 55)%N
  else None.

(* ASCII part of unicode.IsSpace, used by strings.TrimSpace *)
Definition is_go_space (c : ascii) : bool :=
  let n := N_of_ascii c in ((9 <=? n)%N && (n <=? 13)%N) || (n =? 32)%N.

(* strings.TrimSpace(s) == "": every rune of s is white space (unicode.IsSpace).
   Byte-level recogniser of the UTF-8 encodings of U+0009..U+000D, U+0020,
   U+0085, U+00A0, U+1680, U+2000..U+200A, U+2028, U+2029, U+202F, U+205F,
   U+3000; a byte that does not start one of them (an invalid sequence
   included: RuneError is not white space) makes the answer false. *)
Definition space3 (a b c : N) : bool :=
  ((a =? 225) && (b =? 154) && (c =? 128))%N
  || ((a =? 226) && (b =? 128) && (((128 <=? c) && (c <=? 138)) || (c =? 168) || (c =? 169) || (c =? 175)))%N
  || ((a =? 226) && (b =? 129) && (c =? 159))%N
  || ((a =? 227) && (b =? 128) && (c =? 128))%N.

Fixpoint all_go_space (s : list ascii) : bool :=
  match s with
  | [] => true
  | c :: r =>
      if is_go_space c then all_go_space r
      else match r with
           | [] => false
           | d :: r1 =>
               if ((N_of_ascii c =? 194) && ((N_of_ascii d =? 133) || (N_of_ascii d =? 160)))%N
               then all_go_space r1
               else match r1 with
                    | [] => false
                    | e :: r2 =>
                        if space3 (N_of_ascii c) (N_of_ascii d) (N_of_ascii e) then all_go_space r2 else false
                    end
           end
  end.

(* unicode/utf8.Valid on bytes (the input contract of the model) *)
Definition cont (n : N) : bool := ((128 <=? n) && (n <=? 191))%N.

Fixpoint valid_utf8_bytes (s : list ascii) : bool :=
  match s with
  | [] => true
  | c :: r =>
      let a := N_of_ascii c in
      if (a <? 128)%N then valid_utf8_bytes r
      else match r with
           | [] => false
           | d :: r1 =>
               let b := N_of_ascii d in
               if ((194 <=? a) && (a <=? 223))%N then cont b && valid_utf8_bytes r1
               else match r1 with
                    | [] => false
                    | e :: r2 =>
                        let c3 := N_of_ascii e in
                        if ((224 <=? a) && (a <=? 239))%N then
                          (if (a =? 224)%N then ((160 <=? b) && (b <=? 191))%N
                           else if (a =? 237)%N then ((128 <=? b) && (b <=? 159))%N
                           else cont b)
                          && cont c3 && valid_utf8_bytes r2
                        else match r2 with
                             | [] => false
                             | f :: r3 =>
                                 if ((240 <=? a) && (a <=? 244))%N then
                                   (if (a =? 240)%N then ((144 <=? b) && (b <=? 191))%N
                                    else if (a =? 244)%N then ((128 <=? b) && (b <=? 143))%N
                                    else cont b)
                                   && cont c3 && cont (N_of_ascii f) && valid_utf8_bytes r3
                                 else false
                             end
                    end
           end
  end.

(* ---------- stripLeadingAndTrailingSpaces ---------- *)

Fixpoint ltrim (s : la) : la :=
  match s with
  | c :: r => if Ascii.eqb c " " then ltrim r else s
  | [] => []
  end.

Definition rtrim (s : la) : la := rev (ltrim (rev s)).

Definition last_is (c : ascii) (s : la) : bool :=
  match rev s with d :: _ => Ascii.eqb d c | [] => false end.

(* noSpaces := strings.Trim(inVal, " "); re-add one space when noSpaces ends
   with a backslash and inVal ended with a space *)
Definition strip (s : la) : la :=
  let ns := rtrim (ltrim s) in
  if last_is "\" ns && last_is " " s then ns ++ [" "] else ns.

(* ---------- decodeString (after the strip) ---------- *)

Fixpoint unescape (s : la) : option la :=
  match s with
  | [] => Some []
  | c :: r =>
      if negb (Ascii.eqb c "\") then option_map (cons c) (unescape r)
      else match r with
           | [] => None                                  (* corrupted escaped character *)
           | d :: r' =>
               if is_special d then option_map (cons d) (unescape r')
               else match r' with
                    | [] => None                         (* i+2 >= len(s) *)
                    | e :: r'' =>
                        match hexval d, hexval e with
                        | Some h, Some l =>
                            option_map (cons (ascii_of_N (16 * h + l))) (unescape r'')
                        | _, _ => None
                        end
                    end
           end
  end.

Definition decode_string (s : la) : option la := unescape (strip s).

(* ---------- ParseDN ---------- *)

Definition attr := (string * string)%type.

Record pst := mk_pst {
  p_esc : bool;            (* escaping *)
  p_seg : la;              (* str[startPos:i], reversed *)
  p_ty : la;               (* attr.Type ("" = not set) *)
  p_attrs : list attr;     (* rdn.Attributes, reversed *)
  p_rdns : list (list attr) }.   (* dn.RDNs, reversed *)

Inductive sres := SOk (st : pst) | SErr | SHex.

Definition pst0 : pst := mk_pst false [] [] [] [].

Definition is_nil {A} (l : list A) : bool := match l with [] => true | _ => false end.

Inductive vres := VOk (v : la) | VErr | VHex.

(* setValue: a raw segment starting with '#' takes the BER branch *)
Definition set_value (seg : la) : vres :=
  match seg with
  | "#" :: _ => VHex
  | _ => match decode_string seg with Some v => VOk v | None => VErr end
  end.

(* appendAttributesToRDN(end) after a successful setValue *)
Definition append_attr (st : pst) (v : la) (last : bool) : pst :=
  let a := (string_of_list_ascii (p_ty st), string_of_list_ascii v) in
  if last then mk_pst (p_esc st) [] [] [] (rev (a :: p_attrs st) :: p_rdns st)
  else mk_pst (p_esc st) [] [] (a :: p_attrs st) (p_rdns st).

(* one iteration of the byte loop *)
Definition step (st : pst) (c : ascii) : sres :=
  if p_esc st then
    SOk (mk_pst false (c :: p_seg st) (p_ty st) (p_attrs st) (p_rdns st))
  else if Ascii.eqb c "\" then
    SOk (mk_pst true (c :: p_seg st) (p_ty st) (p_attrs st) (p_rdns st))
  else if Ascii.eqb c "=" && is_nil (p_ty st) then
    match decode_string (rev (p_seg st)) with
    | None => SErr
    | Some t => SOk (mk_pst false [] t (p_attrs st) (p_rdns st))
    end
  else if is_sep c then
    if is_nil (p_ty st) then SErr                        (* incomplete type, value pair *)
    else match set_value (rev (p_seg st)) with
         | VErr => SErr
         | VHex => SHex
         | VOk v => SOk (append_attr st v (negb (Ascii.eqb c "+")))
         end
  else SOk (mk_pst false (c :: p_seg st) (p_ty st) (p_attrs st) (p_rdns st)).

Fixpoint run (st : pst) (s : la) : sres :=
  match s with
  | [] => SOk st
  | c :: r => match step st c with SOk st' => run st' r | e => e end
  end.

Inductive presult := POk (rdns : list (list attr)) | PErr | PUnsupported.

(* after the loop *)
Definition finish (st : pst) : presult :=
  if is_nil (p_ty st) then PErr                         (* DN ended with incomplete type, value pair *)
  else match set_value (rev (p_seg st)) with
       | VErr => PErr
       | VHex => PUnsupported
       | VOk v => POk (rev (p_rdns (append_attr st v true)))
       end.

Definition parse_dn_bytes (s : la) : presult :=
  if all_go_space s then POk []                          (* strings.TrimSpace(str) == "" *)
  else match run pst0 s with
       | SOk st => finish st
       | SErr => PErr
       | SHex => PUnsupported
       end.

Definition parse_dn (s : string) : presult := parse_dn_bytes (list_ascii_of_string s).

(* ---------- pkix.ParseDistinguishedName ---------- *)

Open Scope string_scope.
Open Scope list_scope.

Inductive dnerr :=
| EHash                 (* name contains "=#" *)
| ESyntax               (* ParseDN failed *)
| EMulti                (* multi-valued RDN *)
| EDup (k : string)     (* duplicate RDN attribute *)
| EMissing (k : string) (* mandatory attribute absent or empty *).

Inductive dnres := DOk (m : amap) | DErr (e : dnerr).

Fixpoint has_eqhash (s : la) : bool :=
  match s with
  | [] => false
  | c :: r =>
      (Ascii.eqb c "="%char && match r with d :: _ => Ascii.eqb d "#"%char | [] => false end)
      || has_eqhash r
  end.

Definition canon_type (t : string) : string := if String.eqb t "S" then "ST" else t.

(* inner loop over rdn.Attributes *)
Fixpoint add_attrs (atts : list attr) (m : amap) : dnres :=
  match atts with
  | [] => DOk m
  | (t, v) :: rest =>
      let t' := canon_type t in
      if String.eqb (lookup_default t' m) "" then add_attrs rest (set_key t' v m)
      else DErr (EDup t')
  end.

Fixpoint add_rdns (rdns : list (list attr)) (m : amap) : dnres :=
  match rdns with
  | [] => DOk m
  | rdn :: rest =>
      if (1 <? List.length rdn)%nat then DErr EMulti
      else match add_attrs rdn m with
           | DOk m' => add_rdns rest m'
           | e => e
           end
  end.

Definition mandatory : list string := ["C"; "ST"; "O"].

Definition parse_distinguished_name (name : string) : dnres :=
  if has_eqhash (list_ascii_of_string name) then DErr EHash
  else match parse_dn name with
       | PErr | PUnsupported => DErr ESyntax
       | POk rdns =>
           match add_rdns rdns [] with
           | DErr e => DErr e
           | DOk m =>
               match find (fun f => String.eqb (lookup_default f m) "") mandatory with
               | Some f => DErr (EMissing f)
               | None => DOk m
               end
           end
       end.

(* ---------- pkix.IsSubsetDN (Go map semantics: keys of dn1, each present in
   dn2 with an equal value) ---------- *)
Definition is_subset_dn (a b : amap) : bool :=
  forallb (fun kv =>
    match lookup (fst kv) a, lookup (fst kv) b with
    | Some v, Some v' => String.eqb v v'
    | _, _ => false
    end) a.

(* ---------- maps as observed (sorted association lists) ---------- *)
Definition amap_sub (a b : amap) : bool :=
  forallb (fun kv => match lookup (fst kv) b with Some v => String.eqb (snd kv) v | None => false end) a.
Definition amap_eqb (a b : amap) : bool :=
  Nat.eqb (List.length a) (List.length b) && amap_sub a b && amap_sub b a.

Definition dnerr_eqb (a b : dnerr) : bool :=
  match a, b with
  | EHash, EHash | ESyntax, ESyntax | EMulti, EMulti => true
  | EDup k, EDup k' | EMissing k, EMissing k' => String.eqb k k'
  | _, _ => false
  end.

Definition dnres_eqb (a b : dnres) : bool :=
  match a, b with
  | DOk m, DOk m' => amap_eqb m m'
  | DErr e, DErr e' => dnerr_eqb e e'
  | _, _ => false
  end.

(* ---------- rendering of abstract DNs ----------
   An abstract DN is a list of (type, value); a style says how one attribute
   is written: S instead of ST, unescaped spaces around type and value, the
   separator that follows, and per value byte how it is escaped. *)

Record astyle := mk_astyle {
  s_alias : bool;          (* write the type ST as S *)
  s_semi : bool;           (* the separator after this attribute is ';' (else ',') *)
  s_sp1 : N; s_sp2 : N;    (* spaces before / after the type *)
  s_sp3 : N; s_sp4 : N;    (* spaces before / after the value *)
  s_esc : list N }.        (* per value byte: 0 plain if allowed, 1 backslash + char
                              if allowed, 2 \xx lower-case hex, 3 \XX upper-case hex *)

Definition style0 : astyle := mk_astyle false false 0 0 0 0 [].

Definition spaces (n : N) : la := repeat " "%char (N.to_nat n).

Definition hexdigit (upper : bool) (n : N) : ascii :=
  if (n <? 10)%N then ascii_of_N (48 + n)
  else if upper then ascii_of_N (55 + n) else ascii_of_N (87 + n).

Definition hex_escape (upper : bool) (b : ascii) : la :=
  let n := N_of_ascii b in
  ["\"%char; hexdigit upper (n / 16); hexdigit upper (n mod 16)].

(* bytes that are always written as a hex escape: '#' (so that "=#" never
   appears) and non-ASCII bytes (the input of the parser stays ASCII) *)
Definition must_hex (b : ascii) : bool :=
  Ascii.eqb b "#"%char || (128 <=? N_of_ascii b)%N.

(* may the byte be written as itself? [edge]: first or last byte of the value *)
Definition plain_ok (edge : bool) (b : ascii) : bool :=
  negb (must_hex b) && negb (Ascii.eqb b "\"%char) && negb (is_sep b)
  && negb (edge && Ascii.eqb b " "%char).

Definition enc_byte (choice : N) (edge : bool) (b : ascii) : la :=
  if (choice =? 2)%N then hex_escape false b
  else if (choice =? 3)%N then hex_escape true b
  else if (choice =? 1)%N && is_special b && negb (must_hex b) then ["\"%char; b]
  else if plain_ok edge b then [b]
  else if is_special b && negb (must_hex b) then ["\"%char; b]
  else hex_escape false b.

(* all bytes but the first: the last one is an edge *)
Fixpoint enc_rest (v : la) (ch : list N) : la :=
  match v with
  | [] => []
  | b :: r => enc_byte (hd 0%N ch) (is_nil r) b ++ enc_rest r (tl ch)
  end.

Definition enc_value (v : la) (ch : list N) : la :=
  match v with
  | [] => []
  | b :: r => enc_byte (hd 0%N ch) true b ++ enc_rest r (tl ch)
  end.

Definition render_type (st : astyle) (t : string) : string :=
  if s_alias st && String.eqb t "ST" then "S" else t.

Definition render_attr (sa : astyle * attr) : la :=
  let (st, a) := sa in
  spaces (s_sp1 st) ++ list_ascii_of_string (render_type st (fst a)) ++ spaces (s_sp2 st)
  ++ ["="%char] ++ spaces (s_sp3 st)
  ++ enc_value (list_ascii_of_string (snd a)) (s_esc st) ++ spaces (s_sp4 st).

Definition sep_of (st : astyle) : ascii := if s_semi st then ";"%char else ","%char.

Fixpoint render_bytes (d : list (astyle * attr)) : la :=
  match d with
  | [] => []
  | sa :: rest =>
      match rest with
      | [] => render_attr sa
      | _ :: _ => render_attr sa ++ [sep_of (fst sa)] ++ render_bytes rest
      end
  end.

Definition render (d : list (astyle * attr)) : string := string_of_list_ascii (render_bytes d).

(* --- side conditions of the round trip --- *)

Definition safe_type_char (c : ascii) : bool :=
  let n := N_of_ascii c in
  ((48 <=? n)%N && (n <=? 57)%N) || ((65 <=? n)%N && (n <=? 90)%N)
  || ((97 <=? n)%N && (n <=? 122)%N) || (n =? 45)%N || (n =? 46)%N.

(* one attribute: the type is a non-empty word over [A-Za-z0-9.-] other than
   the alias "S", the value is a non-empty byte string *)
Definition attr_wf (a : attr) : bool :=
  negb (String.eqb (fst a) "") && forallb safe_type_char (list_ascii_of_string (fst a))
  && negb (String.eqb (fst a) "S") && negb (String.eqb (snd a) "").

Fixpoint nodup_keys (d : list attr) : bool :=
  match d with
  | [] => true
  | (k, _) :: r => negb (existsb (fun kv => String.eqb k (fst kv)) r) && nodup_keys r
  end.

Definition dn_wf (d : list attr) : bool :=
  forallb attr_wf d && nodup_keys d
  && forallb (fun f => match lookup f d with Some _ => true | None => false end) mandatory.

(* go-ldap re-adds a trailing space when what is left after trimming ends in a
   backslash: a value ending in "\" must not be followed by unescaped spaces *)
Definition style_wf (sa : astyle * attr) : bool :=
  (s_sp4 (fst sa) =? 0)%N || negb (last_is "\"%char (list_ascii_of_string (snd (snd sa)))).
