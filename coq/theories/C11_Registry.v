(* C11_Registry.v — the repository client under notation.SignOCI, with transient faults.
   Definitions only. Mirrors, statement by statement (registry/repository.go):
     repositoryClient.Resolve            one Resolve on the oras.GraphTarget
     repositoryClient.PushSignature      oras.PushBytes (one Push of the envelope blob; an
                                         errdef.ErrAlreadyExists is NOT tolerated there),
                                         uploadSignatureManifest
     uploadSignatureManifest             pushNotationManifestConfig, oras.PackManifest (one
                                         Push of the manifest on the target)
     pushNotationManifestConfig          Exists(empty config); if absent Push(empty config),
                                         errdef.ErrAlreadyExists tolerated
   The client keeps NO state between calls: what a call does is a function of the store
   and the arguments. In C11_Model the answer of PushSignature is an input ([ci_push]);
   here it is computed: [sign_oci_reg] is [sign_oci] with the push script that
   [push_signature] derives from the content of the store and the fault of the call.

   The store (the oras.GraphTarget: an oci.Store in the harness) is content addressed:
   [bl] is the set of blob contents it holds, as far as they matter (envelope blobs and
   the empty config "{}": the config exists iff "{}" is held — an envelope whose bytes are
   "{}" IS the config blob). A Push of bytes the store already holds fails with
   ErrAlreadyExists (oci.Store; the observation in the harness decides). Packed manifests
   are assumed to have bytes no other blob of the history has (they name the fresh
   envelope digest).

   Faults: the k-th operation the client issues on the store during one SignOCI call
   (0 = Resolve, 1 = Push envelope, 2 = Exists config, then Push config if absent, then
   Push manifest) fails once — before taking effect ([FBefore]: nothing written) or after
   it ([FAfter]: written, the caller is told it failed, e.g. a lost response or a context
   that expires on the way back). *)
From NV Require Import Base Generated C11_Model.
Open Scope string_scope.

Inductive sop := OResolve | OPushBlob | OExistsCfg | OPushCfg | OPushMan | OOther.

Inductive fkind := FBefore | FAfter.

(* how one store operation ended: fine / injected fault (no effect | after the effect) /
   failed by itself (unresolvable reference, blob already there) *)
Inductive oout := OOk | OInjBefore | OInjAfter | ONatural.

Definition inj (k : fkind) : oout := match k with FBefore => OInjBefore | FAfter => OInjAfter end.

Definition fault := option (N * fkind).

Definition fault_at (f : fault) (k : N) : option fkind :=
  match f with
  | Some (j, fk) => if (j =? k)%N then Some fk else None
  | None => None
  end.

(* PushSignature: pushed | failed | failed although the manifest was written *)
Inductive pout := POk | PFail | PFailStored.

(* ocispec.DescriptorEmptyJSON.Data *)
Definition cfg_bytes : string := "{}".

Definition add_blob (x : string) (bl : list string) : list string :=
  if mem_str x bl then bl else x :: bl.

(* oras.PackManifest -> target.Push(manifest); [k] = index of the operation *)
Definition push_manifest (f : fault) (k : N) (ops : list (sop * oout)) (bl : list string)
  : list (sop * oout) * list string * pout :=
  match fault_at f k with
  | Some FBefore => ((ops ++ [(OPushMan, OInjBefore)])%list, bl, PFail)
  | Some FAfter => ((ops ++ [(OPushMan, OInjAfter)])%list, bl, PFailStored)
  | None => ((ops ++ [(OPushMan, OOk)])%list, bl, POk)
  end.

(* repositoryClient.PushSignature(mediaType, blob = sig, subject, annotations) *)
Definition push_signature (f : fault) (bl : list string) (sig : string)
  : list (sop * oout) * list string * pout :=
  (* blobDesc, err = oras.PushBytes(ctx, pusher, mediaType, blob); if err != nil return *)
  match fault_at f 1 with
  | Some FBefore => ([(OPushBlob, OInjBefore)], bl, PFail)
  | Some FAfter => ([(OPushBlob, OInjAfter)], add_blob sig bl, PFail)
  | None =>
  if mem_str sig bl then ([(OPushBlob, ONatural)], bl, PFail) else
  let bl1 := sig :: bl in
  (* uploadSignatureManifest: configDesc, err := pushNotationManifestConfig(ctx, c.GraphTarget) *)
  (*   exists, err := pusher.Exists(ctx, notationEmptyConfigDesc) *)
  match fault_at f 2 with
  | Some fk => ([(OPushBlob, OOk); (OExistsCfg, inj fk)], bl1, PFail)
  | None =>
  if mem_str cfg_bytes bl1 then
    push_manifest f 3 [(OPushBlob, OOk); (OExistsCfg, OOk)] bl1
  else
  (*   pusher.Push(ctx, notationEmptyConfigDesc, ...) *)
  match fault_at f 3 with
  | Some FBefore => ([(OPushBlob, OOk); (OExistsCfg, OOk); (OPushCfg, OInjBefore)], bl1, PFail)
  | Some FAfter => ([(OPushBlob, OOk); (OExistsCfg, OOk); (OPushCfg, OInjAfter)], cfg_bytes :: bl1, PFail)
  | None =>
    push_manifest f 4 [(OPushBlob, OOk); (OExistsCfg, OOk); (OPushCfg, OOk)] (cfg_bytes :: bl1)
  end end end.

(* ---------- one SignOCI call through the client ---------- *)

Definition set_push (c : call_in) (p : pscript) : call_in :=
  mk_call_in (ci_signer_nil c) (ci_repo_nil c) (ci_ref c) (ci_parse c) (ci_isdigest c)
             (ci_mt c) (ci_expiry c) (ci_agent c) (ci_meta c) (ci_first c) (ci_pcfg c)
             (ci_sign c) (ci_pa c) p.

(* the same options, the signer answers with other envelope bytes *)
Definition set_sign (c : call_in) (s : string) : call_in :=
  mk_call_in (ci_signer_nil c) (ci_repo_nil c) (ci_ref c) (ci_parse c) (ci_isdigest c)
             (ci_mt c) (ci_expiry c) (ci_agent c) (ci_meta c) (ci_first c) (ci_pcfg c)
             (match ci_sign c with SOk _ info => SOk s info | SErr => SErr end) (ci_pa c) (ci_push c).

Definition sig_of (c : call_in) : string :=
  match ci_sign c with SOk s _ => s | SErr => "" end.

(* the signature manifest a PushSignature call stores *)
Definition sto_of (pc : push_call) : stored :=
  mk_stored (pc_mt pc) (pc_sig pc) (forget (pc_subject pc)) (pc_ann pc).

Record fcall := mk_fcall {
  fc_call : call_in;       (* [ci_push] is not read *)
  fc_dg : string;          (* oracle: digest of the manifest oras.PackManifest packs for this call *)
  fc_fault : fault }.

Definition resolve_out (tbl : table) (c : call_in) (f : fault) : oout :=
  match fault_at f 0 with
  | Some fk => inj fk
  | None => if is_some (lookup_tbl (eff_ref c) tbl) then OOk else ONatural
  end.

Definition sign_oci_reg (tbl : table) (st : state) (bl : list string) (fc : fcall)
  : state * list string * trace * list (sop * oout) :=
  let c := fc_call fc in
  let f := fc_fault fc in
  (* a Resolve that fails is a reference that does not resolve *)
  let tbl' := match fault_at f 0 with Some _ => [] | None => tbl end in
  let '(pops, bl', po) := push_signature f bl (sig_of c) in
  let c' := set_push c (match po with POk => PushOK (fc_dg fc) | _ => PushErr end) in
  let '(st', t) := sign_oci false tbl' st c' in
  let rop := match t_resolves t with [] => [] | _ => [(OResolve, resolve_out tbl c f)] end in
  match t_pushes t with
  | [] => (st', bl, t, rop)
  | pc :: _ =>
      (match po with
       | PFailStored => mk_state (s_heap st') (s_stored st' ++ [sto_of pc])%list
       | _ => st'
       end, bl', t, (rop ++ pops)%list)
  end.

(* ---------- histories with faults ---------- *)

Record finput := mk_finput {
  fi_heap : heap;
  fi_table : table;
  fi_probes : list string;
  fi_blobs : list string;       (* blob contents the store holds before the first call *)
  fi_cands : list string;       (* the contents whose presence is observed after every call *)
  fi_calls : list fcall }.

Record fcall_obs := mk_fco {
  fo_co : call_obs;
  fo_ops : list (sop * oout);   (* the operations the store received during the call *)
  fo_blobs : list bool }.       (* for every candidate: the store holds it after the call *)

Definition fobs := list fcall_obs.

Definition presence (cands bl : list string) : list bool := map (fun x => mem_str x bl) cands.

Fixpoint run_fcalls (tbl : table) (probes cands : list string) (st : state) (bl : list string)
         (cs : list fcall) : fobs :=
  match cs with
  | [] => []
  | fc :: cs' =>
      let '(st', bl', t, ops) := sign_oci_reg tbl st bl fc in
      mk_fco (mk_co t (s_heap st') (view tbl probes (s_heap st')) (s_stored st')) ops (presence cands bl')
      :: run_fcalls tbl probes cands st' bl' cs'
  end.

Definition fmodel (i : finput) : fobs :=
  run_fcalls (fi_table i) (fi_probes i) (fi_cands i) (mk_state (fi_heap i) []) (fi_blobs i) (fi_calls i).

(* ---------- vocabulary of the theorems ---------- *)

(* the same PushSignature call / the same trace with other envelope bytes (and manifest digest) *)
Definition pc_resig (pc : push_call) (s : string) : push_call :=
  mk_push_call (pc_mt pc) s (pc_subject pc) (pc_ref pc) (pc_ann pc).

Definition retrace (t : trace) (s dg : string) : trace :=
  mk_trace (t_res t) (t_art t) dg (t_resolves t) (t_signs t) (map (fun pc => pc_resig pc s) (t_pushes t)).

(* what consecutive successful calls look like that differ from a call with trace [t] only
   in the envelope bytes [s] the signer returns (and the manifest digest [dg]): the same
   trace but for the bytes, the heap [h1], one more signature each *)
Fixpoint expect_ok (tbl : table) (probes : list string) (t : trace) (h1 : heap) (sp : list stored)
         (rest : list (string * string)) : list call_obs :=
  match rest with
  | [] => []
  | (s, dg) :: r =>
      let t' := retrace t s dg in
      let sp' := (sp ++ map sto_of (t_pushes t'))%list in
      mk_co t' h1 (view tbl probes h1) sp' :: expect_ok tbl probes t h1 sp' r
  end.

Definition all_ok (ops : list (sop * oout)) : bool :=
  forallb (fun x => match snd x with OOk => true | _ => false end) ops.

(* ---------- equality of observations ---------- *)

Definition sop_eqb (a b : sop) : bool :=
  match a, b with
  | OResolve, OResolve | OPushBlob, OPushBlob | OExistsCfg, OExistsCfg | OPushCfg, OPushCfg
  | OPushMan, OPushMan | OOther, OOther => true
  | _, _ => false
  end.

Definition oout_eqb (a b : oout) : bool :=
  match a, b with
  | OOk, OOk | OInjBefore, OInjBefore | OInjAfter, OInjAfter | ONatural, ONatural => true
  | _, _ => false
  end.

Definition fco_eqb (a b : fcall_obs) : bool :=
  co_eqb (fo_co a) (fo_co b)
  && list_eqb (fun x y => sop_eqb (fst x) (fst y) && oout_eqb (snd x) (snd y)) (fo_ops a) (fo_ops b)
  && list_eqb Bool.eqb (fo_blobs a) (fo_blobs b).

Definition fobs_eqb (a b : fobs) : bool := list_eqb fco_eqb a b.

(* ---------- the property oracle for histories with faults ----------
   On observations only (no [sign_oci_reg], no [push_signature]): which operations the
   store received and how they ended is observed. A call during which no store operation
   failed must end exactly like a call whose PushSignature succeeded ([spec_call] with
   [PushOK]): in particular a call AFTER a failed one, on the store healthy again,
   succeeds and adds exactly its signature. A call during which an operation failed
   fails, changes nothing in the repository's view, the descriptors and the option maps,
   and adds no signature — except that a manifest Push that failed after taking effect
   has stored that one signature. An operation fails by itself only as an unresolvable
   reference or as the Push of envelope bytes the store already held. *)

Definition push_stage (o : sop) : bool :=
  match o with OPushBlob | OExistsCfg | OPushCfg | OPushMan => true | _ => false end.

Definition failed (x : oout) : bool := negb (oout_eqb x OOk).

Definition present (cands : list string) (bs : list bool) (x : string) : bool :=
  existsb (fun p => String.eqb (fst p) x && snd p) (combine cands bs).

Definition set_stored (o : call_obs) (sp : list stored) : call_obs :=
  mk_co (co_trace o) (co_heap o) (co_view o) sp.

(* the Resolve of the store failed although the reference resolves: SignOCI refuses, quietly *)
Definition spec_resolve_fault (tbl : table) (probes : list string) (hp : heap) (sp : list stored)
           (c : call_in) (o : call_obs) : bool :=
  let t := co_trace o in
  heap_same_except None hp (co_heap o)
  && view_ok tbl probes (co_heap o) (co_view o)
  && negb (args_bad c)
  && res_eqb (t_res t) EResolve
  && list_eqb stored_eqb (co_stored o) sp && is_nil (t_pushes t) && is_none (t_art t)
  && String.eqb (t_sigdg t) "" && is_nil (t_signs t)
  && list_eqb String.eqb (t_resolves t) [eff_ref c].

Definition fspec_call (tbl : table) (probes cands : list string) (hp : heap) (sp : list stored)
           (blp : list bool) (fc : fcall) (fo : fcall_obs) : bool :=
  let c := fc_call fc in
  let ops := fo_ops fo in
  let o := fo_co fo in
  let res_injected := existsb (fun x => sop_eqb (fst x) OResolve
                                        && (oout_eqb (snd x) OInjBefore || oout_eqb (snd x) OInjAfter)) ops in
  let push_failed := existsb (fun x => push_stage (fst x) && failed (snd x)) ops in
  let stored_anyway := existsb (fun x => sop_eqb (fst x) OPushMan && oout_eqb (snd x) OInjAfter) ops in
  let natural_ok :=
    forallb (fun x => negb (oout_eqb (snd x) ONatural)
                      || (sop_eqb (fst x) OResolve && is_none (lookup_tbl (eff_ref c) tbl))
                      || (sop_eqb (fst x) OPushBlob && present cands blp (sig_of c))) ops in
  let c' := set_push c (if push_failed then PushErr else PushOK (fc_dg fc)) in
  natural_ok &&
  if res_injected then spec_resolve_fault tbl probes hp sp c o
  else if stored_anyway then
    match rev (co_stored o), t_pushes (co_trace o) with
    | x :: r, [pc] => stored_eqb x (sto_of pc) && spec_call tbl probes hp sp c' (set_stored o (rev r))
    | _, _ => false
    end
  else spec_call tbl probes hp sp c' o.

Fixpoint fspec_calls (tbl : table) (probes cands : list string) (hp : heap) (sp : list stored)
         (blp : list bool) (cs : list fcall) (os : fobs) : bool :=
  match cs, os with
  | [], [] => true
  | fc :: cs', fo :: os' =>
      fspec_call tbl probes cands hp sp blp fc fo
      && fspec_calls tbl probes cands (co_heap (fo_co fo)) (co_stored (fo_co fo)) (fo_blobs fo) cs' os'
  | _, _ => false
  end.

Definition fspec_ok (i : finput) (o : fobs) : bool :=
  fspec_calls (fi_table i) (fi_probes i) (fi_cands i) (fi_heap i) []
              (presence (fi_cands i) (fi_blobs i)) (fi_calls i) o.

(* the input contract: that of C11_Model for every call; the envelope bytes of every call
   are among the observed candidates *)
Definition fwf (i : finput) : bool :=
  wf_heap (fi_heap i)
  && forallb (fun fc => wf_call (fi_heap i) (fi_table i) (fc_call fc)
                        && mem_str (sig_of (fc_call fc)) (fi_cands i)) (fi_calls i).

(* ---------- referrers tag-schema fallback: history on ONE long-lived registry ----------
   A registry WITHOUT the Referrers API: the client keeps, per subject, a referrers index
   manifest under the tag sha256-<hex>; every further signature PUTs a new index and
   DELETEs the superseded one. When only that DELETE fails (remote.ReferrersError with
   IsReferrersIndexDelete), the signature IS pushed. Observables of one call: the outcome
   class, whether a signature manifest over the resolved subject whose layers[0] is the
   digest of the signer's envelope is listed in the subject's referrers index after the
   call, the bytes fetchable under layers[0] of that manifest after the call, and the
   store entries (blobs, manifests, tags) that existed before the call and are gone. *)
Inductive routcome := RSuccess | RIndexDelete | RFailed.

Definition routcome_eqb (a b : routcome) : bool :=
  match a, b with
  | RSuccess, RSuccess | RIndexDelete, RIndexDelete | RFailed, RFailed => true
  | _, _ => false
  end.

Record rcall := mk_rcall {
  rc_sig : string;                 (* envelope bytes the signer returned *)
  rc_old_index : option string;    (* store key of the subject's referrers index before the call *)
  rc_del_fails : bool              (* manifest DELETE fails during this call *)
}.

Record robs := mk_robs {
  ro_outcome : routcome;
  ro_attached : bool;
  ro_envelope : option string;     (* None: layers[0] of the attached manifest is not fetchable *)
  ro_removed : list string
}.

Definition r_ostr_eqb (a b : option string) : bool :=
  match a, b with
  | Some x, Some y => String.eqb x y
  | None, None => true
  | _, _ => false
  end.

Fixpoint r_strs_eqb (a b : list string) : bool :=
  match a, b with
  | [], [] => true
  | x :: a', y :: b' => String.eqb x y && r_strs_eqb a' b'
  | _, _ => false
  end.

Definition robs_eqb (a b : robs) : bool :=
  routcome_eqb (ro_outcome a) (ro_outcome b)
  && Bool.eqb (ro_attached a) (ro_attached b)
  && r_ostr_eqb (ro_envelope a) (ro_envelope b)
  && r_strs_eqb (ro_removed a) (ro_removed b).

(* the model of a healthy client: the call pushes its signature; the superseded index is
   removed unless its DELETE fails, which is reported and changes nothing else *)
Definition rmodel_call (c : rcall) : robs :=
  match rc_old_index c with
  | Some d => if rc_del_fails c
              then mk_robs RIndexDelete true (Some (rc_sig c)) []
              else mk_robs RSuccess true (Some (rc_sig c)) [d]
  | None => mk_robs RSuccess true (Some (rc_sig c)) []
  end.

(* frame: nothing but the superseded referrers index of the subject may disappear *)
Definition r_frame (c : rcall) (o : robs) : bool :=
  forallb (fun d => r_ostr_eqb (Some d) (rc_old_index c)) (ro_removed o).

(* oracle: after a call that reports success or the referrers-index-delete outcome the
   signature manifest is attached to the resolved subject and its envelope is fetchable
   with exactly the signer's bytes; in every case the frame holds *)
Definition rspec_call (c : rcall) (o : robs) : bool :=
  r_frame c o
  && match ro_outcome o with
     | RFailed => true
     | _ => ro_attached o && r_ostr_eqb (ro_envelope o) (Some (rc_sig c))
     end.

Fixpoint rspec_calls (cs : list rcall) (os : list robs) : bool :=
  match cs, os with
  | [], [] => true
  | c :: cs', o :: os' => rspec_call c o && rspec_calls cs' os'
  | _, _ => false
  end.

Fixpoint robs_list_eqb (a b : list robs) : bool :=
  match a, b with
  | [], [] => true
  | x :: a', y :: b' => robs_eqb x y && robs_list_eqb a' b'
  | _, _ => false
  end.

(* ---------- cases: plain histories (C11_Model) and histories with faults ---------- *)

Inductive xcase :=
| XPlain (c : case)
| XFault (id : N) (i : finput) (o : fobs)
| XRef (id : N) (cs : list rcall) (os : list robs).

Definition xrun (cs : list xcase) : list (N * N * N) :=
  run_cases (fun x => match x with XPlain c => c_id c | XFault id _ _ => id | XRef id _ _ => id end)
    (fun x => match x with
              | XPlain c => obs_eqb (model (c_in c)) (c_obs c)
              | XFault _ i o => fobs_eqb (fmodel i) o
              | XRef _ cs os => robs_list_eqb (map rmodel_call cs) os
              end)
    (fun x => match x with
              | XPlain c => negb (wf (c_in c)) || spec_ok (c_in c) (c_obs c)
              | XFault _ i o => negb (fwf i) || fspec_ok i o
              | XRef _ cs os => rspec_calls cs os
              end)
    (fun _ => 0%N) cs.
