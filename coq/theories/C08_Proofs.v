(* C08_Proofs.v — lemmas about the statement selection model.
   Part 1: value level (which statement is chosen).
   Part 2: heap level (the loops over Go objects refine the value level; what is handed
           out is made of fresh objects only, so writes through it never reach the document).
   Part 3: the correspondence model [model] in closed form, and the oracle. *)
From Coq Require Import Permutation.
From NV Require Import Base Regex Generated C08_Model.
Open Scope string_scope.

(* ================================================================== *)
(* Part 1 — value level                                                *)

Lemma mem_str_In x l : mem_str x l = true <-> In x l.
Proof.
  unfold mem_str. rewrite existsb_exists. split.
  - intros [y [Hy E]]. apply String.eqb_eq in E. subst. exact Hy.
  - intros H. exists x. split; [exact H | apply String.eqb_refl].
Qed.

Lemma has_scope_In p s : has_scope p s = true <-> In p (s_scopes s).
Proof. apply mem_str_In. Qed.

Lemma has_scope_notIn p s : has_scope p s = false <-> ~ In p (s_scopes s).
Proof.
  rewrite <- has_scope_In. destruct (has_scope p s); split; intros H; congruence.
Qed.

Lemma nodupb_NoDup l : nodupb l = true -> NoDup l.
Proof.
  induction l as [|x t IH]; cbn; intros H; [constructor|].
  apply andb_true_iff in H. destruct H as [H1 H2]. constructor; [|auto].
  intros Hin. apply mem_str_In in Hin. rewrite Hin in H1. discriminate.
Qed.

Lemma NoDup_app_disj {A} (l1 l2 : list A) x : NoDup (l1 ++ l2) -> In x l1 -> In x l2 -> False.
Proof.
  induction l1 as [|a t IH]; cbn; intros H H1 H2; [contradiction|].
  inversion H as [|? ? Hn Hd]; subst. destruct H1 as [->|H1].
  - apply Hn. apply in_or_app. right. exact H2.
  - exact (IH Hd H1 H2).
Qed.

Lemma NoDup_app_r {A} (l1 l2 : list A) : NoDup (l1 ++ l2) -> NoDup l2.
Proof.
  induction l1 as [|a t IH]; cbn; intros H; [exact H|].
  inversion H; subst. auto.
Qed.

(* ---- what validity gives: at most one statement per scope / name / global flag ---- *)
Definition uniq_by (P : stmt -> Prop) (d : list stmt) : Prop :=
  forall x y, In x d -> In y d -> P x -> P y -> x = y.

Lemma scopes_inj d : scopes_unique d = true -> forall p, uniq_by (fun s => In p (s_scopes s)) d.
Proof.
  unfold scopes_unique. intros H. apply nodupb_NoDup in H. intros p.
  induction d as [|a t IH]; intros x y Hx Hy Px Py; [contradiction|].
  cbn in H. assert (Ht : NoDup (List.concat (map s_scopes t))) by (eapply NoDup_app_r; exact H).
  assert (Hc : forall z, In z t -> In p (s_scopes z) -> In p (List.concat (map s_scopes t))).
  { intros z Hz Pz. apply in_concat. exists (s_scopes z). split; [apply in_map; exact Hz | exact Pz]. }
  destruct Hx as [Hx|Hx], Hy as [Hy|Hy].
  - congruence.
  - subst x. exfalso. eapply NoDup_app_disj; [exact H | exact Px | eapply Hc; eauto].
  - subst y. exfalso. eapply NoDup_app_disj; [exact H | exact Py | eapply Hc; eauto].
  - exact (IH Ht x y Hx Hy Px Py).
Qed.

Lemma names_inj d : names_unique d = true -> forall n, uniq_by (fun s => s_name s = n) d.
Proof.
  unfold names_unique. intros H. apply nodupb_NoDup in H. intros n.
  induction d as [|a t IH]; intros x y Hx Hy Px Py; [contradiction|].
  cbn in H. apply NoDup_cons_iff in H. destruct H as [Hn Hd].
  destruct Hx as [Hx|Hx], Hy as [Hy|Hy].
  - congruence.
  - subst x. exfalso. apply Hn. rewrite Px, <- Py. apply in_map. exact Hy.
  - subst y. exfalso. apply Hn. rewrite Py, <- Px. apply in_map. exact Hx.
  - exact (IH Hd x y Hx Hy Px Py).
Qed.

Lemma global_inj d : global_unique d = true -> uniq_by (fun s => s_global s = true) d.
Proof.
  unfold global_unique. intros H x y Hx Hy Px Py.
  assert (Fx : In x (filter s_global d)) by (apply filter_In; auto).
  assert (Fy : In y (filter s_global d)) by (apply filter_In; auto).
  destruct (filter s_global d) as [|z [|z' l]]; try discriminate; cbn in *; [contradiction|].
  destruct Fx as [Fx|[]], Fy as [Fy|[]]. congruence.
Qed.

Lemma list_eqb_str a b : list_eqb String.eqb a b = true <-> a = b.
Proof. apply list_eqb_spec. intros x y. apply String.eqb_eq. Qed.

Lemma wildcard_alone_spec d : wildcard_alone d = true ->
  forall s, In s d -> In wildcard (s_scopes s) -> s_scopes s = [wildcard].
Proof.
  unfold wildcard_alone. rewrite forallb_forall. intros H s Hs Hw.
  specialize (H s Hs). apply mem_str_In in Hw. rewrite Hw in H. cbn in H.
  apply list_eqb_str. exact H.
Qed.

Record valid (d : list stmt) : Prop := mk_valid {
  vd_scopes : forall p, uniq_by (fun s => In p (s_scopes s)) d;
  vd_names : forall n, uniq_by (fun s => s_name s = n) d;
  vd_global : uniq_by (fun s => s_global s = true) d }.

Lemma valid_doc_valid d : valid_doc d = true -> valid d.
Proof.
  unfold valid_doc. rewrite !andb_true_iff. intros [[[H1 H2] H3] _].
  constructor; [apply scopes_inj | apply names_inj | apply global_inj]; assumption.
Qed.

Lemma valid_doc_wildcard d : valid_doc d = true ->
  forall s, In s d -> In wildcard (s_scopes s) -> s_scopes s = [wildcard].
Proof.
  unfold valid_doc. rewrite !andb_true_iff. intros [_ H]. apply wildcard_alone_spec. exact H.
Qed.

Lemma valid_perm d d' : Permutation d d' -> valid d -> valid d'.
Proof.
  intros P [H1 H2 H3]. apply Permutation_sym in P.
  constructor; [intros p|intros n|]; intros x y Hx Hy;
    apply (Permutation_in _ P) in Hx; apply (Permutation_in _ P) in Hy.
  - apply H1; assumption.
  - apply H2; assumption.
  - apply H3; assumption.
Qed.

(* ---- find under uniqueness ---- *)
Lemma find_uniq {A} (f : A -> bool) d s :
  In s d -> f s = true -> (forall x, In x d -> f x = true -> x = s) -> find f d = Some s.
Proof.
  induction d as [|a t IH]; intros Hs Fs U; [contradiction|].
  cbn. destruct (f a) eqn:Fa.
  - f_equal. apply U; [now left | exact Fa].
  - destruct Hs as [->|Hs]; [congruence|]. apply IH; auto. intros x Hx. apply U. now right.
Qed.

Lemma find_none_all {A} (f : A -> bool) d : (forall x, In x d -> f x = false) -> find f d = None.
Proof.
  induction d as [|a t IH]; intros H; [reflexivity|].
  cbn. rewrite (H a (or_introl eq_refl)). apply IH. intros x Hx. apply H. now right.
Qed.

Lemma find_perm {A} (f : A -> bool) d d' :
  (forall x y, In x d -> In y d -> f x = true -> f y = true -> x = y) ->
  Permutation d d' -> find f d' = find f d.
Proof.
  intros U P. destruct (find f d) as [s|] eqn:E.
  - apply find_some in E. destruct E as [Hs Fs]. apply find_uniq.
    + eapply Permutation_in; eauto.
    + exact Fs.
    + intros x Hx Fx. apply U; auto. eapply Permutation_in; [apply Permutation_sym; exact P | exact Hx].
  - apply find_none_all. intros x Hx. eapply find_none; [exact E|].
    eapply Permutation_in; [apply Permutation_sym; exact P | exact Hx].
Qed.

(* ---- the loop of OCIDocument.GetApplicableTrustPolicy ---- *)
Definition last_sat {A} (f : A -> bool) (d : list A) (init : option A) : option A :=
  fold_left (fun acc s => if f s then Some s else acc) d init.

Definition exact_only (p : string) (s : stmt) : bool := negb (has_scope wildcard s) && has_scope p s.

Lemma oci_fold p d : forall w a,
  fold_left (oci_step p) d (w, a) =
  (last_sat (has_scope wildcard) d w, last_sat (exact_only p) d a).
Proof.
  unfold last_sat, exact_only. induction d as [|s t IH]; intros w a; [reflexivity|].
  cbn [fold_left]. unfold oci_step at 2. cbn [fst snd].
  destruct (has_scope wildcard s); cbn [negb andb]; [apply IH|].
  destruct (has_scope p s); apply IH.
Qed.

Lemma last_sat_none {A} (f : A -> bool) d : forall init,
  (forall x, In x d -> f x = false) -> last_sat f d init = init.
Proof.
  unfold last_sat. induction d as [|a t IH]; intros init H; [reflexivity|].
  cbn. rewrite (H a (or_introl eq_refl)). apply IH. intros x Hx. apply H. now right.
Qed.

Lemma last_sat_keep {A} (f : A -> bool) d s :
  (forall x, In x d -> f x = true -> x = s) -> last_sat f d (Some s) = Some s.
Proof.
  unfold last_sat. induction d as [|a t IH]; intros U; [reflexivity|].
  cbn. destruct (f a) eqn:Fa.
  - rewrite (U a (or_introl eq_refl) Fa). apply IH. intros x Hx. apply U. now right.
  - apply IH. intros x Hx. apply U. now right.
Qed.

Lemma last_sat_uniq {A} (f : A -> bool) d s : forall init,
  In s d -> f s = true -> (forall x, In x d -> f x = true -> x = s) -> last_sat f d init = Some s.
Proof.
  induction d as [|a t IH]; intros init Hs Fs U; [contradiction|].
  destruct Hs as [->|Hs].
  - unfold last_sat. cbn. rewrite Fs. apply last_sat_keep. intros x Hx. apply U. now right.
  - unfold last_sat. cbn. apply IH; auto. intros x Hx. apply U. now right.
Qed.

Lemma last_sat_find {A} (f : A -> bool) d :
  (forall x y, In x d -> In y d -> f x = true -> f y = true -> x = y) ->
  last_sat f d None = find f d.
Proof.
  intros U. destruct (find f d) as [s|] eqn:E.
  - apply find_some in E. destruct E as [Hs Fs]. apply last_sat_uniq; auto.
  - apply last_sat_none. intros x Hx. eapply find_none; eauto.
Qed.

(* the result of the loop: the statement listing p, else the wildcard statement *)
Lemma oci_pick_find p d : (forall q, uniq_by (fun s => In q (s_scopes s)) d) ->
  oci_pick (fold_left (oci_step p) d (None, None)) =
  match find (has_scope p) d with Some s => Some s | None => find (has_scope wildcard) d end.
Proof.
  intros U. rewrite oci_fold. unfold oci_pick. cbn [fst snd].
  assert (Uw : forall x y, In x d -> In y d -> has_scope wildcard x = true -> has_scope wildcard y = true -> x = y).
  { intros x y Hx Hy Fx Fy. apply (U wildcard); auto; apply has_scope_In; assumption. }
  assert (Up : forall x y, In x d -> In y d -> has_scope p x = true -> has_scope p y = true -> x = y).
  { intros x y Hx Hy Fx Fy. apply (U p); auto; apply has_scope_In; assumption. }
  destruct (find (has_scope p) d) as [s|] eqn:E.
  - apply find_some in E. destruct E as [Hs Fs].
    destruct (has_scope wildcard s) eqn:Ws.
    + rewrite (last_sat_none (exact_only p) d None).
      * apply last_sat_uniq; auto.
      * intros x Hx. unfold exact_only. destruct (has_scope p x) eqn:Px; [|apply andb_false_r].
        rewrite (Up x s Hx Hs Px Fs), Ws. reflexivity.
    + rewrite (last_sat_uniq (exact_only p) d s None); auto.
      * unfold exact_only. rewrite Ws, Fs. reflexivity.
      * intros x Hx Fx. unfold exact_only in Fx. apply andb_true_iff in Fx. apply Up; tauto.
  - rewrite (last_sat_none (exact_only p) d None).
    + apply last_sat_find. exact Uw.
    + intros x Hx. unfold exact_only. rewrite (find_none _ _ E x Hx). apply andb_false_r.
Qed.

(* ---- the reference: text before the last '@' ---- *)
Lemma last_at_none s : last_at s = None <-> contains_byte "@" s = false.
Proof.
  induction s as [|a s IH]; cbn; [tauto|].
  destruct (last_at s) as [p|].
  - split; [discriminate|]. intros H. apply orb_false_iff in H. destruct H as [_ H].
    apply IH in H. discriminate.
  - destruct (Ascii.eqb a "@"); cbn; [split; discriminate|]. tauto.
Qed.

Lemma last_at_app p dg : contains_byte "@" dg = false -> last_at (p ++ "@" ++ dg) = Some p.
Proof.
  intros H. apply last_at_none in H. induction p as [|a p IH]; cbn.
  - rewrite H. reflexivity.
  - cbn in IH. rewrite IH. reflexivity.
Qed.

(* conversely: every reference with an '@' is path @ digest with an '@'-free digest *)
Lemma last_at_some ref p : last_at ref = Some p ->
  exists dg, ref = p ++ "@" ++ dg /\ contains_byte "@" dg = false.
Proof.
  revert p. induction ref as [|a s IH]; cbn; intros p H; [discriminate|].
  destruct (last_at s) as [q|] eqn:E.
  - inversion H; subst. destruct (IH q eq_refl) as (dg & -> & Hd). exists dg. split; [reflexivity | exact Hd].
  - destruct (Ascii.eqb a "@") eqn:Ea; [|discriminate]. inversion H; subst.
    apply Ascii.eqb_eq in Ea. subst a. exists s. split; [reflexivity|]. apply last_at_none. exact E.
Qed.

Lemma scope_ok_not_wildcard p : scope_ok p = true -> p <> wildcard.
Proof. intros H E. subst p. vm_compute in H. discriminate. Qed.

(* ---- closed forms of the three selections on a valid document ---- *)
Lemma v_oci_find d ref p : valid d -> last_at ref = Some p -> scope_ok p = true ->
  v_oci d ref = match find (has_scope p) d with
                | Some s => RSel s
                | None => match find (has_scope wildcard) d with Some w => RSel w | None => RErr 3 end
                end.
Proof.
  intros V L S. unfold v_oci. rewrite L, S. cbn [negb]. rewrite (oci_pick_find p d (vd_scopes d V)).
  destruct (find (has_scope p) d); [reflexivity|]. destruct (find (has_scope wildcard) d); reflexivity.
Qed.

Lemma name_is_eq n s : name_is n s = true <-> s_name s = n.
Proof. unfold name_is. apply String.eqb_eq. Qed.

(* ---- C08_selects ---- *)
Lemma selects d p dg : valid_doc d = true -> contains_byte "@" dg = false -> scope_ok p = true ->
  let r := v_select d (QOci (p ++ "@" ++ dg)) in
  (forall s, In s d -> In p (s_scopes s) ->
     r = RSel s /\ forall s', In s' d -> In p (s_scopes s') -> s' = s)
  /\ ((forall s, In s d -> ~ In p (s_scopes s)) ->
      (forall w, In w d -> In wildcard (s_scopes w) ->
         r = RSel w /\ s_scopes w = [wildcard] /\ forall w', In w' d -> In wildcard (s_scopes w') -> w' = w)
      /\ ((forall s, In s d -> ~ In wildcard (s_scopes s)) -> r = RErr 3)).
Proof.
  intros VD Hd S r. pose proof (valid_doc_valid d VD) as V.
  assert (R : r = v_oci d (p ++ "@" ++ dg)) by reflexivity.
  rewrite (v_oci_find d _ p V (last_at_app p dg Hd) S) in R.
  split; [|intros Hn; split].
  - intros s Hs Ps. split.
    + rewrite R. rewrite (find_uniq (has_scope p) d s Hs); [reflexivity | now apply has_scope_In |].
      intros x Hx Fx. apply (vd_scopes d V p); auto. now apply has_scope_In.
    + intros s' Hs' Ps'. apply (vd_scopes d V p); auto.
  - intros w Hw Pw. split; [|split].
    + rewrite R. rewrite (find_none_all (has_scope p) d).
      * rewrite (find_uniq (has_scope wildcard) d w Hw); [reflexivity | now apply has_scope_In |].
        intros x Hx Fx. apply (vd_scopes d V wildcard); auto. now apply has_scope_In.
      * intros x Hx. apply has_scope_notIn. auto.
    + apply (valid_doc_wildcard d VD); assumption.
    + intros w' Hw' Pw'. apply (vd_scopes d V wildcard); auto.
  - intros Hnw. rewrite R. rewrite (find_none_all (has_scope p) d), (find_none_all (has_scope wildcard) d).
    + reflexivity.
    + intros x Hx. apply has_scope_notIn. auto.
    + intros x Hx. apply has_scope_notIn. auto.
Qed.

(* malformed references are refused whatever the document says *)
Lemma no_at_refused d ref : contains_byte "@" ref = false -> v_select d (QOci ref) = RErr 1.
Proof. intros H. apply last_at_none in H. unfold v_select, v_oci. rewrite H. reflexivity. Qed.

Lemma bad_path_refused d p dg : contains_byte "@" dg = false -> scope_ok p = false ->
  v_select d (QOci (p ++ "@" ++ dg)) = RErr 2.
Proof. intros Hd S. unfold v_select, v_oci. rewrite (last_at_app p dg Hd), S. reflexivity. Qed.

(* ---- C08_exact: whatever the document (valid or not), a statement is only ever
   returned because it lists the path itself, or the wildcard ---- *)
Lemma last_sat_in {A} (f : A -> bool) d : forall init s,
  last_sat f d init = Some s -> init = Some s \/ (In s d /\ f s = true).
Proof.
  unfold last_sat. induction d as [|a t IH]; intros init s H; [left; exact H|].
  cbn in H. apply IH in H. destruct H as [H|[H1 H2]]; [|right; split; [now right | exact H2]].
  destruct (f a) eqn:Fa; [|left; exact H]. inversion H; subst. right. split; [now left | exact Fa].
Qed.

Lemma last_sat_is_none {A} (f : A -> bool) d : forall init,
  last_sat f d init = None -> init = None /\ forall x, In x d -> f x = false.
Proof.
  unfold last_sat. induction d as [|a t IH]; intros init H; [split; [exact H | intros x []]|].
  cbn in H. apply IH in H. destruct H as [H1 H2]. destruct (f a) eqn:Fa; [discriminate|].
  split; [exact H1|]. intros x [<-|Hx]; auto.
Qed.

Lemma exact d ref s : v_select d (QOci ref) = RSel s ->
  exists p, last_at ref = Some p /\ scope_ok p = true /\ In s d /\
            (In p (s_scopes s) \/ (In wildcard (s_scopes s) /\ forall s', In s' d -> In wildcard (s_scopes s') \/ ~ In p (s_scopes s'))).
Proof.
  cbn. unfold v_oci. destruct (last_at ref) as [p|]; [|discriminate].
  destruct (scope_ok p) eqn:S; cbn [negb]; [|discriminate].
  rewrite oci_fold. unfold oci_pick. cbn [fst snd]. intros H. exists p. split; [reflexivity|]. split; [exact S|].
  destruct (last_sat (exact_only p) d None) as [a|] eqn:Ea.
  - inversion H; subst. apply last_sat_in in Ea. destruct Ea as [Ea|[Hi Fa]]; [discriminate|].
    split; [exact Hi|]. left. unfold exact_only in Fa. apply andb_true_iff in Fa. apply has_scope_In. tauto.
  - destruct (last_sat (has_scope wildcard) d None) as [w|] eqn:Ew; [|discriminate].
    inversion H; subst. apply last_sat_in in Ew. destruct Ew as [Ew|[Hi Fw]]; [discriminate|].
    split; [exact Hi|]. right. split; [now apply has_scope_In|].
    intros s' Hs'. destruct (has_scope wildcard s') eqn:W'; [left; now apply has_scope_In|].
    right. apply has_scope_notIn. destruct (has_scope p s') eqn:P'; [|reflexivity]. exfalso.
    apply last_sat_is_none in Ea. destruct Ea as [_ Ea]. specialize (Ea s' Hs').
    unfold exact_only in Ea. rewrite W', P' in Ea. discriminate.
Qed.

(* ---- C08_blob ---- *)
Lemma uniq_has d p : valid d ->
  forall x y, In x d -> In y d -> has_scope p x = true -> has_scope p y = true -> x = y.
Proof. intros V x y Hx Hy Fx Fy. apply (vd_scopes d V p); auto; now apply has_scope_In. Qed.

Lemma uniq_name d n : valid d ->
  forall x y, In x d -> In y d -> name_is n x = true -> name_is n y = true -> x = y.
Proof. intros V x y Hx Hy Fx Fy. apply (vd_names d V n); auto; now apply name_is_eq. Qed.

Lemma blob_name d n : valid_doc d = true -> blank n = false ->
  let r := v_select d (QName n) in
  (forall s, In s d -> s_name s = n ->
     r = RSel s /\ forall s', In s' d -> s_name s' = n -> s' = s)
  /\ ((forall s, In s d -> s_name s <> n) -> r = RErr 5).
Proof.
  intros VD Hb r. pose proof (valid_doc_valid d VD) as V.
  assert (R : r = match find (name_is n) d with Some s => RSel s | None => RErr 5 end).
  { unfold r, v_select, v_name. rewrite Hb. reflexivity. }
  split.
  - intros s Hs Ns. split.
    + rewrite R, (find_uniq (name_is n) d s Hs); [reflexivity | now apply name_is_eq |].
      intros x Hx Fx. apply (uniq_name d n V); auto. now apply name_is_eq.
    + intros s' Hs' Ns'. apply (vd_names d V n); auto.
  - intros Hn. rewrite R, (find_none_all (name_is n) d); [reflexivity|].
    intros x Hx. destruct (name_is n x) eqn:E; [|reflexivity]. apply name_is_eq in E. exfalso. exact (Hn x Hx E).
Qed.

Lemma blob_blank d n : blank n = true -> v_select d (QName n) = RErr 4.
Proof. intros H. unfold v_select, v_name. rewrite H. reflexivity. Qed.

Lemma blob_name_exact d n s : v_select d (QName n) = RSel s -> In s d /\ s_name s = n /\ blank n = false.
Proof.
  unfold v_select, v_name. destruct (blank n); [discriminate|].
  destruct (find (name_is n) d) as [x|] eqn:E; [|discriminate]. intros H. inversion H; subst.
  apply find_some in E. destruct E as [H1 H2]. apply name_is_eq in H2. auto.
Qed.

Lemma blob_global d : valid_doc d = true ->
  let r := v_select d QGlobal in
  (forall s, In s d -> s_global s = true ->
     r = RSel s /\ forall s', In s' d -> s_global s' = true -> s' = s)
  /\ ((forall s, In s d -> s_global s = false) -> r = RErr 6).
Proof.
  intros VD r. pose proof (valid_doc_valid d VD) as V.
  assert (R : r = match find s_global d with Some s => RSel s | None => RErr 6 end) by reflexivity.
  split.
  - intros s Hs Gs. split.
    + rewrite R, (find_uniq s_global d s Hs Gs); [reflexivity|].
      intros x Hx Fx. apply (vd_global d V); auto.
    + intros s' Hs' Gs'. apply (vd_global d V); auto.
  - intros Hn. rewrite R, (find_none_all s_global d Hn). reflexivity.
Qed.

Lemma blob_global_exact d s : v_select d QGlobal = RSel s -> In s d /\ s_global s = true.
Proof.
  unfold v_select, v_global. intros H. destruct (find s_global d) as [x|] eqn:E; [|discriminate].
  inversion H; subst. apply find_some in E. exact E.
Qed.

(* ---- C08_order ---- *)
Lemma order d d' q : valid_doc d = true -> Permutation d d' -> v_select d' q = v_select d q.
Proof.
  intros VD P. pose proof (valid_doc_valid d VD) as V. pose proof (valid_perm d d' P V) as V'.
  destruct q as [ref|n|]; unfold v_select.
  - unfold v_oci. destruct (last_at ref) as [p|]; [|reflexivity].
    destruct (scope_ok p); cbn [negb]; [|reflexivity].
    rewrite (oci_pick_find p d (vd_scopes d V)), (oci_pick_find p d' (vd_scopes d' V')).
    rewrite (find_perm (has_scope p) d d' (uniq_has d p V) P).
    rewrite (find_perm (has_scope wildcard) d d' (uniq_has d wildcard V) P). reflexivity.
  - unfold v_name. destruct (blank n); [reflexivity|].
    rewrite (find_perm (name_is n) d d' (uniq_name d n V) P). reflexivity.
  - unfold v_global. rewrite (find_perm s_global d d' (vd_global d V) P). reflexivity.
Qed.

(* the result is always a statement of the document, unchanged *)
Lemma select_in d q s : v_select d q = RSel s -> In s d.
Proof.
  destruct q as [ref|n|]; intros H.
  - destruct (exact d ref s H) as (p & _ & _ & Hi & _). exact Hi.
  - apply blob_name_exact in H. tauto.
  - apply blob_global_exact in H. tauto.
Qed.

(* ================================================================== *)
(* Part 2 — heap level                                                 *)

Local Open Scope nat_scope.

(* h' is h with more objects allocated behind it *)
Definition ext (h h' : heap) : Prop := exists e, h' = (h ++ e)%list.

Lemma ext_refl h : ext h h.
Proof. exists []. now rewrite app_nil_r. Qed.

Lemma ext_trans h1 h2 h3 : ext h1 h2 -> ext h2 h3 -> ext h1 h3.
Proof. intros [e1 ->] [e2 ->]. exists (e1 ++ e2)%list. now rewrite app_assoc. Qed.

Lemma ext_len h h' : ext h h' -> List.length h <= List.length h'.
Proof. intros [e ->]. rewrite app_length. lia. Qed.

Lemma ext_snoc h o : ext h (h ++ [o])%list.
Proof. exists [o]. reflexivity. Qed.

(* h' and h hold the same objects below n *)
Definition agree (n : nat) (h h' : heap) : Prop := forall o, o < n -> nth_error h' o = nth_error h o.

Lemma agree_refl n h : agree n h h.
Proof. intros o _. reflexivity. Qed.

Lemma agree_trans n h1 h2 h3 : agree n h1 h2 -> agree n h2 h3 -> agree n h1 h3.
Proof. intros A B o Ho. rewrite (B o Ho). apply A. exact Ho. Qed.

Lemma agree_mono n n' h h' : n' <= n -> agree n h h' -> agree n' h h'.
Proof. intros L A o Ho. apply A. lia. Qed.

Lemma ext_agree h h' : ext h h' -> agree (List.length h) h h'.
Proof. intros [e ->] o Ho. apply nth_error_app1. exact Ho. Qed.

Lemma nth_snoc (h : heap) o : nth_error (h ++ [o])%list (List.length h) = Some o.
Proof. rewrite nth_error_app2 by lia. rewrite Nat.sub_diag. reflexivity. Qed.

Definition inb (n : nat) (r : option oid) : Prop := match r with None => True | Some o => o < n end.
Definition geb (n : nat) (r : option oid) : Prop := match r with None => True | Some o => n <= o end.

Lemma inb_mono n n' r : n <= n' -> inb n r -> inb n' r.
Proof. destruct r; cbn; [lia | trivial]. Qed.

Lemma geb_mono n n' r : n' <= n -> geb n r -> geb n' r.
Proof. destruct r; cbn; [lia | trivial]. Qed.

Lemma get_arr_agree n h h' r : agree n h h' -> inb n r -> get_arr h' r = get_arr h r.
Proof. intros A I. destruct r as [o|]; cbn in *; [rewrite (A o I)|]; reflexivity. Qed.

Lemma get_map_agree n h h' r : agree n h h' -> inb n r -> get_map h' r = get_map h r.
Proof. intros A I. destruct r as [o|]; cbn in *; [rewrite (A o I)|]; reflexivity. Qed.

(* the statement struct at sid and everything it points to live below n *)
Definition closed (n : nat) (h : heap) (sid : oid) : Prop :=
  sid < n /\ match nth_error h sid with
             | Some (OStmt _ sc _ ov _ st ids _) => inb n sc /\ inb n ov /\ inb n st /\ inb n ids
             | _ => False
             end.

Lemma view_agree n h h' sid : agree n h h' -> closed n h sid -> view h' sid = view h sid.
Proof.
  intros A [L C]. unfold view. rewrite (A sid L).
  destruct (nth_error h sid) as [[| |nm sc lv ov vts st ids g]|]; try reflexivity.
  destruct C as (C1 & C2 & C3 & C4).
  rewrite !(get_arr_agree n h h') by assumption. rewrite (get_map_agree n h h') by assumption. reflexivity.
Qed.

Lemma closed_agree n h h' sid : agree n h h' -> closed n h sid -> closed n h' sid.
Proof. intros A [L C]. split; [exact L|]. rewrite (A sid L). exact C. Qed.

Lemma closed_mono n n' h sid : n <= n' -> closed n h sid -> closed n' h sid.
Proof.
  intros L [L1 C]. split; [lia|].
  destruct (nth_error h sid) as [[| |nm sc lv ov vts st ids g]|]; try contradiction.
  destruct C as (C1 & C2 & C3 & C4). repeat split; eapply inb_mono; eauto.
Qed.

Lemma closed_ext h h' sid : ext h h' -> closed (List.length h) h sid -> closed (List.length h') h' sid.
Proof.
  intros E C. eapply closed_mono; [apply ext_len; exact E|].
  eapply closed_agree; [apply ext_agree; exact E | exact C].
Qed.

(* the handed-out struct p and everything it points to live at or above n *)
Definition priv (n : nat) (h : heap) (p : oid) : Prop :=
  n <= p /\ p < List.length h /\
  forall ob, nth_error h p = Some ob -> forall o, In o (ptr_fields ob) -> n <= o.

Lemma in_olist o r : In o (olist r) <-> r = Some o.
Proof.
  destruct r as [x|]; cbn; split; intros H.
  - destruct H as [H|H]; [subst; reflexivity | contradiction].
  - inversion H. left. reflexivity.
  - contradiction.
  - discriminate.
Qed.

Lemma priv_fields n sc ov st ids nm lv vts g :
  geb n sc -> geb n ov -> geb n st -> geb n ids ->
  forall o, In o (ptr_fields (OStmt nm sc lv ov vts st ids g)) -> n <= o.
Proof.
  intros G1 G2 G3 G4 o. cbn. rewrite !in_app_iff, !in_olist.
  intros [ -> | [ -> | [ -> | -> ] ] ]; assumption.
Qed.

(* ---- allocation of slices and maps ---- *)
Lemma load_arr_spec rep h l h' r : load_arr rep h l = (h', r) ->
  ext h h' /\ inb (List.length h') r /\ geb (List.length h) r /\ get_arr h' r = l.
Proof.
  unfold load_arr, alloc. destruct l as [|x t]; [destruct rep|]; intros E; inversion E; subst; clear E.
  - split; [apply ext_snoc|]. split; [cbn; rewrite app_length; cbn; lia|]. split; [cbn; lia|].
    unfold get_arr. rewrite nth_snoc. reflexivity.
  - split; [apply ext_refl|]. split; [exact I|]. split; [exact I|]. reflexivity.
  - split; [apply ext_snoc|]. split; [cbn; rewrite app_length; cbn; lia|]. split; [cbn; lia|].
    unfold get_arr. rewrite nth_snoc. reflexivity.
Qed.

Lemma load_map_spec rep h m h' r : load_map rep h m = (h', r) ->
  ext h h' /\ inb (List.length h') r /\ geb (List.length h) r /\ get_map h' r = m.
Proof.
  unfold load_map, alloc. destruct m as [|x t]; [destruct rep|]; intros E; inversion E; subst; clear E.
  - split; [apply ext_snoc|]. split; [cbn; rewrite app_length; cbn; lia|]. split; [cbn; lia|].
    unfold get_map. rewrite nth_snoc. reflexivity.
  - split; [apply ext_refl|]. split; [exact I|]. split; [exact I|]. reflexivity.
  - split; [apply ext_snoc|]. split; [cbn; rewrite app_length; cbn; lia|]. split; [cbn; lia|].
    unfold get_map. rewrite nth_snoc. reflexivity.
Qed.

Lemma clone_arr_load h r : clone_arr h r = load_arr false h (get_arr h r).
Proof. unfold clone_arr, load_arr. destruct (get_arr h r); reflexivity. Qed.

Lemma clone_map_spec h r h' r' : clone_map true h r = (h', r') ->
  ext h h' /\ inb (List.length h') r' /\ geb (List.length h) r' /\ get_map h' r' = get_map h r.
Proof.
  unfold clone_map, alloc. destruct r as [o|]; intros E; inversion E; subst; clear E.
  - split; [apply ext_snoc|]. split; [cbn; rewrite app_length; cbn; lia|]. split; [cbn; lia|].
    unfold get_map at 1. rewrite nth_snoc. reflexivity.
  - split; [apply ext_refl|]. split; [exact I|]. split; [exact I|]. reflexivity.
Qed.

(* a struct allocated behind its four field objects *)
Lemma build_spec n0 h4 nm sc lv ov vts st ids g hsc hov hst hids :
  ext hsc h4 -> inb (List.length hsc) sc -> ext hov h4 -> inb (List.length hov) ov ->
  ext hst h4 -> inb (List.length hst) st -> ext hids h4 -> inb (List.length hids) ids ->
  geb n0 sc -> geb n0 ov -> geb n0 st -> geb n0 ids -> n0 <= List.length h4 ->
  let hf := (h4 ++ [OStmt nm sc lv ov vts st ids g])%list in
  let p := List.length h4 in
  view hf p = mk_stmt nm (get_arr hsc sc) (mk_sv lv (get_map hov ov) vts) (get_arr hst st) (get_arr hids ids) g
  /\ closed (List.length hf) hf p /\ priv n0 hf p.
Proof.
  intros E1 I1 E2 I2 E3 I3 E4 I4 G1 G2 G3 G4 L hf p.
  assert (Ef : ext h4 hf) by apply ext_snoc.
  assert (Np : nth_error hf p = Some (OStmt nm sc lv ov vts st ids g)) by apply nth_snoc.
  split; [|split].
  - unfold view. rewrite Np.
    rewrite (get_arr_agree _ hsc hf sc (ext_agree _ _ (ext_trans _ _ _ E1 Ef)) I1).
    rewrite (get_map_agree _ hov hf ov (ext_agree _ _ (ext_trans _ _ _ E2 Ef)) I2).
    rewrite (get_arr_agree _ hst hf st (ext_agree _ _ (ext_trans _ _ _ E3 Ef)) I3).
    rewrite (get_arr_agree _ hids hf ids (ext_agree _ _ (ext_trans _ _ _ E4 Ef)) I4). reflexivity.
  - split; [unfold hf, p; rewrite app_length; cbn; lia|]. rewrite Np.
    repeat split; eapply inb_mono; try eassumption; apply ext_len; eapply ext_trans; eassumption.
  - split; [exact L|]. split; [unfold hf, p; rewrite app_length; cbn; lia|].
    intros ob Hob. rewrite Np in Hob. inversion Hob; subst.
    apply priv_fields; assumption.
Qed.

(* ---- clone() ---- *)
Lemma clone_spec n0 h sid h' p : n0 <= List.length h -> closed (List.length h) h sid ->
  h_clone true h sid = (h', p) ->
  ext h h' /\ view h' p = view h sid /\ closed (List.length h') h' p /\ priv n0 h' p.
Proof.
  intros L [Ls C] E. unfold h_clone in E. unfold view at 2.
  destruct (nth_error h sid) as [[| |nm sc lv ov vts st ids g]|]; try contradiction.
  destruct C as (C1 & C2 & C3 & C4).
  destruct (clone_map true h ov) as [h1 ov'] eqn:E1.
  rewrite clone_arr_load in E. destruct (load_arr false h1 (get_arr h1 ids)) as [h2 ids'] eqn:E2.
  rewrite clone_arr_load in E. destruct (load_arr false h2 (get_arr h2 st)) as [h3 st'] eqn:E3.
  rewrite clone_arr_load in E. destruct (load_arr false h3 (get_arr h3 sc)) as [h4 sc'] eqn:E4.
  unfold alloc in E. inversion E; subst; clear E.
  apply clone_map_spec in E1. destruct E1 as (X1 & I1 & G1 & V1).
  apply load_arr_spec in E2. destruct E2 as (X2 & I2 & G2 & V2).
  apply load_arr_spec in E3. destruct E3 as (X3 & I3 & G3 & V3).
  apply load_arr_spec in E4. destruct E4 as (X4 & I4 & G4 & V4).
  pose proof (ext_len _ _ X1) as L1. pose proof (ext_len _ _ X2) as L2.
  pose proof (ext_len _ _ X3) as L3. pose proof (ext_len _ _ X4) as L4.
  pose proof (ext_trans _ _ _ X1 X2) as X02. pose proof (ext_trans _ _ _ X02 X3) as X03.
  pose proof (ext_trans _ _ _ X03 X4) as X04. pose proof (ext_trans _ _ _ X3 X4) as X24.
  pose proof (ext_trans _ _ _ X2 X24) as X14.
  rewrite (get_arr_agree _ h h1 ids (ext_agree _ _ X1) C4) in V2.
  rewrite (get_arr_agree _ h h2 st (ext_agree _ _ X02) C3) in V3.
  rewrite (get_arr_agree _ h h3 sc (ext_agree _ _ X03) C1) in V4.
  destruct (build_spec n0 h4 nm sc' lv ov' vts st' ids' g h4 h1 h3 h2) as (B1 & B2 & B3);
    try assumption; try apply ext_refl; try (eapply geb_mono; [|eassumption]; lia); try lia.
  split; [|split; [|split]]; try assumption.
  - eapply ext_trans; [exact X04 | apply ext_snoc].
  - rewrite B1, V1, V2, V3, V4. reflexivity.
Qed.

Lemma priv_ext n h h' p : ext h h' -> priv n h p -> priv n h' p.
Proof.
  intros E (P1 & P2 & P3). split; [exact P1|]. split; [pose proof (ext_len _ _ E); lia|].
  intros ob Hob. rewrite (ext_agree _ _ E p P2) in Hob. exact (P3 ob Hob).
Qed.

(* ---- laying a document out on the heap ---- *)
Lemma geb0 r : geb 0 r.
Proof. destruct r; cbn; [lia | trivial]. Qed.

Lemma load_stmt_spec rep h s h' sid : load_stmt rep h s = (h', sid) ->
  ext h h' /\ view h' sid = s /\ closed (List.length h') h' sid.
Proof.
  unfold load_stmt. intros E.
  destruct (load_arr rep h (s_scopes s)) as [h1 sc] eqn:E1.
  destruct (load_map rep h1 (sv_override (s_sv s))) as [h2 ov] eqn:E2.
  destruct (load_arr rep h2 (s_stores s)) as [h3 st] eqn:E3.
  destruct (load_arr rep h3 (s_ids s)) as [h4 ids] eqn:E4.
  unfold alloc in E. inversion E; subst; clear E.
  apply load_arr_spec in E1. destruct E1 as (X1 & I1 & _ & V1).
  apply load_map_spec in E2. destruct E2 as (X2 & I2 & _ & V2).
  apply load_arr_spec in E3. destruct E3 as (X3 & I3 & _ & V3).
  apply load_arr_spec in E4. destruct E4 as (X4 & I4 & _ & V4).
  pose proof (ext_trans _ _ _ X3 X4) as X24. pose proof (ext_trans _ _ _ X2 X24) as X14.
  pose proof (ext_trans _ _ _ X1 X14) as X04.
  destruct (build_spec 0 h4 (s_name s) sc (sv_level (s_sv s)) ov (sv_vts (s_sv s)) st ids (s_global s) h1 h2 h3 h4)
    as (B1 & B2 & _); try assumption; try apply ext_refl; try apply geb0; try lia.
  split; [eapply ext_trans; [exact X04 | apply ext_snoc]|]. split; [|exact B2].
  rewrite B1, V1, V2, V3, V4. destruct s as [nm scs [lv ovr vts] sts idl g]. reflexivity.
Qed.

Lemma load_doc_spec rep d : forall h h' doc, load_doc rep h d = (h', doc) ->
  ext h h' /\ Forall (closed (List.length h') h') doc /\ map (view h') doc = d.
Proof.
  induction d as [|s t IH]; intros h h' doc E; cbn in E.
  - inversion E; subst. split; [apply ext_refl|]. split; [constructor | reflexivity].
  - destruct (load_stmt rep h s) as [h1 sid] eqn:E1. destruct (load_doc rep h1 t) as [h2 doc'] eqn:E2.
    inversion E; subst; clear E.
    apply load_stmt_spec in E1. destruct E1 as (X1 & V1 & C1).
    apply IH in E2. destruct E2 as (X2 & F2 & M2).
    split; [eapply ext_trans; eassumption|]. split.
    + constructor; [|exact F2]. eapply closed_ext; eassumption.
    + cbn. rewrite M2. f_equal. rewrite <- V1. eapply view_agree; [apply ext_agree; exact X2 | exact C1].
Qed.

(* ---- the selections on a heap whose document part is intact ---- *)
Section Select.
Variables (n0 : nat) (h0 : heap).

Lemma clone_in h sid h' p : agree n0 h0 h -> n0 <= List.length h -> closed n0 h0 sid ->
  h_clone true h sid = (h', p) ->
  ext h h' /\ view h' p = view h0 sid /\ closed (List.length h') h' p /\ priv n0 h' p.
Proof.
  intros A L C E.
  assert (C' : closed (List.length h) h sid) by (eapply closed_mono; [exact L | eapply closed_agree; eassumption]).
  destruct (clone_spec n0 h sid h' p L C' E) as (X & V & C2 & P).
  split; [exact X|]. split; [|split; assumption]. rewrite V. eapply view_agree; eassumption.
Qed.

Definition good (h : heap) (po : option oid) (vo : option stmt) : Prop :=
  match po, vo with
  | Some p, Some v => closed (List.length h) h p /\ view h p = v /\ priv n0 h p
  | None, None => True
  | _, _ => False
  end.

Lemma good_ext h h' po vo : ext h h' -> good h po vo -> good h' po vo.
Proof.
  intros E. destruct po as [p|], vo as [v|]; cbn; try tauto.
  intros (C & V & P). split; [eapply closed_ext; eassumption|]. split; [|eapply priv_ext; eassumption].
  rewrite <- V. eapply view_agree; [apply ext_agree; exact E | exact C].
Qed.

Lemma agree_ext h h' : agree n0 h0 h -> n0 <= List.length h -> ext h h' -> agree n0 h0 h'.
Proof.
  intros A L E. eapply agree_trans; [exact A|]. eapply agree_mono; [exact L | apply ext_agree; exact E].
Qed.

Lemma oci_fold_ref path doc : Forall (closed n0 h0) doc -> forall h w a wv av h' w' a',
  agree n0 h0 h -> n0 <= List.length h -> good h w wv -> good h a av ->
  fold_left (h_oci_step true path) doc (h, (w, a)) = (h', (w', a')) ->
  ext h h' /\ exists wv' av',
    fold_left (oci_step path) (map (view h0) doc) (wv, av) = (wv', av') /\ good h' w' wv' /\ good h' a' av'.
Proof.
  induction 1 as [|sid doc C F IH]; intros h w a wv av h' w' a' A L Gw Ga E.
  - cbn in E. inversion E; subst. split; [apply ext_refl|]. exists wv, av. auto.
  - cbn [fold_left map] in *. unfold h_oci_step at 2 in E. cbn [fst snd] in E.
    assert (Vs : view h sid = view h0 sid) by (eapply view_agree; eassumption).
    rewrite Vs in E. unfold oci_step at 2. cbn [fst snd].
    destruct (has_scope wildcard (view h0 sid)).
    + destruct (h_clone true h sid) as [h1 p] eqn:EC.
      destruct (clone_in h sid h1 p A L C EC) as (X & V & C1 & P).
      assert (L1 : n0 <= List.length h1) by (pose proof (ext_len _ _ X); lia).
      destruct (IH h1 (Some p) a (Some (view h0 sid)) av h' w' a') as (X' & R); auto.
      * eapply agree_ext; eassumption.
      * cbn. auto.
      * eapply good_ext; eassumption.
      * split; [eapply ext_trans; eassumption | exact R].
    + destruct (has_scope path (view h0 sid)).
      * destruct (h_clone true h sid) as [h1 p] eqn:EC.
        destruct (clone_in h sid h1 p A L C EC) as (X & V & C1 & P).
        assert (L1 : n0 <= List.length h1) by (pose proof (ext_len _ _ X); lia).
        destruct (IH h1 w (Some p) wv (Some (view h0 sid)) h' w' a') as (X' & R); auto.
        -- eapply agree_ext; eassumption.
        -- eapply good_ext; eassumption.
        -- cbn. auto.
        -- split; [eapply ext_trans; eassumption | exact R].
      * exact (IH h w a wv av h' w' a' A L Gw Ga E).
Qed.

Lemma h_oci_ref doc h ref h' r : Forall (closed n0 h0) doc -> agree n0 h0 h -> n0 <= List.length h ->
  h_oci true h doc ref = (h', r) ->
  ext h h' /\ res_view (h', r) = v_oci (map (view h0) doc) ref /\ (forall p, r = HSel p -> priv n0 h' p).
Proof.
  intros F A L E. unfold h_oci in E. unfold v_oci.
  destruct (last_at ref) as [path|].
  2:{ inversion E; subst. split; [apply ext_refl|]. split; [reflexivity | discriminate]. }
  destruct (scope_ok path); cbn [negb] in *.
  2:{ inversion E; subst. split; [apply ext_refl|]. split; [reflexivity | discriminate]. }
  destruct (fold_left (h_oci_step true path) doc (h, (None, None))) as [h1 [w' a']] eqn:EF.
  destruct (oci_fold_ref path doc F h None None None None h1 w' a' A L I I EF) as (X & wv' & av' & EV & Gw & Ga).
  rewrite EV. unfold oci_pick in *. cbn [fst snd] in *.
  destruct a' as [pa|], av' as [va|]; cbn in Ga; try contradiction.
  - inversion E; subst. destruct Ga as (_ & V & P). split; [exact X|]. split.
    + unfold res_view. cbn. rewrite V. reflexivity.
    + intros p Hp. inversion Hp; subst. exact P.
  - destruct w' as [pw|], wv' as [vw|]; cbn in Gw; try contradiction.
    + inversion E; subst. destruct Gw as (_ & V & P). split; [exact X|]. split.
      * unfold res_view. cbn. rewrite V. reflexivity.
      * intros p Hp. inversion Hp; subst. exact P.
    + inversion E; subst. split; [exact X|]. split; [reflexivity | discriminate].
Qed.

Lemma h_find_ref f h doc : Forall (closed n0 h0) doc -> agree n0 h0 h ->
  match h_find f h doc with
  | Some sid => closed n0 h0 sid /\ find f (map (view h0) doc) = Some (view h0 sid)
  | None => find f (map (view h0) doc) = None
  end.
Proof.
  intros F A. induction F as [|sid doc C F IH]; cbn; [reflexivity|].
  rewrite (view_agree n0 h0 h sid A C). destruct (f (view h0 sid)); [split; [exact C | reflexivity] | exact IH].
Qed.

Lemma h_found_ref f h doc e h' r : Forall (closed n0 h0) doc -> agree n0 h0 h -> n0 <= List.length h ->
  match h_find f h doc with
  | Some sid => let '(h', p) := h_clone true h sid in (h', HSel p)
  | None => (h, HErr e)
  end = (h', r) ->
  ext h h' /\ res_view (h', r) = match find f (map (view h0) doc) with Some s => RSel s | None => RErr e end
  /\ (forall p, r = HSel p -> priv n0 h' p).
Proof.
  intros F A L E. pose proof (h_find_ref f h doc F A) as R.
  destruct (h_find f h doc) as [sid|].
  - destruct R as [C R]. rewrite R. destruct (h_clone true h sid) as [h1 p] eqn:EC. inversion E; subst.
    destruct (clone_in h sid h' p A L C EC) as (X & V & _ & P).
    split; [exact X|]. split; [unfold res_view; cbn; rewrite V; reflexivity|].
    intros p' Hp. inversion Hp; subst. exact P.
  - rewrite R. inversion E; subst. split; [apply ext_refl|]. split; [reflexivity | discriminate].
Qed.

Lemma h_select_ref doc h q h' r : Forall (closed n0 h0) doc -> agree n0 h0 h -> n0 <= List.length h ->
  h_select true h doc q = (h', r) ->
  ext h h' /\ res_view (h', r) = v_select (map (view h0) doc) q /\ (forall p, r = HSel p -> priv n0 h' p).
Proof.
  intros F A L E. destruct q as [ref|n|]; unfold h_select in E; unfold v_select.
  - apply h_oci_ref; assumption.
  - unfold h_name in E. unfold v_name. destruct (blank n).
    + inversion E; subst. split; [apply ext_refl|]. split; [reflexivity | discriminate].
    + eapply h_found_ref; eassumption.
  - unfold h_global in E. unfold v_global. eapply h_found_ref; eassumption.
Qed.

(* ---- writes through a handed-out statement ---- *)
Lemma upd_length {A} (l : list A) k x : List.length (upd l k x) = List.length l.
Proof. revert k. induction l as [|y t IH]; intros [|k]; cbn; auto. Qed.

Lemma nth_upd_ne {A} (l : list A) k x o : o <> k -> nth_error (upd l k x) o = nth_error l o.
Proof.
  revert k o. induction l as [|y t IH]; intros [|k] [|o] H; cbn; try reflexivity; try congruence.
  apply IH. congruence.
Qed.

Lemma nth_upd_same {A} (l : list A) k x y : nth_error (upd l k x) k = Some y -> y = x.
Proof.
  revert k. induction l as [|z t IH]; intros [|k]; cbn; try discriminate.
  - congruence.
  - apply IH.
Qed.

Definition inv (h : heap) (ptrs : list oid) : Prop :=
  agree n0 h0 h /\ n0 <= List.length h /\ Forall (priv n0 h) ptrs.

Definition fields_ge (x : obj) : Prop := forall o, In o (ptr_fields x) -> n0 <= o.

Lemma inv_upd h ptrs a x : inv h ptrs -> n0 <= a -> fields_ge x -> inv (upd h a x) ptrs.
Proof.
  intros (A & L & P) La Fx. split; [|split].
  - intros o Ho. rewrite nth_upd_ne by lia. apply A. exact Ho.
  - rewrite upd_length. exact L.
  - eapply Forall_impl; [|exact P]. intros p (P1 & P2 & P3).
    split; [exact P1|]. split; [rewrite upd_length; exact P2|].
    intros ob Hob. destruct (Nat.eq_dec p a) as [->|Hne].
    + apply nth_upd_same in Hob. subst ob. exact Fx.
    + rewrite nth_upd_ne in Hob by exact Hne. exact (P3 ob Hob).
Qed.

Lemma inv_snoc h ptrs x : inv h ptrs -> fields_ge x -> inv (h ++ [x])%list ptrs.
Proof.
  intros (A & L & P) Fx. split; [|split].
  - intros o Ho. rewrite nth_error_app1 by lia. apply A. exact Ho.
  - rewrite app_length. lia.
  - eapply Forall_impl; [|exact P]. intros p Pp. eapply priv_ext; [apply ext_snoc | exact Pp].
Qed.

Lemma fields_ge_arr l : fields_ge (OArr l).
Proof. intros o []. Qed.

Lemma fields_ge_map m : fields_ge (OMap m).
Proof. intros o []. Qed.

Lemma fields_ge_stmt nm sc lv ov vts st ids g :
  fields_ge (OStmt nm sc lv ov vts st ids g) <-> geb n0 sc /\ geb n0 ov /\ geb n0 st /\ geb n0 ids.
Proof.
  split.
  - intros H. repeat split.
    + destruct sc as [o|]; cbn [geb]; [|trivial]. apply H. unfold ptr_fields. rewrite !in_app_iff, !in_olist. auto.
    + destruct ov as [o|]; cbn [geb]; [|trivial]. apply H. unfold ptr_fields. rewrite !in_app_iff, !in_olist. auto.
    + destruct st as [o|]; cbn [geb]; [|trivial]. apply H. unfold ptr_fields. rewrite !in_app_iff, !in_olist. auto.
    + destruct ids as [o|]; cbn [geb]; [|trivial]. apply H. unfold ptr_fields. rewrite !in_app_iff, !in_olist. auto 6.
  - intros (G1 & G2 & G3 & G4). unfold fields_ge. apply priv_fields; assumption.
Qed.

Lemma wr_arr_inv h ptrs r g : inv h ptrs -> geb n0 r -> inv (wr_arr h r g) ptrs.
Proof.
  intros I G. unfold wr_arr. destruct r as [a|]; [|exact I].
  destruct (nth_error h a) as [[l| |]|]; try exact I.
  apply inv_upd; [exact I | exact G | apply fields_ge_arr].
Qed.

Lemma wr_map_inv h ptrs r g : inv h ptrs -> geb n0 r -> inv (wr_map h r g) ptrs.
Proof.
  intros I G. unfold wr_map. destruct r as [a|]; [|exact I].
  destruct (nth_error h a) as [[|m|]|]; try exact I.
  apply inv_upd; [exact I | exact G | apply fields_ge_map].
Qed.

Lemma wr_inv h ptrs p w : inv h ptrs -> In p ptrs -> inv (apply_wr p h w) ptrs.
Proof.
  intros I Hp. pose proof I as (A & L & P).
  rewrite Forall_forall in P. destruct (P p Hp) as (P1 & P2 & P3).
  unfold apply_wr. destruct (nth_error h p) as [[| |nm sc lv ov vts st ids g]|] eqn:Np; try exact I.
  pose proof (P3 _ eq_refl) as Fso. fold (fields_ge (OStmt nm sc lv ov vts st ids g)) in Fso.
  pose proof Fso as Fg. apply fields_ge_stmt in Fg. destruct Fg as (G1 & G2 & G3 & G4).
  assert (GL : geb n0 (Some (List.length h))) by (cbn; exact L).
  destruct w as [v|v|v|b|f i v|f v|f v|k v|k|v].
  - apply inv_upd; [exact I | exact P1 | apply fields_ge_stmt; auto].
  - apply inv_upd; [exact I | exact P1 | apply fields_ge_stmt; auto].
  - apply inv_upd; [exact I | exact P1 | apply fields_ge_stmt; auto].
  - apply inv_upd; [exact I | exact P1 | apply fields_ge_stmt; auto].
  - apply wr_arr_inv; [exact I|]. destruct f; cbn; assumption.
  - apply wr_arr_inv; [exact I|]. destruct f; cbn; assumption.
  - unfold alloc. apply inv_upd; [apply inv_snoc; [exact I | apply fields_ge_arr] | exact P1 |].
    destruct f; cbn [set_fld]; apply fields_ge_stmt; auto.
  - destruct ov as [o|].
    + apply wr_map_inv; [exact I | exact G2].
    + unfold alloc. apply inv_upd; [apply inv_snoc; [exact I | apply fields_ge_map] | exact P1 |].
      apply fields_ge_stmt; auto.
  - apply wr_map_inv; [exact I | exact G2].
  - apply wr_map_inv; [exact I | exact G2].
Qed.

Lemma ws_inv ws : forall h ptrs p, inv h ptrs -> In p ptrs -> inv (apply_ws p h ws) ptrs.
Proof.
  unfold apply_ws. induction ws as [|w t IH]; intros h ptrs p I Hp; [exact I|].
  cbn. apply IH; [apply wr_inv; assumption | exact Hp].
Qed.

Lemma select_inv doc h ptrs q h' r : Forall (closed n0 h0) doc -> inv h ptrs ->
  h_select true h doc q = (h', r) ->
  res_view (h', r) = v_select (map (view h0) doc) q
  /\ inv h' (match r with HSel p => ptrs ++ [p] | HErr _ => ptrs end)%list.
Proof.
  intros F (A & L & P) E. destruct (h_select_ref doc h q h' r F A L E) as (X & V & Pp).
  split; [exact V|]. split; [eapply agree_ext; eassumption|].
  split; [pose proof (ext_len _ _ X); lia|].
  assert (P' : Forall (priv n0 h') ptrs).
  { eapply Forall_impl; [|exact P]. intros p Hp. eapply priv_ext; eassumption. }
  destruct r as [p|e]; [|exact P']. apply Forall_app. split; [exact P'|]. constructor; [|constructor].
  apply Pp. reflexivity.
Qed.

(* ---- a whole session ---- *)
Lemma session_ref doc : Forall (closed n0 h0) doc -> forall ops h ptrs rs hf,
  inv h ptrs -> session true doc h ptrs ops = (rs, hf) ->
  rs = map (v_select (map (view h0) doc)) (sel_queries ops) /\ agree n0 h0 hf.
Proof.
  intros F. induction ops as [|[q|k w] ops IH]; intros h ptrs rs hf I E; cbn in E.
  - inversion E; subst. split; [reflexivity|]. destruct I as (A & _). exact A.
  - destruct (h_select true h doc q) as [h' r] eqn:ES. cbn [fst snd] in E.
    destruct (select_inv doc h ptrs q h' r F I ES) as (V & I').
    destruct (session true doc h' _ ops) as [rs' hf'] eqn:ER. inversion E; subst.
    destruct (IH _ _ _ _ I' ER) as (R & Af). split; [|exact Af]. cbn. rewrite V, R. reflexivity.
  - destruct (nth_error ptrs k) as [p|] eqn:Ek.
    + apply (IH _ _ _ _ (wr_inv h ptrs p w I (nth_error_In _ _ Ek)) E).
    + apply (IH _ _ _ _ I E).
Qed.

End Select.

(* ================================================================== *)
(* Part 3 — the theorems on laid-out documents, [model] in closed form, the oracle *)

Lemma loaded rep d h0 doc : load_doc rep [] d = (h0, doc) ->
  Forall (closed (List.length h0) h0) doc /\ map (view h0) doc = d.
Proof. intros E. apply load_doc_spec in E. tauto. Qed.

Lemma inv0 h0 : inv (List.length h0) h0 h0 [].
Proof. split; [apply agree_refl|]. split; [lia | constructor]. Qed.

(* the loops over Go objects choose what the value-level description says *)
Lemma heap_refines rep d q h0 doc : load_doc rep [] d = (h0, doc) ->
  res_view (h_select true h0 doc q) = v_select d q.
Proof.
  intros E. destruct (loaded rep d h0 doc E) as [F M].
  destruct (h_select true h0 doc q) as [h1 r] eqn:ES.
  destruct (select_inv _ h0 doc h0 [] q h1 r F (inv0 h0) ES) as [V _]. rewrite V, M. reflexivity.
Qed.

Lemma views_agree n0 h0 h doc : Forall (closed n0 h0) doc -> agree n0 h0 h ->
  map (view h) doc = map (view h0) doc.
Proof.
  intros F A. induction F as [|sid doc C F IH]; [reflexivity|]. cbn. rewrite IH. f_equal.
  eapply view_agree; eassumption.
Qed.

(* C08_private_copy, whole sessions *)
Lemma session_private rep d ops h0 doc rs hf : load_doc rep [] d = (h0, doc) ->
  session true doc h0 [] ops = (rs, hf) ->
  rs = map (v_select d) (sel_queries ops)
  /\ map (view hf) doc = d
  /\ forall o, o < List.length h0 -> nth_error hf o = nth_error h0 o.
Proof.
  intros E ES. destruct (loaded rep d h0 doc E) as [F M].
  destruct (session_ref _ h0 doc F ops h0 [] rs hf (inv0 h0) ES) as [R A].
  split; [rewrite R, M; reflexivity|]. split; [|exact A].
  rewrite (views_agree _ h0 hf doc F A). exact M.
Qed.

Lemma closed_reach n h sid : closed n h sid -> forall o, In o (reach h sid) -> o < n.
Proof.
  intros [L C] o. unfold reach. cbn [In]. intros [<-|Ho]; [exact L|].
  destruct (nth_error h sid) as [[| |nm sc lv ov vts st ids g]|]; try contradiction.
  destruct C as (C1 & C2 & C3 & C4). unfold ptr_fields in Ho. rewrite !in_app_iff, !in_olist in Ho.
  destruct Ho as [ -> | [ -> | [ -> | -> ] ] ]; assumption.
Qed.

Lemma handed_out_disjoint rep d q h0 doc h1 p : load_doc rep [] d = (h0, doc) ->
  h_select true h0 doc q = (h1, HSel p) ->
  (forall o, In o (reach h1 p) -> List.length h0 <= o)
  /\ (forall sid o, In sid doc -> In o (reach h1 sid) -> o < List.length h0).
Proof.
  intros E ES. destruct (loaded rep d h0 doc E) as [F M].
  destruct (h_select_ref _ h0 doc h0 q h1 (HSel p) F (agree_refl _ _) (le_n _) ES) as (X & _ & P).
  destruct (P p eq_refl) as (P1 & P2 & P3). split.
  - intros o. unfold reach. cbn [In]. intros [<-|Ho]; [exact P1|].
    destruct (nth_error h1 p) as [ob|]; [|contradiction]. exact (P3 ob eq_refl o Ho).
  - intros sid o Hs. rewrite Forall_forall in F. apply closed_reach.
    eapply closed_agree; [apply ext_agree; exact X | exact (F sid Hs)].
Qed.

(* ---- boolean equalities are reflexive ---- *)
Lemma amap_eqb_refl a : amap_eqb a a = true.
Proof.
  unfold amap_eqb. apply forallb_forall. intros k _. destruct (lookup k a); cbn; [apply String.eqb_refl | reflexivity].
Qed.

Lemma list_eqb_refl {A} (e : A -> A -> bool) : (forall x, e x x = true) -> forall l, list_eqb e l l = true.
Proof. intros H l. induction l as [|x t IH]; cbn; [reflexivity|]. rewrite H, IH. reflexivity. Qed.

Lemma stmt_eqb_refl s : stmt_eqb s s = true.
Proof.
  unfold stmt_eqb, sigver_eqb. rewrite !String.eqb_refl, !(list_eqb_refl String.eqb String.eqb_refl), amap_eqb_refl.
  destruct (s_global s); reflexivity.
Qed.

(* ---- [model] in closed form ---- *)
Lemma model_eq i :
  model i =
  mk_obs (v_select (i_doc i) (i_q1 i)) (v_select (i_doc i) (i_q2 i)) true
         (if i_ver i && is_oci (i_q1 i) then skipverify_of (v_select (i_doc i) (ver_query (i_q1 i))) else 9%N)
         (if i_ver i then ver_of (v_select (i_doc i) (ver_query (i_q1 i))) else VNA).
Proof.
  unfold model. destruct (load_doc (i_rep i) [] (i_doc i)) as [h0 doc] eqn:EL.
  destruct (loaded _ _ h0 doc EL) as [F M].
  rewrite (heap_refines _ _ (ver_query (i_q1 i)) h0 doc EL).
  destruct (h_select true h0 doc (i_q1 i)) as [h1 r1] eqn:E1. cbn [fst snd].
  destruct (select_inv _ h0 doc h0 [] (i_q1 i) h1 r1 F (inv0 h0) E1) as [V1 I1]. rewrite M in V1.
  set (ptrs := (match r1 with HSel p => [] ++ [p] | HErr _ => [] end)%list) in *.
  set (h2 := match r1 with HSel p => apply_ws p h1 (i_ws i) | HErr _ => h1 end).
  assert (I2 : inv (List.length h0) h0 h2 ptrs).
  { unfold h2, ptrs in *. destruct r1 as [p|e]; [|exact I1]. apply ws_inv; [exact I1 | now left]. }
  destruct (h_select true h2 doc (i_q2 i)) as [h3 r2] eqn:E2. cbn [fst snd].
  destruct (select_inv _ h0 doc h2 ptrs (i_q2 i) h3 r2 F I2 E2) as [V2 (A3 & _)]. rewrite M in V2.
  rewrite V1, V2, (views_agree _ h0 h3 doc F A3), M.
  rewrite (list_eqb_refl stmt_eqb stmt_eqb_refl). reflexivity.
Qed.

(* ---- C08_error_kind and the verifier level ---- *)
Lemma ver_of_err r : ver_of r = VNoPolicy <-> is_err r = true.
Proof.
  destruct r as [s|e]; cbn; [|tauto]. destruct (is_skip s); split; discriminate.
Qed.

Lemma skipverify_of_err r : skipverify_of r = 0%N <-> is_err r = true.
Proof.
  destruct r as [s|e]; cbn; [|tauto]. destruct (is_skip s); split; discriminate.
Qed.

(* ---- the oracle ---- *)
Definition rp (l : list (string * string)) : option string :=
  match filter (fun pq => negb (contains_byte "@" (snd pq))) l with
  | pq :: _ => Some (fst pq)
  | [] => None
  end.

Lemma rp_map a l :
  rp (map (fun pq => (String a (fst pq), snd pq)) l) = option_map (String a) (rp l).
Proof.
  unfold rp. induction l as [|[x y] t IH]; [reflexivity|]. cbn [map filter fst snd].
  destruct (negb (contains_byte "@" y)); [reflexivity | exact IH].
Qed.

Lemma ref_path_last_at ref : ref_path ref = last_at ref.
Proof.
  change (ref_path ref) with (rp (at_splits ref)).
  induction ref as [|a s IH]; [reflexivity|]. cbn [at_splits last_at].
  destruct (Ascii.eqb a "@") eqn:Ea.
  - cbn [app]. unfold rp at 1. cbn [filter snd].
    destruct (contains_byte "@" s) eqn:Ec; cbn [negb].
    + fold (rp (map (fun pq => (String a (fst pq), snd pq)) (at_splits s))). rewrite rp_map, IH.
      destruct (last_at s) as [p|] eqn:El; [reflexivity|]. apply last_at_none in El. congruence.
    + apply last_at_none in Ec. rewrite Ec. reflexivity.
  - cbn [app]. rewrite rp_map, IH. destruct (last_at s); reflexivity.
Qed.

Lemma find_existsb {A} (f : A -> bool) d :
  match find f d with
  | Some s => existsb f d = true /\ In s d /\ f s = true
  | None => existsb f d = false
  end.
Proof.
  induction d as [|a t IH]; cbn; [reflexivity|]. destruct (f a) eqn:Fa; cbn.
  - split; [reflexivity|]. split; [now left | exact Fa].
  - destruct (find f t); [|exact IH]. destruct IH as (H1 & H2 & H3). split; [exact H1|]. split; [now right | exact H3].
Qed.

Lemma res_in_intro f d s : In s d -> f s = true -> res_in f d (RSel s) = true.
Proof.
  intros Hs Fs. cbn. rewrite Fs. cbn. apply existsb_exists. exists s. split; [exact Hs | apply stmt_eqb_refl].
Qed.

Lemma found_ok f d e :
  (if existsb f d then res_in f d (match find f d with Some s => RSel s | None => RErr e end)
   else is_err (match find f d with Some s => RSel s | None => RErr e end)) = true.
Proof.
  pose proof (find_existsb f d) as H. destruct (find f d) as [s|].
  - destruct H as (H1 & H2 & H3). rewrite H1. apply res_in_intro; assumption.
  - rewrite H. reflexivity.
Qed.

Lemma sel_ok_select d q : valid_doc d = true -> sel_ok d q (v_select d q) = true.
Proof.
  intros VD. pose proof (valid_doc_valid d VD) as V. destruct q as [ref|n|]; unfold sel_ok.
  - rewrite ref_path_last_at. destruct (last_at ref) as [p|] eqn:L.
    2:{ cbn. unfold v_oci. rewrite L. reflexivity. }
    destruct (scope_ok p) eqn:S; cbn [negb].
    2:{ cbn. unfold v_oci. rewrite L, S. reflexivity. }
    unfold v_select. rewrite (v_oci_find d ref p V L S).
    pose proof (find_existsb (has_scope p) d) as Hp. destruct (find (has_scope p) d) as [s|].
    + destruct Hp as (H1 & H2 & H3). rewrite H1. apply res_in_intro; assumption.
    + rewrite Hp. apply found_ok.
  - unfold v_select, v_name. destruct (blank n); [reflexivity|]. apply found_ok.
  - unfold v_select, v_global. apply found_ok.
Qed.

Lemma sel_ok_err d q e e' : sel_ok d q (RErr e) = sel_ok d q (RErr e').
Proof.
  destruct q as [ref|n|]; unfold sel_ok; cbn [is_err res_in]; reflexivity.
Qed.

Lemma legit_intro d q (f : stmt -> bool) s : valid_doc d = true ->
  v_select d q = RSel s -> f s = true -> legit d q f = true.
Proof.
  intros VD E Fs. unfold legit. apply existsb_exists. exists s. split; [eapply select_in; exact E|].
  rewrite <- E, (sel_ok_select d q VD), Fs. reflexivity.
Qed.

Lemma opt_str_eqb_refl o : opt_eqb String.eqb o o = true.
Proof. destruct o; cbn; [apply String.eqb_refl | reflexivity]. Qed.

Lemma ver_ok_select d q (b : bool) : valid_doc d = true ->
  ver_ok d q (if b then skipverify_of (v_select d (ver_query q)) else 9%N)
            (ver_of (v_select d (ver_query q))) = true.
Proof.
  intros VD. unfold ver_ok. pose proof (sel_ok_select d (ver_query q) VD) as SO.
  destruct (v_select d (ver_query q)) as [s|e] eqn:E.
  - cbn [ver_of skipverify_of]. destruct (is_skip s) eqn:K.
    + rewrite (legit_intro d _ is_skip s VD E K). destruct b; reflexivity.
    + rewrite (legit_intro d _ (fun s0 => negb (is_skip s0) && opt_eqb String.eqb (first_ca (s_stores s0)) (first_ca (s_stores s))) s VD E)
        by (rewrite K, opt_str_eqb_refl; reflexivity).
      destruct b; [|reflexivity]. cbn.
      apply (legit_intro d _ (fun s0 => negb (is_skip s0)) s VD E). rewrite K. reflexivity.
  - cbn [ver_of skipverify_of]. rewrite (sel_ok_err d _ 0 e), SO. destruct b; reflexivity.
Qed.

Lemma model_spec_ok i : wf i = true -> spec_ok i (model i) = true.
Proof.
  unfold wf. intros VD. rewrite model_eq. unfold spec_ok. cbn [o_r1 o_r2 o_same o_sv o_ver].
  rewrite !(sel_ok_select _ _ VD). cbn [andb].
  destruct (i_ver i) eqn:Ev; cbn [andb negb orb].
  - rewrite (ver_ok_select _ _ (is_oci (i_q1 i)) VD). cbn [andb].
    destruct (v_select (i_doc i) (ver_query (i_q1 i))) as [s|e]; cbn; [destruct (is_skip s)|]; reflexivity.
  - unfold ver_ok. reflexivity.
Qed.

(* ---- never by tag or case folding: the repository part has a fixed alphabet ---- *)
Lemma contains_byte_bytes c s : contains_byte c s = true -> In (N_of_ascii c) (bytes s).
Proof.
  unfold bytes. induction s as [|a s IH]; cbn; [discriminate|]. intros H.
  apply orb_true_iff in H. destruct H as [H|H]; [left; apply Ascii.eqb_eq in H; now subst | right; auto].
Qed.

Lemma repo_alphabet d p dom repo dg c : contains_byte "@" dg = false ->
  cut_byte "/" p = Some (dom, repo) -> contains_byte c repo = true ->
  in_alphabet (core gen_re_repository) (N_of_ascii c) = false ->
  v_select d (QOci (p ++ "@" ++ dg)) = RErr 2.
Proof.
  intros Hd Hc Hr Ha. apply bad_path_refused; [exact Hd|]. unfold scope_ok.
  destruct (longer_than_1 p && contains_byte "*" p); [reflexivity|]. rewrite Hc.
  destruct (matches gen_re_repository repo) eqn:M; [|rewrite !andb_false_r; reflexivity].
  exfalso. apply matches_alphabet in M. rewrite Forall_forall in M.
  specialize (M _ (contains_byte_bytes _ _ Hr)). cbv beta in M. congruence.
Qed.

Lemma colon_not_repo : in_alphabet (core gen_re_repository) (N_of_ascii ":") = false.
Proof. vm_compute. reflexivity. Qed.

Lemma upper_not_repo c : ((65 <=? N_of_ascii c) && (N_of_ascii c <=? 90))%N = true ->
  in_alphabet (core gen_re_repository) (N_of_ascii c) = false.
Proof.
  destruct c as [[] [] [] [] [] [] [] []]; vm_compute; intros H; first [reflexivity | discriminate H].
Qed.

(* ---- the copy that shares the override map (the code before fix 355ef9e) is not private ---- *)
Definition shallow_doc : list stmt :=
  [mk_stmt "p" ["reg.io/a"] (mk_sv "strict" [("revocation", "log")] "") ["ca:k"] ["*"] false].
Definition shallow_ops : list op :=
  [OSel (QOci "reg.io/a@sha256:0"); OWr 0 (WMapSet "revocation" "skip"); OSel (QOci "reg.io/a@sha256:0")].

Lemma shallow_refuted :
  exists d ops h0 doc, valid_doc d = true /\ load_doc false [] d = (h0, doc) /\
    fst (session false doc h0 [] ops) <> map (v_select d) (sel_queries ops).
Proof.
  exists shallow_doc, shallow_ops. eexists. eexists. split; [reflexivity|]. split; [vm_compute; reflexivity|].
  vm_compute. intros H. discriminate H.
Qed.

(* ================================================================== *)
(* Part 4 — the statements of the property, on the correspondence model [model] *)

Lemma m_selects i p dg :
  wf i = true -> i_q1 i = QOci (p ++ "@" ++ dg) -> contains_byte "@" dg = false -> scope_ok p = true ->
  let d := i_doc i in
  let r := o_r1 (model i) in
  (forall s, In s d -> In p (s_scopes s) ->
     r = RSel s /\ forall s', In s' d -> In p (s_scopes s') -> s' = s)
  /\ ((forall s, In s d -> ~ In p (s_scopes s)) ->
      (forall w, In w d -> In wildcard (s_scopes w) ->
         r = RSel w /\ s_scopes w = [wildcard] /\
         forall w', In w' d -> In wildcard (s_scopes w') -> w' = w)
      /\ ((forall s, In s d -> ~ In wildcard (s_scopes s)) -> r = RErr 3)).
Proof. intros W Q. rewrite model_eq, Q. exact (selects (i_doc i) p dg W). Qed.

Lemma reference_shape ref p :
  last_at ref = Some p <-> exists dg, ref = p ++ "@" ++ dg /\ contains_byte "@" dg = false.
Proof. split; [apply last_at_some|]. intros (dg & -> & H). apply last_at_app. exact H. Qed.

Lemma m_malformed_refused i ref :
  i_q1 i = QOci ref ->
  (contains_byte "@" ref = false -> o_r1 (model i) = RErr 1)
  /\ (forall p dg, ref = p ++ "@" ++ dg -> contains_byte "@" dg = false -> scope_ok p = false ->
        o_r1 (model i) = RErr 2).
Proof.
  intros Q. rewrite model_eq, Q. split.
  - apply no_at_refused.
  - intros p dg -> H S. apply bad_path_refused; assumption.
Qed.

Lemma m_exact i ref s :
  i_q1 i = QOci ref -> o_r1 (model i) = RSel s ->
  exists p, last_at ref = Some p /\ scope_ok p = true /\ In s (i_doc i) /\
    (In p (s_scopes s) \/
     (In wildcard (s_scopes s) /\
      forall s', In s' (i_doc i) -> In wildcard (s_scopes s') \/ ~ In p (s_scopes s'))).
Proof. intros Q. rewrite model_eq, Q. apply exact. Qed.

Lemma m_no_near_miss i p dg s :
  i_q1 i = QOci (p ++ "@" ++ dg) -> contains_byte "@" dg = false ->
  (forall x, In x (s_scopes s) -> x <> p) -> ~ In wildcard (s_scopes s) ->
  o_r1 (model i) <> RSel s.
Proof.
  intros Q Hd Hne Hw E. destruct (m_exact i _ s Q E) as (p' & L & _ & _ & [H|[H _]]).
  - rewrite (last_at_app p dg Hd) in L. inversion L; subst. exact (Hne _ H eq_refl).
  - exact (Hw H).
Qed.

Lemma m_tag_or_upper_refused i p dom repo dg c :
  i_q1 i = QOci (p ++ "@" ++ dg) -> contains_byte "@" dg = false ->
  cut_byte "/" p = Some (dom, repo) -> contains_byte c repo = true ->
  (c = ":"%char \/ ((65 <=? N_of_ascii c) && (N_of_ascii c <=? 90))%N = true) ->
  o_r1 (model i) = RErr 2.
Proof.
  intros Q Hd Hc Hr Hk. rewrite model_eq, Q.
  apply (repo_alphabet (i_doc i) p dom repo dg c Hd Hc Hr).
  destruct Hk as [->|Hk]; [exact colon_not_repo | exact (upper_not_repo c Hk)].
Qed.

Lemma m_order i i' :
  wf i = true -> Permutation (i_doc i) (i_doc i') -> i_q1 i' = i_q1 i ->
  o_r1 (model i') = o_r1 (model i).
Proof. intros W P Q. rewrite !model_eq, Q. exact (order (i_doc i) (i_doc i') (i_q1 i) W P). Qed.

Lemma m_blob_name i n :
  wf i = true -> i_q1 i = QName n -> blank n = false ->
  let d := i_doc i in
  let r := o_r1 (model i) in
  (forall s, In s d -> s_name s = n ->
     r = RSel s /\ forall s', In s' d -> s_name s' = n -> s' = s)
  /\ ((forall s, In s d -> s_name s <> n) -> r = RErr 5).
Proof. intros W Q. rewrite model_eq, Q. exact (blob_name (i_doc i) n W). Qed.

Lemma m_blob_blank_or_exact i n :
  i_q1 i = QName n ->
  (blank n = true -> o_r1 (model i) = RErr 4)
  /\ (forall s, o_r1 (model i) = RSel s -> In s (i_doc i) /\ s_name s = n /\ blank n = false).
Proof. intros Q. rewrite model_eq, Q. split; [apply blob_blank | apply blob_name_exact]. Qed.

Lemma m_blob_global i :
  wf i = true -> i_q1 i = QGlobal ->
  let d := i_doc i in
  let r := o_r1 (model i) in
  (forall s, In s d -> s_global s = true ->
     r = RSel s /\ forall s', In s' d -> s_global s' = true -> s' = s)
  /\ ((forall s, In s d -> s_global s = false) -> r = RErr 6).
Proof. intros W Q. rewrite model_eq, Q. exact (blob_global (i_doc i) W). Qed.

Lemma m_blob_no_name_is_global i :
  i_ver i = true -> i_q1 i = QName "" ->
  o_ver (model i) = ver_of (v_select (i_doc i) QGlobal).
Proof. intros V Q. rewrite model_eq, Q, V. reflexivity. Qed.

Lemma m_later_selection_unaffected d acc q1 ws q2 ver rep :
  o_r2 (model (mk_input d acc q1 ws q2 ver rep)) = o_r1 (model (mk_input d acc q2 [] q2 ver rep))
  /\ o_same (model (mk_input d acc q1 ws q2 ver rep)) = true.
Proof. rewrite !model_eq. split; reflexivity. Qed.

Lemma m_error_kind i :
  i_ver i = true -> ver_query (i_q1 i) = i_q1 i ->
  (o_ver (model i) = VNoPolicy <-> is_err (o_r1 (model i)) = true)
  /\ (is_oci (i_q1 i) = true -> (o_sv (model i) = 0%N <-> is_err (o_r1 (model i)) = true))
  /\ o_ver (model i) = ver_of (o_r1 (model i)).
Proof.
  intros V Q. rewrite model_eq, V, Q. cbn [o_ver o_sv o_r1 andb]. split; [apply ver_of_err|].
  split; [|reflexivity]. intros O. rewrite O. apply skipverify_of_err.
Qed.

(* ---- concrete documents for the non-vacuity examples ---- *)
Definition ex_sv := mk_sv "strict" [("revocation", "log")] "".
Definition ex_doc : list stmt :=
  [mk_stmt "ab" ["reg.io/a/b"; "reg.io:80/a/b"] ex_sv ["ca:k0"] ["*"] false;
   mk_stmt "abc" ["reg.io/a/b/c"] ex_sv ["ca:k1"] ["*"] false;
   mk_stmt "any" ["*"] (mk_sv "audit" [] "") ["ca:k2"] ["*"] false].
Definition ex_blob : list stmt :=
  [mk_stmt "b0" [] ex_sv ["ca:k0"] ["*"] false;
   mk_stmt "B0" [] ex_sv ["ca:k1"] ["*"] true].
