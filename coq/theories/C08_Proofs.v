(* C08_Proofs.v — lemmas about the statement selection model (under construction). *)
From NV Require Import Base Regex Generated C08_Model.
Open Scope string_scope.

Lemma placeholder : True. Proof. exact I. Qed.
