(* C17_Proofs.v — proofs about C17_Model. *)
From NV Require Import Base Generated C17_Model.

Local Open Scope N_scope.

(* ================================================================== *)
(* (c) the timed model                                                 *)
(* ================================================================== *)

Ltac tsolve :=
  unfold t_return, t_pipes, t_io_deadline, t_end, io_expired, killed, tmax, tmin, tlt, tle, tadd in *;
  repeat match goal with
         | t : time |- _ => destruct t
         | H : Fin _ = Fin _ |- _ => inversion H; clear H; subst
         | H : Fin _ = Never |- _ => discriminate H
         | H : Never = Fin _ |- _ => discriminate H
         end;
  cbn in *;
  repeat match goal with
         | |- context [N.leb ?a ?b] => destruct (N.leb_spec a b); cbn in *
         | H : context [N.leb ?a ?b] |- _ => destruct (N.leb_spec a b); cbn in *
         | b : bool |- _ => destruct b; cbn in *
         end;
  try solve [eexists; split; [reflexivity | lia]];
  try solve [f_equal; lia];
  try congruence; try lia.

(* with a WaitDelay, a call under a context that is done at [tc] returns no
   later than tc + kill latency + delay, whatever process and descendants do *)
Lemma bounded_after_cancel : forall h b d tc,
  h_delay h = Some d -> h_ctx h = true -> h_done h = Fin tc ->
  exists r, t_return h b = Fin r /\ r <= tc + b_lat b + d.
Proof.
  intros [c dn dl] [ex ds lat] d tc Hd Hc Hn. cbn in *. subst. tsolve.
Qed.

(* ... and no later than exit + delay when the process exits by itself *)
Lemma bounded_after_exit : forall h b d te,
  h_delay h = Some d -> b_exit b = Fin te ->
  exists r, t_return h b = Fin r /\ r <= te + d.
Proof.
  intros [c dn dl] [ex ds lat] d te Hd He. cbn in *. subst. tsolve.
Qed.

(* never earlier than the death of the process *)
Lemma return_after_end : forall h b, tle (t_end h b) (t_return h b) = true.
Proof.
  intros [c dn dl] [ex ds lat]. destruct dl; tsolve.
Qed.

(* when nothing holds the pipes the call returns when the process dies *)
Lemma return_no_descendant : forall h b,
  b_desc b = Fin 0 -> t_return h b = t_end h b.
Proof.
  intros [c dn dl] [ex ds lat] H. cbn in H. subst. destruct dl; tsolve.
Qed.

(* without WaitDelay there are behaviours with no bound at all, although the
   context is done and the process was killed *)
Lemma unbounded_without_delay :
  exists h b tc, h_ctx h = true /\ h_done h = Fin tc /\ h_delay h = None
                 /\ t_end h b = Fin tc /\ t_return h b = Never.
Proof.
  exists (mk_hostcfg true (Fin 300) None), (mk_beh Never Never 0), 300.
  repeat split; reflexivity.
Qed.

(* and for every bound B a behaviour whose descendants all terminate that exceeds it *)
Lemma unbounded_without_delay_finite : forall tc B,
  exists b r, t_return (mk_hostcfg true (Fin tc) None) b = Fin r /\ B < r
              /\ b_desc b <> Never.
Proof.
  intros tc B. exists (mk_beh (Fin 0) (Fin (B + 1)) 0), (B + 1).
  split; [|split; [lia | discriminate]].
  assert (E1 : (0 <=? tc) = true) by (apply N.leb_le; lia).
  assert (E2 : (0 <=? B + 1) = true) by (apply N.leb_le; lia).
  unfold t_return, t_pipes, t_io_deadline, t_end, killed, tmax, tmin, tlt, tle, tadd. cbn.
  rewrite E1. cbn. rewrite E2. cbn. rewrite E2. reflexivity.
Qed.

(* without a context the delay alone bounds nothing *)
Lemma unbounded_without_context : forall d tc,
  exists b, t_return (mk_hostcfg false (Fin tc) (Some d)) b = Never.
Proof.
  intros d tc. exists (mk_beh Never (Fin 0) 0). reflexivity.
Qed.

(* ================================================================== *)
(* (b) LimitedWriter                                                   *)
(* ================================================================== *)
Local Open Scope Z_scope.
Local Open Scope list_scope.

(* the underlying writer respects the io.Writer contract on the count *)
Definition well_behaved (under : Z -> ureply) : Prop :=
  forall k, 0 <= k -> 0 <= u_n (under k) <= k.

Definition all_wb (ws : list (Z * (Z -> ureply))) : Prop :=
  Forall (fun x => 0 <= fst x /\ well_behaved (snd x)) ws.

Definition limit_res : wres := mk_wres 0 WLimit None.

Lemma lw_run_app : forall ws1 ws2 L,
  lw_run L (ws1 ++ ws2) = lw_run L ws1 ++ lw_run (lw_final L ws1) ws2.
Proof.
  induction ws1 as [|[len u] ws1 IH]; intros ws2 L; cbn [app lw_run lw_final]; [reflexivity|].
  destruct (lw_write L len u) as [rem' r] eqn:E. cbn [fst]. now rewrite IH.
Qed.

Lemma accepted_app : forall a b, accepted (a ++ b) = accepted a + accepted b.
Proof.
  unfold accepted. induction a as [|r a IH]; intros b; cbn; [reflexivity|]. rewrite IH. lia.
Qed.

Lemma offered_app : forall a b, offered (a ++ b) = offered a + offered b.
Proof.
  unfold offered. induction a as [|r a IH]; intros b; cbn; [reflexivity|]. rewrite IH. lia.
Qed.

(* one step *)
Lemma lw_write_step : forall L len u,
  0 <= len -> well_behaved u ->
  let '(L', r) := lw_write L len u in
  (L <= 0 -> L' = L /\ r = limit_res) /\
  (0 < L -> exists k, w_offered r = Some k /\ k = Z.min len L /\ 0 <= w_n r <= k
                      /\ L' = L - w_n r /\ w_err r <> WLimit).
Proof.
  intros L len u Hlen Hu. unfold lw_write.
  destruct (Z.leb_spec L 0) as [Hle|Hgt].
  - split; [intros _; split; reflexivity | lia].
  - split; [lia|]. intros _.
    set (k := if len >? L then L else len).
    assert (Hk : k = Z.min len L).
    { unfold k. destruct (Z.gtb_spec len L); lia. }
    exists k. cbn. repeat split; try lia.
    + apply Hu. lia.
    + apply Hu. lia.
    + destruct (u_err (u k)); discriminate.
Qed.

(* the invariant: the remaining budget is the limit minus what W took, it never
   goes below zero, and no single offer exceeds what remains *)
Lemma lw_invariant : forall ws L,
  all_wb ws -> 0 <= L ->
  let rs := lw_run L ws in
  lw_final L ws = L - accepted rs
  /\ 0 <= lw_final L ws
  /\ Forall (fun r => forall k, w_offered r = Some k -> 0 <= k <= L) rs.
Proof.
  induction ws as [|[len u] ws IH]; intros L Hwb HL; cbn [lw_run lw_final].
  - cbn. repeat split; try lia. constructor.
  - inversion Hwb as [|x l [Hlen Hu] Hrest]; subst. cbn [fst snd] in *.
    pose proof (lw_write_step L len u Hlen Hu) as Hs.
    destruct (lw_write L len u) as [L' r] eqn:E. cbn [fst].
    destruct Hs as [Hexh Hlive].
    destruct (Z.leb_spec L 0) as [Hle|Hgt].
    + destruct (Hexh Hle) as [-> ->].
      destruct (IH L Hrest HL) as (H1 & H2 & H3).
      repeat split.
      * rewrite H1. unfold accepted. cbn. lia.
      * exact H2.
      * constructor; [intros k Hk; discriminate Hk | exact H3].
    + destruct (Hlive Hgt) as (k & Hoff & Hk & Hn & HL' & _).
      assert (HL'0 : 0 <= L') by lia.
      destruct (IH L' Hrest HL'0) as (H1 & H2 & H3).
      repeat split.
      * rewrite H1. unfold accepted. cbn. rewrite Hoff. lia.
      * exact H2.
      * constructor.
        -- intros k' Hk'. rewrite Hoff in Hk'. inversion Hk'; subst. lia.
        -- eapply Forall_impl; [|exact H3]. intros r' Hr' k' Hk'. specialize (Hr' k' Hk'). lia.
Qed.

(* once the budget is exhausted, every later write is refused with the limit
   error and the underlying writer is not called *)
Lemma lw_exhausted : forall ws L, L <= 0 ->
  Forall (fun r => r = limit_res) (lw_run L ws) /\ lw_final L ws = L.
Proof.
  induction ws as [|[len u] ws IH]; intros L HL; cbn [lw_run lw_final].
  - split; [constructor | reflexivity].
  - unfold lw_write. destruct (Z.leb_spec L 0); [|lia]. cbn [fst].
    destruct (IH L HL) as [H1 H2]. split; [constructor; [reflexivity | exact H1] | exact H2].
Qed.

(* the cap theorem *)
Lemma cap_holds : forall L ws1 ws2,
  0 <= L -> all_wb (ws1 ++ ws2) ->
  let rs := lw_run L (ws1 ++ ws2) in
  accepted rs <= L
  /\ Forall (fun r => forall k, w_offered r = Some k -> k <= L) rs
  /\ (accepted (lw_run L ws1) = L ->
      Forall (fun r => r = limit_res) (lw_run (lw_final L ws1) ws2)).
Proof.
  intros L ws1 ws2 HL Hwb. cbn zeta.
  destruct (lw_invariant (ws1 ++ ws2) L Hwb HL) as (H1 & H2 & H3).
  repeat split.
  - lia.
  - eapply Forall_impl; [|exact H3]. intros r Hr k Hk. apply Hr in Hk. lia.
  - intros Hacc.
    assert (Hwb1 : all_wb ws1) by (apply Forall_app in Hwb; tauto).
    destruct (lw_invariant ws1 L Hwb1 HL) as (F1 & _ & _).
    apply lw_exhausted. lia.
Qed.

(* a writer that takes everything it is offered (bytes.Buffer): the bytes handed
   over are the bytes taken, so their total is within the cap *)
Definition takes_all (under : Z -> ureply) : Prop := forall k, u_n (under k) = k.

Lemma offered_eq_accepted : forall ws L,
  Forall (fun x => takes_all (snd x)) ws ->
  offered (lw_run L ws) = accepted (lw_run L ws).
Proof.
  induction ws as [|[len u] ws IH]; intros L H; cbn [lw_run]; [reflexivity|].
  inversion H as [|x l Hu Hrest]; subst. cbn [snd] in Hu.
  unfold lw_write. destruct (Z.leb_spec L 0).
  - unfold offered, accepted in *. cbn. now rewrite (IH L Hrest).
  - unfold offered, accepted in *. cbn. rewrite (IH _ Hrest). rewrite Hu. reflexivity.
Qed.

Lemma cap_buffer : forall L ws,
  0 <= L -> all_wb ws -> Forall (fun x => takes_all (snd x)) ws ->
  offered (lw_run L ws) <= L.
Proof.
  intros L ws HL Hwb Hall. rewrite (offered_eq_accepted ws L Hall).
  destruct (lw_invariant ws L Hwb HL) as (H1 & H2 & _). lia.
Qed.

(* a limit that is not positive lets nothing through *)
Lemma cap_nonpositive : forall L ws, L <= 0 ->
  Forall (fun r => r = limit_res) (lw_run L ws).
Proof. intros. now apply lw_exhausted. Qed.

(* ---- the boolean writer oracle is met by the model ---- *)

Lemma scripted_wb : forall a e, 0 <= a -> well_behaved (scripted a e).
Proof.
  intros a e Ha k Hk. unfold scripted. cbn. destruct (Z.ltb_spec a k); lia.
Qed.

Lemma wf_w_all_wb : forall ws,
  forallb (fun x => let '(len, a, _) := x in (0 <=? len) && (0 <=? a)) ws = true ->
  all_wb (wscript ws).
Proof.
  induction ws as [|[[len a] e] ws IH]; intros H; cbn in *; [constructor|].
  apply andb_true_iff in H as [H1 H2]. apply andb_true_iff in H1 as [Hl Ha].
  apply Z.leb_le in Hl, Ha.
  constructor; [cbn; split; [lia | now apply scripted_wb] | now apply IH].
Qed.

Lemma wscript_lens : forall ws, map fst (wscript ws) = map (fun x => fst (fst x)) ws.
Proof.
  intros ws. unfold wscript. rewrite map_map. apply map_ext. intros [[len a] e]. reflexivity.
Qed.

Lemma spec_w_aux_model : forall ws L,
  all_wb ws -> spec_w_aux L (map fst ws) (lw_run L ws) = true.
Proof.
  induction ws as [|[len u] ws IH]; intros L Hwb; cbn [map lw_run spec_w_aux fst]; [reflexivity|].
  inversion Hwb as [|x l [Hlen Hu] Hrest]; subst. cbn [fst snd] in *.
  pose proof (lw_write_step L len u Hlen Hu) as Hs.
  destruct (lw_write L len u) as [L' r] eqn:E.
  destruct Hs as [Hexh Hlive].
  destruct (Z.leb_spec L 0) as [Hle|Hgt].
  - destruct (Hexh Hle) as [-> ->]. cbn. now apply IH.
  - destruct (Hlive Hgt) as (k & Hoff & Hk & Hn & HL' & Hne).
    rewrite Hoff. subst L'.
    rewrite (IH _ Hrest).
    replace (k =? Z.min len L) with true by (symmetry; apply Z.eqb_eq; exact Hk).
    replace (0 <=? w_n r) with true by (symmetry; apply Z.leb_le; lia).
    replace (w_n r <=? k) with true by (symmetry; apply Z.leb_le; lia).
    destruct (w_err r); try reflexivity. congruence.
Qed.

Lemma model_w_spec : forall i, wf_w i = true -> spec_w i (model_w i) = true.
Proof.
  intros [L ws] Hwf. unfold wf_w, spec_w, model_w, wi_limit, wi_writes in *. cbv beta iota in *.
  pose proof (wf_w_all_wb ws Hwf) as Hwb.
  rewrite <- wscript_lens. rewrite (spec_w_aux_model _ L Hwb). cbn [andb].
  apply Z.leb_le.
  destruct (Z.leb_spec L 0) as [Hle|Hgt].
  - destruct (lw_exhausted (wscript ws) L Hle) as [Hall _].
    assert (Hz : forall rs, Forall (fun r => r = limit_res) rs -> accepted rs = 0).
    { induction 1 as [|r rs Hr _ IHrs]; [reflexivity|]. subst r. unfold accepted in *. cbn. now rewrite IHrs. }
    rewrite (Hz _ Hall). lia.
  - destruct (lw_invariant (wscript ws) L Hwb ltac:(lia)) as (H1 & H2 & _). lia.
Qed.

(* ================================================================== *)
(* (a) CLIPlugin                                                       *)
(* ================================================================== *)
Local Open Scope N_scope.

Lemma streqb_neq : forall a b, String.eqb a b = false <-> a <> b.
Proof. intros. apply String.eqb_neq. Qed.

Lemma mem_str_In : forall x l, mem_str x l = true <-> In x l.
Proof.
  intros x l. unfold mem_str. rewrite existsb_exists. split.
  - intros (y & Hy & E). apply String.eqb_eq in E. now subst.
  - intros H. exists x. split; [exact H | apply String.eqb_refl].
Qed.

(* validate accepts exactly the complete metadata *)
Definition meta_complete (m : meta) : Prop :=
  m_name m <> "" /\ m_desc m <> "" /\ m_ver m <> "" /\ m_url m <> ""
  /\ m_caps m <> [] /\ m_cvs m <> [] /\ In contract_version (m_cvs m).

Lemma validate_ok_iff : forall m, validate m = 0 <-> meta_complete m.
Proof.
  intros [n d v u cs cv]. unfold validate, meta_complete. cbn [m_name m_desc m_ver m_url m_caps m_cvs].
  destruct (String.eqb_spec n ""); [split; [discriminate | tauto]|].
  destruct (String.eqb_spec d ""); [split; [discriminate | tauto]|].
  destruct (String.eqb_spec v ""); [split; [discriminate | tauto]|].
  destruct (String.eqb_spec u ""); [split; [discriminate | tauto]|].
  destruct cs as [|c cs]; [split; [discriminate | tauto]|].
  destruct cv as [|c' cv]; [split; [discriminate | tauto]|].
  destruct (mem_str contract_version (c' :: cv)) eqn:E.
  - apply mem_str_In in E. split; [intros _|reflexivity]. repeat split; try assumption; discriminate.
  - split; [discriminate|]. intros (_ & _ & _ & _ & _ & _ & Hin). apply mem_str_In in Hin. congruence.
Qed.

Definition proc_killed (i : pinput) : bool := killed (host_of i) (beh_of i).

Lemma proc_killed_eq : forall i,
  proc_killed i = match i_deadline i with Some d => d <? i_sleep i | None => false end.
Proof.
  intros i. unfold proc_killed, killed, host_of, beh_of, tlt, tle, opt_time. cbn.
  destruct (i_deadline i) as [d|]; cbn; [|reflexivity].
  rewrite N.ltb_antisym. reflexivity.
Qed.

Lemma started_iff : forall i,
  started i = true <-> i_file i = FExec /\ i_deadline i <> Some 0.
Proof.
  intros i. unfold started, ctx_done_at_call.
  destruct (i_file i); try (split; [discriminate | intros [H _]; discriminate H]).
  destruct (i_deadline i) as [[|p]|]; cbn.
  - split; [discriminate | intros [_ H]; now elim H].
  - split; [intros _; split; [reflexivity | discriminate] | reflexivity].
  - split; [intros _; split; [reflexivity | discriminate] | reflexivity].
Qed.

Lemma stderr_result_not_ok : forall e, stderr_result e <> ROk.
Proof.
  intros [|c m md]; cbn; [discriminate|].
  destruct (String.eqb c "" && String.eqb m "" && is_none md); discriminate.
Qed.

(* an error of the executor never becomes a success *)
Lemma exec_failed_not_ok : forall i, exec_failed i = true -> run_result i <> ROk.
Proof.
  intros i H. unfold run_result. rewrite H.
  destruct (captured_stderr i =? 0); [discriminate | apply stderr_result_not_ok].
Qed.

(* exact characterisation of success *)
Definition success_cond (i : pinput) : Prop :=
  started i = true /\ proc_killed i = false /\ i_exit i = 0
  /\ i_stdout_len i <= cap /\ i_stderr_len i <= cap
  /\ io_expired (host_of i) (beh_of i) = false
  /\ exists m, i_stdout i = SGood m
               /\ (i_cmd i = GetMetadata -> meta_complete m /\ m_name m = i_name i).

Lemma exec_failed_false_iff : forall i,
  exec_failed i = false <->
  started i = true /\ proc_killed i = false /\ i_exit i = 0
  /\ i_stdout_len i <= cap /\ i_stderr_len i <= cap
  /\ io_expired (host_of i) (beh_of i) = false.
Proof.
  intros i. unfold exec_failed, proc_killed.
  rewrite !orb_false_iff, !negb_false_iff, N.eqb_eq, !N.ltb_ge.
  split.
  - intros (((((Hf & Hk) & He) & Ho) & Hs) & Hio). repeat split; assumption.
  - intros (Hf & Hk & He & Ho & Hs & Hio). repeat split; assumption.
Qed.

Lemma run_ok_iff : forall i, run_result i = ROk <-> success_cond i.
Proof.
  intros i. unfold success_cond. split.
  - intros H.
    destruct (exec_failed i) eqn:Ef; [exfalso; now apply (exec_failed_not_ok i Ef)|].
    apply exec_failed_false_iff in Ef as (Hf & Hk & He & Ho & Hs & Hio).
    repeat (split; [assumption|]).
    unfold run_result in H.
    assert (Ef : exec_failed i = false) by (apply exec_failed_false_iff; tauto).
    rewrite Ef in H.
    destruct (i_stdout i) as [|m]; [discriminate|]. exists m. split; [reflexivity|].
    intros Hc. rewrite Hc in H. cbn in H.
    destruct (validate m) eqn:Ev; [|discriminate].
    destruct (String.eqb_spec (m_name m) (i_name i)); [|discriminate].
    split; [now apply validate_ok_iff | assumption].
  - intros (Hf & Hk & He & Ho & Hs & Hio & m & Hm & Hmeta).
    assert (Ef : exec_failed i = false) by (apply exec_failed_false_iff; tauto).
    unfold run_result. rewrite Ef, Hm.
    destruct (i_cmd i) eqn:Hc; cbn; try reflexivity.
    destruct (Hmeta eq_refl) as [Hcompl Hname].
    apply validate_ok_iff in Hcompl. rewrite Hcompl, Hname, String.eqb_refl. reflexivity.
Qed.

Lemma model_p_result : forall i,
  p_result (model_p i) = match i_file i with FMissing | FDir => RNew | _ => run_result i end.
Proof. intros i. unfold model_p. destruct (i_file i); reflexivity. Qed.

Lemma model_p_argv : forall i,
  p_argv (model_p i) = if started i then Some (cmd_arg (i_cmd i)) else None.
Proof. intros i. unfold model_p, started. destruct (i_file i); reflexivity. Qed.

Lemma model_ok_iff : forall i, p_result (model_p i) = ROk <-> success_cond i.
Proof.
  intros i. rewrite model_p_result. destruct (i_file i) eqn:Hf.
  - apply run_ok_iff.
  - apply run_ok_iff.
  - split; [discriminate|]. intros (H & _). apply started_iff in H as [H _]. rewrite Hf in H. discriminate.
  - split; [discriminate|]. intros (H & _). apply started_iff in H as [H _]. rewrite Hf in H. discriminate.
Qed.

(* the property's wording: success only if ... *)
Lemma success_only : forall i,
  p_result (model_p i) = ROk ->
  i_file i = FExec /\ i_exit i = 0
  /\ (forall d, i_deadline i = Some d -> i_sleep i <= d /\ d <> 0)
  /\ i_stdout_len i <= cap
  /\ p_argv (model_p i) = Some (cmd_arg (i_cmd i))
  /\ exists m, i_stdout i = SGood m
     /\ (i_cmd i = GetMetadata ->
         m_name m <> "" /\ m_desc m <> "" /\ m_ver m <> "" /\ m_url m <> ""
         /\ m_caps m <> [] /\ m_cvs m <> [] /\ In contract_version (m_cvs m)
         /\ m_name m = i_name i).
Proof.
  intros i H. apply model_ok_iff in H as (Hf & Hk & He & Ho & Hs & Hio & m & Hm & Hmeta).
  pose proof Hf as Hst. apply started_iff in Hf as [Hf Hd0].
  repeat (split; [assumption|]). split.
  - intros d Hd. rewrite proc_killed_eq, Hd in Hk. apply N.ltb_ge in Hk. split; [exact Hk|].
    intros ->. now elim Hd0.
  - split; [assumption|]. split; [rewrite model_p_argv, Hst; reflexivity|].
    exists m. split; [assumption|]. intros Hc.
    destruct (Hmeta Hc) as [(H1 & H2 & H3 & H4 & H5 & H6 & H7) H8]. tauto.
Qed.

(* [failing] (the oracle's notion: no successful exit) implies an executor error *)
Lemma failing_exec_failed : forall i, failing i = true -> exec_failed i = true.
Proof.
  intros i H. unfold failing in H. unfold exec_failed.
  fold (proc_killed i). rewrite proc_killed_eq. unfold started.
  apply orb_true_iff in H as [H|H]; [apply orb_true_iff in H as [H|H]; [apply orb_true_iff in H as [H|H]|]|].
  - destruct (i_file i); try discriminate; reflexivity.
  - rewrite H. destruct (i_file i); reflexivity.
  - rewrite H. rewrite ?orb_true_r. reflexivity.
  - rewrite H. rewrite ?orb_true_r. reflexivity.
Qed.

(* error kinds of a failing process *)
Definition structured (e : serr) (code msg : string) (md : option amap) : Prop :=
  e = EJson code msg md /\ (code <> "" \/ msg <> "" \/ md <> None).

Lemma incomplete_false : forall code msg (md : option amap),
  (code <> "" \/ msg <> "" \/ md <> None) ->
  String.eqb code "" && String.eqb msg "" && is_none md = false.
Proof.
  intros code msg md H.
  destruct (String.eqb_spec code ""); destruct (String.eqb_spec msg ""); destruct md; cbn; try reflexivity.
  destruct H as [?|[?|?]]; congruence.
Qed.

Lemma incomplete_true : forall code msg (md : option amap),
  String.eqb code "" && String.eqb msg "" && is_none md = true -> code = "" /\ msg = "" /\ md = None.
Proof.
  intros code msg md H. apply andb_true_iff in H as [H H3]. apply andb_true_iff in H as [H1 H2].
  apply String.eqb_eq in H1, H2. destruct md; [discriminate|]. tauto.
Qed.

Lemma error_kind : forall i,
  (i_file i = FExec \/ i_file i = FNoExec) -> exec_failed i = true ->
  (captured_stderr i = 0 -> p_result (model_p i) = RExec)
  /\ (forall code msg md, captured_stderr i <> 0 -> structured (i_stderr i) code msg md ->
        p_result (model_p i) = RReq code msg md)
  /\ (captured_stderr i <> 0 -> (forall code msg md, ~ structured (i_stderr i) code msg md) ->
        p_result (model_p i) = RMalformed 0).
Proof.
  intros i Hfile Hf. rewrite model_p_result.
  replace (match i_file i with FMissing | FDir => RNew | _ => run_result i end) with (run_result i)
    by (destruct Hfile as [-> | ->]; reflexivity).
  unfold run_result. rewrite Hf.
  repeat split.
  - intros H0. rewrite H0. reflexivity.
  - intros code msg md Hne (He & Hsome).
    apply N.eqb_neq in Hne. rewrite Hne, He. cbn. now rewrite incomplete_false.
  - intros Hne Hno. apply N.eqb_neq in Hne. rewrite Hne.
    destruct (i_stderr i) as [|code msg md] eqn:He; [reflexivity|]. cbn.
    destruct (String.eqb code "" && String.eqb msg "" && is_none md) eqn:E; [reflexivity|].
    exfalso. apply (Hno code msg md). split; [reflexivity|].
    destruct (String.eqb_spec code ""); [|tauto]. destruct (String.eqb_spec msg ""); [|tauto].
    destruct md; [right; right; discriminate | discriminate E].
Qed.

(* the call returns in time (uses the timed model) *)
Lemma model_in_time : forall i, wf_p i = true -> p_in_time (model_p i) = true.
Proof.
  intros i Hwf. unfold model_p.
  destruct (i_file i); try reflexivity; cbn [p_in_time]; unfold wf_p in Hwf.
  all: destruct (i_deadline i) as [d|] eqn:Hd.
  all: try (destruct (bounded_after_exit (host_of i) (beh_of i) plugin_wait_delay (i_sleep i) eq_refl eq_refl)
             as (r & Hr & Hle)).
  all: try (destruct (bounded_after_cancel (host_of i) (beh_of i) plugin_wait_delay d eq_refl eq_refl
                        ltac:(unfold host_of; rewrite Hd; reflexivity)) as (r' & Hr' & Hle')).
  all: rewrite Hr; cbn; apply N.leb_le; apply N.leb_le in Hwf.
  all: try (rewrite Hr in Hr'; inversion Hr'; subst r'; cbn in Hle'; lia).
  all: lia.
Qed.

Lemma md_eqb_refl : forall d, md_eqb d d = true.
Proof.
  intros [l|]; [|reflexivity]. cbn. induction l as [|[a b] l IH]; [reflexivity|].
  cbn. unfold pair_eqb at 1. cbn. now rewrite !String.eqb_refl, IH.
Qed.

Lemma run_result_not_other : forall i, run_result i <> ROther.
Proof.
  intros i. unfold run_result.
  destruct (exec_failed i).
  - destruct (captured_stderr i =? 0); [discriminate|].
    destruct (i_stderr i) as [|c m md]; cbn; [discriminate|].
    destruct (String.eqb c "" && String.eqb m "" && is_none md); discriminate.
  - destruct (i_stdout i) as [|m]; [discriminate|].
    destruct (is_metadata (i_cmd i)); [|discriminate].
    destruct (validate m); [destruct (String.eqb (m_name m) (i_name i))|]; discriminate.
Qed.

Lemma typed_when_no_stderr : forall i,
  exec_failed i = true -> captured_stderr i = 0 -> run_result i = RExec.
Proof. intros i Hf H0. unfold run_result. now rewrite Hf, H0. Qed.

(* the model meets the process oracle *)
Lemma model_p_spec : forall i, wf_p i = true -> spec_p i (model_p i) = true.
Proof.
  intros i Hwf. unfold spec_p. rewrite (model_in_time i Hwf). cbn [andb].
  rewrite model_p_argv, model_p_result.
  assert (Hargv : match (if started i then Some (cmd_arg (i_cmd i)) else None) with
                  | Some a => String.eqb a (cmd_arg (i_cmd i)) | None => true end = true).
  { destruct (started i); [apply String.eqb_refl | reflexivity]. }
  rewrite Hargv. cbn [andb].
  destruct (i_file i) eqn:Hfile; try reflexivity.
  all: destruct (failing i) eqn:Hfl.
  (* failing: error kind *)
  1,3: pose proof (failing_exec_failed i Hfl) as Hef;
       destruct (started i) eqn:Hst;
       [ unfold error_kind_ok, run_result; rewrite Hef; unfold captured_stderr; rewrite Hst;
         destruct (N.min (i_stderr_len i) cap =? 0); [reflexivity|];
         destruct (i_stderr i) as [|code msg md]; [reflexivity|]; cbn;
         destruct (String.eqb code "" && String.eqb msg "" && is_none md); [reflexivity|];
         rewrite !String.eqb_refl, md_eqb_refl; reflexivity
       | rewrite (typed_when_no_stderr i Hef); [reflexivity | unfold captured_stderr; now rewrite Hst] ].
  (* not failing *)
  - destruct (run_result i) eqn:Hr; try reflexivity.
    + apply run_ok_iff in Hr as (Hf & Hk & He & Ho & Hs & Hio & m & Hm & Hmeta).
      rewrite Hf. cbn [is_none negb]. rewrite andb_true_r.
      unfold success_allowed. rewrite Hfl, Hm. cbn [negb andb].
      replace (i_stdout_len i <=? cap) with true by (symmetry; now apply N.leb_le).
      cbn [andb]. destruct (i_cmd i) eqn:Hc; cbn; try reflexivity.
      destruct (Hmeta eq_refl) as [(H1 & H2 & H3 & H4 & H5 & H6 & H7) H8].
      unfold meta_ok.
      apply String.eqb_neq in H1, H2, H3, H4. rewrite H1, H2, H3, H4.
      apply mem_str_In in H7. rewrite H7, H8, String.eqb_refl.
      destruct (m_caps m); [congruence|]. destruct (m_cvs m); [congruence|]. reflexivity.
    + exfalso. now apply (run_result_not_other i).
  - (* FNoExec is always failing *)
    unfold failing in Hfl. rewrite Hfile in Hfl. discriminate.
Qed.

(* ================================================================== *)
(* (b') io.Copy into the LimitedWriter over a bytes.Buffer              *)
(* ================================================================== *)
Local Open Scope Z_scope.

Definition all_pos (chunks : list Z) : Prop := Forall (fun nr => 0 < nr) chunks.

Lemma zsum_nonneg : forall chunks, all_pos chunks -> 0 <= zsum chunks.
Proof.
  induction 1 as [|nr cs Hnr _ IH]; [cbn; lia|].
  change (0 <= nr + zsum cs). lia.
Qed.

Lemma zsum_app : forall a b, zsum (a ++ b) = zsum a + zsum b.
Proof.
  induction a as [|x a IH]; intros b; [reflexivity|].
  change (x + zsum (a ++ b) = x + zsum a + zsum b). rewrite IH. lia.
Qed.

(* the loop invariant, for every state the loop can be in *)
Lemma copy_loop_spec : forall chunks rem w n,
  all_pos chunks ->
  let r := copy_loop rem w n chunks in
  let R := Z.max 0 rem in
  c_written r = w + Z.min (zsum chunks) R
  /\ (c_err r = CNil <-> zsum chunks <= R)
  /\ (c_err r <> CNil -> c_left r <= 0 \/ rem <= 0)
  /\ c_left r = rem - Z.min (zsum chunks) R
  /\ c_err r <> CUnder.
Proof.
  induction chunks as [|nr cs IH]; intros rem w n Hpos.
  - cbn. split; [lia|]. split; [split; [intros _; lia | reflexivity]|].
    split; [intros H; now elim H|]. split; [lia | discriminate].
  - inversion Hpos as [|x l Hnr Hcs]; subst.
    pose proof (zsum_nonneg cs Hcs) as Hs.
    change (zsum (nr :: cs)) with (nr + zsum cs).
    cbn [copy_loop]. unfold lw_write. destruct (Z.leb_spec rem 0) as [Hle|Hgt].
    + cbn. split; [lia|]. split; [split; [discriminate | lia]|].
      split; [intros _; lia|]. split; [lia | discriminate].
    + cbn [buffer_w u_n u_err w_n w_err].
      destruct (Z.gtb_spec nr rem) as [Hbig|Hfit].
      * (* short write: the slice was cut to what remains *)
        replace (rem =? nr) with false by (symmetry; apply Z.eqb_neq; lia).
        cbn. split; [lia|]. split; [split; [discriminate | lia]|].
        split; [intros _; lia|]. split; [lia | discriminate].
      * rewrite Z.eqb_refl.
        specialize (IH (rem - nr) (w + nr) (n + 1)%N Hcs). cbn zeta in IH.
        destruct IH as (H1 & H2 & H3 & H4 & H5).
        split; [rewrite H1; lia|].
        split; [split; [intros E; apply H2 in E; lia | intros E; apply H2; lia]|].
        split; [intros E; apply H3 in E; lia|].
        split; [rewrite H4; lia | exact H5].
Qed.

(* what the host holds after copying a stream of the plugin: never more than the
   cap; everything when the stream is within the cap; exactly the cap, and an
   error, when it is not - whatever the chunking *)
Lemma copy_cap : forall L chunks,
  all_pos chunks ->
  let r := model_c (mk_cinput L chunks) in
  c_written r <= Z.max 0 L
  /\ c_written r = Z.min (zsum chunks) (Z.max 0 L)
  /\ (c_err r = CNil <-> zsum chunks <= Z.max 0 L)
  /\ c_left r = L - c_written r.
Proof.
  intros L chunks Hpos. cbn zeta. unfold model_c. cbn [ci_limit ci_chunks].
  destruct (copy_loop_spec chunks L 0 0%N Hpos) as (H1 & H2 & _ & H4 & _).
  pose proof (zsum_nonneg chunks Hpos). repeat split; try lia; try tauto.
Qed.

Definition copy_fails (L : Z) (chunks : list Z) : bool :=
  negb (cerr_eqb (c_err (model_c (mk_cinput L chunks))) CNil).

Lemma cerr_eqb_nil : forall e, cerr_eqb e CNil = true <-> e = CNil.
Proof. intros []; cbn; split; congruence. Qed.

Lemma copy_fails_iff : forall L chunks, all_pos chunks ->
  copy_fails L chunks = (Z.max 0 L <? zsum chunks).
Proof.
  intros L chunks Hpos. unfold copy_fails.
  destruct (copy_cap L chunks Hpos) as (_ & _ & H & _). cbn zeta in H.
  destruct (Z.ltb_spec (Z.max 0 L) (zsum chunks)) as [Hlt|Hge].
  - apply negb_true_iff. destruct (cerr_eqb _ CNil) eqn:E; [|reflexivity].
    apply cerr_eqb_nil in E. apply H in E. lia.
  - apply negb_false_iff. apply cerr_eqb_nil. apply H. exact Hge.
Qed.

Lemma wf_c_all_pos : forall c, wf_c c = true -> all_pos (ci_chunks c).
Proof.
  intros c H. unfold wf_c in H. rewrite forallb_forall in H.
  apply Forall_forall. intros x Hx. apply H in Hx. now apply Z.ltb_lt.
Qed.

Lemma model_c_spec : forall c, wf_c c = true ->
  spec_c c (model_c c) (c_written (model_c c)) = true.
Proof.
  intros [L chunks] Hwf. pose proof (wf_c_all_pos _ Hwf) as Hpos. cbn [ci_chunks] in Hpos.
  destruct (copy_cap L chunks Hpos) as (H1 & H2 & H3 & _). cbn zeta in *.
  unfold spec_c. cbn [ci_limit ci_chunks].
  set (r := model_c (mk_cinput L chunks)) in *.
  replace (c_written r <=? Z.max 0 L) with true by (symmetry; apply Z.leb_le; lia).
  rewrite Z.eqb_refl. cbn [andb].
  destruct (Z.ltb_spec (Z.max 0 L) (zsum chunks)) as [Hlt|Hge].
  - replace (c_written r =? Z.max 0 L) with true by (symmetry; apply Z.eqb_eq; lia).
    rewrite andb_true_r. apply negb_true_iff.
    destruct (cerr_eqb (c_err r) CNil) eqn:E; [|reflexivity].
    apply cerr_eqb_nil in E. apply H3 in E. lia.
  - replace (c_written r =? zsum chunks) with true by (symmetry; apply Z.eqb_eq; lia).
    rewrite andb_true_r. apply cerr_eqb_nil. apply H3. exact Hge.
Qed.

Local Open Scope N_scope.

Lemma model_spec_ok : forall i, wf i = true -> spec_ok i (model i) = true.
Proof.
  intros [p|w|c] H; cbn in *; [now apply model_p_spec | now apply model_w_spec | now apply model_c_spec].
Qed.

(* the executor error covers every way the process can fail to finish cleanly,
   and then the result is never a success, whatever stdout says *)
Lemma no_success_when : forall i,
  i_exit i <> 0 \/ proc_killed i = true \/ cap < i_stdout_len i \/ cap < i_stderr_len i
  \/ io_expired (host_of i) (beh_of i) = true \/ i_file i <> FExec \/ i_deadline i = Some 0 ->
  p_result (model_p i) <> ROk.
Proof.
  intros i H Hok. apply model_ok_iff in Hok as (Hf & Hk & He & Ho & Hs & Hio & _).
  apply started_iff in Hf as [Hf Hd].
  destruct H as [H|[H|[H|[H|[H|[H|H]]]]]]; try congruence; lia.
Qed.
