(* C14_Audit.v — further proofs about the directory semantics of C14_Model:
   injectivity of the key (so "a URL with that key" is "that URL"), reads in
   progress and progress of readers and writers (nobody is ever blocked, so the
   safety theorems are not vacuous). *)
From NV Require Import Base Generated C14_Model C14_Proofs.
Open Scope string_scope.
Open Scope list_scope.
Open Scope nat_scope.

(* ---------- hex is injective on byte lists ---------- *)
Definition bytes (l : list N) : Prop := Forall (fun b => (b < 256)%N) l.

Lemma N_of_hexdigit : forall d, (d < 16)%N ->
  N_of_ascii (hexdigit d) = (if (d <? 10)%N then 48 + d else 87 + d)%N.
Proof.
  intros d H. unfold hexdigit. apply N_ascii_embedding.
  destruct (d <? 10)%N eqn:E; [apply N.ltb_lt in E|apply N.ltb_ge in E]; lia.
Qed.

Lemma hexdigit_inj : forall a b, (a < 16)%N -> (b < 16)%N -> hexdigit a = hexdigit b -> a = b.
Proof.
  intros a b Ha Hb E. apply (f_equal N_of_ascii) in E.
  rewrite (N_of_hexdigit a Ha), (N_of_hexdigit b Hb) in E.
  destruct (a <? 10)%N eqn:Ea; destruct (b <? 10)%N eqn:Eb;
    try apply N.ltb_lt in Ea; try apply N.ltb_ge in Ea; try apply N.ltb_lt in Eb; try apply N.ltb_ge in Eb; lia.
Qed.

Lemma byte_split : forall b c, (b < 256)%N -> (c < 256)%N ->
  ((b / 16) mod 16 = (c / 16) mod 16)%N -> (b mod 16 = c mod 16)%N -> b = c.
Proof.
  intros b c Hb Hc Hq Hr.
  assert (b / 16 < 16)%N as Qb by (apply N.div_lt_upper_bound; lia).
  assert (c / 16 < 16)%N as Qc by (apply N.div_lt_upper_bound; lia).
  rewrite (N.mod_small _ _ Qb), (N.mod_small _ _ Qc) in Hq.
  rewrite (N.div_mod' b 16), (N.div_mod' c 16). rewrite Hq, Hr. reflexivity.
Qed.

Lemma hex_inj : forall l1 l2, bytes l1 -> bytes l2 -> hex l1 = hex l2 -> l1 = l2.
Proof.
  induction l1 as [|b l1 IH]; intros l2 B1 B2 E; destruct l2 as [|c l2]; cbn in E; try discriminate; [reflexivity|].
  inversion B1 as [|? ? Hb B1']; subst. inversion B2 as [|? ? Hc B2']; subst.
  inversion E as [[E1 E2 E3]].
  assert (forall x, (x mod 16 < 16)%N) as M by (intros x; apply N.mod_lt; discriminate).
  apply hexdigit_inj in E1; [|apply M|apply M]. apply hexdigit_inj in E2; [|apply M|apply M].
  f_equal; [exact (byte_split _ _ Hb Hc E1 E2)|exact (IH _ B1' B2' E3)].
Qed.

(* a byte-valued injective hash gives an injective key *)
Lemma key_inj : forall sha, (forall u, bytes (sha u)) -> (forall u v, sha u = sha v -> u = v) ->
  forall u v, key sha u = key sha v -> u = v.
Proof. intros sha B I u v E. apply I. exact (hex_inj _ _ (B u) (B v) E). Qed.

(* the hypotheses are satisfiable: the bytes of the URL itself *)
Definition sha_bytes (u : string) : list N := map N_of_ascii (list_ascii_of_string u).

Lemma sha_bytes_bytes : forall u, bytes (sha_bytes u).
Proof.
  intros u. unfold sha_bytes, bytes. apply Forall_forall. intros b Hb.
  apply in_map_iff in Hb. destruct Hb as [a [<- _]]. apply N_ascii_bounded.
Qed.

Lemma sha_bytes_inj : forall u v, sha_bytes u = sha_bytes v -> u = v.
Proof.
  intros u v E. unfold sha_bytes in E.
  assert (forall l1 l2 : list ascii, map N_of_ascii l1 = map N_of_ascii l2 -> l1 = l2) as MI.
  { induction l1 as [|a l1 IH]; intros [|b l2] H; cbn in H; try discriminate; [reflexivity|].
    inversion H as [[H1 H2]]. f_equal; [|exact (IH _ H2)].
    rewrite <- (ascii_N_embedding a), <- (ascii_N_embedding b), H1. reflexivity. }
  apply MI in E. rewrite <- (string_of_list_ascii_of_string u), <- (string_of_list_ascii_of_string v), E.
  reflexivity.
Qed.

Section More.
Variable sha : string -> list N.
Notation key := (key sha).
Notation step := (step sha).
Notation exec := (exec sha).

(* C14_read_url: with an injective byte-valued hash, a hit is the complete content
   a writer stored (created and renamed) for exactly the URL read *)
Theorem read_url_thm :
  (forall u, bytes (sha u)) -> (forall u v, sha u = sha v -> u = v) ->
  forall tr s, forallb safe tr = true -> exec init tr = Some s ->
  forall r rr c, getN r (s_r s) = Some rr -> r_st rr = RDone (Hit c) ->
  exists w t, In (ECreate w (r_url rr) c t) tr /\ In (ERename w) tr /\
    exists wr, getN w (s_w s) = Some wr /\ w_url wr = r_url rr /\ w_content wr = c.
Proof.
  intros B I tr s S H r rr c G R.
  destruct (read_thm sha _ _ S H _ _ _ G R) as [_ [Hm|[w [wr [t [Gw [E [K [Ic Ir]]]]]]]]]; [discriminate|].
  inversion E; subst c. pose proof (key_inj sha B I _ _ K) as U.
  exists w, t. rewrite <- U. split; [exact Ic|]. split; [exact Ir|].
  exists wr. auto.
Qed.

(* what is stored for one URL is never read for another one *)
Theorem isolation_thm :
  (forall u, bytes (sha u)) -> (forall u v, sha u = sha v -> u = v) ->
  forall tr s, forallb safe tr = true -> exec init tr = Some s ->
  forall r rr, getN r (s_r s) = Some rr ->
  (forall w c t, ~ In (ECreate w (r_url rr) c t) tr) ->
  forall res, r_st rr = RDone res -> res = Miss.
Proof.
  intros B I tr s S H r rr G No res R. destruct res as [|c]; [reflexivity|].
  destruct (read_url_thm B I _ _ S H _ _ _ G R) as [w [t [Ic _]]]. destruct (No _ _ _ Ic).
Qed.

(* ---------- a read in progress ---------- *)
Lemma firstn_rest : forall (c : data) a, firstn a c ++ firstn (List.length c) (skipn a c) = c.
Proof.
  intros c a. rewrite firstn_plus. apply firstn_all2. lia.
Qed.

(* C14_read_in_progress: at every instant, a reader that has opened an entry holds a
   prefix of the COMPLETE content of the writer whose rename put that inode under the
   key; whatever anybody does afterwards, if the read completes it returns exactly that
   content (the result is fixed at open time); and it can complete at once. *)
Theorem read_in_progress_thm : forall tr s, forallb safe tr = true -> exec init tr = Some s ->
  forall r rr i buf, getN r (s_r s) = Some rr -> r_ino rr = Some i -> r_st rr = RReading buf ->
  exists wr, getN i (s_w s) = Some wr /\ w_pc wr = PDone /\ In (ERename i) tr /\
    key (w_url wr) = key (r_url rr) /\
    buf = firstn (List.length buf) (w_content wr) /\
    (forall tr' s' rr' res, forallb safe tr' = true -> exec s tr' = Some s' ->
       getN r (s_r s') = Some rr' -> r_st rr' = RDone res -> res = Hit (w_content wr)) /\
    (exists s' rr', exec s [ERead r (List.length (w_content wr)); EEof r] = Some s' /\
       getN r (s_r s') = Some rr' /\ r_st rr' = RDone (Hit (w_content wr))).
Proof.
  intros tr s S H r rr i buf G Ri Rs.
  pose proof (exec_inv sha _ _ _ (inv_init sha) S H) as I.
  pose proof (inv_r _ _ I _ _ G) as Rk. unfold rok in Rk. rewrite Ri, Rs in Rk.
  destruct Rk as [wr [D [K P]]].
  destruct (exec_done_origin sha _ _ _ _ _ H (inv_init sha) S D) as [[G0 _]|Hr]; [discriminate G0|].
  exists wr. split; [exact (proj1 D)|]. split; [exact (proj2 D)|]. split; [exact Hr|].
  split; [exact K|]. split; [exact P|]. split.
  - intros tr' s' rr' res S' H' G' R'.
    pose proof (exec_inv sha _ _ _ I S' H') as I'.
    destruct (exec_r_stable sha _ _ _ _ _ H' G) as [rr2 [G2 [U2 I2]]].
    assert (rr2 = rr') by congruence. subst rr2.
    pose proof (inv_r _ _ I' _ _ G') as Rk'. unfold rok in Rk'. rewrite I2, Ri, R' in Rk'.
    destruct Rk' as [wr' [D' [_ C']]].
    pose proof (exec_done sha _ _ _ _ _ H' D) as D2.
    assert (wr' = wr) by (destruct D' as [A _]; destruct D2 as [A2 _]; congruence). subst wr'.
    destruct res as [|c]; [destruct C'|]. congruence.
  - pose proof (done_data sha _ _ _ I D) as Gd.
    destruct rr as [u ino st]. cbn in Ri, Rs. subst ino st.
    eexists. eexists. cbn [C14_Model.exec C14_Model.step]. rewrite G, Gd.
    cbn [C14_Model.exec C14_Model.step s_r s_ino]. rewrite (get_put_eq N.eqb Neqb_spec), Gd.
    assert (buf ++ firstn (List.length (w_content wr)) (skipn (List.length buf) (w_content wr)) = w_content wr) as E.
    { pose proof P as P'. unfold pre in P'. rewrite P' at 1. apply firstn_rest. }
    rewrite E, Nat.leb_refl. split; [reflexivity|]. cbn [s_r].
    rewrite (get_put_eq N.eqb Neqb_spec). split; reflexivity.
Qed.

(* ---------- nobody is ever blocked ---------- *)

(* the steps, as equations *)
Lemma st_create : forall s w u c t, getN w (s_w s) = None -> getS t (s_dir s) = None ->
  getN w (s_ino s) = None -> is_temp t = true ->
  step s (ECreate w u c t) =
    Some (mk_state (putS t w (s_dir s)) (putN w [] (s_ino s)) (putN w (mk_w u c t w POpen false) (s_w s)) (s_r s)).
Proof. intros s w u c t H1 H2 H3 H4. cbn. rewrite H1, H2, H3, H4. reflexivity. Qed.

Lemma st_write : forall s w u c t ino inp d n,
  getN w (s_w s) = Some (mk_w u c t ino POpen inp) -> getN ino (s_ino s) = Some d ->
  step s (EWrite w n) =
    Some (mk_state (s_dir s) (putN ino (d ++ firstn n (skipn (List.length d) c)) (s_ino s)) (s_w s) (s_r s)).
Proof. intros s w u c t ino inp d n H1 H2. cbn. rewrite H1. cbn. rewrite H2. reflexivity. Qed.

Lemma st_close : forall s w u c t ino,
  getN w (s_w s) = Some (mk_w u c t ino POpen false) -> getN ino (s_ino s) = Some c ->
  step s (EClose w) = Some (set_w s w (mk_w u c t ino PClosed false)).
Proof. intros s w u c t ino H1 H2. cbn. rewrite H1. cbn. rewrite H2, Nat.leb_refl. reflexivity. Qed.

Lemma st_rename : forall s w u c t ino i,
  getN w (s_w s) = Some (mk_w u c t ino PClosed false) -> getS t (s_dir s) = Some i ->
  step s (ERename w) =
    Some (mk_state (putS (key u) i (delS t (s_dir s))) (s_ino s) (putN w (mk_w u c t ino PDone false) (s_w s)) (s_r s)).
Proof. intros s w u c t ino i H1 H2. cbn. rewrite H1. cbn. rewrite H2. reflexivity. Qed.

Lemma st_open_hit : forall s r u i, getN r (s_r s) = None -> getS (key u) (s_dir s) = Some i ->
  step s (EOpen r u) = Some (mk_state (s_dir s) (s_ino s) (s_w s) (putN r (mk_r u (Some i) (RReading [])) (s_r s))).
Proof. intros s r u i H1 H2. cbn. rewrite H1, H2. reflexivity. Qed.

Lemma st_read : forall s r u i buf d n, getN r (s_r s) = Some (mk_r u (Some i) (RReading buf)) ->
  getN i (s_ino s) = Some d ->
  step s (ERead r n) = Some (mk_state (s_dir s) (s_ino s) (s_w s)
      (putN r (mk_r u (Some i) (RReading (buf ++ firstn n (skipn (List.length buf) d)))) (s_r s))).
Proof. intros s r u i buf d n H1 H2. cbn. rewrite H1, H2. reflexivity. Qed.

Lemma st_eof : forall s r u i d, getN r (s_r s) = Some (mk_r u (Some i) (RReading d)) ->
  getN i (s_ino s) = Some d ->
  step s (EEof r) = Some (mk_state (s_dir s) (s_ino s) (s_w s) (putN r (mk_r u (Some i) (RDone (Hit d))) (s_r s))).
Proof. intros s r u i d H1 H2. cbn. rewrite H1, H2, Nat.leb_refl. reflexivity. Qed.

Lemma exec_cons : forall s e tr s1, step s e = Some s1 -> exec s (e :: tr) = exec s1 tr.
Proof. intros s e tr s1 H. cbn. rewrite H. reflexivity. Qed.

Ltac gpe := rewrite ?(get_put_eq N.eqb Neqb_spec), ?(get_put_eq String.eqb Seqb_spec).
Ltac sd := cbn [set_w s_w s_ino s_dir s_r]; gpe; try reflexivity.

(* C14_writer_can_finish: at every instant a writer that was not killed and has not
   failed can run to its end whatever the others have done: its remaining steps are
   enabled, and right after them its key denotes its own inode with its complete
   content and its temporary name is gone *)
Definition rest_of (w : N) (wr : wrec) : list event :=
  match w_pc wr with
  | POpen => [EWrite w (List.length (w_content wr)); EClose w; ERename w]
  | _ => [ERename w]
  end.

Theorem writer_can_finish_thm : forall tr s, forallb safe tr = true -> exec init tr = Some s ->
  forall w wr, getN w (s_w s) = Some wr -> (w_pc wr = POpen \/ w_pc wr = PClosed) ->
  exists s', exec s (rest_of w wr) = Some s' /\
    getS (key (w_url wr)) (s_dir s') = Some w /\ getN w (s_ino s') = Some (w_content wr) /\
    getS (w_tmp wr) (s_dir s') = None.
Proof.
  intros tr s S H w wr G Lv.
  pose proof (exec_inv sha _ _ _ (inv_init sha) S H) as I.
  destruct (inv_w _ _ I _ _ G) as [Inp [J [d [Gd [P [F L]]]]]].
  destruct (L Lv) as [T Gt].
  assert (w_tmp wr <> key (w_url wr)) as Nk.
  { intros E. rewrite E, key_not_temp in T. discriminate. }
  destruct wr as [u c t ino pc inp]. cbn in *. subst ino inp.
  unfold rest_of. cbn [w_pc w_content].
  destruct Lv as [-> | ->].
  - (* POpen: write the rest, close, rename *)
    assert (d ++ firstn (List.length c) (skipn (List.length d) c) = c) as E.
    { unfold pre in P. rewrite P at 1. apply firstn_rest. }
    eexists.
    rewrite (exec_cons _ _ _ _ (st_write _ _ _ _ _ _ _ _ _ G Gd)). rewrite E.
    erewrite exec_cons; [|apply (st_close _ w u c t w); cbn [s_w s_ino]; [exact G|gpe; reflexivity]].
    erewrite exec_cons; [|apply (st_rename _ w u c t w w); cbn [set_w s_w s_dir]; [gpe; reflexivity|exact Gt]].
    split; [reflexivity|]. cbn [s_dir s_ino set_w].
    split; [gpe; reflexivity|]. split; [gpe; reflexivity|].
    rewrite (get_put_neq String.eqb Seqb_spec) by exact Nk. apply (get_del_eq String.eqb).
  - (* PClosed: rename *)
    assert (d = c) as -> by (apply F; left; reflexivity).
    eexists.
    erewrite exec_cons; [|apply (st_rename _ w u c t w w); [exact G|exact Gt]].
    split; [reflexivity|]. cbn [s_dir s_ino].
    split; [gpe; reflexivity|]. split; [exact Gd|].
    rewrite (get_put_neq String.eqb Seqb_spec) by exact Nk. apply (get_del_eq String.eqb).
Qed.

(* a new writer can always start (with any unused id and any unused temporary name) and
   a new reader can always open *)
Theorem can_start_thm : forall s w u c t r,
  getN w (s_w s) = None -> getN w (s_ino s) = None -> getS t (s_dir s) = None -> is_temp t = true ->
  getN r (s_r s) = None ->
  (exists s', step s (ECreate w u c t) = Some s') /\ (exists s', step s (EOpen r u) = Some s').
Proof.
  intros s w u c t r Gw Gi Gt T Gr. split; eexists; cbn [C14_Model.step].
  - rewrite Gw, Gt, Gi, T. reflexivity.
  - rewrite Gr. reflexivity.
Qed.

(* C14_set_then_get: the functional reading.  In ANY state, a complete Set of
   content c for URL u by a new writer followed by a complete Get of u by a new reader
   (nobody else moving in between) returns exactly c. *)
Theorem set_then_get_thm : forall s w u c t r,
  getN w (s_w s) = None -> getN w (s_ino s) = None -> getS t (s_dir s) = None -> is_temp t = true ->
  getN r (s_r s) = None ->
  exists s' rr, exec s [ECreate w u c t; EWrite w (List.length c); EClose w; ERename w;
                        EOpen r u; ERead r (List.length c); EEof r] = Some s' /\
    getN r (s_r s') = Some rr /\ r_st rr = RDone (Hit c).
Proof.
  intros s w u c t r Gw Gi Gt T Gr.
  eexists. eexists.
  rewrite (exec_cons _ _ _ _ (st_create _ _ u c _ Gw Gt Gi T)).
  erewrite exec_cons; [|apply (st_write _ w u c t w false []); sd].
  cbn [List.length skipn app]. rewrite firstn_all.
  erewrite exec_cons; [|apply (st_close _ w u c t w); sd].
  erewrite exec_cons; [|apply (st_rename _ w u c t w w); sd].
  erewrite exec_cons; [|apply (st_open_hit _ r u w); sd; exact Gr].
  erewrite exec_cons; [|apply (st_read _ r u w [] c); sd].
  cbn [List.length skipn app]. rewrite firstn_all.
  erewrite exec_cons; [|apply (st_eof _ r u w c); sd].
  split; [reflexivity|]. sd. split; reflexivity.
Qed.

End More.
