(* C19_Proofs.v — proofs about C19_Model: the store invariant, the listing as
   a filter of the ledger of stored contents, isolation, refusals, the
   round trip of a pushed signature, order independence of the listing loop,
   and the model meets the property oracle. No axioms. *)
From Coq Require Import Permutation.
From NV Require Import Base Generated C19_Model.
Open Scope list_scope.
Open Scope N_scope.

(* ---------- equalities ---------- *)
Lemma desc_eqb_eq : forall a b, desc_eqb a b = true <-> a = b.
Proof.
  intros [m1 g1 s1] [m2 g2 s2]. unfold desc_eqb; cbn.
  rewrite !andb_true_iff, Z.eqb_eq, !N.eqb_eq. split.
  - intros [[-> ->] ->]. reflexivity.
  - intros H. inversion H. auto.
Qed.

Lemma desc_eqb_refl : forall a, desc_eqb a a = true.
Proof. intros a. apply desc_eqb_eq. reflexivity. Qed.

Lemma desc_eqb_sym : forall a b, desc_eqb a b = desc_eqb b a.
Proof.
  intros a b. destruct (desc_eqb a b) eqn:E1, (desc_eqb b a) eqn:E2; auto.
  - apply desc_eqb_eq in E1. subst. rewrite desc_eqb_refl in E2. discriminate.
  - apply desc_eqb_eq in E2. subst. rewrite desc_eqb_refl in E1. discriminate.
Qed.

Lemma ann_eqb_refl : forall a, ann_eqb a a = true.
Proof.
  induction a as [|[k v] a IH]; cbn; auto. rewrite !N.eqb_refl. exact IH.
Qed.

Lemma list_eqb_N_refl : forall l, list_eqb N.eqb l l = true.
Proof. induction l; cbn; auto. rewrite N.eqb_refl. exact IHl. Qed.

Lemma item_eqb_refl : forall i, item_eqb i i = true.
Proof.
  intros [d a n]. unfold item_eqb; cbn. now rewrite desc_eqb_refl, N.eqb_refl, ann_eqb_refl.
Qed.

Lemma perm_eqb_refl {A} (eqb : A -> A -> bool) :
  (forall x, eqb x x = true) -> forall l, perm_eqb eqb l l = true.
Proof. intros R. induction l; cbn; auto. rewrite R. exact IHl. Qed.

(* ---------- the store invariant ---------- *)
Definition dg_of (e : entry) : N := d_dg (e_d e).

Definition entry_ok (e : entry) : Prop :=
  d_sz (e_d e) = c_sz (e_c e) /\ (0 <= c_sz (e_c e))%Z /\
  e_succ e = successors (d_mt (e_d e)) (e_c e).

Definition Inv (st : state) : Prop :=
  NoDup (map dg_of st) /\ Forall entry_ok st.

Lemma Inv_nil : Inv [].
Proof. split; constructor. Qed.

Lemma lookup_none_notin : forall st g, lookup_dg st g = None -> ~ In g (map dg_of st).
Proof.
  intros st g H Hin. apply in_map_iff in Hin as (e & He & Hi).
  unfold lookup_dg in H. pose proof (find_none _ _ H e Hi) as F. cbn in F.
  unfold dg_of in He. rewrite He, N.eqb_refl in F. discriminate.
Qed.

Lemma lookup_in : forall st e, NoDup (map dg_of st) -> In e st -> lookup_dg st (dg_of e) = Some e.
Proof.
  induction st as [|x st IH]; intros e ND Hin; [destruct Hin|].
  inversion ND as [|? ? Hn ND']; subst. unfold lookup_dg; cbn.
  destruct Hin as [->|Hin].
  - unfold dg_of. now rewrite N.eqb_refl.
  - destruct (d_dg (e_d x) =? dg_of e) eqn:E.
    + apply N.eqb_eq in E. exfalso. apply Hn. apply in_map_iff. exists e. split; auto.
    + apply IH; auto.
Qed.

Lemma lookup_some_in : forall st g e, lookup_dg st g = Some e -> In e st /\ dg_of e = g.
Proof.
  intros st g e H. apply find_some in H as [Hi He]. split; auto. now apply N.eqb_eq in He.
Qed.

Lemma fetch_all_entry : forall st e, Inv st -> In e st -> fetch_all st (e_d e) = Some (e_c e).
Proof.
  intros st e [ND FA] Hin. unfold fetch_all.
  change (d_dg (e_d e)) with (dg_of e). rewrite (lookup_in st e ND Hin).
  rewrite Forall_forall in FA. destruct (FA e Hin) as (Hs & H0 & _).
  rewrite Hs, Z.eqb_refl. apply Z.leb_le in H0. now rewrite H0.
Qed.

Lemma fetch_all_some : forall st d c, fetch_all st d = Some c ->
  exists e, In e st /\ dg_of e = d_dg d /\ e_c e = c /\ d_sz d = c_sz c /\ (0 <= d_sz d)%Z.
Proof.
  intros st d c H. unfold fetch_all in H. destruct (lookup_dg st (d_dg d)) as [e|] eqn:L; [|discriminate].
  apply lookup_some_in in L as [Hi Hg].
  destruct ((0 <=? d_sz d)%Z && (d_sz d =? c_sz (e_c e))%Z) eqn:B; [|discriminate].
  apply andb_true_iff in B as [B1 B2]. apply Z.leb_le in B1. apply Z.eqb_eq in B2.
  inversion H; subst. exists e. auto.
Qed.

(* ---------- push1 ---------- *)
Lemma push1_spec : forall st d c,
  (lookup_dg st (d_dg d) <> None /\ push1 st d c = (st, PExists)) \/
  (lookup_dg st (d_dg d) = None /\ d_sz d <> c_sz c /\ push1 st d c = (st, PMismatch)) \/
  (lookup_dg st (d_dg d) = None /\ d_sz d = c_sz c /\ successors (d_mt d) c = None /\
   push1 st d c = (mk_entry d c :: st, PBadJSON)) \/
  (lookup_dg st (d_dg d) = None /\ d_sz d = c_sz c /\ successors (d_mt d) c <> None /\
   push1 st d c = (mk_entry d c :: st, POk)).
Proof.
  intros st d c. unfold push1, mk_entry.
  destruct (lookup_dg st (d_dg d)) eqn:L.
  - left. split; [discriminate|reflexivity].
  - right. destruct (d_sz d =? c_sz c)%Z eqn:S; cbn.
    + apply Z.eqb_eq in S. right.
      destruct (successors (d_mt d) c) eqn:U.
      * right. repeat split; auto. discriminate.
      * left. repeat split; auto.
    + apply Z.eqb_neq in S. left. repeat split; auto.
Qed.

Lemma Inv_cons : forall st d c,
  Inv st -> lookup_dg st (d_dg d) = None -> d_sz d = c_sz c -> (0 <= c_sz c)%Z ->
  Inv (mk_entry d c :: st).
Proof.
  intros st d c [ND FA] L S P. split; cbn.
  - constructor; auto. apply lookup_none_notin. exact L.
  - constructor; auto. unfold entry_ok, mk_entry; cbn. auto.
Qed.

Lemma push1_inv : forall st d c, Inv st -> (0 <= c_sz c)%Z -> Inv (fst (push1 st d c)).
Proof.
  intros st d c I P.
  destruct (push1_spec st d c) as [(_ & ->)|[(_ & _ & ->)|[(L & S & _ & ->)|(L & S & _ & ->)]]]; cbn; auto;
    apply Inv_cons; auto.
Qed.

Lemma push1_ext : forall st d c, exists l, fst (push1 st d c) = l ++ st /\
  (l = [] \/ l = [mk_entry d c]).
Proof.
  intros st d c.
  destruct (push1_spec st d c) as [(_ & ->)|[(_ & _ & ->)|[(L & S & _ & ->)|(L & S & _ & ->)]]]; cbn.
  - exists []. auto.
  - exists []. auto.
  - exists [mk_entry d c]. auto.
  - exists [mk_entry d c]. auto.
Qed.

Lemma successors_none_graph : forall mt c, successors mt c = None -> is_graph_mt mt = true.
Proof.
  intros mt c. unfold successors, is_graph_mt.
  destruct (mt =? MT_DMAN) eqn:E1; [intros _; now rewrite !orb_true_r|].
  destruct (mt =? MT_IMAGE) eqn:E2; [intros _; reflexivity|].
  destruct (mt =? MT_DLIST) eqn:E3; [intros _; now rewrite !orb_true_r|].
  destruct (mt =? MT_INDEX) eqn:E4; [intros _; now rewrite !orb_true_r|].
  destruct (mt =? MT_ARTIFACT) eqn:E5; [intros _; now rewrite !orb_true_r|].
  discriminate.
Qed.

(* ---------- views ---------- *)
Lemma sigmt_cases : forall mt, is_sigmt mt = true -> mt = MT_ARTIFACT \/ mt = MT_IMAGE.
Proof.
  intros mt H. unfold is_sigmt in H. apply orb_true_iff in H as [H|H]; apply N.eqb_eq in H; auto.
Qed.

(* an indexed entry under a manifest media type parses, and its subject is
   among its successors *)
Lemma indexed_parsed : forall e ss, entry_ok e -> e_succ e = Some ss -> is_sigmt (d_mt (e_d e)) = true ->
  parsed (d_mt (e_d e)) (e_c e) = true /\
  (forall s, m_subject (c_m (e_c e)) = Some s -> In s ss).
Proof.
  intros e ss (_ & _ & Hs) He Hm. rewrite He in Hs. symmetry in Hs.
  apply sigmt_cases in Hm as [Hm|Hm]; rewrite Hm in *; unfold successors, parsed in *; cbn in *.
  - destruct (c_art (e_c e)); [|discriminate]. split; auto. intros s Hsub.
    inversion Hs; subst. rewrite Hsub. cbn. auto.
  - destruct (c_img (e_c e)); [|discriminate]. split; auto. intros s Hsub.
    inversion Hs; subst. rewrite Hsub. cbn. auto.
Qed.

Lemma sig_entry_refers : forall q e, entry_ok e -> sig_entry_for q e = true -> refers q e = true.
Proof.
  intros q e Hok H. unfold sig_entry_for in H. unfold refers.
  destruct (e_succ e) as [ss|] eqn:He; [|discriminate].
  apply andb_true_iff in H as [H Ha]. apply andb_true_iff in H as [H Hs].
  apply andb_true_iff in H as [Hm Hp].
  destruct (m_subject (c_m (e_c e))) as [s|] eqn:Hsub; [|discriminate].
  apply desc_eqb_eq in Hs. subst s.
  destruct (indexed_parsed e ss Hok He Hm) as [_ Hin].
  apply existsb_exists. exists q. split; [apply Hin; exact Hsub|apply desc_eqb_refl].
Qed.

(* ---------- one visit of the listing loop on a stored entry ---------- *)
Lemma visit_entry : forall st q e, Inv st -> In e st -> refers q e = true ->
  visit st q (e_d e) =
  if is_sigmt (d_mt (e_d e)) then
    if (capM <? d_sz (e_d e))%Z then (VErr 1, [])
    else ((if sig_entry_for q e then VKeep (item_of e) else VSkip), [dg_of e])
  else (VSkip, []).
Proof.
  intros st q e I Hin Hr. unfold visit.
  destruct (is_sigmt (d_mt (e_d e))) eqn:Hm; [|reflexivity].
  destruct (capM <? d_sz (e_d e))%Z; [reflexivity|].
  rewrite (fetch_all_entry st e I Hin).
  destruct I as [_ FA]. rewrite Forall_forall in FA. pose proof (FA e Hin) as Hok.
  unfold refers in Hr. destruct (e_succ e) as [ss|] eqn:He; [|discriminate].
  destruct (indexed_parsed e ss Hok He Hm) as [Hp _].
  rewrite Hp; cbn. unfold sig_entry_for, item_of, dg_of. rewrite He, Hm, Hp; cbn.
  destruct (m_subject (c_m (e_c e))) as [s|]; [|reflexivity].
  destruct (desc_eqb s q); cbn; [|reflexivity].
  destruct (atype_of (d_mt (e_d e)) (e_c e) =? MT_NOTATION); reflexivity.
Qed.

(* ---------- the listing is the filter of the ledger ---------- *)
Lemma expected_cons : forall e l q,
  expected (e :: l) q = (if sig_entry_for q e then [item_of e] else []) ++ expected l q.
Proof. intros. unfold expected; cbn. destruct (sig_entry_for q e); reflexivity. Qed.

Lemma ocaps : ocapM = capM /\ ocapB = capB.
Proof. split; reflexivity. Qed.

Lemma oversize_ref_cap : forall q e,
  oversize_ref q e = is_sigmt (d_mt (e_d e)) && refers q e && (capM <? d_sz (e_d e))%Z.
Proof. intros. unfold oversize_ref. now rewrite (proj1 ocaps). Qed.

Lemma list_loop_spec : forall st q, Inv st -> forall l, incl l st ->
  fst (list_loop st q (map e_d (filter (refers q) l))) =
  if existsb (oversize_ref q) l then LErr 1 else LOk (expected l q).
Proof.
  intros st q I. induction l as [|e l IH]; intros Hincl; [reflexivity|].
  assert (Hin : In e st) by (apply Hincl; left; reflexivity).
  assert (Hl : incl l st) by (intros x Hx; apply Hincl; right; exact Hx).
  specialize (IH Hl). rewrite expected_cons. cbn [filter existsb].
  assert (Hok : entry_ok e) by (destruct I as [_ FA]; rewrite Forall_forall in FA; auto).
  destruct (refers q e) eqn:Hr.
  - cbn [map list_loop]. rewrite (visit_entry st q e I Hin Hr).
    rewrite oversize_ref_cap. rewrite Hr.
    destruct (is_sigmt (d_mt (e_d e))) eqn:Hm; cbn [andb orb].
    + destruct (capM <? d_sz (e_d e))%Z eqn:Hc; cbn [andb orb]; [reflexivity|].
      destruct (sig_entry_for q e) eqn:Hs.
      * destruct (list_loop st q (map e_d (filter (refers q) l))) as [r lg] eqn:LL. cbn in IH. subst r.
        destruct (existsb (oversize_ref q) l); reflexivity.
      * destruct (list_loop st q (map e_d (filter (refers q) l))) as [r lg] eqn:LL. cbn in IH. subst r.
        destruct (existsb (oversize_ref q) l); reflexivity.
    + assert (Hs : sig_entry_for q e = false).
      { unfold sig_entry_for. destruct (e_succ e); auto. now rewrite Hm. }
      rewrite Hs.
      destruct (list_loop st q (map e_d (filter (refers q) l))) as [r lg] eqn:LL. cbn in IH. subst r.
      destruct (existsb (oversize_ref q) l); reflexivity.
  - assert (Hs : sig_entry_for q e = false).
    { destruct (sig_entry_for q e) eqn:Hs; auto. rewrite (sig_entry_refers q e Hok Hs) in Hr. discriminate. }
    rewrite Hs. rewrite oversize_ref_cap. rewrite Hr, andb_false_r. cbn [andb orb app]. exact IH.
Qed.

(* every digest handed to Fetch by a listing is that of a stored manifest
   within the manifest cap *)
Lemma list_loop_log : forall st q, Inv st -> forall l, incl l st ->
  Forall (fun g => exists e, In e l /\ dg_of e = g /\ (d_sz (e_d e) <= capM)%Z)
         (snd (list_loop st q (map e_d (filter (refers q) l)))).
Proof.
  intros st q I. induction l as [|e l IH]; intros Hincl; [constructor|].
  assert (Hin : In e st) by (apply Hincl; left; reflexivity).
  assert (Hl : incl l st) by (intros x Hx; apply Hincl; right; exact Hx).
  specialize (IH Hl).
  assert (IH' : Forall (fun g => exists e0, In e0 (e :: l) /\ dg_of e0 = g /\ (d_sz (e_d e0) <= capM)%Z)
                       (snd (list_loop st q (map e_d (filter (refers q) l))))).
  { eapply Forall_impl; [|exact IH]. intros g (e0 & H1 & H2). exists e0. split; [right; auto|auto]. }
  cbn [filter]. destruct (refers q e) eqn:Hr; [|exact IH'].
  cbn [map list_loop]. rewrite (visit_entry st q e I Hin Hr).
  destruct (is_sigmt (d_mt (e_d e))) eqn:Hm.
  - destruct (capM <? d_sz (e_d e))%Z eqn:Hc; [constructor|].
    apply Z.ltb_ge in Hc.
    assert (Hhd : exists e0, In e0 (e :: l) /\ dg_of e0 = dg_of e /\ (d_sz (e_d e0) <= capM)%Z)
      by (exists e; split; [left; auto|auto]).
    destruct (sig_entry_for q e);
      destruct (list_loop st q (map e_d (filter (refers q) l))) as [[its|er] lg]; cbn in *;
      constructor; auto.
  - destruct (list_loop st q (map e_d (filter (refers q) l))) as [r lg]; cbn in *. exact IH'.
Qed.

Lemma list_sigs_spec : forall st q, Inv st ->
  fst (list_sigs st q) = if existsb (oversize_ref q) st then LErr 1 else LOk (expected st q).
Proof. intros st q I. unfold list_sigs, predecessors. apply list_loop_spec; auto. apply incl_refl. Qed.

Lemma list_sigs_log : forall st q, Inv st ->
  Forall (fun g => exists e, In e st /\ dg_of e = g /\ (d_sz (e_d e) <= capM)%Z) (snd (list_sigs st q)).
Proof. intros st q I. unfold list_sigs, predecessors. apply list_loop_log; auto. apply incl_refl. Qed.

(* ---------- steps: invariant, growth, agreement with the reference ---------- *)
Lemma log_ok_of : forall st lg, Inv st ->
  Forall (fun g => exists e, In e st /\ dg_of e = g /\ (d_sz (e_d e) <= capM)%Z) lg ->
  log_ok st lg = true.
Proof.
  intros st lg [ND _] H. unfold log_ok. apply forallb_forall. intros g Hg.
  rewrite Forall_forall in H. destruct (H g Hg) as (e & Hi & He & Hs). subst g.
  rewrite (lookup_in st e ND Hi). rewrite (proj1 ocaps). now apply Z.leb_le.
Qed.

Lemma cfg_push : forall st, lookup_dg st DG_EMPTY = None ->
  push1 st cfg_desc cfg_content = (mk_entry cfg_desc cfg_content :: st, POk).
Proof. intros st H. unfold push1. cbn [d_dg cfg_desc]. rewrite H. reflexivity. Qed.

Lemma add_absent_none : forall st e, lookup_dg st (dg_of e) = None -> add_absent st e = e :: st.
Proof. intros st e H. unfold add_absent. unfold dg_of in H. now rewrite H. Qed.

Lemma add_absent_some : forall st e, lookup_dg st (dg_of e) <> None -> add_absent st e = st.
Proof. intros st e H. unfold add_absent. unfold dg_of in H. destruct (lookup_dg st (d_dg (e_d e))); congruence. Qed.

Lemma created_ok_ensure : forall pa now v a, ensure_created pa now v = Some a -> created_ok pa a = true.
Proof.
  intros pa now v a H. unfold ensure_created in H. unfold created_ok.
  destruct (has_key K_CREATED pa).
  - destruct v; inversion H; subst. apply ann_eqb_refl.
  - inversion H; subst. cbn. apply ann_eqb_refl.
Qed.

Lemma ensure_none : forall pa now v, ensure_created pa now v = None ->
  has_key K_CREATED pa && negb v = true.
Proof.
  intros pa now v H. unfold ensure_created in H. destruct (has_key K_CREATED pa); [|discriminate].
  destruct v; [discriminate|reflexivity].
Qed.

Definition grows (st st1 : state) : Prop := exists l, st1 = l ++ st.

Lemma grows_refl : forall st, grows st st.
Proof. intros st. exists []. reflexivity. Qed.

Lemma grows_trans : forall a b c, grows a b -> grows b c -> grows a c.
Proof. intros a b c [l1 ->] [l2 ->]. exists (l2 ++ l1). now rewrite app_assoc. Qed.

Lemma grows_cons : forall st e, grows st (e :: st).
Proof. intros st e. exists [e]. reflexivity. Qed.

Lemma push_sig_sim : forall st p, Inv st -> wf_op (OpPush p) = true ->
  rcheck st (OpPush p) (snd (push_sig st p)) = true /\
  radv st (OpPush p) (snd (push_sig st p)) = fst (push_sig st p) /\
  Inv (fst (push_sig st p)) /\ grows st (fst (push_sig st p)).
Proof.
  intros st p I W. cbn in W. apply andb_true_iff in W as [W1 W2].
  apply Z.leb_le in W1. apply Z.leb_le in W2.
  unfold push_sig.
  destruct (push1_spec st (blob_desc p) (p_bc p)) as [(L & ->)|[(_ & S & _)|[(L & S & U & ->)|(L & S & U & ->)]]].
  - (* envelope already stored *)
    change (d_dg (blob_desc p)) with (p_bdg p) in L.
    cbn [fst snd pres_code]. split; [|split; [reflexivity|split; [exact I|apply grows_refl]]].
    cbn. destruct (lookup_dg st (p_bdg p)); [reflexivity|congruence].
  - exfalso. apply S. reflexivity.
  - (* envelope pushed under a manifest media type that does not parse *)
    cbn [fst snd pres_code]. split; [|split; [|split]].
    + cbn. apply successors_none_graph in U. cbn [d_mt blob_desc] in U.
      destruct (p_mt p =? MT_NONE) eqn:E; [discriminate U|]. rewrite U. now rewrite orb_true_r.
    + change (radv st (OpPush p) (RPush 3 d0 d0 [])) with (add_absent st (mk_entry (blob_desc p) (p_bc p))).
      apply add_absent_none. exact L.
    + apply Inv_cons; auto.
    + apply grows_cons.
  - (* envelope stored *)
    set (st1 := mk_entry (blob_desc p) (p_bc p) :: st).
    assert (I1 : Inv st1) by (apply Inv_cons; auto).
    assert (TAIL : forall st2, st2 = add_absent st1 (mk_entry cfg_desc cfg_content) -> Inv st2 -> grows st1 st2 ->
      let res := match ensure_created (p_ann p) (p_now p) (p_cvalid p) with
           | Some a' =>
               let (st3, r3) := push1 st2 (man_desc p) (man_content (p_msz p) (p_subj p) (blob_desc p) a') in
               match r3 with
               | POk | PExists => (st3, RPush 0 (blob_desc p) (man_desc p) a')
               | _ => (st3, RPush (pres_code r3) d0 d0 [])
               end
           | None => (st2, RPush 4 d0 d0 [])
           end in
      rcheck st (OpPush p) (snd res) = true /\ radv st (OpPush p) (snd res) = fst res /\
      Inv (fst res) /\ grows st (fst res)).
    { intros st2 E2 I2 G2.
      destruct (ensure_created (p_ann p) (p_now p) (p_cvalid p)) as [a'|] eqn:EC.
      + destruct (push1_spec st2 (man_desc p) (man_content (p_msz p) (p_subj p) (blob_desc p) a'))
          as [(LM & ->)|[(_ & SM & _)|[(_ & _ & UM & _)|(LM & SM & UM & ->)]]].
        * (* manifest already there *)
          cbn [fst snd]. split; [|split; [|split]].
          -- cbn. rewrite !desc_eqb_refl. cbn. eapply created_ok_ensure; eauto.
          -- change (radv st (OpPush p) (RPush 0 (blob_desc p) (man_desc p) a')) with
               (add_absent (add_absent (add_absent st (mk_entry (blob_desc p) (p_bc p))) (mk_entry cfg_desc cfg_content))
                  (mk_entry (man_desc p) (man_content (p_msz p) (p_subj p) (blob_desc p) a'))).
             rewrite (add_absent_none st (mk_entry (blob_desc p) (p_bc p)) L). fold st1. rewrite <- E2.
             apply add_absent_some. exact LM.
          -- exact I2.
          -- eapply grows_trans; [apply grows_cons|exact G2].
        * exfalso. apply SM. reflexivity.
        * discriminate UM.
        * cbn [fst snd]. split; [|split; [|split]].
          -- cbn. rewrite !desc_eqb_refl. cbn. eapply created_ok_ensure; eauto.
          -- change (radv st (OpPush p) (RPush 0 (blob_desc p) (man_desc p) a')) with
               (add_absent (add_absent (add_absent st (mk_entry (blob_desc p) (p_bc p))) (mk_entry cfg_desc cfg_content))
                  (mk_entry (man_desc p) (man_content (p_msz p) (p_subj p) (blob_desc p) a'))).
             rewrite (add_absent_none st (mk_entry (blob_desc p) (p_bc p)) L). fold st1. rewrite <- E2.
             apply add_absent_none. exact LM.
          -- apply Inv_cons; auto.
          -- eapply grows_trans; [apply grows_cons|]. eapply grows_trans; [exact G2|apply grows_cons].
      + cbn [fst snd]. split; [|split; [|split]].
        * cbn. rewrite (ensure_none _ _ _ EC). now rewrite orb_true_r.
        * change (radv st (OpPush p) (RPush 4 d0 d0 [])) with
            (add_absent (add_absent st (mk_entry (blob_desc p) (p_bc p))) (mk_entry cfg_desc cfg_content)).
          rewrite (add_absent_none st (mk_entry (blob_desc p) (p_bc p)) L). fold st1. now rewrite <- E2.
        * exact I2.
        * eapply grows_trans; [apply grows_cons|exact G2]. }
    destruct (lookup_dg st1 DG_EMPTY) eqn:LC.
    + apply (TAIL st1); [|exact I1|apply grows_refl].
      symmetry. apply add_absent_some.
      change (dg_of (mk_entry cfg_desc cfg_content)) with DG_EMPTY. rewrite LC. discriminate.
    + rewrite (cfg_push st1 LC).
      apply (TAIL (mk_entry cfg_desc cfg_content :: st1)).
      * symmetry; apply add_absent_none; exact LC.
      * apply Inv_cons; auto; cbn; lia.
      * apply grows_cons.
Qed.

Lemma raw_sim : forall st d c, Inv st -> wf_op (OpRaw d c) = true ->
  rcheck st (OpRaw d c) (snd (step st (OpRaw d c))) = true /\
  radv st (OpRaw d c) (snd (step st (OpRaw d c))) = fst (step st (OpRaw d c)) /\
  Inv (fst (step st (OpRaw d c))) /\ grows st (fst (step st (OpRaw d c))).
Proof.
  intros st d c I W. cbn in W. apply Z.leb_le in W. cbn [step].
  destruct (push1_spec st d c) as [(L & ->)|[(L & S & ->)|[(L & S & U & ->)|(L & S & U & ->)]]];
    cbn [fst snd pres_code].
  - split; [reflexivity|split; [reflexivity|split; [exact I|apply grows_refl]]].
  - split; [reflexivity|split; [reflexivity|split; [exact I|apply grows_refl]]].
  - split; [reflexivity|]. split; [|split; [apply Inv_cons; auto|apply grows_cons]].
    change (radv st (OpRaw d c) (RRaw 3)) with (add_absent st (mk_entry d c)).
    apply add_absent_none. exact L.
  - split; [reflexivity|]. split; [|split; [apply Inv_cons; auto|apply grows_cons]].
    change (radv st (OpRaw d c) (RRaw 0)) with (add_absent st (mk_entry d c)).
    apply add_absent_none. exact L.
Qed.

Lemma list_sim : forall st q, Inv st -> rcheck st (OpList q) (snd (step st (OpList q))) = true.
Proof.
  intros st q I. cbn [step].
  pose proof (list_sigs_spec st q I) as HS. pose proof (list_sigs_log st q I) as HL.
  destruct (list_sigs st q) as [r lg]. cbn [fst snd] in *.
  destruct (existsb (oversize_ref q) st) eqn:O; subst r; cbn [snd rcheck].
  - rewrite (log_ok_of st lg I HL), O. reflexivity.
  - rewrite (log_ok_of st lg I HL), O. cbn. apply perm_eqb_refl. apply item_eqb_refl.
Qed.

Local Opaque capM capB.
Local Arguments Z.ltb : simpl never.
Local Arguments Z.leb : simpl never.
Local Arguments N.eqb : simpl never.

Lemma fetch_sim : forall st d, rcheck st (OpFetch d) (snd (step st (OpFetch d))) = true.
Proof.
  intros st d. cbn [step]. unfold fetch_sig.
  assert (R : forall e b bd lg, rcheck st (OpFetch d) (RFetch e b bd lg) =
     if negb (is_sigmt (d_mt d)) || (capM <? d_sz d)%Z then negb (e =? 0) && list_eqb N.eqb lg []
     else match fetch_all st d with
          | None => negb (e =? 0) && list_eqb N.eqb lg [d_dg d]
          | Some c =>
              if negb (parsed (d_mt d) c) then negb (e =? 0) && list_eqb N.eqb lg [d_dg d]
              else match blobs_of (d_mt d) c with
                   | [x] =>
                       if (capB <? d_sz x)%Z then negb (e =? 0) && list_eqb N.eqb lg [d_dg d]
                       else match fetch_all st x with
                            | None => negb (e =? 0) && list_eqb N.eqb lg [d_dg d; d_dg x]
                            | Some _ => (e =? 0) && (b =? d_dg x) && desc_eqb bd x &&
                                        list_eqb N.eqb lg [d_dg d; d_dg x]
                            end
                   | _ => negb (e =? 0) && list_eqb N.eqb lg [d_dg d]
                   end
          end).
  { intros. unfold rcheck. now rewrite (proj1 ocaps), (proj2 ocaps). }
  destruct (is_sigmt (d_mt d)) eqn:M; cbn [negb]; [|cbn [snd]; rewrite R; rewrite ?M; reflexivity].
  destruct (capM <? d_sz d)%Z eqn:Cm; [cbn [snd]; rewrite R; rewrite ?M, ?Cm; reflexivity|].
  destruct (fetch_all st d) as [c|] eqn:F; [|cbn [snd]; rewrite R; rewrite ?M, ?Cm, ?F; cbn; now rewrite N.eqb_refl].
  destruct (parsed (d_mt d) c) eqn:Pc; cbn [negb]; [|cbn [snd]; rewrite R; rewrite ?M, ?Cm, ?F, ?Pc; cbn; now rewrite N.eqb_refl].
  destruct (blobs_of (d_mt d) c) as [|b [|b2 bs]] eqn:Bl.
  - cbn [snd]. rewrite R; rewrite ?M, ?Cm, ?F, ?Pc, ?Bl. cbn. now rewrite N.eqb_refl.
  - destruct (capB <? d_sz b)%Z eqn:Cb; [cbn [snd]; rewrite R; rewrite ?M, ?Cm, ?F, ?Pc, ?Bl, ?Cb; cbn; now rewrite N.eqb_refl|].
    destruct (fetch_all st b) as [cb|] eqn:Fb; cbn [snd]; rewrite R; rewrite ?M, ?Cm, ?F, ?Pc, ?Bl, ?Cb, ?Fb; cbn;
      rewrite ?N.eqb_refl, ?desc_eqb_refl; reflexivity.
  - cbn [snd]. rewrite R; rewrite ?M, ?Cm, ?F, ?Pc, ?Bl. cbn. now rewrite N.eqb_refl.
Qed.

Lemma step_sim : forall st o, Inv st -> wf_op o = true ->
  rcheck st o (snd (step st o)) = true /\ radv st o (snd (step st o)) = fst (step st o) /\
  Inv (fst (step st o)) /\ grows st (fst (step st o)).
Proof.
  intros st o I W. destruct o as [p|d c|q|d].
  - apply push_sig_sim; auto.
  - apply raw_sim; auto.
  - split; [apply list_sim; auto|]. cbn [step].
    destruct (list_sigs st q) as [[its|e] lg]; cbn [fst snd radv];
      (split; [reflexivity|split; [exact I|apply grows_refl]]).
  - split; [apply fetch_sim|]. cbn [step].
    destruct (fetch_sig st d) as [[b bd|e] lg]; cbn [fst snd radv];
      (split; [reflexivity|split; [exact I|apply grows_refl]]).
Qed.

Lemma run_ops_cons : forall st o ops,
  run_ops st (o :: ops) =
  (fst (run_ops (fst (step st o)) ops), snd (step st o) :: snd (run_ops (fst (step st o)) ops)).
Proof.
  intros. cbn [run_ops]. destruct (step st o) as [st1 r]. cbn [fst snd].
  destruct (run_ops st1 ops) as [st2 rs]. reflexivity.
Qed.

Lemma orc_run : forall ops st, Inv st -> forallb wf_op ops = true ->
  orc st ops (snd (run_ops st ops)) = true.
Proof.
  induction ops as [|o ops IH]; intros st I W; [reflexivity|].
  cbn [forallb] in W. apply andb_true_iff in W as [W1 W2].
  rewrite run_ops_cons. cbn [snd orc].
  destruct (step_sim st o I W1) as (H1 & H2 & H3 & _).
  rewrite H1, H2. cbn [andb]. apply IH; auto.
Qed.

(* the ledger part of the oracle (everything but the owed listings); the whole
   oracle: C19_Audit.model_meets_oracle *)
Theorem model_meets_ledger : forall i, wf i = true -> orc [] (i_ops i) (model i) = true.
Proof. intros i W. unfold model. apply orc_run; [apply Inv_nil|exact W]. Qed.

(* reachable stores *)
Definition state_after (ops : list op) : state := fst (run_ops [] ops).

Lemma run_inv : forall ops st, Inv st -> forallb wf_op ops = true ->
  Inv (fst (run_ops st ops)) /\ grows st (fst (run_ops st ops)).
Proof.
  induction ops as [|o ops IH]; intros st I W; [split; [exact I|apply grows_refl]|].
  cbn [forallb] in W. apply andb_true_iff in W as [W1 W2].
  rewrite run_ops_cons. cbn [fst].
  destruct (step_sim st o I W1) as (_ & _ & H3 & H4).
  destruct (IH _ H3 W2) as [A B]. split; auto. eapply grows_trans; eauto.
Qed.

Lemma state_after_inv : forall ops, forallb wf_op ops = true -> Inv (state_after ops).
Proof. intros ops W. apply (run_inv ops [] Inv_nil W). Qed.

Lemma run_ops_app : forall a b st,
  fst (run_ops st (a ++ b)) = fst (run_ops (fst (run_ops st a)) b).
Proof.
  induction a as [|o a IH]; intros b st; [reflexivity|].
  cbn [app]. rewrite !run_ops_cons. cbn [fst]. apply IH.
Qed.

(* ---------- what a push does, case by case ---------- *)
Definition env_entry (p : push) : entry := mk_entry (blob_desc p) (p_bc p).
Definition cfg_entry : entry := mk_entry cfg_desc cfg_content.
Definition man_entry (p : push) (a : ann) : entry :=
  mk_entry (man_desc p) (man_content (p_msz p) (p_subj p) (blob_desc p) a).

Lemma push_sig_cases : forall st p,
  let st2 := add_absent (env_entry p :: st) cfg_entry in
  (lookup_dg st (p_bdg p) <> None /\ push_sig st p = (st, RPush 1 d0 d0 [])) \/
  (lookup_dg st (p_bdg p) = None /\ successors (d_mt (blob_desc p)) (p_bc p) = None /\
   push_sig st p = (env_entry p :: st, RPush 3 d0 d0 [])) \/
  (lookup_dg st (p_bdg p) = None /\ ensure_created (p_ann p) (p_now p) (p_cvalid p) = None /\
   push_sig st p = (st2, RPush 4 d0 d0 [])) \/
  (lookup_dg st (p_bdg p) = None /\ exists a',
   ensure_created (p_ann p) (p_now p) (p_cvalid p) = Some a' /\
   push_sig st p = (add_absent st2 (man_entry p a'), RPush 0 (blob_desc p) (man_desc p) a')).
Proof.
  intros st p st2. unfold push_sig.
  destruct (push1_spec st (blob_desc p) (p_bc p)) as [(L & ->)|[(_ & S & _)|[(L & S & U & ->)|(L & S & U & ->)]]].
  - left. split; [exact L|reflexivity].
  - exfalso. apply S. reflexivity.
  - right; left. repeat split; auto.
  - right; right. change (d_dg (blob_desc p)) with (p_bdg p) in L.
    fold (env_entry p).
    assert (TAIL : forall s2, s2 = st2 ->
      let res := match ensure_created (p_ann p) (p_now p) (p_cvalid p) with
           | Some a' =>
               let (st3, r3) := push1 s2 (man_desc p) (man_content (p_msz p) (p_subj p) (blob_desc p) a') in
               match r3 with
               | POk | PExists => (st3, RPush 0 (blob_desc p) (man_desc p) a')
               | _ => (st3, RPush (pres_code r3) d0 d0 [])
               end
           | None => (s2, RPush 4 d0 d0 [])
           end in
      (lookup_dg st (p_bdg p) = None /\ ensure_created (p_ann p) (p_now p) (p_cvalid p) = None /\
       res = (st2, RPush 4 d0 d0 [])) \/
      (lookup_dg st (p_bdg p) = None /\ exists a',
       ensure_created (p_ann p) (p_now p) (p_cvalid p) = Some a' /\
       res = (add_absent st2 (man_entry p a'), RPush 0 (blob_desc p) (man_desc p) a'))).
    { intros s2 ->. destruct (ensure_created (p_ann p) (p_now p) (p_cvalid p)) as [a'|] eqn:EC.
      - right. split; [exact L|]. exists a'. split; [reflexivity|].
        destruct (push1_spec st2 (man_desc p) (man_content (p_msz p) (p_subj p) (blob_desc p) a'))
          as [(LM & ->)|[(_ & SM & _)|[(_ & _ & UM & _)|(LM & SM & UM & ->)]]].
        + cbn iota. f_equal. symmetry. apply add_absent_some. exact LM.
        + exfalso. apply SM. reflexivity.
        + discriminate UM.
        + cbn iota. f_equal. symmetry. apply add_absent_none. exact LM.
      - left. auto. }
    destruct (lookup_dg (env_entry p :: st) DG_EMPTY) eqn:LC.
    + apply (TAIL (env_entry p :: st)). subst st2. symmetry. apply add_absent_some.
      change (dg_of cfg_entry) with DG_EMPTY. rewrite LC. discriminate.
    + rewrite (cfg_push _ LC). apply (TAIL (cfg_entry :: env_entry p :: st)).
      subst st2. symmetry. apply add_absent_none. exact LC.
Qed.

Lemma add_absent_in : forall st e x, In x (add_absent st e) -> In x st \/ x = e.
Proof.
  intros st e x H. unfold add_absent in H. destruct (lookup_dg st (d_dg (e_d e))); auto.
  destruct H; auto.
Qed.

Lemma in_add_absent : forall st e x, In x st -> In x (add_absent st e).
Proof.
  intros st e x H. unfold add_absent. destruct (lookup_dg st (d_dg (e_d e))); auto. right; auto.
Qed.

(* ---------- provenance: every stored content was put by an operation ---------- *)
Definition entry_of_op (o : op) (e : entry) : Prop :=
  match o with
  | OpRaw d c => e = mk_entry d c
  | OpPush p =>
      e = env_entry p \/ e = cfg_entry \/
      exists a', ensure_created (p_ann p) (p_now p) (p_cvalid p) = Some a' /\ e = man_entry p a'
  | _ => False
  end.

Lemma step_prov : forall st o e, In e (fst (step st o)) -> In e st \/ entry_of_op o e.
Proof.
  intros st o e H. destruct o as [p|d c|q|d].
  - cbn [step] in H.
    destruct (push_sig_cases st p) as [(_ & E)|[(_ & _ & E)|[(_ & _ & E)|(_ & a' & EC & E)]]];
      rewrite E in H; cbn [fst] in H.
    + auto.
    + destruct H as [<-|H]; [right; left; reflexivity|auto].
    + apply add_absent_in in H as [[<-|H]| ->]; [right; left; reflexivity|auto|right; right; left; reflexivity].
    + apply add_absent_in in H as [H| ->].
      * apply add_absent_in in H as [[<-|H]| ->]; [right; left; reflexivity|auto|right; right; left; reflexivity].
      * right. right. right. exists a'. auto.
  - cbn [step] in H. destruct (push1_ext st d c) as (l & E & [Hl|Hl]); subst l.
    + destruct (push1 st d c) as [s r]. cbn in *. subst s. auto.
    + destruct (push1 st d c) as [s r]. cbn in *. subst s. destruct H as [<-|H]; [right; reflexivity|auto].
  - cbn [step] in H. destruct (list_sigs st q) as [[its|er] lg]; cbn in H; auto.
  - cbn [step] in H. destruct (fetch_sig st d) as [[b bd|er] lg]; cbn in H; auto.
Qed.

Lemma run_prov : forall ops st e, In e (fst (run_ops st ops)) ->
  In e st \/ exists o, In o ops /\ entry_of_op o e.
Proof.
  induction ops as [|o ops IH]; intros st e H; [left; exact H|].
  rewrite run_ops_cons in H. cbn [fst] in H.
  destruct (IH _ _ H) as [H1|(o' & Ho & He)].
  - destruct (step_prov st o e H1) as [H2|H2]; [left; exact H2|].
    right. exists o. split; [left; reflexivity|exact H2].
  - right. exists o'. split; [right; exact Ho|exact He].
Qed.

Theorem provenance : forall ops e, In e (state_after ops) -> exists o, In o ops /\ entry_of_op o e.
Proof. intros ops e H. destruct (run_prov ops [] e H) as [[]|H']; exact H'. Qed.

(* ---------- the listing, in words ---------- *)
(* e is a stored, indexed manifest of media type image / artifact manifest that
   parses, whose subject is q (equal on media type, digest and size) and whose
   artifact type (config media type, resp. artifactType) is notation *)
Definition sig_manifest_of (q : desc) (e : entry) : Prop :=
  e_succ e <> None /\
  (d_mt (e_d e) = MT_IMAGE \/ d_mt (e_d e) = MT_ARTIFACT) /\
  parsed (d_mt (e_d e)) (e_c e) = true /\
  m_subject (c_m (e_c e)) = Some q /\
  atype_of (d_mt (e_d e)) (e_c e) = MT_NOTATION.

Lemma sig_entry_for_iff : forall q e, sig_entry_for q e = true <-> sig_manifest_of q e.
Proof.
  intros q e. unfold sig_entry_for, sig_manifest_of. split.
  - destruct (e_succ e); [|discriminate]. intros H.
    apply andb_true_iff in H as [H Ha]. apply andb_true_iff in H as [H Hs].
    apply andb_true_iff in H as [Hm Hp].
    destruct (m_subject (c_m (e_c e))) as [s|]; [|discriminate].
    apply desc_eqb_eq in Hs. subst s. apply N.eqb_eq in Ha.
    split; [discriminate|]. split; [|auto].
    apply sigmt_cases in Hm. tauto.
  - intros (H1 & H2 & H3 & H4 & H5). destruct (e_succ e); [|congruence].
    rewrite H3, H4, H5, desc_eqb_refl, N.eqb_refl.
    destruct H2 as [-> | ->]; reflexivity.
Qed.

Lemma NoDup_map_filter {A B} (g : A -> B) (f : A -> bool) : forall l,
  NoDup (map g l) -> NoDup (map g (filter f l)).
Proof.
  induction l as [|x l IH]; intros H; [constructor|]. cbn in *. inversion H; subst.
  destruct (f x); cbn; auto. constructor; auto.
  intros Hin. apply H2. apply in_map_iff in Hin as (y & Hy & Hi). apply filter_In in Hi as [Hi _].
  apply in_map_iff. exists y. auto.
Qed.

Lemma NoDup_map_inj_in {A B} (g : A -> B) : forall l x y,
  NoDup (map g l) -> In x l -> In y l -> g x = g y -> x = y.
Proof.
  induction l as [|a l IH]; intros x y ND Hx Hy E; [destruct Hx|].
  cbn in ND. inversion ND; subst. destruct Hx as [->|Hx], Hy as [->|Hy]; auto.
  - exfalso. apply H1. rewrite E. apply in_map. exact Hy.
  - exfalso. apply H1. rewrite <- E. apply in_map. exact Hx.
Qed.

Definition item_dg (it : item) : N := d_dg (i_d it).

Lemma expected_in : forall st q it,
  In it (expected st q) <-> exists e, In e st /\ sig_manifest_of q e /\ it = item_of e.
Proof.
  intros st q it. unfold expected. rewrite in_map_iff. split.
  - intros (e & <- & H). apply filter_In in H as [Hi Hs]. exists e. rewrite <- sig_entry_for_iff. auto.
  - intros (e & Hi & Hs & ->). exists e. split; auto. apply filter_In. rewrite sig_entry_for_iff. auto.
Qed.

Lemma expected_nodup : forall st q, NoDup (map dg_of st) -> NoDup (map item_dg (expected st q)).
Proof.
  intros st q ND. unfold expected. rewrite map_map.
  change (fun x => item_dg (item_of x)) with dg_of. apply NoDup_map_filter. exact ND.
Qed.

Definition oversize_referrer (q : desc) (e : entry) : Prop :=
  (d_mt (e_d e) = MT_IMAGE \/ d_mt (e_d e) = MT_ARTIFACT) /\
  (exists ss, e_succ e = Some ss /\ In q ss) /\ (capM < d_sz (e_d e))%Z.

Lemma oversize_ref_iff : forall q e, oversize_ref q e = true <-> oversize_referrer q e.
Proof.
  intros q e. rewrite oversize_ref_cap. unfold oversize_referrer, refers. rewrite !andb_true_iff, Z.ltb_lt. split.
  - intros [[Hm Hr] Hs]. apply sigmt_cases in Hm. split; [tauto|]. split; auto.
    destruct (e_succ e) as [ss|]; [|discriminate]. exists ss. split; auto.
    apply existsb_exists in Hr as (x & Hx & He). apply desc_eqb_eq in He. now subst.
  - intros (Hm & (ss & Hs & Hq) & Hz). split; [split|]; auto.
    + unfold is_sigmt. destruct Hm as [-> | ->]; reflexivity.
    + rewrite Hs. apply existsb_exists. exists q. split; auto. apply desc_eqb_refl.
Qed.

(* C19_refines, first half: on every reachable store a listing either fails
   because a referrer of the subject exceeds the manifest cap, or is exactly
   the stored signature manifests of that subject, each once *)
Theorem listing_exact : forall ops q, forallb wf_op ops = true ->
  let st := state_after ops in
  ((exists e, In e st /\ oversize_referrer q e) -> fst (list_sigs st q) = LErr 1) /\
  (~ (exists e, In e st /\ oversize_referrer q e) ->
     exists its, fst (list_sigs st q) = LOk its /\
       NoDup (map item_dg its) /\
       forall it, In it its <-> exists e, In e st /\ sig_manifest_of q e /\ it = item_of e).
Proof.
  intros ops q W st. pose proof (state_after_inv ops W) as I. fold st in I.
  rewrite (list_sigs_spec st q I). split.
  - intros (e & Hi & Ho). apply oversize_ref_iff in Ho.
    assert (X : existsb (oversize_ref q) st = true) by (apply existsb_exists; eauto). now rewrite X.
  - intros N. destruct (existsb (oversize_ref q) st) eqn:X.
    + exfalso. apply N. apply existsb_exists in X as (e & Hi & Ho). apply oversize_ref_iff in Ho. eauto.
    + exists (expected st q). split; [reflexivity|]. split.
      * apply expected_nodup. apply I.
      * apply expected_in.
Qed.

(* every listed manifest was put there by a PushSignature for that subject or
   by a direct push of a signature manifest of that subject (the third case is
   the degenerate one of an envelope that is itself pushed under a manifest
   media type and reads as a signature manifest of the subject) *)
Theorem listing_sound : forall ops q its lg it, forallb wf_op ops = true ->
  list_sigs (state_after ops) q = (LOk its, lg) -> In it its ->
  i_at it = MT_NOTATION /\
  exists o, In o ops /\
    match o with
    | OpPush p =>
        (p_subj p = q /\ i_d it = man_desc p /\
         ensure_created (p_ann p) (p_now p) (p_cvalid p) = Some (i_ann it)) \/
        (i_d it = blob_desc p /\ sig_manifest_of q (env_entry p))
    | OpRaw d c => i_d it = d /\ sig_manifest_of q (mk_entry d c) /\ i_ann it = m_ann (c_m c)
    | _ => False
    end.
Proof.
  intros ops q its lg it W HL Hin.
  pose proof (state_after_inv ops W) as I.
  pose proof (list_sigs_spec (state_after ops) q I) as HS. rewrite HL in HS. cbn [fst] in HS.
  destruct (existsb (oversize_ref q) (state_after ops)); [discriminate|]. inversion HS; subst its.
  apply expected_in in Hin as (e & Hi & Hs & ->).
  split; [apply Hs|].
  destruct (provenance ops e Hi) as (o & Ho & He). exists o. split; [exact Ho|].
  destruct o as [p|d c|q'|d]; cbn in He; try contradiction.
  - destruct He as [->|[->|(a' & EC & ->)]].
    + right. split; [reflexivity|exact Hs].
    + exfalso. destruct Hs as (_ & _ & _ & Hsub & _). cbn in Hsub. discriminate.
    + left. destruct Hs as (_ & _ & _ & Hsub & _). cbn in Hsub. inversion Hsub. cbn. auto.
  - subst e. cbn. auto.
Qed.

(* ---------- a pushed signature is listed for its subject and round-trips ---------- *)
Lemma ensure_created_spec : forall pa now v a, ensure_created pa now v = Some a ->
  (forall kv, In kv pa -> In kv a) /\ (forall kv, In kv a -> In kv pa \/ kv = (K_CREATED, now)).
Proof.
  intros pa now v a H. unfold ensure_created in H. destruct (has_key K_CREATED pa).
  - destruct v; inversion H; subst. split; auto.
  - inversion H; subst. split; intros kv Hk; [right; exact Hk|]. destruct Hk; auto.
Qed.

Lemma grows_in : forall st st1 e, grows st st1 -> In e st -> In e st1.
Proof. intros st st1 e [l ->] H. apply in_or_app. right. exact H. Qed.

Lemma man_entry_sig : forall p a, sig_manifest_of (p_subj p) (man_entry p a).
Proof.
  intros p a. unfold sig_manifest_of, man_entry, mk_entry. cbn.
  split; [discriminate|]. split; [left; reflexivity|]. auto.
Qed.

Lemma lookup_cons : forall e st g,
  lookup_dg (e :: st) g = if dg_of e =? g then Some e else lookup_dg st g.
Proof. reflexivity. Qed.

Lemma lookup_add_absent_none : forall st e g,
  lookup_dg st g = None -> dg_of e <> g -> lookup_dg (add_absent st e) g = None.
Proof.
  intros st e g H N. unfold add_absent. destruct (lookup_dg st (d_dg (e_d e))); auto.
  rewrite lookup_cons. apply N.eqb_neq in N. now rewrite N.
Qed.

(* the store after: ops1, then a PushSignature p that reported success on a
   manifest digest not yet in the store, then any ops2 *)
Theorem push_listed : forall ops1 p ops2 st1' bd md a,
  forallb wf_op (ops1 ++ OpPush p :: ops2) = true ->
  push_sig (state_after ops1) p = (st1', RPush 0 bd md a) ->
  lookup_dg (state_after ops1) (p_mdg p) = None -> p_mdg p <> p_bdg p -> p_mdg p <> DG_EMPTY ->
  let st := state_after (ops1 ++ OpPush p :: ops2) in
  (* what was reported *)
  bd = blob_desc p /\ md = man_desc p /\
  (forall kv, In kv (p_ann p) -> In kv a) /\
  (forall kv, In kv a -> In kv (p_ann p) \/ kv = (K_CREATED, p_now p)) /\
  (* listed for its subject, with these annotations, unless the listing is refused *)
  (forall its lg, list_sigs st (p_subj p) = (LOk its, lg) -> In (I md MT_NOTATION a) its) /\
  (* and the envelope comes back: same digest (bytes), media type and size *)
  ((p_msz p <= capM)%Z -> (c_sz (p_bc p) <= capB)%Z ->
     fetch_sig st md = (FOk (p_bdg p) bd, [p_mdg p; p_bdg p])).
Proof.
  intros ops1 p ops2 st1' bd md a W HP Lm N1 N2 st.
  rewrite forallb_app in W. apply andb_true_iff in W as [W1 W2].
  assert (Wp : wf_op (OpPush p) = true) by (cbn [forallb] in W2; apply andb_true_iff in W2; tauto).
  assert (W3 : forallb wf_op ops2 = true) by (cbn [forallb] in W2; apply andb_true_iff in W2; tauto).
  pose proof (state_after_inv ops1 W1) as I1.
  assert (Est : st = fst (run_ops st1' ops2)).
  { unfold st, state_after. rewrite run_ops_app, run_ops_cons. cbn [fst step].
    fold (state_after ops1). now rewrite HP. }
  set (s1 := state_after ops1) in *.
  destruct (push_sig_sim s1 p I1 Wp) as (_ & _ & I1' & _). rewrite HP in I1'. cbn [fst] in I1'.
  destruct (run_inv ops2 st1' I1' W3) as [I G]. rewrite <- Est in I, G.
  destruct (push_sig_cases s1 p) as [(_ & E)|[(_ & _ & E)|[(_ & _ & E)|(Lb & a' & EC & E)]]];
    rewrite HP in E; inversion E; subst st1' bd md a'.
  clear E.
  assert (Lm2 : lookup_dg (add_absent (env_entry p :: s1) cfg_entry) (dg_of (man_entry p a)) = None).
  { apply lookup_add_absent_none.
    - rewrite lookup_cons. change (dg_of (env_entry p)) with (p_bdg p).
      change (dg_of (man_entry p a)) with (p_mdg p).
      assert (X : (p_bdg p =? p_mdg p) = false) by (apply N.eqb_neq; congruence). rewrite X. exact Lm.
    - change (dg_of cfg_entry) with DG_EMPTY. change (dg_of (man_entry p a)) with (p_mdg p). congruence. }
  rewrite (add_absent_none _ _ Lm2) in G.
  assert (Hem : In (man_entry p a) st) by (eapply grows_in; [exact G|left; reflexivity]).
  assert (Heb : In (env_entry p) st).
  { eapply grows_in; [exact G|]. right. apply in_add_absent. left. reflexivity. }
  destruct (ensure_created_spec _ _ _ _ EC) as [A1 A2].
  split; [reflexivity|]. split; [reflexivity|]. split; [exact A1|]. split; [exact A2|]. split.
  - intros its lg HL. pose proof (list_sigs_spec st (p_subj p) I) as HS. rewrite HL in HS. cbn [fst] in HS.
    destruct (existsb (oversize_ref (p_subj p)) st); [discriminate|]. inversion HS; subst its.
    apply expected_in. exists (man_entry p a). split; [exact Hem|]. split; [apply man_entry_sig|reflexivity].
  - intros Cm Cb. unfold fetch_sig.
    change (is_sigmt (d_mt (man_desc p))) with true. cbn [negb].
    change (d_sz (man_desc p)) with (p_msz p).
    apply Z.ltb_ge in Cm. rewrite Cm.
    pose proof (fetch_all_entry st (man_entry p a) I Hem) as F1.
    change (e_d (man_entry p a)) with (man_desc p) in F1. rewrite F1.
    change (parsed (d_mt (man_desc p)) (e_c (man_entry p a))) with true. cbn [negb].
    change (blobs_of (d_mt (man_desc p)) (e_c (man_entry p a))) with [blob_desc p].
    cbv iota beta.
    change (d_sz (blob_desc p)) with (c_sz (p_bc p)).
    apply Z.ltb_ge in Cb. rewrite Cb.
    pose proof (fetch_all_entry st (env_entry p) I Heb) as F2.
    change (e_d (env_entry p)) with (blob_desc p) in F2. rewrite F2. reflexivity.
Qed.

(* ---------- isolation ---------- *)
(* a stored content that is not a signature manifest of q is not in q's listing *)
Theorem isolation : forall ops q its lg e, forallb wf_op ops = true ->
  list_sigs (state_after ops) q = (LOk its, lg) -> In e (state_after ops) ->
  ~ sig_manifest_of q e -> ~ In (dg_of e) (map item_dg its).
Proof.
  intros ops q its lg e W HL Hi Hn Hin.
  pose proof (state_after_inv ops W) as I.
  pose proof (list_sigs_spec (state_after ops) q I) as HS. rewrite HL in HS. cbn [fst] in HS.
  destruct (existsb (oversize_ref q) (state_after ops)); [discriminate|]. inversion HS; subst its.
  apply in_map_iff in Hin as (it & Hd & Hit). apply expected_in in Hit as (e' & Hi' & Hs' & ->).
  assert (e' = e).
  { apply (NoDup_map_inj_in dg_of (state_after ops)); auto. apply I. }
  subst e'. auto.
Qed.

Lemma not_sig_other_subject : forall q e s,
  m_subject (c_m (e_c e)) = Some s ->
  (d_dg s <> d_dg q \/ d_sz s <> d_sz q \/ d_mt s <> d_mt q) -> ~ sig_manifest_of q e.
Proof.
  intros q e s Hs Hd (_ & _ & _ & Hq & _). rewrite Hs in Hq. inversion Hq; subst. intuition congruence.
Qed.

Lemma not_sig_no_subject : forall q e, m_subject (c_m (e_c e)) = None -> ~ sig_manifest_of q e.
Proof. intros q e Hs (_ & _ & _ & Hq & _). congruence. Qed.

Lemma not_sig_other_type : forall q e,
  atype_of (d_mt (e_d e)) (e_c e) <> MT_NOTATION -> ~ sig_manifest_of q e.
Proof. intros q e Ha (_ & _ & _ & _ & H). congruence. Qed.

Lemma not_sig_other_mt : forall q e,
  d_mt (e_d e) <> MT_IMAGE -> d_mt (e_d e) <> MT_ARTIFACT -> ~ sig_manifest_of q e.
Proof. intros q e H1 H2 (_ & H & _). tauto. Qed.

(* ---------- refusals, on any store ---------- *)
Theorem fetch_refused_mt : forall st d, is_sigmt (d_mt d) = false -> fetch_sig st d = (FErr 1, []).
Proof. intros st d H. unfold fetch_sig. now rewrite H. Qed.

Theorem fetch_refused_manifest_cap : forall st d, is_sigmt (d_mt d) = true -> (capM < d_sz d)%Z ->
  fetch_sig st d = (FErr 2, []).
Proof. intros st d H C. unfold fetch_sig. rewrite H. apply Z.ltb_lt in C. now rewrite C. Qed.

Theorem fetch_refused_count : forall st d c,
  is_sigmt (d_mt d) = true -> (d_sz d <= capM)%Z -> fetch_all st d = Some c ->
  parsed (d_mt d) c = true -> List.length (blobs_of (d_mt d) c) <> 1%nat ->
  fetch_sig st d = (FErr 5, [d_dg d]).
Proof.
  intros st d c H C F Pc L. unfold fetch_sig. rewrite H. apply Z.ltb_ge in C. rewrite C, F, Pc. cbn [negb].
  destruct (blobs_of (d_mt d) c) as [|b [|b2 bs]]; auto. exfalso. apply L. reflexivity.
Qed.

Theorem fetch_refused_blob_cap : forall st d c b,
  is_sigmt (d_mt d) = true -> (d_sz d <= capM)%Z -> fetch_all st d = Some c ->
  parsed (d_mt d) c = true -> blobs_of (d_mt d) c = [b] -> (capB < d_sz b)%Z ->
  fetch_sig st d = (FErr 6, [d_dg d]).
Proof.
  intros st d c b H C F Pc L Cb. unfold fetch_sig. rewrite H. apply Z.ltb_ge in C. rewrite C, F, Pc, L. cbn [negb].
  apply Z.ltb_lt in Cb. now rewrite Cb.
Qed.

(* a successful fetch: everything was within the caps, the manifest had exactly
   one blob, the descriptor returned is that blob's, the bytes are those stored
   under its digest with its size, and only these two contents were fetched *)
Theorem fetch_ok_inv : forall st d blob bd lg, fetch_sig st d = (FOk blob bd, lg) ->
  is_sigmt (d_mt d) = true /\ (d_sz d <= capM)%Z /\
  exists c, fetch_all st d = Some c /\ parsed (d_mt d) c = true /\ blobs_of (d_mt d) c = [bd] /\
    (d_sz bd <= capB)%Z /\ blob = d_dg bd /\ lg = [d_dg d; d_dg bd] /\
    exists cb, fetch_all st bd = Some cb /\ c_sz cb = d_sz bd.
Proof.
  intros st d blob bd lg H. unfold fetch_sig in H.
  destruct (is_sigmt (d_mt d)) eqn:M; cbn [negb] in H; [|discriminate].
  destruct (capM <? d_sz d)%Z eqn:Cm; [discriminate|]. apply Z.ltb_ge in Cm.
  destruct (fetch_all st d) as [c|] eqn:F; [|discriminate].
  destruct (parsed (d_mt d) c) eqn:Pc; cbn [negb] in H; [|discriminate].
  destruct (blobs_of (d_mt d) c) as [|b [|b2 bs]] eqn:Bl; try discriminate.
  destruct (capB <? d_sz b)%Z eqn:Cb; [discriminate|]. apply Z.ltb_ge in Cb.
  destruct (fetch_all st b) as [cb|] eqn:Fb; [|discriminate]. inversion H; subst.
  split; auto. split; auto. exists c. repeat split; auto. exists cb. split; auto.
  apply fetch_all_some in Fb as (e & _ & _ & <- & Hs & _). auto.
Qed.

(* ---------- the listing loop, node by node (any store, any node list) ---------- *)
Definition v_err (st : state) (q n : desc) : bool :=
  match fst (visit st q n) with VErr _ => true | _ => false end.
Definition v_keep (st : state) (q n : desc) : list item :=
  match fst (visit st q n) with VKeep it => [it] | _ => [] end.

Lemma list_loop_ok : forall st q ns, existsb (v_err st q) ns = false ->
  fst (list_loop st q ns) = LOk (flat_map (v_keep st q) ns).
Proof.
  intros st q. induction ns as [|n ns IH]; intros H; [reflexivity|].
  cbn [existsb] in H. apply orb_false_iff in H as [H1 H2]. specialize (IH H2).
  cbn [list_loop flat_map]. unfold v_err in H1. unfold v_keep at 1.
  destruct (visit st q n) as [[|it|e] lg]; cbn [fst] in *; try discriminate.
  - destruct (list_loop st q ns) as [r lg']. cbn in *. now subst.
  - destruct (list_loop st q ns) as [r lg']. cbn in *. subst. reflexivity.
Qed.

Lemma list_loop_err : forall st q ns, existsb (v_err st q) ns = true ->
  exists e, fst (list_loop st q ns) = LErr e.
Proof.
  intros st q. induction ns as [|n ns IH]; intros H; [discriminate|].
  cbn [existsb] in H. cbn [list_loop]. unfold v_err at 1 in H.
  destruct (visit st q n) as [[|it|e] lg]; cbn [fst orb] in *.
  - destruct (IH H) as [e He]. destruct (list_loop st q ns) as [r lg']. cbn in *. eauto.
  - destruct (IH H) as [e He]. destruct (list_loop st q ns) as [r lg']. cbn in *. subst. eauto.
  - eauto.
Qed.

Lemma existsb_perm {A} (f : A -> bool) : forall l l', Permutation l l' -> existsb f l = existsb f l'.
Proof.
  intros l l' HP. destruct (existsb f l) eqn:E1, (existsb f l') eqn:E2; auto.
  - apply existsb_exists in E1 as (x & Hx & Hf).
    assert (X : existsb f l' = true) by (apply existsb_exists; exists x; split; auto; eapply Permutation_in; eauto).
    congruence.
  - apply existsb_exists in E2 as (x & Hx & Hf).
    assert (X : existsb f l = true).
    { apply existsb_exists; exists x; split; auto. eapply Permutation_in; [apply Permutation_sym; eauto|auto]. }
    congruence.
Qed.

(* the order in which Predecessors hands out the nodes (a Go map iteration) is
   immaterial: failure is preserved and successful listings are permutations *)
Theorem list_loop_perm : forall st q ns ns', Permutation ns ns' ->
  ((exists e, fst (list_loop st q ns) = LErr e) <-> (exists e, fst (list_loop st q ns') = LErr e)) /\
  (forall its, fst (list_loop st q ns) = LOk its ->
     exists its', fst (list_loop st q ns') = LOk its' /\ Permutation its its').
Proof.
  intros st q ns ns' HP. pose proof (existsb_perm (v_err st q) ns ns' HP) as EP.
  destruct (existsb (v_err st q) ns) eqn:E1.
  - destruct (list_loop_err st q ns E1) as [e He]. symmetry in EP.
    destruct (list_loop_err st q ns' EP) as [e' He']. split.
    + split; eauto.
    + intros its H. congruence.
  - symmetry in EP. rewrite (list_loop_ok st q ns E1), (list_loop_ok st q ns' EP). split.
    + split; intros [e He]; discriminate.
    + intros its H. inversion H; subst. eexists; split; [reflexivity|].
      apply Permutation_flat_map; auto.
Qed.

(* a referrer above the manifest cap makes the listing fail, and no content
   above the cap is ever fetched by a listing *)
Lemma visit_oversize : forall st q n, is_sigmt (d_mt n) = true -> (capM < d_sz n)%Z ->
  visit st q n = (VErr 1, []).
Proof. intros st q n M C. unfold visit. rewrite M. apply Z.ltb_lt in C. now rewrite C. Qed.

Lemma visit_log : forall st q n g, In g (snd (visit st q n)) ->
  g = d_dg n /\ is_sigmt (d_mt n) = true /\ (d_sz n <= capM)%Z.
Proof.
  intros st q n g H. unfold visit in H.
  destruct (is_sigmt (d_mt n)) eqn:M; [|destruct H].
  destruct (capM <? d_sz n)%Z eqn:C; [destruct H|]. apply Z.ltb_ge in C.
  assert (X : In g [d_dg n]).
  { destruct (fetch_all st n) as [c|]; [|exact H].
    destruct (parsed (d_mt n) c); cbn [negb] in H; [|exact H].
    destruct (m_subject (c_m c)) as [s|]; [|exact H].
    destruct (desc_eqb s q); cbn [negb] in H; [|exact H].
    destruct (atype_of (d_mt n) c =? MT_NOTATION); exact H. }
  destruct X as [<-|[]]. auto.
Qed.

Lemma list_loop_log_any : forall st q ns g, In g (snd (list_loop st q ns)) ->
  exists n, In n ns /\ g = d_dg n /\ is_sigmt (d_mt n) = true /\ (d_sz n <= capM)%Z.
Proof.
  intros st q. induction ns as [|n ns IH]; intros g H; [destruct H|].
  cbn [list_loop] in H. destruct (visit st q n) as [v lg] eqn:V.
  assert (HV : forall x, In x lg -> exists m, In m (n :: ns) /\ x = d_dg m /\ is_sigmt (d_mt m) = true /\ (d_sz m <= capM)%Z).
  { intros x Hx. exists n. split; [left; reflexivity|]. apply (visit_log st q n x). now rewrite V. }
  assert (HR : forall x, In x (snd (list_loop st q ns)) ->
             exists m, In m (n :: ns) /\ x = d_dg m /\ is_sigmt (d_mt m) = true /\ (d_sz m <= capM)%Z).
  { intros x Hx. destruct (IH x Hx) as (m & Hm & R). exists m. split; [right; exact Hm|exact R]. }
  destruct v as [|it|e].
  - destruct (list_loop st q ns) as [r lg']. cbn [snd] in *. apply in_app_or in H as [H|H]; auto.
  - destruct (list_loop st q ns) as [[its|e] lg']; cbn [snd] in *; apply in_app_or in H as [H|H]; auto.
  - cbn [snd] in H. auto.
Qed.

Theorem list_refused : forall st q n,
  In n (predecessors st q) -> is_sigmt (d_mt n) = true -> (capM < d_sz n)%Z ->
  (exists e, fst (list_sigs st q) = LErr e) /\
  (forall g, In g (snd (list_sigs st q)) ->
     exists m, In m (predecessors st q) /\ g = d_dg m /\ (d_sz m <= capM)%Z).
Proof.
  intros st q n Hin M C. unfold list_sigs. split.
  - apply list_loop_err. apply existsb_exists. exists n. split; auto.
    unfold v_err. now rewrite (visit_oversize st q n M C).
  - intros g Hg. destruct (list_loop_log_any st q _ g Hg) as (m & Hm & -> & _ & Hs). eauto.
Qed.

(* the caps the model uses are the constants of registry/repository.go *)
Lemma caps_values : capM = 4194304%Z /\ capB = 33554432%Z.
Proof. split; reflexivity. Qed.

Theorem isolation_cases : forall ops q its lg e, forallb wf_op ops = true ->
  list_sigs (state_after ops) q = (LOk its, lg) -> In e (state_after ops) ->
  ( m_subject (c_m (e_c e)) = None
    \/ (exists s, m_subject (c_m (e_c e)) = Some s /\
                  (d_dg s <> d_dg q \/ d_sz s <> d_sz q \/ d_mt s <> d_mt q))
    \/ atype_of (d_mt (e_d e)) (e_c e) <> MT_NOTATION
    \/ (d_mt (e_d e) <> MT_IMAGE /\ d_mt (e_d e) <> MT_ARTIFACT) ) ->
  ~ In (dg_of e) (map item_dg its).
Proof.
  intros ops q its lg e W HL Hi H. eapply isolation; eauto.
  destruct H as [H|[(s & Hs & Hd)|[H|[H1 H2]]]].
  - now apply not_sig_no_subject.
  - eapply not_sig_other_subject; eauto.
  - now apply not_sig_other_type.
  - now apply not_sig_other_mt.
Qed.

(* ---------- what a successful push leaves in every later store (used by C19_Compose) ---------- *)
Lemma push_entries_present : forall ops1 p ops2 st1' bd md a,
  forallb wf_op (ops1 ++ OpPush p :: ops2) = true ->
  push_sig (state_after ops1) p = (st1', RPush 0 bd md a) ->
  lookup_dg (state_after ops1) (p_mdg p) = None -> p_mdg p <> p_bdg p -> p_mdg p <> DG_EMPTY ->
  let st := state_after (ops1 ++ OpPush p :: ops2) in
  Inv st /\ In (man_entry p a) st /\ In (env_entry p) st /\
  ensure_created (p_ann p) (p_now p) (p_cvalid p) = Some a /\ bd = blob_desc p /\ md = man_desc p.
Proof.
  intros ops1 p ops2 st1' bd md a W HP Lm N1 N2 st.
  rewrite forallb_app in W. apply andb_true_iff in W as [W1 W2].
  assert (Wp : wf_op (OpPush p) = true) by (cbn [forallb] in W2; apply andb_true_iff in W2; tauto).
  assert (W3 : forallb wf_op ops2 = true) by (cbn [forallb] in W2; apply andb_true_iff in W2; tauto).
  pose proof (state_after_inv ops1 W1) as I1.
  assert (Est : st = fst (run_ops st1' ops2)).
  { unfold st, state_after. rewrite run_ops_app, run_ops_cons. cbn [fst step].
    fold (state_after ops1). now rewrite HP. }
  set (s1 := state_after ops1) in *.
  destruct (push_sig_sim s1 p I1 Wp) as (_ & _ & I1' & _). rewrite HP in I1'. cbn [fst] in I1'.
  destruct (run_inv ops2 st1' I1' W3) as [I G]. rewrite <- Est in I, G.
  destruct (push_sig_cases s1 p) as [(_ & E)|[(_ & _ & E)|[(_ & _ & E)|(Lb & a' & EC & E)]]];
    rewrite HP in E; inversion E; subst st1' bd md a'.
  clear E.
  assert (Lm2 : lookup_dg (add_absent (env_entry p :: s1) cfg_entry) (dg_of (man_entry p a)) = None).
  { apply lookup_add_absent_none.
    - rewrite lookup_cons. change (dg_of (env_entry p)) with (p_bdg p).
      change (dg_of (man_entry p a)) with (p_mdg p).
      assert (X : (p_bdg p =? p_mdg p) = false) by (apply N.eqb_neq; congruence). rewrite X. exact Lm.
    - change (dg_of cfg_entry) with DG_EMPTY. change (dg_of (man_entry p a)) with (p_mdg p). congruence. }
  rewrite (add_absent_none _ _ Lm2) in G.
  split; [exact I|]. split; [eapply grows_in; [exact G|left; reflexivity]|].
  split; [eapply grows_in; [exact G|]; right; apply in_add_absent; left; reflexivity|].
  auto.
Qed.
