(* C19_Proofs.v — proofs about C19_Model: the store invariant, the listing as
   a filter of the ledger of stored contents, isolation, refusals, the
   round trip of a pushed signature, order independence of the listing loop,
   and the model meets the property oracle. No axioms. *)
From Coq Require Import Permutation.
From NV Require Import Base Generated C19_Model.
Open Scope list_scope.
Open Scope N_scope.

(* ---------- equalities ---------- *)
Lemma desc_eqb_eq : forall a b, desc_eqb a b = true <-> a = b.
Proof.
  intros [m1 g1 s1] [m2 g2 s2]. unfold desc_eqb; cbn.
  rewrite !andb_true_iff, Z.eqb_eq, !N.eqb_eq. split.
  - intros [[-> ->] ->]. reflexivity.
  - intros H. inversion H. auto.
Qed.

Lemma desc_eqb_refl : forall a, desc_eqb a a = true.
Proof. intros a. apply desc_eqb_eq. reflexivity. Qed.

Lemma desc_eqb_sym : forall a b, desc_eqb a b = desc_eqb b a.
Proof.
  intros a b. destruct (desc_eqb a b) eqn:E1, (desc_eqb b a) eqn:E2; auto.
  - apply desc_eqb_eq in E1. subst. rewrite desc_eqb_refl in E2. discriminate.
  - apply desc_eqb_eq in E2. subst. rewrite desc_eqb_refl in E1. discriminate.
Qed.

Lemma ann_eqb_refl : forall a, ann_eqb a a = true.
Proof.
  induction a as [|[k v] a IH]; cbn; auto. rewrite !N.eqb_refl. exact IH.
Qed.

Lemma list_eqb_N_refl : forall l, list_eqb N.eqb l l = true.
Proof. induction l; cbn; auto. rewrite N.eqb_refl. exact IHl. Qed.

Lemma item_eqb_refl : forall i, item_eqb i i = true.
Proof.
  intros [d a n]. unfold item_eqb; cbn. now rewrite desc_eqb_refl, N.eqb_refl, ann_eqb_refl.
Qed.

Lemma perm_eqb_refl {A} (eqb : A -> A -> bool) :
  (forall x, eqb x x = true) -> forall l, perm_eqb eqb l l = true.
Proof. intros R. induction l; cbn; auto. rewrite R. exact IHl. Qed.

(* ---------- the store invariant ---------- *)
Definition dg_of (e : entry) : N := d_dg (e_d e).

Definition entry_ok (e : entry) : Prop :=
  d_sz (e_d e) = c_sz (e_c e) /\ (0 <= c_sz (e_c e))%Z /\
  e_succ e = successors (d_mt (e_d e)) (e_c e).

Definition Inv (st : state) : Prop :=
  NoDup (map dg_of st) /\ Forall entry_ok st.

Lemma Inv_nil : Inv [].
Proof. split; constructor. Qed.

Lemma lookup_none_notin : forall st g, lookup_dg st g = None -> ~ In g (map dg_of st).
Proof.
  intros st g H Hin. apply in_map_iff in Hin as (e & He & Hi).
  unfold lookup_dg in H. pose proof (find_none _ _ H e Hi) as F. cbn in F.
  unfold dg_of in He. rewrite He, N.eqb_refl in F. discriminate.
Qed.

Lemma lookup_in : forall st e, NoDup (map dg_of st) -> In e st -> lookup_dg st (dg_of e) = Some e.
Proof.
  induction st as [|x st IH]; intros e ND Hin; [destruct Hin|].
  inversion ND as [|? ? Hn ND']; subst. unfold lookup_dg; cbn.
  destruct Hin as [->|Hin].
  - unfold dg_of. now rewrite N.eqb_refl.
  - destruct (d_dg (e_d x) =? dg_of e) eqn:E.
    + apply N.eqb_eq in E. exfalso. apply Hn. apply in_map_iff. exists e. split; auto.
    + apply IH; auto.
Qed.

Lemma lookup_some_in : forall st g e, lookup_dg st g = Some e -> In e st /\ dg_of e = g.
Proof.
  intros st g e H. apply find_some in H as [Hi He]. split; auto. now apply N.eqb_eq in He.
Qed.

Lemma fetch_all_entry : forall st e, Inv st -> In e st -> fetch_all st (e_d e) = Some (e_c e).
Proof.
  intros st e [ND FA] Hin. unfold fetch_all.
  change (d_dg (e_d e)) with (dg_of e). rewrite (lookup_in st e ND Hin).
  rewrite Forall_forall in FA. destruct (FA e Hin) as (Hs & H0 & _).
  rewrite Hs, Z.eqb_refl. apply Z.leb_le in H0. now rewrite H0.
Qed.

Lemma fetch_all_some : forall st d c, fetch_all st d = Some c ->
  exists e, In e st /\ dg_of e = d_dg d /\ e_c e = c /\ d_sz d = c_sz c /\ (0 <= d_sz d)%Z.
Proof.
  intros st d c H. unfold fetch_all in H. destruct (lookup_dg st (d_dg d)) as [e|] eqn:L; [|discriminate].
  apply lookup_some_in in L as [Hi Hg].
  destruct ((0 <=? d_sz d)%Z && (d_sz d =? c_sz (e_c e))%Z) eqn:B; [|discriminate].
  apply andb_true_iff in B as [B1 B2]. apply Z.leb_le in B1. apply Z.eqb_eq in B2.
  inversion H; subst. exists e. auto.
Qed.

(* ---------- push1 ---------- *)
Lemma push1_spec : forall st d c,
  (lookup_dg st (d_dg d) <> None /\ push1 st d c = (st, PExists)) \/
  (lookup_dg st (d_dg d) = None /\ d_sz d <> c_sz c /\ push1 st d c = (st, PMismatch)) \/
  (lookup_dg st (d_dg d) = None /\ d_sz d = c_sz c /\ successors (d_mt d) c = None /\
   push1 st d c = (mk_entry d c :: st, PBadJSON)) \/
  (lookup_dg st (d_dg d) = None /\ d_sz d = c_sz c /\ successors (d_mt d) c <> None /\
   push1 st d c = (mk_entry d c :: st, POk)).
Proof.
  intros st d c. unfold push1, mk_entry.
  destruct (lookup_dg st (d_dg d)) eqn:L.
  - left. split; [discriminate|reflexivity].
  - right. destruct (d_sz d =? c_sz c)%Z eqn:S; cbn.
    + apply Z.eqb_eq in S. right.
      destruct (successors (d_mt d) c) eqn:U.
      * right. repeat split; auto. discriminate.
      * left. repeat split; auto.
    + apply Z.eqb_neq in S. left. repeat split; auto.
Qed.

Lemma Inv_cons : forall st d c,
  Inv st -> lookup_dg st (d_dg d) = None -> d_sz d = c_sz c -> (0 <= c_sz c)%Z ->
  Inv (mk_entry d c :: st).
Proof.
  intros st d c [ND FA] L S P. split; cbn.
  - constructor; auto. apply lookup_none_notin. exact L.
  - constructor; auto. unfold entry_ok, mk_entry; cbn. auto.
Qed.

Lemma push1_inv : forall st d c, Inv st -> (0 <= c_sz c)%Z -> Inv (fst (push1 st d c)).
Proof.
  intros st d c I P.
  destruct (push1_spec st d c) as [(_ & ->)|[(_ & _ & ->)|[(L & S & _ & ->)|(L & S & _ & ->)]]]; cbn; auto;
    apply Inv_cons; auto.
Qed.

Lemma push1_ext : forall st d c, exists l, fst (push1 st d c) = l ++ st /\
  (l = [] \/ l = [mk_entry d c]).
Proof.
  intros st d c.
  destruct (push1_spec st d c) as [(_ & ->)|[(_ & _ & ->)|[(L & S & _ & ->)|(L & S & _ & ->)]]]; cbn.
  - exists []. auto.
  - exists []. auto.
  - exists [mk_entry d c]. auto.
  - exists [mk_entry d c]. auto.
Qed.

Lemma successors_none_graph : forall mt c, successors mt c = None -> is_graph_mt mt = true.
Proof.
  intros mt c. unfold successors, is_graph_mt.
  destruct (mt =? MT_DMAN) eqn:E1; [intros _; now rewrite !orb_true_r|].
  destruct (mt =? MT_IMAGE) eqn:E2; [intros _; reflexivity|].
  destruct (mt =? MT_DLIST) eqn:E3; [intros _; now rewrite !orb_true_r|].
  destruct (mt =? MT_INDEX) eqn:E4; [intros _; now rewrite !orb_true_r|].
  destruct (mt =? MT_ARTIFACT) eqn:E5; [intros _; now rewrite !orb_true_r|].
  discriminate.
Qed.

(* ---------- views ---------- *)
Lemma sigmt_cases : forall mt, is_sigmt mt = true -> mt = MT_ARTIFACT \/ mt = MT_IMAGE.
Proof.
  intros mt H. unfold is_sigmt in H. apply orb_true_iff in H as [H|H]; apply N.eqb_eq in H; auto.
Qed.

(* an indexed entry under a manifest media type parses, and its subject is
   among its successors *)
Lemma indexed_parsed : forall e ss, entry_ok e -> e_succ e = Some ss -> is_sigmt (d_mt (e_d e)) = true ->
  parsed (d_mt (e_d e)) (e_c e) = true /\
  (forall s, m_subject (c_m (e_c e)) = Some s -> In s ss).
Proof.
  intros e ss (_ & _ & Hs) He Hm. rewrite He in Hs. symmetry in Hs.
  apply sigmt_cases in Hm as [Hm|Hm]; rewrite Hm in *; unfold successors, parsed in *; cbn in *.
  - destruct (c_art (e_c e)); [|discriminate]. split; auto. intros s Hsub.
    inversion Hs; subst. rewrite Hsub. cbn. auto.
  - destruct (c_img (e_c e)); [|discriminate]. split; auto. intros s Hsub.
    inversion Hs; subst. rewrite Hsub. cbn. auto.
Qed.

Lemma sig_entry_refers : forall q e, entry_ok e -> sig_entry_for q e = true -> refers q e = true.
Proof.
  intros q e Hok H. unfold sig_entry_for in H. unfold refers.
  destruct (e_succ e) as [ss|] eqn:He; [|discriminate].
  apply andb_true_iff in H as [H Ha]. apply andb_true_iff in H as [H Hs].
  apply andb_true_iff in H as [Hm Hp].
  destruct (m_subject (c_m (e_c e))) as [s|] eqn:Hsub; [|discriminate].
  apply desc_eqb_eq in Hs. subst s.
  destruct (indexed_parsed e ss Hok He Hm) as [_ Hin].
  apply existsb_exists. exists q. split; [apply Hin; exact Hsub|apply desc_eqb_refl].
Qed.

(* ---------- one visit of the listing loop on a stored entry ---------- *)
Lemma visit_entry : forall st q e, Inv st -> In e st -> refers q e = true ->
  visit st q (e_d e) =
  if is_sigmt (d_mt (e_d e)) then
    if (capM <? d_sz (e_d e))%Z then (VErr 1, [])
    else ((if sig_entry_for q e then VKeep (item_of e) else VSkip), [dg_of e])
  else (VSkip, []).
Proof.
  intros st q e I Hin Hr. unfold visit.
  destruct (is_sigmt (d_mt (e_d e))) eqn:Hm; [|reflexivity].
  destruct (capM <? d_sz (e_d e))%Z; [reflexivity|].
  rewrite (fetch_all_entry st e I Hin).
  destruct I as [_ FA]. rewrite Forall_forall in FA. pose proof (FA e Hin) as Hok.
  unfold refers in Hr. destruct (e_succ e) as [ss|] eqn:He; [|discriminate].
  destruct (indexed_parsed e ss Hok He Hm) as [Hp _].
  rewrite Hp; cbn. unfold sig_entry_for, item_of, dg_of. rewrite He, Hm, Hp; cbn.
  destruct (m_subject (c_m (e_c e))) as [s|]; [|reflexivity].
  destruct (desc_eqb s q); cbn; [|reflexivity].
  destruct (atype_of (d_mt (e_d e)) (e_c e) =? MT_NOTATION); reflexivity.
Qed.

(* ---------- the listing is the filter of the ledger ---------- *)
Lemma expected_cons : forall e l q,
  expected (e :: l) q = (if sig_entry_for q e then [item_of e] else []) ++ expected l q.
Proof. intros. unfold expected; cbn. destruct (sig_entry_for q e); reflexivity. Qed.

Lemma list_loop_spec : forall st q, Inv st -> forall l, incl l st ->
  fst (list_loop st q (map e_d (filter (refers q) l))) =
  if existsb (oversize_ref q) l then LErr 1 else LOk (expected l q).
Proof.
  intros st q I. induction l as [|e l IH]; intros Hincl; [reflexivity|].
  assert (Hin : In e st) by (apply Hincl; left; reflexivity).
  assert (Hl : incl l st) by (intros x Hx; apply Hincl; right; exact Hx).
  specialize (IH Hl). rewrite expected_cons. cbn [filter existsb].
  assert (Hok : entry_ok e) by (destruct I as [_ FA]; rewrite Forall_forall in FA; auto).
  destruct (refers q e) eqn:Hr.
  - cbn [map list_loop]. rewrite (visit_entry st q e I Hin Hr).
    unfold oversize_ref at 1. rewrite Hr.
    destruct (is_sigmt (d_mt (e_d e))) eqn:Hm; cbn [andb orb].
    + destruct (capM <? d_sz (e_d e))%Z eqn:Hc; cbn [andb orb]; [reflexivity|].
      destruct (sig_entry_for q e) eqn:Hs.
      * destruct (list_loop st q (map e_d (filter (refers q) l))) as [r lg] eqn:LL. cbn in IH. subst r.
        destruct (existsb (oversize_ref q) l); reflexivity.
      * destruct (list_loop st q (map e_d (filter (refers q) l))) as [r lg] eqn:LL. cbn in IH. subst r.
        destruct (existsb (oversize_ref q) l); reflexivity.
    + assert (Hs : sig_entry_for q e = false).
      { unfold sig_entry_for. destruct (e_succ e); auto. now rewrite Hm. }
      rewrite Hs.
      destruct (list_loop st q (map e_d (filter (refers q) l))) as [r lg] eqn:LL. cbn in IH. subst r.
      destruct (existsb (oversize_ref q) l); reflexivity.
  - assert (Hs : sig_entry_for q e = false).
    { destruct (sig_entry_for q e) eqn:Hs; auto. rewrite (sig_entry_refers q e Hok Hs) in Hr. discriminate. }
    rewrite Hs. unfold oversize_ref at 1. rewrite Hr, andb_false_r. cbn [andb orb app]. exact IH.
Qed.

(* every digest handed to Fetch by a listing is that of a stored manifest
   within the manifest cap *)
Lemma list_loop_log : forall st q, Inv st -> forall l, incl l st ->
  Forall (fun g => exists e, In e l /\ dg_of e = g /\ (d_sz (e_d e) <= capM)%Z)
         (snd (list_loop st q (map e_d (filter (refers q) l)))).
Proof.
  intros st q I. induction l as [|e l IH]; intros Hincl; [constructor|].
  assert (Hin : In e st) by (apply Hincl; left; reflexivity).
  assert (Hl : incl l st) by (intros x Hx; apply Hincl; right; exact Hx).
  specialize (IH Hl).
  assert (IH' : Forall (fun g => exists e0, In e0 (e :: l) /\ dg_of e0 = g /\ (d_sz (e_d e0) <= capM)%Z)
                       (snd (list_loop st q (map e_d (filter (refers q) l))))).
  { eapply Forall_impl; [|exact IH]. intros g (e0 & H1 & H2). exists e0. split; [right; auto|auto]. }
  cbn [filter]. destruct (refers q e) eqn:Hr; [|exact IH'].
  cbn [map list_loop]. rewrite (visit_entry st q e I Hin Hr).
  destruct (is_sigmt (d_mt (e_d e))) eqn:Hm.
  - destruct (capM <? d_sz (e_d e))%Z eqn:Hc; [constructor|].
    apply Z.ltb_ge in Hc.
    assert (Hhd : exists e0, In e0 (e :: l) /\ dg_of e0 = dg_of e /\ (d_sz (e_d e0) <= capM)%Z)
      by (exists e; split; [left; auto|auto]).
    destruct (sig_entry_for q e);
      destruct (list_loop st q (map e_d (filter (refers q) l))) as [[its|er] lg]; cbn in *;
      constructor; auto.
  - destruct (list_loop st q (map e_d (filter (refers q) l))) as [r lg]; cbn in *. exact IH'.
Qed.

Lemma list_sigs_spec : forall st q, Inv st ->
  fst (list_sigs st q) = if existsb (oversize_ref q) st then LErr 1 else LOk (expected st q).
Proof. intros st q I. unfold list_sigs, predecessors. apply list_loop_spec; auto. apply incl_refl. Qed.

Lemma list_sigs_log : forall st q, Inv st ->
  Forall (fun g => exists e, In e st /\ dg_of e = g /\ (d_sz (e_d e) <= capM)%Z) (snd (list_sigs st q)).
Proof. intros st q I. unfold list_sigs, predecessors. apply list_loop_log; auto. apply incl_refl. Qed.
